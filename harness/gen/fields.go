package gen

import (
	"fmt"
	"sort"
	"strconv"
	"strings"
	"unicode/utf8"

	"verif/harness/impl"
)

// Spec / value generators over the grammar of DESIGN.md §2 (coherent by construction),
// plus mutation helpers for the malformed stream.

type T = impl.Tree

var A = impl.A
var N = impl.N

type FieldGen struct {
	R *Rng
	// OutOfDomain is set by Value when it knowingly leaves the value domain (over-length
	// values, positional runs that can not be kept non-empty on the wire)
	OutOfDomain bool
	// distribution counters (printed into the evidence)
	Dist map[string]int
}

func NewFieldGen(r *Rng) *FieldGen { return &FieldGen{R: r, Dist: map[string]int{}} }

func (g *FieldGen) count(k string) { g.Dist[k]++ }

var valueEncs = []string{"ascii", "ebcdic", "ebcdic1047", "binary", "bcd", "lbcd", "bytesToHex"}

func prefCapacity(fam string, d int) int {
	c := 1
	base := 10
	if fam == "binary" || fam == "hex" {
		base = 256
	}
	for i := 0; i < d && c < 1<<40; i++ {
		c *= base
	}
	return c - 1
}

// Prim generates a coherent primitive field spec. last = may use the None prefix.
func (g *FieldGen) Prim(allowNone bool) *T {
	r := g.R
	kind := Pick(r, []string{"s", "s", "n", "b", "h"})
	enc := Pick(r, valueEncs)
	// K1: ASCIIHexToBytes only as String + Hex.Fixed, unpadded
	if kind == "s" && r.Intn(12) == 0 {
		l := r.Intn(6)
		g.count("prim s hexToBytes hex.F")
		return N("p", A("s"), A(strconv.Itoa(l)), A("hexToBytes"), A("hex.F"), A("nil"), A("d"))
	}
	switch kind {
	case "n":
		if enc == "lbcd" && r.Bool() {
			enc = "bcd"
		}
	case "h":
		enc = Pick(r, []string{"binary", "bytesToHex", "ebcdic", "ascii"})
	}
	fam := Pick(r, PrefFams)
	for fam == "hex" && r.Intn(3) != 0 { // hex var prefixes are fine; keep them a bit rarer
		fam = Pick(r, PrefFams)
	}
	fixed := r.Intn(4) == 0
	d := 1 + r.Intn(6)
	if r.Intn(3) == 0 {
		d = 1 + r.Intn(3)
	}
	length := Pick(r, []int{0, 1, 2, 3, 4, 5, 7, 8, 9, 10, 11, 16, 19, 37, 99, 100, 255, 256, 999})
	if r.Intn(3) == 0 {
		length = r.Intn(24)
	}
	capa := prefCapacity(fam, d)
	pad := "nil"
	switch r.Intn(5) {
	case 0:
		pad = "none"
	case 1, 2:
		c := byte(' ')
		switch r.Intn(4) {
		case 0:
			c = '0'
		case 1:
			c = byte(r.Intn(128))
		case 2:
			c = 'F'
		}
		side := Pick(r, []string{"L", "R"})
		pad = fmt.Sprintf("%s%02x", side, c)
	}
	isBCD := enc == "bcd" || enc == "lbcd"
	if isBCD && pad != "nil" && pad != "none" {
		// K3: pad byte must be a digit
		pad = pad[:1] + fmt.Sprintf("%02x", '0'+byte(r.Intn(10)))
	}
	if kind == "n" {
		if length == 0 {
			length = 1 + r.Intn(12)
		}
		if length > 18 {
			length = 1 + r.Intn(18)
		}
		// K3: Left '0' or a pad that is not in 0-9+-; Right pad not in 0-9+-
		if pad != "nil" && pad != "none" {
			if pad[0] == 'L' && (r.Bool() || isBCD) {
				pad = "L30"
			} else if isBCD {
				pad = "L30"
			} else {
				c := Pick(r, []byte{' ', 'x', '*', 0x00, 0x7f})
				pad = pad[:1] + fmt.Sprintf("%02x", c)
			}
		}
		if fixed && (pad == "nil" || pad == "none") {
			pad = "L30"
		}
	}
	if fixed && fam == "hex" {
		fam = Pick(r, []string{"ascii", "bcd", "binary", "ebcdic", "ebcdic1047"}) // Hex.Fixed only with hexToBytes (K1)
	}
	padded := pad != "nil" && pad != "none"
	if !fixed && padded && length > capa {
		length = capa
	}
	pref := fmt.Sprintf("%s.%d", fam, d)
	if fixed {
		pref = fam + ".F"
	}
	if allowNone && !padded && r.Intn(3) == 0 && (enc == "ascii" || enc == "ebcdic" || enc == "ebcdic1047" || enc == "binary") {
		pref = "none" // K7: one byte per unit
	}
	packer := "d"
	if kind == "s" && r.Intn(14) == 0 && (enc == "bcd" || enc == "ascii" || enc == "ebcdic") && !fixed && pref != "none" {
		packer = "t2"
		if !padded {
			pad = "R30"
			if enc != "bcd" {
				pad = "R46"
			}
		}
	}
	g.count("prim " + kind + " " + enc + " " + strings.Split(pref, ".")[0] + " pad=" + pad[:1] + " " + packer)
	return N("p", A(kind), A(strconv.Itoa(length)), A(enc), A(pref), A(pad), A(packer))
}

var tagAlphabet = []byte("0123456789ABCDEFabcdefGHxyz")

func (g *FieldGen) berTag() string {
	r := g.R
	first := byte(r.U64())
	if r.Intn(3) != 0 {
		first &^= 0x1F
		first |= byte(r.Intn(31))
		if first&0x1F == 0x1F {
			first &^= 0x01
		}
		return strings.ToUpper(fmt.Sprintf("%02x", first))
	}
	first |= 0x1F
	out := []byte{first}
	more := r.Intn(3)
	if r.Intn(6) == 0 {
		more = 3 + r.Intn(2) // five- and six-byte tags: BER does not stop at four
	}
	for k := more; k > 0; k-- {
		out = append(out, byte(r.U64())|0x80)
	}
	out = append(out, byte(r.U64())&0x7F)
	return strings.ToUpper(fmt.Sprintf("%x", out))
}

// Comp generates a coherent composite field spec of the given remaining depth.
func (g *FieldGen) Comp(depth int, allowNone bool) *T {
	r := g.R
	if !allowNone && r.Intn(8) == 0 {
		// fixed-width tags shorter than Tag.Length, padded on the wire (spec keys "1", "2" sent as "01", "02")
		d := depth - 1
		if d < 0 {
			d = 0
		}
		return g.PadTagComp(d)
	}
	n := 1 + r.Intn(4)
	if r.Intn(6) == 0 {
		n = 2 + r.Intn(10)
	}
	sub := func(last bool, positional bool) *T {
		if depth > 1 && r.Intn(3) == 0 {
			return g.Comp(depth-1, positional && last)
		}
		return g.Prim(positional && last)
	}
	prefFam := Pick(r, PrefFams)
	d := 2 + r.Intn(3)
	pref := fmt.Sprintf("%s.%d", prefFam, d)
	length := Pick(r, []int{99, 255, 999, 9999})
	if c := prefCapacity(prefFam, d); length > c {
		length = c
	}
	mode := r.Intn(10)
	var kids []*T
	switch {
	case mode < 3: // positional
		g.count("comp positional")
		if allowNone && r.Intn(4) == 0 {
			pref = "none"
		}
		posSort := Pick(r, []string{"str", "int"})
		if n > 9 {
			posSort = "int" // "10" sorts before "2" as a string: the run order must be the spec order
		}
		modeT := N("t", A("0"), A("-"), A("nil"), A(posSort), A("0"), A("-"))
		kids = append(kids, A(strconv.Itoa(length)), A(pref), modeT)
		for i := 0; i < n; i++ {
			kids = append(kids, N("sub", A(strconv.Itoa(i+1)), sub(i == n-1, true)))
		}
	case mode < 6: // fixed-width tags
		g.count("comp tagged-fixed")
		tenc := Pick(r, []string{"ascii", "ebcdic", "bcd", "hexToBytes"})
		tlen := 1 + r.Intn(4)
		tpad := "nil"
		sortK := "str"
		tags := map[string]bool{}
		if tlen == 1 && n > 6 {
			n = 6
		}
		for len(tags) < n {
			var tag string
			switch tenc {
			case "bcd":
				tag = string(r.From([]byte("0123456789"), tlen))
				sortK = Pick(r, []string{"str", "int"})
			case "hexToBytes":
				tag = string(r.From([]byte("0123456789ABCDEF"), 2*tlen))
				sortK = Pick(r, []string{"str", "hex"})
			default:
				tag = string(r.From([]byte("0123456789ABCXYZabc"), tlen))
			}
			tags[tag] = true
		}
		if sortK == "int" {
			// K6: all decimal of one length here, fine
		}
		skip, pu := "0", "-"
		if r.Intn(3) == 0 {
			skip = "1"
			pu = Pick(r, []string{"ascii.2", "bcd.2", "binary.1", "ber", "ascii.3"})
		}
		modeT := N("t", A(strconv.Itoa(tlen)), A(tenc), A(tpad), A(sortK), A(skip), A(pu))
		kids = append(kids, A(strconv.Itoa(length)), A(pref), modeT)
		keys := make([]string, 0, n)
		for k := range tags {
			keys = append(keys, k)
		}
		sort.Strings(keys)
		r2 := r
		for i := len(keys) - 1; i > 0; i-- { // shuffle: spec order must not matter
			j := r2.Intn(i + 1)
			keys[i], keys[j] = keys[j], keys[i]
		}
		for _, k := range keys {
			kids = append(kids, N("sub", A(k), sub(false, false)))
		}
	case mode < 8: // BER-TLV
		g.count("comp ber-tlv")
		if r.Bool() {
			pref = "ber"
			length = Pick(r, []int{0, 255, 9999})
		}
		tags := map[string]bool{}
		for len(tags) < n {
			tags[g.berTag()] = true
		}
		skip := "0"
		if r.Bool() {
			skip = "1"
		}
		berPu := "-"
		if skip == "1" && r.Intn(3) == 0 { // explicit (non-BER) length coding of unknown elements
			berPu = Pick(r, []string{"ascii.2", "bcd.2", "binary.1", "binary.2", "ber"})
		}
		modeT := N("t", A("0"), A("berTag"), A("nil"), A(Pick(r, []string{"hex", "str"})), A(skip), A(berPu))
		kids = append(kids, A(strconv.Itoa(length)), A(pref), modeT)
		keys := make([]string, 0, n)
		for k := range tags {
			keys = append(keys, k)
		}
		sort.Strings(keys)
		for i := len(keys) - 1; i > 0; i-- {
			j := r.Intn(i + 1)
			keys[i], keys[j] = keys[j], keys[i]
		}
		for _, k := range keys {
			f := sub(false, false)
			if f.Name == "p" && f.Kids[2].Name != "hexToBytes" && r.Intn(2) == 0 { // typical EMV: BER length prefix on the element
				f.Kids[3] = A("ber")
				if _, _, padded := padInfo(f.Kids[4].Name); padded && f.Kids[1].Name == "0" {
					f.Kids[1] = A("1")
				}
			}
			kids = append(kids, N("sub", A(k), f))
		}
	default: // bitmapped
		g.count("comp bitmapped")
		bl := 1 + r.Intn(4)
		benc, bpref := "binary", "binary.F"
		if r.Bool() {
			benc, bpref = "bytesToHex", "hex.F"
		}
		modeT := N("b", A(strconv.Itoa(bl)), A(benc), A(bpref))
		kids = append(kids, A(strconv.Itoa(length)), A(pref), modeT)
		ids := map[int]bool{}
		if n > bl*8 {
			n = bl * 8
		}
		for len(ids) < n {
			ids[1+r.Intn(bl*8)] = true
		}
		var keys []int
		for k := range ids {
			keys = append(keys, k)
		}
		sort.Ints(keys)
		for _, k := range keys {
			kids = append(kids, N("sub", A(strconv.Itoa(k)), sub(false, false)))
		}
	}
	return N("c", kids...)
}

// AnyPrim generates an arbitrary (usually incoherent) primitive spec: any kind with any
// encoder, prefixer, pad and packer. Used for the malformed stream: the model must agree
// with the code on misuse as well, and decoding must never panic (C04).
func (g *FieldGen) AnyPrim() *T {
	r := g.R
	kind := Pick(r, []string{"s", "n", "b", "h"})
	enc := Pick(r, append(append([]string{}, valueEncs...), "hexToBytes", "berTag"))
	pref := Pick(r, AllPrefixers())
	pad := Pick(r, []string{"nil", "nil", "none", "L30", "R20", "R46", "L00", "R7f", "L2d"})
	packer := Pick(r, []string{"d", "d", "d", "t2"})
	length := Pick(r, []int{0, 1, 2, 3, 5, 8, 9, 10, 16, 99, 100, 255, 999, 70000})
	g.count("anyprim " + kind + " " + enc)
	return N("p", A(kind), A(strconv.Itoa(length)), A(enc), A(pref), A(pad), A(packer))
}

// AnyValue generates a value of the right kind with arbitrary content.
func (g *FieldGen) AnyValue(spec *T) *T {
	r := g.R
	if spec.Name != "p" {
		return g.Value(spec, false)
	}
	l := r.Intn(12)
	switch spec.Kids[0].Name {
	case "s":
		return N("s", A(H(r.From([]byte("0123456789ABCDEFabcdef =^?\x00\x7f\x80\xff-+"), l))))
	case "b":
		return N("b", A(H(r.Bytes(l))))
	case "h":
		return N("h", A(H(r.From([]byte("0123456789ABCDEFabcdefg"), l))))
	default:
		return N("n", A(strconv.FormatInt(int64(r.U64()>>uint(r.Intn(64)))*int64(1-2*r.Intn(2)), 10)))
	}
}

func (g *FieldGen) Field(depth int) *T {
	if depth > 0 && g.R.Intn(3) == 0 {
		return g.Comp(depth, false)
	}
	return g.Prim(false)
}

func encAlphabetFor(enc string) []byte {
	switch enc {
	case "ascii", "ebcdic1047":
		return []byte("0123456789ABCxyz =^?\x00\x7f+-")
	case "bcd", "lbcd":
		return []byte("0123456789")
	case "hexToBytes":
		return []byte("0123456789ABCDEFabcdef")
	}
	return []byte("0123456789ABCxyz =^\x00\x7f\x80\xff\xc3\xa9+-")
}

func padInfo(pad string) (side byte, c byte, ok bool) {
	if len(pad) == 3 && (pad[0] == 'L' || pad[0] == 'R') {
		v, err := strconv.ParseUint(pad[1:], 16, 8)
		if err == nil {
			return pad[0], byte(v), true
		}
	}
	return 0, 0, false
}

// Value generates an in-domain value for a spec. boundary: prefer lengths 0,1,max-1,max.
func (g *FieldGen) Value(spec *T, over bool) *T {
	r := g.R
	switch spec.Name {
	case "p":
		kind, enc, pref, pad := spec.Kids[0].Name, spec.Kids[2].Name, spec.Kids[3].Name, spec.Kids[4].Name
		max, _ := strconv.Atoi(spec.Kids[1].Name)
		fixed := strings.HasSuffix(pref, ".F")
		_, _, padded := padInfo(pad)
		if pref == "ber" && max == 0 {
			max = Pick(r, []int{0, 1, 5, 127, 128, 300})
		}
		if pref == "none" {
			max = r.Intn(12)
		}
		if !fixed && strings.Contains(pref, ".") {
			fam := strings.Split(pref, ".")[0]
			d, _ := strconv.Atoi(strings.Split(pref, ".")[1])
			if c := prefCapacity(fam, d); max > c {
				max = c
			}
		}
		if max > 2100 {
			max = 2100
		}
		// target length in value units
		l := max
		if !(fixed && !padded) {
			switch r.Intn(6) {
			case 0:
				l = 0
			case 1:
				l = 1
			case 2:
				l = max - 1
			case 3:
				l = max
			default:
				l = r.Intn(max + 1)
			}
		}
		if pref == "ber" && !(fixed && !padded) && r.Intn(3) == 0 {
			// BER short/long form boundaries
			if b := Pick(r, []int{126, 127, 128, 129, 255, 256, 257}); b <= max {
				l = b
			}
		}
		if over {
			l = max + 1 + r.Intn(3)
			g.OutOfDomain = true
		}
		if l < 0 {
			l = 0
		}
		switch kind {
		case "s":
			if enc == "hexToBytes" {
				if !over {
					l = 2 * max
				}
				return N("s", A(H(r.From(encAlphabetFor(enc), l))))
			}
			txt := r.From(encAlphabetFor(enc), l)
			if spec.Kids[5].Name == "t2" && len(txt) > 0 {
				// Track2 packer: the text must not begin / end with the pad character
				if side, c, ok := padInfo(pad); ok {
					alpha := encAlphabetFor(enc)
					for tries := 0; tries < 50; tries++ {
						if (side == 'L' && txt[0] != c) || (side == 'R' && txt[len(txt)-1] != c) {
							break
						}
						if side == 'L' {
							txt[0] = alpha[r.Intn(len(alpha))]
						} else {
							txt[len(txt)-1] = alpha[r.Intn(len(alpha))]
						}
					}
				}
			}
			return N("s", A(H(txt)))
		case "b":
			return N("b", A(H(r.From(encAlphabetFor(enc), l))))
		case "h":
			var raw []byte
			if enc == "ascii" {
				raw = r.From([]byte("0129AZaz \x00\x7f"), l)
			} else {
				raw = r.Bytes(l)
			}
			txt := fmt.Sprintf("%x", raw)
			if r.Bool() {
				txt = strings.ToUpper(txt)
			}
			return N("h", A(H([]byte(txt))))
		case "n":
			if l == 0 {
				l = 1
			}
			if l > 18 {
				l = 18
			}
			digits := r.From([]byte("0123456789"), l)
			if digits[0] == '0' && l > 1 {
				digits[0] = '1' + byte(r.Intn(9))
			}
			s := string(digits)
			if enc != "bcd" && enc != "lbcd" && l > 1 && r.Intn(8) == 0 {
				s = "-" + s[1:]
			}
			if r.Intn(10) == 0 {
				s = "0"
			}
			return N("n", A(s))
		}
	case "c":
		mode := spec.Kids[2]
		subs := spec.Kids[3:]
		positional := mode.Name == "t" && mode.Kids[1].Name == "-"
		v := N("c")
		fixedPref := strings.HasSuffix(spec.Kids[1].Name, ".F") || spec.Kids[1].Name == "none"
		if positional {
			k := len(subs)
			if !fixedPref && r.Intn(3) == 0 {
				k = 1 + r.Intn(len(subs))
			}
			for _, s := range subs[:k] {
				v.Kids = append(v.Kids, N("kv", A(s.Kids[0].Name), g.Value(s.Kids[1], false)))
			}
			if !fixedPref {
				// a trailing element that packs to no bytes is invisible on the wire: end the run before it
				for len(v.Kids) > 0 {
					last := v.Kids[len(v.Kids)-1]
					wire, ok := packReal(fmt.Sprintf("F %s pack %s", subs[len(v.Kids)-1].Kids[1].String(), last.Kids[1].String()))
					if !ok || len(wire) > 0 {
						break
					}
					v.Kids = v.Kids[:len(v.Kids)-1]
				}
				if len(v.Kids) == 0 {
					g.OutOfDomain = true
				}
			}
		} else {
			for _, s := range subs {
				if r.Intn(4) != 0 {
					v.Kids = append(v.Kids, N("kv", A(s.Kids[0].Name), g.Value(s.Kids[1], false)))
				}
			}
			// population order must not matter
			for i := len(v.Kids) - 1; i > 0; i-- {
				j := r.Intn(i + 1)
				v.Kids[i], v.Kids[j] = v.Kids[j], v.Kids[i]
			}
		}
		if len(v.Kids) == 0 {
			v.Name = "c()"
		}
		return v
	}
	return A("?")
}

// MsgSpec generates a coherent message spec.
func (g *FieldGen) MsgSpec(depth int) *T {
	r := g.R
	mtiEnc := Pick(r, []string{"ascii", "ebcdic", "bcd", "ascii"})
	mtiPref := Pick(r, []string{"ascii.F", "bcd.F", "binary.F", "ebcdic.F"})
	mti := N("p", A(Pick(r, []string{"s", "n"})), A("4"), A(mtiEnc), A(mtiPref), A("nil"), A("d"))
	if mti.Kids[0].Name == "n" {
		mti.Kids[4] = A("L30")
	}
	bl := Pick(r, []int{8, 8, 8, 0, 1, 2, 3, 4, 16, 5, 7})
	eff := bl
	if eff == 0 {
		eff = 8
	}
	auto := "1"
	if r.Intn(4) == 0 {
		auto = "0"
	}
	benc, bpref := "binary", Pick(r, []string{"binary.F", "ascii.F"})
	if r.Intn(3) == 0 {
		benc, bpref = "bytesToHex", "hex.F"
	}
	kids := []*T{mti, N("bm", A(strconv.Itoa(bl)), A(benc), A(bpref), A(auto))}
	blockBits := eff * 8
	maxBit := Pick(r, []int{3, 3, 3, 4, 5, 6}) * blockBits // most messages stay within three blocks; some need more
	if auto == "0" {
		maxBit = blockBits
	}
	nf := 1 + r.Intn(6)
	ids := map[int]bool{}
	boundary := []int{2, 64, 66, 128, 130, 192, blockBits, blockBits + 2, 2 * blockBits, 2*blockBits + 2,
		3 * blockBits, 3*blockBits + 2, 4 * blockBits, 4*blockBits + 2, 5 * blockBits}
	for tries := 0; len(ids) < nf && tries < 100; tries++ {
		id := 2 + r.Intn(maxBit-1)
		if r.Intn(3) == 0 {
			id = Pick(r, boundary)
		}
		if id < 2 || id > maxBit {
			continue
		}
		if auto == "1" && id%blockBits == 1 { // K4: no data element at a continuation position
			continue
		}
		ids[id] = true
	}
	var keys []int
	for k := range ids {
		keys = append(keys, k)
	}
	sort.Ints(keys)
	for _, id := range keys {
		kids = append(kids, N("f", A(strconv.Itoa(id)), g.Field(depth)))
	}
	g.count(fmt.Sprintf("msg block=%d auto=%s", eff, auto))
	return N("m", kids...)
}

// Msg generates message content for a spec: a subset of the fields, in-domain values.
func (g *FieldGen) Msg(spec *T) *T {
	r := g.R
	m := N("msg", g.Value(spec.Kids[0], false))
	if spec.Kids[0].Kids[0].Name == "s" {
		// MTI must have exactly the declared length (fixed, unpadded)
		enc := spec.Kids[0].Kids[2].Name
		m.Kids[0] = N("s", A(H(r.From(encAlphabetFor(enc)[:10], 4))))
	}
	var fs []*T
	for _, f := range spec.Kids[2:] {
		if r.Intn(4) != 0 {
			fs = append(fs, N("f", A(f.Kids[0].Name), g.Value(f.Kids[1], false)))
		}
	}
	for i := len(fs) - 1; i > 0; i-- {
		j := r.Intn(i + 1)
		fs[i], fs[j] = fs[j], fs[i]
	}
	m.Kids = append(m.Kids, fs...)
	return m
}

// Mutate produces malformed variants of a wire image.
func (g *FieldGen) Mutate(wire []byte) [][]byte {
	r := g.R
	var out [][]byte
	for o := 0; o < len(wire); o++ { // every truncation point
		if len(wire) > 80 && o%3 != 0 && o > 12 {
			continue
		}
		out = append(out, append([]byte{}, wire[:o]...))
	}
	for k := 0; k < 12 && len(wire) > 0; k++ { // substitutions
		m := append([]byte{}, wire...)
		pos := r.Intn(len(m))
		if r.Bool() && len(m) > 12 {
			pos = r.Intn(12)
		}
		m[pos] = Pick(r, []byte{0x00, 0xFF, 0x80, 0x7F, '9', '-', '+', ' ', 0x1F, 0x9F, m[pos] + 1, m[pos] ^ 0x80})
		out = append(out, m)
	}
	for k := 0; k < 4 && len(wire) > 0; k++ { // insertion / deletion
		pos := r.Intn(len(wire))
		ins := append(append(append([]byte{}, wire[:pos]...), byte(r.U64())), wire[pos:]...)
		del := append(append([]byte{}, wire[:pos]...), wire[pos+1:]...)
		out = append(out, ins, del)
	}
	out = append(out, append(append([]byte{}, wire...), r.Bytes(1+r.Intn(4))...))
	// length-prefix edits: one byte incremented and the data extended by one unit, so that a
	// prefix announcing max+1 arrives together with max+1 bytes
	for k := 0; k < 10 && len(wire) > 0; k++ {
		pos := r.Intn(len(wire))
		if len(wire) <= 40 {
			pos = (k * 7) % len(wire)
		}
		m := append([]byte{}, wire...)
		m[pos]++
		out = append(out, append(m, Pick(r, []byte{'0', 'A', 0x00, 0x11})))
		ins := append(append(append([]byte{}, m[:pos+1]...), Pick(r, []byte{'0', 'A', 0x11})), m[pos+1:]...)
		out = append(out, ins)
	}
	return out
}

func init() {
	extraChannels["F"] = ChannelF
	extraChannels["M"] = ChannelM
	extraChannels["MT"] = ChannelMT
	extraChannels["O"] = ChannelO
	extraChannels["K"] = ChannelK
}

func packReal(line string) ([]byte, bool) {
	res := impl.Run(line)
	if !strings.HasPrefix(res, "ok ") {
		return nil, false
	}
	b, ok := impl.UnHex(strings.TrimPrefix(res, "ok "))
	return b, ok
}

// ChannelF: field pack / unpack over generated field specs, values, and mutated wires.
func ChannelF(t Tier, r *Rng, emit Emit) {
	g := NewFieldGen(r)
	for i := 0; i < t.N(1500, 60000); i++ {
		depth := r.Intn(4)
		spec := g.Field(depth)
		ss := spec.String()
		for k := 0; k < 3; k++ {
			v := g.Value(spec, k == 2 && r.Intn(3) == 0)
			line := fmt.Sprintf("F %s pack %s", ss, v.String())
			emit(line)
			wire, ok := packReal(line)
			if !ok {
				continue
			}
			emit(fmt.Sprintf("F %s unpack %s", ss, H(wire)))
			emit(fmt.Sprintf("F %s unpack %s", ss, H(append(append([]byte{}, wire...), r.Bytes(1+r.Intn(3))...))))
			if k == 0 {
				for j, m := range g.Mutate(wire) {
					if j > t.N(25, 60) {
						break
					}
					emit(fmt.Sprintf("F %s unpack %s", ss, H(m)))
				}
			}
		}
		emit(fmt.Sprintf("F %s unpack %s", ss, H(r.Bytes(r.Intn(12)))))
	}
	// two writes to one field object through two writers, then Pack: the field holds the second value
	// (lines are emitted only where both writers apply to the field kind in the implementation)
	writers := impl.FieldWriters[:len(impl.FieldWriters)-1]
	for i := 0; i < t.N(600, 12000); i++ {
		spec := g.Prim(false)
		if spec.Kids[3].Name == "none" {
			continue
		}
		g.OutOfDomain = false
		v1, v2 := g.Value(spec, false), g.Value(spec, false)
		if g.OutOfDomain {
			continue
		}
		w1, w2 := Pick(r, writers), Pick(r, writers)
		// JSON carries texts as UTF-8: anything else is replaced on the way (outside the JSON domain, DESIGN §2.3)
		validText := func(v *T) bool {
			if v.Name != "s" || len(v.Kids) == 0 {
				return true
			}
			b, ok := impl.UnHex(v.Kids[0].Name)
			return ok && utf8.Valid(b)
		}
		if (w1 == "json" && !validText(v1)) || (w2 == "json" && !validText(v2)) {
			continue
		}
		line := fmt.Sprintf("F %s history %s:%s %s:%s", spec.String(), w1, v1.String(), w2, v2.String())
		if res := impl.Run(line); strings.HasPrefix(res, "ok ") || res == "err" {
			emit(line)
		}
	}
	// arbitrary (incoherent) primitive specs: misuse must be modelled faithfully too
	for i := 0; i < t.N(1500, 40000); i++ {
		spec := g.AnyPrim()
		ss := spec.String()
		v := g.AnyValue(spec)
		line := fmt.Sprintf("F %s pack %s", ss, v.String())
		emit(line)
		if wire, ok := packReal(line); ok {
			emit(fmt.Sprintf("F %s unpack %s", ss, H(wire)))
			emit(fmt.Sprintf("F %s unpack %s", ss, H(append(append([]byte{}, wire...), r.Bytes(1+r.Intn(3))...))))
			if len(wire) > 0 {
				emit(fmt.Sprintf("F %s unpack %s", ss, H(wire[:r.Intn(len(wire))])))
			}
		}
		d := r.Bytes(r.Intn(10))
		if r.Bool() {
			d = r.From([]byte("0123456789\x00\x01\x02\x81\x82\xf0\xf1\xf5AF"), r.Intn(10))
		}
		emit(fmt.Sprintf("F %s unpack %s", ss, H(d)))
	}
	for k, v := range g.Dist {
		_ = k
		_ = v
	}
}

// ChannelM: message pack / unpack.
func ChannelM(t Tier, r *Rng, emit Emit) {
	g := NewFieldGen(r)
	for i := 0; i < t.N(700, 30000); i++ {
		spec := g.MsgSpec(r.Intn(3))
		ss := spec.String()
		for k := 0; k < 2; k++ {
			m := g.Msg(spec)
			line := fmt.Sprintf("M %s pack %s", ss, m.String())
			emit(line)
			wire, ok := packReal(line)
			if !ok {
				continue
			}
			emit(fmt.Sprintf("M %s unpack %s", ss, H(wire)))
			if k == 0 {
				for j, mm := range g.Mutate(wire) {
					if j > t.N(30, 80) {
						break
					}
					emit(fmt.Sprintf("M %s unpack %s", ss, H(mm)))
				}
			}
		}
	}
}

// ChannelMT: error attribution inside nested composites (C19's quantifier, exhaustive per
// message): message specs that nest composites, each valid encoding cut at EVERY offset and
// corrupted at EVERY byte position (incremented, and set to the largest digit / 0xFF), so
// that the failure lands at every depth of the nesting and the whole field-id path —
// message element, then subfield tags — is compared between model and implementation.
func ChannelMT(t Tier, r *Rng, emit Emit) {
	g := NewFieldGen(r)
	for i := 0; i < t.N(260, 6000); i++ {
		spec := g.MsgSpec(2 + r.Intn(2))
		ss := spec.String()
		if !strings.Contains(ss, ",sub(") || strings.Count(ss, "c(") < 2 {
			continue // wanted: a composite inside a composite
		}
		m := g.Msg(spec)
		line := fmt.Sprintf("M %s pack %s", ss, m.String())
		wire, ok := packReal(line)
		if !ok || len(wire) > 400 {
			continue
		}
		emit(line)
		for cut := 0; cut < len(wire); cut++ {
			emit(fmt.Sprintf("M %s unpack %s", ss, H(wire[:cut])))
		}
		for pos := 0; pos < len(wire); pos++ {
			for _, nb := range []byte{wire[pos] + 1, 0xFF, '9', 0x99} {
				if nb == wire[pos] {
					continue
				}
				mm := append([]byte{}, wire...)
				mm[pos] = nb
				emit(fmt.Sprintf("M %s unpack %s", ss, H(mm)))
			}
		}
	}
}

// ChannelO: the tag sort functions on coherent tag sets (K6).
func ChannelO(t Tier, r *Rng, emit Emit) {
	for i := 0; i < t.N(400, 10000); i++ {
		n := 2 + r.Intn(11)
		kind := Pick(r, []string{"str", "int", "hex"})
		tags := map[string]bool{}
		l := 1 + r.Intn(4)
		if l == 1 && n > 8 {
			n = 8
		}
		for tries := 0; len(tags) < n && tries < 1000; tries++ {
			switch kind {
			case "str":
				tags[string(r.From(tagAlphabet, 1+r.Intn(4)))] = true
			case "int":
				if i%2 == 0 {
					tags[strconv.Itoa(1+r.Intn(300))] = true // canonical decimals
				} else {
					tags[string(r.From([]byte("0123456789"), l))] = true // one length
				}
			case "hex":
				if i%3 == 0 {
					// tags of different lengths, up to 7 bytes (BER tags are not limited to four), no
					// leading zero byte: distinct strings are distinct values
					b := r.Bytes(1 + r.Intn(7))
					if b[0] == 0 {
						b[0] = 0x9F
					}
					tags[strings.ToUpper(fmt.Sprintf("%x", b))] = true
				} else {
					tags[strings.ToUpper(fmt.Sprintf("%x", r.Bytes(l)))] = true
				}
			}
		}
		// hex: distinct values required (K6) — equal-length distinct hex strings have distinct values
		var keys []string
		for k := range tags {
			keys = append(keys, k)
		}
		sort.Strings(keys)
		for j := len(keys) - 1; j > 0; j-- {
			k := r.Intn(j + 1)
			keys[j], keys[k] = keys[k], keys[j]
		}
		emit(fmt.Sprintf("O %s %s", kind, strings.Join(keys, ",")))
	}
}

// ChannelK: generated specs and values must satisfy the Lean Coherent / InDomain predicates.
func ChannelK(t Tier, r *Rng, emit Emit) {
	g := NewFieldGen(r)
	for i := 0; i < t.N(1500, 30000); i++ {
		spec := g.Field(r.Intn(4))
		emit("K f " + spec.String())
		g.OutOfDomain = false
		v := g.Value(spec, false)
		if !g.OutOfDomain {
			emit("K fd " + spec.String() + " " + v.String())
		}
	}
	for i := 0; i < t.N(500, 10000); i++ {
		emit("K m " + g.MsgSpec(r.Intn(3)).String())
	}
}

// ChannelMS: the message specs that SHIP with the library (iso8583.Spec87, specs.Spec87ASCII,
// specs.Spec87Hex, examples.Spec, exp/emv), read back from the live Go values on every run
// (impl.TreeOfMsgSpec), through implementation and model like channel M: generated contents
// packed, the produced bytes unpacked, and every valid wire mutated (truncation at every
// offset, substitutions, insertions, deletions, length-prefix edits).
func ChannelMS(t Tier, r *Rng, emit Emit) {
	g := NewFieldGen(r)
	for _, name := range impl.ShippedNames {
		spec, _, err := impl.TreeOfMsgSpec(impl.Shipped(name))
		if err != nil {
			emit("MS-untranslatable " + name)
			continue
		}
		ss := spec.String()
		for i := 0; i < t.N(30, 600); i++ {
			m := g.Msg(spec)
			// a few elements per message (Msg takes three quarters of a spec's 60-odd fields, and
			// one value outside its encoder's alphabet makes the whole Pack fail)
			if keep := 1 + r.Intn(8); len(m.Kids) > 1+keep && i%8 != 7 {
				m.Kids = m.Kids[:1+keep]
			}
			line := fmt.Sprintf("M %s pack %s", ss, m.String())
			emit(line)
			wire, ok := packReal(line)
			if !ok {
				continue
			}
			emit(fmt.Sprintf("M %s unpack %s", ss, H(wire)))
			for j, mm := range g.Mutate(wire) {
				if j > t.N(40, 120) {
					break
				}
				emit(fmt.Sprintf("M %s unpack %s", ss, H(mm)))
			}
		}
	}
}

func init() { extraChannels["MS"] = ChannelMS }
