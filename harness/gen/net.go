package gen

// Channel N: network length headers (property C16).
//
//	N <hdr> write <int>
//	N <hdr> read <chunk|chunk|…>       ("-" = empty chunk; EOF after the last chunk)
//
// The quantifier of C16: all lengths -2..70000 per header type, all 2^16 two-byte
// contents (binary2, bcd2), sampled four-byte contents (ascii4, vmlh) including signs,
// spaces and non-BCD nibbles, every split point of valid headers including one byte at a
// time, and every early end of the stream.

import (
	"fmt"
	"strings"
)

func init() { extraChannels["N"] = ChannelN }

var NetHeaders = []string{"binary2", "ascii4", "bcd2", "vmlh"}

// NetSize is the documented width of each header.
func NetSize(h string) int {
	switch h {
	case "binary2", "bcd2":
		return 2
	}
	return 4
}

// NetMax is the largest length each header can represent.
func NetMax(h string) int {
	switch h {
	case "binary2":
		return 65535
	case "vmlh":
		return 2048
	}
	return 9999
}

// NetRef is the documented wire format of a representable length, written independently
// of the implementation: big-endian uint16; four ASCII decimal digits; four packed BCD
// digits; big-endian uint16 followed by two zero bytes.
func NetRef(h string, n int) []byte {
	switch h {
	case "binary2":
		return []byte{byte(n >> 8), byte(n)}
	case "ascii4":
		return []byte{byte('0' + n/1000%10), byte('0' + n/100%10), byte('0' + n/10%10), byte('0' + n%10)}
	case "bcd2":
		return []byte{byte(n/1000%10<<4 | n/100%10), byte(n/10%10<<4 | n%10)}
	case "vmlh":
		return []byte{byte(n >> 8), byte(n), 0, 0}
	}
	return nil
}

// Compositions calls f with every way of cutting b into non-empty contiguous chunks
// (2^(len-1) ways; one way, no chunks, for the empty string).
func Compositions(b []byte, f func([][]byte)) {
	if len(b) == 0 {
		f(nil)
		return
	}
	for mask := 0; mask < 1<<(len(b)-1); mask++ {
		var chunks [][]byte
		start := 0
		for i := 1; i < len(b); i++ {
			if mask>>(i-1)&1 == 1 {
				chunks = append(chunks, b[start:i])
				start = i
			}
		}
		chunks = append(chunks, b[start:])
		f(chunks)
	}
}

// ChunkStr renders a chunk list for the protocol line.
func ChunkStr(chunks [][]byte) string {
	if len(chunks) == 0 {
		return "-"
	}
	parts := make([]string, len(chunks))
	for i, c := range chunks {
		parts[i] = H(c)
	}
	return strings.Join(parts, "|")
}

// WithEmpties puts an empty chunk (a Read returning 0 bytes) before every chunk.
func WithEmpties(chunks [][]byte) [][]byte {
	var out [][]byte
	for _, c := range chunks {
		out = append(out, nil, c)
	}
	return out
}

func OneByOne(b []byte) [][]byte {
	var out [][]byte
	for i := range b {
		out = append(out, b[i:i+1])
	}
	return out
}

// NetBoundaries are the lengths around every edge of the four representable ranges.
var NetBoundaries = []int{0, 1, 2, 9, 10, 11, 99, 100, 101, 115, 255, 256, 257, 512, 999, 1000, 1001, 1234, 2047, 2048, 2049,
	4095, 4096, 9998, 9999, 10000, 10001, 12336, 32767, 32768, 65534, 65535}

// NetFarLengths lie outside -2..70000: values that wrap to something small as uint16 or
// int32, and the ends of the int range.
var NetFarLengths = []string{"-65000", "-65535", "-65536", "-65537", "-9999", "-10000", "-2048", "-115", "99999", "100000", "131072",
	"131187", "67584", "1000000", "2147483647", "2147483648", "-2147483648", "4294967296", "4294967411",
	"9223372036854775807", "-9223372036854775808", "-9223372036854775807"}

var netTails = [][]byte{nil, {0xFF}, {0x31, 0x32}}

// NetASCIIAlphabet: digits, signs, blanks and other non-digits for ascii4 contents.
func NetASCIIAlphabet(t Tier) []byte {
	if t.Thorough {
		return []byte{'0', '1', '2', '5', '9', '+', '-', ' ', '_', '.', 'a', 'e', 'x', 0x00, 0x2F, 0x3A, 0x80, 0xFF}
	}
	return []byte{'0', '1', '9', '+', '-', ' ', '_', 'a', 0x2F, 0x3A, 0xFF}
}

// NetVMLContents: sampled four-byte VMLH headers: lengths around MaxMessageLength, any
// reserved byte, every value of the indicator byte.
func NetVMLContents(t Tier, f func([]byte)) {
	lens := []int{0, 1, 115, 255, 256, 2047, 2048, 2049, 2304, 4096, 32768, 65535}
	for _, l := range lens {
		for _, b2 := range []byte{0x00, 0x20, 0xFF} {
			for b3 := 0; b3 < 256; b3++ {
				f([]byte{byte(l >> 8), byte(l), b2, byte(b3)})
			}
		}
	}
}

// NetWriteSeq: 2..5 header writes, about a third of them to a writer that fails after 0..width bytes
func NetWriteSeq(r *Rng, h string) string {
	n := 2 + r.Intn(4)
	ops := make([]string, n)
	for i := range ops {
		v := r.Intn(NetMax(h) + 1)
		switch r.Intn(8) {
		case 0:
			v = r.Intn(100)
		case 1:
			v = NetMax(h) + r.Intn(3)
		case 2:
			v = -r.Intn(3)
		}
		if r.Intn(3) == 0 {
			ops[i] = fmt.Sprintf("f%d:%d", r.Intn(NetSize(h)+1), v)
		} else {
			ops[i] = fmt.Sprintf("w%d", v)
		}
	}
	return strings.Join(ops, ",")
}

func ChannelN(t Tier, r *Rng, emit Emit) {
	// 0. sequences of writes, some to a failing writer
	for _, h := range NetHeaders {
		for i := 0; i < t.N(400, 8000); i++ {
			emit(fmt.Sprintf("N %s writeseq %s", h, NetWriteSeq(r, h)))
		}
	}
	// 1. SetLength + WriteTo for all lengths -2..70000, and far-out lengths
	for _, h := range NetHeaders {
		for n := -2; n <= 70000; n++ {
			emit(fmt.Sprintf("N %s write %d", h, n))
		}
		for _, s := range NetFarLengths {
			emit(fmt.Sprintf("N %s write %s", h, s))
		}
	}

	// 2. ReadFrom on arbitrary contents
	for _, h := range []string{"binary2", "bcd2"} {
		for v := 0; v < 65536; v++ {
			b := []byte{byte(v >> 8), byte(v)}
			emit(fmt.Sprintf("N %s read %s", h, H(b)))
			if v%t.N(61, 7) == 0 || v < 300 || v > 65200 {
				emit(fmt.Sprintf("N %s read %02x|%02x", h, b[0], b[1]))
				emit(fmt.Sprintf("N %s read -|%02x|-|-|%02x|-", h, b[0], b[1]))
				emit(fmt.Sprintf("N %s read %02x%02xffee", h, b[0], b[1]))
				emit(fmt.Sprintf("N %s read %02x|%02x31|32", h, b[0], b[1]))
			}
		}
	}
	allStrings(NetASCIIAlphabet(t), 4, func(x []byte) {
		if len(x) != 4 {
			return
		}
		emit(fmt.Sprintf("N ascii4 read %s", H(x)))
		if r.Intn(t.N(16, 8)) == 0 {
			emit(fmt.Sprintf("N ascii4 read %s", ChunkStr(OneByOne(x))))
			emit(fmt.Sprintf("N ascii4 read %s", ChunkStr(append(WithEmpties([][]byte{x[:1], x[1:]}), []byte{0x39}))))
		}
	})
	NetVMLContents(t, func(x []byte) {
		emit(fmt.Sprintf("N vmlh read %s", H(x)))
		if r.Intn(t.N(16, 8)) == 0 {
			emit(fmt.Sprintf("N vmlh read %s", ChunkStr(OneByOne(x))))
			emit(fmt.Sprintf("N vmlh read %s", ChunkStr(append(WithEmpties([][]byte{x[:3], x[3:]}), []byte{0x22, 0x22}))))
		}
	})
	for i := 0; i < t.N(3000, 60000); i++ {
		h := Pick(r, NetHeaders)
		b := r.Bytes(r.Intn(NetSize(h) + 3))
		if r.Intn(3) == 0 {
			b = r.From([]byte("0123456789+- \x00\x22\x20\xf2"), len(b))
		}
		var chunks [][]byte
		for len(b) > 0 {
			k := 1 + r.Intn(len(b))
			chunks = append(chunks, b[:k])
			b = b[k:]
			if r.Intn(5) == 0 {
				chunks = append(chunks, nil)
			}
		}
		emit(fmt.Sprintf("N %s read %s", h, ChunkStr(chunks)))
	}

	// 3. valid headers under every chunking, 4. every early end
	for _, h := range NetHeaders {
		size := NetSize(h)
		stride := t.N(997, 13)
		if h != "binary2" {
			stride = t.N(211, 7)
		}
		seen := map[int]bool{}
		var ns []int
		for _, n := range NetBoundaries {
			if n <= NetMax(h) && !seen[n] {
				seen[n] = true
				ns = append(ns, n)
			}
		}
		nb := len(ns) // the boundary lengths come first
		for n := 0; n <= NetMax(h); n += stride {
			if !seen[n] {
				seen[n] = true
				ns = append(ns, n)
			}
		}
		for idx, n := range ns {
			w := NetRef(h, n)
			for _, tail := range netTails {
				all := append(append([]byte{}, w...), tail...)
				Compositions(all, func(chunks [][]byte) {
					emit(fmt.Sprintf("N %s read %s", h, ChunkStr(chunks)))
				})
				emit(fmt.Sprintf("N %s read %s", h, ChunkStr(WithEmpties(OneByOne(all)))))
			}
			if idx < nb || idx%8 == 0 {
				for k := 0; k < size; k++ {
					Compositions(w[:k], func(chunks [][]byte) {
						emit(fmt.Sprintf("N %s read %s", h, ChunkStr(chunks)))
						if len(chunks) > 0 {
							emit(fmt.Sprintf("N %s read %s", h, ChunkStr(WithEmpties(chunks))))
						}
					})
				}
			}
		}
	}
}
