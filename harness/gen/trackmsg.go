package gen

// Channel YM: messages with track fields (line formats: harness/impl/trackmsg.go).
// The generator draws coherent message specs (MTI, bitmap and ordinary fields from
// FieldGen.MsgSpec; 1-3 of the data elements turned into coherent track fields from
// CoherentTrackSpec, at most 4 ordinary ones kept) and in-domain contents (FieldGen.Msg for
// the MTI and the ordinary values, InDomainTrack for the track values). For every message:
// `dom` (the Lean predicates TMsgSpec.coherent / inDomain must agree with the generator),
// `pack`, and for every packed message `unpack` of the packed bytes, of the bytes followed by
// garbage, of truncations (quick tier: a sample, thorough: all) and of a few single-byte
// corruptions.

import (
	"fmt"
)

func init() { extraChannels["YM"] = ChannelYM }

type tmsgSpecGen struct {
	Tree   *T                      // m(mti,bm,f(id,field|trackspec)...)
	Ord    *T                      // the same without the track fields (input of FieldGen.Msg)
	Tracks map[string]TrackSpecGen // id -> track spec
	Order  []string                // ids of the track fields, ascending
}

// TMsgSpec draws a coherent message spec with 1-3 track fields among 0-4 ordinary fields.
func TMsgSpec(g *FieldGen, depth int) tmsgSpecGen {
	r := g.R
	base := g.MsgSpec(depth)
	fields := base.Kids[2:]
	perm := make([]int, len(fields))
	for i := range perm {
		perm[i] = i
	}
	for i := len(perm) - 1; i > 0; i-- {
		j := r.Intn(i + 1)
		perm[i], perm[j] = perm[j], perm[i]
	}
	nt := 1 + r.Intn(3)
	if nt > len(fields) {
		nt = len(fields)
	}
	isTrack := map[int]bool{}
	keep := map[int]bool{}
	for k, idx := range perm {
		switch {
		case k < nt:
			isTrack[idx] = true
			keep[idx] = true
		case k < nt+4:
			keep[idx] = true
		}
	}
	out := tmsgSpecGen{Tracks: map[string]TrackSpecGen{}}
	kids := []*T{base.Kids[0], base.Kids[1]}
	ord := []*T{base.Kids[0], base.Kids[1]}
	for idx, f := range fields {
		if !keep[idx] {
			continue
		}
		id := f.Kids[0].Name
		if isTrack[idx] {
			ts := CoherentTrackSpec(r, 1+r.Intn(3))
			if r.Intn(5) == 0 {
				ts = nearSpecs[1+r.Intn(3)]
			}
			out.Tracks[id] = ts
			out.Order = append(out.Order, id)
			kids = append(kids, N("f", A(id), ts.Tree()))
		} else {
			kids = append(kids, f)
			ord = append(ord, f)
		}
	}
	out.Tree = N("m", kids...)
	out.Ord = N("m", ord...)
	return out
}

// TMsg draws in-domain content: MTI and ordinary values as FieldGen.Msg does, each track
// field present with probability 5/6, in random order among the others.
func TMsg(g *FieldGen, s tmsgSpecGen) *T {
	r := g.R
	m := g.Msg(s.Ord)
	fs := append([]*T{}, m.Kids[1:]...)
	for _, id := range s.Order {
		if r.Intn(6) == 0 {
			continue
		}
		v := InDomainTrack(r, s.Tracks[id])
		pos := r.Intn(len(fs) + 1)
		fs = append(fs, nil)
		copy(fs[pos+1:], fs[pos:])
		fs[pos] = N("f", A(id), v.Tree())
	}
	return N("msg", append([]*T{m.Kids[0]}, fs...)...)
}

func ChannelYM(t Tier, r *Rng, emit Emit) {
	r = NewRng(r.U64() ^ 0x594d7472636b)
	g := NewFieldGen(r)
	for i := 0; i < t.N(260, 9000); i++ {
		s := TMsgSpec(g, r.Intn(3))
		ss := s.Tree.String()
		for k := 0; k < 2; k++ {
			g.OutOfDomain = false
			ms := TMsg(g, s).String()
			if !g.OutOfDomain { // FieldGen.Value flags the (rare) ordinary values it draws outside the domain
				emit(fmt.Sprintf("YM %s dom %s", ss, ms))
			}
			line := fmt.Sprintf("YM %s pack %s", ss, ms)
			emit(line)
			wire, ok := packReal(line)
			if !ok {
				continue
			}
			emit(fmt.Sprintf("YM %s unpack %s", ss, H(wire)))
			emit(fmt.Sprintf("YM %s unpack %s", ss, H(append(append([]byte{}, wire...), r.Bytes(1+r.Intn(4))...))))
			// truncations
			if t.Thorough || len(wire) <= 16 {
				for cut := 0; cut < len(wire); cut++ {
					emit(fmt.Sprintf("YM %s unpack %s", ss, H(wire[:cut])))
				}
			} else {
				cuts := map[int]bool{0: true, 1: true, len(wire) - 1: true, len(wire) - 2: true}
				for len(cuts) < 14 {
					cuts[r.Intn(len(wire))] = true
				}
				for cut := 0; cut < len(wire); cut++ {
					if cuts[cut] {
						emit(fmt.Sprintf("YM %s unpack %s", ss, H(wire[:cut])))
					}
				}
			}
			// single-byte corruptions
			for j := 0; j < t.N(6, 16) && len(wire) > 0; j++ {
				mm := append([]byte{}, wire...)
				pos := r.Intn(len(mm))
				nb := Pick(r, append([]byte{mm[pos] + 1, mm[pos] ^ 0x80, mm[pos] - 1}, mutBytes...))
				if nb == mm[pos] {
					nb ^= 0x01
				}
				mm[pos] = nb
				emit(fmt.Sprintf("YM %s unpack %s", ss, H(mm)))
			}
		}
	}
}
