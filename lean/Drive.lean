import Iso8583.Driver

partial def loop (h : IO.FS.Stream) (out : IO.FS.Stream) : IO Unit := do
  let line ← h.getLine
  if line.isEmpty then return ()
  let l := String.ofList (line.toList.filter (fun c => c != '\n' && c != '\r'))
  out.putStrLn (Iso8583.Driver.runLine l)
  loop h out

def main : IO Unit := do
  let stdin ← IO.getStdin
  let stdout ← IO.getStdout
  loop stdin stdout
