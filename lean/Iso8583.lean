import Iso8583.Basic
import Iso8583.Driver
