/-
Root of the library. The property files `Iso8583/Props/Cxx.lean` are independent roots
(built through the `globs` of the lakefile and, one by one, by `bin/check`); they are not
imported into one environment here because helper lemmas of different property families
may share names.
-/
import Iso8583.Basic
