import Iso8583.Basic
import Iso8583.Driver
import Iso8583.Props.C06
import Iso8583.Props.C07
import Iso8583.Props.C20
import Iso8583.Props.C16
import Iso8583.Props.C13
import Iso8583.Props.C18
