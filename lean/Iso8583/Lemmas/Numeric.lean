/-
Integers as text: `strconv.FormatInt` / `strconv.ParseInt` (base 10, 64 bit) as modelled
in Model/Field.lean (`decDigits`, `natToDec`, `formatInt`, `parseInt64?`), and how the
rendering interacts with the padders allowed for Numeric fields (K3).
-/
import Iso8583.Model.Field
import Iso8583.Lemmas.Prefix
import Iso8583.Props.C20

namespace Iso8583

/-! ### decimal digits of a natural number -/

/-- `decDigits` with enough fuel (`n < 10^(fuel+1)`): the digits are decimal, there is at
least one, their value is `n`, and the first one is non-zero unless `n = 0`. -/
theorem decDigits_spec : ∀ (fuel n : Nat), n < 10 ^ (fuel + 1) →
    ofDigits 10 (decDigits (fuel + 1) n) = n ∧ (∀ x ∈ decDigits (fuel + 1) n, x ≤ 9) ∧
    decDigits (fuel + 1) n ≠ [] ∧ (0 < n → (decDigits (fuel + 1) n).head? ≠ some 0) ∧
    (n = 0 → decDigits (fuel + 1) n = [0]) := by
  intro fuel
  induction fuel with
  | zero =>
    intro n h
    have h10 : n < 10 := by simpa using h
    simp only [decDigits, h10, ite_true]
    refine ⟨by simp [ofDigits], by intro x hx; simp at hx; omega, by simp, ?_, ?_⟩
    · intro hn; simp; omega
    · intro hn; simp [hn]
  | succ fuel ih =>
    intro n h
    by_cases h10 : n < 10
    · rw [decDigits]
      simp only [h10, ite_true]
      refine ⟨by simp [ofDigits], by intro x hx; simp at hx; omega, by simp, ?_, ?_⟩
      · intro hn; simp; omega
      · intro hn; simp [hn]
    · have hdiv : n / 10 < 10 ^ (fuel + 1) := by
        rw [Nat.pow_succ] at h
        exact Nat.div_lt_of_lt_mul (by rw [Nat.mul_comm]; exact h)
      obtain ⟨h1, h2, h3, h4, _⟩ := ih (n / 10) hdiv
      rw [decDigits]
      simp only [h10, ite_false]
      refine ⟨?_, ?_, by simp, ?_, ?_⟩
      · rw [ofDigits_append_singleton, h1]; omega
      · intro x hx
        simp only [List.mem_append, List.mem_singleton] at hx
        rcases hx with hx | hx
        · exact h2 x hx
        · omega
      · intro _
        have hq : 0 < n / 10 := by omega
        have := h4 hq
        cases hm : decDigits (fuel + 1) (n / 10) with
        | nil => exact absurd hm h3
        | cons y ys => rw [hm] at this; simpa using this
      · intro hn; omega

/-- the number of digits is what the size of the number dictates, whatever the fuel -/
theorem decDigits_length_le : ∀ (fuel n k : Nat), n < 10 ^ (k + 1) → (decDigits fuel n).length ≤ k + 1 := by
  intro fuel
  induction fuel with
  | zero => intro n k _; simp [decDigits]
  | succ fuel ih =>
    intro n k h
    rw [decDigits]
    by_cases h10 : n < 10
    · simp [h10]
    · simp only [h10, ite_false, List.length_append, List.length_singleton]
      cases k with
      | zero => simp at h; omega
      | succ k =>
        have hdiv : n / 10 < 10 ^ (k + 1) := by
          rw [Nat.pow_succ] at h
          exact Nat.div_lt_of_lt_mul (by rw [Nat.mul_comm]; exact h)
        have := ih (n / 10) k hdiv
        omega

theorem decDigits_lt10 (f n : Nat) (h : n < 10) : decDigits (f + 1) n = [n] := by
  rw [decDigits]; simp [h]

/-- **fuel suffices**: any two fuels that exceed the number of digits give the same digits -/
theorem decDigits_fuel : ∀ (f1 f2 n : Nat), n < 10 ^ (f1 + 1) → n < 10 ^ (f2 + 1) →
    decDigits (f1 + 1) n = decDigits (f2 + 1) n := by
  intro f1
  induction f1 with
  | zero =>
    intro f2 n h1 _
    have h10 : n < 10 := by simpa using h1
    rw [decDigits_lt10 _ _ h10, decDigits_lt10 _ _ h10]
  | succ f1 ih =>
    intro f2 n h1 h2
    by_cases h10 : n < 10
    · rw [decDigits_lt10 _ _ h10, decDigits_lt10 _ _ h10]
    · cases f2 with
      | zero => simp at h2; omega
      | succ f2 =>
        have hd1 : n / 10 < 10 ^ (f1 + 1) := by
          rw [Nat.pow_succ] at h1
          exact Nat.div_lt_of_lt_mul (by rw [Nat.mul_comm]; exact h1)
        have hd2 : n / 10 < 10 ^ (f2 + 1) := by
          rw [Nat.pow_succ] at h2
          exact Nat.div_lt_of_lt_mul (by rw [Nat.mul_comm]; exact h2)
        rw [decDigits, decDigits.eq_def (f2 + 1 + 1)]
        simp only [h10, ite_false]
        rw [ih f2 (n / 10) hd1 hd2]

theorem lt_ten_pow_succ (n : Nat) : n < 10 ^ (n + 1) := by
  have h1 : n < 10 ^ n := Nat.lt_pow_self (by omega)
  have h2 : 10 ^ n ≤ 10 ^ (n + 1) := Nat.pow_le_pow_right (by omega) (by omega)
  omega

/-- **`natToDec`**: the fuel `n + 1` used by the model suffices (every larger-than-needed
fuel gives the same digits), and the digits are the decimal representation of `n`:
value `n`, at least one digit, no leading zero unless `n = 0`. -/
theorem natToDec_spec (n : Nat) :
    ∃ ds : List Nat, natToDec n = ds.map asciiDigit ∧ ofDigits 10 ds = n ∧ (∀ x ∈ ds, x ≤ 9) ∧
      ds ≠ [] ∧ (0 < n → ds.head? ≠ some 0) ∧ (n = 0 → ds = [0]) ∧
      (∀ fuel, n < 10 ^ (fuel + 1) → decDigits (fuel + 1) n = ds) := by
  obtain ⟨h1, h2, h3, h4, h5⟩ := decDigits_spec n n (lt_ten_pow_succ n)
  exact ⟨decDigits (n + 1) n, rfl, h1, h2, h3, h4, h5,
    fun fuel hf => decDigits_fuel fuel n n hf (lt_ten_pow_succ n)⟩

/-- a number below `10^(k+1)` is rendered with at most `k+1` characters -/
theorem natToDec_length_le (n k : Nat) (h : n < 10 ^ (k + 1)) : (natToDec n).length ≤ k + 1 := by
  simp only [natToDec, List.length_map]
  exact decDigits_length_le _ n k h

theorem mapM_decVal_digits (ds : List Nat) (h : ∀ x ∈ ds, x ≤ 9) :
    mapM? decVal? (ds.map asciiDigit) = some ds :=
  mapM?_map_of ds (fun y hy => decVal_asciiDigit (h y hy))

/-! ### `formatInt` -/

/-- **shape of `formatInt`**: an optional `'-'` followed by the decimal digits of `|i|`:
at least one digit, no leading zero unless the number is 0 (then the single digit 0). -/
theorem formatInt_digits (i : Int) :
    ∃ ds : List Nat, formatInt i = (if i < 0 then [45] else []) ++ ds.map asciiDigit ∧
      ofDigits 10 ds = i.natAbs ∧ (∀ x ∈ ds, x ≤ 9) ∧ ds ≠ [] ∧
      (i ≠ 0 → ds.head? ≠ some 0) ∧ (i = 0 → ds = [0]) := by
  by_cases hneg : i < 0
  · obtain ⟨ds, h1, h2, h3, h4, h5, _, _⟩ := natToDec_spec (-i).toNat
    have habs : (-i).toNat = i.natAbs := by omega
    refine ⟨ds, by simp [formatInt, hneg, h1], by rw [h2, habs], h3, h4, ?_, ?_⟩
    · intro _; exact h5 (by omega)
    · intro h0; omega
  · obtain ⟨ds, h1, h2, h3, h4, h5, h6, _⟩ := natToDec_spec i.toNat
    have habs : i.toNat = i.natAbs := by omega
    refine ⟨ds, by simp [formatInt, hneg, h1], by rw [h2, habs], h3, h4, ?_, ?_⟩
    · intro h0; exact h5 (by omega)
    · intro h0; exact h6 (by omega)

theorem formatInt_ne_nil (i : Int) : formatInt i ≠ [] := by
  obtain ⟨ds, h1, _, _, h4, _, _⟩ := formatInt_digits i
  rw [h1]
  cases ds with
  | nil => exact absurd rfl h4
  | cons d ds => split <;> simp

theorem formatInt_zero : formatInt 0 = [48] := by decide

/-- the first character is `'-'` or a digit, and it is `'0'` only for the number 0 -/
theorem formatInt_head (i : Int) (x : Byte) (h : (formatInt i).head? = some x) :
    x = 45 ∨ (isDigit x ∧ (x = 48 → i = 0)) := by
  obtain ⟨ds, h1, _, h3, h4, h5, _⟩ := formatInt_digits i
  rw [h1] at h
  by_cases hneg : i < 0
  · left; simp [hneg] at h; exact h.symm
  · right
    cases ds with
    | nil => exact absurd rfl h4
    | cons d rest =>
      simp [hneg] at h
      subst h
      have hd : d ≤ 9 := h3 d (by simp)
      refine ⟨asciiDigit_isDigit hd, ?_⟩
      intro h48
      have : (asciiDigit d).toNat = 48 := by rw [h48]; rfl
      rw [asciiDigit_toNat hd] at this
      have hd0 : d = 0 := by omega
      subst hd0
      exact Classical.byContradiction fun hne => h5 hne (by simp)

/-- the last character is a digit -/
theorem formatInt_last (i : Int) (x : Byte) (h : (formatInt i).getLast? = some x) : isDigit x := by
  obtain ⟨ds, h1, _, h3, h4, _, _⟩ := formatInt_digits i
  rw [h1, List.getLast?_append] at h
  have hne : ds.map asciiDigit ≠ [] := by simpa using h4
  cases hl : (ds.map asciiDigit).getLast? with
  | none => simp [List.getLast?_eq_none_iff] at hl; exact absurd hl h4
  | some y =>
    rw [hl] at h
    simp at h
    subst h
    have hm := List.mem_of_getLast? hl
    simp only [List.mem_map] at hm
    obtain ⟨d, hd, rfl⟩ := hm
    exact asciiDigit_isDigit (h3 d hd)

/-- an `int64` is rendered with at most 20 characters -/
theorem formatInt_length_le (i : Int) (h : -(2 ^ 63 : Int) ≤ i ∧ i < 2 ^ 63) : (formatInt i).length ≤ 20 := by
  have hp : (2 : Nat) ^ 63 < 10 ^ (18 + 1) := by decide
  unfold formatInt
  split
  · have : (-i).toNat < 10 ^ (18 + 1) := by omega
    have := natToDec_length_le _ 18 this
    simp; omega
  · have : i.toNat < 10 ^ (18 + 1) := by omega
    have := natToDec_length_le _ 18 this
    omega

/-! ### `ParseInt ∘ FormatInt` -/

/-- **`strconv.ParseInt(strconv.FormatInt(i, 10), 10, 64) = i`** for every `int64` -/
theorem parseInt64_formatInt (i : Int) (h : -(2 ^ 63 : Int) ≤ i ∧ i < 2 ^ 63) :
    parseInt64? (formatInt i) = some i := by
  by_cases hneg : i < 0
  · obtain ⟨ds, h1, h2, h3, h4, _, _, _⟩ := natToDec_spec (-i).toNat
    have hf : formatInt i = 45 :: ds.map asciiDigit := by simp [formatInt, hneg, h1]
    have hm := mapM_decVal_digits ds h3
    have hne : ds.map asciiDigit ≠ [] := by simpa using h4
    rw [hf]
    cases hd : ds.map asciiDigit with
    | nil => exact absurd hd hne
    | cons c cs =>
      rw [hd] at hm
      have hle : (-i).toNat ≤ 2 ^ 63 := by omega
      simp only [parseInt64?, ite_true, hm, Option.map_some, h2, hle]
      congr 1; omega
  · obtain ⟨ds, h1, h2, h3, h4, _, _, _⟩ := natToDec_spec i.toNat
    have hf : formatInt i = ds.map asciiDigit := by simp [formatInt, hneg, h1]
    have hm := mapM_decVal_digits ds h3
    rw [hf]
    cases ds with
    | nil => exact absurd rfl h4
    | cons d rest =>
      have hd : d ≤ 9 := h3 d (by simp)
      have hdig := asciiDigit_isDigit hd
      have h45 : asciiDigit d ≠ 45 := by intro h; rw [h] at hdig; exact absurd hdig (by decide)
      have h43 : asciiDigit d ≠ 43 := by intro h; rw [h] at hdig; exact absurd hdig (by decide)
      simp only [List.map_cons] at hm ⊢
      have hlt : i.toNat < 2 ^ 63 := by omega
      simp only [parseInt64?, h45, h43, ite_false, hm, Option.map_some, h2, hlt, ite_true]
      congr 1; omega

/-! ### padding a rendering and stripping it again (the padders K3 allows for Numeric) -/

/-- K3 for Numeric fields: Left `'0'`, or a pad character that is neither a digit nor a sign -/
def numPadOK : Pad → Prop
  | .left c => c = 48 ∨ ¬ (isDigit c ∨ c = 43 ∨ c = 45)
  | .right c => ¬ (isDigit c ∨ c = 43 ∨ c = 45)
  | _ => True

theorem dropWhile_all_eq (c : Byte) : ∀ (l : Bytes), (∀ x ∈ l, x = c) → l.dropWhile (· == c) = []
  | [], _ => rfl
  | x :: xs, h => by
    have hx : x = c := h x (by simp)
    simp [hx, dropWhile_all_eq c xs (fun y hy => h y (by simp [hy]))]

/-- **unpad ∘ pad on a rendering**: the rendering comes back, except that the number 0
under the Left-`'0'` padder is stripped to the empty string (which `setBytes` reads as 0) -/
theorem unpad_pad_formatInt (p : Pad) (i : Int) (len : Nat) (hp : numPadOK p) :
    p.unpad (p.pad (formatInt i) len) = if p = .left 48 ∧ i = 0 then [] else formatInt i := by
  cases p with
  | nil => simp [Pad.pad, Pad.unpad]
  | none => simp [Pad.pad, Pad.unpad]
  | right c =>
    have hc : ¬ (isDigit c ∨ c = 43 ∨ c = 45) := hp
    simp only [reduceCtorEq, false_and, ite_false]
    apply C20.unpad_pad_right
    intro x hx hxc
    subst hxc
    exact hc (Or.inl (formatInt_last i x hx))
  | left c =>
    by_cases h0 : c = 48 ∧ i = 0
    · obtain ⟨rfl, rfl⟩ := h0
      simp only [and_self, ite_true, formatInt_zero, Pad.pad, Pad.unpad]
      apply dropWhile_all_eq
      intro x hx
      split at hx
      · simpa using hx
      · simp only [List.mem_append, List.mem_replicate, List.mem_singleton] at hx
        rcases hx with ⟨_, h⟩ | h <;> exact h
    · have hif : ¬ (Pad.left c = Pad.left 48 ∧ i = 0) := by
        intro ⟨h1, h2⟩; simp only [Pad.left.injEq] at h1; exact h0 ⟨h1, h2⟩
      simp only [hif, ite_false]
      apply C20.unpad_pad_left
      intro x hx hxc
      subst hxc
      have hc : x = 48 ∨ ¬ (isDigit x ∨ x = 43 ∨ x = 45) := hp
      rcases formatInt_head i x hx with h45 | ⟨hd, h48⟩
      · rcases hc with hc | hc
        · rw [hc] at h45; exact absurd h45 (by decide)
        · exact hc (Or.inr (Or.inr h45))
      · rcases hc with hc | hc
        · exact h0 ⟨hc, h48 hc⟩
        · exact hc (Or.inl hd)

/-- `SetBytes` of a Numeric field on what unpadding leaves of a padded rendering: the number -/
theorem setBytes_unpad_pad_formatInt (s : PrimSpec) (i : Int) (hk : s.kind = .numeric)
    (hp : numPadOK s.pad) (h : -(2 ^ 63 : Int) ≤ i ∧ i < 2 ^ 63) :
    s.setBytes (s.pad.unpad (s.pad.pad (formatInt i) s.len)) = .ok (.num i) := by
  rw [unpad_pad_formatInt s.pad i s.len hp]
  split
  · rename_i h0
    simp [PrimSpec.setBytes, hk, h0.2]
  · have hne := formatInt_ne_nil i
    simp only [PrimSpec.setBytes, hk]
    cases hf : formatInt i with
    | nil => exact absurd hf hne
    | cons c cs => simp only [← hf, parseInt64_formatInt i h]

/-! Non-vacuity -/
example : formatInt (-9223372036854775808) = [45, 57, 50, 50, 51, 51, 55, 50, 48, 51, 54, 56, 53, 52, 55, 55, 53, 56, 48, 56] := by
  decide +kernel
example : parseInt64? (formatInt (-9223372036854775808)) = some (-9223372036854775808) := by decide +kernel
example : numPadOK (.left 48) := Or.inl rfl
example : (Pad.left 48).unpad ((Pad.left 48).pad (formatInt 0) 4) = [] := by decide
example : (Pad.left 48).unpad ((Pad.left 48).pad (formatInt 120) 6) = formatInt 120 := by decide

end Iso8583
