/-
The wire-layer hypothesis `WireRoundTrip` of the track round trip, discharged for every
coherent track spec (default packer with or without padding, Track2 packer) from the
primitive-layer theorems of Lemmas/Prim.lean (`unpackBytes_packBytes_default`,
`unpackBytes_packBytes_track2`). Kept in its own file: it is the only part of the track
proofs that depends on Lemmas/Prim.lean.
-/
import Iso8583.Lemmas.Track
import Iso8583.Lemmas.Prim

set_option linter.unusedSimpArgs false
set_option linter.unusedVariables false

namespace Iso8583.TrackLemmas
open Iso8583 Track

/-- **Wire layer for all coherent specs**: for an in-domain value on which Pack succeeds,
`unpacker.Unpack(packed ++ tail)` returns the packed text and reads exactly `|packed|`. -/
theorem wire_of_coherent (s : TrackSpec) (v : TrackVal) (bs : Bytes)
    (hco : s.coherent = true) (hdom : s.inDomain v = true) (hpack : s.pack v = .ok bs) :
    WireRoundTrip s v.packText bs := by
  intro tail htail
  simp only [TrackSpec.inDomain, Bool.and_eq_true, bne_iff_ne, ne_eq] at hdom
  obtain ⟨⟨⟨⟨_, _⟩, hfd⟩, hhex⟩, hcanon⟩ := hdom
  have hco' : s.prim.coherent false = true := hco
  have hpack' : s.prim.packBytes v.packText = .ok bs := hpack
  cases hpk : s.packer with
  | default =>
    have hd : s.prim.packer = .default := hpk
    simp only [Field.inDomain, TrackSpec.prim, hpk, Bool.and_eq_true, decide_eq_true_eq] at hfd
    obtain ⟨⟨_, hlen⟩, hacc⟩ := hfd
    simp only [hpk, beq_iff_eq] at hcanon
    have := PrimSpec.unpackBytes_packBytes_default s.prim false v.packText bs tail hco' hd hhex hacc hlen hpack' htail
    rw [this]
    simp only [TrackSpec.prim] at hcanon ⊢
    rw [hcanon]
  | track2 =>
    have hd : s.prim.packer = .track2 := hpk
    simp only [Field.inDomain, TrackSpec.prim, hpk, Bool.and_eq_true, decide_eq_true_eq] at hfd
    obtain ⟨⟨_, hlen⟩, hacc, hedge⟩ := hfd
    have hedge' : match s.prim.pad with
        | .left c => v.packText.head? ≠ some c
        | .right c => v.packText.getLast? ≠ some c
        | _ => True := by
      simp only [TrackSpec.prim]
      cases hp : s.pad <;> simp_all
    exact (PrimSpec.unpackBytes_packBytes_track2 s.prim false v.packText bs tail hco' hd hacc hlen hedge' hpack').1

end Iso8583.TrackLemmas
