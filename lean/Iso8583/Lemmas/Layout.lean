/-
Helper lemmas for Props/C03.lean: the reference codec of Spec/Layout.lean against the
operational model, layer by layer (digits, prefixes, encoders, bitmap, ordering).
-/
import Iso8583.Spec.Layout
import Iso8583.Spec.Coherent
import Iso8583.Lemmas.Bytes
import Iso8583.Lemmas.Encoding
import Iso8583.Lemmas.Prefix

/-- find the goal among the conjuncts of a hypothesis (a nested `∧`), whatever its position:
keeps the fact-extraction lemmas below independent of the order / number of clauses of the
`coherent` / `inDomain` predicates -/
syntax "conj_find " ident : tactic
macro_rules
  | `(tactic| conj_find $h) => `(tactic| first
      | exact $h
      | (rcases $h:ident with ⟨hl, hr⟩; first | conj_find hl | conj_find hr))

namespace Iso8583.Layout
open Iso8583

/-! ### `Res` seen as an option -/

/-- what a caller that only looks at successful results sees -/
def toOpt {α : Type} : Res α → Option α
  | .ok a => some a
  | _ => none

@[simp] theorem toOpt_ok {α : Type} (a : α) : toOpt (Res.ok a) = some a := rfl
@[simp] theorem toOpt_err {α : Type} : toOpt (Res.err : Res α) = none := rfl
@[simp] theorem toOpt_panic {α : Type} : toOpt (Res.panic : Res α) = none := rfl
@[simp] theorem toOpt_ofOption {α : Type} (o : Option α) : toOpt (Res.ofOption o) = o := by
  cases o <;> rfl

theorem toOpt_eq_some {α : Type} {r : Res α} {a : α} : toOpt r = some a ↔ r = .ok a := by
  cases r <;> simp [toOpt]

/-! ### positional digits -/

theorem posDigits_length (b w n : Nat) : (posDigits b w n).length = w := by
  simp [posDigits]

theorem posDigits_zero (b n : Nat) : posDigits b 0 n = [] := rfl

/-- peel the least significant digit -/
theorem posDigits_succ_snoc (b w n : Nat) :
    posDigits b (w + 1) n = posDigits b w (n / b) ++ [n % b] := by
  unfold posDigits
  rw [List.range_succ, List.map_append]
  congr 1
  · apply List.map_congr_left
    intro i hi
    have hi : i < w := List.mem_range.mp hi
    have e : w + 1 - 1 - i = (w - 1 - i) + 1 := by omega
    rw [e, Nat.pow_succ, Nat.mul_comm, Nat.div_div_eq_div_mul]
  · simp

/-- peel the most significant digit -/
theorem posDigits_succ_cons (b w n : Nat) :
    posDigits b (w + 1) n = (n / b ^ w % b) :: posDigits b w n := by
  unfold posDigits
  rw [List.range_succ_eq_map, List.map_cons, List.map_map]
  congr 1
  apply List.map_congr_left
  intro i _
  simp only [Function.comp]
  have e : w + 1 - 1 - i.succ = w - 1 - i := by omega
  rw [e]

theorem posDigits_eq_fixedDec (d n : Nat) : posDigits 10 d n = fixedDec d n := by
  induction d generalizing n with
  | zero => rfl
  | succ d ih => rw [posDigits_succ_snoc, fixedDec, ih]

theorem posDigits_eq_fixedHex (d n : Nat) : posDigits 16 d n = fixedHex d n := by
  induction d generalizing n with
  | zero => rfl
  | succ d ih => rw [posDigits_succ_snoc, fixedHex, ih]

/-- leading zeros: a number below `b^w` rendered with `w + k` digits -/
theorem posDigits_add_of_lt (b w k n : Nat) (hb : 0 < b) (h : n < b ^ w) :
    posDigits b (w + k) n = List.replicate k 0 ++ posDigits b w n := by
  induction k with
  | zero => simp
  | succ k ih =>
    have hlt : n < b ^ (w + k) := by
      calc n < b ^ w := h
        _ ≤ b ^ (w + k) := Nat.pow_le_pow_right hb (by omega)
    rw [← Nat.add_assoc, posDigits_succ_cons, ih, Nat.div_eq_of_lt hlt]
    simp [List.replicate_succ]

/-! ### digit counts -/

theorem digitCount_pos (b f n : Nat) : 1 ≤ digitCount b f n := by
  cases f with
  | zero => simp [digitCount]
  | succ f => simp only [digitCount]; split <;> omega

theorem digitCount_le_iff (b : Nat) (hb : 1 < b) : ∀ (f n d : Nat), 1 ≤ d → d ≤ f →
    (digitCount b f n ≤ d ↔ n < b ^ d) := by
  intro f
  induction f with
  | zero => intro n d h1 h2; omega
  | succ f ih =>
    intro n d h1 h2
    simp only [digitCount]
    split
    · rename_i hlt
      have : b ≤ b ^ d := by
        calc b = b ^ 1 := (Nat.pow_one b).symm
          _ ≤ b ^ d := Nat.pow_le_pow_right (by omega) h1
      constructor
      · intro _; omega
      · intro _; omega
    · rename_i hge
      by_cases hd : d = 1
      · subst hd
        have := digitCount_pos b f (n / b)
        simp only [Nat.pow_one]
        omega
      · obtain ⟨e, rfl⟩ : ∃ e, d = e + 1 := ⟨d - 1, by omega⟩
        have h3 := ih (n / b) e (by omega) (by omega)
        rw [Nat.div_lt_iff_lt_mul (by omega)] at h3
        rw [Nat.pow_succ]
        omega

theorem posDigits_lt (b w n : Nat) (hb : 0 < b) : ∀ x ∈ posDigits b w n, x < b := by
  intro x hx
  simp only [posDigits, List.mem_map] at hx
  obtain ⟨i, _, rfl⟩ := hx
  exact Nat.mod_lt _ hb

/-- the model's minimal big-endian rendering is the positional one of the digit count -/
theorem minimalBE_eq : ∀ (f n : Nat), 0 < n →
    Pref.minimalBE (f + 1) n = posDigits 256 (digitCount 256 f n) n := by
  intro f
  induction f with
  | zero =>
    intro n hn
    have h0 : n ≠ 0 := by omega
    simp [Pref.minimalBE, h0, digitCount, posDigits]
  | succ f ih =>
    intro n hn
    have h0 : n ≠ 0 := by omega
    rw [Pref.minimalBE]
    simp only [h0, ite_false, digitCount]
    by_cases hlt : n < 256
    · have hq : n / 256 = 0 := Nat.div_eq_of_lt hlt
      simp only [hlt, ite_true, hq]
      have : Pref.minimalBE (f + 1) 0 = [] := by simp [Pref.minimalBE]
      rw [this]
      simp [posDigits, Nat.mod_eq_of_lt hlt]
    · simp only [hlt, ite_false]
      rw [posDigits_succ_snoc, ih (n / 256) (by omega)]

theorem beBytes_eq (n : Nat) (hn : 0 < n) : Pref.beBytes n = posDigits 256 (digitCount 256 8 n) n :=
  minimalBE_eq 8 n hn

/-! ### characters -/

theorem asciiDigit_eq_decChar (x : Nat) : asciiDigit x = decChar x := rfl

theorem hexDigitUpper_eq_hexChar : ∀ x, x < 16 → hexDigitUpper x = hexChar x := by decide

theorem ebcdic_digit : ∀ x, x < 10 → Enc.tbl Gen.asciiToEbcdic (asciiDigit x) = ebcdicDecChar x := by
  decide

theorem cp1047_digit : ∀ x, x < 10 → Gen.cp1047Encode.getD (asciiDigit x).toNat 256 = 0xF0 + x := by
  decide

theorem cp1047Encode_digits : ∀ (ds : List Nat), (∀ x ∈ ds, x < 10) →
    Enc.cp1047EncodeBytes (ds.map asciiDigit) = some (ds.map ebcdicDecChar) := by
  intro ds
  induction ds with
  | nil => intro _; rfl
  | cons x xs ih =>
    intro h
    have hx : x < 10 := h x (by simp)
    have h1 : (asciiDigit x).toNat < 128 := by
      rw [asciiDigit_toNat (by omega)]; omega
    have h2 := cp1047_digit x hx
    simp only [List.map_cons]
    rw [Enc.cp1047EncodeBytes.eq_def]
    simp only [h1, ite_true, h2]
    have h3 : 240 + x < 256 := by omega
    simp only [h3, ite_true, ih (fun y hy => h y (by simp [hy])), Option.map_some]
    rfl

theorem bcdPack_digits : ∀ (ds : List Nat), (∀ x ∈ ds, x < 10) → ds.length % 2 = 0 →
    Enc.bcdPack (ds.map asciiDigit) = some (packNibbles ds) := by
  intro ds
  induction ds using pairInduction with
  | h0 => intro _ _; rfl
  | h1 a => intro _ h; simp at h
  | h2 a b l ih =>
    intro h hl
    have ha : a ≤ 9 := by have := h a (by simp); omega
    have hb : b ≤ 9 := by have := h b (by simp); omega
    have hl' : l.length % 2 = 0 := by simp at hl; omega
    simp only [List.map_cons, Enc.bcdPack, Enc.nib?, decVal_asciiDigit ha, decVal_asciiDigit hb,
      ih (fun y hy => h y (by simp [hy])) hl', packNibbles]

/-! ### length prefixes -/

theorem pow256 (d : Nat) : 2 ^ (d * 8) = 256 ^ d := by
  rw [Nat.mul_comm, Nat.pow_mul]

theorem map_ofNat_eq_bytesOfNats (xs : List Nat) : xs.map UInt8.ofNat = Pref.bytesOfNats xs := rfl

/-- every exported prefixer (digit counts up to 8 would do) writes exactly the reference
rendering of the length, and fails exactly when there is none -/
theorem encodeLength_eq (p : Pref) (maxLen n : Nat) (hp : p.exportedB = true) :
    p.encodeLength maxLen n = Res.ofOption (lengthPrefix p maxLen n) := by
  cases p with
  | none => rfl
  | fixed f =>
    have hgen : ∀ (a b : Nat), (if a ≠ b then (Res.err : Res Bytes) else .ok []) =
        Res.ofOption (if a = b then some [] else none) := by
      intro a b; by_cases h : a = b <;> simp [h, Res.ofOption]
    cases f
    case hex =>
      simp only [Pref.encodeLength, lengthPrefix]
      rw [Nat.mul_comm]; exact hgen _ _
    all_goals
      simp only [Pref.encodeLength, lengthPrefix]
      exact hgen _ _
  | berTLV =>
    simp only [Pref.encodeLength, lengthPrefix]
    by_cases h1 : maxLen ≠ 0 ∧ n > maxLen
    · rw [if_pos h1, if_pos h1]; rfl
    · rw [if_neg h1, if_neg h1]
      by_cases h2 : n ≤ 127
      · rw [if_pos h2, if_pos h2]; rfl
      · rw [if_neg h2, if_neg h2]
        simp only [Res.ofOption]
        rw [beBytes_eq n (by omega), posDigits_length, map_ofNat_eq_bytesOfNats]
  | var f d =>
    have hd : 1 ≤ d ∧ d ≤ 6 := by simpa [Pref.exportedB] using hp
    simp only [Pref.encodeLength, lengthPrefix]
    by_cases h1 : n > maxLen
    · rw [if_pos h1, if_pos h1]; rfl
    · rw [if_neg h1, if_neg h1]
      have hdig := posDigits_lt 10 d n (by omega)
      cases f with
      | ascii =>
        by_cases h2 : n < 10 ^ d
        · have : ¬ n ≥ 10 ^ d := by omega
          simp only [this, h2, ite_true, ite_false, Res.ofOption, Pref.decString, ← posDigits_eq_fixedDec]
          rfl
        · have : n ≥ 10 ^ d := by omega
          simp only [this, h2, ite_true, ite_false, Res.ofOption]
      | ebcdic =>
        by_cases h2 : n < 10 ^ d
        · have : ¬ n ≥ 10 ^ d := by omega
          simp only [this, h2, ite_true, ite_false, Res.ofOption, Pref.decString, ← posDigits_eq_fixedDec,
            Enc.encode, List.map_map]
          refine congrArg Res.ok (List.map_congr_left ?_)
          intro x hx
          exact ebcdic_digit x (hdig x hx)
        · have : n ≥ 10 ^ d := by omega
          simp only [this, h2, ite_true, ite_false, Res.ofOption]
      | ebcdic1047 =>
        by_cases h2 : n < 10 ^ d
        · have : ¬ n ≥ 10 ^ d := by omega
          simp only [this, h2, ite_true, ite_false, Pref.decString, ← posDigits_eq_fixedDec,
            Enc.encode, cp1047Encode_digits _ hdig]
        · have : n ≥ 10 ^ d := by omega
          simp only [this, h2, ite_true, ite_false, Res.ofOption]
      | bcd =>
        by_cases h2 : n < 10 ^ d
        · have : ¬ n ≥ 10 ^ d := by omega
          simp only [this, h2, ite_true, ite_false, Pref.decString, ← posDigits_eq_fixedDec,
            Enc.encode, List.length_map, posDigits_length]
          by_cases hodd : d % 2 = 1
          · simp only [hodd, ite_true]
            have e : (48 : Byte) :: (posDigits 10 d n).map asciiDigit = (0 :: posDigits 10 d n).map asciiDigit := rfl
            rw [e, bcdPack_digits]
            · intro x hx
              simp only [List.mem_cons] at hx
              rcases hx with rfl | hx
              · omega
              · exact hdig x hx
            · simp [posDigits_length]; omega
          · simp only [hodd, ite_false]
            rw [bcdPack_digits _ hdig (by rw [posDigits_length]; omega)]
        · have : n ≥ 10 ^ d := by omega
          simp only [this, h2, ite_true, ite_false, Res.ofOption]
      | binary =>
        by_cases hn0 : n = 0
        · subst hn0
          have hp0 : 0 < 256 ^ d := Nat.pow_pos (by omega)
          have hb0 : Pref.beBytes 0 = [] := by simp [Pref.beBytes, Pref.minimalBE]
          simp only [hb0, List.length_nil, hp0, ite_true, Res.ofOption]
          have : ¬ (0 > d) := by omega
          simp only [this, ite_false, Nat.sub_zero, List.append_nil]
          have := posDigits_add_of_lt 256 0 d 0 (by omega) (by simp)
          simp only [Nat.zero_add, posDigits_zero, List.append_nil] at this
          rw [this]; rfl
        · have hpos : 0 < n := Nat.pos_of_ne_zero hn0
          rw [beBytes_eq n hpos, posDigits_length]
          have hiff := digitCount_le_iff 256 (by omega) 8 n d hd.1 (by omega)
          by_cases h2 : n < 256 ^ d
          · have hle : digitCount 256 8 n ≤ d := hiff.mpr h2
            have : ¬ digitCount 256 8 n > d := by omega
            simp only [this, h2, ite_true, ite_false, Res.ofOption]
            have hw : n < 256 ^ digitCount 256 8 n :=
              (digitCount_le_iff 256 (by omega) 8 n _ (digitCount_pos _ _ _) (by omega)).mp (Nat.le_refl _)
            have := posDigits_add_of_lt 256 (digitCount 256 8 n) (d - digitCount 256 8 n) n (by omega) hw
            have e : digitCount 256 8 n + (d - digitCount 256 8 n) = d := by omega
            rw [e] at this
            rw [this]; rfl
          · have : digitCount 256 8 n > d := by
              have := mt hiff.mp h2
              omega
            simp only [this, h2, ite_true, ite_false, Res.ofOption]
      | hex =>
        rw [pow256]
        have hp0 : 0 < 256 ^ d := Nat.pow_pos (by omega)
        by_cases h2 : n < 256 ^ d
        · have : ¬ n > 256 ^ d - 1 := by omega
          simp only [this, h2, ite_true, ite_false, Res.ofOption, ← posDigits_eq_fixedHex]
          congr 1
          apply List.map_congr_left
          intro x hx
          exact hexDigitUpper_eq_hexChar x (posDigits_lt 16 _ n (by omega) x hx)
        · have : n > 256 ^ d - 1 := by omega
          simp only [this, h2, ite_true, ite_false, Res.ofOption]

/-! ### value encodings -/

theorem eachChar?_length {α : Type} (f : Byte → Option α) : ∀ (x : Bytes) (ys : List α),
    eachChar? f x = some ys → ys.length = x.length := by
  intro x
  induction x with
  | nil => intro ys h; simp [eachChar?] at h; subst h; rfl
  | cons c cs ih =>
    intro ys h
    simp only [eachChar?] at h
    cases hc : f c with
    | none => simp [hc] at h
    | some v =>
      cases hr : eachChar? f cs with
      | none => simp [hc, hr] at h
      | some r =>
        simp [hc, hr] at h; subst h
        simp [ih r hr]

theorem eachChar?_append {α : Type} (f : Byte → Option α) (x y : Bytes) :
    eachChar? f (x ++ y) =
      match eachChar? f x, eachChar? f y with
      | some a, some b => some (a ++ b)
      | _, _ => none := by
  induction x with
  | nil => cases h : eachChar? f y <;> simp [eachChar?, h]
  | cons c cs ih =>
    simp only [List.cons_append, eachChar?]
    cases hc : f c with
    | none => simp
    | some v =>
      rw [ih]
      cases eachChar? f cs <;> cases eachChar? f y <;> simp

theorem nib?_eq (c : Byte) : Enc.nib? c = decCharVal? c := rfl

theorem hexVal?_eq (c : Byte) : hexVal? c = hexCharVal? c := by
  unfold hexVal? hexCharVal?
  simp only
  split
  · rfl
  · split
    · congr 1; omega
    · split
      · congr 1; omega
      · rfl

theorem bcdPack_eq : ∀ (y : Bytes), y.length % 2 = 0 →
    Enc.bcdPack y = (eachChar? decCharVal? y).map packNibbles := by
  intro y
  induction y using pairInduction with
  | h0 => intro _; rfl
  | h1 a => intro h; simp at h
  | h2 a b l ih =>
    intro hl
    have hl' : l.length % 2 = 0 := by simp at hl; omega
    simp only [Enc.bcdPack, eachChar?, nib?_eq, ih hl']
    cases decCharVal? a <;> cases decCharVal? b <;> cases eachChar? decCharVal? l <;> simp [packNibbles]

theorem hexDecode_eq : ∀ (y : Bytes),
    Enc.hexDecode y = if y.length % 2 = 0 then (eachChar? hexCharVal? y).map packNibbles else none := by
  intro y
  induction y using pairInduction with
  | h0 => rfl
  | h1 a => simp [Enc.hexDecode]
  | h2 a b l ih =>
    simp only [Enc.hexDecode, eachChar?, hexVal?_eq, ih, List.length_cons]
    by_cases hl : l.length % 2 = 0
    · have e : (l.length + 1 + 1) % 2 = 0 := by omega
      simp only [hl, e, ite_true]
      cases hexCharVal? a <;> cases hexCharVal? b <;> cases eachChar? hexCharVal? l <;> simp [packNibbles]
    · have e : ¬ (l.length + 1 + 1) % 2 = 0 := by omega
      simp only [hl, e, ite_false]
      cases hexCharVal? a <;> cases hexCharVal? b <;> simp

theorem hexEncodeUpper_eq (x : Bytes) :
    Enc.hexEncodeUpper x = x.flatMap fun c => [hexChar (c.toNat / 16), hexChar (c.toNat % 16)] := by
  unfold Enc.hexEncodeUpper
  induction x with
  | nil => rfl
  | cons c cs ih =>
    simp only [List.flatMap_cons, ih]
    have h1 : c.toNat / 16 < 16 := by have := byte_toNat_lt c; omega
    have h2 : c.toNat % 16 < 16 := Nat.mod_lt _ (by omega)
    rw [hexDigitUpper_eq_hexChar _ h1, hexDigitUpper_eq_hexChar _ h2]

theorem cp1047Encode_eq : ∀ (x : Bytes), (∀ c ∈ x, c.toNat ≤ 127) →
    Enc.cp1047EncodeBytes x = eachChar? cp1047Char? x := by
  intro x
  induction x with
  | nil => intro _; rfl
  | cons c cs ih =>
    intro h
    have hc : c.toNat ≤ 127 := h c (by simp)
    have hc' : c.toNat < 128 := by omega
    rw [Enc.cp1047EncodeBytes.eq_def]
    simp only [hc', ite_true, eachChar?, cp1047Char?, hc, ih (fun d hd => h d (by simp [hd]))]
    by_cases hy : Gen.cp1047Encode.getD c.toNat 256 < 256
    · simp only [hy, ite_true]
    · simp only [hy, ite_false]

/-- every value encoder writes exactly the reference form, and fails exactly when there
is none (EBCDIC-1047: on the ASCII range, which is the encoder's value domain) -/
theorem encode_eq (e : Enc) (x : Bytes) (h : e = .ebcdic1047 → ∀ c ∈ x, c.toNat ≤ 127) :
    Enc.encode e x = Res.ofOption (encodeText e x) := by
  cases e with
  | ascii =>
    simp only [Enc.encode, encodeText]
    by_cases hx : Enc.asciiOK x = true
    · have hx' : (x.all fun c => decide (c.toNat ≤ 0x7F)) = true := hx
      rw [if_pos hx, if_pos hx']; rfl
    · have hx' : ¬ (x.all fun c => decide (c.toNat ≤ 0x7F)) = true := hx
      rw [if_neg hx, if_neg hx']; rfl
  | ebcdic => rfl
  | ebcdic1047 =>
    simp only [Enc.encode, encodeText, cp1047Encode_eq x (h rfl)]
  | binary => rfl
  | bcd =>
    simp only [Enc.encode, encodeText]
    congr 1
    by_cases hodd : x.length % 2 = 1
    · simp only [hodd, ite_true]
      rw [bcdPack_eq _ (by simp; omega)]
      have e48 : decCharVal? 48 = some 0 := by decide
      simp only [eachChar?, e48]
      cases hx : eachChar? decCharVal? x with
      | none => rfl
      | some ds =>
        have := eachChar?_length _ _ _ hx
        simp [this, hodd]
    · have hev : x.length % 2 = 0 := by omega
      simp only [hodd, ite_false]
      rw [bcdPack_eq _ hev]
      cases hx : eachChar? decCharVal? x with
      | none => rfl
      | some ds =>
        have := eachChar?_length _ _ _ hx
        simp [this, hodd]
  | lbcd =>
    simp only [Enc.encode, encodeText]
    congr 1
    by_cases hodd : x.length % 2 = 1
    · simp only [hodd, ite_true]
      rw [bcdPack_eq _ (by simp; omega), eachChar?_append]
      have e48 : eachChar? decCharVal? [48] = some [0] := by decide
      rw [e48]
      cases hx : eachChar? decCharVal? x with
      | none => rfl
      | some ds =>
        have := eachChar?_length _ _ _ hx
        simp [this, hodd]
    · have hev : x.length % 2 = 0 := by omega
      simp only [hodd, ite_false]
      rw [bcdPack_eq _ hev]
      cases hx : eachChar? decCharVal? x with
      | none => rfl
      | some ds =>
        have := eachChar?_length _ _ _ hx
        simp [this, hodd]
  | bytesToHex =>
    simp only [Enc.encode, encodeText, hexEncodeUpper_eq]; rfl
  | hexToBytes => simp only [Enc.encode, encodeText, hexDecode_eq]
  | berTag => simp only [Enc.encode, encodeText, hexDecode_eq]

/-! ### primitive fields -/

theorem decDigits_eq : ∀ (f n : Nat), decDigits (f + 1) n = posDigits 10 (digitCount 10 f n) n := by
  intro f
  induction f with
  | zero =>
    intro n
    simp only [decDigits, digitCount]
    by_cases h : n < 10
    · simp [h, posDigits, Nat.mod_eq_of_lt h]
    · simp [h, posDigits]
  | succ f ih =>
    intro n
    rw [decDigits]
    simp only [digitCount]
    by_cases h : n < 10
    · simp [h, posDigits, Nat.mod_eq_of_lt h]
    · simp only [h, ite_false]
      rw [posDigits_succ_snoc, ih]

theorem formatInt_eq (i : Int) : formatInt i = decimalText i := by
  unfold formatInt decimalText natToDec
  simp only [decDigits_eq]
  by_cases h : i < 0
  · have e : (-i).toNat = i.natAbs := by omega
    simp only [h, ite_true, e]; rfl
  · have e : i.toNat = i.natAbs := by omega
    simp only [h, ite_false, e]; rfl

theorem pad_eq (p : Pad) (x : Bytes) (n : Nat) : p.pad x n = padded p x n := by
  cases p with
  | nil => rfl
  | none => rfl
  | left c =>
    simp only [Pad.pad, padded]
    split
    · have : n - x.length = 0 := by omega
      simp [this]
    · rfl
  | right c =>
    simp only [Pad.pad, padded]
    split
    · have : n - x.length = 0 := by omega
      simp [this]
    · rfl

theorem valueBytes_eq (s : PrimSpec) (v : Value) :
    s.valueBytes v = Res.ofOption (valueText s.kind v) := by
  unfold PrimSpec.valueBytes valueText
  cases s.kind <;> cases v <;> simp only [formatInt_eq, hexDecode_eq] <;> rfl

/-- the bytes that are handed to the value encoder -/
def wireText (s : PrimSpec) (text : Bytes) : Bytes :=
  match s.packer with
  | .default => padded s.pad text s.len
  | .track2 => if text.length % 2 = 1 then padded s.pad text (text.length + 1) else text

/-- `encodePrim` after the value → text step -/
def encodeBody (s : PrimSpec) (text : Bytes) : Option Bytes :=
  match s.packer with
  | .default =>
    let p := padded s.pad text s.len
    match lengthPrefix s.pref s.len p.length, encodeText s.enc p with
    | some pre, some body => some (pre ++ body)
    | _, _ => none
  | .track2 =>
    let p := if text.length % 2 = 1 then padded s.pad text (text.length + 1) else text
    match lengthPrefix s.pref s.len text.length, encodeText s.enc p with
    | some pre, some body => some (pre ++ body)
    | _, _ => none

theorem encodePrim_eq (s : PrimSpec) (v : Value) :
    encodePrim s v = (valueText s.kind v).bind (encodeBody s) := by
  unfold encodePrim encodeBody
  cases valueText s.kind v <;> rfl

theorem packBytes_layout (s : PrimSpec) (text : Bytes) (hp : s.pref.exportedB = true)
    (hasc : s.enc = .ebcdic1047 → ∀ c ∈ wireText s text, c.toNat ≤ 127) :
    toOpt (s.packBytes text) = encodeBody s text := by
  unfold PrimSpec.packBytes encodeBody
  unfold wireText at hasc
  cases hpk : s.packer with
  | default =>
    simp only [hpk] at hasc
    simp only [pad_eq, encodeLength_eq _ _ _ hp]
    rw [encode_eq _ _ hasc]
    cases lengthPrefix s.pref s.len (padded s.pad text s.len).length <;>
      cases encodeText s.enc (padded s.pad text s.len) <;> rfl
  | track2 =>
    simp only [hpk] at hasc
    have hdata : (if s.pad ≠ .nil ∧ text.length % 2 ≠ 0 then s.pad.pad text (text.length + 1) else text) =
        (if text.length % 2 = 1 then padded s.pad text (text.length + 1) else text) := by
      by_cases hodd : text.length % 2 = 1
      · have h2 : text.length % 2 ≠ 0 := by omega
        by_cases hnil : s.pad = .nil
        · simp [hnil, hodd, padded]
        · simp [hnil, hodd, pad_eq]
      · have h2 : ¬ text.length % 2 ≠ 0 := by omega
        simp [hodd, h2]
    simp only [hdata, encodeLength_eq _ _ _ hp]
    rw [encode_eq _ _ hasc]
    cases lengthPrefix s.pref s.len text.length <;>
      cases encodeText s.enc (if text.length % 2 = 1 then padded s.pad text (text.length + 1) else text) <;> rfl

theorem accepts_ascii {e : Enc} {x : Bytes} (h : e.accepts x = true) (he : e = .ebcdic1047) :
    ∀ c ∈ x, c.toNat ≤ 127 := by
  subst he
  simp only [Enc.accepts, List.all_eq_true, isAsciiB, decide_eq_true_eq] at h
  exact h

/-- an in-domain value has a wire text in the encoder's alphabet -/
theorem inDomain_wireText (s : PrimSpec) (v : Value) (text : Bytes)
    (hd : (Field.prim s).inDomain v = true) (ht : valueText s.kind v = some text)
    (ht2 : s.packer = .track2 → s.kind = .string) :
    s.enc.accepts (wireText s text) = true := by
  unfold wireText
  cases v with
  | str b =>
    cases hk : s.kind <;> simp [valueText, hk] at ht
    subst ht
    simp only [Field.inDomain, Bool.and_eq_true] at hd
    cases hpk : s.packer with
    | default =>
      simp only [hpk] at hd
      have hacc : s.enc.accepts (s.pad.pad b s.len) = true := by conj_find hd
      simpa [pad_eq] using hacc
    | track2 =>
      simp only [hpk, Bool.and_eq_true] at hd
      have hacc : s.enc.accepts (s.pad.pad b (b.length + b.length % 2)) = true := by conj_find hd
      rw [pad_eq] at hacc
      by_cases hodd : b.length % 2 = 1
      · simpa [hodd] using hacc
      · have h0 : b.length % 2 = 0 := by omega
        simp only [hodd, ite_false]
        have : padded s.pad b (b.length + b.length % 2) = b := by
          rw [h0, Nat.add_zero]
          cases s.pad <;> simp [padded]
        rwa [this] at hacc
  | bin b =>
    cases hk : s.kind <;> simp [valueText, hk] at ht
    subst ht
    have hpk : s.packer = .default := by
      cases hpk : s.packer with
      | default => rfl
      | track2 => have := ht2 hpk; rw [hk] at this; cases this
    simp only [Field.inDomain, Bool.and_eq_true] at hd
    have hacc : s.enc.accepts (s.pad.pad b s.len) = true := by conj_find hd
    simpa [hpk, pad_eq] using hacc
  | hexv t =>
    cases hk : s.kind
    case string => simp [valueText, hk] at ht
    case numeric => simp [valueText, hk] at ht
    case binary => simp [valueText, hk] at ht
    simp only [valueText, hk] at ht
    have hpk : s.packer = .default := by
      cases hpk : s.packer with
      | default => rfl
      | track2 => have := ht2 hpk; rw [hk] at this; cases this
    simp only [Field.inDomain, Bool.and_eq_true] at hd
    have hacc : (match Enc.hexDecode t with
        | some raw => s.enc.accepts (s.pad.pad raw s.len)
        | none => false) = true := by conj_find hd
    rw [hexDecode_eq, ht] at hacc
    simpa [hpk, pad_eq] using hacc
  | num i =>
    cases hk : s.kind <;> simp [valueText, hk] at ht
    subst ht
    have hpk : s.packer = .default := by
      cases hpk : s.packer with
      | default => rfl
      | track2 => have := ht2 hpk; rw [hk] at this; cases this
    simp only [Field.inDomain, Bool.and_eq_true] at hd
    have hacc : s.enc.accepts (s.pad.pad (formatInt i) s.len) = true := by conj_find hd
    simpa [hpk, pad_eq, formatInt_eq] using hacc
  | comp vals => simp [Field.inDomain] at hd

theorem prim_coherent_facts {s : PrimSpec} {lp : Bool} (h : s.coherent lp = true) :
    s.pref.exportedB = true ∧ (s.packer = .track2 → s.kind = .string) := by
  simp only [PrimSpec.coherent, Bool.and_eq_true] at h
  constructor
  · conj_find h
  · intro hpk
    cases hk : s.kind with
    | string => rfl
    | numeric => exfalso; simp [hpk, hk] at h
    | binary => exfalso; simp [hpk, hk] at h
    | hex => exfalso; simp [hpk, hk] at h

/-- a primitive field: the model's `Pack` is the reference layout -/
theorem prim_layout (s : PrimSpec) (v : Value) (hp : s.pref.exportedB = true)
    (ht2 : s.packer = .track2 → s.kind = .string)
    (hd : (Field.prim s).inDomain v = true) :
    toOpt (s.pack v) = encodePrim s v := by
  rw [encodePrim_eq]
  unfold PrimSpec.pack
  rw [valueBytes_eq]
  cases ht : valueText s.kind v with
  | none => rfl
  | some text =>
    simp only [Res.ofOption, Option.bind_some]
    exact packBytes_layout s text hp (fun he => accepts_ascii (inDomain_wireText s v text hd ht ht2) he)

end Iso8583.Layout
