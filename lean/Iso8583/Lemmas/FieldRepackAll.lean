/-
C02, field level for ALL coherent fields: whatever `Unpack` accepts is in the domain, in
canonical form and packs again — under the explicit acceptance predicate `AcceptedAll`:

  * primitives: `C02.Accepted` (not KF2, value fits a Go slice);
  * composites: every set subfield accepted (recursively), AND
      - `LenFits`: the composite's own prefixer accepts the length of the body that
        packByTag / packByBitmap produce from the accepted subfields (its complement is the
        known finding KF8: the canonical re-encoding has another length than what was read);
      - `posTailB` (variable-length positional composites only): the value is not empty and its
        last element packs to at least one byte — the clause of `Field.inDomain` that an empty
        body violates (benign: such a value does re-pack, but it is outside `InDomain`, which
        is a hypothesis of the round trip).

`field_repack_all` is the induction over the spec tree (`Field.rec`), with one step per
composite mode. The loops are used through inversion lemmas only: `FieldRepack.tlvLoop_inv`,
`FieldRepack.unpack_tagged_inv` for the TLV loop; `bitmapScan` and `unpackPositional` are
inverted here (their definitions are not being changed).
-/
import Iso8583.Lemmas.FieldRepack
import Iso8583.Props.C02
import Iso8583.Props.C01

namespace Iso8583.FieldRepackAll
open Iso8583 Tlv MessageRT FieldRepack

/-! ## the acceptance predicate -/

/-- the body a composite packs — what follows its own length prefix -/
def compBody (s : CompSpec) (subs : List (Tag × Field)) (vals : List (Tag × Value)) : Res Bytes :=
  match s.mode with
  | .tagged t => packByTag t subs vals
  | .bitmapped b =>
    match packByBitmap subs vals (Bitmap.reset b.specLen b.auto) with
    | .ok (bm, w) =>
      match bm.pack b.enc with
      | .ok pbm => .ok (pbm ++ w)
      | .err => .err
      | .panic => .panic
    | .err => .err
    | .panic => .panic

/-- `Composite.Pack` = length prefix of the body, then the body -/
theorem pack_eq_body (s : CompSpec) (subs : List (Tag × Field)) (vals : List (Tag × Value)) :
    Field.pack (.comp s subs) (.comp vals) =
      match compBody s subs vals with
      | .ok body =>
        (match s.pref.encodeLength s.len body.length with
         | .ok pre => .ok (pre ++ body)
         | .err => .err
         | .panic => .panic)
      | .err => .err
      | .panic => .panic := by
  rw [Field.pack]
  unfold compBody
  cases hm : s.mode with
  | tagged t =>
    simp only
    cases packByTag t subs vals <;> rfl
  | bitmapped b =>
    simp only
    cases packByBitmap subs vals (Bitmap.reset b.specLen b.auto) with
    | err => rfl
    | panic => rfl
    | ok r =>
      obtain ⟨bm, w⟩ := r
      simp only
      cases bm.pack b.enc <;> rfl

/-- a positional composite whose own prefix takes bytes (`isVariableLength` in composite.go) -/
def isVarPositional (s : CompSpec) : Bool :=
  match s.mode with
  | .tagged t =>
    t.enc.isNone && (match s.pref with | .fixed _ => false | .none => false | _ => true)
  | .bitmapped _ => false

/-- the value is not empty and its last element (in spec order) packs to at least one byte -/
def posTailB (subs : List (Tag × Field)) (vals : List (Tag × Value)) : Bool :=
  !vals.isEmpty &&
  (match (orderBySpec subs vals).getLast? with
   | some (t, v) =>
     (match lookup t subs with
      | some f => (match f.pack v with | .ok bs => !bs.isEmpty | _ => true)
      | none => true)
   | none => true)

/-- **what the C02 theorems accept** -/
inductive AcceptedAll : Field → Value → Prop where
  | prim (s : PrimSpec) (v : Value) : C02.Accepted (.prim s) v → AcceptedAll (.prim s) v
  | comp (s : CompSpec) (subs : List (Tag × Field)) (vals : List (Tag × Value)) :
      (∀ tg v f, lookup tg vals = some v → lookup tg subs = some f → AcceptedAll f v) →
      (∀ body, compBody s subs vals = .ok body → LenFits s body.length) →
      (isVarPositional s = true → posTailB subs vals = true) →
      AcceptedAll (.comp s subs) (.comp vals)

/-! ## facts shared by the three modes -/

/-- what the induction hypothesis gives for every set subfield -/
def SubsOK (subs : List (Tag × Field)) (V : List (Tag × Value)) : Prop :=
  ∀ tg f v, (tg, f) ∈ subs → lookup tg V = some v →
    f.inDomain v = true ∧ f.canon v = v ∧ ∃ pk, f.pack v = .ok pk

theorem common_facts (subs : List (Tag × Field)) (acc : List (Tag × Value))
    (hnodup : (subs.map (·.1)).Nodup) (hsub : SubsOK subs (orderBySpec subs acc)) :
    allDistinct ((orderBySpec subs acc).map (·.1)) = true ∧
    Field.inDomainSubs subs (orderBySpec subs acc) = true ∧
    (orderBySpec subs acc).all (fun p => lookupField subs p.1) = true ∧
    Field.canonSubs subs (orderBySpec subs acc) = orderBySpec subs acc := by
  refine ⟨?_, ?_, ?_, ?_⟩
  · exact nodup_allDistinct _ (hnodup.sublist (orderBySpec_keys_sublist subs acc))
  · exact inDomainSubs_of _ subs (fun tg f v hmem hl => (hsub tg f v hmem hl).1)
  · rw [List.all_eq_true]
    intro p hp
    rw [lookupField_eq]
    have : p.1 ∈ subs.map (·.1) :=
      (orderBySpec_keys_sublist subs acc).subset (List.mem_map.mpr ⟨p, hp, rfl⟩)
    obtain ⟨q, hq, hq1⟩ := List.mem_map.mp this
    rw [← hq1, lookup_of_mem q.1 q.2 subs hnodup hq]; rfl
  · symm
    apply orderBySpec_eq_canonSubs
    intro p hp
    rw [← lookup_orderBySpec subs acc hnodup p.1 (List.mem_map.mpr ⟨p, hp, rfl⟩)]
    cases hl : lookup p.1 (orderBySpec subs acc) with
    | none => rfl
    | some v => simp only [Option.map_some]; rw [(hsub p.1 p.2 v hp hl).2.1]

theorem nodup_of_coherent (s : CompSpec) (subs : List (Tag × Field)) (lp : Bool)
    (hc : (Field.comp s subs).coherent lp = true) : (subs.map (·.1)).Nodup := by
  rw [Field.coherent] at hc
  simp only [Bool.and_eq_true] at hc
  obtain ⟨⟨⟨_, hkeysOK⟩, _⟩, _⟩ := hc
  simp only [sortKeysOK, Bool.and_eq_true] at hkeysOK
  exact allDistinct_nodup _ hkeysOK.1.1

/-- every subfield of a coherent composite is coherent for some position flag -/
theorem sub_coherent (s : CompSpec) (subs : List (Tag × Field)) (lp : Bool)
    (hc : (Field.comp s subs).coherent lp = true) : ∀ p ∈ subs, ∃ lpf, p.2.coherent lpf = true := by
  rw [Field.coherent] at hc
  simp only [Bool.and_eq_true] at hc
  obtain ⟨_, hmode⟩ := hc
  intro p hpm
  cases hm : s.mode with
  | bitmapped b =>
    rw [hm] at hmode
    simp only [Bool.and_eq_true] at hmode
    exact ⟨false, FieldRT.coherentSubs_all_false subs hmode.2 p hpm⟩
  | tagged t =>
    rw [hm] at hmode
    simp only [Bool.and_eq_true] at hmode
    cases he : t.enc with
    | some enc =>
      rw [he] at hmode
      simp only [Bool.and_eq_true] at hmode
      exact ⟨false, FieldRT.coherentSubs_all_false subs hmode.2.2 p hpm⟩
    | none =>
      rw [he] at hmode
      rcases List.eq_nil_or_concat subs with h0 | ⟨init, last, h0⟩
      · subst h0; simp at hpm
      · rw [List.concat_eq_append] at h0
        obtain ⟨h1, h2⟩ := FieldRT.coherentSubs_split true subs hmode.2 init last h0
        rw [h0] at hpm
        simp only [List.mem_append, List.mem_singleton] at hpm
        rcases hpm with hpm | rfl
        · exact ⟨false, h1 p hpm⟩
        · exact ⟨true, h2⟩

/-- Pack succeeds as soon as the body packs and the prefixer accepts its length -/
theorem pack_of_body (s : CompSpec) (subs : List (Tag × Field)) (vals : List (Tag × Value)) (body : Bytes)
    (hb : compBody s subs vals = .ok body) (hfit : LenFits s body.length) :
    ∃ bs, Field.pack (.comp s subs) (.comp vals) = .ok bs := by
  obtain ⟨pre, hpre⟩ := hfit
  exact ⟨pre ++ body, by rw [pack_eq_body, hb]; simp only [hpre]⟩

/-! ## tagged composites (tags on the wire; BER-TLV; unknown-tag skipping) -/

theorem comp_tagged_step (P : Field → Value → Prop) (s : CompSpec) (subs : List (Tag × Field))
    (t : TagSpec) (enc : Enc) (lp : Bool) (hm : s.mode = .tagged t) (he : t.enc = some enc)
    (ih : ∀ p ∈ subs, ∀ lp', FieldRepack P p.2 lp')
    (data : Bytes) (vals : List (Tag × Value)) (r : Nat)
    (hc : (Field.comp s subs).coherent lp = true)
    (hu : Field.unpack (.comp s subs) data = .ok (.comp vals, r))
    (haccS : ∀ tg v f, lookup tg vals = some v → lookup tg subs = some f → P f v) :
    (Field.comp s subs).inDomain (.comp vals) = true ∧ (Field.comp s subs).canon (.comp vals) = .comp vals ∧
    ∃ body, compBody s subs vals = .ok body := by
  obtain ⟨bodyIn, acc, rd, hloop, hv⟩ := unpack_tagged_inv s subs t enc hm he data _ r hu
  simp only [Value.comp.injEq] at hv
  subst hv
  have hnodup := nodup_of_coherent s subs lp hc
  have hsc := sub_coherent s subs lp hc
  rw [Field.coherent] at hc
  simp only [hm, he, Bool.and_eq_true] at hc
  obtain ⟨_, ⟨_, ⟨⟨⟨⟨_, _⟩, htagsEnc⟩, _⟩, _⟩⟩⟩ := hc
  have hinv := tlvLoop_inv t enc _ _ _ _ _ _ _ _ _ (by intro tg v h; simp [lookup] at h) hloop
  have hsub : SubsOK subs (orderBySpec subs acc) := by
    intro tg f v hmem hl
    have hls := lookup_of_mem tg f subs hnodup hmem
    have hla : lookup tg acc = some v := by
      rw [← lookup_orderBySpec subs acc hnodup tg (List.mem_map.mpr ⟨(tg, f), hmem, rfl⟩)]; exact hl
    obtain ⟨_, d, r', hdp⟩ := hinv tg v hla
    simp only at hdp
    rw [unpackTagged_eq subs tg f d hls] at hdp
    obtain ⟨lpf, hcf⟩ := hsc (tg, f) hmem
    exact ih (tg, f) hmem lpf d v r' hcf hdp (haccS tg v f hl hls)
  obtain ⟨h1, h2, h3, h4⟩ := common_facts subs acc hnodup hsub
  refine ⟨?_, ?_, ?_⟩
  · rw [Field.inDomain]
    simp only [hm, he, Bool.and_eq_true, and_true]
    exact ⟨⟨h1, h2⟩, h3⟩
  · rw [Field.canon, h4]
  · obtain ⟨body, hbody⟩ := packByTag_ok t enc he (orderBySpec subs acc) subs
      (fun p hp => List.all_eq_true.mp htagsEnc p hp)
      (fun tg f v hmem hl => (hsub tg f v hmem hl).2.2)
    exact ⟨body, by simp only [compBody, hm]; exact hbody⟩

/-! ## bitmapped composites -/

/-- every entry of the accumulated list was produced by the dispatcher -/
def SInv (dispatch : Tag → Bytes → Option (UR (Value × Nat))) (acc : List (Tag × Value)) : Prop :=
  ∀ p ∈ acc, ∃ d r, dispatch p.1 d = some (.ok (p.2, r))

theorem bitmapScan_inv (bm : Bitmap) (dispatch : Tag → Bytes → Option (UR (Value × Nat))) :
    ∀ (remaining i : Nat) (data : Bytes) (off : Nat) (acc acc' : List (Tag × Value)) (rd : Nat),
      SInv dispatch acc → bitmapScan bm dispatch remaining i data off acc = .ok (acc', rd) →
      SInv dispatch acc' := by
  intro remaining
  induction remaining with
  | zero =>
    intro i data off acc acc' rd hinv h
    simp only [bitmapScan, UR.ok.injEq, Prod.mk.injEq] at h
    rw [← h.1]; exact hinv
  | succ n ih =>
    intro i data off acc acc' rd hinv h
    rw [bitmapScan] at h
    split at h
    · split at h
      · cases h
      · cases hd : dispatch (natToDec i) (data.drop off) with
        | none => simp [hd] at h
        | some res =>
          cases res with
          | err p => simp [hd] at h
          | panic => simp [hd] at h
          | ok r0 =>
            obtain ⟨v, rd0⟩ := r0
            simp only [hd] at h
            refine ih _ _ _ _ _ _ ?_ h
            intro p hp
            simp only [List.mem_append, List.mem_singleton] at hp
            rcases hp with hp | rfl
            · exact hinv p hp
            · exact ⟨_, _, hd⟩
    · exact ih _ _ _ _ _ _ hinv h

theorem unpackTaggedOpt_inv (subs : List (Tag × Field)) (tag : Tag) (d : Bytes) (res : UR (Value × Nat))
    (h : unpackTaggedOpt subs tag d = some res) : ∃ f, lookup tag subs = some f ∧ f.unpack d = res := by
  induction subs with
  | nil => simp [unpackTaggedOpt] at h
  | cons p rest ih =>
    obtain ⟨k, g⟩ := p
    simp only [unpackTaggedOpt] at h
    by_cases hk : k = tag
    · simp only [hk, if_true, Option.some.injEq] at h
      exact ⟨g, by simp [lookup, hk], h⟩
    · simp only [hk, if_false] at h
      obtain ⟨f, h1, h2⟩ := ih h
      exact ⟨f, by simp [lookup, hk, h1], h2⟩

/-- inversion of `Field.unpack` on a bitmapped composite (the bitmap's own Unpack stays opaque) -/
theorem unpack_bitmapped_inv (s : CompSpec) (subs : List (Tag × Field)) (b : BitmapSpec)
    (hm : s.mode = .bitmapped b) (data : Bytes) (v : Value) (r : Nat)
    (h : Field.unpack (.comp s subs) data = .ok (v, r)) :
    ∃ bm body rd0 acc rd,
      bitmapScan bm (fun tag d => unpackTaggedOpt subs tag d) bm.len 1 body rd0 [] = .ok (acc, rd) ∧
      v = .comp (orderBySpec subs acc) := by
  rw [Field.unpack] at h
  cases hdl : s.pref.decodeLength s.len data with
  | err => simp [hdl] at h
  | panic => simp [hdl] at h
  | ok r0 =>
    obtain ⟨dl, off⟩ := r0
    simp only [hdl] at h
    split at h
    · cases h
    · split at h
      · cases h
      · simp only [hm] at h
        cases hbu : Bitmap.unpack b.enc b.pref (Bitmap.reset b.specLen b.auto) ((data.drop off).take dl) with
        | err => simp [hbu] at h
        | panic => simp [hbu] at h
        | ok rb =>
          obtain ⟨bm, rd0⟩ := rb
          simp only [hbu] at h
          split at h
          · cases h
          · cases h
          · rename_i vals read heq
            split at h
            · cases h
            · simp only [UR.ok.injEq, Prod.mk.injEq] at h
              exact ⟨bm, _, rd0, vals, read, heq, h.1.symm⟩

theorem packByBitmap_ok (V : List (Tag × Value)) : ∀ (subs : List (Tag × Field)) (bm0 : Bitmap),
    Bitmap.Inv bm0 → bm0.auto = false →
    (∀ p ∈ subs, ∃ v : Int, atoi? p.1 = some v ∧ 1 ≤ v ∧ v.toNat ≤ bm0.len) →
    (∀ tg f v, (tg, f) ∈ subs → lookup tg V = some v → ∃ pk, f.pack v = .ok pk) →
    ∃ r, packByBitmap subs V bm0 = .ok r := by
  intro subs
  induction subs with
  | nil => intro bm0 _ _ _ _; exact ⟨(bm0, []), by simp [packByBitmap]⟩
  | cons p rest ih =>
    obtain ⟨k, g⟩ := p
    intro bm0 hinv hauto hids hpk
    rw [packByBitmap]
    have hidsR := fun q hq => hids q (List.mem_cons_of_mem _ hq)
    have hpkR := fun tg f v hm => hpk tg f v (List.mem_cons_of_mem _ hm)
    cases hl : lookup k V with
    | none => exact ih bm0 hinv hauto hidsR hpkR
    | some v =>
      obtain ⟨idInt, ha, h1, hle⟩ := hids (k, g) (by simp)
      simp only at ha
      obtain ⟨pk, hpk'⟩ := hpk k g v (by simp) hl
      have hpos : ¬ idInt ≤ 0 := by omega
      have hset := C05.set_isSet_self bm0 idInt.toNat hinv (by omega) (Or.inr hle)
      obtain ⟨hinv', _, hauto'⟩ := C05.inv_set bm0 idInt.toNat hinv
      have hlen' : (bm0.set idInt.toNat).len = bm0.len := by
        simp only [Bitmap.len, C05.set_fixed_length bm0 idInt.toNat hauto]
      obtain ⟨r2, hr2⟩ := ih (bm0.set idInt.toNat) hinv' (by rw [hauto', hauto])
        (fun q hq => by
          obtain ⟨v', h1', h2', h3'⟩ := hidsR q hq
          exact ⟨v', h1', h2', by rw [hlen']; exact h3'⟩) hpkR
      obtain ⟨bm2, more⟩ := r2
      refine ⟨(bm2, pk ++ more), ?_⟩
      simp only [ha, hpos, if_false, hset, Bool.not_true, Bool.false_eq_true, hpk', hr2]

theorem comp_bitmapped_step (P : Field → Value → Prop) (s : CompSpec) (subs : List (Tag × Field))
    (b : BitmapSpec) (lp : Bool) (hm : s.mode = .bitmapped b)
    (ih : ∀ p ∈ subs, ∀ lp', FieldRepack P p.2 lp')
    (data : Bytes) (vals : List (Tag × Value)) (r : Nat)
    (hc : (Field.comp s subs).coherent lp = true)
    (hu : Field.unpack (.comp s subs) data = .ok (.comp vals, r))
    (haccS : ∀ tg v f, lookup tg vals = some v → lookup tg subs = some f → P f v) :
    (Field.comp s subs).inDomain (.comp vals) = true ∧ (Field.comp s subs).canon (.comp vals) = .comp vals ∧
    ∃ body, compBody s subs vals = .ok body := by
  obtain ⟨bm, bodyIn, rd0, acc, rd, hscan, hv⟩ := unpack_bitmapped_inv s subs b hm data _ r hu
  simp only [Value.comp.injEq] at hv
  subst hv
  have hnodup := nodup_of_coherent s subs lp hc
  have hsc := sub_coherent s subs lp hc
  rw [Field.coherent] at hc
  simp only [hm, Bool.and_eq_true] at hc
  obtain ⟨_, ⟨⟨⟨⟨⟨hauto, _⟩, _⟩, hbenc⟩, hids⟩, _⟩⟩ := hc
  have hauto' : b.auto = false := by simpa using hauto
  have hbenc' : b.enc = .binary ∨ b.enc = .bytesToHex := by
    cases hbe : b.enc <;> rw [hbe] at hbenc <;> simp at hbenc ⊢
  have hinv := bitmapScan_inv bm _ _ _ _ _ _ _ _ (by intro p hp; cases hp) hscan
  have hsub : SubsOK subs (orderBySpec subs acc) := by
    intro tg f v hmem hl
    have hls := lookup_of_mem tg f subs hnodup hmem
    have hla : lookup tg acc = some v := by
      rw [← lookup_orderBySpec subs acc hnodup tg (List.mem_map.mpr ⟨(tg, f), hmem, rfl⟩)]; exact hl
    obtain ⟨d, r', hdp⟩ := hinv (tg, v) (lookup_some_mem tg v acc hla)
    simp only at hdp
    obtain ⟨f', hf', hun⟩ := unpackTaggedOpt_inv subs tg d _ hdp
    rw [hls] at hf'; cases hf'
    obtain ⟨lpf, hcf⟩ := hsc (tg, f) hmem
    exact ih (tg, f) hmem lpf d v r' hcf hun (haccS tg v f hl hls)
  obtain ⟨h1, h2, h3, h4⟩ := common_facts subs acc hnodup hsub
  refine ⟨?_, ?_, ?_⟩
  · rw [Field.inDomain]
    simp only [hm, Bool.and_eq_true, and_true]
    exact ⟨⟨h1, h2⟩, h3⟩
  · rw [Field.canon, h4]
  · obtain ⟨hinv0, hlen0⟩ := C05.inv_reset b.specLen false
    obtain ⟨r2, hr2⟩ := packByBitmap_ok (orderBySpec subs acc) subs (Bitmap.reset b.specLen false) hinv0 rfl
      (by
        intro p hp
        have := List.all_eq_true.mp hids p hp
        simp only [Bool.and_eq_true] at this
        cases ha : atoi? p.1 with
        | none => rw [ha] at this; simp at this
        | some v =>
          rw [ha] at this
          simp only [decide_eq_true_eq] at this
          refine ⟨v, rfl, this.2.1, ?_⟩
          simp only [Bitmap.len, Bitmap.reset, List.length_replicate]
          omega)
      (fun tg f v hmem hl => (hsub tg f v hmem hl).2.2)
    obtain ⟨bm2, w⟩ := r2
    obtain ⟨bb, hbb, _⟩ := C05.pack_wire b.enc hbenc' bm2
    exact ⟨bb ++ w, by simp only [compBody, hm, hauto', hr2, hbb]⟩

/-! ## positional composites (no tags on the wire; variable-prefix early stop) -/

/-- what a successful positional scan did: it unpacked a leading run `run` of the subfields,
in order, appending one entry per subfield; all of them unless the composite is
variable-length; at least one if there is any subfield -/
theorem unpackPositional_inv : ∀ (subs : List (Tag × Field)) (data : Bytes) (isVar : Bool) (offset : Nat)
    (acc acc' : List (Tag × Value)) (rd : Nat),
    unpackPositional subs data isVar offset acc = .ok (acc', rd) →
    ∃ (run rest : List (Tag × Field)) (new : List (Tag × Value)),
      subs = run ++ rest ∧ acc' = acc ++ new ∧ new.map (·.1) = run.map (·.1) ∧
      (∀ p ∈ new, ∃ f d r, (p.1, f) ∈ run ∧ f.unpack d = .ok (p.2, r)) ∧
      (isVar = false → rest = []) ∧ (subs ≠ [] → run ≠ []) := by
  intro subs
  induction subs with
  | nil =>
    intro data isVar offset acc acc' rd h
    simp only [unpackPositional, UR.ok.injEq, Prod.mk.injEq] at h
    exact ⟨[], [], [], rfl, by simp [h.1], rfl, by simp, fun _ => rfl, fun h => absurd rfl h⟩
  | cons p rest0 ih =>
    obtain ⟨tag, f⟩ := p
    intro data isVar offset acc acc' rd h
    rw [unpackPositional] at h
    split at h
    · cases h
    · cases hu : f.unpack (data.drop offset) with
      | err q => simp [hu] at h
      | panic => simp [hu] at h
      | ok r0 =>
        obtain ⟨v, read⟩ := r0
        simp only [hu] at h
        split at h
        · rename_i hstop
          simp only [UR.ok.injEq, Prod.mk.injEq] at h
          refine ⟨[(tag, f)], rest0, [(tag, v)], rfl, h.1.symm, rfl, ?_, ?_, fun _ => by simp⟩
          · intro q hq
            simp only [List.mem_singleton] at hq
            subst hq
            exact ⟨f, _, _, by simp, hu⟩
          · intro hv
            rw [hv] at hstop
            simp at hstop
        · obtain ⟨run, rest, new, h1, h2, h3, h4, h5, _⟩ := ih _ _ _ _ _ _ h
          refine ⟨(tag, f) :: run, rest, (tag, v) :: new, by rw [h1]; rfl, by rw [h2]; simp,
            by simp [h3], ?_, h5, fun _ => by simp⟩
          intro q hq
          simp only [List.mem_cons] at hq
          rcases hq with rfl | hq
          · exact ⟨f, _, _, by simp, hu⟩
          · obtain ⟨f', d, r', hm', hu'⟩ := h4 q hq
            exact ⟨f', d, r', List.mem_cons_of_mem _ hm', hu'⟩

/-- inversion of `Field.unpack` on a positional composite -/
theorem unpack_positional_inv (s : CompSpec) (subs : List (Tag × Field)) (t : TagSpec)
    (hm : s.mode = .tagged t) (he : t.enc = none) (data : Bytes) (v : Value) (r : Nat)
    (h : Field.unpack (.comp s subs) data = .ok (v, r)) :
    ∃ body isVar acc rd, unpackPositional subs body isVar 0 [] = .ok (acc, rd) ∧
      v = .comp (orderBySpec subs acc) ∧
      (((∃ f, s.pref = .fixed f) ∨ s.pref = .none) → isVar = false) := by
  rw [Field.unpack] at h
  cases hdl : s.pref.decodeLength s.len data with
  | err => simp [hdl] at h
  | panic => simp [hdl] at h
  | ok r0 =>
    obtain ⟨dl, off⟩ := r0
    simp only [hdl] at h
    split at h
    · cases h
    · split at h
      · cases h
      · simp only [hm, he] at h
        split at h
        · cases h
        · cases h
        · rename_i vals read heq
          split at h
          · cases h
          · simp only [UR.ok.injEq, Prod.mk.injEq] at h
            refine ⟨_, _, vals, read, heq, h.1.symm, ?_⟩
            intro hp
            have hoff : off = 0 := by
              rcases hp with ⟨f, hf⟩ | hn
              · rw [hf] at hdl
                simp only [Pref.decodeLength, Res.ok.injEq, Prod.mk.injEq] at hdl
                exact hdl.2.symm
              · rw [hn] at hdl
                simp only [Pref.decodeLength, Res.ok.injEq, Prod.mk.injEq] at hdl
                exact hdl.2.symm
            simp [hoff]

theorem packByTag_ok_pos (t : TagSpec) (he : t.enc = none) (V : List (Tag × Value)) :
    ∀ (subs : List (Tag × Field)),
      (∀ tg f v, (tg, f) ∈ subs → lookup tg V = some v → ∃ pk, f.pack v = .ok pk) →
      ∃ body, packByTag t subs V = .ok body := by
  intro subs
  induction subs with
  | nil => intro _; exact ⟨[], by simp [packByTag]⟩
  | cons p rest ih =>
    obtain ⟨k, g⟩ := p
    intro hpk
    obtain ⟨more, hmore⟩ := ih (fun tg f v hm => hpk tg f v (List.mem_cons_of_mem _ hm))
    rw [packByTag]
    cases hl : lookup k V with
    | none => exact ⟨more, hmore⟩
    | some v =>
      obtain ⟨pk, hpk'⟩ := hpk k g v (by simp) hl
      exact ⟨[] ++ pk ++ more, by simp only [he, hpk', hmore]⟩

theorem lookup_isSome_of_key {α : Type} (tg : Tag) (l : List (Tag × α)) (h : tg ∈ l.map (·.1)) :
    ∃ v, lookup tg l = some v := by
  induction l with
  | nil => simp at h
  | cons p rest ih =>
    obtain ⟨k, w⟩ := p
    by_cases hk : k = tg
    · exact ⟨w, by simp [lookup, hk]⟩
    · simp only [List.map_cons, List.mem_cons] at h
      rcases h with h | h
      · exact absurd h.symm hk
      · obtain ⟨v, hv⟩ := ih h
        exact ⟨v, by simp [lookup, hk, hv]⟩

theorem leadingRun_of_split (M : List (Tag × Value)) : ∀ (run rest : List (Tag × Field)),
    (∀ p ∈ run, (lookup p.1 M).isSome = true) → (∀ p ∈ rest, lookup p.1 M = none) →
    leadingRun (run ++ rest) M = true := by
  intro run
  induction run with
  | nil =>
    intro rest _ hr
    cases rest with
    | nil => rfl
    | cons q qs =>
      obtain ⟨k, g⟩ := q
      simp only [List.nil_append, leadingRun, hr (k, g) (by simp), Option.isSome_none, Bool.false_eq_true,
        if_false, List.all_eq_true]
      intro x hx
      rw [hr x (List.mem_cons_of_mem _ hx)]; rfl
  | cons p ps ih =>
    obtain ⟨k, g⟩ := p
    intro rest hrun hr
    simp only [List.cons_append, leadingRun, hrun (k, g) (by simp), if_true]
    exact ih rest (fun q hq => hrun q (List.mem_cons_of_mem _ hq)) hr

theorem comp_positional_step (P : Field → Value → Prop) (s : CompSpec) (subs : List (Tag × Field))
    (t : TagSpec) (lp : Bool) (hm : s.mode = .tagged t) (he : t.enc = none)
    (ih : ∀ p ∈ subs, ∀ lp', FieldRepack P p.2 lp')
    (data : Bytes) (vals : List (Tag × Value)) (r : Nat)
    (hc : (Field.comp s subs).coherent lp = true)
    (hu : Field.unpack (.comp s subs) data = .ok (.comp vals, r))
    (haccS : ∀ tg v f, lookup tg vals = some v → lookup tg subs = some f → P f v)
    (htail : isVarPositional s = true → posTailB subs vals = true) :
    (Field.comp s subs).inDomain (.comp vals) = true ∧ (Field.comp s subs).canon (.comp vals) = .comp vals ∧
    ∃ body, compBody s subs vals = .ok body := by
  obtain ⟨bodyIn, isVar, acc, rd, hscan, hv, hfix⟩ := unpack_positional_inv s subs t hm he data _ r hu
  simp only [Value.comp.injEq] at hv
  subst hv
  have hnodup := nodup_of_coherent s subs lp hc
  have hsc := sub_coherent s subs lp hc
  obtain ⟨run, rest, new, hsplit, hacc, hkeys, hnew, hall, _⟩ := unpackPositional_inv subs _ _ _ _ _ _ hscan
  simp only [List.nil_append] at hacc
  subst hacc
  have hrunsub : ∀ q ∈ run, q ∈ subs := fun q hq => by rw [hsplit]; exact List.mem_append_left _ hq
  have hsub : SubsOK subs (orderBySpec subs acc) := by
    intro tg f v hmem hl
    have hls := lookup_of_mem tg f subs hnodup hmem
    have hla : lookup tg acc = some v := by
      rw [← lookup_orderBySpec subs acc hnodup tg (List.mem_map.mpr ⟨(tg, f), hmem, rfl⟩)]; exact hl
    obtain ⟨f', d, r', hm', hun⟩ := hnew (tg, v) (lookup_some_mem tg v acc hla)
    have : f' = f := by
      have := lookup_of_mem tg f' subs hnodup (hrunsub _ hm')
      rw [hls] at this; cases this; rfl
    subst this
    obtain ⟨lpf, hcf⟩ := hsc (tg, f') hmem
    exact ih (tg, f') hmem lpf d v r' hcf hun (haccS tg v f' hl hls)
  obtain ⟨h1, h2, h3, h4⟩ := common_facts subs acc hnodup hsub
  -- presence: exactly the run
  have hpresRun : ∀ p ∈ run, (lookup p.1 (orderBySpec subs acc)).isSome = true := by
    intro p hp
    rw [lookup_orderBySpec subs acc hnodup p.1 (List.mem_map.mpr ⟨p, hrunsub p hp, rfl⟩)]
    obtain ⟨v, hv⟩ := lookup_isSome_of_key p.1 acc (by rw [hkeys]; exact List.mem_map.mpr ⟨p, hp, rfl⟩)
    rw [hv]; rfl
  have hpresRest : ∀ p ∈ rest, lookup p.1 (orderBySpec subs acc) = none := by
    intro p hp
    have hps : p ∈ subs := by rw [hsplit]; exact List.mem_append_right _ hp
    rw [lookup_orderBySpec subs acc hnodup p.1 (List.mem_map.mpr ⟨p, hps, rfl⟩)]
    apply lookup_eq_none_of_not_mem
    rw [hkeys]
    intro hin
    rw [hsplit, List.map_append] at hnodup
    exact (List.nodup_append.mp hnodup).2.2 p.1 hin p.1 (List.mem_map.mpr ⟨p, hp, rfl⟩) rfl
  refine ⟨?_, ?_, ?_⟩
  · rw [Field.inDomain]
    simp only [hm, he, Bool.and_eq_true]
    refine ⟨⟨⟨h1, h2⟩, h3⟩, ?_⟩
    have hallp : ((∃ f, s.pref = .fixed f) ∨ s.pref = .none) →
        (subs.map fun p => (lookup p.1 (orderBySpec subs acc)).isSome).all id = true := by
      intro hp
      have hr := hall (hfix hp)
      subst hr
      rw [List.append_nil] at hsplit
      simp only [List.all_map, List.all_eq_true]
      intro p hp'
      rw [hsplit] at hp'
      exact hpresRun p hp'
    cases hpf : s.pref with
    | fixed f => exact hallp (Or.inl ⟨f, hpf⟩)
    | none => exact hallp (Or.inr hpf)
    | berTLV =>
      have hpt := htail (by simp [isVarPositional, hm, he, hpf])
      simp only [posTailB, Bool.and_eq_true] at hpt
      simp only [Bool.and_eq_true]
      refine ⟨⟨hpt.1, ?_⟩, ?_⟩
      · rw [leadingRun_of_dropWhile]
        have := leadingRun_of_split (orderBySpec subs acc) run rest hpresRun hpresRest
        rw [← hsplit] at this; exact this
      · have := hpt.2
        revert this
        cases (orderBySpec subs (orderBySpec subs acc)).getLast? with
        | none => intro _; rfl
        | some q =>
          obtain ⟨t', v'⟩ := q
          simp only
          cases lookup t' subs with
          | none => intro _; rfl
          | some f =>
            simp only
            cases f.pack v' <;> simp
    | var fam d =>
      have hpt := htail (by simp [isVarPositional, hm, he, hpf])
      simp only [posTailB, Bool.and_eq_true] at hpt
      simp only [Bool.and_eq_true]
      refine ⟨⟨hpt.1, ?_⟩, ?_⟩
      · rw [leadingRun_of_dropWhile]
        have := leadingRun_of_split (orderBySpec subs acc) run rest hpresRun hpresRest
        rw [← hsplit] at this; exact this
      · have := hpt.2
        revert this
        cases (orderBySpec subs (orderBySpec subs acc)).getLast? with
        | none => intro _; rfl
        | some q =>
          obtain ⟨t', v'⟩ := q
          simp only
          cases lookup t' subs with
          | none => intro _; rfl
          | some f =>
            simp only
            cases f.pack v' <;> simp
  · rw [Field.canon, h4]
  · obtain ⟨body, hbody⟩ := packByTag_ok_pos t he (orderBySpec subs acc) subs
      (fun tg f v hmem hl => (hsub tg f v hmem hl).2.2)
    exact ⟨body, by simp only [compBody, hm]; exact hbody⟩

/-! ## the induction over the spec tree -/

theorem comp_repack_all (s : CompSpec) (subs : List (Tag × Field))
    (ih : ∀ p ∈ subs, ∀ lp, FieldRepack AcceptedAll p.2 lp) : ∀ lp, FieldRepack AcceptedAll (.comp s subs) lp := by
  intro lp data v r hc hu hacc
  cases hacc with
  | comp _ _ vals hsubs hfit htail =>
    have key : (Field.comp s subs).inDomain (.comp vals) = true ∧
        (Field.comp s subs).canon (.comp vals) = .comp vals ∧ ∃ body, compBody s subs vals = .ok body := by
      cases hm : s.mode with
      | bitmapped b => exact comp_bitmapped_step AcceptedAll s subs b lp hm ih data vals r hc hu hsubs
      | tagged t =>
        cases he : t.enc with
        | some enc => exact comp_tagged_step AcceptedAll s subs t enc lp hm he ih data vals r hc hu hsubs
        | none => exact comp_positional_step AcceptedAll s subs t lp hm he ih data vals r hc hu hsubs htail
    obtain ⟨h1, h2, body, hb⟩ := key
    exact ⟨h1, h2, pack_of_body s subs vals body hb (hfit body hb)⟩

/-- **C02, field level, every coherent field**: whatever Unpack accepts — and `AcceptedAll`
accepts — is in the domain, canonical, and packs -/
theorem field_repack_all : ∀ (f : Field) (lp : Bool), FieldRepack AcceptedAll f lp := by
  intro f
  apply Field.rec (motive_1 := fun f => ∀ lp, FieldRepack AcceptedAll f lp)
    (motive_2 := fun subs => ∀ p ∈ subs, ∀ lp, FieldRepack AcceptedAll p.2 lp)
    (motive_3 := fun p => ∀ lp, FieldRepack AcceptedAll p.2 lp)
  · intro s lp data v r hc hu hacc
    cases hacc with
    | prim _ _ h => exact C02.prim_field_repack s lp data v r hc hu h
  · intro s subs ih; exact comp_repack_all s subs ih
  · intro p hp; cases hp
  · intro head tail h3 h2 p hp
    rcases List.mem_cons.mp hp with rfl | hp
    · exact h3
    · exact h2 p hp
  · intro t f h; exact h

/-! ## `LenFits` is the only thing that can fail: the characterisation of KF8 -/

/-- for a value Unpack returned whose subfields are all accepted, `Composite.Pack` fails
exactly when the composite's own prefixer rejects the length of the re-packed body -/
theorem pack_fails_iff_not_lenFits (s : CompSpec) (subs : List (Tag × Field)) (lp : Bool)
    (data : Bytes) (vals : List (Tag × Value)) (r : Nat)
    (hc : (Field.comp s subs).coherent lp = true)
    (hu : Field.unpack (.comp s subs) data = .ok (.comp vals, r))
    (hsubs : ∀ tg v f, lookup tg vals = some v → lookup tg subs = some f → AcceptedAll f v)
    (htail : isVarPositional s = true → posTailB subs vals = true) :
    ∃ body, compBody s subs vals = .ok body ∧
      ((∃ bs, Field.pack (.comp s subs) (.comp vals) = .ok bs) ↔ LenFits s body.length) := by
  have ih : ∀ p ∈ subs, ∀ lp', FieldRepack AcceptedAll p.2 lp' := fun p _ lp' => field_repack_all p.2 lp'
  have key : ∃ body, compBody s subs vals = .ok body := by
    cases hm : s.mode with
    | bitmapped b => exact (comp_bitmapped_step AcceptedAll s subs b lp hm ih data vals r hc hu hsubs).2.2
    | tagged t =>
      cases he : t.enc with
      | some enc => exact (comp_tagged_step AcceptedAll s subs t enc lp hm he ih data vals r hc hu hsubs).2.2
      | none => exact (comp_positional_step AcceptedAll s subs t lp hm he ih data vals r hc hu hsubs htail).2.2
  obtain ⟨body, hb⟩ := key
  refine ⟨body, hb, ?_, fun h => pack_of_body s subs vals body hb h⟩
  rintro ⟨bs, hbs⟩
  rw [pack_eq_body, hb] at hbs
  simp only at hbs
  cases hpre : s.pref.encodeLength s.len body.length with
  | ok pre => exact ⟨pre, hpre⟩
  | err => rw [hpre] at hbs; cases hbs
  | panic => rw [hpre] at hbs; cases hbs

end Iso8583.FieldRepackAll

/-! ## the message level (adapted from `MessageRT.message_repack_of_fields`: the same proof,
with the round trip of the re-packed bytes taken from the bounded field statements, hence
under the hypothesis that the re-packed message is a Go slice) -/

namespace Iso8583.MessageRT
open Iso8583 Bitmap MsgSpec

theorem message_repackB_of_fields (Accepted : Field → Value → Prop) (spec : MsgSpec)
    (hmti : FieldRT.FieldRoundTripB (.prim spec.mti) false)
    (hmtiRP : FieldRepack Accepted (.prim spec.mti) false)
    (hf : ∀ id f, (id, f) ∈ spec.fields → FieldRT.FieldRoundTripB f false)
    (hrp : ∀ id f, (id, f) ∈ spec.fields → FieldRepack Accepted f false)
    (b : Bytes) (m : Msg) (n : Nat)
    (hc : spec.coherent = true) (hu : spec.unpack b = .ok (m, n))
    (haccM : ∀ v, m.mti = some v → Accepted (.prim spec.mti) v)
    (haccF : ∀ p ∈ m.fields, ∀ f, lookupId p.1 spec.fields = some f → Accepted f p.2) :
    spec.inDomain m = true ∧ spec.canon m = m ∧
    ∃ b', spec.pack m = .ok b' ∧ (b'.length ≤ maxInt → spec.unpack b' = .ok (m, b'.length)) := by
  obtain ⟨cmti, ⟨fam, hpref⟩, henc, _, hfields⟩ := coherent_facts spec hc
  obtain ⟨v, read, bm, bread, fields, hmu, _, hbu, hscan, rfl⟩ := unpack_inv spec b m n hu
  simp only at haccM haccF
  -- MTI
  obtain ⟨hvd, hvc, mb, hvp⟩ := hmtiRP b v read cmti (prim_unpack_of_ok hmu) (haccM v rfl)
  rw [prim_canon_eq] at hvc
  rw [prim_pack_eq] at hvp
  -- fields
  obtain ⟨new, hnew, hasc, hq⟩ := scan_ok_struct spec bm _ _ _ _ _ _ _ hscan
  simp only [List.nil_append] at hnew
  subst hnew
  have hfl : ∀ q ∈ fields, ∃ f, lookupId q.1 spec.fields = some f ∧ f.inDomain q.2 = true ∧
      f.canon q.2 = q.2 ∧ ∃ bs, f.pack q.2 = .ok bs := by
    intro q hq'
    obtain ⟨_, _, _, _, f, data, r, hlk, hun⟩ := hq q hq'
    have hmemf := lookupId_mem q.1 spec.fields f hlk
    exact ⟨f, hlk, hrp q.1 f hmemf data q.2 r (hfields q.1 f hmemf).2.2 hun (haccF q hq' f hlk)⟩
  have hdom : spec.inDomain { mti := some v, fields := fields } = true := by
    simp only [MsgSpec.inDomain, Bool.and_eq_true, List.all_eq_true]
    refine ⟨⟨hvd, asc_allDistinct fields hasc⟩, ?_⟩
    intro q hq'
    obtain ⟨f, hlk, hd, _⟩ := hfl q hq'
    rw [hlk]; exact hd
  have hsort : sortBy idLess fields = fields := sortBy_of_asc fields hasc
  have hcanon : spec.canon { mti := some v, fields := fields } = { mti := some v, fields := fields } := by
    have h1 : (sortBy idLess fields).map (canonEntry spec) = fields := by
      rw [hsort]
      conv => rhs; rw [← List.map_id fields]
      apply List.map_congr_left
      intro q hq'
      obtain ⟨f, hlk, _, hcn, _⟩ := hfl q hq'
      simp only [canonEntry, hlk, hcn, id]
    show ({ mti := (some v).map spec.mti.canon,
            fields := (sortBy idLess fields).map (canonEntry spec) } : Msg) = _
    rw [h1, Option.map_some, hvc]
  refine ⟨hdom, hcanon, ?_⟩
  -- Pack succeeds
  obtain ⟨hbl, hau, hfx⟩ := unpack_shape spec.bitmap.enc henc fam _ _ bm bread (by rw [← hpref]; exact hbu)
  obtain ⟨bm', hsb⟩ := setBits_ok ((sortBy idLess fields).map (·.1))
    (reset spec.bitmap.specLen spec.bitmap.auto) (C05.inv_reset _ _).1 (by
      cases ha : spec.bitmap.auto with
      | true => left; rfl
      | false =>
        right
        intro id hid
        rw [hsort] at hid
        obtain ⟨q, hq1, rfl⟩ := List.mem_map.mp hid
        obtain ⟨h2, h3, _⟩ := hq q hq1
        have := hfx (by rw [ha]; rfl)
        simp only [len, reset, List.length_replicate] at this h3 ⊢
        rw [this] at h3
        omega)
  obtain ⟨bb, hbb, _⟩ := C05.pack_wire spec.bitmap.enc henc bm'
  obtain ⟨fb, hfb⟩ := packFields_ok spec bm' (sortBy idLess fields) (by
    rw [hsort]
    intro q hq'
    obtain ⟨f, hlk, _, _, bs, hpk⟩ := hfl q hq'
    exact ⟨f, bs, hlk, hpk⟩)
  have hpack := pack_intro spec { mti := some v, fields := fields } v bm' mb bb fb rfl hsb hvp hbb hfb
  refine ⟨_, hpack, ?_⟩
  intro hlen
  obtain ⟨⟨n', hun', rfl⟩, _⟩ := message_roundtripB_of_fields spec hmti hf _ [] _ hc hdom hpack hlen
  rw [List.append_nil, hcanon] at hun'
  exact hun'


/-- re-encoding is a fixed point (bounded variant of `repack_fixed_point`) -/
theorem repack_fixed_pointB (Accepted : Field → Value → Prop) (spec : MsgSpec)
    (hmti : FieldRT.FieldRoundTripB (.prim spec.mti) false)
    (hmtiRP : FieldRepack Accepted (.prim spec.mti) false)
    (hf : ∀ id f, (id, f) ∈ spec.fields → FieldRT.FieldRoundTripB f false)
    (hrp : ∀ id f, (id, f) ∈ spec.fields → FieldRepack Accepted f false)
    (b : Bytes) (m : Msg) (n : Nat)
    (hc : spec.coherent = true) (hu : spec.unpack b = .ok (m, n))
    (haccM : ∀ v, m.mti = some v → Accepted (.prim spec.mti) v)
    (haccF : ∀ p ∈ m.fields, ∀ f, lookupId p.1 spec.fields = some f → Accepted f p.2)
    (b' : Bytes) (hp : spec.pack m = .ok b') (hlen : b'.length ≤ maxInt) :
    spec.unpack b' = .ok (m, b'.length) ∧
    ∀ m' n' b'', spec.unpack b' = .ok (m', n') → spec.pack m' = .ok b'' → m' = m ∧ b'' = b' := by
  obtain ⟨_, _, b1, hp1, hu1⟩ := message_repackB_of_fields Accepted spec hmti hmtiRP hf hrp b m n hc hu haccM haccF
  rw [hp] at hp1
  simp only [Res.ok.injEq] at hp1
  subst hp1
  have hu1' := hu1 hlen
  refine ⟨hu1', ?_⟩
  intro m' n' b'' hu' hp'
  rw [hu1'] at hu'
  simp only [UR.ok.injEq, Prod.mk.injEq] at hu'
  obtain ⟨rfl, _⟩ := hu'
  rw [hp] at hp'
  simp only [Res.ok.injEq] at hp'
  exact ⟨rfl, hp'.symm⟩

end Iso8583.MessageRT
