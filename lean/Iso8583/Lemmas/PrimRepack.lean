/-
C02 at the primitive layer: whatever `PrimSpec.unpack` accepts is an in-domain canonical
value that packs again (`prim_unpack_repack`), hence `pack ∘ unpack` is idempotent
(`prim_repack_fixed_point`). Exclusions, stated and witnessed: KF2 (EBCDIC-1047 wire bytes
that decode to non-ASCII runes), the Track2 packer when the unpacked text does not fit the
prefix (`Track2Fits`, three witnesses), and the model-size condition `ValueFits`.
-/
import Iso8583.Lemmas.Prim

namespace Iso8583
open Enc

/-! ## Per-character alphabets -/

/-- the source alphabet of a value encoder, per character (the two hex-text encoders also
constrain the length: see `Enc.accepts`) -/
def Enc.charB : Enc → Byte → Bool
  | .ascii, c => isAsciiB c
  | .ebcdic1047, c => isAsciiB c
  | .bcd, c => isDigitB c
  | .lbcd, c => isDigitB c
  | _, _ => true

theorem accepts_of_all (e : Enc) (x : Bytes) (he1 : e ≠ .hexToBytes) (he2 : e ≠ .berTag)
    (h : ∀ c ∈ x, e.charB c = true) : e.accepts x = true := by
  cases e <;> simp_all [Enc.accepts, Enc.charB, List.all_eq_true]

/-- a value the encoder accepts is encoded (C07) -/
theorem encode_ok_of_accepts (e : Enc) (x : Bytes) (h : e.accepts x = true) : ∃ y, Enc.encode e x = .ok y := by
  obtain ⟨y, hy, _⟩ := C07.decode_encode e x [] (accepts_inDomain e x h)
  exact ⟨y, hy⟩

/-! ## EBCDIC-1047 decoding (KF2) -/

theorem utf8OfRune_small (r : Nat) (hr : r < 256) (h : ∀ c ∈ utf8OfRune r, c.toNat < 128) :
    (utf8OfRune r).length = 1 := by
  unfold utf8OfRune at h ⊢
  split
  · rfl
  · exfalso
    rename_i h128
    simp only [h128, ite_false] at h
    have := h (UInt8.ofNat (192 + r / 64)) (by simp)
    rw [ofNat_toNat_lt (by omega)] at this
    omega

/-- when the decoded text is pure ASCII it has one byte per wire byte -/
theorem cp1047Decode_length : ∀ (x : Bytes), (∀ c ∈ cp1047DecodeBytes x, c.toNat < 128) →
    (cp1047DecodeBytes x).length = x.length := by
  intro x
  induction x with
  | nil => intro _; rfl
  | cons a x ih =>
    intro h
    have hr : Gen.cp1047Decode.getD a.toNat 65533 < 256 := (C07.cp1047_bijective ⟨a.toNat, byte_toNat_lt a⟩).1
    have e : cp1047DecodeBytes (a :: x) = utf8OfRune (Gen.cp1047Decode.getD a.toNat 65533) ++ cp1047DecodeBytes x := by
      simp [cp1047DecodeBytes, List.flatMap_cons]
    rw [e] at h ⊢
    have h1 := utf8OfRune_small _ hr (fun c hc => h c (List.mem_append.mpr (Or.inl hc)))
    have h2 := ih (fun c hc => h c (List.mem_append.mpr (Or.inr hc)))
    rw [List.length_append, h1, h2, List.length_cons]; omega

/-! ## What a successful `Decode` returned -/

theorem decodeNat_value_facts (e : Enc) (d value : Bytes) (m rd : Nat) (he1 : e ≠ .hexToBytes)
    (he2 : e ≠ .berTag) (h : Enc.decodeNat e d m = .ok (value, rd))
    (hkf : e = .ebcdic1047 → ∀ c ∈ value, c.toNat < 128) :
    value.length = m ∧ ∀ c ∈ value, e.charB c = true := by
  have hs := C07.decode_ok_sound e d value m rd he2 h
  cases e with
  | hexToBytes => exact absurd rfl he1
  | berTag => exact absurd rfl he2
  | ascii =>
    obtain ⟨hr, hle, ha, _⟩ := hs
    obtain ⟨hv, hall⟩ := ha rfl
    simp only [C07.needed] at hr
    subst hr
    refine ⟨by rw [hv, List.length_take]; omega, ?_⟩
    intro c hc
    exact (isAsciiB_iff c).mpr (hall c hc)
  | binary =>
    obtain ⟨hr, hle, _, hb, _⟩ := hs
    have hv := hb rfl
    simp only [C07.needed] at hr
    subst hr
    exact ⟨by rw [hv, List.length_take]; omega, fun _ _ => rfl⟩
  | ebcdic =>
    simp only [Enc.decodeNat] at h
    split at h
    · cases h
    · simp only [Res.ok.injEq, Prod.mk.injEq] at h
      refine ⟨?_, fun _ _ => rfl⟩
      rw [← h.1, List.length_map, List.length_take]; omega
  | ebcdic1047 =>
    simp only [Enc.decodeNat] at h
    split at h
    · cases h
    · simp only [Res.ok.injEq, Prod.mk.injEq] at h
      have hk := hkf rfl
      refine ⟨?_, ?_⟩
      · rw [← h.1] at hk ⊢
        rw [cp1047Decode_length _ hk, List.length_take]; omega
      · intro c hc
        simp only [Enc.charB, isAsciiB, decide_eq_true_eq]
        have := hk c hc; omega
  | bcd =>
    obtain ⟨_, _, _, _, hb, _⟩ := hs
    obtain ⟨hl, hd⟩ := hb (Or.inl rfl)
    exact ⟨hl, fun c hc => (isDigitB_iff c).mpr (hd c hc)⟩
  | lbcd =>
    obtain ⟨_, _, _, _, hb, _⟩ := hs
    obtain ⟨hl, hd⟩ := hb (Or.inr rfl)
    exact ⟨hl, fun c hc => (isDigitB_iff c).mpr (hd c hc)⟩
  | bytesToHex =>
    obtain ⟨_, _, _, _, _, hb, _⟩ := hs
    exact ⟨(hb rfl).1, fun _ _ => rfl⟩

/-! ## What `Unpad` leaves -/

theorem unpad_facts (p : Pad) (value : Bytes) :
    (p.unpad value).length ≤ value.length ∧ (∀ x ∈ p.unpad value, x ∈ value) ∧
    (∀ x ∈ value, x ∈ p.unpad value ∨ p.char? = some x) ∧
    (p.char? = Option.none → p.unpad value = value) ∧
    (∀ m, p.unpad (p.pad (p.unpad value) m) = p.unpad value) ∧
    (match p with
      | .left c => (p.unpad value).head? ≠ some c
      | .right c => (p.unpad value).getLast? ≠ some c
      | _ => True) := by
  cases p with
  | nil => exact ⟨Nat.le_refl _, fun _ h => h, fun _ h => Or.inl h, fun _ => rfl, fun _ => rfl, trivial⟩
  | none => exact ⟨Nat.le_refl _, fun _ h => h, fun _ h => Or.inl h, fun _ => rfl, fun _ => rfl, trivial⟩
  | left c =>
    obtain ⟨k, hk, hh⟩ := C20.unpad_left_only_pad c value
    generalize Pad.unpad (.left c) value = u at hk hh ⊢
    refine ⟨by rw [hk]; simp, fun x hx => by rw [hk]; simp [hx], ?_, by simp [Pad.char?], ?_, ?_⟩
    · intro x hx
      rw [hk] at hx
      simp only [List.mem_append, List.mem_replicate] at hx
      rcases hx with ⟨_, rfl⟩ | hx
      · right; rfl
      · left; exact hx
    · intro m; exact C20.unpad_pad_left c u m hh
    · intro h; exact hh c h rfl
  | right c =>
    obtain ⟨k, hk, hh⟩ := C20.unpad_right_only_pad c value
    generalize Pad.unpad (.right c) value = u at hk hh ⊢
    refine ⟨by rw [hk]; simp, fun x hx => by rw [hk]; simp [hx], ?_, by simp [Pad.char?], ?_, ?_⟩
    · intro x hx
      rw [hk] at hx
      simp only [List.mem_append, List.mem_replicate] at hx
      rcases hx with hx | ⟨_, rfl⟩
      · left; exact hx
      · right; rfl
    · intro m; exact C20.unpad_pad_right c u m hh
    · intro h; exact hh c h rfl

/-- padding adds only pad characters -/
theorem mem_pad (p : Pad) (b : Bytes) (m : Nat) : ∀ x ∈ p.pad b m, x ∈ b ∨ p.char? = some x := by
  intro x hx
  cases p with
  | nil => left; simpa [Pad.pad] using hx
  | none => left; simpa [Pad.pad] using hx
  | left c =>
    simp only [Pad.pad] at hx
    split at hx
    · left; exact hx
    · simp only [List.mem_append, List.mem_replicate] at hx
      rcases hx with ⟨_, rfl⟩ | hx
      · right; rfl
      · left; exact hx
  | right c =>
    simp only [Pad.pad] at hx
    split at hx
    · left; exact hx
    · simp only [List.mem_append, List.mem_replicate] at hx
      rcases hx with hx | ⟨_, rfl⟩
      · left; exact hx
      · right; rfl

/-! ## More of `PrimSpec.coherent` -/

section coherent
variable {s : PrimSpec} {lp : Bool}

/-- K3: the pad character belongs to the encoder's alphabet -/
theorem coh_padchar_ok (h : s.coherent lp = true) (c : Byte) (hc : s.pad.char? = some c) :
    s.enc.charB c = true := by
  simp only [PrimSpec.coherent, Bool.and_eq_true] at h
  have h4 := h.1.1.1.2
  obtain ⟨kind, len, enc, pref, pad, packer⟩ := s
  simp only at h4 hc ⊢
  rw [hc] at h4
  simp only [Bool.and_eq_true, decide_eq_true_eq] at h4
  obtain ⟨⟨⟨h41, h42⟩, _⟩, _⟩ := h4
  cases enc <;> simp_all [Enc.charB, isAsciiB]

/-- K3 for Numeric: at least one digit fits, and a Fixed numeric field has a real padder -/
theorem coh_numeric_len (h : s.coherent lp = true) (hk : s.kind = .numeric) :
    1 ≤ s.len ∧ (∀ f, s.pref = .fixed f → ∃ c, s.pad.char? = some c) := by
  simp only [PrimSpec.coherent, Bool.and_eq_true] at h
  have h5 := h.1.1.2
  obtain ⟨kind, len, enc, pref, pad, packer⟩ := s
  simp only at h5 hk ⊢
  subst hk
  simp only [Bool.and_eq_true, decide_eq_true_eq] at h5
  refine ⟨h5.1.1, ?_⟩
  intro f hf
  subst hf
  have := h5.2
  simp only at this
  cases hc : pad.char? with
  | none => rw [hc] at this; simp at this
  | some c => exact ⟨c, rfl⟩

end coherent

theorem capacityOf_var (f : Fam) (d : Nat) : (Pref.var f d).capacityOf = some (C06.capacity f d) := by
  cases f <;> rfl

/-! ## A decoded length fits the prefixer's digits -/

theorem mapM_decVal_sound : ∀ (ds : Bytes) (l : List Nat), mapM? decVal? ds = some l →
    (∀ x ∈ l, x ≤ 9) ∧ (∀ c ∈ ds, isDigit c) := by
  intro ds
  induction ds with
  | nil => intro l h; simp [mapM?] at h; subst h; simp
  | cons c cs ih =>
    intro l h
    simp only [mapM?] at h
    cases hc : decVal? c with
    | none => simp [hc] at h
    | some y =>
      cases hcs : mapM? decVal? cs with
      | none => simp [hc, hcs] at h
      | some ys =>
        simp [hc, hcs] at h; subst h
        obtain ⟨h1, h2⟩ := ih ys hcs
        obtain ⟨hd, hy⟩ := decVal_some hc
        refine ⟨?_, ?_⟩
        · intro x hx
          simp only [List.mem_cons] at hx
          rcases hx with rfl | hx
          · have := hd.1; have := hd.2; omega
          · exact h1 x hx
        · intro x hx
          simp only [List.mem_cons] at hx
          rcases hx with rfl | hx
          · exact hd
          · exact h2 x hx

theorem mapM_hexVal_lt : ∀ (ds : Bytes) (l : List Nat), mapM? hexVal? ds = some l → ∀ x ∈ l, x < 16 := by
  intro ds
  induction ds with
  | nil => intro l h; simp [mapM?] at h; subst h; simp
  | cons c cs ih =>
    intro l h
    simp only [mapM?] at h
    cases hc : hexVal? c with
    | none => simp [hc] at h
    | some y =>
      cases hcs : mapM? hexVal? cs with
      | none => simp [hc, hcs] at h
      | some ys =>
        simp [hc, hcs] at h; subst h
        intro x hx
        simp only [List.mem_cons] at hx
        rcases hx with rfl | hx
        · exact (hexVal_some_lt hc).1
        · exact ih ys hcs x hx

theorem ofDigits10_lt (l : List Nat) (h : ∀ x ∈ l, x ≤ 9) : ofDigits 10 l < 10 ^ l.length :=
  ofDigits_lt 10 l (by omega) (fun x hx => by have := h x hx; omega)

/-- `strconv.Atoi` of `k` characters is below `10^k`, and the characters are ASCII -/
theorem atoi_bound (ds : Bytes) (v : Int) (h : atoi? ds = some v) :
    v.toNat < 10 ^ ds.length ∧ ∀ c ∈ ds, c.toNat < 128 := by
  cases ds with
  | nil => simp [atoi?] at h
  | cons c rest =>
    have hpos : 0 < 10 ^ (c :: rest).length := Nat.pow_pos (by omega)
    simp only [atoi?] at h
    split at h
    · rename_i h43
      cases rest with
      | nil => simp at h
      | cons r rs =>
        simp only at h
        cases hm : mapM? decVal? (r :: rs) with
        | none => simp [hm] at h
        | some l =>
          simp [hm] at h; subst h
          obtain ⟨h1, h2⟩ := mapM_decVal_sound _ l hm
          have hl := mapM?_eq_some_length hm
          have := ofDigits10_lt l h1
          rw [hl] at this
          refine ⟨?_, ?_⟩
          · have hle : 10 ^ (r :: rs).length ≤ 10 ^ (c :: r :: rs).length :=
              Nat.pow_le_pow_right (by omega) (by simp)
            have : ((ofDigits 10 l : Nat) : Int).toNat = ofDigits 10 l := by simp
            omega
          · intro x hx
            simp only [List.mem_cons] at hx
            rcases hx with rfl | hx
            · rw [h43]; decide
            · have := h2 x (by simpa using hx); unfold isDigit at this; omega
    · split at h
      · rename_i h45
        cases rest with
        | nil => simp at h
        | cons r rs =>
          simp only at h
          cases hm : mapM? decVal? (r :: rs) with
          | none => simp [hm] at h
          | some l =>
            simp [hm] at h; subst h
            obtain ⟨_, h2⟩ := mapM_decVal_sound _ l hm
            refine ⟨by omega, ?_⟩
            intro x hx
            simp only [List.mem_cons] at hx
            rcases hx with rfl | hx
            · rw [h45]; decide
            · have := h2 x (by simpa using hx); unfold isDigit at this; omega
      · cases hm : mapM? decVal? (c :: rest) with
        | none => simp [hm] at h
        | some l =>
          simp [hm] at h; subst h
          obtain ⟨h1, h2⟩ := mapM_decVal_sound _ l hm
          have hl := mapM?_eq_some_length hm
          have := ofDigits10_lt l h1
          rw [hl] at this
          refine ⟨by simpa using this, ?_⟩
          intro x hx
          have := h2 x hx; unfold isDigit at this; omega

theorem finishDec_val {maxLen : Nat} {ds : Bytes} {read m r : Nat}
    (h : Pref.finishDec maxLen ds read = .ok (m, r)) : ∃ v, atoi? ds = some v ∧ m = v.toNat := by
  unfold Pref.finishDec at h
  split at h
  · cases h
  · rename_i v hv
    split at h
    · cases h
    · split at h
      · cases h
      · simp only [Res.ok.injEq, Prod.mk.injEq] at h
        exact ⟨v, hv, h.1.symm⟩

/-- **the announced length a variable prefixer decodes is below `base^digits`** -/
theorem decodeLength_le_capacity (f : Fam) (d maxLen : Nat) (data : Bytes) (n k : Nat)
    (h : Pref.decodeLength (.var f d) maxLen data = .ok (n, k)) : n ≤ C06.capacity f d := by
  have h10 : 0 < 10 ^ d := Nat.pow_pos (by omega)
  cases f with
  | ascii =>
    simp only [Pref.decodeLength] at h
    split at h
    · cases h
    · rename_i hlt
      obtain ⟨v, hv, rfl⟩ := finishDec_val h
      have := (atoi_bound _ v hv).1
      rw [List.length_take] at this
      have hmin : min d data.length = d := by omega
      rw [hmin] at this
      simp only [C06.capacity]; omega
  | ebcdic =>
    simp only [Pref.decodeLength] at h
    split at h
    · cases h
    · cases hdec : Enc.decode .ebcdic (data.take d) (d : Int) with
      | err => rw [hdec] at h; cases h
      | panic => rw [hdec] at h; cases h
      | ok p =>
        obtain ⟨ds, rd⟩ := p
        rw [hdec] at h
        simp only at h
        obtain ⟨v, hv, rfl⟩ := finishDec_val h
        have hl := (decodeNat_value_facts .ebcdic _ ds d rd (by simp) (by simp) hdec (by simp)).1
        have := (atoi_bound _ v hv).1
        rw [hl] at this
        simp only [C06.capacity]; omega
  | ebcdic1047 =>
    simp only [Pref.decodeLength] at h
    split at h
    · cases h
    · cases hdec : Enc.decode .ebcdic1047 (data.take d) (d : Int) with
      | err => rw [hdec] at h; cases h
      | panic => rw [hdec] at h; cases h
      | ok p =>
        obtain ⟨ds, rd⟩ := p
        rw [hdec] at h
        simp only at h
        obtain ⟨v, hv, rfl⟩ := finishDec_val h
        obtain ⟨hb, hasc⟩ := atoi_bound _ v hv
        have hl := (decodeNat_value_facts .ebcdic1047 _ ds d rd (by simp) (by simp) hdec (fun _ => hasc)).1
        rw [hl] at hb
        simp only [C06.capacity]; omega
  | bcd =>
    simp only [Pref.decodeLength] at h
    split at h
    · cases h
    · cases hdec : Enc.decode .bcd (data.take ((d + 1) / 2)) (d : Int) with
      | err => rw [hdec] at h; cases h
      | panic => rw [hdec] at h; cases h
      | ok p =>
        obtain ⟨ds, rd⟩ := p
        rw [hdec] at h
        simp only at h
        obtain ⟨v, hv, rfl⟩ := finishDec_val h
        have hl := (decodeNat_value_facts .bcd _ ds d rd (by simp) (by simp) hdec (by simp)).1
        have := (atoi_bound _ v hv).1
        rw [hl] at this
        simp only [C06.capacity]; omega
  | binary =>
    simp only [Pref.decodeLength] at h
    split at h
    · cases h
    · split at h
      · cases h
      · split at h
        · cases h
        · simp only [Res.ok.injEq, Prod.mk.injEq] at h
          have hlt := ofDigits_lt 256 ((data.take d).map (·.toNat)) (by omega)
            (fun x hx => by
              simp only [List.mem_map] at hx
              obtain ⟨c, _, rfl⟩ := hx
              exact byte_toNat_lt c)
          rw [List.length_map, List.length_take] at hlt
          have hmin : min d data.length = d := by omega
          rw [hmin] at hlt
          have hv : Pref.beValue (data.take d) = n := h.1
          unfold Pref.beValue at hv
          simp only [C06.capacity]; omega
  | hex =>
    simp only [Pref.decodeLength] at h
    split at h
    · cases h
    · cases hm : mapM? hexVal? (data.take (2 * d)) with
      | none => rw [hm] at h; cases h
      | some ds =>
        rw [hm] at h
        simp only at h
        split at h
        · cases h
        · simp only [Res.ok.injEq, Prod.mk.injEq] at h
          have hlt := ofDigits_lt 16 ds (by omega) (mapM_hexVal_lt _ ds hm)
          have hl := mapM?_eq_some_length hm
          rw [hl, List.length_take] at hlt
          have hmin : min (2 * d) data.length = 2 * d := by omega
          rw [hmin] at hlt
          have hp : (16 : Nat) ^ (2 * d) = 256 ^ d := by rw [Nat.pow_mul]
          rw [hp] at hlt
          simp only [C06.capacity]; omega

/-! ## `strconv.ParseInt` read backwards -/

/-- the digit run of `parseInt64?` -/
def digitsVal (ds : Bytes) : Option Nat :=
  match ds with
  | [] => Option.none
  | _ => (mapM? decVal? ds).map (ofDigits 10)

theorem parseInt64_eq (s : Bytes) :
    parseInt64? s =
      match s with
      | [] => Option.none
      | c :: rest =>
        if c = 45 then
          match digitsVal rest with
          | some v => if v ≤ 2 ^ 63 then some (-(v : Int)) else Option.none
          | Option.none => Option.none
        else if c = 43 then
          match digitsVal rest with
          | some v => if v < 2 ^ 63 then some (v : Int) else Option.none
          | Option.none => Option.none
        else
          match digitsVal s with
          | some v => if v < 2 ^ 63 then some (v : Int) else Option.none
          | Option.none => Option.none := by
  cases s <;> rfl

theorem digitsVal_sound (ds : Bytes) (v : Nat) (h : digitsVal ds = some v) :
    1 ≤ ds.length ∧ v < 10 ^ ds.length ∧ ∀ c ∈ ds, isDigit c := by
  cases ds with
  | nil => simp [digitsVal] at h
  | cons c cs =>
    simp only [digitsVal] at h
    cases hm : mapM? decVal? (c :: cs) with
    | none => simp [hm] at h
    | some l =>
      simp [hm] at h; subst h
      obtain ⟨h1, h2⟩ := mapM_decVal_sound _ l hm
      have hl := mapM?_eq_some_length hm
      have := ofDigits10_lt l h1
      rw [hl] at this
      exact ⟨by simp, this, h2⟩

theorem natToDec_length_le' (v k : Nat) (hk : 1 ≤ k) (h : v < 10 ^ k) : (natToDec v).length ≤ k := by
  obtain ⟨j, rfl⟩ : ∃ j, k = j + 1 := ⟨k - 1, by omega⟩
  exact natToDec_length_le v j h

theorem formatInt_nonneg (i : Int) (h : 0 ≤ i) : formatInt i = natToDec i.toNat := by
  unfold formatInt
  have : ¬ i < 0 := by omega
  simp [this]

theorem formatInt_neg (i : Int) (h : i < 0) : formatInt i = 45 :: natToDec (-i).toNat := by
  unfold formatInt
  simp [h]

/-- every character of a rendering is `'-'` or a digit; no `'-'` for a non-negative number -/
theorem formatInt_chars (i : Int) : ∀ c ∈ formatInt i, (c = 45 ∧ i < 0) ∨ isDigit c := by
  obtain ⟨ds, h1, _, h3, _⟩ := formatInt_digits i
  intro c hc
  rw [h1] at hc
  simp only [List.mem_append, List.mem_map] at hc
  rcases hc with hc | ⟨d, hd, rfl⟩
  · left
    by_cases hneg : i < 0
    · simp [hneg] at hc; exact ⟨hc, hneg⟩
    · simp [hneg] at hc
  · right; exact asciiDigit_isDigit (h3 d hd)

/-- **what `ParseInt` accepted**: an `int64`, whose canonical rendering is no longer than
the text, which is ASCII; a text of digits only is a non-negative number -/
theorem parseInt64_sound (raw : Bytes) (i : Int) (h : parseInt64? raw = some i) :
    (-(2 ^ 63 : Int) ≤ i ∧ i < 2 ^ 63) ∧ (formatInt i).length ≤ raw.length ∧
    (∀ c ∈ raw, c.toNat < 128) ∧ ((∀ c ∈ raw, isDigit c) → 0 ≤ i) := by
  rw [parseInt64_eq] at h
  cases raw with
  | nil => cases h
  | cons c rest =>
    simp only at h
    split at h
    · rename_i h45
      cases hd : digitsVal rest with
      | none => rw [hd] at h; cases h
      | some v =>
        rw [hd] at h
        simp only at h
        split at h
        · rename_i hle
          simp only [Option.some.injEq] at h
          subst h
          obtain ⟨h1, h2, h3⟩ := digitsVal_sound rest v hd
          refine ⟨by omega, ?_, ?_, ?_⟩
          · by_cases hv : v = 0
            · subst hv; simp [formatInt_zero]
            · rw [formatInt_neg _ (by omega)]
              have : (-(-(v : Int))).toNat = v := by omega
              rw [this]
              have := natToDec_length_le' v rest.length h1 h2
              simp; omega
          · intro x hx
            simp only [List.mem_cons] at hx
            rcases hx with rfl | hx
            · rw [h45]; decide
            · have := h3 x hx; unfold isDigit at this; omega
          · intro hall
            have := hall c (by simp)
            rw [h45] at this
            exact absurd this (by decide)
        · cases h
    · split at h
      · rename_i h43
        cases hd : digitsVal rest with
        | none => rw [hd] at h; cases h
        | some v =>
          rw [hd] at h
          simp only at h
          split at h
          · rename_i hlt
            simp only [Option.some.injEq] at h
            subst h
            obtain ⟨h1, h2, h3⟩ := digitsVal_sound rest v hd
            refine ⟨by omega, ?_, ?_, fun _ => by omega⟩
            · rw [formatInt_nonneg _ (by omega)]
              have : ((v : Int)).toNat = v := by omega
              rw [this]
              have := natToDec_length_le' v rest.length h1 h2
              simp; omega
            · intro x hx
              simp only [List.mem_cons] at hx
              rcases hx with rfl | hx
              · rw [h43]; decide
              · have := h3 x hx; unfold isDigit at this; omega
          · cases h
      · cases hd : digitsVal (c :: rest) with
        | none => rw [hd] at h; cases h
        | some v =>
          rw [hd] at h
          simp only at h
          split at h
          · rename_i hlt
            simp only [Option.some.injEq] at h
            subst h
            obtain ⟨h1, h2, h3⟩ := digitsVal_sound _ v hd
            refine ⟨by omega, ?_, ?_, fun _ => by omega⟩
            · rw [formatInt_nonneg _ (by omega)]
              have : ((v : Int)).toNat = v := by omega
              rw [this]
              exact natToDec_length_le' v _ h1 h2
            · intro x hx
              have := h3 x hx; unfold isDigit at this; omega
          · cases h

/-! ## Re-packing what Unpack returned -/

namespace PrimSpec

/-- **the padded length of a value no longer than what the prefix announced is announceable** -/
theorem lenOK_padded (s : PrimSpec) (lp : Bool) (hc : s.coherent lp = true) (hd : s.packer = .default)
    (hne : s.pref ≠ .fixed .hex) (b data : Bytes) (n k : Nat)
    (hdl : s.pref.decodeLength s.len data = .ok (n, k))
    (hle : b.length ≤ n ∨ (s.kind = .numeric ∧ b.length = 1))
    (hfix : s.pad.char? = Option.none → ∀ f, s.pref = .fixed f → b.length = n) :
    s.pref.lenOK s.len (s.pad.pad b s.len).length := by
  obtain ⟨_, hr⟩ := C06.dec_range s.pref s.len data
  obtain ⟨_, hmax, _, _⟩ := hr n k hdl
  have hnum : s.kind = .numeric → 1 ≤ s.len := fun h => (coh_numeric_len hc h).1
  cases hch : s.pad.char? with
  | some c =>
    obtain ⟨hnn, hber, hcap⟩ := coh_pad hc c hch
    have hreal : s.pad ≠ .nil ∧ s.pad ≠ .none := by
      rcases char?_some hch with h | h <;> rw [h] <;> exact ⟨by simp, by simp⟩
    have hn : n ≤ s.len := hmax ⟨hnn, fun h => by have := hber h.1; omega⟩
    have hb : b.length ≤ s.len := by
      rcases hle with h | ⟨h1, h2⟩
      · omega
      · have := hnum h1; omega
    have hlen : (s.pad.pad b s.len).length = s.len := by
      rw [C20.pad_length _ _ _ hreal]; omega
    rw [hlen]
    cases hp : s.pref with
    | none => exact absurd hp hnn
    | berTLV => right; exact Nat.le_refl _
    | fixed f =>
      rw [hp] at hne
      cases f <;> first | exact absurd rfl hne | rfl
    | var f d =>
      exact ⟨Nat.le_refl _, hcap hd _ (by rw [hp]; exact capacityOf_var f d)⟩
  | none =>
    have hpad : s.pad.pad b s.len = b := by rcases char?_none hch with h | h <;> simp [h, Pad.pad]
    rw [hpad]
    cases hp : s.pref with
    | none => trivial
    | berTLV =>
      by_cases h0 : s.len = 0
      · left; exact h0
      · right
        have hn : n ≤ s.len := hmax ⟨by rw [hp]; simp, fun h => h0 h.2⟩
        rcases hle with h | ⟨h1, h2⟩
        · omega
        · have := hnum h1; omega
    | fixed f =>
      have hbn := hfix hch f hp
      rw [hp] at hdl hne
      simp only [Pref.decodeLength, Res.ok.injEq, Prod.mk.injEq] at hdl
      cases f <;> first | exact absurd rfl hne | (show b.length = s.len; omega)
    | var f d =>
      have hn : n ≤ s.len := hmax ⟨by rw [hp]; simp, fun h => by rw [hp] at h; cases h.1⟩
      rw [hp] at hdl
      have hcap := decodeLength_le_capacity f d s.len data n k hdl
      obtain ⟨hd1, _⟩ := exportedB_var (by have := coh_exported hc; rw [hp] at this; exact this)
      refine ⟨?_, ?_⟩
      · rcases hle with h | ⟨h1, h2⟩
        · omega
        · have := hnum h1; omega
      · rcases hle with h | ⟨h1, h2⟩
        · omega
        · rw [h2]
          have h10 : 10 ^ 1 ≤ 10 ^ d := Nat.pow_le_pow_right (by omega) hd1
          have h256 : 256 ^ 1 ≤ 256 ^ d := Nat.pow_le_pow_right (by omega) hd1
          cases f <;> simp only [C06.capacity] <;> omega

/-- `defaultPacker.Pack` succeeds on a value made of the encoder's alphabet whose padded
length is announceable -/
theorem packBytes_default_exists (s : PrimSpec) (lp : Bool) (hc : s.coherent lp = true)
    (hd : s.packer = .default) (hhex : s.enc ≠ .hexToBytes) (b : Bytes)
    (hchars : ∀ c ∈ b, s.enc.charB c = true)
    (hlen : s.pref.lenOK s.len (s.pad.pad b s.len).length) :
    s.enc.accepts (s.pad.pad b s.len) = true ∧ ∃ bs, s.packBytes b = .ok bs := by
  have hacc : s.enc.accepts (s.pad.pad b s.len) = true := by
    apply accepts_of_all _ _ hhex (coh_enc hc).1
    intro c hcm
    rcases mem_pad s.pad b s.len c hcm with h | h
    · exact hchars c h
    · exact coh_padchar_ok hc c h
  refine ⟨hacc, ?_⟩
  obtain ⟨y, hy⟩ := encode_ok_of_accepts _ _ hacc
  obtain ⟨pre, hpre⟩ := (encodeLength_ok_iff _ _ _ (coh_exported hc)).mpr hlen
  refine ⟨pre ++ y, ?_⟩
  unfold packBytes
  rw [hd]
  simp only [hy, hpre]

/-- **what `unpackBytes` returned** (every encoder except `ASCIIHexToBytes`): a text made of
the encoder's alphabet, no longer than the (Track2: evened) announced length — exactly that
long when there is no padder — which does not begin / end with the pad character -/
theorem unpackBytes_facts (s : PrimSpec) (lp : Bool) (data raw : Bytes) (r : Nat)
    (hc : s.coherent lp = true) (hu : s.unpackBytes data = .ok (raw, r)) (hhex : s.enc ≠ .hexToBytes)
    (hkf : s.enc = .ebcdic1047 → ∀ c ∈ raw, c.toNat < 128) :
    ∃ n k, s.pref.decodeLength s.len data = .ok (n, k) ∧ raw.length ≤ s.valueLength n ∧
      (s.pad.char? = Option.none → raw.length = s.valueLength n) ∧
      (∀ c ∈ raw, s.enc.charB c = true) ∧ (∀ m, s.pad.unpad (s.pad.pad raw m) = raw) ∧
      (match s.pad with
        | .left c => raw.head? ≠ some c
        | .right c => raw.getLast? ≠ some c
        | _ => True) ∧
      s.lengthCheck n raw = true := by
  obtain ⟨n, k, value, rd, hdl, _, hdec, hraw, _, hchk⟩ := unpackBytes_ok s data raw r hu
  obtain ⟨h1, h2, h3, h4, h5, h6⟩ := unpad_facts s.pad value
  rw [← hraw] at h1 h2 h3 h4 h5 h6
  have hkf' : s.enc = .ebcdic1047 → ∀ c ∈ value, c.toNat < 128 := by
    intro he c hcv
    rcases h3 c hcv with h | h
    · exact hkf he c h
    · have := coh_padchar_ok hc c h
      rw [he] at this
      simp only [Enc.charB, isAsciiB, decide_eq_true_eq] at this
      omega
  rw [Enc.decode_natCast] at hdec
  obtain ⟨hvl, hvc⟩ := decodeNat_value_facts s.enc _ value _ rd hhex (coh_enc hc).1 hdec hkf'
  refine ⟨n, k, hdl, by omega, ?_, fun c hcr => hvc c (h2 c hcr), h5, ?_, hchk⟩
  · intro hnone; rw [h4 hnone]; exact hvl
  · cases hp : s.pad <;> rw [hp] at h6 <;> simp only at h6 ⊢ <;> exact h6

theorem unpack_ok (s : PrimSpec) (data : Bytes) (v : Value) (r : Nat) (h : s.unpack data = .ok (v, r)) :
    ∃ raw, s.unpackBytes data = .ok (raw, r) ∧ s.setBytes raw = .ok v := by
  unfold unpack at h
  cases hu : s.unpackBytes data with
  | err => rw [hu] at h; cases h
  | panic => rw [hu] at h; cases h
  | ok p =>
    obtain ⟨raw, r'⟩ := p
    rw [hu] at h
    simp only at h
    cases hs : s.setBytes raw with
    | err => rw [hs] at h; cases h
    | panic => rw [hs] at h; cases h
    | ok w =>
      rw [hs] at h
      simp only [Res.ok.injEq, Prod.mk.injEq] at h
      obtain ⟨rfl, rfl⟩ := h
      exact ⟨raw, rfl, hs⟩

/-! ### building `Field.inDomain` -/

theorem inDomain_str_of {s : PrimSpec} {b : Bytes} (hk : s.kind = .string) (hl : b.length ≤ maxInt)
    (hd : s.packer = .default → s.enc.accepts (s.pad.pad b s.len) = true)
    (ht : s.packer = .track2 → s.enc.accepts (s.pad.pad b (b.length + b.length % 2)) = true ∧
      (match s.pad with
        | .left c => b.head? ≠ some c
        | .right c => b.getLast? ≠ some c
        | _ => True)) :
    (Field.prim s).inDomain (.str b) = true := by
  simp only [Field.inDomain, Bool.and_eq_true, beq_iff_eq, decide_eq_true_eq]
  refine ⟨⟨hk, hl⟩, ?_⟩
  cases hp : s.packer with
  | default => exact hd hp
  | track2 =>
    obtain ⟨h1, h2⟩ := ht hp
    simp only [Bool.and_eq_true]
    refine ⟨h1, ?_⟩
    cases hpad : s.pad <;> rw [hpad] at h2 <;> simp_all

theorem inDomain_bin_of {s : PrimSpec} {b : Bytes} (hk : s.kind = .binary) (hl : b.length ≤ maxInt)
    (hd : s.enc.accepts (s.pad.pad b s.len) = true) : (Field.prim s).inDomain (.bin b) = true := by
  simp only [Field.inDomain, Bool.and_eq_true, beq_iff_eq, decide_eq_true_eq]
  exact ⟨⟨hk, hd⟩, hl⟩

theorem inDomain_hexv_of {s : PrimSpec} {raw : Bytes} (hk : s.kind = .hex)
    (hl : (hexEncodeUpper raw).length ≤ maxInt)
    (hd : s.enc.accepts (s.pad.pad raw s.len) = true) :
    (Field.prim s).inDomain (.hexv (hexEncodeUpper raw)) = true := by
  simp only [Field.inDomain, Bool.and_eq_true, beq_iff_eq, decide_eq_true_eq, List.all_eq_true,
    hexDecode_hexEncodeUpper]
  refine ⟨⟨⟨⟨hk, ?_⟩, ?_⟩, hl⟩, hd⟩
  · intro c hcm
    have := hexEncodeUpper_upper raw c hcm
    unfold isUpperHexChar at this
    simp only [isHexB, decide_eq_true_eq]
    omega
  · rw [hexEncodeUpper_length]; omega

theorem inDomain_num_of {s : PrimSpec} {i : Int} (hk : s.kind = .numeric)
    (hr : -(2 ^ 63 : Int) ≤ i ∧ i < 2 ^ 63)
    (hd : s.enc.accepts (s.pad.pad (formatInt i) s.len) = true) :
    (Field.prim s).inDomain (.num i) = true := by
  simp only [Field.inDomain, Bool.and_eq_true, beq_iff_eq, decide_eq_true_eq]
  exact ⟨⟨hk, hr⟩, hd⟩

theorem upperHex_of_upper {c : Byte} (h : isUpperHexChar c) : upperHex c = c := by
  unfold isUpperHexChar at h
  unfold upperHex
  have : ¬ (97 ≤ c.toNat ∧ c.toNat ≤ 102) := by omega
  simp [this]

theorem map_upperHex_hexEncodeUpper (x : Bytes) : (hexEncodeUpper x).map upperHex = hexEncodeUpper x := by
  conv => rhs; rw [← List.map_id (hexEncodeUpper x)]
  apply List.map_congr_left
  intro c hc
  exact upperHex_of_upper (hexEncodeUpper_upper x c hc)

/-! ### the exclusions -/

/-- the returned string / `[]byte` has a length that is a Go int (true of every Go value;
the model's lists are unbounded) -/
def ValueFits : Value → Prop
  | .str b => b.length ≤ maxInt
  | .bin b => b.length ≤ maxInt
  | .hexv t => t.length ≤ maxInt
  | _ => True

/-- **KF2 excluded**: under the EBCDIC-1047 encoder the decoded bytes are ASCII (`< 0x80`).
A wire byte that code page 1047 maps to a non-ASCII rune decodes to two UTF-8 bytes: the
value is longer than what was on the wire and outside the encoder's source alphabet
(see `kf2_witness`). Numeric values can not be affected (their text parsed as a number). -/
def NotKF2 (s : PrimSpec) (v : Value) : Prop :=
  s.enc = .ebcdic1047 →
    match v with
    | .str b => ∀ c ∈ b, c.toNat < 128
    | .bin b => ∀ c ∈ b, c.toNat < 128
    | .hexv t => ∀ raw, Enc.hexDecode t = some raw → ∀ c ∈ raw, c.toNat < 128
    | _ => True

/-- the common part of the String / Binary / Hex cases under the default packer -/
theorem repack_default (s : PrimSpec) (lp : Bool) (data raw : Bytes) (r : Nat)
    (hc : s.coherent lp = true) (hu : s.unpackBytes data = .ok (raw, r)) (hhex : s.enc ≠ .hexToBytes)
    (hd : s.packer = .default) (hkf : s.enc = .ebcdic1047 → ∀ c ∈ raw, c.toNat < 128) :
    s.enc.accepts (s.pad.pad raw s.len) = true ∧ s.pad.unpad (s.pad.pad raw s.len) = raw ∧
      ∃ bs, s.packBytes raw = .ok bs := by
  obtain ⟨n, k, hdl, hle, hex, hch, hun, _, _⟩ := unpackBytes_facts s lp data raw r hc hu hhex hkf
  have hvl : s.valueLength n = n := by simp [valueLength, hd]
  rw [hvl] at hle hex
  have hne : s.pref ≠ .fixed .hex := fun h => hhex ((coh_enc hc).2.mpr h)
  have hlen := lenOK_padded s lp hc hd hne raw data n k hdl (Or.inl hle) (fun h _ _ => hex h)
  obtain ⟨hacc, hbs⟩ := packBytes_default_exists s lp hc hd hhex raw hch hlen
  exact ⟨hacc, hun s.len, hbs⟩

/-- **C02, primitive fields — every accepted byte string re-packs**: what `Unpack` returns
for a coherent spec is in the field's value domain, is its own canonical form, and `Pack`
accepts it. Exclusions: KF2 (`NotKF2`) and the model-size fact `ValueFits`. -/
theorem prim_unpack_repack (s : PrimSpec) (lp : Bool) (data : Bytes) (v : Value) (r : Nat)
    (hc : s.coherent lp = true) (hu : s.unpack data = .ok (v, r)) (hkf : NotKF2 s v)
    (hfit : ValueFits v) :
    (Field.prim s).inDomain v = true ∧ s.canon v = v ∧ ∃ bs, s.pack v = .ok bs := by
  obtain ⟨raw, hub, hsb⟩ := unpack_ok s data v r hu
  cases hk : s.kind with
  | string =>
    have hv : v = .str raw := by simp [setBytes, hk] at hsb; exact hsb.symm
    subst hv
    have hvb : s.valueBytes (.str raw) = .ok raw := by simp [valueBytes, hk]
    rw [pack_of_bytes s _ raw hvb]
    by_cases hhex : s.enc = .hexToBytes
    · -- ASCIIHexToBytes + Hex.Fixed: the text is the upper-case hex of `len` wire bytes
      have hpf : s.pref = .fixed .hex := (coh_enc hc).2.mp hhex
      obtain ⟨_, hch⟩ := coh_hex hc hhex
      have hd : s.packer = .default := by
        cases hp : s.packer with
        | default => rfl
        | track2 => obtain ⟨_, c, h⟩ := coh_track2 hc hp; rw [hch] at h; cases h
      have hpad : ∀ x, s.pad.pad x s.len = x := by
        intro x; rcases char?_none hch with h | h <;> simp [h, Pad.pad]
      have hunpad : ∀ x, s.pad.unpad x = x := by
        intro x; rcases char?_none hch with h | h <;> simp [h, Pad.unpad]
      obtain ⟨n, k, value, rd, hdl, _, hdec, hraw, _, _⟩ := unpackBytes_ok s data raw r hub
      rw [hpf] at hdl
      simp only [Pref.decodeLength, Res.ok.injEq, Prod.mk.injEq] at hdl
      obtain ⟨rfl, rfl⟩ := hdl
      have hvl : s.valueLength s.len = s.len := by simp [valueLength, hd]
      rw [hvl, hhex, Enc.decode_natCast] at hdec
      simp only [Enc.decodeNat, List.drop_zero] at hdec
      split at hdec
      · cases hdec
      · rename_i hlen
        simp only [Res.ok.injEq, Prod.mk.injEq] at hdec
        rw [hunpad] at hraw
        have hrv : raw = hexEncodeUpper (data.take s.len) := by rw [hraw, ← hdec.1]
        have htl : (data.take s.len).length = s.len := by rw [List.length_take]; omega
        have hrl : raw.length = 2 * s.len := by rw [hrv, hexEncodeUpper_length, htl]
        have hacc : s.enc.accepts (s.pad.pad raw s.len) = true := by
          rw [hpad, hhex]
          simp only [Enc.accepts, Bool.and_eq_true, decide_eq_true_eq, List.all_eq_true]
          refine ⟨by omega, ?_⟩
          intro c hcm
          rw [hrv] at hcm
          have := hexEncodeUpper_upper _ c hcm
          unfold isUpperHexChar at this
          simp only [isHexB, decide_eq_true_eq]; omega
        refine ⟨inDomain_str_of hk hfit (fun _ => hacc) (fun h => by rw [hd] at h; cases h), ?_, ?_⟩
        · simp only [canon, hhex, beq_self_eq_true, ite_true, upperHexB_eq]
          rw [hrv, map_upperHex_hexEncodeUpper]
        · refine ⟨data.take s.len, ?_⟩
          unfold packBytes
          rw [hd]
          simp only [hpad, hhex, hpf, Enc.encode]
          rw [hrv, hexDecode_hexEncodeUpper, hexEncodeUpper_length, htl]
          simp [Res.ofOption, Pref.encodeLength, Nat.mul_comm]
    · have hkf' : s.enc = .ebcdic1047 → ∀ c ∈ raw, c.toNat < 128 := fun h => hkf h
      cases hp : s.packer with
      | default =>
        obtain ⟨hacc, hun, hbs⟩ := repack_default s lp data raw r hc hub hhex hp hkf'
        refine ⟨inDomain_str_of hk hfit (fun _ => hacc) (fun h => by rw [hp] at h; cases h), ?_, hbs⟩
        simp [canon, hhex, hun]
      | track2 =>
        obtain ⟨n, k, hdl, _, _, hch, hun, hedge, hchk⟩ := unpackBytes_facts s lp data raw r hc hub hhex hkf'
        have hber := (coh_enc hc).1
        have hpadacc : ∀ m, s.enc.accepts (s.pad.pad raw m) = true := by
          intro m
          apply accepts_of_all _ _ hhex hber
          intro c hcm
          rcases mem_pad s.pad raw m c hcm with h | h
          · exact hch c h
          · exact coh_padchar_ok hc c h
        refine ⟨inDomain_str_of hk hfit (fun h => by rw [hp] at h; cases h) (fun _ => ⟨hpadacc _, hedge⟩), ?_, ?_⟩
        · simp [canon, hhex, hun]
        · -- Pack: the (evened) data is encodable and the text length is announceable
          have hdata : s.enc.accepts (s.track2Data raw) = true := by
            unfold track2Data
            split
            · exact hpadacc _
            · exact accepts_of_all _ _ hhex hber hch
          obtain ⟨y, hy⟩ := encode_ok_of_accepts _ _ hdata
          have hrn : raw.length ≤ n := by simpa [lengthCheck, hp] using hchk
          obtain ⟨_, hr⟩ := C06.dec_range s.pref s.len data
          obtain ⟨_, hmax, _, _⟩ := hr n k hdl
          have hlen : s.pref.lenOK s.len raw.length := by
            rcases coh_track2_var hc hp with ⟨f, d, hpv⟩ | hpb
            · have hn : n ≤ s.len := hmax ⟨by rw [hpv]; simp, fun h => by rw [hpv] at h; cases h.1⟩
              rw [hpv] at hdl ⊢
              have := decodeLength_le_capacity f d s.len data n k hdl
              exact ⟨by omega, by omega⟩
            · rw [hpb]
              by_cases h0 : s.len = 0
              · left; exact h0
              · right
                have hn : n ≤ s.len := hmax ⟨by rw [hpb]; simp, fun h => h0 h.2⟩
                omega
          obtain ⟨pre, hpre⟩ := (encodeLength_ok_iff _ _ _ (coh_exported hc)).mpr hlen
          refine ⟨pre ++ y, ?_⟩
          unfold track2Data at hy
          unfold packBytes
          rw [hp]
          simp only [hy, hpre]
  | binary =>
    have hv : v = .bin raw := by simp [setBytes, hk] at hsb; exact hsb.symm
    subst hv
    have hks : s.kind ≠ .string := by rw [hk]; simp
    have hvb : s.valueBytes (.bin raw) = .ok raw := by simp [valueBytes, hk]
    rw [pack_of_bytes s _ raw hvb]
    obtain ⟨hacc, hun, hbs⟩ := repack_default s lp data raw r hc hub (enc_ne_hex_of_kind hc hks)
      (packer_default_of_kind hc hks) (fun h => hkf h)
    refine ⟨inDomain_bin_of hk hfit hacc, ?_, hbs⟩
    simp [canon, hun]
  | hex =>
    have hv : v = .hexv (hexEncodeUpper raw) := by simp [setBytes, hk] at hsb; exact hsb.symm
    subst hv
    have hks : s.kind ≠ .string := by rw [hk]; simp
    have hvb : s.valueBytes (.hexv (hexEncodeUpper raw)) = .ok raw := by
      simp [valueBytes, hk, hexDecode_hexEncodeUpper, Res.ofOption]
    rw [pack_of_bytes s _ raw hvb]
    obtain ⟨hacc, hun, hbs⟩ := repack_default s lp data raw r hc hub (enc_ne_hex_of_kind hc hks)
      (packer_default_of_kind hc hks) (fun h => hkf h raw (hexDecode_hexEncodeUpper raw))
    refine ⟨inDomain_hexv_of hk hfit hacc, ?_, hbs⟩
    simp [canon, hexDecode_hexEncodeUpper, hun]
  | numeric =>
    have hks : s.kind ≠ .string := by rw [hk]; simp
    have hd := packer_default_of_kind hc hks
    have hhex := enc_ne_hex_of_kind hc hks
    have hne : s.pref ≠ .fixed .hex := fun h => hhex ((coh_enc hc).2.mpr h)
    -- the number, with what parsing tells about the text
    obtain ⟨i, hv, hrange, hlen, hasc, hnn, hz⟩ : ∃ i, v = .num i ∧ (-(2 ^ 63 : Int) ≤ i ∧ i < 2 ^ 63) ∧
        ((formatInt i).length ≤ raw.length ∨ (formatInt i).length = 1) ∧ (∀ c ∈ raw, c.toNat < 128) ∧
        ((∀ c ∈ raw, isDigit c) → 0 ≤ i) ∧ (raw = [] → i = 0) := by
      simp only [setBytes, hk] at hsb
      cases hr : raw with
      | nil =>
        rw [hr] at hsb
        simp only [Res.ok.injEq] at hsb
        exact ⟨0, hsb.symm, by decide, Or.inr (by rw [formatInt_zero]; rfl), by simp, fun _ => by omega, fun _ => rfl⟩
      | cons c cs =>
        rw [hr] at hsb
        simp only at hsb
        cases hpi : parseInt64? (c :: cs) with
        | none => rw [hpi] at hsb; cases hsb
        | some i =>
          rw [hpi] at hsb
          simp only [Res.ok.injEq] at hsb
          obtain ⟨h1, h2, h3, h4⟩ := parseInt64_sound _ i hpi
          exact ⟨i, hsb.symm, h1, Or.inl h2, h3, h4, fun h => by cases h⟩
    subst hv
    have hvb : s.valueBytes (.num i) = .ok (formatInt i) := by simp [valueBytes, hk]
    rw [pack_of_bytes s _ _ hvb]
    obtain ⟨n, k, hdl, hle, hex, hch, _, _, _⟩ := unpackBytes_facts s lp data raw r hc hub hhex (fun _ => hasc)
    have hvl : s.valueLength n = n := by simp [valueLength, hd]
    rw [hvl] at hle hex
    -- the rendering is made of the encoder's alphabet
    have hfc : ∀ c ∈ formatInt i, s.enc.charB c = true := by
      intro c hcm
      have hch' := formatInt_chars i c hcm
      have hdig : (∀ x ∈ raw, isDigit x) → isDigit c := by
        intro hall
        rcases hch' with ⟨_, hneg⟩ | h
        · have := hnn hall; omega
        · exact h
      cases he : s.enc <;> rw [he] at hch <;> simp only [Enc.charB, isAsciiB, decide_eq_true_eq] at hch ⊢
      case ascii => rcases hch' with ⟨h, _⟩ | h; · rw [h]; decide
                    · unfold isDigit at h; omega
      case ebcdic1047 => rcases hch' with ⟨h, _⟩ | h; · rw [h]; decide
                         · unfold isDigit at h; omega
      case bcd => exact (isDigitB_iff c).mpr (hdig (fun x hx => (isDigitB_iff x).mp (hch x hx)))
      case lbcd => exact (isDigitB_iff c).mpr (hdig (fun x hx => (isDigitB_iff x).mp (hch x hx)))
    have hlok := lenOK_padded s lp hc hd hne (formatInt i) data n k hdl
      (by rcases hlen with h | h
          · left; omega
          · right; exact ⟨hk, h⟩)
      (fun hnone f hpf => by
        obtain ⟨c, hcs⟩ := (coh_numeric_len hc hk).2 f hpf
        rw [hnone] at hcs; cases hcs)
    obtain ⟨hacc, hbs⟩ := packBytes_default_exists s lp hc hd hhex (formatInt i) hfc hlok
    exact ⟨inDomain_num_of hk hrange hacc, rfl, hbs⟩

/-- **`pack ∘ unpack` is idempotent on accepted inputs**: the bytes `bs` obtained by packing
what Unpack returned unpack to the same value, consuming all of `bs` (whatever follows),
and pack to `bs` again -/
theorem prim_repack_fixed_point (s : PrimSpec) (lp : Bool) (data : Bytes) (v : Value) (r : Nat)
    (hc : s.coherent lp = true) (hu : s.unpack data = .ok (v, r)) (hkf : NotKF2 s v)
    (hfit : ValueFits v) :
    ∃ bs, s.pack v = .ok bs ∧
      (∀ tail, (s.pref = .none → tail = []) → s.unpack (bs ++ tail) = .ok (v, bs.length)) ∧
      (∀ v' r', s.unpack bs = .ok (v', r') → s.pack v' = .ok bs) := by
  obtain ⟨hdom, hcan, bs, hp⟩ := prim_unpack_repack s lp data v r hc hu hkf hfit
  refine ⟨bs, hp, ?_, ?_⟩
  · intro tail ht
    have := prim_unpack_pack s lp v tail bs hc hdom hp ht
    rw [hcan] at this; exact this
  · intro v' r' h'
    have := prim_unpack_pack s lp v [] bs hc hdom hp (fun _ => rfl)
    rw [List.append_nil, hcan, h'] at this
    simp only [Res.ok.injEq, Prod.mk.injEq] at this
    rw [this.1]; exact hp

end PrimSpec

/-! ## KF2 witness and non-vacuity -/

namespace PrimExamples
open PrimSpec

/-- String, EBCDIC-1047, ASCII LL prefix, no padder -/
def sKF2 : PrimSpec := { kind := .string, len := 5, enc := .ebcdic1047, pref := .var .ascii 2, pad := .nil }

/-- **KF2**: the wire bytes `"01" 4A` are accepted — `0x4A` is `¢` (U+00A2) in code page 1047,
so the value is the two UTF-8 bytes `C2 A2`. That value is outside the value domain (the
encoder's source alphabet is ASCII), it is not excluded by anything but `NotKF2`, and although
Pack accepts it (`"02" 4A`: the prefix counts the two UTF-8 bytes, one wire byte follows),
the result does not unpack: `pack ∘ unpack` is not idempotent here. -/
theorem kf2_witness :
    sKF2.coherent false = true ∧
    sKF2.unpack [48, 49, 0x4A] = .ok (.str [0xC2, 0xA2], 3) ∧
    ValueFits (.str [0xC2, 0xA2]) ∧ ¬ NotKF2 sKF2 (.str [0xC2, 0xA2]) ∧
    (Field.prim sKF2).inDomain (.str [0xC2, 0xA2]) = false ∧
    sKF2.pack (.str [0xC2, 0xA2]) = .ok [48, 50, 0x4A] ∧
    sKF2.unpack [48, 50, 0x4A] = .err := by
  refine ⟨by decide, by rfl, by simp [ValueFits, maxInt], ?_, by decide +kernel, by decide +kernel, by rfl⟩
  intro h
  have := h rfl 0xC2 (by simp)
  revert this
  decide

/-- the hypotheses of `prim_unpack_repack` are satisfiable: non-canonical numeric text -/
example : sNum.unpack [0x00, 0x07] = .ok (.num 7, 2) := by rfl
example : NotKF2 sNum (.num 7) := fun h => by cases h
example : ValueFits (.num 7) := trivial
example : sNum.pack (.num 7) = .ok [0x00, 0x07] := by decide
/-- … a sign and leading zeros are accepted and re-packed canonically -/
def sNumA : PrimSpec := { kind := .numeric, len := 6, enc := .ascii, pref := .var .ascii 1, pad := .nil }
example : sNumA.coherent false = true := by decide
example : sNumA.unpack [52, 43, 48, 48, 55] = .ok (.num 7, 5) := by rfl
example : sNumA.pack (.num 7) = .ok [49, 55] := by decide
/-- … BCD with an odd length: the leading nibble on the wire is ignored, re-packed as 0 -/
def sBcdOdd : PrimSpec := { kind := .string, len := 3, enc := .bcd, pref := .var .ascii 1, pad := .nil }
example : sBcdOdd.coherent false = true := by decide
example : sBcdOdd.unpack [51, 0x91, 0x23] = .ok (.str [49, 50, 51], 3) := by rfl
example : sBcdOdd.pack (.str [49, 50, 51]) = .ok [51, 0x01, 0x23] := by decide
/-- … Track2: announced odd length, pad character on the wire -/
example : sT2.unpack [48, 51, 0x12, 0x30] = .ok (.str [49, 50, 51], 4) := by rfl
/-- … Track2: the character that evened the length is not the pad character ⇒ rejected -/
example : sT2.unpack [48, 51, 0x12, 0x34] = .err := by rfl
/-- … hexToBytes + Hex.Fixed -/
example : sHexFixed.unpack [0xab, 0x01, 0xFF] = .ok (.str [65, 66, 48, 49], 2) := by rfl
example : sHexFixed.pack (.str [65, 66, 48, 49]) = .ok [0xab, 0x01] := by decide

end PrimExamples

end Iso8583
