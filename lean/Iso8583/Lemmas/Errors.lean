/-
Helper lemmas for the error-rendering model (Model/Errors.lean): `scan` over appended
texts, runs of clean text and of units, and the chain lemma `gen_scan`.
-/
import Iso8583.Model.Errors

namespace Iso8583.Errors

theorem scan_append (B : Nat) (xs ys : List Bool) : ∀ c,
    scan B c (xs ++ ys) = (scan B c xs).bind (fun c' => scan B c' ys) := by
  induction xs with
  | nil => intro c; simp [scan]
  | cons x xs ih =>
    intro c
    cases x with
    | false => simp [scan, ih]
    | true =>
      by_cases h : c + 1 ≤ B
      · simp [scan, h, ih]
      · simp [scan, h]

theorem scan_false (B c n : Nat) :
    scan B c (List.replicate n false) = some (if n = 0 then c else 0) := by
  cases n with
  | zero => simp [scan]
  | succ n =>
    have : ∀ m, scan B 0 (List.replicate m false) = some 0 := by
      intro m
      induction m with
      | zero => simp [scan]
      | succ m ih => simpa [List.replicate_succ, scan] using ih
    simp [List.replicate_succ, scan, this]

theorem scan_true (B n : Nat) : ∀ c, c + n ≤ B →
    scan B c (List.replicate n true) = some (c + n) := by
  induction n with
  | zero => intro c _; simp [scan]
  | succ n ih =>
    intro c h
    have h1 : c + 1 ≤ B := by omega
    have h2 : c + 1 + n ≤ B := by omega
    simp only [List.replicate_succ, scan, h1, if_true, ih (c + 1) h2]
    congr 1
    omega

theorem Bound.lt_some {b : Bound} {k n : Nat} (h : b = some k) (hl : b.lt n = true) : k < n := by
  subst h
  simpa [Bound.lt] using hl

theorem Bound.lt_none {n : Nat} : Bound.lt none n = false := rfl

theorem Bound.max_lt {a b : Bound} {n : Nat} (h : (Bound.max a b).lt n = true) :
    a.lt n = true ∧ b.lt n = true := by
  cases a with
  | none => simp [Bound.max, Bound.lt] at h
  | some x =>
    cases b with
    | none => simp [Bound.max, Bound.lt] at h
    | some y =>
      simp only [Bound.max, Bound.lt, decide_eq_true_eq] at h ⊢
      split at h <;> omega

theorem maxBound_lt {bs : List Bound} {n : Nat} (h : (maxBound bs).lt n = true) :
    ∀ b ∈ bs, b.lt n = true := by
  induction bs with
  | nil => intro b hb; cases hb
  | cons x xs ih =>
    intro b hb
    have := Bound.max_lt (a := x) (b := maxBound xs) h
    rcases List.mem_cons.mp hb with rfl | hb
    · exact this.1
    · exact ih this.2 b hb

/-- the per-site condition, unfolded for a visible site -/
def SiteOK (B : Nat) (s : Site) : Prop :=
  (∀ sg ∈ s.segs, (Seg.direct sg).lt (B + 1) = true) ∧ sepFrom true s.segs = true

theorem siteOK_of_ok {B : Nat} {s : Site} (hv : s.hidden = false) (h : s.ok B = true) : SiteOK B s := by
  simp only [Site.ok, Site.leakBound, Site.sepOK, hv, Bool.false_eq_true, if_false, Bool.false_or,
    Bool.and_eq_true] at h
  refine ⟨?_, h.2⟩
  intro sg hsg
  exact maxBound_lt h.1 _ (List.mem_map_of_mem hsg)

/-- Chain lemma. If every visible site of the table is OK for window `B + 1`, then scanning
the rendering of any chain generated from a suffix `segs` of an OK format, starting with a
run counter `c ≤ B` (which is `0` when the text so far ends in clean text), never sees a run
longer than `B`. -/
theorem gen_scan (tbl : List Site) (B : Nat)
    (hok : ∀ s ∈ tbl, s.hidden = false → SiteOK B s) :
    ∀ {segs ch}, Gen tbl segs ch →
      ∀ (pl : Bool) (c : Nat), sepFrom pl segs = true →
        (∀ sg ∈ segs, (Seg.direct sg).lt (B + 1) = true) → (pl = true → c = 0) → c ≤ B →
        ∃ c', c' ≤ B ∧ scan B c (render ch) = some c' := by
  intro segs ch g
  induction g with
  | nil =>
    intro pl c _ _ _ hc
    exact ⟨c, hc, by simp [render, scan]⟩
  | @lit n t segs rest _ ih =>
    intro pl c hsep hdir hpl hc
    have hdir' : ∀ sg ∈ segs, (Seg.direct sg).lt (B + 1) = true :=
      fun sg h => hdir sg (List.mem_cons_of_mem _ h)
    simp only [render, scan_append, scan_false, Option.bind_some]
    by_cases hn : n = 0
    · simp only [sepFrom, hn, if_true] at hsep
      simpa [hn] using ih pl c hsep hdir' hpl hc
    · simp only [sepFrom, hn, if_false] at hsep
      simpa [hn] using ih true 0 hsep hdir' (fun _ => rfl) (Nat.zero_le _)
  | @clean v cl r segs rest m hb _ ih =>
    intro pl c hsep hdir hpl hc
    have hdir' : ∀ sg ∈ segs, (Seg.direct sg).lt (B + 1) = true :=
      fun sg h => hdir sg (List.mem_cons_of_mem _ h)
    simp only [sepFrom, hb, beq_self_eq_true, if_true] at hsep
    simp only [render, scan_append, scan_false, Option.bind_some]
    by_cases hm : m = 0
    · simpa [hm] using ih pl c hsep hdir' hpl hc
    · simp only [hm, if_false]
      exact ih pl 0 hsep hdir' (fun _ => rfl) (Nat.zero_le _)
  | @data v cl r segs rest k m hb hmk _ ih =>
    intro pl c hsep hdir hpl hc
    have hdir' : ∀ sg ∈ segs, (Seg.direct sg).lt (B + 1) = true :=
      fun sg h => hdir sg (List.mem_cons_of_mem _ h)
    have hk : k < B + 1 := Bound.lt_some (b := cl.bound) hb (by
      have := hdir (.arg v cl r) (List.mem_cons_self ..)
      simpa [Seg.direct] using this)
    by_cases hk0 : k = 0
    · subst hk0
      have hm0 : m = 0 := by omega
      subst hm0
      simp only [sepFrom, hb, beq_self_eq_true, if_true] at hsep
      simpa [render] using ih pl c hsep hdir' hpl hc
    · have hne : (cl.bound == some 0) = false := by
        simp [hb, hk0]
      simp only [sepFrom, hne, Bool.false_eq_true, if_false, Bool.and_eq_true] at hsep
      have hc0 : c = 0 := hpl hsep.1
      subst hc0
      have hmB : 0 + m ≤ B := by omega
      simp only [render, scan_append, scan_true B m 0 hmB, Option.bind_some]
      exact ih false (0 + m) hsep.2 hdir' (by intro h; cases h) hmB
  | @dataU v cl r segs rest m hb _ _ =>
    intro pl c _ hdir _ _
    have := hdir (.arg v cl r) (List.mem_cons_self ..)
    simp [Seg.direct, hb, Bound.lt] at this
  | @wrap v ids ex w segs rest inner s hs hv _ _ ihInner ihRest =>
    intro pl c hsep hdir hpl hc
    have hdir' : ∀ sg ∈ segs, (Seg.direct sg).lt (B + 1) = true :=
      fun sg h => hdir sg (List.mem_cons_of_mem _ h)
    simp only [sepFrom, Bool.and_eq_true] at hsep
    have hc0 : c = 0 := hpl hsep.1
    subst hc0
    have hs' := hok s hs hv
    obtain ⟨c1, hc1, e1⟩ := ihInner true 0 hs'.2 hs'.1 (fun _ => rfl) (Nat.zero_le _)
    simp only [render, scan_append, e1, Option.bind_some]
    exact ihRest false c1 hsep.2 hdir' (by intro h; cases h) hc1
  | @wrapExtra v ids ex w segs rest k m hb hmk _ ih =>
    intro pl c hsep hdir hpl hc
    have hdir' : ∀ sg ∈ segs, (Seg.direct sg).lt (B + 1) = true :=
      fun sg h => hdir sg (List.mem_cons_of_mem _ h)
    have hk : k < B + 1 := Bound.lt_some (b := ex.bound) hb (by
      have := hdir (.wrap v ids ex w) (List.mem_cons_self ..)
      simpa [Seg.direct] using this)
    simp only [sepFrom, Bool.and_eq_true] at hsep
    have hc0 : c = 0 := hpl hsep.1
    subst hc0
    have hmB : 0 + m ≤ B := by omega
    simp only [render, scan_append, scan_true B m 0 hmB, Option.bind_some]
    exact ih false (0 + m) hsep.2 hdir' (by intro h; cases h) hmB

end Iso8583.Errors
