/-
Bitmap layer of C03: the data built by repeated `Bitmap.set` is the characteristic
function of the ids that were set (plus the continuation bits of all blocks but the last).
Bits are addressed by byte index `j` and bit index `b` (0 = most significant): bit number
`8*j + b + 1`.
-/
import Iso8583.Spec.Layout
import Iso8583.Lemmas.LayoutBits
import Iso8583.Lemmas.Layout

namespace Iso8583.Layout
open Iso8583

/-- bit `b` of byte `j` -/
def getBit (data : Bytes) (j b : Nat) : Bool := bitOf (data.getD j 0) b

theorem orAt_length (data : Bytes) (i : Nat) (m : Byte) : (Bitmap.orAt data i m).length = data.length := by
  simp [Bitmap.orAt]

theorem orAt_getD (data : Bytes) (i j : Nat) (m : Byte) (hi : i < data.length) :
    (Bitmap.orAt data i m).getD j 0 = if j = i then data.getD i 0 ||| m else data.getD j 0 := by
  unfold Bitmap.orAt
  simp only [List.getD_eq_getElem?_getD, List.getElem?_set]
  by_cases h : i = j
  · subst h; simp [hi]
  · have h' : ¬ j = i := fun e => h e.symm
    simp [h, h']

theorem beq_congr_iff {a b c d : Nat} (h : a = b ↔ c = d) : (a == b) = (c == d) := by
  by_cases h1 : a = b
  · have h2 := h.mp h1
    rw [beq_iff_eq.mpr h1, beq_iff_eq.mpr h2]
  · have h2 : ¬ c = d := fun e => h1 (h.mpr e)
    rw [beq_eq_false_iff_ne.mpr h1, beq_eq_false_iff_ne.mpr h2]

theorem beq_false_of_ne {a b : Nat} (h : a ≠ b) : (a == b) = false := beq_eq_false_iff_ne.mpr h

theorem mask_eq (n : Nat) : Bitmap.mask n = UInt8.ofNat (2 ^ (7 - (n - 1) % 8)) := rfl

/-- OR-ing the mask of bit number `n` into its byte sets exactly that bit -/
theorem getBit_orAt_mask (data : Bytes) (n j b : Nat) (hn : 1 ≤ n) (hlen : n ≤ data.length * 8) (hb : b < 8) :
    getBit (Bitmap.orAt data ((n - 1) / 8) (Bitmap.mask n)) j b =
      (getBit data j b || (8 * j + b + 1 == n)) := by
  unfold getBit
  rw [orAt_getD _ _ _ _ (by omega), mask_eq]
  by_cases hj : j = (n - 1) / 8
  · rw [if_pos hj, bitOf_or _ _ _ (Nat.mod_lt _ (by omega)) hb, ← hj]
    congr 1
    exact beq_congr_iff (by omega)
  · rw [if_neg hj, beq_false_of_ne (by omega), Bool.or_false]

theorem getBit_beyond (data : Bytes) (j b : Nat) (h : data.length ≤ j) : getBit data j b = false := by
  unfold getBit
  rw [List.getD_eq_getElem?_getD, List.getElem?_eq_none h]
  exact bitOf_zero b

theorem getBit_append_left (x y : Bytes) (j b : Nat) (h : j < x.length) :
    getBit (x ++ y) j b = getBit x j b := by
  unfold getBit
  simp only [List.getD_eq_getElem?_getD, List.getElem?_append_left h]

theorem getBit_append_right (x y : Bytes) (j b : Nat) (h : x.length ≤ j) :
    getBit (x ++ y) j b = getBit y (j - x.length) b := by
  unfold getBit
  simp only [List.getD_eq_getElem?_getD, List.getElem?_append_right h]

theorem getBit_replicate_zero (n j b : Nat) : getBit (List.replicate n 0) j b = false := by
  unfold getBit
  simp only [List.getD_eq_getElem?_getD, List.getElem?_replicate]
  split <;> exact bitOf_zero b

theorem newBlocks_length (bl : Nat) (hbl : 1 ≤ bl) : ∀ c, (Bitmap.newBlocks bl c).length = c * bl := by
  intro c
  induction c with
  | zero => simp [Bitmap.newBlocks]
  | succ c ih =>
    simp only [Bitmap.newBlocks, List.length_append, ih]
    split
    · simp only [List.length_cons, List.length_replicate, Nat.succ_mul]; omega
    · simp only [List.length_replicate, Nat.succ_mul]; omega

theorem firstBitOn_eq : UInt8.ofNat Gen.firstBitOn = UInt8.ofNat (2 ^ (7 - 0)) := by decide

/-- the appended blocks: all zero except the first bit of every block but the last -/
theorem getBit_newBlocks (bl : Nat) (hbl : 1 ≤ bl) : ∀ (c j b : Nat), b < 8 →
    getBit (Bitmap.newBlocks bl c) j b = (b == 0 && j % bl == 0 && decide (j / bl + 1 < c)) := by
  intro c
  induction c with
  | zero =>
    intro j b _
    simp [Bitmap.newBlocks, getBit_beyond]
  | succ c ih =>
    intro j b hb
    simp only [Bitmap.newBlocks]
    by_cases hj : j < bl
    · have hq : j / bl = 0 := Nat.div_eq_of_lt hj
      have hr : j % bl = j := Nat.mod_eq_of_lt hj
      rw [hq, hr]
      by_cases hc : c + 1 > 1
      · rw [if_pos hc, getBit_append_left _ _ _ _ (by simp; omega)]
        cases j with
        | zero =>
          unfold getBit
          simp only [List.getD_cons_zero]
          have : Gen.firstBitOn = 128 := rfl
          rw [this, bitOf_firstBit b hb]
          simp; omega
        | succ j =>
          unfold getBit
          simp only [List.getD_cons_succ]
          have := getBit_replicate_zero (bl - 1) j b
          unfold getBit at this
          rw [this]
          simp
      · rw [if_neg hc, getBit_append_left _ _ _ _ (by simp; omega), getBit_replicate_zero]
        simp; omega
    · have hlen : (if c + 1 > 1 then UInt8.ofNat Gen.firstBitOn :: List.replicate (bl - 1) 0
          else List.replicate bl 0).length = bl := by
        split <;> simp <;> omega
      rw [getBit_append_right _ _ _ _ (by rw [hlen]; omega), hlen, ih (j - bl) b hb]
      obtain ⟨x, rfl⟩ : ∃ x, j = x + bl := ⟨j - bl, by omega⟩
      rw [Nat.add_sub_cancel, Nat.add_mod_right, Nat.add_div_right _ (by omega)]
      congr 1
      simp only [decide_eq_decide]
      omega

/-! ### `Bitmap.set` -/

theorem set_blockLen (bm : Bitmap) (n : Nat) : (bm.set n).blockLen = bm.blockLen := by
  unfold Bitmap.set
  split
  · rfl
  · split
    · split <;> rfl
    · rfl

theorem set_auto (bm : Bitmap) (n : Nat) : (bm.set n).auto = bm.auto := by
  unfold Bitmap.set
  split
  · rfl
  · split
    · split <;> rfl
    · rfl

/-- a bit number inside the current blocks: only that bit changes -/
theorem set_noexpand (bm : Bitmap) (n : Nat) (hn : 1 ≤ n) (hle : n ≤ bm.data.length * 8) :
    (bm.set n).data.length = bm.data.length ∧
    ∀ j b, b < 8 → getBit (bm.set n).data j b = (getBit bm.data j b || (8 * j + b + 1 == n)) := by
  have h0 : ¬ n = 0 := by omega
  have h1 : ¬ n > bm.data.length * 8 := by omega
  unfold Bitmap.set
  simp only [h0, h1, ite_false]
  exact ⟨orAt_length _ _ _, fun j b hb => getBit_orAt_mask _ _ _ _ hn hle hb⟩

/-- a fixed bitmap ignores a bit number it has no room for -/
theorem set_fixed_overflow (bm : Bitmap) (n : Nat) (hgt : n > bm.data.length * 8) (ha : bm.auto = false) :
    bm.set n = bm := by
  have h0 : ¬ n = 0 := by omega
  unfold Bitmap.set
  simp [h0, hgt, ha]

/-- an auto-expanding bitmap grows to the block of bit `n`: the continuation bits of the
old last block and of the new intermediate blocks are set, and bit `n` -/
theorem set_expand (bm : Bitmap) (k n : Nat) (hbl : 1 ≤ bm.blockLen) (hk : 1 ≤ k)
    (hlen : bm.data.length = k * bm.blockLen) (hgt : n > bm.data.length * 8) (ha : bm.auto = true) :
    (bm.set n).data.length = ((n - 1) / (bm.blockLen * 8) + 1) * bm.blockLen ∧
    ∀ j b, b < 8 → getBit (bm.set n).data j b =
      (getBit bm.data j b ||
       (b == 0 && j % bm.blockLen == 0 && decide (k ≤ j / bm.blockLen + 1) &&
          decide (j / bm.blockLen + 1 < (n - 1) / (bm.blockLen * 8) + 1)) ||
       (8 * j + b + 1 == n)) := by
  have h0 : ¬ n = 0 := by omega
  obtain ⟨data, bl, auto⟩ := bm
  simp only at hbl hlen hgt ha ⊢
  subst ha
  unfold Bitmap.set
  simp only [h0, hgt, ite_false, ite_true, Bool.not_true, Bool.false_eq_true]
  -- the number of blocks before and after
  have hdiv : data.length / bl = k := by rw [hlen]; exact Nat.mul_div_cancel _ (by omega)
  have hB : 0 < bl * 8 := by omega
  have hkk : k ≤ (n - 1) / (bl * 8) := by
    rw [Nat.le_div_iff_mul_le hB]
    have : k * (bl * 8) = data.length * 8 := by rw [hlen, Nat.mul_assoc]
    omega
  have hlast : data.length - bl = (k - 1) * bl := by
    rw [hlen, Nat.sub_mul, Nat.one_mul]
  have hlenpos : bl ≤ data.length := by
    rw [hlen]; exact Nat.le_mul_of_pos_left _ (by omega)
  have hlen2 : (Bitmap.orAt data (data.length - bl) (UInt8.ofNat Gen.firstBitOn) ++
      Bitmap.newBlocks bl ((n - 1) / (bl * 8) + 1 - data.length / bl)).length =
      ((n - 1) / (bl * 8) + 1) * bl := by
    rw [List.length_append, orAt_length, newBlocks_length bl hbl, hdiv, hlen, ← Nat.add_mul]
    congr 1; omega
  have hnle : n ≤ ((n - 1) / (bl * 8) + 1) * bl * 8 := by
    have := Nat.lt_div_mul_add (a := n - 1) hB
    rw [Nat.mul_assoc, Nat.add_mul, Nat.one_mul]
    omega
  refine ⟨by rw [orAt_length]; exact hlen2, ?_⟩
  intro j b hb
  rw [getBit_orAt_mask _ _ _ _ (by omega) (by rw [hlen2]; exact hnle) hb]
  congr 1
  by_cases hj : j < data.length
  · -- an old byte
    rw [getBit_append_left _ _ _ _ (by rw [orAt_length]; exact hj)]
    unfold getBit
    rw [orAt_getD _ _ _ _ (by omega)]
    have hqlt : j / bl < k := by
      rw [Nat.div_lt_iff_lt_mul (by omega)]; omega
    by_cases hjl : j = data.length - bl
    · rw [if_pos hjl, firstBitOn_eq, bitOf_or _ _ _ (by omega) hb, ← hjl]
      congr 1
      have hq : j / bl = k - 1 := by rw [hjl, hlast]; exact Nat.mul_div_cancel _ (by omega)
      have hr : j % bl = 0 := by rw [hjl, hlast]; exact Nat.mul_mod_left _ _
      rw [hq, hr]
      have d1 : decide (k ≤ k - 1 + 1) = true := by simp; omega
      have d2 : decide (k - 1 + 1 < (n - 1) / (bl * 8) + 1) = true := by
        rw [decide_eq_true_eq]; omega
      rw [d1, d2]; simp
    · rw [if_neg hjl]
      have : (b == 0 && j % bl == 0 && decide (k ≤ j / bl + 1) &&
          decide (j / bl + 1 < (n - 1) / (bl * 8) + 1)) = false := by
        rw [Bool.eq_false_iff]
        intro hall
        simp only [Bool.and_eq_true, beq_iff_eq, decide_eq_true_eq] at hall
        obtain ⟨⟨⟨_, hr⟩, hq1⟩, _⟩ := hall
        have hq : j / bl = k - 1 := by omega
        have := Nat.div_add_mod j bl
        rw [hq, hr, Nat.add_zero, Nat.mul_comm] at this
        omega
      rw [this, Bool.or_false]
  · -- a new byte
    have hj' : data.length ≤ j := by omega
    rw [getBit_append_right _ _ _ _ (by rw [orAt_length]; exact hj'), orAt_length,
      getBit_newBlocks bl hbl _ _ _ hb, getBit_beyond data j b hj', Bool.false_or, hdiv]
    obtain ⟨x, rfl⟩ : ∃ x, j = x + k * bl := ⟨j - data.length, by omega⟩
    have e1 : x + k * bl - data.length = x := by omega
    rw [e1, Nat.add_mul_mod_self_right, Nat.add_mul_div_right _ _ (by omega)]
    have d1 : decide (k ≤ x / bl + k + 1) = true := by
      rw [decide_eq_true_eq]; generalize x / bl = q; omega
    rw [d1, Bool.and_true]
    congr 1
    simp only [decide_eq_decide]
    have : ∀ q m : Nat, k ≤ m → (q + 1 < m + 1 - k ↔ q + k + 1 < m + 1) := by intros; omega
    exact this _ _ hkk

/-! ### `isSet` -/

theorem isSet_eq_getBit (bm : Bitmap) (n : Nat) (hn : 1 ≤ n) (hle : n ≤ bm.data.length * 8) :
    bm.isSet n = getBit bm.data ((n - 1) / 8) ((n - 1) % 8) := by
  unfold Bitmap.isSet getBit
  have h : ¬ (n = 0 ∨ n > bm.data.length * 8) := by omega
  rw [if_neg h, mask_eq, and_mask _ _ (Nat.mod_lt _ (by omega))]

theorem isSet_beyond (bm : Bitmap) (n : Nat) (h : n > bm.data.length * 8) : bm.isSet n = false := by
  unfold Bitmap.isSet
  rw [if_pos (Or.inr h)]

/-- after `set n` bit `n` reads as set, whenever the bitmap has (or makes) room for it -/
theorem set_isSet_self (bm : Bitmap) (k n : Nat) (hbl : 1 ≤ bm.blockLen) (hk : 1 ≤ k)
    (hlen : bm.data.length = k * bm.blockLen) (hn : 1 ≤ n)
    (h : bm.auto = true ∨ n ≤ bm.data.length * 8) : (bm.set n).isSet n = true := by
  have hcoord : (8 * ((n - 1) / 8) + (n - 1) % 8 + 1 == n) = true := by
    rw [beq_iff_eq]; omega
  by_cases hle : n ≤ bm.data.length * 8
  · obtain ⟨hl, hb⟩ := set_noexpand bm n hn hle
    rw [isSet_eq_getBit _ _ hn (by rw [hl]; exact hle), hb _ _ (Nat.mod_lt _ (by omega)), hcoord, Bool.or_true]
  · have ha : bm.auto = true := by rcases h with h | h; exact h; exact absurd h hle
    obtain ⟨hl, hb⟩ := set_expand bm k n hbl hk hlen (by omega) ha
    have hB : 0 < bm.blockLen * 8 := by omega
    have hnle : n ≤ ((n - 1) / (bm.blockLen * 8) + 1) * bm.blockLen * 8 := by
      have := Nat.lt_div_mul_add (a := n - 1) hB
      rw [Nat.mul_assoc, Nat.add_mul, Nat.one_mul]
      omega
    rw [isSet_eq_getBit _ _ hn (by rw [hl]; exact hnle), hb _ _ (Nat.mod_lt _ (by omega)), hcoord, Bool.or_true]

theorem set_isSet_overflow (bm : Bitmap) (n : Nat) (hgt : n > bm.data.length * 8) (ha : bm.auto = false) :
    (bm.set n).isSet n = false := by
  rw [set_fixed_overflow bm n hgt ha]; exact isSet_beyond bm n hgt

/-! ### the invariant of a bitmap under construction -/

/-- the reference bit function in byte / bit coordinates for `k` blocks of `bl` bytes -/
def specBit (auto : Bool) (bl k : Nat) (ids : List Nat) (j b : Nat) : Bool :=
  ids.contains (8 * j + b + 1) || (auto && (b == 0 && j % bl == 0 && decide (j / bl + 1 < k)))

structure Inv (bm : Bitmap) (ids : List Nat) (k : Nat) : Prop where
  hbl : 1 ≤ bm.blockLen
  hk : 1 ≤ k
  hlen : bm.data.length = k * bm.blockLen
  hids : ∀ i ∈ ids, 1 ≤ i ∧ i ≤ k * bm.blockLen * 8
  hbits : ∀ j b, j < k * bm.blockLen → b < 8 →
    getBit bm.data j b = specBit bm.auto bm.blockLen k ids j b

theorem inv_reset (specLen : Nat) (auto : Bool) : Inv (Bitmap.reset specLen auto) [] 1 := by
  have hbl : 1 ≤ Bitmap.blockLenOf specLen := by
    unfold Bitmap.blockLenOf; split
    · decide
    · omega
  refine ⟨hbl, Nat.le_refl _, by simp [Bitmap.reset], by simp, ?_⟩
  intro j b hj hb
  have hj' : j < Bitmap.blockLenOf specLen := by simpa [Bitmap.reset] using hj
  have hq : j / Bitmap.blockLenOf specLen = 0 := Nat.div_eq_of_lt hj'
  show getBit (List.replicate _ 0) j b = specBit auto (Bitmap.blockLenOf specLen) 1 [] j b
  rw [getBit_replicate_zero]
  unfold specBit
  rw [hq]
  simp

theorem contains_append_singleton (ids : List Nat) (n x : Nat) :
    (ids ++ [n]).contains x = (ids.contains x || x == n) := by
  by_cases hx : x = n
  · subst hx; simp
  · simp [hx]

/-- one `set` keeps the invariant, with the new id recorded and the block count grown -/
theorem inv_set (bm : Bitmap) (ids : List Nat) (k n : Nat) (hinv : Inv bm ids k) (hn : 1 ≤ n)
    (h : bm.auto = true ∨ n ≤ k * bm.blockLen * 8) :
    Inv (bm.set n) (ids ++ [n]) (max k ((n - 1) / (bm.blockLen * 8) + 1)) := by
  obtain ⟨hbl, hk, hlen, hids, hbits⟩ := hinv
  have hB : 0 < bm.blockLen * 8 := by omega
  by_cases hle : n ≤ k * bm.blockLen * 8
  · -- no expansion
    have hk' : (n - 1) / (bm.blockLen * 8) + 1 ≤ k := by
      have : (n - 1) / (bm.blockLen * 8) < k := by
        rw [Nat.div_lt_iff_lt_mul hB, ← Nat.mul_assoc]; omega
      omega
    rw [Nat.max_eq_left hk']
    obtain ⟨hl, hb⟩ := set_noexpand bm n hn (by rw [hlen]; exact hle)
    refine ⟨by rw [set_blockLen]; exact hbl, hk, by rw [hl, set_blockLen]; exact hlen, ?_, ?_⟩
    · intro i hi
      rw [set_blockLen]
      rcases List.mem_append.mp hi with hi | hi
      · exact hids i hi
      · have : i = n := by simpa using hi
        subst this; exact ⟨hn, hle⟩
    · intro j b hj hb'
      rw [set_blockLen] at hj
      rw [hb j b hb', hbits j b hj hb', set_auto, set_blockLen]
      simp only [specBit, contains_append_singleton]
      cases ids.contains (8 * j + b + 1) <;> cases (8 * j + b + 1 == n) <;> simp
  · -- expansion
    have ha : bm.auto = true := by rcases h with h | h; exact h; exact absurd h hle
    have hgt : n > bm.data.length * 8 := by rw [hlen]; omega
    have hkk : k ≤ (n - 1) / (bm.blockLen * 8) := by
      rw [Nat.le_div_iff_mul_le hB, ← Nat.mul_assoc]; omega
    rw [Nat.max_eq_right (by omega)]
    obtain ⟨hl, hb⟩ := set_expand bm k n hbl hk hlen hgt ha
    have hnle : n ≤ ((n - 1) / (bm.blockLen * 8) + 1) * bm.blockLen * 8 := by
      have := Nat.lt_div_mul_add (a := n - 1) hB
      rw [Nat.mul_assoc, Nat.add_mul, Nat.one_mul]
      omega
    have hmono : k * bm.blockLen * 8 ≤ ((n - 1) / (bm.blockLen * 8) + 1) * bm.blockLen * 8 := by
      apply Nat.mul_le_mul_right; apply Nat.mul_le_mul_right; omega
    refine ⟨by rw [set_blockLen]; exact hbl, by omega, by rw [hl, set_blockLen], ?_, ?_⟩
    · intro i hi
      rw [set_blockLen]
      rcases List.mem_append.mp hi with hi | hi
      · have := hids i hi; omega
      · have : i = n := by simpa using hi
        subst this; exact ⟨hn, hnle⟩
    · intro j b hj hb'
      rw [set_blockLen] at hj
      rw [hb j b hb', set_auto, set_blockLen, ha]
      simp only [specBit, contains_append_singleton, Bool.true_and]
      by_cases hjo : j < k * bm.blockLen
      · rw [hbits j b hjo hb', ha]
        simp only [specBit, Bool.true_and]
        have hq : j / bm.blockLen < k := by rw [Nat.div_lt_iff_lt_mul (by omega)]; exact hjo
        generalize j / bm.blockLen = q at hq ⊢
        generalize (n - 1) / (bm.blockLen * 8) = m at hkk ⊢
        have e1 : decide (q + 1 < m + 1) = true := by rw [decide_eq_true_eq]; omega
        have e2 : decide (k ≤ q + 1) = !decide (q + 1 < k) := by
          by_cases hh : q + 1 < k
          · have : ¬ k ≤ q + 1 := by omega
            simp [hh, this]
          · have : k ≤ q + 1 := by omega
            simp [hh, this]
        rw [e1, e2]
        cases ids.contains (8 * j + b + 1) <;> cases (8 * j + b + 1 == n) <;> cases (b == 0) <;>
          cases (j % bm.blockLen == 0) <;> cases decide (q + 1 < k) <;> rfl
      · have hjo' : bm.data.length ≤ j := by rw [hlen]; omega
        rw [getBit_beyond _ _ _ hjo', Bool.false_or]
        have hnot : ids.contains (8 * j + b + 1) = false := by
          rw [List.contains_eq_mem, decide_eq_false_iff_not]
          intro hmem
          have := (hids _ hmem).2
          omega
        rw [hnot, Bool.false_or]
        have hq : k ≤ j / bm.blockLen := by rw [Nat.le_div_iff_mul_le (by omega)]; omega
        have e1 : decide (k ≤ j / bm.blockLen + 1) = true := by rw [decide_eq_true_eq]; omega
        rw [e1, Bool.and_true, Bool.or_comm]

/-! ### a run of `set`s -/

def setAll (ids : List Nat) (bm : Bitmap) : Bitmap := ids.foldl Bitmap.set bm

/-- block count after setting `ids`, starting from `k` blocks -/
def kAfter (bl k : Nat) (ids : List Nat) : Nat :=
  ids.foldl (fun acc n => max acc ((n - 1) / (bl * 8) + 1)) k

theorem setAll_blockLen (ids : List Nat) (bm : Bitmap) : (setAll ids bm).blockLen = bm.blockLen := by
  induction ids generalizing bm with
  | nil => rfl
  | cons n rest ih => simp only [setAll, List.foldl_cons] at ih ⊢; rw [ih, set_blockLen]

theorem setAll_auto (ids : List Nat) (bm : Bitmap) : (setAll ids bm).auto = bm.auto := by
  induction ids generalizing bm with
  | nil => rfl
  | cons n rest ih => simp only [setAll, List.foldl_cons] at ih ⊢; rw [ih, set_auto]

theorem kAfter_ge (bl : Nat) : ∀ (ids : List Nat) (k : Nat), k ≤ kAfter bl k ids := by
  intro ids
  induction ids with
  | nil => intro k; exact Nat.le_refl _
  | cons n rest ih =>
    intro k
    simp only [kAfter, List.foldl_cons] at ih ⊢
    exact Nat.le_trans (Nat.le_max_left _ _) (ih _)

/-- in a fixed bitmap (or whenever everything fits) the block count does not change -/
theorem kAfter_fits (bl k : Nat) (hbl : 1 ≤ bl) (hk : 1 ≤ k) : ∀ (ids : List Nat),
    (∀ n ∈ ids, n ≤ k * bl * 8) → kAfter bl k ids = k := by
  intro ids
  induction ids with
  | nil => intro _; rfl
  | cons n rest ih =>
    intro h
    simp only [kAfter, List.foldl_cons] at ih ⊢
    have hn := h n (by simp)
    have h1 : (n - 1) / (bl * 8) + 1 ≤ k := by
      by_cases h0 : n = 0
      · subst h0; simp; omega
      · have : (n - 1) / (bl * 8) < k := by
          rw [Nat.div_lt_iff_lt_mul (by omega), ← Nat.mul_assoc]; omega
        omega
    rw [Nat.max_eq_left h1]; exact ih (fun m hm => h m (by simp [hm]))

theorem inv_setAll : ∀ (rest done : List Nat) (bm : Bitmap) (k : Nat), Inv bm done k →
    (∀ n ∈ rest, 1 ≤ n) → (bm.auto = true ∨ ∀ n ∈ rest, n ≤ k * bm.blockLen * 8) →
    Inv (setAll rest bm) (done ++ rest) (kAfter bm.blockLen k rest) := by
  intro rest
  induction rest with
  | nil => intro done bm k hinv _ _; simpa [setAll, kAfter] using hinv
  | cons n rest ih =>
    intro done bm k hinv h1 h2
    have hn : 1 ≤ n := h1 n (by simp)
    have hstep := inv_set bm done k n hinv hn (by
      rcases h2 with h2 | h2
      · exact Or.inl h2
      · exact Or.inr (h2 n (by simp)))
    have := ih (done ++ [n]) (bm.set n) _ hstep (fun m hm => h1 m (by simp [hm])) (by
      rw [set_auto, set_blockLen]
      rcases h2 with h2 | h2
      · exact Or.inl h2
      · right
        intro m hm
        have := h2 m (by simp [hm])
        have hmono : k * bm.blockLen * 8 ≤ max k ((n - 1) / (bm.blockLen * 8) + 1) * bm.blockLen * 8 := by
          apply Nat.mul_le_mul_right; apply Nat.mul_le_mul_right; exact Nat.le_max_left _ _
        omega)
    rw [set_blockLen] at this
    simpa [setAll, kAfter, List.append_assoc] using this

/-! ### from the invariant to the reference bytes -/

/-- the reference's continuation-bit condition on bit numbers, in byte / bit coordinates -/
theorem refcond (bl k j b : Nat) (hbl : 1 ≤ bl) (hb : b < 8) :
    ((8 * j + b + 1) % (8 * bl) == 1 && decide ((8 * j + b + 1) + 8 * bl ≤ k * (8 * bl))) =
      (b == 0 && j % bl == 0 && decide (j / bl + 1 < k)) := by
  have hB : 0 < 8 * bl := by omega
  rw [Nat.mod_mul]
  by_cases hb0 : b = 0
  · subst hb0
    have e1 : (8 * j + 0 + 1) % 8 = 1 := by omega
    have e2 : (8 * j + 0 + 1) / 8 = j := by omega
    rw [e1, e2]
    by_cases hr : j % bl = 0
    · rw [hr]
      have hj := Nat.div_add_mod j bl
      rw [hr, Nat.add_zero] at hj
      have hiff : (8 * j + 0 + 1 + 8 * bl ≤ k * (8 * bl)) ↔ (j / bl + 1 < k) := by
        generalize j / bl = q at hj ⊢
        subst hj
        have e3 : 8 * (bl * q) + 0 + 1 + 8 * bl = 8 * bl * (q + 1) + 1 := by
          rw [Nat.mul_add, Nat.mul_one, Nat.mul_assoc]; omega
        rw [e3, Nat.mul_comm k]
        constructor
        · intro h
          have : 8 * bl * (q + 1) < 8 * bl * k := by omega
          exact Nat.lt_of_mul_lt_mul_left this
        · intro h
          have : 8 * bl * (q + 1) < 8 * bl * k := Nat.mul_lt_mul_of_pos_left h hB
          omega
      rw [decide_eq_decide.mpr hiff]
      rfl
    · rw [beq_false_of_ne (a := 1 + 8 * (j % bl)) (by omega), beq_false_of_ne (a := j % bl) hr]
      simp
  · rw [beq_false_of_ne (a := (8 * j + b + 1) % 8 + 8 * ((8 * j + b + 1) / 8 % bl)) (by omega),
      beq_false_of_ne hb0]
    simp

theorem inv_data (bm : Bitmap) (ids : List Nat) (k : Nat) (hinv : Inv bm ids k) :
    bm.data = bitmapBytes k bm.blockLen fun i =>
      ids.contains i || (bm.auto && (i % (8 * bm.blockLen) == 1 &&
        decide (i + 8 * bm.blockLen ≤ k * (8 * bm.blockLen)))) := by
  obtain ⟨hbl, hk, hlen, hids, hbits⟩ := hinv
  apply List.ext_getElem
  · simp [bitmapBytes, hlen]
  · intro j h1 h2
    have hj : j < k * bm.blockLen := by rw [← hlen]; exact h1
    simp only [bitmapBytes, List.getElem_map, List.getElem_range]
    have hget : bm.data[j] = bm.data.getD j 0 := by
      rw [List.getD_eq_getElem?_getD, List.getElem?_eq_getElem h1]; rfl
    rw [hget, byte_eq_byteOfBits (bm.data.getD j 0)]
    apply byteOfBits_congr
    intro b hb
    have := hbits j b hj hb
    unfold getBit at this
    rw [this, specBit, refcond _ _ _ _ hbl hb]

theorem foldl_congr_mem {α β : Type} (f g : β → α → β) : ∀ (l : List α) (a : β),
    (∀ x ∈ l, ∀ b, f b x = g b x) → l.foldl f a = l.foldl g a := by
  intro l
  induction l with
  | nil => intro a _; rfl
  | cons x xs ih =>
    intro a h
    simp only [List.foldl_cons]
    rw [h x (by simp) a]
    exact ih _ (fun y hy => h y (by simp [hy]))

theorem blocksFor_eq_kAfter (bl : Nat) (ids : List Nat) (hbl : 1 ≤ bl) (h : ∀ n ∈ ids, 1 ≤ n) :
    blocksFor (8 * bl) ids = kAfter bl 1 ids := by
  unfold blocksFor kAfter
  apply foldl_congr_mem
  intro n hn acc
  have h1 := h n hn
  congr 1
  rw [Nat.mul_comm bl 8]
  have e : n + 8 * bl - 1 = (n - 1) + 8 * bl := by omega
  rw [e, Nat.add_div_right _ (by omega)]

theorem blockBytes_eq (specLen : Nat) : blockBytes specLen = Bitmap.blockLenOf specLen := rfl

theorem reset_blockLen (specLen : Nat) (auto : Bool) :
    (Bitmap.reset specLen auto).blockLen = Bitmap.blockLenOf specLen := rfl

theorem reset_auto (specLen : Nat) (auto : Bool) : (Bitmap.reset specLen auto).auto = auto := rfl

theorem blockLenOf_pos (specLen : Nat) : 1 ≤ Bitmap.blockLenOf specLen := by
  unfold Bitmap.blockLenOf; split
  · decide
  · omega

theorem bitmapData_auto (specLen : Nat) (ids : List Nat) : bitmapData specLen true ids =
    some (bitmapBytes (blocksFor (8 * Bitmap.blockLenOf specLen) ids) (Bitmap.blockLenOf specLen) fun i =>
      ids.contains i || (i % (8 * Bitmap.blockLenOf specLen) == 1 &&
        decide (i + 8 * Bitmap.blockLenOf specLen ≤
          blocksFor (8 * Bitmap.blockLenOf specLen) ids * (8 * Bitmap.blockLenOf specLen)))) := rfl

theorem bitmapData_fixed (specLen : Nat) (ids : List Nat) : bitmapData specLen false ids =
    if (ids.all fun i => decide (1 ≤ i) && decide (i ≤ 8 * Bitmap.blockLenOf specLen)) = true then
      some (bitmapBytes 1 (Bitmap.blockLenOf specLen) fun i => ids.contains i)
    else none := rfl

/-- all `set`s on a fresh bitmap produce the reference bitmap of the ids -/
theorem setAll_reset_data (specLen : Nat) (auto : Bool) (ids : List Nat) (h1 : ∀ n ∈ ids, 1 ≤ n)
    (hfit : auto = true ∨ ∀ n ∈ ids, n ≤ Bitmap.blockLenOf specLen * 8) :
    bitmapData specLen auto ids = some (setAll ids (Bitmap.reset specLen auto)).data := by
  have hbl := blockLenOf_pos specLen
  have hinv := inv_setAll ids [] (Bitmap.reset specLen auto) 1 (inv_reset specLen auto) h1 (by
    rw [reset_auto, reset_blockLen, Nat.one_mul]; exact hfit)
  rw [reset_blockLen, List.nil_append] at hinv
  have hd := inv_data _ _ _ hinv
  rw [setAll_blockLen, setAll_auto, reset_blockLen, reset_auto] at hd
  rw [hd]
  cases auto with
  | true =>
    rw [bitmapData_auto, blocksFor_eq_kAfter _ _ hbl h1]
    simp only [Bool.true_and]
  | false =>
    have hf : ∀ n ∈ ids, n ≤ Bitmap.blockLenOf specLen * 8 := by
      rcases hfit with h | h
      · cases h
      · exact h
    have hall : (ids.all fun i => decide (1 ≤ i) && decide (i ≤ 8 * Bitmap.blockLenOf specLen)) = true := by
      rw [List.all_eq_true]
      intro n hn
      have := h1 n hn
      have := hf n hn
      simp only [Bool.and_eq_true, decide_eq_true_eq]
      omega
    rw [bitmapData_fixed, if_pos hall,
      kAfter_fits _ _ hbl (Nat.le_refl 1) ids (by rw [Nat.one_mul]; exact hf)]
    simp only [Bool.false_and, Bool.or_false]

/-- a fixed bitmap has no layout for an id outside its single block -/
theorem bitmapData_fixed_none (specLen : Nat) (ids : List Nat)
    (h : ∃ n ∈ ids, ¬ (1 ≤ n ∧ n ≤ Bitmap.blockLenOf specLen * 8)) :
    bitmapData specLen false ids = none := by
  have hall : ¬ (ids.all fun i => decide (1 ≤ i) && decide (i ≤ 8 * Bitmap.blockLenOf specLen)) = true := by
    rw [List.all_eq_true]
    intro hc
    obtain ⟨n, hn, hbad⟩ := h
    have := hc n hn
    simp only [Bool.and_eq_true, decide_eq_true_eq] at this
    omega
  rw [bitmapData_fixed, if_neg hall]

end Iso8583.Layout
