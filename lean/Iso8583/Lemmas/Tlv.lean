/-
Helper lemmas for C09 (TLV composites): association lists (`lookup`, `insertKV`,
`orderBySpec`), the TLV element loop `tlvLoop` run over a list of self-delimiting items,
and the reduction of `Field.unpack` on a tagged composite to that loop.
-/
import Iso8583.Model.Sort
import Iso8583.Spec.Coherent
import Iso8583.Props.C06
import Iso8583.Props.C20

namespace Iso8583.Tlv
open Iso8583

/-! ## association lists -/

theorem lookup_insertKV_self {α : Type} (t : Tag) (v : α) (l : List (Tag × α)) :
    lookup t (insertKV t v l) = some v := by
  induction l with
  | nil => simp [insertKV, lookup]
  | cons p rest ih =>
    obtain ⟨k, w⟩ := p
    by_cases h : k = t
    · simp [insertKV, lookup, h]
    · simp [insertKV, lookup, h, ih]

theorem lookup_insertKV_ne {α : Type} (t u : Tag) (v : α) (l : List (Tag × α)) (h : u ≠ t) :
    lookup t (insertKV u v l) = lookup t l := by
  induction l with
  | nil => simp [insertKV, lookup, h]
  | cons p rest ih =>
    obtain ⟨k, w⟩ := p
    by_cases hk : k = u
    · subst hk; simp [insertKV, lookup, h]
    · by_cases hkt : k = t
      · subst hkt; simp [insertKV, lookup, hk]
      · simp [insertKV, lookup, hk, hkt, ih]

theorem lookup_insertKV {α : Type} (t u : Tag) (v : α) (l : List (Tag × α)) :
    lookup t (insertKV u v l) = if u = t then some v else lookup t l := by
  by_cases h : u = t
  · subst h; simp [lookup_insertKV_self]
  · simp [h, lookup_insertKV_ne t u v l h]

theorem lookup_eq_none_of_not_mem {α : Type} (t : Tag) (l : List (Tag × α))
    (h : t ∉ l.map (·.1)) : lookup t l = none := by
  induction l with
  | nil => rfl
  | cons p rest ih =>
    obtain ⟨k, w⟩ := p
    simp only [List.map_cons, List.mem_cons, not_or] at h
    have : ¬ k = t := fun e => h.1 e.symm
    simp [lookup, this, ih h.2]

theorem lookup_some_mem {α : Type} (t : Tag) (v : α) (l : List (Tag × α))
    (h : lookup t l = some v) : (t, v) ∈ l := by
  induction l with
  | nil => simp [lookup] at h
  | cons p rest ih =>
    obtain ⟨k, w⟩ := p
    by_cases hk : k = t
    · subst hk; simp [lookup] at h; subst h; simp
    · simp [lookup, hk] at h; exact List.mem_cons_of_mem _ (ih h)

/-- with pairwise distinct keys, `lookup` finds exactly the members -/
theorem lookup_of_mem {α : Type} (t : Tag) (v : α) (l : List (Tag × α))
    (hd : (l.map (·.1)).Nodup) (h : (t, v) ∈ l) : lookup t l = some v := by
  induction l with
  | nil => simp at h
  | cons p rest ih =>
    obtain ⟨k, w⟩ := p
    simp only [List.map_cons, List.nodup_cons] at hd
    simp only [List.mem_cons, Prod.mk.injEq] at h
    rcases h with ⟨rfl, rfl⟩ | h
    · simp [lookup]
    · have : k ≠ t := by
        intro e; subst e
        exact hd.1 (List.mem_map.mpr ⟨(k, v), h, rfl⟩)
      simp [lookup, this, ih hd.2 h]

/-- the value map built by successive inserts (later inserts of a key win) -/
def insertAll {α : Type} (acc : List (Tag × α)) (es : List (Tag × α)) : List (Tag × α) :=
  es.foldl (fun a e => insertKV e.1 e.2 a) acc

theorem lookup_insertAll {α : Type} (t : Tag) (es : List (Tag × α)) :
    ∀ acc : List (Tag × α), (es.map (·.1)).Nodup →
      lookup t (insertAll acc es) = (match lookup t es with | some v => some v | none => lookup t acc) := by
  induction es with
  | nil => intro acc _; simp [insertAll, lookup]
  | cons e rest ih =>
    intro acc hd
    obtain ⟨k, w⟩ := e
    simp only [List.map_cons, List.nodup_cons] at hd
    have := ih (insertKV k w acc) hd.2
    simp only [insertAll, List.foldl_cons] at this ⊢
    rw [this, lookup_insertKV]
    by_cases hk : k = t
    · subst hk
      rw [lookup_eq_none_of_not_mem k rest hd.1]
      simp [lookup]
    · simp [lookup, hk]

/-- distinct keys: two permutations of an association list have the same `lookup` -/
theorem lookup_perm {α : Type} (t : Tag) (l l' : List (Tag × α)) (hp : l.Perm l')
    (hd : (l.map (·.1)).Nodup) : lookup t l = lookup t l' := by
  have hd' : (l'.map (·.1)).Nodup := (hp.map (·.1)).nodup_iff.mp hd
  cases h : lookup t l with
  | some v =>
    have := lookup_some_mem t v l h
    exact (lookup_of_mem t v l' hd' (hp.mem_iff.mp this)).symm
  | none =>
    cases h' : lookup t l' with
    | none => rfl
    | some v =>
      have := lookup_some_mem t v l' h'
      rw [lookup_of_mem t v l hd (hp.mem_iff.mpr this)] at h
      cases h

/-- inserting the same distinct-key entries in any order gives the same map -/
theorem lookup_insertAll_perm {α : Type} (t : Tag) (es es' : List (Tag × α)) (acc : List (Tag × α))
    (hp : es.Perm es') (hd : (es.map (·.1)).Nodup) :
    lookup t (insertAll acc es) = lookup t (insertAll acc es') := by
  have hd' : (es'.map (·.1)).Nodup := (hp.map (·.1)).nodup_iff.mp hd
  rw [lookup_insertAll t es acc hd, lookup_insertAll t es' acc hd', lookup_perm t es es' hp hd]

/-- `orderBySpec` depends on the value list only through `lookup` -/
theorem orderBySpec_congr {α β : Type} (subs : List (Tag × α)) (vals vals' : List (Tag × β))
    (h : ∀ p ∈ subs, lookup p.1 vals = lookup p.1 vals') :
    orderBySpec subs vals = orderBySpec subs vals' := by
  induction subs with
  | nil => rfl
  | cons p rest ih =>
    obtain ⟨t, f⟩ := p
    have h1 := h (t, f) (by simp)
    simp only at h1
    have h2 := ih (fun q hq => h q (List.mem_cons_of_mem _ hq))
    simp only [orderBySpec, h1, h2]

theorem lookupField_eq (subs : List (Tag × Field)) (t : Tag) :
    lookupField subs t = (lookup t subs).isSome := by
  induction subs with
  | nil => rfl
  | cons p rest ih =>
    obtain ⟨k, f⟩ := p
    by_cases h : k = t <;> simp [lookupField, lookup, h, ih]

theorem unpackTagged_eq (subs : List (Tag × Field)) (t : Tag) (f : Field) (d : Bytes)
    (h : lookup t subs = some f) : unpackTagged subs t d = f.unpack d := by
  induction subs with
  | nil => simp [lookup] at h
  | cons p rest ih =>
    obtain ⟨k, g⟩ := p
    by_cases hk : k = t
    · simp [lookup, hk] at h; subst h; simp [unpackTagged, hk]
    · simp [lookup, hk] at h; simp [unpackTagged, hk, ih h]

theorem allDistinct_nodup {α : Type} [DecidableEq α] (l : List α) (h : allDistinct l = true) : l.Nodup := by
  induction l with
  | nil => exact List.nodup_nil
  | cons x xs ih =>
    simp only [allDistinct, Bool.and_eq_true, Bool.not_eq_true', List.contains_eq_mem,
      decide_eq_false_iff_not] at h
    exact List.nodup_cons.mpr ⟨h.1, ih h.2⟩

/-! ## the TLV element loop over a list of self-delimiting items -/

/-- the length prefixer / maximum used to skip an unknown element -/
def skipPref (t : TagSpec) : Pref := match t.prefUnknown with | some p => p | none => .berTLV
def skipMax (t : TagSpec) : Nat := match t.prefUnknown with | some _ => maxInt | none => 0

/-- unknown-tag skipping is in force (`skipUnknownTLVTags()` in field/composite.go) -/
def skipOn (t : TagSpec) (isBer : Bool) : Bool := t.skipUnknown && (isBer || t.prefUnknown.isSome)

/-- `tb` are wire bytes that the tag decoder reads completely — whatever follows — and that
unpad to `tag` -/
def TagDecodes (t : TagSpec) (enc : Enc) (tag : Tag) (tb : Bytes) : Prop :=
  1 ≤ tb.length ∧
  ∀ tail, ∃ raw, Enc.decode enc (tb ++ tail) t.len = .ok (raw, tb.length) ∧ t.pad.unpad raw = tag

/-- an item of a TLV body: a known element (tag bytes, packed subfield, the value it
unpacks to) or an unknown element that is skipped (tag bytes, length prefix, value bytes) -/
inductive Item where
  | known (tag : Tag) (tb pk : Bytes) (cv : Value)
  | skip (tag : Tag) (tb lp vb : Bytes)

def Item.wire : Item → Bytes
  | .known _ tb pk _ => tb ++ pk
  | .skip _ tb lp vb => tb ++ (lp ++ vb)

def wireOf : List Item → Bytes
  | [] => []
  | i :: rest => i.wire ++ wireOf rest

def Item.apply (acc : List (Tag × Value)) : Item → List (Tag × Value)
  | .known tag _ _ cv => insertKV tag cv acc
  | .skip _ _ _ _ => acc

def Item.OK (t : TagSpec) (enc : Enc) (isBer : Bool) (known : Tag → Bool)
    (dispatch : Tag → Bytes → UR (Value × Nat)) : Item → Prop
  | .known tag tb pk cv =>
    TagDecodes t enc tag tb ∧ known tag = true ∧ ∀ tail, dispatch tag (pk ++ tail) = .ok (cv, pk.length)
  | .skip tag tb lp vb =>
    TagDecodes t enc tag tb ∧ known tag = false ∧ skipOn t isBer = true ∧
    ∀ tail, (skipPref t).decodeLength (skipMax t) (lp ++ tail) = .ok (vb.length, lp.length)

theorem wireOf_append (a b : List Item) : wireOf (a ++ b) = wireOf a ++ wireOf b := by
  induction a with
  | nil => rfl
  | cons i rest ih => simp [wireOf, ih]

theorem wire_pos {t enc isBer known dispatch} (i : Item) (h : i.OK t enc isBer known dispatch) :
    1 ≤ i.wire.length := by
  cases i with
  | known tag tb pk cv => have := h.1.1; simp [Item.wire]; omega
  | skip tag tb lp vb => have := h.1.1; simp [Item.wire]; omega

theorem length_le_wireOf {t enc isBer known dispatch} (items : List Item)
    (h : ∀ i ∈ items, i.OK t enc isBer known dispatch) : items.length ≤ (wireOf items).length := by
  induction items with
  | nil => simp [wireOf]
  | cons i rest ih =>
    have h1 := wire_pos i (h i (by simp))
    have h2 := ih (fun j hj => h j (List.mem_cons_of_mem _ hj))
    simp [wireOf]; omega

theorem drop_add_of_drop_eq {data : Bytes} {offset : Nat} {a b : Bytes}
    (h : data.drop offset = a ++ b) : data.drop (offset + a.length) = b := by
  rw [← List.drop_drop, h, List.drop_left']
  rfl

theorem length_of_drop_eq {data : Bytes} {offset : Nat} {w : Bytes}
    (h : data.drop offset = w) (hw : 1 ≤ w.length) : offset + w.length = data.length := by
  have := congrArg List.length h
  simp at this; omega

/-- one iteration on a known element -/
theorem tlvLoop_known_step (t : TagSpec) (enc : Enc) (isBer : Bool) (known : Tag → Bool)
    (dispatch : Tag → Bytes → UR (Value × Nat)) (fuel : Nat) (data : Bytes) (offset : Nat)
    (acc : List (Tag × Value)) (tag : Tag) (tb pk rest : Bytes) (cv : Value)
    (hd : data.drop offset = tb ++ (pk ++ rest))
    (hok : (Item.known tag tb pk cv).OK t enc isBer known dispatch) :
    tlvLoop t enc isBer known dispatch (fuel + 1) data offset acc =
      tlvLoop t enc isBer known dispatch fuel data (offset + tb.length + pk.length) (insertKV tag cv acc) := by
  obtain ⟨⟨hpos, hdec⟩, hk, hdisp⟩ := hok
  obtain ⟨raw, hraw, hun⟩ := hdec (pk ++ rest)
  have hlen : offset + (tb ++ (pk ++ rest)).length = data.length :=
    length_of_drop_eq hd (by simp; omega)
  simp only [List.length_append] at hlen
  have h1 : ¬ offset ≥ data.length := by omega
  have h2 : ¬ offset + tb.length > data.length := by omega
  have hd2 : data.drop (offset + tb.length) = pk ++ rest := drop_add_of_drop_eq hd
  -- the tag occupies at least one byte: the "no data consumed" branch is dead
  have h4 : ¬ (tb.length = 0 ∧ pk.length = 0) := by omega
  rw [tlvLoop]
  simp only [h1, if_false, hd, hraw, hun, hk, Bool.not_true, Bool.false_eq_true, h2, hd2, hdisp rest, h4]

/-- one iteration on a skipped unknown element -/
theorem tlvLoop_skip_step (t : TagSpec) (enc : Enc) (isBer : Bool) (known : Tag → Bool)
    (dispatch : Tag → Bytes → UR (Value × Nat)) (fuel : Nat) (data : Bytes) (offset : Nat)
    (acc : List (Tag × Value)) (tag : Tag) (tb lp vb rest : Bytes)
    (hd : data.drop offset = tb ++ ((lp ++ vb) ++ rest))
    (hok : (Item.skip tag tb lp vb).OK t enc isBer known dispatch) :
    tlvLoop t enc isBer known dispatch (fuel + 1) data offset acc =
      tlvLoop t enc isBer known dispatch fuel data (offset + tb.length + (lp.length + vb.length)) acc := by
  obtain ⟨⟨hpos, hdec⟩, hk, hskip, hlp⟩ := hok
  obtain ⟨raw, hraw, hun⟩ := hdec ((lp ++ vb) ++ rest)
  have hlen : offset + (tb ++ ((lp ++ vb) ++ rest)).length = data.length :=
    length_of_drop_eq hd (by simp; omega)
  simp only [List.length_append] at hlen
  have h1 : ¬ offset ≥ data.length := by omega
  have h2 : ¬ offset + tb.length > data.length := by omega
  have hd2 : data.drop (offset + tb.length) = lp ++ (vb ++ rest) := by
    rw [drop_add_of_drop_eq hd, List.append_assoc]
  have h3 : ¬ (vb.length > data.length - (offset + tb.length) - lp.length ∨
      offset + tb.length + lp.length > data.length) := by omega
  have hskip' : (t.skipUnknown && (isBer || t.prefUnknown.isSome)) = true := hskip
  have hl := hlp (vb ++ rest)
  rw [tlvLoop]
  simp only [h1, if_false, hd, hraw, hun, hk, Bool.not_false, if_true, hskip', h2]
  cases hp : t.prefUnknown with
  | none =>
    simp only [skipPref, skipMax, hp] at hl
    simp only [hd2, hl, h3, if_false]
    congr 1; omega
  | some p =>
    simp only [skipPref, skipMax, hp] at hl
    simp only [hd2, hl, h3, if_false]
    congr 1; omega

/-- **running through a list of well-formed items**: the loop arrives, with the remaining
fuel, exactly behind the last item, having inserted the known elements' values and nothing else -/
theorem tlvLoop_prefix (t : TagSpec) (enc : Enc) (isBer : Bool) (known : Tag → Bool)
    (dispatch : Tag → Bytes → UR (Value × Nat)) (items : List Item)
    (hok : ∀ i ∈ items, i.OK t enc isBer known dispatch) :
    ∀ (data : Bytes) (offset : Nat) (acc : List (Tag × Value)) (fuel : Nat) (rest : Bytes),
      data.drop offset = wireOf items ++ rest →
      tlvLoop t enc isBer known dispatch (items.length + fuel) data offset acc =
        tlvLoop t enc isBer known dispatch fuel data (offset + (wireOf items).length)
          (items.foldl Item.apply acc) := by
  induction items with
  | nil => intro data offset acc fuel rest _; simp [wireOf]
  | cons i more ih =>
    intro data offset acc fuel rest hd
    have hi := hok i (by simp)
    have hmore := fun j hj => hok j (List.mem_cons_of_mem _ hj)
    have e : (i :: more).length + fuel = (more.length + fuel) + 1 := by simp; omega
    rw [e]
    cases i with
    | known tag tb pk cv =>
      have hd' : data.drop offset = tb ++ (pk ++ (wireOf more ++ rest)) := by
        rw [hd]; simp [wireOf, Item.wire]
      rw [tlvLoop_known_step t enc isBer known dispatch _ data offset acc tag tb pk _ cv hd' hi]
      have hd2 : data.drop (offset + tb.length + pk.length) = wireOf more ++ rest := by
        have := drop_add_of_drop_eq (drop_add_of_drop_eq hd' ▸ rfl : data.drop (offset + tb.length) = pk ++ (wireOf more ++ rest))
        exact this
      rw [ih hmore data _ _ fuel rest hd2]
      simp only [wireOf, Item.wire, List.length_append, List.foldl_cons, Item.apply]
      congr 1; omega
    | skip tag tb lp vb =>
      have hd' : data.drop offset = tb ++ ((lp ++ vb) ++ (wireOf more ++ rest)) := by
        rw [hd]; simp [wireOf, Item.wire]
      rw [tlvLoop_skip_step t enc isBer known dispatch _ data offset acc tag tb lp vb _ hd' hi]
      have hd2 : data.drop (offset + tb.length + (lp.length + vb.length)) = wireOf more ++ rest := by
        have h1 : data.drop (offset + tb.length) = (lp ++ vb) ++ (wireOf more ++ rest) := drop_add_of_drop_eq hd'
        have h2 := drop_add_of_drop_eq h1
        simpa using h2
      rw [ih hmore data _ _ fuel rest hd2]
      simp only [wireOf, Item.wire, List.length_append, List.foldl_cons, Item.apply]
      congr 1; omega

/-- the loop stops at the end of the data -/
theorem tlvLoop_end (t : TagSpec) (enc : Enc) (isBer : Bool) (known : Tag → Bool)
    (dispatch : Tag → Bytes → UR (Value × Nat)) (fuel : Nat) (data : Bytes) (offset : Nat)
    (acc : List (Tag × Value)) (h : data.length ≤ offset) :
    tlvLoop t enc isBer known dispatch (fuel + 1) data offset acc = .ok (acc, offset) := by
  rw [tlvLoop]; simp [h]

/-- **a body made of well-formed items only** is consumed exactly, with the fuel that
`Field.unpack` supplies; skipped items leave no trace -/
theorem tlvLoop_items (t : TagSpec) (enc : Enc) (isBer : Bool) (known : Tag → Bool)
    (dispatch : Tag → Bytes → UR (Value × Nat)) (items : List Item)
    (hok : ∀ i ∈ items, i.OK t enc isBer known dispatch) (acc : List (Tag × Value)) :
    tlvLoop t enc isBer known dispatch ((wireOf items).length + 1) (wireOf items) 0 acc =
      .ok (items.foldl Item.apply acc, (wireOf items).length) := by
  have hle := length_le_wireOf items hok
  have e : (wireOf items).length + 1 = items.length + (((wireOf items).length - items.length) + 1) := by omega
  rw [e, tlvLoop_prefix t enc isBer known dispatch items hok (wireOf items) 0 acc _ [] (by simp)]
  rw [tlvLoop_end _ _ _ _ _ _ _ _ _ (by omega)]
  simp

/-- skipping disabled: after any run of well-formed items, an unknown tag is an error that
names exactly that tag -/
theorem tlvLoop_unknown_err (t : TagSpec) (enc : Enc) (isBer : Bool) (known : Tag → Bool)
    (dispatch : Tag → Bytes → UR (Value × Nat)) (fuel : Nat) (data : Bytes) (offset : Nat)
    (acc : List (Tag × Value)) (tag : Tag) (tb rest : Bytes)
    (hd : data.drop offset = tb ++ rest) (hdec : TagDecodes t enc tag tb)
    (hk : known tag = false) (hoff : skipOn t isBer = false) :
    tlvLoop t enc isBer known dispatch (fuel + 1) data offset acc = .err [tag] := by
  obtain ⟨hpos, hdec⟩ := hdec
  obtain ⟨raw, hraw, hun⟩ := hdec rest
  have hlen : offset + (tb ++ rest).length = data.length := length_of_drop_eq hd (by simp; omega)
  simp only [List.length_append] at hlen
  have h1 : ¬ offset ≥ data.length := by omega
  have hoff' : (t.skipUnknown && (isBer || t.prefUnknown.isSome)) = false := hoff
  rw [tlvLoop]
  simp [h1, hd, hraw, hun, hk, hoff']

/-- skipping enabled: an unknown element whose announced length exceeds the bytes that
remain in the composite is an error naming the tag (never accepted, never a panic) -/
theorem tlvLoop_overrun_err (t : TagSpec) (enc : Enc) (isBer : Bool) (known : Tag → Bool)
    (dispatch : Tag → Bytes → UR (Value × Nat)) (fuel : Nat) (data : Bytes) (offset : Nat)
    (acc : List (Tag × Value)) (tag : Tag) (tb lp rest : Bytes) (k : Nat)
    (hd : data.drop offset = tb ++ (lp ++ rest)) (hdec : TagDecodes t enc tag tb)
    (hk : known tag = false) (hon : skipOn t isBer = true)
    (hlp : (skipPref t).decodeLength (skipMax t) (lp ++ rest) = .ok (k, lp.length))
    (hover : rest.length < k) :
    tlvLoop t enc isBer known dispatch (fuel + 1) data offset acc = .err [tag] := by
  obtain ⟨hpos, hdec⟩ := hdec
  obtain ⟨raw, hraw, hun⟩ := hdec (lp ++ rest)
  have hlen : offset + (tb ++ (lp ++ rest)).length = data.length := length_of_drop_eq hd (by simp; omega)
  simp only [List.length_append] at hlen
  have h1 : ¬ offset ≥ data.length := by omega
  have h2 : ¬ offset + tb.length > data.length := by omega
  have hd2 : data.drop (offset + tb.length) = lp ++ rest := drop_add_of_drop_eq hd
  have h3 : (k > data.length - (offset + tb.length) - lp.length ∨
      offset + tb.length + lp.length > data.length) := by left; omega
  have hon' : (t.skipUnknown && (isBer || t.prefUnknown.isSome)) = true := hon
  rw [tlvLoop]
  simp only [h1, if_false, hd, hraw, hun, hk, Bool.not_false, if_true, hon', h2]
  cases hp : t.prefUnknown with
  | none =>
    simp only [skipPref, skipMax, hp] at hlp
    simp only [hd2, hlp, h3, if_true]
  | some p =>
    simp only [skipPref, skipMax, hp] at hlp
    simp only [hd2, hlp, h3, if_true]

/-! ## `Field.unpack` on a tagged composite = length prefix, then the loop on the body -/

/-- what `Composite.Unpack` makes of the loop's result on a body of the announced length -/
def finish (subs : List (Tag × Field)) (preLen bodyLen : Nat) :
    UR (List (Tag × Value) × Nat) → UR (Value × Nat)
  | .err p => .err p
  | .panic => .panic
  | .ok (vals, read) =>
    if bodyLen ≠ read then .err [] else .ok (.comp (orderBySpec subs vals), preLen + read)

theorem unpack_tagged_eq (s : CompSpec) (subs : List (Tag × Field)) (t : TagSpec) (enc : Enc)
    (hm : s.mode = .tagged t) (he : t.enc = some enc) (pre body tail : Bytes)
    (hpre : s.pref.decodeLength s.len (pre ++ (body ++ tail)) = .ok (body.length, pre.length)) :
    Field.unpack (.comp s subs) (pre ++ (body ++ tail)) =
      finish subs pre.length body.length
        (tlvLoop t enc (enc == Enc.berTag) (lookupField subs) (fun tag d => unpackTagged subs tag d)
          (body.length + 1) body 0 []) := by
  have h1 : ¬ pre.length > (pre ++ (body ++ tail)).length := by simp
  have h2 : ¬ body.length > (pre ++ (body ++ tail)).length - pre.length := by simp
  have hb : ((pre ++ (body ++ tail)).drop pre.length).take body.length = body := by
    rw [List.drop_left' rfl, List.take_left' rfl]
  rw [Field.unpack]
  simp only [hpre, h1, h2, if_false, hb, hm, he]
  cases tlvLoop t enc (enc == Enc.berTag) (lookupField subs) (fun tag d => unpackTagged subs tag d)
      (body.length + 1) body 0 [] with
  | err p => rfl
  | panic => rfl
  | ok r => obtain ⟨vals, read⟩ := r; rfl

/-! ## K5: a coherent tag survives pad → encode → decode → unpad -/

theorem validBerTag_of_bool (bs : Bytes) (h : validBerTagB bs = true) : C07.ValidBerTag bs := by
  match bs, h with
  | [x], h =>
    left; exact ⟨x, rfl, by simpa [validBerTagB] using h⟩
  | x :: y :: rest, h =>
    right
    simp only [validBerTagB, Bool.and_eq_true, decide_eq_true_eq] at h
    obtain ⟨hx, h2⟩ := h
    cases hr : (y :: rest).reverse with
    | nil => simp at hr
    | cons last midRev =>
      rw [hr] at h2
      simp only [Bool.and_eq_true, decide_eq_true_eq, List.all_eq_true] at h2
      have e : y :: rest = midRev.reverse ++ [last] := by
        have := congrArg List.reverse hr
        simpa using this
      refine ⟨x, midRev.reverse, last, by rw [e], hx, ?_, h2.1⟩
      intro m hm
      exact h2.2 m (List.mem_reverse.mp hm)

theorem upperHex_of_upper (c : Byte) (h : isUpperHexB c = true) : upperHex c = c := by
  simp only [isUpperHexB, decide_eq_true_eq] at h
  unfold upperHex
  split
  · omega
  · rfl

theorem map_upperHex_of_upper (x : Bytes) (h : x.all isUpperHexB = true) : x.map upperHex = x := by
  induction x with
  | nil => rfl
  | cons c cs ih =>
    simp only [List.all_cons, Bool.and_eq_true] at h
    simp [upperHex_of_upper c h.1, ih h.2]

theorem isHexChar_of_upperB (c : Byte) (h : isUpperHexB c = true) : isHexChar c := by
  simp only [isUpperHexB, decide_eq_true_eq] at h
  unfold isHexChar; omega

theorem pad_of_no_char (p : Pad) (h : p.char?.isNone = true) (v : Bytes) (n : Nat) :
    p.pad v n = v ∧ p.unpad v = v := by
  cases p <;> simp_all [Pad.char?, Pad.pad, Pad.unpad]

/-- **K5** (`TagSpec.tagOK`): the padded tag encodes, the decoder reads exactly those bytes
back whatever follows, and unpadding returns the tag -/
theorem tag_roundtrip (t : TagSpec) (enc : Enc) (tag : Tag) (he : t.enc = some enc)
    (hok : t.tagOK tag = true) :
    ∃ tb, encodeTag t enc tag = .ok tb ∧ TagDecodes t enc tag tb := by
  have hne : tag ≠ [] := by
    intro e; subst e; simp [TagSpec.tagOK] at hok
  have hlen1 : 1 ≤ tag.length := by
    cases tag with
    | nil => exact absurd rfl hne
    | cons _ _ => simp
  simp only [TagSpec.tagOK, he, Bool.and_eq_true] at hok
  obtain ⟨_, hok⟩ := hok
  cases enc with
  | berTag =>
    simp only [Bool.and_eq_true, decide_eq_true_eq] at hok
    obtain ⟨⟨⟨hup, hev⟩, hpad⟩, hval⟩ := hok
    cases hd : Enc.hexDecode tag with
    | none => simp [hd] at hval
    | some bs =>
      simp only [hd] at hval
      have hv := validBerTag_of_bool bs hval
      have hp := pad_of_no_char t.pad hpad
      refine ⟨bs, by simp [encodeTag, (hp tag t.len).1, Enc.encode, hd, Res.ofOption], ?_, ?_⟩
      · rcases hv with ⟨x, rfl, _⟩ | ⟨x, mid, last, rfl, _⟩ <;> simp
      · intro tail
        refine ⟨Enc.hexEncodeUpper bs, C07.berTag_decode_valid bs tail t.len hv, ?_⟩
        rw [(hp _ 0).2, hexEncodeUpper_hexDecode tag bs hd, map_upperHex_of_upper tag hup]
  | hexToBytes =>
    simp only [Bool.and_eq_true, decide_eq_true_eq] at hok
    obtain ⟨⟨hup, hl⟩, hpad⟩ := hok
    have hp := pad_of_no_char t.pad hpad
    have hhex : ∀ c ∈ tag, isHexChar c := fun c hc =>
      isHexChar_of_upperB c (List.all_eq_true.mp hup c hc)
    obtain ⟨y, hy⟩ := hexDecode_of_hexChars tag (by omega) hhex
    have hyl := hexDecode_length tag y hy
    refine ⟨y, by simp [encodeTag, (hp tag t.len).1, Enc.encode, hy, Res.ofOption], by omega, ?_⟩
    intro tail
    have hyt : y.length = t.len := by omega
    refine ⟨Enc.hexEncodeUpper y, ?_, ?_⟩
    · simp [Enc.decodeNat, ← hyt]
    · rw [(hp _ 0).2, hexEncodeUpper_hexDecode tag y hy, map_upperHex_of_upper tag hup]
  | ascii =>
    simp only [Bool.and_eq_true, decide_eq_true_eq, beq_iff_eq] at hok
    obtain ⟨⟨⟨hacc, hl⟩, hun⟩, _⟩ := hok
    have hasc : ∀ c ∈ t.pad.pad tag t.len, isAscii c := by
      intro c hc
      have := List.all_eq_true.mp hacc c hc
      simpa [isAsciiB, isAscii] using this
    obtain ⟨h1, h2⟩ := C07.ascii_decode_encode (t.pad.pad tag t.len) [] hasc
    have hge := C20.pad_no_truncation t.pad tag t.len
    refine ⟨t.pad.pad tag t.len, by simpa [encodeTag] using h1, by omega, ?_⟩
    intro tail
    have := (C07.ascii_decode_encode (t.pad.pad tag t.len) tail hasc).2
    rw [hl] at this
    refine ⟨_, ?_, hun⟩
    rw [hl]; exact this
  | ebcdic =>
    simp only [Bool.and_eq_true, decide_eq_true_eq, beq_iff_eq] at hok
    obtain ⟨⟨⟨_, hl⟩, hun⟩, _⟩ := hok
    have hge := C20.pad_no_truncation t.pad tag t.len
    obtain ⟨y, h1, h2, _⟩ := C07.ebcdic_decode_encode (t.pad.pad tag t.len) []
    refine ⟨y, by simpa [encodeTag] using h1, by omega, ?_⟩
    intro tail
    obtain ⟨y', h1', _, h3'⟩ := C07.ebcdic_decode_encode (t.pad.pad tag t.len) tail
    have : y' = y := by rw [h1] at h1'; cases h1'; rfl
    subst this
    rw [hl] at h3'
    exact ⟨_, h3', hun⟩
  | bcd =>
    simp only [Bool.and_eq_true, decide_eq_true_eq, beq_iff_eq] at hok
    obtain ⟨⟨⟨hacc, hl⟩, hun⟩, _⟩ := hok
    have hdig : ∀ c ∈ t.pad.pad tag t.len, isDigit c := by
      intro c hc
      have := List.all_eq_true.mp hacc c hc
      simpa [isDigitB, isDigit] using this
    have hge := C20.pad_no_truncation t.pad tag t.len
    obtain ⟨y, h1, h2, _⟩ := C07.bcd_decode_encode (t.pad.pad tag t.len) [] hdig
    refine ⟨y, by simpa [encodeTag] using h1, by omega, ?_⟩
    intro tail
    obtain ⟨y', h1', _, h3'⟩ := C07.bcd_decode_encode (t.pad.pad tag t.len) tail hdig
    have : y' = y := by rw [h1] at h1'; cases h1'; rfl
    subst this
    rw [hl] at h3'
    exact ⟨_, h3', hun⟩
  | ebcdic1047 => simp at hok
  | binary => simp at hok
  | lbcd => simp at hok
  | bytesToHex => simp at hok

/-! ## elements of a packed tagged composite -/

/-- one TLV element: tag, subfield spec and value, encoded tag, packed value -/
structure Elem where
  tag : Tag
  f : Field
  v : Value
  tb : Bytes
  pk : Bytes

def Elem.wire (e : Elem) : Bytes := e.tb ++ e.pk

/-- the body: the elements' wire forms one after the other -/
def elemsWire : List Elem → Bytes
  | [] => []
  | e :: rest => e.wire ++ elemsWire rest

def Elem.item (e : Elem) : Item := .known e.tag e.tb e.pk (e.f.canon e.v)

/-- tag ↦ canonical value, in element order -/
def valuesOf (elems : List Elem) : List (Tag × Value) := elems.map fun e => (e.tag, e.f.canon e.v)

theorem wireOf_items (elems : List Elem) : wireOf (elems.map Elem.item) = elemsWire elems := by
  induction elems with
  | nil => rfl
  | cons e rest ih => simp [wireOf, elemsWire, Elem.item, Item.wire, Elem.wire, ih]

theorem foldl_apply_items (elems : List Elem) : ∀ acc,
    (elems.map Elem.item).foldl Item.apply acc = insertAll acc (valuesOf elems) := by
  induction elems with
  | nil => intro acc; rfl
  | cons e rest ih =>
    intro acc
    simp only [List.map_cons, List.foldl_cons, valuesOf, insertAll] at ih ⊢
    rw [ih]
    rfl

theorem elemsWire_length_perm (a b : List Elem) (h : a.Perm b) :
    (elemsWire a).length = (elemsWire b).length := by
  induction h with
  | nil => rfl
  | cons x _ ih => simp [elemsWire, ih]
  | swap x y l => simp [elemsWire]; omega
  | trans _ _ ih1 ih2 => rw [ih1, ih2]

theorem elemsWire_append (a b : List Elem) : elemsWire (a ++ b) = elemsWire a ++ elemsWire b := by
  induction a with
  | nil => rfl
  | cons e rest ih => simp [elemsWire, ih]

/-- the set subfields in spec order -/
def setSubs : List (Tag × Field) → List (Tag × Value) → List (Tag × Field × Value)
  | [], _ => []
  | (tg, f) :: rest, vals =>
    match lookup tg vals with
    | some v => (tg, f, v) :: setSubs rest vals
    | none => setSubs rest vals

theorem setSubs_mem (subs : List (Tag × Field)) (vals : List (Tag × Value)) (tg : Tag) (f : Field) (v : Value)
    (h : (tg, f, v) ∈ setSubs subs vals) : (tg, f) ∈ subs ∧ lookup tg vals = some v := by
  induction subs with
  | nil => simp [setSubs] at h
  | cons p rest ih =>
    obtain ⟨k, g⟩ := p
    simp only [setSubs] at h
    cases hl : lookup k vals with
    | none =>
      rw [hl] at h
      have := ih h
      exact ⟨List.mem_cons_of_mem _ this.1, this.2⟩
    | some w =>
      rw [hl] at h
      simp only [List.mem_cons, Prod.mk.injEq] at h
      rcases h with ⟨rfl, rfl, rfl⟩ | h
      · exact ⟨by simp, hl⟩
      · have := ih h
        exact ⟨List.mem_cons_of_mem _ this.1, this.2⟩

theorem setSubs_keys_sublist (subs : List (Tag × Field)) (vals : List (Tag × Value)) :
    ((setSubs subs vals).map (·.1)).Sublist (subs.map (·.1)) := by
  induction subs with
  | nil => simp [setSubs]
  | cons p rest ih =>
    obtain ⟨k, g⟩ := p
    simp only [setSubs]
    cases lookup k vals with
    | none => exact List.Sublist.cons _ ih
    | some w => exact List.Sublist.cons_cons _ ih

theorem canonSubs_eq_map (subs : List (Tag × Field)) (vals : List (Tag × Value)) :
    Field.canonSubs subs vals = (setSubs subs vals).map fun p => (p.1, p.2.1.canon p.2.2) := by
  induction subs with
  | nil => simp [Field.canonSubs, setSubs]
  | cons p rest ih =>
    obtain ⟨k, g⟩ := p
    simp only [Field.canonSubs, setSubs]
    cases lookup k vals with
    | none => simpa using ih
    | some w => simp [ih]

/-- `packByTag` with tags on the wire: every set subfield once, in spec order, each as
`encode (pad tag) ++ pack value`; unset subfields contribute nothing -/
theorem packByTag_elems (t : TagSpec) (enc : Enc) (he : t.enc = some enc)
    (subs : List (Tag × Field)) (vals : List (Tag × Value)) :
    ∀ out, packByTag t subs vals = .ok out →
      ∃ elems : List Elem,
        elems.map (fun e => (e.tag, e.f, e.v)) = setSubs subs vals ∧
        (∀ e ∈ elems, encodeTag t enc e.tag = .ok e.tb ∧ e.f.pack e.v = .ok e.pk) ∧
        out = elemsWire elems := by
  induction subs with
  | nil =>
    intro out h
    simp only [packByTag, Res.ok.injEq] at h
    exact ⟨[], by simp [setSubs], by simp, by simp [elemsWire, ← h]⟩
  | cons p rest ih =>
    obtain ⟨tg, f⟩ := p
    intro out h
    rw [packByTag] at h
    cases hl : lookup tg vals with
    | none =>
      simp only [hl] at h
      obtain ⟨elems, h1, h2, h3⟩ := ih out h
      exact ⟨elems, by simp [setSubs, hl, h1], h2, h3⟩
    | some v =>
      simp only [hl, he] at h
      cases htb : encodeTag t enc tg with
      | err => simp [htb] at h
      | panic => simp [htb] at h
      | ok tb =>
        cases hpb : f.pack v with
        | err => simp [htb, hpb] at h
        | panic => simp [htb, hpb] at h
        | ok pb =>
          cases hmore : packByTag t rest vals with
          | err => simp [htb, hpb, hmore] at h
          | panic => simp [htb, hpb, hmore] at h
          | ok more =>
            simp only [htb, hpb, hmore, Res.ok.injEq] at h
            obtain ⟨elems, h1, h2, h3⟩ := ih more hmore
            refine ⟨⟨tg, f, v, tb, pb⟩ :: elems, by simp [setSubs, hl, h1], ?_, ?_⟩
            · intro e he'
              simp only [List.mem_cons] at he'
              rcases he' with rfl | he'
              · exact ⟨htb, hpb⟩
              · exact h2 e he'
            · simp [elemsWire, Elem.wire, ← h, h3]

/-- `packByTag` sees the value list only through `lookup` -/
theorem packByTag_congr (t : TagSpec) (subs : List (Tag × Field)) (vals vals' : List (Tag × Value))
    (h : ∀ p ∈ subs, lookup p.1 vals = lookup p.1 vals') :
    packByTag t subs vals = packByTag t subs vals' := by
  induction subs with
  | nil => simp [packByTag]
  | cons p rest ih =>
    obtain ⟨tg, f⟩ := p
    have h1 := h (tg, f) (by simp)
    simp only at h1
    have h2 := ih (fun q hq => h q (List.mem_cons_of_mem _ hq))
    rw [packByTag, packByTag, h1, h2]

theorem packByBitmap_congr (subs : List (Tag × Field)) (vals vals' : List (Tag × Value))
    (h : ∀ p ∈ subs, lookup p.1 vals = lookup p.1 vals') :
    ∀ bm, packByBitmap subs vals bm = packByBitmap subs vals' bm := by
  induction subs with
  | nil => intro bm; simp [packByBitmap]
  | cons p rest ih =>
    obtain ⟨tg, f⟩ := p
    intro bm
    have h1 := h (tg, f) (by simp)
    simp only at h1
    have h2 := ih (fun q hq => h q (List.mem_cons_of_mem _ hq))
    rw [packByBitmap, packByBitmap, h1]
    cases lookup tg vals' with
    | none => exact h2 bm
    | some v => simp only [h2]

/-! ## canonical value of what was unpacked -/

theorem lookup_canonSubs (subs : List (Tag × Field)) (vals : List (Tag × Value))
    (hd : (subs.map (·.1)).Nodup) (tg : Tag) (f : Field) (h : (tg, f) ∈ subs) :
    lookup tg (Field.canonSubs subs vals) = (lookup tg vals).map f.canon := by
  induction subs with
  | nil => simp at h
  | cons p rest ih =>
    obtain ⟨k, g⟩ := p
    simp only [List.map_cons, List.nodup_cons] at hd
    simp only [List.mem_cons, Prod.mk.injEq] at h
    have hkeys : ∀ u, u ∉ rest.map (·.1) → lookup u (Field.canonSubs rest vals) = none := by
      intro u hu
      apply lookup_eq_none_of_not_mem
      intro hmem
      rw [canonSubs_eq_map] at hmem
      have hsub := setSubs_keys_sublist rest vals
      simp only [List.map_map] at hmem
      exact hu (hsub.subset (by simpa [Function.comp_def] using hmem))
    rcases h with ⟨rfl, rfl⟩ | h
    · simp only [Field.canonSubs]
      cases hl : lookup tg vals with
      | none => simp [hkeys tg hd.1]
      | some v => simp [lookup]
    · have hne : k ≠ tg := by
        intro e; subst e
        exact hd.1 (List.mem_map.mpr ⟨(k, f), h, rfl⟩)
      simp only [Field.canonSubs]
      cases hl : lookup k vals with
      | none => simp [ih hd.2 h]
      | some v => simp [lookup, hne, ih hd.2 h]

theorem orderBySpec_eq_canonSubs (subs : List (Tag × Field)) (vals M : List (Tag × Value))
    (h : ∀ p ∈ subs, lookup p.1 M = (lookup p.1 vals).map p.2.canon) :
    orderBySpec subs M = Field.canonSubs subs vals := by
  induction subs with
  | nil => simp [orderBySpec, Field.canonSubs]
  | cons p rest ih =>
    obtain ⟨k, g⟩ := p
    have h1 := h (k, g) (by simp)
    simp only at h1
    have h2 := ih (fun q hq => h q (List.mem_cons_of_mem _ hq))
    simp only [orderBySpec, Field.canonSubs, h1]
    cases lookup k vals with
    | none => simpa using h2
    | some v => simp [h2]

theorem canonSubs_keys_nodup (subs : List (Tag × Field)) (vals : List (Tag × Value))
    (hd : (subs.map (·.1)).Nodup) : ((Field.canonSubs subs vals).map (·.1)).Nodup := by
  rw [canonSubs_eq_map]
  have hsub := setSubs_keys_sublist subs vals
  have : ((setSubs subs vals).map fun p => (p.1, p.2.1.canon p.2.2)).map (·.1) = (setSubs subs vals).map (·.1) := by
    simp [List.map_map, Function.comp_def]
  rw [this]
  exact hd.sublist hsub

/-! ## the length prefix of a composite -/

theorem exported_of_exportedB (p : Pref) (h : p.exportedB = true) : C06.Exported p := by
  unfold C06.Exported
  rw [C06.table_matches_model]
  cases p with
  | none => decide
  | berTLV => decide
  | fixed f => cases f <;> decide
  | var f d =>
    simp only [Pref.exportedB, decide_eq_true_eq] at h
    have : d = 1 ∨ d = 2 ∨ d = 3 ∨ d = 4 ∨ d = 5 ∨ d = 6 := by omega
    rcases this with rfl | rfl | rfl | rfl | rfl | rfl <;> cases f <;> decide

/-- the prefix written by `EncodeLength` decodes to the announced length, consuming exactly
the prefix, whatever follows (`None`: nothing may follow) -/
theorem decodeLength_of_encodeLength (p : Pref) (maxLen n : Nat) (pre rest : Bytes)
    (hexp : p.exportedB = true) (hne : p ≠ .fixed .hex) (hn : n ≤ maxInt)
    (henc : p.encodeLength maxLen n = .ok pre)
    (hnone : p = .none → rest.length = n) :
    p.decodeLength maxLen (pre ++ rest) = .ok (n, pre.length) := by
  by_cases hp : p = .none
  · subst hp
    simp only [Pref.encodeLength, Res.ok.injEq] at henc
    subst henc
    simp [Pref.decodeLength, hnone rfl]
  · have hE := exported_of_exportedB p hexp
    have hrep : C06.Representable p maxLen n := by
      by_cases hr : C06.Representable p maxLen n
      · exact hr
      · have := (C06.enc_fails_iff p maxLen n hE hne hn).1.mpr hr
        rw [henc] at this; cases this
    obtain ⟨bs, h1, h2, _⟩ := C06.dec_enc p maxLen n rest hE hne hp hn hrep
    rw [henc] at h1
    cases h1
    exact h2

/-! ## sorting: `sort.Slice` returns *a* sorted permutation; on a strict total order it is unique -/

/-- what `sort.Slice(less)` guarantees about its result: no later element is `less` than an
earlier one -/
def Sorted {α : Type} (less : α → α → Bool) (l : List α) : Prop :=
  l.Pairwise (fun a b => less b a = false)

/-- `less` is a strict total order on the elements satisfying `P` -/
structure StrictTotalOn {α : Type} (less : α → α → Bool) (P : α → Prop) : Prop where
  irrefl : ∀ a, P a → less a a = false
  trans : ∀ a b c, P a → P b → P c → less a b = true → less b c = true → less a c = true
  total : ∀ a b, P a → P b → a ≠ b → less a b = true ∨ less b a = true

theorem StrictTotalOn.asymm {α : Type} {less : α → α → Bool} {P : α → Prop} (h : StrictTotalOn less P)
    (a b : α) (ha : P a) (hb : P b) (hab : less a b = true) : less b a = false := by
  cases hba : less b a with
  | false => rfl
  | true =>
    have := h.trans a b a ha hb ha hab hba
    rw [h.irrefl a ha] at this; cases this

theorem insertSorted_perm {α : Type} (less : α → α → Bool) (x : α) (l : List α) :
    (insertSorted less x l).Perm (x :: l) := by
  induction l with
  | nil => simp [insertSorted]
  | cons y ys ih =>
    simp only [insertSorted]
    split
    · exact List.Perm.refl _
    · exact (List.Perm.cons y ih).trans (List.Perm.swap x y ys)

theorem sortBy_perm {α : Type} (less : α → α → Bool) (l : List α) : (sortBy less l).Perm l := by
  induction l with
  | nil => simp [sortBy]
  | cons x xs ih =>
    simp only [sortBy]
    exact (insertSorted_perm less x _).trans (List.Perm.cons x ih)

theorem insertSorted_sorted {α : Type} (less : α → α → Bool) (P : α → Prop) (h : StrictTotalOn less P)
    (x : α) (hx : P x) (l : List α) (hl : ∀ a ∈ l, P a) (hs : Sorted less l) :
    Sorted less (insertSorted less x l) := by
  induction l with
  | nil => simp [insertSorted, Sorted]
  | cons y ys ih =>
    have hy : P y := hl y (by simp)
    have hys : ∀ a ∈ ys, P a := fun a ha => hl a (List.mem_cons_of_mem _ ha)
    unfold Sorted at hs ⊢
    rw [List.pairwise_cons] at hs
    simp only [insertSorted]
    split
    · rename_i hxy
      rw [List.pairwise_cons]
      refine ⟨?_, List.pairwise_cons.mpr hs⟩
      intro z hz
      simp only [List.mem_cons] at hz
      rcases hz with rfl | hz
      · exact h.asymm x z hx hy hxy
      · cases hzx : less z x with
        | false => rfl
        | true =>
          have := h.trans z x y (hys z hz) hx hy hzx hxy
          rw [hs.1 z hz] at this; cases this
    · rename_i hxy
      rw [List.pairwise_cons]
      refine ⟨?_, ih hys hs.2⟩
      intro w hw
      have := (insertSorted_perm less x ys).mem_iff.mp hw
      simp only [List.mem_cons] at this
      rcases this with rfl | hw'
      · simpa using hxy
      · exact hs.1 w hw'

/-- insertion sort returns a sorted permutation -/
theorem sortBy_sorted_perm {α : Type} (less : α → α → Bool) (P : α → Prop) (h : StrictTotalOn less P)
    (l : List α) (hl : ∀ a ∈ l, P a) : Sorted less (sortBy less l) ∧ (sortBy less l).Perm l := by
  refine ⟨?_, sortBy_perm less l⟩
  induction l with
  | nil => simp [sortBy, Sorted]
  | cons x xs ih =>
    simp only [sortBy]
    have hxs : ∀ a ∈ xs, P a := fun a ha => hl a (List.mem_cons_of_mem _ ha)
    apply insertSorted_sorted less P h x (hl x (by simp))
    · intro a ha; exact hxs a ((sortBy_perm less xs).mem_iff.mp ha)
    · exact ih hxs

/-- two sorted permutations of a list whose elements are strictly totally ordered are equal -/
theorem sorted_perm_unique {α : Type} (less : α → α → Bool) (P : α → Prop) (h : StrictTotalOn less P) :
    ∀ (l1 l2 : List α), (∀ a ∈ l1, P a) → l1.Perm l2 → Sorted less l1 → Sorted less l2 → l1 = l2 := by
  intro l1
  induction l1 with
  | nil => intro l2 _ hp _ _; exact (List.Perm.nil_eq hp)
  | cons a t1 ih =>
    intro l2 hP hp hs1 hs2
    cases l2 with
    | nil => exact absurd hp.symm (by simp)
    | cons b t2 =>
      unfold Sorted at hs1 hs2
      rw [List.pairwise_cons] at hs1 hs2
      have hPa : P a := hP a (by simp)
      have hb1 : b ∈ a :: t1 := hp.mem_iff.mpr (by simp)
      have hPb : P b := hP b hb1
      have hab : a = b := by
        by_cases e : a = b
        · exact e
        · have ha2 : a ∈ b :: t2 := hp.mem_iff.mp (by simp)
          simp only [List.mem_cons] at ha2 hb1
          have ha2' : a ∈ t2 := by rcases ha2 with e' | h'; exact absurd e' e; exact h'
          have hb1' : b ∈ t1 := by rcases hb1 with e' | h'; exact absurd e'.symm e; exact h'
          have n1 := hs2.1 a ha2'
          have n2 := hs1.1 b hb1'
          rcases h.total a b hPa hPb e with h' | h'
          · rw [n1] at h'; cases h'
          · rw [n2] at h'; cases h'
      subst hab
      have hp' : t1.Perm t2 := List.Perm.cons_inv hp
      rw [ih t2 (fun x hx => hP x (List.mem_cons_of_mem _ hx)) hp' hs1.2 hs2.2]

/-! ### Go string comparison is a strict total order -/

theorem bytesLt_irrefl : ∀ a : Bytes, bytesLt a a = false := by
  intro a
  induction a with
  | nil => rfl
  | cons x xs ih => simp [bytesLt, ih]

theorem bytesLt_trans : ∀ a b c : Bytes, bytesLt a b = true → bytesLt b c = true → bytesLt a c = true := by
  intro a
  induction a with
  | nil =>
    intro b c h1 h2
    cases b with
    | nil => simp [bytesLt] at h1
    | cons y ys =>
      cases c with
      | nil => simp [bytesLt] at h2
      | cons z zs => simp [bytesLt]
  | cons x xs ih =>
    intro b c h1 h2
    cases b with
    | nil => simp [bytesLt] at h1
    | cons y ys =>
      cases c with
      | nil => simp [bytesLt] at h2
      | cons z zs =>
        simp only [bytesLt] at h1 h2 ⊢
        by_cases hxy : x.toNat < y.toNat
        · by_cases hyz : y.toNat < z.toNat
          · have : x.toNat < z.toNat := by omega
            simp [this]
          · by_cases hzy : y.toNat > z.toNat
            · simp [hyz, hzy] at h2
            · have : x.toNat < z.toNat := by omega
              simp [this]
        · by_cases hyx : x.toNat > y.toNat
          · simp [hxy, hyx] at h1
          · simp only [hxy, hyx, if_false] at h1
            have exy : x.toNat = y.toNat := by omega
            by_cases hyz : y.toNat < z.toNat
            · have : x.toNat < z.toNat := by omega
              simp [this]
            · by_cases hzy : y.toNat > z.toNat
              · simp [hyz, hzy] at h2
              · simp only [hyz, hzy, if_false] at h2
                have h3 : ¬ x.toNat < z.toNat := by omega
                have h4 : ¬ x.toNat > z.toNat := by omega
                simp only [h3, h4, if_false]
                exact ih ys zs h1 h2

theorem bytesLt_total : ∀ a b : Bytes, a ≠ b → bytesLt a b = true ∨ bytesLt b a = true := by
  intro a
  induction a with
  | nil =>
    intro b h
    cases b with
    | nil => exact absurd rfl h
    | cons y ys => left; rfl
  | cons x xs ih =>
    intro b h
    cases b with
    | nil => right; rfl
    | cons y ys =>
      simp only [bytesLt]
      by_cases hxy : x.toNat < y.toNat
      · left; simp [hxy]
      · by_cases hyx : y.toNat < x.toNat
        · right; simp [hyx]
        · have e : x = y := byte_ext (by omega)
          subst e
          have hne : xs ≠ ys := fun e => h (by rw [e])
          simp only [Nat.lt_irrefl, if_false, gt_iff_lt]
          exact ih ys hne

theorem strings_strictTotal : StrictTotalOn (SortKind.less .strings) (fun _ => True) :=
  ⟨fun a _ => bytesLt_irrefl a, fun a b c _ _ _ => bytesLt_trans a b c, fun a b _ _ => bytesLt_total a b⟩

/-! ## positional composites (no tags on the wire) -/

/-- self-delimiting when nothing follows (the `None`-prefixed last subfield of a positional
composite: its body is cut to the announced length) -/
def SelfDelimEnd (f : Field) (v : Value) : Prop :=
  ∀ packed, f.pack v = .ok packed → f.unpack packed = .ok (f.canon v, packed.length)

def SelfDelimAny (f : Field) (v : Value) : Prop :=
  ∀ packed, f.pack v = .ok packed → ∀ tail, f.unpack (packed ++ tail) = .ok (f.canon v, packed.length)

/-- the set subfields form a leading run of the spec order -/
def leadingRun : List (Tag × Field) → List (Tag × Value) → Bool
  | [], _ => true
  | (tg, _) :: rest, vals =>
    if (lookup tg vals).isSome then leadingRun rest vals
    else rest.all (fun p => (lookup p.1 vals).isNone)

/-- the last set subfield packs to at least one byte -/
def LastNonEmpty (subs : List (Tag × Field)) (vals : List (Tag × Value)) : Prop :=
  ∀ init tg f rest v pk, subs = init ++ (tg, f) :: rest → lookup tg vals = some v →
    (∀ p ∈ rest, lookup p.1 vals = none) → f.pack v = .ok pk → pk ≠ []

theorem leadingRun_of_dropWhile (subs : List (Tag × Field)) (vals : List (Tag × Value)) :
    ((subs.map (fun p => (lookup p.1 vals).isSome)).dropWhile id).all (fun b => !b) = leadingRun subs vals := by
  induction subs with
  | nil => rfl
  | cons p rest ih =>
    obtain ⟨tg, f⟩ := p
    simp only [List.map_cons, leadingRun]
    cases h : (lookup tg vals).isSome with
    | true => simp [List.dropWhile, ih]
    | false =>
      simp only [List.dropWhile, id, Bool.false_eq_true, if_false, List.all_cons, Bool.not_false, Bool.true_and,
        List.all_map]
      congr 1
      funext q
      simp only [Function.comp]
      cases lookup q.1 vals <;> rfl

theorem packByTag_all_absent (t : TagSpec) (subs : List (Tag × Field)) (vals : List (Tag × Value))
    (h : ∀ p ∈ subs, lookup p.1 vals = none) : packByTag t subs vals = .ok [] := by
  induction subs with
  | nil => simp [packByTag]
  | cons p rest ih =>
    obtain ⟨tg, f⟩ := p
    have h1 := h (tg, f) (by simp)
    simp only at h1
    rw [packByTag, h1]
    exact ih (fun q hq => h q (List.mem_cons_of_mem _ hq))

theorem canonSubs_all_absent (subs : List (Tag × Field)) (vals : List (Tag × Value))
    (h : ∀ p ∈ subs, lookup p.1 vals = none) : Field.canonSubs subs vals = [] := by
  induction subs with
  | nil => simp [Field.canonSubs]
  | cons p rest ih =>
    obtain ⟨tg, f⟩ := p
    have h1 := h (tg, f) (by simp)
    simp only at h1
    simp only [Field.canonSubs, h1]
    exact ih (fun q hq => h q (List.mem_cons_of_mem _ hq))

theorem lastNonEmpty_tail (p : Tag × Field) (rest : List (Tag × Field)) (vals : List (Tag × Value))
    (h : LastNonEmpty (p :: rest) vals) : LastNonEmpty rest vals := by
  intro init tg f r v pk he
  exact h (p :: init) tg f r v pk (by rw [he]; rfl)

theorem packByTag_ne_nil_of_present (t : TagSpec) (he : t.enc = none) (subs : List (Tag × Field))
    (vals : List (Tag × Value)) :
    ∀ w, LastNonEmpty subs vals → (∃ p ∈ subs, (lookup p.1 vals).isSome = true) →
      packByTag t subs vals = .ok w → w ≠ [] := by
  induction subs with
  | nil => intro w _ hex _; obtain ⟨p, hp, _⟩ := hex; simp at hp
  | cons p rest ih =>
    obtain ⟨tg, f⟩ := p
    intro w hl hex hw
    rw [packByTag] at hw
    cases hlk : lookup tg vals with
    | none =>
      simp only [hlk] at hw
      obtain ⟨q, hq, hqs⟩ := hex
      simp only [List.mem_cons] at hq
      rcases hq with rfl | hq
      · simp [hlk] at hqs
      · exact ih w (lastNonEmpty_tail _ _ _ hl) ⟨q, hq, hqs⟩ hw
    | some v =>
      simp only [hlk, he] at hw
      cases hpb : f.pack v with
      | err => simp [hpb] at hw
      | panic => simp [hpb] at hw
      | ok pb =>
        cases hmore : packByTag t rest vals with
        | err => simp [hpb, hmore] at hw
        | panic => simp [hpb, hmore] at hw
        | ok more =>
          simp only [hpb, hmore, Res.ok.injEq] at hw
          by_cases hany : ∃ q ∈ rest, (lookup q.1 vals).isSome = true
          · have := ih more (lastNonEmpty_tail _ _ _ hl) hany hmore
            intro e; rw [e] at hw
            simp at hw; exact this hw.2
          · have habs : ∀ q ∈ rest, lookup q.1 vals = none := by
              intro q hq
              cases hq' : lookup q.1 vals with
              | none => rfl
              | some x => exact absurd ⟨q, hq, by simp [hq']⟩ hany
            have := hl [] tg f rest v pb rfl hlk habs hpb
            intro e; rw [e] at hw
            simp at hw; exact this hw.1

/-- **the positional scan over what `packByTag` wrote** (no tags on the wire) -/
theorem unpackPositional_run (t : TagSpec) (he : t.enc = none) (vals : List (Tag × Value)) (isVar : Bool) :
    ∀ (subs : List (Tag × Field)) (w data : Bytes) (offset : Nat) (acc : List (Tag × Value)),
      packByTag t subs vals = .ok w →
      data.drop offset = w → offset + w.length = data.length →
      (∀ tg f v, (tg, f) ∈ subs → lookup tg vals = some v → SelfDelimEnd f v) →
      (∀ init last tg f v, subs = init ++ [last] → (tg, f) ∈ init → lookup tg vals = some v → SelfDelimAny f v) →
      (isVar = false → ∀ p ∈ subs, (lookup p.1 vals).isSome = true) →
      (isVar = true → leadingRun subs vals = true ∧ LastNonEmpty subs vals ∧
        ∃ p ∈ subs, (lookup p.1 vals).isSome = true) →
      unpackPositional subs data isVar offset acc = .ok (acc ++ Field.canonSubs subs vals, data.length) := by
  intro subs
  induction subs with
  | nil =>
    intro w data offset acc hw _ hlen _ _ _ _
    simp only [packByTag, Res.ok.injEq] at hw
    subst hw
    simp only [List.length_nil, Nat.add_zero] at hlen
    simp [unpackPositional, Field.canonSubs, hlen]
  | cons p rest ih =>
    obtain ⟨tg, f⟩ := p
    intro w data offset acc hw hd hlen h1 h2 hfix hvar
    rw [packByTag] at hw
    cases hlk : lookup tg vals with
    | none =>
      exfalso
      cases isVar with
      | false => have := hfix rfl (tg, f) (by simp); simp [hlk] at this
      | true =>
        obtain ⟨hrun, _, q, hq, hqs⟩ := hvar rfl
        simp only [leadingRun, hlk, Option.isSome_none, Bool.false_eq_true, if_false, List.all_eq_true] at hrun
        simp only [List.mem_cons] at hq
        rcases hq with rfl | hq
        · simp [hlk] at hqs
        · have := hrun q hq
          cases hq' : lookup q.1 vals with
          | none => simp [hq'] at hqs
          | some x => simp [hq'] at this
    | some v =>
      simp only [hlk, he] at hw
      cases hpb : f.pack v with
      | err => simp [hpb] at hw
      | panic => simp [hpb] at hw
      | ok pb =>
        cases hmore : packByTag t rest vals with
        | err => simp [hpb, hmore] at hw
        | panic => simp [hpb, hmore] at hw
        | ok more =>
          simp only [hpb, hmore, Res.ok.injEq, List.nil_append] at hw
          subst hw
          simp only [List.length_append] at hlen
          -- the subfield reads exactly its own bytes
          have hun : f.unpack (data.drop offset) = .ok (f.canon v, pb.length) := by
            rw [hd]
            cases rest with
            | nil =>
              simp only [packByTag, Res.ok.injEq] at hmore
              subst hmore
              rw [List.append_nil]
              exact h1 tg f v (by simp) hlk pb hpb
            | cons r rs =>
              obtain ⟨init', last, hil⟩ : ∃ init' last, r :: rs = init' ++ [last] := by
                have := List.eq_nil_or_concat (r :: rs)
                rcases this with h | ⟨i, l, h⟩
                · cases h
                · exact ⟨i, l, by simpa using h⟩
              exact h2 ((tg, f) :: init') last tg f v (by rw [hil]; rfl) (by simp) hlk pb hpb more
          have hoff : ¬ offset > data.length := by omega
          have hd2 : data.drop (offset + pb.length) = more := drop_add_of_drop_eq hd
          have h1' : ∀ tg' f' v', (tg', f') ∈ rest → lookup tg' vals = some v' → SelfDelimEnd f' v' :=
            fun tg' f' v' hm => h1 tg' f' v' (List.mem_cons_of_mem _ hm)
          have h2' : ∀ init last tg' f' v', rest = init ++ [last] → (tg', f') ∈ init →
              lookup tg' vals = some v' → SelfDelimAny f' v' := by
            intro init last tg' f' v' hr hm
            exact h2 ((tg, f) :: init) last tg' f' v' (by rw [hr]; rfl) (List.mem_cons_of_mem _ hm)
          rw [unpackPositional]
          simp only [hoff, if_false, hun, Field.canonSubs, hlk]
          cases isVar with
          | false =>
            simp only [Bool.false_and, Bool.false_eq_true, if_false]
            rw [ih more data (offset + pb.length) _ hmore hd2 (by omega) h1' h2'
              (fun _ q hq => hfix rfl q (List.mem_cons_of_mem _ hq)) (fun h => by cases h)]
            simp
          | true =>
            obtain ⟨hrun, hlast, _⟩ := hvar rfl
            simp only [leadingRun, hlk, Option.isSome_some, if_true] at hrun
            by_cases hany : ∃ q ∈ rest, (lookup q.1 vals).isSome = true
            · have hne := packByTag_ne_nil_of_present t he rest vals more (lastNonEmpty_tail _ _ _ hlast) hany hmore
              have hpos : 1 ≤ more.length := by
                cases more with
                | nil => exact absurd rfl hne
                | cons _ _ => simp
              have hlt : ¬ offset + pb.length ≥ data.length := by omega
              simp only [Bool.true_and, decide_eq_true_eq, hlt, if_false]
              rw [ih more data (offset + pb.length) _ hmore hd2 (by omega) h1' h2' (fun h => by cases h)
                (fun _ => ⟨hrun, lastNonEmpty_tail _ _ _ hlast, hany⟩)]
              simp
            · have habs : ∀ q ∈ rest, lookup q.1 vals = none := by
                intro q hq
                cases hq' : lookup q.1 vals with
                | none => rfl
                | some x => exact absurd ⟨q, hq, by simp [hq']⟩ hany
              have hm0 := packByTag_all_absent t rest vals habs
              rw [hmore] at hm0
              simp only [Res.ok.injEq] at hm0
              subst hm0
              simp only [List.length_nil, Nat.add_zero] at hlen
              have hge : offset + pb.length ≥ data.length := by omega
              simp only [Bool.true_and, decide_eq_true_eq, hge, if_true, canonSubs_all_absent rest vals habs]
              rw [hlen]

theorem unpack_positional_eq (s : CompSpec) (subs : List (Tag × Field)) (t : TagSpec)
    (hm : s.mode = .tagged t) (he : t.enc = none) (pre body tail : Bytes)
    (hpre : s.pref.decodeLength s.len (pre ++ (body ++ tail)) = .ok (body.length, pre.length)) :
    Field.unpack (.comp s subs) (pre ++ (body ++ tail)) =
      finish subs pre.length body.length (unpackPositional subs body (pre.length != 0) 0 []) := by
  have h1 : ¬ pre.length > (pre ++ (body ++ tail)).length := by simp
  have h2 : ¬ body.length > (pre ++ (body ++ tail)).length - pre.length := by simp
  have hb : ((pre ++ (body ++ tail)).drop pre.length).take body.length = body := by
    rw [List.drop_left' rfl, List.take_left' rfl]
  rw [Field.unpack]
  simp only [hpre, h1, h2, if_false, hb, hm, he]
  cases unpackPositional subs body (pre.length != 0) 0 [] with
  | err p => rfl
  | panic => rfl
  | ok r => obtain ⟨vals, read⟩ := r; rfl

theorem orderBySpec_append {α β : Type} (a b : List (Tag × α)) (vals : List (Tag × β)) :
    orderBySpec (a ++ b) vals = orderBySpec a vals ++ orderBySpec b vals := by
  induction a with
  | nil => rfl
  | cons p rest ih =>
    obtain ⟨t, x⟩ := p
    simp only [List.cons_append, orderBySpec, ih]
    cases lookup t vals <;> simp

theorem orderBySpec_all_absent {α β : Type} (a : List (Tag × α)) (vals : List (Tag × β))
    (h : ∀ p ∈ a, lookup p.1 vals = none) : orderBySpec a vals = [] := by
  induction a with
  | nil => rfl
  | cons p rest ih =>
    obtain ⟨t, x⟩ := p
    have h1 := h (t, x) (by simp)
    simp only at h1
    simp only [orderBySpec, h1]
    exact ih (fun q hq => h q (List.mem_cons_of_mem _ hq))

end Iso8583.Tlv
