/-
Helper lemmas for the object model (Model/Object.lean) and the presence specification
(Spec/Presence.lean): association lists, the induction principle over the spec tree,
characterisations of the spec-ordered lists as `filterMap`s, and the per-field
refinement lemmas used by Props/C14.lean.
-/
import Iso8583.Spec.Presence
import Iso8583.Lemmas.Bytes

namespace Iso8583

/-! ### induction over the spec tree -/

theorem Field.induct' {P : Field → Prop} (hp : ∀ s, P (.prim s))
    (hc : ∀ s subs, (∀ p, p ∈ subs → P p.2) → P (.comp s subs)) : ∀ f, P f := by
  intro f
  exact Field.rec (motive_1 := P) (motive_2 := fun l => ∀ p, p ∈ l → P p.2) (motive_3 := fun p => P p.2)
    hp (fun s subs ih => hc s subs ih)
    (by intro p hp; cases hp)
    (by
      intro head tail ih1 ih2 p hp
      cases hp with
      | head => exact ih1
      | tail _ h => exact ih2 p h)
    (fun _ _ ih => ih) f

/-! ### association lists keyed by tag -/

theorem lookup_insertKV_same {α : Type} (t : Tag) (x : α) (l : List (Tag × α)) :
    lookup t (insertKV t x l) = some x := by
  induction l with
  | nil => simp [insertKV, lookup]
  | cons p rest ih =>
    obtain ⟨k, v⟩ := p
    by_cases h : k = t
    · simp [insertKV, lookup, h]
    · simp [insertKV, lookup, h, ih]

theorem lookup_insertKV_ne {α : Type} {t u : Tag} (h : u ≠ t) (x : α) (l : List (Tag × α)) :
    lookup u (insertKV t x l) = lookup u l := by
  induction l with
  | nil =>
    have : ¬ t = u := fun e => h e.symm
    simp [insertKV, lookup, this]
  | cons p rest ih =>
    obtain ⟨k, v⟩ := p
    by_cases hk : k = t
    · subst hk
      have : ¬ k = u := fun e => h e.symm
      simp [insertKV, lookup, this]
    · by_cases hu : k = u
      · subst hu; simp [insertKV, lookup, hk]
      · simp [insertKV, lookup, hk, hu, ih]

theorem lookup_insertKV {α : Type} (t u : Tag) (x : α) (l : List (Tag × α)) :
    lookup u (insertKV t x l) = if u = t then some x else lookup u l := by
  by_cases h : u = t
  · subst h; simp [lookup_insertKV_same]
  · simp [h, lookup_insertKV_ne h]

theorem lookup_eraseKV {α : Type} (t u : Tag) (l : List (Tag × α)) :
    lookup u (eraseKV t l) = if u = t then none else lookup u l := by
  induction l with
  | nil => simp [eraseKV, lookup]
  | cons p rest ih =>
    obtain ⟨k, v⟩ := p
    by_cases hk : k = t
    · subst hk
      by_cases hu : u = k
      · subst hu; simp [eraseKV, lookup, ih]
      · have : ¬ k = u := fun e => hu e.symm
        simp [eraseKV, lookup, ih, hu, this]
    · by_cases hu : k = u
      · subst hu; simp [eraseKV, lookup, hk]
      · simp [eraseKV, lookup, hk, hu, ih]

theorem lookupField_eq_isSome (subs : List (Tag × Field)) (t : Tag) :
    lookupField subs t = (lookup t subs).isSome := by
  induction subs with
  | nil => simp [lookupField, lookup]
  | cons p rest ih =>
    obtain ⟨k, f⟩ := p
    by_cases h : k = t <;> simp [lookupField, lookup, h, ih]

theorem noDupTags_cons (t : Tag) (ts : List Tag) :
    noDupTags (t :: ts) = true ↔ t ∉ ts ∧ noDupTags ts = true := by
  simp [noDupTags]

/-- in a list with pairwise distinct keys, membership determines the lookup -/
theorem lookup_of_mem {α : Type} {l : List (Tag × α)} (hd : noDupTags (l.map (·.1)) = true)
    {t : Tag} {x : α} (hm : (t, x) ∈ l) : lookup t l = some x := by
  induction l with
  | nil => cases hm
  | cons p rest ih =>
    obtain ⟨k, v⟩ := p
    simp only [List.map_cons, noDupTags_cons] at hd
    cases hm with
    | head => simp [lookup]
    | tail _ h =>
      have hk : k ≠ t := by
        intro e; subst e
        exact hd.1 (List.mem_map.mpr ⟨(k, x), h, rfl⟩)
      simp [lookup, hk, ih hd.2 h]

theorem mem_of_lookup {α : Type} {l : List (Tag × α)} {t : Tag} {x : α} (h : lookup t l = some x) :
    (t, x) ∈ l := by
  induction l with
  | nil => simp [lookup] at h
  | cons p rest ih =>
    obtain ⟨k, v⟩ := p
    by_cases hk : k = t
    · subst hk; simp [lookup] at h; subst h; exact List.mem_cons_self
    · simp [lookup, hk] at h; exact List.mem_cons_of_mem _ (ih h)

theorem markTag_contains (t u : Tag) (set : List Tag) :
    (markTag t set).contains u = (u == t || set.contains u) := by
  unfold markTag
  split
  · rename_i h
    by_cases hu : u = t
    · subst hu; simp_all
    · simp [hu]
  · by_cases hu : u = t <;> simp [List.contains_cons, hu]

theorem markTags_contains (ts : List Tag) (u : Tag) (set : List Tag) :
    (markTags ts set).contains u = (ts.contains u || set.contains u) := by
  induction ts generalizing set with
  | nil => simp [markTags]
  | cons t rest ih =>
    simp only [markTags, ih, markTag_contains, List.contains_cons]
    cases (u == t) <;> cases (rest.contains u) <;> simp

theorem mem_markTags {ts : List Tag} {u : Tag} {set : List Tag} :
    u ∈ markTags ts set ↔ u ∈ ts ∨ u ∈ set := by
  have := markTags_contains ts u set
  rw [← List.contains_iff_mem, this]
  simp [List.contains_iff_mem]

/-! ### association lists keyed by id -/

theorem lookupId_setId {α : Type} (i j : Nat) (x : α) (l : List (Nat × α)) :
    lookupId j (setId i x l) = if j = i then some x else lookupId j l := by
  induction l with
  | nil =>
    by_cases h : j = i
    · subst h; simp [setId, lookupId]
    · have : ¬ i = j := fun e => h e.symm
      simp [setId, lookupId, h, this]
  | cons p rest ih =>
    obtain ⟨k, v⟩ := p
    by_cases hk : k = i
    · subst hk
      by_cases hj : j = k
      · subst hj; simp [setId, lookupId]
      · have : ¬ k = j := fun e => hj e.symm
        simp [setId, lookupId, hj, this]
    · by_cases hj : k = j
      · subst hj; simp [setId, lookupId, hk]
      · simp [setId, lookupId, hk, hj, ih]

theorem lookupId_eraseId {α : Type} (i j : Nat) (l : List (Nat × α)) :
    lookupId j (eraseId i l) = if j = i then none else lookupId j l := by
  induction l with
  | nil => simp [eraseId, lookupId]
  | cons p rest ih =>
    obtain ⟨k, v⟩ := p
    by_cases hk : k = i
    · subst hk
      by_cases hj : j = k
      · subst hj; simp [eraseId, lookupId, ih]
      · have : ¬ k = j := fun e => hj e.symm
        simp [eraseId, lookupId, ih, hj, this]
    · by_cases hj : k = j
      · subst hj; simp [eraseId, lookupId, hk]
      · simp [eraseId, lookupId, hk, hj, ih]

theorem markId_contains (i j : Nat) (l : List Nat) :
    (markId i l).contains j = (j == i || l.contains j) := by
  unfold markId
  split
  · rename_i h
    by_cases hj : j = i
    · subst hj; simp_all
    · simp [hj]
  · by_cases hj : j = i <;> simp [List.contains_cons, hj]

theorem mem_markId {i j : Nat} {l : List Nat} : j ∈ markId i l ↔ j = i ∨ j ∈ l := by
  have := markId_contains i j l
  rw [← List.contains_iff_mem, this]
  simp [List.contains_iff_mem]

theorem nodup_markId {i : Nat} {l : List Nat} (h : l.Nodup) : (markId i l).Nodup := by
  unfold markId
  split
  · exact h
  · rename_i hc
    have : i ∉ l := by simpa using hc
    exact List.nodup_cons.mpr ⟨this, h⟩

end Iso8583

namespace Iso8583

/-! ### spec-ordered lists -/

/-- the list that has, for each subfield of the spec in order, an entry iff `g` gives one -/
def specList {β : Type} (subs : List (Tag × Field)) (g : Tag → Field → Option β) : List (Tag × β) :=
  subs.filterMap (fun p => (g p.1 p.2).map (fun y => (p.1, y)))

theorem specList_nil {β : Type} (g : Tag → Field → Option β) : specList [] g = [] := rfl

theorem specList_cons {β : Type} (t : Tag) (f : Field) (rest : List (Tag × Field)) (g : Tag → Field → Option β) :
    specList ((t, f) :: rest) g =
      match g t f with
      | some y => (t, y) :: specList rest g
      | none => specList rest g := by
  unfold specList
  cases h : g t f <;> simp [List.filterMap_cons, h]

theorem specList_congr {β : Type} {subs : List (Tag × Field)} {g g' : Tag → Field → Option β}
    (h : ∀ p, p ∈ subs → g p.1 p.2 = g' p.1 p.2) : specList subs g = specList subs g' := by
  induction subs with
  | nil => rfl
  | cons p rest ih =>
    obtain ⟨t, f⟩ := p
    rw [specList_cons, specList_cons, h (t, f) List.mem_cons_self,
      ih (fun q hq => h q (List.mem_cons_of_mem _ hq))]

theorem lookup_none_of_not_mem {α : Type} {l : List (Tag × α)} {t : Tag} (h : t ∉ l.map (·.1)) :
    lookup t l = none := by
  induction l with
  | nil => rfl
  | cons p rest ih =>
    obtain ⟨k, v⟩ := p
    simp only [List.map_cons, List.mem_cons, not_or] at h
    have hk : ¬ k = t := fun e => h.1 e.symm
    simp [lookup, hk, ih h.2]

theorem specList_keys_subset {β : Type} (subs : List (Tag × Field)) (g : Tag → Field → Option β) (t : Tag)
    (h : t ∈ (specList subs g).map (·.1)) : t ∈ subs.map (·.1) := by
  induction subs with
  | nil => simp [specList] at h
  | cons p rest ih =>
    obtain ⟨k, f⟩ := p
    rw [specList_cons] at h
    cases hg : g k f with
    | none => simp only [hg] at h; exact List.mem_cons_of_mem _ (ih h)
    | some y =>
      simp only [hg, List.map_cons, List.mem_cons] at h
      rcases h with h | h
      · simp [h]
      · exact List.mem_cons_of_mem _ (ih h)

theorem lookup_specList {β : Type} {subs : List (Tag × Field)} (hd : noDupTags (subs.map (·.1)) = true)
    (g : Tag → Field → Option β) (t : Tag) :
    lookup t (specList subs g) = (lookup t subs).bind (g t) := by
  induction subs with
  | nil => rfl
  | cons p rest ih =>
    obtain ⟨k, f⟩ := p
    simp only [List.map_cons, noDupTags_cons] at hd
    rw [specList_cons]
    by_cases hk : k = t
    · subst hk
      cases hg : g k f with
      | some y => simp [lookup, hg]
      | none =>
        have : lookup k (specList rest g) = none :=
          lookup_none_of_not_mem (fun hm => hd.1 (specList_keys_subset rest g k hm))
        simp [lookup, hg, this]
    · cases hg : g k f with
      | some y => simp [lookup, hk, ih hd.2]
      | none => simp [lookup, hk, ih hd.2]

theorem noDup_specList {β : Type} {subs : List (Tag × Field)} (hd : noDupTags (subs.map (·.1)) = true)
    (g : Tag → Field → Option β) : noDupTags ((specList subs g).map (·.1)) = true := by
  induction subs with
  | nil => rfl
  | cons p rest ih =>
    obtain ⟨k, f⟩ := p
    simp only [List.map_cons, noDupTags_cons] at hd
    rw [specList_cons]
    cases hg : g k f with
    | none => exact ih hd.2
    | some y =>
      simp only [List.map_cons, noDupTags_cons]
      exact ⟨fun hm => hd.1 (specList_keys_subset rest g k hm), ih hd.2⟩

theorem valueSubs_eq (subs : List (Tag × Field)) (objs : List (Tag × FieldObj)) (set : List Tag) :
    Field.valueSubs subs objs set =
      specList subs (fun t f => if set.contains t then some (f.valueOf (getSub f t objs)) else none) := by
  induction subs with
  | nil => simp [Field.valueSubs, specList_nil]
  | cons p rest ih =>
    obtain ⟨t, f⟩ := p
    rw [specList_cons, Field.valueSubs]
    by_cases h : set.contains t = true
    · simp only [h, ↓reduceIte, ih, getSub]
    · simp only [h, ↓reduceIte, ih]; rfl

theorem ofValueSubs_eq (subs : List (Tag × Field)) (vals : List (Tag × Value)) :
    Field.ofValueSubs subs vals = specList subs (fun t f => (lookup t vals).map f.ofValue) := by
  induction subs with
  | nil => simp [Field.ofValueSubs, specList_nil]
  | cons p rest ih =>
    obtain ⟨t, f⟩ := p
    rw [specList_cons, Field.ofValueSubs]
    cases h : lookup t vals <;> simp [ih]

theorem mergeSubs_eq (subs : List (Tag × Field)) (old vals : List (Tag × Value)) :
    Field.mergeSubs subs old vals =
      specList subs (fun t f =>
        match lookup t vals, lookup t old with
        | some v, some ov => some (f.mergeValue ov v)
        | some v, none => some (f.mergeValue f.zeroValue v)
        | none, some ov => some ov
        | none, none => none) := by
  induction subs with
  | nil => simp [Field.mergeSubs, specList_nil]
  | cons p rest ih =>
    obtain ⟨t, f⟩ := p
    rw [specList_cons, Field.mergeSubs]
    cases h1 : lookup t vals <;> cases h2 : lookup t old <;> simp [ih]

theorem lookup_marshalSubs (subs : List (Tag × Field)) (objs : List (Tag × FieldObj))
    (vals : List (Tag × Value)) (t : Tag) :
    lookup t (Field.marshalSubs subs objs vals) =
      match lookup t subs, lookup t vals with
      | some f, some v => some (f.marshalInto (getSub f t objs) v)
      | _, _ => lookup t objs := by
  induction subs with
  | nil => simp [Field.marshalSubs, lookup]
  | cons p rest ih =>
    obtain ⟨k, g⟩ := p
    rw [Field.marshalSubs]
    by_cases hk : k = t
    · subst hk
      cases hv : lookup k vals with
      | some v => simp [lookup, lookup_insertKV_same, getSub]
      | none =>
        simp only [lookup, if_true]
        rw [ih, hv]
        cases lookup k rest <;> rfl
    · cases hv : lookup k vals with
      | some v => simp only [lookup, hk, if_false]; rw [lookup_insertKV_ne (fun e => hk e.symm), ih]
      | none => simp only [lookup, hk, if_false]; rw [ih]

theorem contains_keys {α : Type} (vals : List (Tag × α)) (t : Tag) :
    (vals.map (·.1)).contains t = (lookup t vals).isSome := by
  induction vals with
  | nil => simp [lookup]
  | cons p rest ih =>
    obtain ⟨k, v⟩ := p
    by_cases hk : k = t
    · subst hk; simp [lookup]
    · have : ¬ t = k := fun e => hk e.symm
      simp only [List.map_cons, List.contains_cons, lookup, hk, if_false, ih]
      simp [this]

theorem mem_keys_iff {α : Type} (vals : List (Tag × α)) (t : Tag) :
    t ∈ vals.map (·.1) ↔ (lookup t vals).isSome = true := by
  rw [← contains_keys, List.contains_iff_mem]

/-! ### the recursive predicates, pointwise -/

theorem cleanSubs_iff (subs : List (Tag × Field)) (objs : List (Tag × FieldObj)) (set : List Tag) :
    Field.CleanSubs subs objs set ↔
      ∀ p, p ∈ subs → (set.contains p.1 = false → getSub p.2 p.1 objs = p.2.fresh) ∧ p.2.Clean (getSub p.2 p.1 objs) := by
  induction subs with
  | nil => simp [Field.CleanSubs]
  | cons p rest ih =>
    obtain ⟨t, f⟩ := p
    simp only [Field.CleanSubs, ih, List.mem_cons]
    constructor
    · rintro ⟨h1, h2, h3⟩ q (rfl | hq)
      · exact ⟨h1, h2⟩
      · exact h3 q hq
    · intro h
      exact ⟨(h (t, f) (Or.inl rfl)).1, (h (t, f) (Or.inl rfl)).2, fun q hq => h q (Or.inr hq)⟩

theorem shapeSubs_iff (subs : List (Tag × Field)) (vals : List (Tag × Value)) :
    Field.shapeSubs subs vals = true ↔
      ∀ p, p ∈ subs → ∀ v, lookup p.1 vals = some v → p.2.shapeOK v = true := by
  induction subs with
  | nil => simp [Field.shapeSubs]
  | cons p rest ih =>
    obtain ⟨t, f⟩ := p
    simp only [Field.shapeSubs, Bool.and_eq_true, ih, List.mem_cons]
    constructor
    · rintro ⟨h1, h2⟩ q (rfl | hq) v hv
      · simpa [hv] using h1
      · exact h2 q hq v hv
    · intro h
      refine ⟨?_, fun q hq => h q (Or.inr hq)⟩
      cases hv : lookup t vals with
      | none => rfl
      | some v => exact h (t, f) (Or.inl rfl) v hv

theorem distinctTagsSubs_iff (subs : List (Tag × Field)) :
    Field.distinctTagsSubs subs = true ↔ ∀ p, p ∈ subs → p.2.distinctTags = true := by
  induction subs with
  | nil => simp [Field.distinctTagsSubs]
  | cons p rest ih =>
    obtain ⟨t, f⟩ := p
    simp only [Field.distinctTagsSubs, Bool.and_eq_true, ih, List.mem_cons]
    constructor
    · rintro ⟨h1, h2⟩ q (rfl | hq)
      · exact h1
      · exact h2 q hq
    · intro h
      exact ⟨h (t, f) (Or.inl rfl), fun q hq => h q (Or.inr hq)⟩

theorem valueOf_fresh (f : Field) : f.valueOf f.fresh = f.zeroValue := by
  cases f with
  | prim s => simp [Field.fresh, Field.valueOf, Field.zeroValue]
  | comp s subs =>
    simp only [Field.fresh, Field.valueOf, Field.zeroValue, valueSubs_eq]
    congr 1
    induction subs with
    | nil => rfl
    | cons p rest ih => obtain ⟨t, g⟩ := p; rw [specList_cons]; simpa using ih

theorem getSub_nil (f : Field) (t : Tag) : getSub f t [] = f.fresh := by simp [getSub, lookup]

theorem clean_fresh : ∀ f : Field, f.Clean f.fresh := by
  apply Field.induct'
  · intro s; simp [Field.fresh, Field.Clean]
  · intro s subs ih
    simp only [Field.fresh, Field.Clean, cleanSubs_iff]
    refine ⟨by simp, fun p hp => ?_⟩
    rw [getSub_nil]
    exact ⟨fun _ => rfl, ih p hp⟩

end Iso8583

namespace Iso8583

/-! ### Marshal refines merge, and keeps objects clean -/

theorem lookup_valueSubs {subs : List (Tag × Field)} (hd : noDupTags (subs.map (·.1)) = true)
    (objs : List (Tag × FieldObj)) (set : List Tag) (t : Tag) :
    lookup t (Field.valueSubs subs objs set) =
      (lookup t subs).bind (fun f => if set.contains t then some (f.valueOf (getSub f t objs)) else none) := by
  rw [valueSubs_eq, lookup_specList hd]

theorem marshal_refines : ∀ f : Field, f.distinctTags = true → ∀ (obj : FieldObj) (v : Value),
    f.Clean obj → f.shapeOK v = true →
    f.valueOf (f.marshalInto obj v) = f.mergeValue (f.valueOf obj) v ∧ f.Clean (f.marshalInto obj v) := by
  apply Field.induct'
  · intro s _ obj v hc hs
    cases obj with
    | comp _ _ => simp [Field.Clean] at hc
    | prim w => simp [Field.marshalInto, Field.valueOf, Field.mergeValue, Field.Clean]
  · intro s subs ih hd obj v hc hs
    cases obj with
    | prim _ => simp [Field.Clean] at hc
    | comp objs set =>
      cases v with
      | comp vals =>
        simp only [Field.distinctTags, Bool.and_eq_true, distinctTagsSubs_iff] at hd
        obtain ⟨hnd, hsub⟩ := hd
        simp only [Field.Clean, cleanSubs_iff] at hc
        obtain ⟨hset, hcs⟩ := hc
        simp only [Field.shapeOK, Bool.and_eq_true, shapeSubs_iff, List.all_eq_true] at hs
        obtain ⟨⟨_, hkeys⟩, hshape⟩ := hs
        -- facts about one subfield of the spec
        have key : ∀ p, p ∈ subs →
            getSub p.2 p.1 (Field.marshalSubs subs objs vals) =
              (match lookup p.1 vals with
               | some v => p.2.marshalInto (getSub p.2 p.1 objs) v
               | none => getSub p.2 p.1 objs) := by
          intro p hp
          have hl : lookup p.1 subs = some p.2 := lookup_of_mem hnd (by cases p; exact hp)
          unfold getSub
          rw [lookup_marshalSubs, hl]
          cases hv : lookup p.1 vals with
          | some v => simp [getSub]
          | none => simp
        constructor
        · simp only [Field.marshalInto, Field.valueOf, Field.mergeValue]
          congr 1
          rw [valueSubs_eq, mergeSubs_eq]
          apply specList_congr
          intro p hp
          have hl : lookup p.1 subs = some p.2 := lookup_of_mem hnd (by cases p; exact hp)
          simp only [markTags_contains, contains_keys, key p hp, lookup_valueSubs hnd, hl, Option.bind_some]
          cases hv : lookup p.1 vals with
          | some v =>
            have hcl := hcs p hp
            have hsh := hshape p hp v hv
            have := (ih p hp (hsub p hp) _ v hcl.2 hsh).1
            by_cases hm : p.1 ∈ set
            · simp [hm, this]
            · have hf : getSub p.2 p.1 objs = p.2.fresh := hcl.1 (by simpa using hm)
              rw [hf, valueOf_fresh] at this
              simp [hm, this, hf]
          | none =>
            by_cases hm : p.1 ∈ set
            · simp [hm]
            · simp [hm]
        · simp only [Field.marshalInto, Field.Clean, cleanSubs_iff]
          constructor
          · intro t ht
            rcases mem_markTags.mp ht with h | h
            · obtain ⟨q, hq, rfl⟩ := List.mem_map.mp h
              exact hkeys q hq
            · exact hset t h
          · intro p hp
            rw [key p hp]
            have hcl := hcs p hp
            cases hv : lookup p.1 vals with
            | some v =>
              refine ⟨fun hu => ?_, (ih p hp (hsub p hp) _ v hcl.2 (hshape p hp v hv)).2⟩
              rw [markTags_contains, contains_keys, hv] at hu
              simp at hu
            | none =>
              refine ⟨fun hu => hcl.1 ?_, hcl.2⟩
              rw [markTags_contains, contains_keys, hv] at hu
              simpa using hu
      | str _ => simp [Field.shapeOK] at hs
      | num _ => simp [Field.shapeOK] at hs
      | bin _ => simp [Field.shapeOK] at hs
      | hexv _ => simp [Field.shapeOK] at hs

end Iso8583

namespace Iso8583

/-! ### the object a successful decode builds is clean -/

theorem getSub_ofValueSubs {subs : List (Tag × Field)} (hd : noDupTags (subs.map (·.1)) = true)
    (vals : List (Tag × Value)) {p : Tag × Field} (hp : p ∈ subs) :
    getSub p.2 p.1 (Field.ofValueSubs subs vals) =
      (match lookup p.1 vals with
       | some v => p.2.ofValue v
       | none => p.2.fresh) := by
  have hl : lookup p.1 subs = some p.2 := lookup_of_mem hd (by cases p; exact hp)
  unfold getSub
  rw [ofValueSubs_eq, lookup_specList hd, hl]
  cases lookup p.1 vals <;> simp

theorem clean_ofValue : ∀ f : Field, f.distinctTags = true → ∀ v : Value, f.Clean (f.ofValue v) := by
  apply Field.induct'
  · intro s _ v; simp [Field.ofValue, Field.Clean]
  · intro s subs ih hd v
    simp only [Field.distinctTags, Bool.and_eq_true, distinctTagsSubs_iff] at hd
    obtain ⟨hnd, hsub⟩ := hd
    cases v with
    | comp vals =>
      simp only [Field.ofValue, Field.Clean, cleanSubs_iff]
      constructor
      · intro t ht
        exact (List.mem_filter.mp ht).2
      · intro p hp
        rw [getSub_ofValueSubs hnd vals hp]
        have hl : lookup p.1 subs = some p.2 := lookup_of_mem hnd (by cases p; exact hp)
        cases hv : lookup p.1 vals with
        | none => exact ⟨fun _ => rfl, clean_fresh _⟩
        | some w =>
          refine ⟨fun hu => ?_, ih p hp (hsub p hp) w⟩
          exfalso
          have hmem : p.1 ∈ (vals.map (·.1)).filter (lookupField subs) := by
            apply List.mem_filter.mpr
            refine ⟨(mem_keys_iff vals p.1).mpr (by simp [hv]), ?_⟩
            simp [lookupField_eq_isSome, hl]
          have : ((vals.map (·.1)).filter (lookupField subs)).contains p.1 = true :=
            List.contains_iff_mem.mpr hmem
          rw [this] at hu
          cases hu
    | str _ => simpa [Field.ofValue, Field.fresh] using clean_fresh (.comp s subs)
    | num _ => simpa [Field.ofValue, Field.fresh] using clean_fresh (.comp s subs)
    | bin _ => simpa [Field.ofValue, Field.fresh] using clean_fresh (.comp s subs)
    | hexv _ => simpa [Field.ofValue, Field.fresh] using clean_fresh (.comp s subs)

end Iso8583

namespace Iso8583

/-! ### unset by path refines the abstract erase, and keeps objects clean -/

theorem eraseKV_specList {β : Type} (id : Tag) (subs : List (Tag × Field)) (g : Tag → Field → Option β) :
    eraseKV id (specList subs g) = specList subs (fun t f => if t = id then none else g t f) := by
  induction subs with
  | nil => rfl
  | cons p rest ih =>
    obtain ⟨k, f⟩ := p
    rw [specList_cons, specList_cons]
    by_cases hk : k = id
    · subst hk
      cases hg : g k f with
      | none => simp [ih]
      | some y => simp [eraseKV, ih]
    · cases hg : g k f with
      | none => simp [hk, ih]
      | some y => simp [hk, eraseKV, ih]

theorem insertKV_specList {β : Type} {subs : List (Tag × Field)} (hd : noDupTags (subs.map (·.1)) = true)
    (id : Tag) (y : β) (g : Tag → Field → Option β) {f : Field} (hl : lookup id subs = some f)
    (hg : (g id f).isSome = true) :
    insertKV id y (specList subs g) = specList subs (fun t f => if t = id then some y else g t f) := by
  induction subs with
  | nil => simp [lookup] at hl
  | cons p rest ih =>
    obtain ⟨k, f'⟩ := p
    simp only [List.map_cons, noDupTags_cons] at hd
    rw [specList_cons, specList_cons]
    by_cases hk : k = id
    · subst hk
      simp only [lookup, if_true, Option.some.injEq] at hl
      subst hl
      obtain ⟨y0, hy0⟩ := Option.isSome_iff_exists.mp hg
      have hrest : specList rest g = specList rest (fun t f => if t = k then some y else g t f) := by
        apply specList_congr
        intro q hq
        have : q.1 ≠ k := by
          intro e
          exact hd.1 (e ▸ List.mem_map.mpr ⟨q, hq, rfl⟩)
        simp [this]
      simp [hy0, insertKV, ← hrest]
    · simp only [lookup, hk, if_false] at hl
      have := ih hd.2 hl
      cases hgk : g k f' with
      | none => simp [hk, this]
      | some y0 => simp [hk, insertKV, this]

theorem unsetIn_eq (more : List (Tag × Field)) (id : Tag) (objs : List (Tag × FieldObj)) (set : List Tag)
    (rest : Bytes) :
    Field.unsetIn more id objs set rest =
      match lookup id more with
      | none => .err
      | some f =>
        match f.unsetSubs (getSub f id objs) rest with
        | .ok o' => .ok (.comp (insertKV id o' objs) set)
        | .err => .err
        | .panic => .panic := by
  induction more with
  | nil => simp [Field.unsetIn, lookup]
  | cons p tl ih =>
    obtain ⟨k, f⟩ := p
    rw [Field.unsetIn]
    by_cases hk : k = id
    · subst hk; simp only [lookup, getSub, if_true]
      cases f.unsetSubs ((lookup k objs).getD f.fresh) rest <;> rfl
    · simp [lookup, hk, ih]

theorem unsetValueIn_eq (more : List (Tag × Field)) (id : Tag) (vals : List (Tag × Value)) (rest : Bytes) :
    Field.unsetValueIn more id vals rest =
      match lookup id more with
      | none => .err
      | some f =>
        match f.unsetValue ((lookup id vals).getD f.zeroValue) rest with
        | .ok v' => .ok (.comp (insertKV id v' vals))
        | .err => .err
        | .panic => .panic := by
  induction more with
  | nil => simp [Field.unsetValueIn, lookup]
  | cons p tl ih =>
    obtain ⟨k, f⟩ := p
    rw [Field.unsetValueIn]
    by_cases hk : k = id
    · subst hk; simp only [lookup, if_true]
      cases f.unsetValue ((lookup k vals).getD f.zeroValue) rest <;> rfl
    · simp [lookup, hk, ih]

theorem valueOf_comp (s : CompSpec) (subs : List (Tag × Field)) (objs : List (Tag × FieldObj)) (set : List Tag) :
    (Field.comp s subs).valueOf (.comp objs set) = .comp (Field.valueSubs subs objs set) := by
  simp [Field.valueOf]

/-- the relation between the concrete and the abstract unset, by outcome -/
def UnsetRel (f : Field) (obj : FieldObj) (path : Bytes) : Prop :=
  match f.unsetSubs obj path with
  | .ok obj' => f.unsetValue (f.valueOf obj) path = .ok (f.valueOf obj') ∧ f.Clean obj'
  | .err => f.unsetValue (f.valueOf obj) path = .err
  | .panic => False

theorem unset_refines : ∀ f : Field, f.distinctTags = true → ∀ (obj : FieldObj) (path : Bytes),
    f.Clean obj → UnsetRel f obj path := by
  apply Field.induct'
  · intro s _ obj path _
    simp [UnsetRel, Field.unsetSubs, Field.unsetValue]
  · intro s subs ih hd obj path hc
    cases obj with
    | prim _ => simp [Field.Clean] at hc
    | comp objs set =>
      have hc0 := hc
      simp only [Field.distinctTags, Bool.and_eq_true, distinctTagsSubs_iff] at hd
      obtain ⟨hnd, hsub⟩ := hd
      simp only [Field.Clean, cleanSubs_iff] at hc
      obtain ⟨hset, hcs⟩ := hc
      unfold UnsetRel
      simp only [Field.unsetSubs, valueOf_comp, Field.unsetValue]
      by_cases hpe : path.isEmpty = true
      · simp only [hpe, if_true]
        exact ⟨by first | rfl | trivial, hc0⟩
      · simp only [hpe]
        generalize hcut : cutDot path = cp
        obtain ⟨id, rest⟩ := cp
        simp only [Bool.false_eq_true, if_false]
        -- is `id` a set subfield? same answer on both sides
        have hsome : (lookup id (Field.valueSubs subs objs set)).isSome = set.contains id := by
          rw [lookup_valueSubs hnd]
          by_cases hm : id ∈ set
          · have := hset id hm
            rw [lookupField_eq_isSome] at this
            obtain ⟨f, hf⟩ := Option.isSome_iff_exists.mp this
            simp [hf, hm]
          · cases hl : lookup id subs <;> simp [hm]
        rw [hsome]
        by_cases hm : set.contains id = true
        · simp only [hm, if_true]
          have hm' : id ∈ set := List.contains_iff_mem.mp hm
          have hin := hset id hm'
          obtain ⟨f, hf⟩ := Option.isSome_iff_exists.mp (by rw [lookupField_eq_isSome] at hin; exact hin)
          have hfm : (id, f) ∈ subs := mem_of_lookup hf
          by_cases hre : rest.isEmpty = true
          · -- the named subfield itself is unset and re-created
            simp only [hre, if_true, hin]
            constructor
            · rw [valueOf_comp]
              congr 2
              rw [valueSubs_eq, valueSubs_eq, eraseKV_specList]
              apply specList_congr
              intro p hp
              by_cases hpid : p.1 = id
              · simp [hpid]
              · have h1 : (set.filter (fun t => t != id)).contains p.1 = set.contains p.1 := by
                  rw [Bool.eq_iff_iff]
                  simp [List.contains_iff_mem, List.mem_filter, hpid]
                have h2 : getSub p.2 p.1 (eraseKV id objs) = getSub p.2 p.1 objs := by
                  simp [getSub, lookup_eraseKV, hpid]
                simp [hpid, h1, h2]
            · simp only [Field.Clean, cleanSubs_iff]
              constructor
              · intro t ht
                exact hset t (List.mem_filter.mp ht).1
              · intro p hp
                by_cases hpid : p.1 = id
                · have : getSub p.2 p.1 (eraseKV id objs) = p.2.fresh := by
                    simp [getSub, lookup_eraseKV, hpid]
                  rw [this]
                  exact ⟨fun _ => rfl, clean_fresh _⟩
                · have h2 : getSub p.2 p.1 (eraseKV id objs) = getSub p.2 p.1 objs := by
                    simp [getSub, lookup_eraseKV, hpid]
                  rw [h2]
                  refine ⟨fun hu => (hcs p hp).1 ?_, (hcs p hp).2⟩
                  rw [← hu, Bool.eq_iff_iff]
                  simp [List.contains_iff_mem, List.mem_filter, hpid]
          · -- descend into the set composite subfield
            simp only [hre, Bool.false_eq_true, if_false]
            rw [unsetIn_eq, unsetValueIn_eq, hf]
            have hlv : lookup id (Field.valueSubs subs objs set) = some (f.valueOf (getSub f id objs)) := by
              rw [lookup_valueSubs hnd, hf]; simp [hm']
            simp only [hlv, Option.getD_some]
            have hrel := ih (id, f) hfm (hsub (id, f) hfm) (getSub f id objs) rest (hcs (id, f) hfm).2
            unfold UnsetRel at hrel
            cases hr : f.unsetSubs (getSub f id objs) rest with
            | panic => simp [hr] at hrel
            | err => simp only [hr] at hrel; simp [hrel]
            | ok o' =>
              simp only [hr] at hrel
              obtain ⟨hv, hcl⟩ := hrel
              have hval : (Field.comp s subs).valueOf (.comp (insertKV id o' objs) set) =
                  .comp (insertKV id (f.valueOf o') (Field.valueSubs subs objs set)) := by
                rw [valueOf_comp]
                congr 1
                rw [valueSubs_eq, valueSubs_eq]
                rw [insertKV_specList hnd id _ _ hf (by simp [hm'])]
                apply specList_congr
                intro p hp
                by_cases hpid : p.1 = id
                · have hpf : p.2 = f := by
                    have := lookup_of_mem hnd (show (p.1, p.2) ∈ subs by cases p; exact hp)
                    rw [hpid, hf] at this
                    exact (Option.some.inj this).symm
                  simp [hpid, hm', hpf, getSub, lookup_insertKV_same]
                · have : getSub p.2 p.1 (insertKV id o' objs) = getSub p.2 p.1 objs := by
                    simp [getSub, lookup_insertKV_ne hpid]
                  simp [hpid, this]
              rw [hv]
              dsimp only
              refine ⟨by rw [hval], ?_⟩
              · simp only [Field.Clean, cleanSubs_iff]
                refine ⟨hset, fun p hp => ?_⟩
                by_cases hpid : p.1 = id
                · have hpf : p.2 = f := by
                    have := lookup_of_mem hnd (show (p.1, p.2) ∈ subs by cases p; exact hp)
                    rw [hpid, hf] at this
                    exact (Option.some.inj this).symm
                  have : getSub p.2 p.1 (insertKV id o' objs) = o' := by
                    simp [getSub, hpid, lookup_insertKV_same]
                  rw [this, hpf]
                  refine ⟨fun hu => ?_, hcl⟩
                  rw [hpid, hm] at hu; cases hu
                · have : getSub p.2 p.1 (insertKV id o' objs) = getSub p.2 p.1 objs := by
                    simp [getSub, lookup_insertKV_ne hpid]
                  rw [this]; exact hcs p hp
        · simp only [hm, Bool.false_eq_true, if_false]
          exact ⟨by first | rfl | trivial, hc0⟩

end Iso8583

namespace Iso8583

/-! ### message level: how an update of one field object shows in `abs` and `Clean` -/

theorem mem_of_lookupId {α : Type} {l : List (Nat × α)} {i : Nat} {x : α} (h : lookupId i l = some x) :
    (i, x) ∈ l := by
  induction l with
  | nil => simp [lookupId] at h
  | cons p rest ih =>
    obtain ⟨k, v⟩ := p
    by_cases hk : k = i
    · subst hk; simp [lookupId] at h; subst h; exact List.mem_cons_self
    · simp [lookupId, hk] at h; exact List.mem_cons_of_mem _ (ih h)

theorem fieldOf_ne_one {spec : MsgSpec} {id : Nat} {f : Field} (h : spec.fieldOf id = some f) : id ≠ 1 := by
  intro e; subst e; simp [MsgSpec.fieldOf] at h

theorem fieldOf_distinct {spec : MsgSpec} (hs : spec.tagsOK = true) {id : Nat} {f : Field}
    (h : spec.fieldOf id = some f) : f.distinctTags = true := by
  unfold MsgSpec.fieldOf at h
  by_cases h0 : id = 0
  · simp [h0] at h; subst h; simp [Field.distinctTags]
  · by_cases h1 : id = 1
    · simp [h1] at h
    · simp only [h0, h1, if_false] at h
      have hm := mem_of_lookupId h
      simp only [MsgSpec.tagsOK, List.all_eq_true, Bool.and_eq_true] at hs
      exact (hs (id, f) hm).2

theorem fieldOf_ge_two {spec : MsgSpec} (hs : spec.tagsOK = true) {id : Nat} {f : Field}
    (h : lookupId id spec.fields = some f) : 2 ≤ id := by
  have hm := mem_of_lookupId h
  simp only [MsgSpec.tagsOK, List.all_eq_true, Bool.and_eq_true, decide_eq_true_eq] at hs
  exact (hs (id, f) hm).1

theorem cur_eq_valueOf (spec : MsgSpec) (o : MsgObj) (hc : o.Clean spec) {id : Nat} {f : Field}
    (hf : spec.fieldOf id = some f) : (o.abs spec).cur id f = f.valueOf (o.get id f) := by
  unfold AbsState.cur MsgObj.abs
  have h1 := fieldOf_ne_one hf
  by_cases hp : o.present.contains id = true
  · have hp' : id ∈ o.present := List.contains_iff_mem.mp hp
    simp [hp', h1, hf]
  · have := (hc.2.2 id f hf).1 (by simpa using hp)
    simp only [hp, Bool.false_eq_true, if_false, Option.getD_none]
    rw [this, valueOf_fresh]

theorem abs_update (spec : MsgSpec) (o o' : MsgObj) (id : Nat) (f : Field) (x : FieldObj)
    (hf : spec.fieldOf id = some f) (hfields : o'.fields = setId id x o.fields)
    (hpres : ∀ j, o'.present.contains j = (j == id || o.present.contains j)) :
    o'.abs spec = (o.abs spec).set id (f.valueOf x) := by
  funext j
  have h1 := fieldOf_ne_one hf
  unfold MsgObj.abs AbsState.set MsgObj.get
  rw [hpres j, hfields]
  by_cases hj : j = id
  · subst hj; simp [h1, hf, lookupId_setId]
  · simp [hj, lookupId_setId]

theorem clean_update (spec : MsgSpec) (o o' : MsgObj) (id : Nat) (f : Field) (x : FieldObj)
    (hc : o.Clean spec) (hf : spec.fieldOf id = some f) (hx : f.Clean x)
    (hfields : o'.fields = setId id x o.fields)
    (hpres : ∀ j, o'.present.contains j = (j == id || o.present.contains j)) : o'.Clean spec := by
  obtain ⟨h1, h2, h3⟩ := hc
  refine ⟨?_, ?_, ?_⟩
  · intro i hi
    have := hpres i
    rw [List.contains_iff_mem.mpr hi] at this
    by_cases hid : i = id
    · subst hid; right; simp [hf]
    · have hm : o.present.contains i = true := by simpa [hid] using this.symm
      exact h1 i (List.contains_iff_mem.mp hm)
  · rw [hpres 1, h2]; simp
  · intro j g hg
    unfold MsgObj.get
    rw [hfields, lookupId_setId, hpres j]
    by_cases hj : j = id
    · subst hj
      rw [hf] at hg; cases hg
      simp [hx]
    · have := h3 j g hg
      unfold MsgObj.get at this
      simpa [hj] using this

/-- marking the bitmap field (and nothing else) -/
theorem abs_mark1 (spec : MsgSpec) (o o' : MsgObj) (hfields : o'.fields = o.fields)
    (hpres : ∀ j, o'.present.contains j = (j == 1 || o.present.contains j)) :
    o'.abs spec = (o.abs spec).set 1 bitmapMark := by
  funext j
  unfold MsgObj.abs AbsState.set MsgObj.get
  rw [hpres j, hfields]
  by_cases hj : j = 1
  · subst hj; simp
  · simp [hj]

theorem clean_mark1 (spec : MsgSpec) (o o' : MsgObj) (hc : o.Clean spec) (hfields : o'.fields = o.fields)
    (hpres : ∀ j, o'.present.contains j = (j == 1 || o.present.contains j)) : o'.Clean spec := by
  obtain ⟨h1, _, h3⟩ := hc
  refine ⟨?_, ?_, ?_⟩
  · intro i hi
    have := hpres i
    rw [List.contains_iff_mem.mpr hi] at this
    by_cases hid : i = 1
    · left; exact hid
    · have hm : o.present.contains i = true := by simpa [hid] using this.symm
      exact h1 i (List.contains_iff_mem.mp hm)
  · rw [hpres 1]; simp
  · intro j g hg
    have hj := fieldOf_ne_one hg
    unfold MsgObj.get
    rw [hfields, hpres j]
    have := h3 j g hg
    unfold MsgObj.get at this
    simpa [hj] using this

/-- an object with the same fields and presence (only the bitmap cache / content differ) -/
theorem abs_same (spec : MsgSpec) (o o' : MsgObj) (hfields : o'.fields = o.fields)
    (hpres : o'.present = o.present) : o'.abs spec = o.abs spec := by
  funext j; unfold MsgObj.abs MsgObj.get; rw [hfields, hpres]

theorem clean_same (spec : MsgSpec) (o o' : MsgObj) (hc : o.Clean spec) (hfields : o'.fields = o.fields)
    (hpres : o'.present = o.present) : o'.Clean spec := by
  obtain ⟨h1, h2, h3⟩ := hc
  refine ⟨by rw [hpres]; exact h1, by rw [hpres]; exact h2, ?_⟩
  intro j g hg
  unfold MsgObj.get; rw [hfields, hpres]; exact h3 j g hg

/-- the bitmap field of a clean message is present: marking it changes nothing -/
theorem abs_set1 (spec : MsgSpec) (o : MsgObj) (hc : o.Clean spec) :
    (o.abs spec).set 1 bitmapMark = o.abs spec := by
  funext j
  have h1 : 1 ∈ o.present := List.contains_iff_mem.mp hc.2.1
  unfold AbsState.set MsgObj.abs
  by_cases hj : j = 1
  · subst hj; simp [h1]
  · simp [hj]

/-- `m.bitmap()` on a clean message: fields and marked ids stay, the bitmap is cached -/
theorem touchBitmap_spec (spec : MsgSpec) (o : MsgObj) (hc : o.Clean spec) :
    (o.touchBitmap spec).fields = o.fields ∧
    (∀ j, (o.touchBitmap spec).present.contains j = o.present.contains j) ∧
    (o.touchBitmap spec).cachedBitmap = true := by
  have h1 : 1 ∈ o.present := List.contains_iff_mem.mp hc.2.1
  by_cases hcb : o.cachedBitmap = true
  · have : o.touchBitmap spec = o := by simp [MsgObj.touchBitmap, hcb]
    rw [this]
    exact ⟨rfl, fun _ => rfl, hcb⟩
  · have : o.touchBitmap spec =
        { o with cachedBitmap := true, present := markId 1 o.present, bitmap := spec.zeroBitmap } := by
      simp [MsgObj.touchBitmap, hcb]
    rw [this]
    refine ⟨rfl, fun j => ?_, rfl⟩
    show (markId 1 o.present).contains j = o.present.contains j
    rw [markId_contains]
    by_cases hj : j = 1
    · subst hj; simp [h1]
    · simp [hj]

/-- an object with the same fields and the same marked ids (as a set) has the same abstract
state and is clean alike -/
theorem abs_same_set (spec : MsgSpec) (o o' : MsgObj) (hfields : o'.fields = o.fields)
    (hpres : ∀ j, o'.present.contains j = o.present.contains j) : o'.abs spec = o.abs spec := by
  funext j; unfold MsgObj.abs MsgObj.get; rw [hfields, hpres j]

theorem clean_same_set (spec : MsgSpec) (o o' : MsgObj) (hc : o.Clean spec) (hfields : o'.fields = o.fields)
    (hpres : ∀ j, o'.present.contains j = o.present.contains j) : o'.Clean spec := by
  obtain ⟨h1, h2, h3⟩ := hc
  refine ⟨?_, by rw [hpres 1]; exact h2, ?_⟩
  · intro i hi
    have := hpres i
    rw [List.contains_iff_mem.mpr hi] at this
    exact h1 i (List.contains_iff_mem.mp this.symm)
  · intro j g hg
    unfold MsgObj.get; rw [hfields, hpres j]; exact h3 j g hg

end Iso8583

namespace Iso8583

/-- does `SetBytes(b)` decode on this field (always, for a primitive: a numeric that does
not parse just keeps its value) -/
def Field.bodyDecodes : Field → Bytes → Bool
  | .prim _, _ => true
  | .comp s subs, b => match Field.unpackBody s subs b false with | .ok _ => true | _ => false

theorem valueOf_prim (s : PrimSpec) (v : Value) : (Field.prim s).valueOf (.prim v) = v := by
  simp [Field.valueOf]

theorem setBytesInto_prim (s : PrimSpec) (o : FieldObj) (b : Bytes) :
    (Field.prim s).setBytesInto o b =
      match s.setBytes b with
      | .ok v => (.prim v, .ok ())
      | .err => (o, .err)
      | .panic => (o, .panic) := by
  simp only [Field.setBytesInto]
  cases s.setBytes b <;> rfl

theorem setBytes_refines (f : Field) (hd : f.distinctTags = true) (obj : FieldObj) (b : Bytes)
    (hc : f.Clean obj) :
    f.valueOf (f.setBytesInto obj b).1 = f.setBytesValue (f.valueOf obj) b ∧
    (f.bodyDecodes b = true → f.Clean (f.setBytesInto obj b).1) := by
  cases f with
  | prim s =>
    cases obj with
    | comp _ _ => simp [Field.Clean] at hc
    | prim w =>
      rw [setBytesInto_prim, valueOf_prim]
      simp only [Field.setBytesValue]
      cases s.setBytes b with
      | ok v => exact ⟨valueOf_prim s v, fun _ => by simp [Field.Clean]⟩
      | err => exact ⟨valueOf_prim s w, fun _ => by simp [Field.Clean]⟩
      | panic => exact ⟨valueOf_prim s w, fun _ => by simp [Field.Clean]⟩
  | comp s subs =>
    simp only [Field.setBytesInto, Field.setBytesValue, Field.bodyDecodes]
    cases Field.unpackBody s subs b false with
    | ok r =>
      obtain ⟨vals, n⟩ := r
      exact ⟨rfl, fun _ => clean_ofValue (.comp s subs) hd (.comp (orderBySpec subs vals))⟩
    | err p => exact ⟨rfl, fun hh => by simp at hh⟩
    | panic => exact ⟨rfl, fun hh => by simp at hh⟩

end Iso8583

namespace Iso8583

/-! ### insertion sort: a sorted permutation, unique when the order is a numeric key -/

theorem insertSorted_perm {α : Type} (less : α → α → Bool) (x : α) (ys : List α) :
    (insertSorted less x ys).Perm (x :: ys) := by
  induction ys with
  | nil => exact List.Perm.refl _
  | cons y ys ih =>
    simp only [insertSorted]
    split
    · exact List.Perm.refl _
    · exact (List.Perm.cons y ih).trans (List.Perm.swap x y ys)

theorem sortBy_perm' {α : Type} (less : α → α → Bool) (l : List α) : (sortBy less l).Perm l := by
  induction l with
  | nil => exact List.Perm.refl _
  | cons x xs ih => exact (insertSorted_perm less x _).trans (List.Perm.cons x ih)

theorem insertSorted_pairwise {α : Type} (less : α → α → Bool) (key : α → Nat) (x : α) (ys : List α)
    (hless : ∀ y, y ∈ ys → less x y = decide (key x < key y))
    (hs : ys.Pairwise (fun a b => key a ≤ key b)) :
    (insertSorted less x ys).Pairwise (fun a b => key a ≤ key b) := by
  induction ys with
  | nil => simp [insertSorted]
  | cons y ys ih =>
    simp only [insertSorted]
    have hy := hless y List.mem_cons_self
    rw [List.pairwise_cons] at hs
    split
    · rename_i hlt
      rw [hy] at hlt
      have hlt' : key x < key y := by simpa using hlt
      refine List.pairwise_cons.mpr ⟨?_, List.pairwise_cons.mpr hs⟩
      intro b hb
      rcases List.mem_cons.mp hb with rfl | hb
      · omega
      · have := hs.1 b hb; omega
    · rename_i hlt
      rw [hy] at hlt
      have hge : key y ≤ key x := by
        have : ¬ key x < key y := by simpa using hlt
        omega
      refine List.pairwise_cons.mpr ⟨?_, ih (fun z hz => hless z (List.mem_cons_of_mem _ hz)) hs.2⟩
      intro b hb
      have := (insertSorted_perm less x ys).mem_iff.mp hb
      rcases List.mem_cons.mp this with rfl | hb'
      · exact hge
      · exact hs.1 b hb'

theorem sortBy_pairwise {α : Type} (less : α → α → Bool) (key : α → Nat) (l : List α)
    (hless : ∀ a b, a ∈ l → b ∈ l → less a b = decide (key a < key b)) :
    (sortBy less l).Pairwise (fun a b => key a ≤ key b) := by
  induction l with
  | nil => simp [sortBy]
  | cons x xs ih =>
    simp only [sortBy]
    apply insertSorted_pairwise less key
    · intro y hy
      have := (sortBy_perm' less xs).mem_iff.mp hy
      exact hless x y List.mem_cons_self (List.mem_cons_of_mem _ this)
    · exact ih (fun a b ha hb => hless a b (List.mem_cons_of_mem _ ha) (List.mem_cons_of_mem _ hb))

/-- two permutations of each other sort to the same list when the comparator is `<` on a
numeric key that determines the element -/
theorem sortBy_eq_of_perm {α : Type} (less : α → α → Bool) (key : α → Nat) {l₁ l₂ : List α}
    (hp : l₁.Perm l₂)
    (hless : ∀ a b, a ∈ l₁ → b ∈ l₁ → less a b = decide (key a < key b))
    (hkey : ∀ a b, a ∈ l₁ → b ∈ l₁ → key a = key b → a = b) :
    sortBy less l₁ = sortBy less l₂ := by
  have hless₂ : ∀ a b, a ∈ l₂ → b ∈ l₂ → less a b = decide (key a < key b) :=
    fun a b ha hb => hless a b (hp.mem_iff.mpr ha) (hp.mem_iff.mpr hb)
  apply List.Perm.eq_of_pairwise (le := fun a b => key a ≤ key b)
  · intro a b ha hb h1 h2
    have ha' := (sortBy_perm' less l₁).mem_iff.mp ha
    have hb' := hp.mem_iff.mpr ((sortBy_perm' less l₂).mem_iff.mp hb)
    exact hkey a b ha' hb' (by omega)
  · exact sortBy_pairwise less key l₁ hless
  · exact sortBy_pairwise less key l₂ hless₂
  · exact ((sortBy_perm' less l₁).trans hp).trans (sortBy_perm' less l₂).symm

/-! ### decimal numerals: `strconv.Atoi (strconv.Itoa n) = n` -/

theorem decDigits_spec_obj : ∀ (f n : Nat), n < f →
    ofDigits 10 (decDigits f n) = n ∧ (∀ d, d ∈ decDigits f n → d ≤ 9) ∧ decDigits f n ≠ [] := by
  intro f
  induction f with
  | zero => intro n h; omega
  | succ f ih =>
    intro n h
    unfold decDigits
    by_cases h10 : n < 10
    · simp only [h10, if_true]
      refine ⟨by simp [ofDigits], ?_, by simp⟩
      intro d hd; simp at hd; omega
    · simp only [h10, if_false]
      have hlt : n / 10 < f := by omega
      obtain ⟨h1, h2, _⟩ := ih (n / 10) hlt
      refine ⟨?_, ?_, by simp⟩
      · rw [ofDigits_append_singleton, h1]; omega
      · intro d hd
        rcases List.mem_append.mp hd with hd | hd
        · exact h2 d hd
        · simp at hd; omega

theorem atoi_natToDec (n : Nat) : atoi? (natToDec n) = some (n : Int) := by
  obtain ⟨h1, h2, h3⟩ := decDigits_spec_obj (n + 1) n (by omega)
  unfold natToDec
  cases hds : decDigits (n + 1) n with
  | nil => exact absurd hds h3
  | cons d ds =>
    rw [hds] at h1 h2
    have hd : d ≤ 9 := h2 d List.mem_cons_self
    have hm : mapM? decVal? ((d :: ds).map asciiDigit) = some (d :: ds) :=
      mapM?_map_of (d :: ds) (fun y hy => decVal_asciiDigit (h2 y hy))
    have hc : (asciiDigit d).toNat = 48 + d := asciiDigit_toNat hd
    have hne43 : ¬ asciiDigit d = 43 := by
      intro e; have := congrArg UInt8.toNat e; rw [hc] at this; simp at this; omega
    have hne45 : ¬ asciiDigit d = 45 := by
      intro e; have := congrArg UInt8.toNat e; rw [hc] at this; simp at this; omega
    show atoi? (asciiDigit d :: ds.map asciiDigit) = _
    unfold atoi?
    simp only [hne43, hne45, if_false]
    have hm' : mapM? decVal? (asciiDigit d :: ds.map asciiDigit) = some (d :: ds) := hm
    rw [hm']
    simp [h1]

theorem byInt_less_natToDec (a b : Nat) :
    SortKind.byInt.less (natToDec a) (natToDec b) = decide (a < b) := by
  simp [SortKind.less, atoi_natToDec]

end Iso8583

/-! ### a concrete spec for the non-vacuity examples and witnesses of C10 / C14 / C15 -/
namespace Iso8583.ObjDemo
open Iso8583

def strField (len : Nat) : Field :=
  .prim { kind := .string, len := len, enc := .ascii, pref := .var .ascii 2, pad := .nil }

def compSpec : CompSpec :=
  { len := 99, pref := .var .ascii 2,
    mode := .tagged { len := 2, enc := some .ascii, pad := .nil, sort := .strings,
                      skipUnknown := false, prefUnknown := none } }

def compSubs : List (Tag × Field) := [([48, 97], strField 9), ([48, 98], strField 9)]

/-- MTI, 8-byte binary bitmap, String field 2, tagged composite 55 with subfields 0a, 0b -/
def spec : MsgSpec :=
  { mti := { kind := .string, len := 4, enc := .ascii, pref := .fixed .ascii, pad := .nil },
    bitmap := { specLen := 8, enc := .binary, pref := .fixed .binary, auto := true },
    fields := [(2, strField 19), (55, .comp compSpec compSubs)] }

/-- "0100", bitmap with bits 2 and 55, field 2 = "41", field 55 = { 0a = "xy" } -/
def wire : Bytes := [48,49,48,48, 0x40,0,0,0,0,0,0x02,0, 48,50,52,49, 48,54, 48,97,48,50,120,121]

/-- the same message cut inside subfield 0b of field 55: 0a = "xy" decodes, 0b does not -/
def cutWire : Bytes := [48,49,48,48, 0x40,0,0,0,0,0,0x02,0, 48,50,52,49, 49,48, 48,97,48,50,120,121, 48,98,48,53]

/-- populate MTI, field 2 and both subfields of 55 -/
def populate : List Op :=
  [.mti [48,49,48,48], .setField 2 [52,49,49,49],
   .marshalField 55 (.comp [([48, 97], .str [65]), ([48, 98], .str [66])])]

end Iso8583.ObjDemo

/-! ### message-level helpers used by the per-operation refinement lemmas of C14 -/
namespace Iso8583

theorem fieldOf_zero (spec : MsgSpec) : spec.fieldOf 0 = some (.prim spec.mti) := by
  simp [MsgSpec.fieldOf]

theorem decodeOK_bodyDecodes {spec : MsgSpec} {id : Nat} {b : Bytes} {f : Field}
    (hf : spec.fieldOf id = some f) (hok : (Op.setField id b).decodeOK spec = true) :
    f.bodyDecodes b = true := by
  simp only [Op.decodeOK, hf] at hok
  cases f with
  | prim s => rfl
  | comp s subs =>
    simp only [Field.bodyDecodes]
    cases h : Field.unpackBody s subs b false with
    | ok r => rfl
    | err p => simp [h] at hok
    | panic => simp [h] at hok

theorem json_fst (spec : MsgSpec) (o : MsgObj) : (o.json spec).1 = (o.pack spec).1 := by
  unfold MsgObj.json
  dsimp only
  split <;> rfl

theorem clone_fst (spec : MsgSpec) (o : MsgObj) : (o.clone spec).1 = (o.pack spec).1 := by
  unfold MsgObj.clone
  dsimp only
  split
  · split <;> rfl
  · rfl

theorem lookupId_objFields (spec : MsgSpec) (l : List (Nat × Value)) (i : Nat) :
    lookupId i (l.filterMap (fun p => (lookupId p.1 spec.fields).map fun f => (p.1, f.ofValue p.2))) =
      match lookupId i spec.fields with
      | none => none
      | some f => (lookupId i l).map f.ofValue := by
  induction l with
  | nil => cases lookupId i spec.fields <;> simp [lookupId]
  | cons p rest ih =>
    obtain ⟨k, w⟩ := p
    by_cases hk : k = i
    · subst hk
      cases hf : lookupId k spec.fields with
      | none => simp [List.filterMap_cons, hf, ih]
      | some f => simp [List.filterMap_cons, hf, lookupId]
    · cases hf : lookupId k spec.fields with
      | none => simp [List.filterMap_cons, hf, ih, lookupId, hk]
      | some f => simp [List.filterMap_cons, hf, ih, lookupId, hk]

theorem mem_objPresent (spec : MsgSpec) (l : List (Nat × Value)) (i : Nat) :
    i ∈ l.filterMap (fun p => (lookupId p.1 spec.fields).map fun _ => p.1) ↔
      (lookupId i spec.fields).isSome = true ∧ (lookupId i l).isSome = true := by
  induction l with
  | nil => simp [lookupId]
  | cons p rest ih =>
    obtain ⟨k, w⟩ := p
    by_cases hk : k = i
    · subst hk
      cases hf : lookupId k spec.fields with
      | none => simp [List.filterMap_cons, hf, ih]
      | some f => simp [List.filterMap_cons, hf, lookupId]
    · have hk' : ¬ i = k := fun e => hk e.symm
      cases hf : lookupId k spec.fields with
      | none => simp [List.filterMap_cons, hf, ih, lookupId, hk]
      | some f => simp [List.filterMap_cons, hf, ih, lookupId, hk, hk']

theorem contains_objPresent (spec : MsgSpec) (l : List (Nat × Value)) (i : Nat) :
    (l.filterMap (fun p => (lookupId p.1 spec.fields).map fun _ => p.1)).contains i =
      ((lookupId i spec.fields).isSome && (lookupId i l).isSome) := by
  rw [Bool.eq_iff_iff, List.contains_iff_mem, mem_objPresent]
  simp

theorem objOfMsg_get (spec : MsgSpec) (hs : spec.tagsOK = true) (m : Msg) (bm : Bytes) (i : Nat) (f : Field)
    (hf : lookupId i spec.fields = some f) :
    (spec.objOfMsg m bm).get i f = (match lookupId i m.fields with | some v => f.ofValue v | none => f.fresh) := by
  have h2 := fieldOf_ge_two hs hf
  have h0 : ¬ (0 = i) := by omega
  unfold MsgObj.get MsgSpec.objOfMsg
  cases hm : m.mti with
  | none =>
    simp only [List.nil_append, lookupId_objFields, hf]
    cases lookupId i m.fields <;> rfl
  | some v =>
    simp only [List.cons_append, List.nil_append, lookupId, h0, if_false, lookupId_objFields, hf]
    cases lookupId i m.fields <;> rfl

theorem objOfMsg_present (spec : MsgSpec) (m : Msg) (bm : Bytes) (i : Nat) :
    (spec.objOfMsg m bm).present.contains i =
      ((i == 0 && m.mti.isSome) || i == 1 || ((lookupId i spec.fields).isSome && (lookupId i m.fields).isSome)) := by
  unfold MsgSpec.objOfMsg
  simp only [List.contains_append, List.contains_cons, contains_objPresent]
  cases m.mti <;> by_cases h0 : i = 0 <;>
    first
      | (subst h0; simp)
      | (have hb : (i == 0) = false := beq_eq_false_iff_ne.mpr h0
         simp [h0, hb])

end Iso8583
