/-
Bridge from the spec grammar's `Coherent` predicates (Spec/Coherent.lean) to the light
hypothesis `MsgSpec.tagsOK` used by the history theorems (C10 / C14 / C15): ids of data
elements ≥ 2 (K8) and subfield tags pairwise distinct at every level (K6).
-/
import Iso8583.Spec.Coherent
import Iso8583.Lemmas.Object

namespace Iso8583

theorem noDupTags_of_allDistinct (l : List Tag) (h : allDistinct l = true) : noDupTags l = true := by
  induction l with
  | nil => rfl
  | cons t ts ih =>
    simp only [allDistinct, Bool.and_eq_true] at h
    simp only [noDupTags, Bool.and_eq_true]
    exact ⟨by simpa using h.1, ih h.2⟩

theorem coherentSubs_mem (subs : List (Tag × Field)) (pos : Bool) (h : Field.coherentSubs subs pos = true) :
    ∀ p, p ∈ subs → ∃ b, p.2.coherent b = true := by
  induction subs with
  | nil => intro p hp; cases hp
  | cons q rest ih =>
    obtain ⟨t, f⟩ := q
    cases rest with
    | nil =>
      intro p hp
      simp only [List.mem_singleton] at hp
      subst hp
      simp only [Field.coherentSubs] at h
      exact ⟨pos, h⟩
    | cons r rest' =>
      simp only [Field.coherentSubs, Bool.and_eq_true] at h
      intro p hp
      rcases List.mem_cons.mp hp with rfl | hp
      · exact ⟨false, h.1⟩
      · exact ih h.2 p hp

theorem distinctTags_of_coherent : ∀ f : Field, ∀ lp : Bool, f.coherent lp = true → f.distinctTags = true := by
  apply Field.induct'
  · intro s lp _; simp [Field.distinctTags]
  · intro s subs ih lp h
    -- each conjunct is extracted by cases on its Boolean value: were it `false`, the whole
    -- conjunction would be (robust against further clauses being added to `Field.coherent`)
    have hd : allDistinct (subs.map (·.1)) = true := by
      have hk := h
      unfold Field.coherent at hk
      generalize hb : sortKeysOK _ (subs.map (·.1)) = bk at hk
      cases bk with
      | false => simp at hk
      | true =>
        simp only [sortKeysOK, Bool.and_eq_true] at hb
        exact hb.1.1
    have hsubs : ∃ pos, Field.coherentSubs subs pos = true := by
      -- the mode clause is the last conjunct
      have hmode := h
      simp only [Field.coherent, Bool.and_eq_true] at hmode
      replace hmode := hmode.2
      cases hm : s.mode with
      | tagged t =>
        cases he : t.enc with
        | none =>
          cases hc : Field.coherentSubs subs true with
          | true => exact ⟨true, hc⟩
          | false => simp [hm, he, hc] at hmode
        | some enc =>
          cases hc : Field.coherentSubs subs false with
          | true => exact ⟨false, hc⟩
          | false => simp [hm, he, hc] at hmode
      | bitmapped b =>
        cases hc : Field.coherentSubs subs false with
        | true => exact ⟨false, hc⟩
        | false => simp [hm, hc] at hmode
    obtain ⟨pos, hcs⟩ := hsubs
    simp only [Field.distinctTags, Bool.and_eq_true, distinctTagsSubs_iff]
    refine ⟨noDupTags_of_allDistinct _ hd, fun p hp => ?_⟩
    obtain ⟨b, hb⟩ := coherentSubs_mem subs pos hcs p hp
    exact ih p hp b hb

/-- a coherent message spec satisfies the hypothesis of the history theorems -/
theorem tagsOK_of_coherent (spec : MsgSpec) (h : spec.coherent = true) : spec.tagsOK = true := by
  simp only [MsgSpec.tagsOK, List.all_eq_true, Bool.and_eq_true, decide_eq_true_eq]
  intro p hp
  -- the clause about the data elements is the last conjunct of `MsgSpec.coherent`
  simp only [MsgSpec.coherent, Bool.and_eq_true, List.all_eq_true, decide_eq_true_eq] at h
  have := h.2 p hp
  exact ⟨this.1.1, distinctTags_of_coherent p.2 false this.2⟩

end Iso8583
