/-
Helper lemmas about Model/Builder.lean: `strconv.Atoi ∘ strconv.Itoa`, `omitempty`, and the
message-level field map.
-/
import Iso8583.Model.Builder

namespace Iso8583.Builder

/-! ### Atoi (Itoa i) = i -/

theorem digitVal_digitChar : ∀ d, d < 10 → digitVal? (digitChar d) = some d := by decide

theorem digitChar_not_sign : ∀ d, d < 10 → digitChar d ≠ '+' ∧ digitChar d ≠ '-' := by decide

theorem decValAcc_append (a : Option Nat) (xs : List Char) (c : Char) :
    decValAcc a (xs ++ [c]) =
      match decValAcc a xs with
      | some v => (match digitVal? c with | some d => some (v * 10 + d) | none => none)
      | none => none := by
  induction xs generalizing a with
  | nil =>
    cases a with
    | none => simp [decValAcc]
    | some v => simp only [List.nil_append, decValAcc]; cases digitVal? c <;> simp
  | cons x xs ih =>
    cases a with
    | none => simp [decValAcc]
    | some v =>
      simp only [List.cons_append, decValAcc]
      cases digitVal? x with
      | none => simp
      | some d => exact ih _

theorem natDigits_ne_nil (fuel n : Nat) : natDigits (fuel + 1) n ≠ [] := by
  simp only [natDigits]; split <;> simp

theorem natDigits_digits (fuel n : Nat) : ∀ c ∈ natDigits fuel n, ∃ d, d < 10 ∧ c = digitChar d := by
  induction fuel generalizing n with
  | zero => simp [natDigits]
  | succ f ih =>
    intro c hc
    simp only [natDigits] at hc
    split at hc
    · simp only [List.mem_singleton] at hc; exact ⟨n, by assumption, hc⟩
    · simp only [List.mem_append, List.mem_singleton] at hc
      rcases hc with hc | hc
      · exact ih _ c hc
      · exact ⟨n % 10, Nat.mod_lt _ (by decide), hc⟩

theorem decValAcc_natDigits (fuel n : Nat) (h : n < 10 ^ fuel) (hf : 1 ≤ fuel) :
    decValAcc (some 0) (natDigits fuel n) = some n := by
  induction fuel generalizing n with
  | zero => omega
  | succ f ih =>
    simp only [natDigits]
    split
    · rename_i hn; simp [decValAcc, digitVal_digitChar n hn]
    · rename_i hn
      have hq : n / 10 < 10 ^ f := by
        rw [Nat.pow_succ] at h; exact Nat.div_lt_of_lt_mul (by omega)
      have hf' : 1 ≤ f := by
        cases f with
        | zero => simp at h; omega
        | succ g => omega
      rw [decValAcc_append, ih _ hq hf', digitVal_digitChar _ (Nat.mod_lt _ (by decide))]
      simp only; congr 1; omega

theorem decVal_natDigits (n : Nat) (h : n < 10 ^ 20) : decVal (natDigits 20 n) = some n := by
  unfold decVal
  have : (natDigits 20 n).isEmpty = false := by
    have := natDigits_ne_nil 19 n
    cases hx : natDigits 20 n with
    | nil => exact absurd hx this
    | cons => rfl
  rw [this]; simp only [Bool.false_eq_true, if_false]
  exact decValAcc_natDigits 20 n h (by decide)

theorem inInt64_bounds (i : Int) (h : inInt64 i = true) : -(2:Int)^63 ≤ i ∧ i ≤ (2:Int)^63 - 1 := by
  simpa [inInt64] using h

theorem atoi_itoa (i : Int) (h : inInt64 i = true) : atoi (itoa i) = some i := by
  have hb := inInt64_bounds i h
  have hlt : i.natAbs < 10 ^ 20 := by
    have : (2:Int)^63 = 9223372036854775808 := by decide
    have : (10:Nat)^20 = 100000000000000000000 := by decide
    omega
  have hdv := decVal_natDigits i.natAbs hlt
  unfold atoi itoa
  rw [String.toList_ofList]
  unfold itoaChars
  split
  · rename_i hneg
    simp only [atoiChars, hdv]
    have : -((i.natAbs : Nat) : Int) = i := by omega
    simp [this, h]
  · rename_i hpos
    have hnn : ((i.natAbs : Nat) : Int) = i := by omega
    cases hx : natDigits 20 i.natAbs with
    | nil => exact absurd hx (natDigits_ne_nil 19 _)
    | cons c rest =>
      obtain ⟨d, hd, hc⟩ := natDigits_digits 20 i.natAbs c (by rw [hx]; simp)
      have hns := digitChar_not_sign d hd
      rw [← hc] at hns
      rw [hx] at hdv
      unfold atoiChars
      split
      · rename_i heq; simp only [List.cons.injEq] at heq; exact absurd heq.1 hns.1
      · rename_i heq; simp only [List.cons.injEq] at heq; exact absurd heq.1 hns.2
      · simp [hdv, hnn, h]

/-! ### omitempty -/

theorem getD_omitStr (s : String) : (omitStr s).getD "" = s := by
  unfold omitStr; split
  · rename_i h; simp only [Slot.getD]; exact (eq_of_beq h).symm
  · rfl

theorem getD_omitInt (n : Int) : (omitInt n).getD 0 = n := by
  unfold omitInt; split
  · rename_i h; simp only [Slot.getD]; exact (eq_of_beq h).symm
  · rfl

theorem getD_omitBool (b : Bool) : (omitBool b).getD false = b := by
  cases b <;> rfl

theorem isBad_absent {α : Type} : (Slot.absent : Slot α).isBad = false := rfl

theorem isBad_omitStr (s : String) : (omitStr s).isBad = false := by
  unfold omitStr; split <;> rfl

theorem isBad_omitBool (b : Bool) : (omitBool b).isBad = false := by
  cases b <;> rfl

theorem intBad_omitInt (n : Int) (h : inInt64 n = true) : intBad (omitInt n) = false := by
  unfold omitInt; split
  · rfl
  · simp [intBad, h]

end Iso8583.Builder
