/-
Helper lemmas for the Describe filter model: `utf8.RuneCountInString` never exceeds the
byte length (so the byte slices of the mask filters are in range), equals it on ASCII text,
and the track parsers on texts assembled from well-formed components.
-/
import Iso8583.Model.Describe

namespace Iso8583.Describe

theorem runeLen_bounds (c : Byte) (rest : Bytes) :
    1 ≤ runeLen (c :: rest) ∧ runeLen (c :: rest) ≤ rest.length + 1 := by
  unfold runeLen
  simp only []
  repeat' split
  all_goals (first | omega | (simp only [List.length_cons]; omega))

theorem runeCountAux_le : ∀ (fuel : Nat) (s : Bytes), runeCountAux fuel s ≤ s.length := by
  intro fuel
  induction fuel with
  | zero => intro s; simp [runeCountAux]
  | succ n ih =>
    intro s
    cases s with
    | nil => simp [runeCountAux]
    | cons c r =>
      have hb := runeLen_bounds c r
      have := ih ((c :: r).drop (runeLen (c :: r)))
      simp only [runeCountAux]
      simp only [List.length_drop, List.length_cons] at this ⊢
      omega

/-- a rune takes at least one byte -/
theorem runeCount_le (s : Bytes) : runeCount s ≤ s.length := runeCountAux_le _ _

theorem runeCountAux_ascii : ∀ (fuel : Nat) (s : Bytes), s.length ≤ fuel → (∀ c ∈ s, c.toNat < 128) →
    runeCountAux fuel s = s.length := by
  intro fuel
  induction fuel with
  | zero =>
    intro s h _
    have : s = [] := List.eq_nil_of_length_eq_zero (by omega)
    subst this
    simp [runeCountAux]
  | succ n ih =>
    intro s h ha
    cases s with
    | nil => simp [runeCountAux]
    | cons c r =>
      have hc : c.toNat < 128 := ha c (List.mem_cons_self ..)
      have hl : runeLen (c :: r) = 1 := by simp [runeLen, hc]
      simp only [runeCountAux, hl, List.drop_succ_cons, List.drop_zero, List.length_cons]
      rw [ih r (by simpa using h) (fun x hx => ha x (List.mem_cons_of_mem _ hx))]
      omega

/-- on ASCII text runes are bytes -/
theorem runeCount_ascii (s : Bytes) (h : ∀ c ∈ s, c.toNat < 128) : runeCount s = s.length :=
  runeCountAux_ascii _ _ (Nat.le_refl _) h

theorem isDigit_ascii {c : Byte} (h : isDigit c = true) : c.toNat < 128 := by
  simp [isDigit, inRange] at h
  omega

theorem runeCount_digits (s : Bytes) (h : s.all isDigit = true) : runeCount s = s.length :=
  runeCount_ascii s (fun c hc => isDigit_ascii (List.all_eq_true.mp h c hc))

/-! ### mask filters -/

theorem maskFilter_short {f l : Nat} {p s : Bytes} (h : runeCount s < f + l) :
    maskFilter f l p s = .ok s := by
  simp [maskFilter, h]

theorem maskFilter_long {f l : Nat} {p s : Bytes} (h : f + l ≤ runeCount s) :
    maskFilter f l p s = .ok (s.take f ++ p ++ s.drop (s.length - l)) := by
  have hlen := runeCount_le s
  have h1 : ¬ runeCount s < f + l := by omega
  have h2 : f ≤ s.length := by omega
  have h3 : l ≤ s.length := by omega
  simp [maskFilter, h1, sliceTo, sliceLast, h2, h3]

theorem maskFilter_not_panic (f l : Nat) (p s : Bytes) : maskFilter f l p s ≠ .panic := by
  by_cases h : runeCount s < f + l
  · rw [maskFilter_short h]; intro h'; cases h'
  · rw [maskFilter_long (by omega)]; intro h'; cases h'

theorem maskFilter_isOk (f l : Nat) (p s : Bytes) : ∃ out, maskFilter f l p s = .ok out := by
  by_cases h : runeCount s < f + l
  · exact ⟨_, maskFilter_short h⟩
  · exact ⟨_, maskFilter_long (by omega)⟩

/-! ### track parsers on assembled texts -/

theorem spanDigits_append (pan : Bytes) (c : Byte) (rest : Bytes)
    (hp : pan.all isDigit = true) (hc : isDigit c = false) :
    spanDigits (pan ++ c :: rest) = (pan, c :: rest) := by
  induction pan with
  | nil => simp [spanDigits, hc]
  | cons d ds ih =>
    simp only [List.all_cons, Bool.and_eq_true] at hp
    simp [spanDigits, hp.1, ih hp.2]

theorem take_append_len {α : Type} (a b : List α) (n : Nat) (h : a.length = n) : (a ++ b).take n = a := by
  subst h; simp

theorem drop_append_len {α : Type} (a b : List α) (n : Nat) (h : a.length = n) : (a ++ b).drop n = b := by
  subst h; simp

theorem spanNotCaret_append (name : Bytes) (rest : Bytes)
    (hn : name.all (fun c => c != caret) = true) :
    spanNotCaret (name ++ caret :: rest) = (name, caret :: rest) := by
  induction name with
  | nil => simp [spanNotCaret]
  | cons d ds ih =>
    simp only [List.all_cons, Bool.and_eq_true] at hn
    simp [spanNotCaret, hn.1, ih hn.2]

theorem digitsOrCaret_digits (n : Nat) (ds rest : Bytes) (hl : ds.length = n) (hd : ds.all isDigit = true) :
    digitsOrCaret n (ds ++ rest) = some (ds, rest) := by
  simp [digitsOrCaret, take_append_len _ _ n hl, drop_append_len _ _ n hl, hl, hd]

theorem trimSpace_digits (ds : Bytes) (hd : ds.all isDigit = true) : trimSpace ds = ds := by
  have hns : ∀ c ∈ ds, isAsciiSpace c = false := by
    intro c hc
    have := List.all_eq_true.mp hd c hc
    simp [isDigit, inRange] at this
    simp [isAsciiSpace]
    have h1 := this.1; have h2 := this.2
    refine ⟨⟨⟨⟨⟨?_, ?_⟩, ?_⟩, ?_⟩, ?_⟩, ?_⟩ <;> (intro h; subst h; simp at h1)
  have dw : ∀ (l : Bytes), (∀ c ∈ l, isAsciiSpace c = false) → l.dropWhile isAsciiSpace = l := by
    intro l hl
    cases l with
    | nil => rfl
    | cons a t => simp [List.dropWhile, hl a (List.mem_cons_self ..)]
  unfold trimSpace
  rw [dw ds hns, dw ds.reverse (fun c hc => hns c (List.mem_reverse.mp hc)), List.reverse_reverse]

/-- the digit run found by `spanDigits` consists of digits, and the input is the run followed by the rest -/
theorem spanDigits_spec : ∀ (s : Bytes), (spanDigits s).1.all isDigit = true ∧ (spanDigits s).1 ++ (spanDigits s).2 = s := by
  intro s
  induction s with
  | nil => simp [spanDigits]
  | cons c r ih =>
    by_cases h : isDigit c = true
    · simp [spanDigits, h, ih.1, ih.2]
    · simp [spanDigits, h]

theorem all_drop {α : Type} (p : α → Bool) (l : List α) (n : Nat) (h : l.all p = true) : (l.drop n).all p = true := by
  rw [List.all_eq_true] at h ⊢
  intro x hx
  exact h x (List.mem_of_mem_drop hx)

/-- whatever `parseTrack2` accepts has an account number of 1..19 digits -/
theorem parseTrack2_pan {v : Bytes} {t : T2} (h : parseTrack2 v = some t) :
    t.pan.all isDigit = true ∧ 1 ≤ t.pan.length ∧ t.pan.length ≤ 19 := by
  unfold parseTrack2 at h
  have hs := spanDigits_spec v
  revert h
  generalize spanDigits v = sp at hs
  obtain ⟨pan, r1⟩ := sp
  simp only []
  intro h
  split at h
  · cases h
  · rename_i hlen
    have hlen' : 1 ≤ pan.length ∧ pan.length ≤ 19 := by
      simp only [Bool.or_eq_true, decide_eq_true_eq, not_or] at hlen; omega
    split at h
    · split at h
      · split at h
        · split at h
          · simp only [Option.some.injEq] at h; subst h; exact ⟨hs.1, hlen'⟩
          · cases h
        · cases h
      · cases h
    · cases h

theorem parseTrack3_pan {v : Bytes} {t : T3} (h : parseTrack3 v = some t) :
    t.pan.all isDigit = true ∧ 1 ≤ t.pan.length ∧ t.pan.length ≤ 19 := by
  unfold parseTrack3 at h
  have hs := spanDigits_spec v
  revert h
  generalize spanDigits v = sp at hs
  obtain ⟨ds, r1⟩ := sp
  simp only []
  intro h
  split at h
  · cases h
  · rename_i hlen
    have hlen' : 3 ≤ ds.length ∧ ds.length ≤ 21 := by
      simp only [Bool.or_eq_true, decide_eq_true_eq, not_or] at hlen; omega
    split at h
    · split at h
      · cases h
      · split at h
        · cases h
        · simp only [Option.some.injEq] at h; subst h
          refine ⟨all_drop _ _ _ hs.1, ?_, ?_⟩ <;> simp only [List.length_drop] <;> omega
    · cases h

theorem parseTrack1_pan {v : Bytes} {t : T1} (h : parseTrack1 v = some t) :
    t.pan.all isDigit = true ∧ 1 ≤ t.pan.length ∧ t.pan.length ≤ 19 := by
  unfold parseTrack1 at h
  split at h
  · rename_i fc r0
    split at h
    · cases h
    · have hs := spanDigits_spec r0
      revert h
      generalize spanDigits r0 = sp at hs
      obtain ⟨pan, r1⟩ := sp
      generalize hsn : spanNotCaret = snc
      simp only []
      intro h
      split at h
      · cases h
      · rename_i hlen
        have hlen' : 1 ≤ pan.length ∧ pan.length ≤ 19 := by
          simp only [Bool.or_eq_true, decide_eq_true_eq, not_or] at hlen; omega
        repeat' split at h
        all_goals first
          | (cases h; done)
          | (simp only [Option.some.injEq] at h; subst h; exact ⟨hs.1, hlen'⟩)
  · cases h

end Iso8583.Describe
