/-
C01, field level for ALL fields: the round-trip statement for primitives (hypothesis `hprim`,
proved in Lemmas/Prim.lean) is lifted through composites of any nesting depth and all three
modes by structural induction over `Field` (`Field.rec` with the nested-list motive), using
the composite steps of Props/C09.lean (`composite_roundtrip_tagged/_positional/_bitmapped`).
Then the message level (`message_roundtripB`).

The statements carry one hypothesis more than `C01.FieldRoundTrip` / `C01.MessageRoundTrip`:
the packed bytes are a Go slice (`bs.length ≤ maxInt`) — needed by the length prefixes of
composites (C06.dec_enc); the bound propagates downwards because the packed bytes of a
subfield are a segment of the packed bytes of its composite.
-/
import Iso8583.Props.C09
import Iso8583.Spec.Statements
import Iso8583.Lemmas.MessageRT

namespace Iso8583.FieldRT
open Iso8583 Tlv

/-- `C01.FieldRoundTrip` with the extra hypothesis that the packed bytes are a Go slice -/
def FieldRoundTripB (f : Field) (lastPos : Bool) : Prop :=
  ∀ (v : Value) (tail bs : Bytes),
    f.coherent lastPos = true → f.inDomain v = true → f.pack v = .ok bs → bs.length ≤ maxInt →
    C01.tailOK f tail →
    f.unpack (bs ++ tail) = .ok (f.canon v, bs.length) ∧ f.pack (f.canon v) = .ok bs

/-- `C01.MessageRoundTrip` with the extra hypothesis that the packed bytes are a Go slice -/
def MessageRoundTripB (spec : MsgSpec) : Prop :=
  ∀ (m : Msg) (tail bs : Bytes),
    spec.coherent = true → spec.inDomain m = true → spec.pack m = .ok bs → bs.length ≤ maxInt →
    (∃ n, spec.unpack (bs ++ tail) = .ok (spec.canon m, n) ∧ n = bs.length) ∧
    spec.pack (spec.canon m) = .ok bs

theorem FieldRoundTripB_of (f : Field) (lp : Bool) (h : C01.FieldRoundTrip f lp) : FieldRoundTripB f lp :=
  fun v tail bs hc hd hp _ ht => h v tail bs hc hd hp ht

/-! ## (i) from the parent's `coherent` / `inDomain` to the subfields' -/

theorem coherentSubs_split (pos : Bool) : ∀ (subs : List (Tag × Field)), Field.coherentSubs subs pos = true →
    ∀ init last, subs = init ++ [last] →
      (∀ p ∈ init, p.2.coherent false = true) ∧ last.2.coherent pos = true := by
  intro subs
  induction subs with
  | nil => intro _ init last h; simp at h
  | cons p rest ih =>
    obtain ⟨tg, f⟩ := p
    intro hc init last h
    cases rest with
    | nil =>
      cases init with
      | nil =>
        simp only [List.nil_append, List.cons.injEq, and_true] at h
        subst h
        simp only [Field.coherentSubs] at hc
        exact ⟨by simp, hc⟩
      | cons a as =>
        simp only [List.cons_append, List.cons.injEq] at h
        have := h.2
        simp at this
    | cons q qs =>
      rw [Field.coherentSubs] at hc
      · simp only [Bool.and_eq_true] at hc
        cases init with
        | nil => simp at h
        | cons a as =>
          simp only [List.cons_append, List.cons.injEq] at h
          obtain ⟨rfl, h2⟩ := h
          obtain ⟨h3, h4⟩ := ih hc.2 as last h2
          refine ⟨?_, h4⟩
          intro x hx
          simp only [List.mem_cons] at hx
          rcases hx with rfl | hx
          · exact hc.1
          · exact h3 x hx
      · intro h'; cases h'

theorem coherentSubs_all_false (subs : List (Tag × Field)) (h : Field.coherentSubs subs false = true) :
    ∀ p ∈ subs, p.2.coherent false = true := by
  intro p hp
  rcases List.eq_nil_or_concat subs with h0 | ⟨init, last, h0⟩
  · subst h0; simp at hp
  · rw [List.concat_eq_append] at h0
    obtain ⟨h1, h2⟩ := coherentSubs_split false subs h init last h0
    rw [h0] at hp
    simp only [List.mem_append, List.mem_singleton] at hp
    rcases hp with hp | rfl
    · exact h1 p hp
    · exact h2

theorem inDomainSubs_mem : ∀ (subs : List (Tag × Field)) (vals : List (Tag × Value)),
    Field.inDomainSubs subs vals = true → ∀ tg f v, (tg, f) ∈ subs → lookup tg vals = some v →
      f.inDomain v = true := by
  intro subs
  induction subs with
  | nil => intro _ _ tg f v hm; simp at hm
  | cons p rest ih =>
    obtain ⟨k, g⟩ := p
    intro vals h tg f v hm hl
    rw [Field.inDomainSubs] at h
    simp only [Bool.and_eq_true] at h
    simp only [List.mem_cons, Prod.mk.injEq] at hm
    rcases hm with ⟨rfl, rfl⟩ | hm
    · rw [hl] at h; exact h.1
    · exact ih vals h.2 tg f v hm hl

/-! ## the packed bytes of a subfield are a segment of the composite's -/

/-- the tag bytes `packByTag` writes before a subfield (none for positional composites) -/
def tagBytesOf (t : TagSpec) (k : Tag) : Res Bytes :=
  match t.enc with
  | some enc => encodeTag t enc k
  | none => .ok []

theorem packByTag_cons_some (t : TagSpec) (k : Tag) (g : Field) (rest : List (Tag × Field))
    (vals : List (Tag × Value)) (u : Value) (w : Bytes) (hlk : lookup k vals = some u)
    (hw : packByTag t ((k, g) :: rest) vals = .ok w) :
    ∃ tb pb more, tagBytesOf t k = .ok tb ∧
      g.pack u = .ok pb ∧ packByTag t rest vals = .ok more ∧ w = tb ++ pb ++ more := by
  rw [packByTag] at hw
  simp only [hlk] at hw
  have key : ∀ (r : Res Bytes), (match r with
      | Res.ok tb =>
        match g.pack u with
        | Res.ok pb =>
          match packByTag t rest vals with
          | Res.ok more => Res.ok (tb ++ pb ++ more)
          | Res.err => Res.err
          | Res.panic => Res.panic
        | Res.err => Res.err
        | Res.panic => Res.panic
      | Res.err => Res.err
      | Res.panic => Res.panic) = Res.ok w →
      ∃ tb pb more, r = .ok tb ∧ g.pack u = .ok pb ∧ packByTag t rest vals = .ok more ∧ w = tb ++ pb ++ more := by
    intro r h
    cases r with
    | err => cases h
    | panic => cases h
    | ok tb =>
      simp only at h
      cases hpb : g.pack u with
      | err => rw [hpb] at h; cases h
      | panic => rw [hpb] at h; cases h
      | ok pb =>
        rw [hpb] at h
        simp only at h
        cases hmore : packByTag t rest vals with
        | err => rw [hmore] at h; cases h
        | panic => rw [hmore] at h; cases h
        | ok more =>
          rw [hmore] at h
          simp only [Res.ok.injEq] at h
          exact ⟨tb, pb, more, rfl, rfl, rfl, h.symm⟩
  cases he : t.enc with
  | none =>
    simp only [he] at hw
    obtain ⟨tb, pb, more, h1, h2, h3, h4⟩ := key (.ok []) hw
    exact ⟨tb, pb, more, by simp only [tagBytesOf, he]; exact h1, h2, h3, h4⟩
  | some enc =>
    simp only [he] at hw
    obtain ⟨tb, pb, more, h1, h2, h3, h4⟩ := key _ hw
    exact ⟨tb, pb, more, by simp only [tagBytesOf, he]; exact h1, h2, h3, h4⟩

theorem packByTag_sub_le (t : TagSpec) (vals : List (Tag × Value)) :
    ∀ (subs : List (Tag × Field)) (w : Bytes), packByTag t subs vals = .ok w →
      ∀ tg f v pk, (tg, f) ∈ subs → lookup tg vals = some v → f.pack v = .ok pk → pk.length ≤ w.length := by
  intro subs
  induction subs with
  | nil => intro _ _ tg f v pk hm; simp at hm
  | cons p rest ih =>
    obtain ⟨k, g⟩ := p
    intro w hw tg f v pk hm hl hp
    cases hlk : lookup k vals with
    | none =>
      rw [packByTag] at hw
      simp only [hlk] at hw
      simp only [List.mem_cons, Prod.mk.injEq] at hm
      rcases hm with ⟨rfl, rfl⟩ | hm
      · rw [hlk] at hl; cases hl
      · exact ih w hw tg f v pk hm hl hp
    | some u =>
      obtain ⟨tb, pb, more, _, hpb, hmore, rfl⟩ := packByTag_cons_some t k g rest vals u w hlk hw
      simp only [List.mem_cons, Prod.mk.injEq] at hm
      rcases hm with ⟨rfl, rfl⟩ | hm
      · rw [hlk] at hl; cases hl
        rw [hpb] at hp; cases hp
        simp only [List.length_append]; omega
      · have := ih more hmore tg f v pk hm hl hp
        simp only [List.length_append]; omega

theorem packByBitmap_sub_le (vals : List (Tag × Value)) :
    ∀ (subs : List (Tag × Field)) (bm0 bmF : Bitmap) (w : Bytes), packByBitmap subs vals bm0 = .ok (bmF, w) →
      ∀ tg f v pk, (tg, f) ∈ subs → lookup tg vals = some v → f.pack v = .ok pk → pk.length ≤ w.length := by
  intro subs
  induction subs with
  | nil => intro _ _ _ _ tg f v pk hm; simp at hm
  | cons p rest ih =>
    obtain ⟨k, g⟩ := p
    intro bm0 bmF w hw tg f v pk hm hl hp
    rw [packByBitmap] at hw
    cases hlk : lookup k vals with
    | none =>
      simp only [hlk] at hw
      simp only [List.mem_cons, Prod.mk.injEq] at hm
      rcases hm with ⟨rfl, rfl⟩ | hm
      · rw [hlk] at hl; cases hl
      · exact ih bm0 bmF w hw tg f v pk hm hl hp
    | some u =>
      simp only [hlk] at hw
      cases ha : atoi? k with
      | none => simp [ha] at hw
      | some idInt =>
        simp only [ha] at hw
        generalize (if idInt ≤ 0 then bm0 else bm0.set idInt.toNat) = bm' at hw
        cases hchk : bm'.isSet idInt.toNat with
        | false => simp [hchk] at hw
        | true =>
          simp only [hchk, Bool.not_true, Bool.false_eq_true, if_false] at hw
          cases hpb : g.pack u with
          | err => simp [hpb] at hw
          | panic => simp [hpb] at hw
          | ok pb =>
            simp only [hpb] at hw
            cases hmore : packByBitmap rest vals bm' with
            | err => simp [hmore] at hw
            | panic => simp [hmore] at hw
            | ok r =>
              obtain ⟨bm2, more⟩ := r
              simp only [hmore, Res.ok.injEq, Prod.mk.injEq] at hw
              obtain ⟨rfl, rfl⟩ := hw
              simp only [List.mem_cons, Prod.mk.injEq] at hm
              rcases hm with ⟨rfl, rfl⟩ | hm
              · rw [hlk] at hl; cases hl
                rw [hpb] at hp; cases hp
                simp only [List.length_append]; omega
              · have := ih _ _ more hmore tg f v pk hm hl hp
                simp only [List.length_append]; omega

/-! ## (iii) packing the canonical value gives the same bytes -/

theorem packByTag_recanon (t : TagSpec) (vals vals' : List (Tag × Value)) :
    ∀ (subs : List (Tag × Field)) (w : Bytes), packByTag t subs vals = .ok w →
      (∀ p ∈ subs, lookup p.1 vals' = (lookup p.1 vals).map p.2.canon) →
      (∀ tg f v pk, (tg, f) ∈ subs → lookup tg vals = some v → f.pack v = .ok pk →
        f.pack (f.canon v) = .ok pk) →
      packByTag t subs vals' = .ok w := by
  intro subs
  induction subs with
  | nil => intro w hw _ _; simpa [packByTag] using hw
  | cons p rest ih =>
    obtain ⟨k, g⟩ := p
    intro w hw hlk' hre
    have hk' := hlk' (k, g) (by simp)
    simp only at hk'
    have ihr := fun w' hw' => ih w' hw' (fun q hq => hlk' q (List.mem_cons_of_mem _ hq))
      (fun tg f v pk hm => hre tg f v pk (List.mem_cons_of_mem _ hm))
    cases hlk : lookup k vals with
    | none =>
      rw [hlk] at hk'
      rw [packByTag] at hw ⊢
      simp only [hlk] at hw
      simp only [hk', Option.map_none]
      exact ihr w hw
    | some u =>
      rw [hlk] at hk'
      obtain ⟨tb, pb, more, htb, hpb, hmore, rfl⟩ := packByTag_cons_some t k g rest vals u w hlk hw
      have h1 := hre k g u pb (by simp) hlk hpb
      have h2 := ihr more hmore
      rw [packByTag]
      simp only [hk', Option.map_some]
      cases he : t.enc with
      | none =>
        simp only [tagBytesOf, he, Res.ok.injEq] at htb
        subst htb
        simp only [h1, h2]
      | some enc =>
        simp only [tagBytesOf, he] at htb
        simp only [htb, h1, h2]

theorem packByBitmap_recanon (vals vals' : List (Tag × Value)) :
    ∀ (subs : List (Tag × Field)) (bm0 : Bitmap) (r : Bitmap × Bytes), packByBitmap subs vals bm0 = .ok r →
      (∀ p ∈ subs, lookup p.1 vals' = (lookup p.1 vals).map p.2.canon) →
      (∀ tg f v pk, (tg, f) ∈ subs → lookup tg vals = some v → f.pack v = .ok pk →
        f.pack (f.canon v) = .ok pk) →
      packByBitmap subs vals' bm0 = .ok r := by
  intro subs
  induction subs with
  | nil => intro bm0 r hw _ _; simpa [packByBitmap] using hw
  | cons p rest ih =>
    obtain ⟨k, g⟩ := p
    intro bm0 r hw hlk' hre
    have hk' := hlk' (k, g) (by simp)
    simp only at hk'
    have ihr := fun bm r' hw' => ih bm r' hw' (fun q hq => hlk' q (List.mem_cons_of_mem _ hq))
      (fun tg f v pk hm => hre tg f v pk (List.mem_cons_of_mem _ hm))
    rw [packByBitmap] at hw ⊢
    cases hlk : lookup k vals with
    | none =>
      rw [hlk] at hk'
      simp only [hlk] at hw
      simp only [hk', Option.map_none]
      exact ihr bm0 r hw
    | some u =>
      rw [hlk] at hk'
      simp only [hlk] at hw
      simp only [hk', Option.map_some]
      cases ha : atoi? k with
      | none => simp [ha] at hw
      | some idInt =>
        simp only [ha] at hw ⊢
        generalize (if idInt ≤ 0 then bm0 else bm0.set idInt.toNat) = bm' at hw ⊢
        cases hchk : bm'.isSet idInt.toNat with
        | false => simp [hchk] at hw
        | true =>
          simp only [hchk, Bool.not_true, Bool.false_eq_true, if_false] at hw ⊢
          cases hpb : g.pack u with
          | err => simp [hpb] at hw
          | panic => simp [hpb] at hw
          | ok pb =>
            simp only [hpb] at hw
            have h1 := hre k g u pb (by simp) hlk hpb
            cases hmore : packByBitmap rest vals bm' with
            | err => simp [hmore] at hw
            | panic => simp [hmore] at hw
            | ok r2 =>
              have h2 := ihr bm' r2 hmore
              simp only [hmore] at hw
              simp only [h1, h2]
              exact hw

/-! ## (ii) `IdsAscending` from the sortedness clause of `Field.coherent` -/

theorem insertSorted_map_fst {α : Type} (less : Tag → Tag → Bool) (x : Tag × α) (l : List (Tag × α)) :
    (insertSorted (fun a b => less a.1 b.1) x l).map (·.1) = insertSorted less x.1 (l.map (·.1)) := by
  induction l with
  | nil => rfl
  | cons y ys ih =>
    simp only [insertSorted, List.map_cons]
    split
    · rfl
    · simp only [List.map_cons, ih]

theorem sortBy_map_fst {α : Type} (less : Tag → Tag → Bool) (l : List (Tag × α)) :
    (sortBy (fun a b => less a.1 b.1) l).map (·.1) = sortBy less (l.map (·.1)) := by
  induction l with
  | nil => rfl
  | cons x xs ih => simp only [sortBy, List.map_cons, insertSorted_map_fst, ih]

theorem idsAscending_of_sorted : ∀ (subs : List (Tag × Field)),
    (∀ p ∈ subs, canonicalDecimal p.1 = true) → Sorted (SortKind.less .byInt) (subs.map (·.1)) →
    (subs.map (·.1)).Nodup → C09.IdsAscending subs := by
  intro subs
  induction subs with
  | nil => intro _ _ _; exact List.Pairwise.nil
  | cons p rest ih =>
    obtain ⟨k, g⟩ := p
    intro hcan hs hnd
    unfold Sorted at hs
    simp only [List.map_cons, List.pairwise_cons, List.nodup_cons] at hs hnd
    unfold C09.IdsAscending
    rw [List.pairwise_cons]
    refine ⟨?_, ih (fun q hq => hcan q (List.mem_cons_of_mem _ hq)) hs.2 hnd.2⟩
    intro q hq ia ib ha hb
    have hqm : q.1 ∈ rest.map (·.1) := List.mem_map.mpr ⟨q, hq, rfl⟩
    have h1 := hs.1 q.1 hqm
    have hne : k ≠ q.1 := fun e => hnd.1 (e ▸ hqm)
    have hck := hcan (k, g) (by simp)
    have hcq := hcan q (List.mem_cons_of_mem _ hq)
    rcases byInt_strictTotal.total k q.1 hck hcq hne with h | h
    · simp only [SortKind.less] at h
      simp only at ha
      rw [ha, hb] at h
      simpa using h
    · rw [h1] at h; cases h

theorem idsAscending_of_coherent (subs : List (Tag × Field))
    (hcan : ∀ p ∈ subs, canonicalDecimal p.1 = true)
    (hsorted : ((orderSubs .byInt subs).map (·.1) == subs.map (·.1)) = true)
    (hnd : (subs.map (·.1)).Nodup) : C09.IdsAscending subs := by
  have heq : sortBy (SortKind.less .byInt) (subs.map (·.1)) = subs.map (·.1) := by
    have := sortBy_map_fst (SortKind.less .byInt) subs
    simp only [orderSubs, beq_iff_eq] at hsorted
    rw [← this]; exact hsorted
  have hs := (Tlv.sortBy_sorted_perm (SortKind.less .byInt) _ byInt_strictTotal (subs.map (·.1))
    (by intro a ha; obtain ⟨p, hp, rfl⟩ := List.mem_map.mp ha; exact hcan p hp)).1
  rw [heq] at hs
  exact idsAscending_of_sorted subs hcan hs hnd

/-! ## the composite step -/

theorem tailOK_nil (f : Field) : C01.tailOK f [] := by
  cases f <;> simp [C01.tailOK]

theorem comp_sub_le (s : CompSpec) (subs : List (Tag × Field)) (vals : List (Tag × Value)) (bs : Bytes)
    (hp : Field.pack (.comp s subs) (.comp vals) = .ok bs) :
    ∀ tg f v pk, (tg, f) ∈ subs → lookup tg vals = some v → f.pack v = .ok pk → pk.length ≤ bs.length := by
  intro tg f v pk hm hl hpk
  rw [Field.pack] at hp
  cases hmode : s.mode with
  | tagged t =>
    simp only [hmode] at hp
    cases hb : packByTag t subs vals with
    | err => simp [hb] at hp
    | panic => simp [hb] at hp
    | ok w =>
      simp only [hb] at hp
      cases hpre : s.pref.encodeLength s.len w.length with
      | err => simp [hpre] at hp
      | panic => simp [hpre] at hp
      | ok pre =>
        simp only [hpre, Res.ok.injEq] at hp
        subst hp
        have := packByTag_sub_le t vals subs w hb tg f v pk hm hl hpk
        simp only [List.length_append]; omega
  | bitmapped b =>
    simp only [hmode] at hp
    cases hb : packByBitmap subs vals (Bitmap.reset b.specLen b.auto) with
    | err => simp [hb] at hp
    | panic => simp [hb] at hp
    | ok r =>
      obtain ⟨bm, w⟩ := r
      simp only [hb] at hp
      cases hpbm : bm.pack b.enc with
      | err => simp [hpbm] at hp
      | panic => simp [hpbm] at hp
      | ok pbm =>
        simp only [hpbm] at hp
        cases hpre : s.pref.encodeLength s.len (pbm ++ w).length with
        | err => rw [hpre] at hp; cases hp
        | panic => rw [hpre] at hp; cases hp
        | ok pre =>
          rw [hpre] at hp
          simp only [Res.ok.injEq] at hp
          subst hp
          have := packByBitmap_sub_le vals subs _ bm w hb tg f v pk hm hl hpk
          simp only [List.length_append]; omega

theorem comp_pack_canon (s : CompSpec) (subs : List (Tag × Field)) (vals : List (Tag × Value)) (bs : Bytes)
    (hnodup : (subs.map (·.1)).Nodup)
    (hp : Field.pack (.comp s subs) (.comp vals) = .ok bs)
    (hre : ∀ tg f v pk, (tg, f) ∈ subs → lookup tg vals = some v → f.pack v = .ok pk →
      f.pack (f.canon v) = .ok pk) :
    Field.pack (.comp s subs) (.comp (Field.canonSubs subs vals)) = .ok bs := by
  have hlk : ∀ p ∈ subs, lookup p.1 (Field.canonSubs subs vals) = (lookup p.1 vals).map p.2.canon :=
    fun p hp' => lookup_canonSubs subs vals hnodup p.1 p.2 hp'
  rw [Field.pack] at hp ⊢
  cases hmode : s.mode with
  | tagged t =>
    simp only [hmode] at hp ⊢
    cases hb : packByTag t subs vals with
    | err => simp [hb] at hp
    | panic => simp [hb] at hp
    | ok w =>
      rw [packByTag_recanon t vals _ subs w hb hlk hre]
      simpa only [hb] using hp
  | bitmapped b =>
    simp only [hmode] at hp ⊢
    cases hb : packByBitmap subs vals (Bitmap.reset b.specLen b.auto) with
    | err => simp [hb] at hp
    | panic => simp [hb] at hp
    | ok r =>
      rw [packByBitmap_recanon vals _ subs _ r hb hlk hre]
      simpa only [hb] using hp

/-- **the induction step**: a composite round-trips if all its subfields do -/
theorem comp_roundtrip (s : CompSpec) (subs : List (Tag × Field))
    (ih : ∀ p ∈ subs, ∀ lp, FieldRoundTripB p.2 lp) : ∀ lp, FieldRoundTripB (.comp s subs) lp := by
  intro lp v tail bs hc hd hp hlen ht
  cases v with
  | str b => simp [Field.inDomain] at hd
  | num i => simp [Field.inDomain] at hd
  | bin b => simp [Field.inDomain] at hd
  | hexv t => simp [Field.inDomain] at hd
  | comp vals =>
  have hnone : s.pref = .none → tail = [] := ht
  have hc0 := hc
  rw [Field.coherent] at hc
  simp only [Bool.and_eq_true] at hc
  obtain ⟨⟨⟨⟨_, _⟩, hkeysOK⟩, hsorted⟩, hmode⟩ := hc
  have hnodup : (subs.map (·.1)).Nodup := by
    simp only [sortKeysOK, Bool.and_eq_true] at hkeysOK
    exact allDistinct_nodup _ hkeysOK.1.1
  have hd0 := hd
  rw [Field.inDomain] at hd
  simp only [Bool.and_eq_true] at hd
  obtain ⟨⟨⟨_, hdsubs⟩, _⟩, _⟩ := hd
  have hdom := inDomainSubs_mem subs vals hdsubs
  have hle := comp_sub_le s subs vals bs hp
  -- every subfield is coherent for some position flag
  have hsubcoh : ∀ p ∈ subs, ∃ lpf, p.2.coherent lpf = true := by
    intro p hpm
    cases hm : s.mode with
    | bitmapped b =>
      rw [hm] at hmode
      simp only [Bool.and_eq_true] at hmode
      exact ⟨false, coherentSubs_all_false subs hmode.2 p hpm⟩
    | tagged t =>
      rw [hm] at hmode
      simp only [Bool.and_eq_true] at hmode
      cases he : t.enc with
      | some enc =>
        rw [he] at hmode
        simp only [Bool.and_eq_true] at hmode
        exact ⟨false, coherentSubs_all_false subs hmode.2.2 p hpm⟩
      | none =>
        rw [he] at hmode
        rcases List.eq_nil_or_concat subs with h0 | ⟨init, last, h0⟩
        · subst h0; simp at hpm
        · rw [List.concat_eq_append] at h0
          obtain ⟨h1, h2⟩ := coherentSubs_split true subs hmode.2 init last h0
          rw [h0] at hpm
          simp only [List.mem_append, List.mem_singleton] at hpm
          rcases hpm with hpm | rfl
          · exact ⟨false, h1 p hpm⟩
          · exact ⟨true, h2⟩
  have hre : ∀ tg f v pk, (tg, f) ∈ subs → lookup tg vals = some v → f.pack v = .ok pk →
      f.pack (f.canon v) = .ok pk := by
    intro tg f v pk hm hl hpk
    obtain ⟨lpf, hcf⟩ := hsubcoh (tg, f) hm
    exact (ih (tg, f) hm lpf v [] pk hcf (hdom tg f v hm hl) hpk
      (Nat.le_trans (hle tg f v pk hm hl hpk) hlen) (tailOK_nil f)).2
  have hsdF : ∀ tg f v, (tg, f) ∈ subs → f.coherent false = true → lookup tg vals = some v →
      C09.SelfDelim f v := by
    intro tg f v hm hcf hl packed hpk tail'
    exact (ih (tg, f) hm false v tail' packed hcf (hdom tg f v hm hl) hpk
      (Nat.le_trans (hle tg f v packed hm hl hpk) hlen) (MessageRT.tailOK_of_coherent f tail' hcf)).1
  refine ⟨?_, ?_⟩
  · cases hm : s.mode with
    | bitmapped b =>
      rw [hm] at hmode hsorted
      simp only [Bool.and_eq_true] at hmode
      obtain ⟨⟨_, hids⟩, hcs⟩ := hmode
      have hcan : ∀ p ∈ subs, canonicalDecimal p.1 = true := by
        intro p hpm
        have := List.all_eq_true.mp hids p hpm
        simp only [Bool.and_eq_true] at this
        exact this.1
      have hasc := idsAscending_of_coherent subs hcan hsorted hnodup
      exact C09.composite_roundtrip_bitmapped s subs b lp hm hc0 hasc vals
        (fun tg f v hmem hl => hsdF tg f v hmem (coherentSubs_all_false subs hcs (tg, f) hmem) hl)
        bs tail hp hlen hnone
    | tagged t =>
      rw [hm] at hmode
      simp only [Bool.and_eq_true] at hmode
      cases he : t.enc with
      | some enc =>
        rw [he] at hmode
        simp only [Bool.and_eq_true] at hmode
        exact C09.composite_roundtrip_tagged s subs t enc lp hm he hc0 vals
          (fun tg f v hmem hl => hsdF tg f v hmem (coherentSubs_all_false subs hmode.2.2 (tg, f) hmem) hl)
          bs tail hp hlen hnone
      | none =>
        rw [he] at hmode
        refine C09.composite_roundtrip_positional s subs t lp hm he hc0 vals hd0 ?_ ?_ bs tail hp hlen hnone
        · intro tg f v hmem hl packed hpk
          obtain ⟨lpf, hcf⟩ := hsubcoh (tg, f) hmem
          have := (ih (tg, f) hmem lpf v [] packed hcf (hdom tg f v hmem hl) hpk
            (Nat.le_trans (hle tg f v packed hmem hl hpk) hlen) (tailOK_nil f)).1
          rw [List.append_nil] at this
          exact this
        · intro init last tg f v hsub hmem hl
          obtain ⟨h1, _⟩ := coherentSubs_split true subs hmode.2 init last hsub
          exact hsdF tg f v (by rw [hsub]; exact List.mem_append_left _ hmem) (h1 (tg, f) hmem) hl
  · show Field.pack (.comp s subs) (Field.canon (.comp s subs) (.comp vals)) = .ok bs
    rw [Field.canon]
    exact comp_pack_canon s subs vals bs hnodup hp hre

/-- **C01, field level, every field**: if primitives round-trip, every field — composites of
all three modes, nested to any depth — round-trips (given that the packed bytes are a Go
slice) -/
theorem field_roundtrip (hprim : ∀ s lp, C01.FieldRoundTrip (.prim s) lp) :
    ∀ (f : Field) (lp : Bool), FieldRoundTripB f lp := by
  intro f
  apply Field.rec (motive_1 := fun f => ∀ lp, FieldRoundTripB f lp)
    (motive_2 := fun subs => ∀ p ∈ subs, ∀ lp, FieldRoundTripB p.2 lp)
    (motive_3 := fun p => ∀ lp, FieldRoundTripB p.2 lp)
  · intro s lp; exact FieldRoundTripB_of _ lp (hprim s lp)
  · intro s subs ih; exact comp_roundtrip s subs ih
  · intro p hp; cases hp
  · intro head tail h3 h2 p hp
    rcases List.mem_cons.mp hp with rfl | hp
    · exact h3
    · exact h2 p hp
  · intro t f h; exact h

end Iso8583.FieldRT

/-! ## the message level (adapted from `MessageRT.message_roundtrip_of_fields`: the same
proof with the bound `|bs| ≤ maxInt` handed down to the MTI and to every field, whose packed
bytes are segments of the message's) -/

namespace Iso8583.MessageRT
open Iso8583 Bitmap MsgSpec Iso8583.FieldRT

theorem packAll_mem_le (spec : MsgSpec) : ∀ (l : List (Nat × Value)) (body : Bytes),
    C05.packAll spec l = .ok body → ∀ p ∈ l, ∀ f b, lookupId p.1 spec.fields = some f → f.pack p.2 = .ok b →
      b.length ≤ body.length := by
  intro l
  induction l with
  | nil => intro _ _ p hp; cases hp
  | cons hd rest ih =>
    obtain ⟨i, v⟩ := hd
    intro body h p hp f b hl hb
    obtain ⟨f', b', more, hlk, hpb, hmore, rfl⟩ := packAll_cons_ok spec i v rest body h
    rcases List.mem_cons.mp hp with rfl | hp
    · simp only at hl hb
      rw [hlk] at hl; cases hl
      rw [hpb] at hb; cases hb
      simp only [List.length_append]; omega
    · have := ih more hmore p hp f b hl hb
      simp only [List.length_append]; omega

/-- the part of `entry_facts` that does not need the field statements -/
theorem entry_facts0 (spec : MsgSpec) (m : Msg) (hc : spec.coherent = true) (hd : spec.inDomain m = true) :
    ∀ p ∈ m.fields, 2 ≤ p.1 ∧
      (spec.bitmap.auto = true → p.1 % (blockLenOf spec.bitmap.specLen * 8) ≠ 1) ∧
      ∃ f, lookupId p.1 spec.fields = some f ∧ f.coherent false = true ∧ f.inDomain p.2 = true := by
  obtain ⟨_, _, _, _, hfields⟩ := coherent_facts spec hc
  simp only [MsgSpec.inDomain, Bool.and_eq_true, List.all_eq_true] at hd
  intro p hp
  have hdp := hd.2 p hp
  cases hl : lookupId p.1 spec.fields with
  | none => rw [hl] at hdp; cases hdp
  | some f =>
    rw [hl] at hdp
    simp only at hdp
    have hmem := lookupId_mem p.1 spec.fields f hl
    obtain ⟨h2, h3, h4⟩ := hfields p.1 f hmem
    exact ⟨h2, h3, f, rfl, h4, hdp⟩

/-- the packed bytes of the MTI and of every populated field are segments of the message's -/
theorem packed_field_le (spec : MsgSpec) (m : Msg) (bs : Bytes)
    (hc : spec.coherent = true) (hd : spec.inDomain m = true) (hp : spec.pack m = .ok bs) :
    (∀ p ∈ m.fields, ∀ f b, lookupId p.1 spec.fields = some f → f.pack p.2 = .ok b → b.length ≤ bs.length) ∧
    (∀ v mb, m.mti = some v → spec.mti.pack v = .ok mb → mb.length ≤ bs.length) := by
  have hent0 := entry_facts0 spec m hc hd
  have hd' := hd
  simp only [MsgSpec.inDomain, Bool.and_eq_true] at hd'
  obtain ⟨⟨hdm, hdd⟩, _⟩ := hd'
  cases hm : m.mti with
  | none => rw [hm] at hdm; cases hdm
  | some v =>
    obtain ⟨bm, mb, bb, fb, hsb, hmb, hbb, hfb, rfl⟩ := pack_inv spec m v bs hm hp
    obtain ⟨_, _, _, hbl, hau⟩ := C05.setBits_bits_eq_present _ _ _ bm hsb
    have hmem : ∀ p, p ∈ sortBy idLess m.fields ↔ p ∈ m.fields := fun p => mem_sortBy _ p _
    have hnp : ∀ p ∈ sortBy idLess m.fields, bm.isPresenceBit p.1 = false := by
      intro p hp'
      apply not_presence
      rw [hbl, hau]
      exact (hent0 p ((hmem p).mp hp')).2.1
    rw [packFields_no_presence spec bm _ hnp] at hfb
    constructor
    · intro p hpm f b hl hpk
      have := packAll_mem_le spec _ fb hfb p ((hmem p).mpr hpm) f b hl hpk
      simp only [List.length_append]; omega
    · intro v' mb' hv' hmb'
      cases hv'
      rw [hmb] at hmb'; cases hmb'
      simp only [List.length_append]; omega

/-- `entry_facts` from the bounded field statements, for a message that packs to a Go slice -/
theorem entry_factsB (spec : MsgSpec) (m : Msg) (bs : Bytes) (hc : spec.coherent = true)
    (hd : spec.inDomain m = true) (hp : spec.pack m = .ok bs) (hlen : bs.length ≤ maxInt)
    (hf : ∀ id f, (id, f) ∈ spec.fields → FieldRoundTripB f false) :
    ∀ p ∈ m.fields, 2 ≤ p.1 ∧
      (spec.bitmap.auto = true → p.1 % (blockLenOf spec.bitmap.specLen * 8) ≠ 1) ∧ EntryRT spec p := by
  have hle := (packed_field_le spec m bs hc hd hp).1
  intro p hpm
  obtain ⟨h2, h3, f, hl, hcf, hdf⟩ := entry_facts0 spec m hc hd p hpm
  refine ⟨h2, h3, f, hl, ?_⟩
  intro b tl hpk
  exact hf p.1 f (lookupId_mem p.1 spec.fields f hl) p.2 tl b hcf hdf hpk
    (Nat.le_trans (hle p hpm f b hl hpk) hlen) (tailOK_of_coherent f tl hcf)

/-- **C01, message level** from the field level with the Go-slice bound -/
theorem message_roundtripB_of_fields (spec : MsgSpec)
    (hmti : FieldRoundTripB (.prim spec.mti) false)
    (hf : ∀ id f, (id, f) ∈ spec.fields → FieldRoundTripB f false) :
    MessageRoundTripB spec := by
  intro m tail bs hc hd hp hlen
  obtain ⟨cmti, ⟨fam, hpref⟩, henc, _, _⟩ := coherent_facts spec hc
  have hent0 := entry_facts0 spec m hc hd
  have hd' := hd
  simp only [MsgSpec.inDomain, Bool.and_eq_true] at hd'
  obtain ⟨⟨hdm, hdd⟩, _⟩ := hd'
  cases hm : m.mti with
  | none => rw [hm] at hdm; cases hdm
  | some v =>
    rw [hm] at hdm
    simp only at hdm
    obtain ⟨bm, mb, bb, fb, hsb, hmb, hbb, hfb, rfl⟩ := pack_inv spec m v bs hm hp
    obtain ⟨hbits, _, hinv, hbl, hau⟩ := C05.setBits_bits_eq_present _ _ _ bm hsb
    have hasc : Asc (sortBy idLess m.fields) := sortBy_sorted m.fields hdd
    have hmem : ∀ p, p ∈ sortBy idLess m.fields ↔ p ∈ m.fields := fun p => mem_sortBy _ p _
    have hnp : ∀ p ∈ sortBy idLess m.fields, bm.isPresenceBit p.1 = false := by
      intro p hp'
      apply not_presence
      rw [hbl, hau]
      exact (hent0 p ((hmem p).mp hp')).2.1
    have hnp0 : ∀ p ∈ sortBy idLess m.fields,
        (reset spec.bitmap.specLen spec.bitmap.auto).isPresenceBit p.1 = false := by
      intro p hp'
      rw [← C05.isPresenceBit_congr bm _ (by rw [hbl]; rfl) (by rw [hau]; rfl)]
      exact hnp p hp'
    rw [packFields_no_presence spec bm _ hnp] at hfb
    simp only [List.length_append] at hlen
    -- every populated element round-trips: its packed bytes are a segment of the message's
    have hent : ∀ p ∈ m.fields, 2 ≤ p.1 ∧
        (spec.bitmap.auto = true → p.1 % (blockLenOf spec.bitmap.specLen * 8) ≠ 1) ∧ EntryRT spec p := by
      intro p hpm
      obtain ⟨h2, h3, f, hl, hcf, hdf⟩ := hent0 p hpm
      refine ⟨h2, h3, f, hl, ?_⟩
      intro b tl hpk
      have hle := packAll_mem_le spec _ fb hfb p ((hmem p).mpr hpm) f b hl hpk
      exact hf p.1 f (lookupId_mem p.1 spec.fields f hl) p.2 tl b hcf hdf hpk (by omega)
        (tailOK_of_coherent f tl hcf)
    -- MTI
    obtain ⟨hmu, hmp⟩ := hmti v (bb ++ fb ++ tail) mb cmti hdm (by rw [prim_pack_eq]; exact hmb)
      (by omega) (tailOK_of_coherent _ _ cmti)
    have hmu' := prim_unpack_ok hmu
    rw [prim_pack_eq, prim_canon_eq] at hmp
    rw [prim_canon_eq] at hmu'
    -- bitmap
    have hbu := bitmap_roundtrip spec.bitmap.enc henc fam spec.bitmap.specLen spec.bitmap.auto _ bm bb
      (fb ++ tail) hsb hbb
    -- scan
    have hsrc : mb ++ bb ++ fb ++ tail = mb ++ (bb ++ fb ++ tail) := by simp only [List.append_assoc]
    have hscan := scan_packed spec bm (bm.len - 1) 2 (sortBy idLess m.fields) (mb ++ (bb ++ fb ++ tail))
      (mb.length + bb.length) [] fb tail hasc
      (by
        intro p hp'
        have hpm := (hmem p).mp hp'
        obtain ⟨h2, _, hrt⟩ := hent p hpm
        have hset : bm.isSet p.1 = true :=
          (hbits p.1 (hnp0 p hp')).mpr ⟨List.mem_map.mpr ⟨p, hp', rfl⟩, h2⟩
        have := (isSet_bounds bm p.1 hset).2
        exact ⟨h2, by omega, hnp p hp', hset, hrt⟩)
      (by
        intro j _ _ hj3 hj4
        have hj3' : (reset spec.bitmap.specLen spec.bitmap.auto).isPresenceBit j = false := by
          rw [← C05.isPresenceBit_congr bm _ (by rw [hbl]; rfl) (by rw [hau]; rfl)]; exact hj3
        obtain ⟨h1, _⟩ := (hbits j hj3').mp hj4
        obtain ⟨p, hp1, hp2⟩ := List.mem_map.mp h1
        exact ⟨p, hp1, hp2⟩)
      hfb
      (by simp only [List.length_append]; omega)
      (by
        rw [← List.drop_drop, List.drop_left, List.append_assoc, List.drop_left])
    refine ⟨⟨_, ?_, rfl⟩, ?_⟩
    · rw [hsrc]
      have := unpack_intro spec (mb ++ (bb ++ fb ++ tail)) (spec.mti.canon v) mb.length bb.length _ bm _
        hmu' (by simp only [List.length_append]; omega)
        (by rw [List.drop_left, hpref, List.append_assoc]; exact hbu) hscan
      rw [this]
      simp only [List.nil_append, List.length_append, Nat.add_assoc]
      congr 2
      simp only [MsgSpec.canon, hm, Option.map_some]
      rfl
    · have hcm : (spec.canon m).mti = some (spec.mti.canon v) := by rw [canon_mti, hm]; rfl
      have hsort : sortBy idLess (spec.canon m).fields = (sortBy idLess m.fields).map (canonEntry spec) := by
        rw [canon_fields]
        exact sortBy_of_asc _ (asc_map_fst _ (canonEntry_fst spec) _ hasc)
      have hids : (sortBy idLess (spec.canon m).fields).map (·.1) = (sortBy idLess m.fields).map (·.1) := by
        rw [hsort, List.map_map]
        apply List.map_congr_left
        intro p _
        exact canonEntry_fst spec p
      refine pack_intro spec (spec.canon m) _ bm mb bb fb hcm (by rw [hids]; exact hsb) hmp hbb ?_
      rw [hsort, packFields_no_presence spec bm _ (by
        intro p hp'
        obtain ⟨q, hq, rfl⟩ := List.mem_map.mp hp'
        rw [canonEntry_fst]; exact hnp q hq)]
      exact packAll_canon spec _ fb (fun p hp' => (hent p ((hmem p).mp hp')).2.2) hfb

end Iso8583.MessageRT

namespace Iso8583.FieldRT
open Iso8583

/-- **C01, message level, every coherent spec**: if primitives round-trip, every message
round-trips (given that the packed bytes are a Go slice) -/
theorem message_roundtrip (hprim : ∀ s lp, C01.FieldRoundTrip (.prim s) lp) (spec : MsgSpec) :
    MessageRoundTripB spec :=
  MessageRT.message_roundtripB_of_fields spec (field_roundtrip hprim (.prim spec.mti) false)
    (fun _ f _ => field_roundtrip hprim f false)

end Iso8583.FieldRT
