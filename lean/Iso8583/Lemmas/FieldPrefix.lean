/-
C19, field level for composites: a strict prefix of the packed bytes of a composite never
unpacks — either its length prefix is cut (DecodeLength fails), or the announced length
exceeds the bytes that are left (`dataLen > len(data) - offset`). No induction is needed: the
statement for a composite does not depend on its subfields.

As for the round trip, the statement carries the hypothesis that the packed bytes are a Go
slice (`bs.length ≤ maxInt`): the BER-TLV prefix of a body longer than MaxInt would be
garbage in the model (see `FieldPrefixFailsB`); for composites with any other prefix the
unbounded `MessageRT.FieldPrefixFails` is proved as well (`comp_prefix_fails_of_not_ber`).
-/
import Iso8583.Lemmas.FieldRT

namespace Iso8583.FieldPrefix
open Iso8583 Tlv

/-- `MessageRT.FieldPrefixFails` with the extra hypothesis that the packed bytes are a Go slice -/
def FieldPrefixFailsB (f : Field) : Prop :=
  ∀ (v : Value) (bs : Bytes) (o : Nat),
    f.coherent false = true → f.inDomain v = true → f.pack v = .ok bs → bs.length ≤ maxInt → o < bs.length →
    ∃ p, f.unpack (bs.take o) = .err p

theorem FieldPrefixFailsB_of (f : Field) (h : MessageRT.FieldPrefixFails f) : FieldPrefixFailsB f :=
  fun v bs o hc hd hp _ ho => h v bs o hc hd hp ho

/-- a packed composite is its length prefix followed by the body the prefix announces -/
theorem comp_pack_split (s : CompSpec) (subs : List (Tag × Field)) (vals : List (Tag × Value)) (bs : Bytes)
    (hp : Field.pack (.comp s subs) (.comp vals) = .ok bs) :
    ∃ pre body, s.pref.encodeLength s.len body.length = .ok pre ∧ bs = pre ++ body := by
  rw [Field.pack] at hp
  cases hmode : s.mode with
  | tagged t =>
    simp only [hmode] at hp
    cases hb : packByTag t subs vals with
    | err => simp [hb] at hp
    | panic => simp [hb] at hp
    | ok w =>
      simp only [hb] at hp
      cases hpre : s.pref.encodeLength s.len w.length with
      | err => simp [hpre] at hp
      | panic => simp [hpre] at hp
      | ok pre =>
        simp only [hpre, Res.ok.injEq] at hp
        exact ⟨pre, w, hpre, hp.symm⟩
  | bitmapped b =>
    simp only [hmode] at hp
    cases hb : packByBitmap subs vals (Bitmap.reset b.specLen b.auto) with
    | err => simp [hb] at hp
    | panic => simp [hb] at hp
    | ok r =>
      obtain ⟨bm, w⟩ := r
      simp only [hb] at hp
      cases hpbm : bm.pack b.enc with
      | err => simp [hpbm] at hp
      | panic => simp [hpbm] at hp
      | ok pbm =>
        simp only [hpbm] at hp
        cases hpre : s.pref.encodeLength s.len (pbm ++ w).length with
        | err => rw [hpre] at hp; cases hp
        | panic => rw [hpre] at hp; cases hp
        | ok pre =>
          rw [hpre] at hp
          simp only [Res.ok.injEq] at hp
          exact ⟨pre, pbm ++ w, hpre, hp.symm⟩

/-- a strict prefix of an encoded length prefix does not decode -/
theorem decodeLength_cut (p : Pref) (maxLen n : Nat) (pre : Bytes) (o : Nat)
    (hexp : p.exportedB = true) (hne : p ≠ .fixed .hex) (hnn : p ≠ .none) (hn : n ≤ maxInt)
    (henc : p.encodeLength maxLen n = .ok pre) (ho : o < pre.length) :
    p.decodeLength maxLen (pre.take o) = .err := by
  have hE := exported_of_exportedB p hexp
  have hrep : C06.Representable p maxLen n := by
    by_cases hr : C06.Representable p maxLen n
    · exact hr
    · have := (C06.enc_fails_iff p maxLen n hE hne hn).1.mpr hr
      rw [henc] at this; cases this
  by_cases hb : p = .berTLV
  · subst hb
    simp only [Pref.encodeLength] at henc
    split at henc
    · cases henc
    · split at henc
      · simp only [Res.ok.injEq] at henc
        subst henc
        have : o = 0 := by simp at ho; omega
        subst this
        simp [Pref.decodeLength]
      · simp only [Res.ok.injEq] at henc
        subst henc
        obtain ⟨_, _, hl8⟩ := C06.beBytes_spec n hn
        cases o with
        | zero => simp [Pref.decodeLength]
        | succ k =>
          simp only [List.take_succ_cons]
          have hk : (UInt8.ofNat (128 + (Pref.beBytes n).length)).toNat = 128 + (Pref.beBytes n).length :=
            ofNat_toNat_lt (by omega)
          apply (C06.ber_fails_short maxLen _ _ (by rw [hk]; omega) ?_).2
          rw [hk]
          simp only [List.length_cons, bytesOfNats_length] at ho
          simp only [List.length_take, bytesOfNats_length]
          omega
  · obtain ⟨bs, h1, _, h3⟩ := C06.dec_enc p maxLen n [] hE hne hnn hn hrep
    rw [henc] at h1; cases h1
    apply C06.dec_fails_short p maxLen _ hb
    rw [← h3 hb, List.length_take]
    omega

theorem unpack_comp_err_of_decode_err (s : CompSpec) (subs : List (Tag × Field)) (data : Bytes)
    (h : s.pref.decodeLength s.len data = .err) : Field.unpack (.comp s subs) data = .err [] := by
  rw [Field.unpack]; simp only [h]

theorem unpack_comp_err_of_short (s : CompSpec) (subs : List (Tag × Field)) (data : Bytes) (dl off : Nat)
    (h : s.pref.decodeLength s.len data = .ok (dl, off)) (h1 : off ≤ data.length) (h2 : dl > data.length - off) :
    Field.unpack (.comp s subs) data = .err [] := by
  have h1' : ¬ off > data.length := by omega
  rw [Field.unpack]; simp only [h, h1', h2, if_false, if_true]

theorem minimalBE_length_ge : ∀ (fuel k n : Nat), 256 ^ k ≤ n → k < fuel →
    k + 1 ≤ (Pref.minimalBE fuel n).length := by
  intro fuel
  induction fuel with
  | zero => intro k n _ h; omega
  | succ f ih =>
    intro k n hn hk
    have hpos : 0 < (256 : Nat) ^ k := Nat.pow_pos (by omega)
    have hn0 : n ≠ 0 := by omega
    simp only [Pref.minimalBE, hn0, if_false, List.length_append, List.length_singleton]
    cases k with
    | zero => omega
    | succ k' =>
      have : 256 ^ k' ≤ n / 256 := by
        rw [Nat.le_div_iff_mul_le (by omega)]
        rw [Nat.pow_succ] at hn; exact hn
      have := ih k' (n / 256) this (by omega)
      omega

/-- a length that an exported L…LLLLLL prefixer accepts is far below MaxInt -/
theorem var_encode_bound (f : Fam) (d maxLen n : Nat) (pre : Bytes) (hd : d ≤ 6)
    (henc : (Pref.var f d).encodeLength maxLen n = .ok pre) : n ≤ maxInt := by
  have h10 : (10 : Nat) ^ d ≤ 10 ^ 6 := Nat.pow_le_pow_right (by omega) hd
  have h256 : (256 : Nat) ^ d ≤ 256 ^ 6 := Nat.pow_le_pow_right (by omega) hd
  have h2 : (2 : Nat) ^ (d * 8) = 256 ^ d := by rw [Nat.mul_comm, Nat.pow_mul]
  have hlt : (10 : Nat) ^ 6 < 256 ^ 6 := by decide
  have hmi : (256 : Nat) ^ 6 ≤ maxInt := by decide
  simp only [Pref.encodeLength] at henc
  split at henc
  · cases henc
  · cases f with
    | ascii => simp only at henc; split at henc; cases henc; omega
    | ebcdic => simp only at henc; split at henc; cases henc; omega
    | ebcdic1047 => simp only at henc; split at henc; cases henc; omega
    | bcd => simp only at henc; split at henc; cases henc; omega
    | hex => simp only at henc; split at henc; cases henc; omega
    | binary =>
      simp only at henc
      split at henc
      · cases henc
      · rename_i hfit
        by_cases hbig : 256 ^ 6 ≤ n
        · have := minimalBE_length_ge 9 6 n hbig (by omega)
          unfold Pref.beBytes at hfit
          omega
        · omega

/-- the shared core: given the decomposition and the facts about the prefixer -/
theorem comp_prefix_core (s : CompSpec) (subs : List (Tag × Field)) (pre body : Bytes) (o : Nat)
    (hexp : s.pref.exportedB = true) (hne : s.pref ≠ .fixed .hex) (hnn : s.pref ≠ .none)
    (hn : body.length ≤ maxInt)
    (henc : s.pref.encodeLength s.len body.length = .ok pre) (ho : o < (pre ++ body).length) :
    Field.unpack (.comp s subs) ((pre ++ body).take o) = .err [] := by
  by_cases hlt : o < pre.length
  · rw [List.take_append_of_le_length (by omega)]
    exact unpack_comp_err_of_decode_err s subs _
      (decodeLength_cut s.pref s.len body.length pre o hexp hne hnn hn henc hlt)
  · have hge : pre.length ≤ o := by omega
    have htake : (pre ++ body).take o = pre ++ body.take (o - pre.length) := by
      rw [List.take_append]; rw [List.take_of_length_le hge]
    rw [htake]
    have hdec := decodeLength_of_encodeLength s.pref s.len body.length pre (body.take (o - pre.length))
      hexp hne hn henc (fun h => absurd h hnn)
    simp only [List.length_append] at ho
    apply unpack_comp_err_of_short s subs _ _ _ hdec
    · simp
    · simp only [List.length_append, List.length_take]
      omega

theorem comp_coherent_pref (s : CompSpec) (subs : List (Tag × Field))
    (hc : (Field.comp s subs).coherent false = true) :
    s.pref.exportedB = true ∧ s.pref ≠ .fixed .hex ∧ s.pref ≠ .none := by
  rw [Field.coherent] at hc
  simp only [Bool.and_eq_true] at hc
  obtain ⟨⟨⟨⟨hexp, hprefOK⟩, _⟩, _⟩, _⟩ := hc
  refine ⟨hexp, ?_, ?_⟩
  · intro e; rw [e] at hprefOK; simp at hprefOK
  · intro e; rw [e] at hprefOK; simp at hprefOK

/-- **a strict prefix of a packed composite never unpacks** (bytes a Go slice) -/
theorem comp_prefix_failsB (s : CompSpec) (subs : List (Tag × Field)) : FieldPrefixFailsB (.comp s subs) := by
  intro v bs o hc hd hp hlen ho
  cases v with
  | str b => simp [Field.inDomain] at hd
  | num i => simp [Field.inDomain] at hd
  | bin b => simp [Field.inDomain] at hd
  | hexv t => simp [Field.inDomain] at hd
  | comp vals =>
    obtain ⟨hexp, hne, hnn⟩ := comp_coherent_pref s subs hc
    obtain ⟨pre, body, henc, rfl⟩ := comp_pack_split s subs vals bs hp
    have hn : body.length ≤ maxInt := by simp only [List.length_append] at hlen; omega
    exact ⟨[], comp_prefix_core s subs pre body o hexp hne hnn hn henc ho⟩

/-- without the bound, for every composite whose own length prefix is not BER-TLV (Fixed: the
announced length is the spec's; L…LLLLLL: at most six digits) -/
theorem comp_prefix_fails_of_not_ber (s : CompSpec) (subs : List (Tag × Field)) (hnb : s.pref ≠ .berTLV) :
    MessageRT.FieldPrefixFails (.comp s subs) := by
  intro v bs o hc hd hp ho
  cases v with
  | str b => simp [Field.inDomain] at hd
  | num i => simp [Field.inDomain] at hd
  | bin b => simp [Field.inDomain] at hd
  | hexv t => simp [Field.inDomain] at hd
  | comp vals =>
    obtain ⟨hexp, hne, hnn⟩ := comp_coherent_pref s subs hc
    obtain ⟨pre, body, henc, rfl⟩ := comp_pack_split s subs vals bs hp
    cases hpf : s.pref with
    | none => exact absurd hpf hnn
    | berTLV => exact absurd hpf hnb
    | fixed f =>
      -- no prefix bytes; DecodeLength announces the spec length, the body is shorter
      rw [hpf] at henc
      have hpre : pre = [] ∧ body.length = s.len := by
        cases f <;> simp only [Pref.encodeLength] at henc <;> split at henc <;> simp_all
      obtain ⟨rfl, hbl⟩ := hpre
      simp only [List.nil_append] at ho ⊢
      refine ⟨[], unpack_comp_err_of_short s subs _ s.len 0 (by rw [hpf]; rfl) (by omega) ?_⟩
      simp only [List.length_take]; omega
    | var f d =>
      have hn : body.length ≤ maxInt := by
        rw [hpf] at henc hexp
        simp only [Pref.exportedB, decide_eq_true_eq] at hexp
        exact var_encode_bound f d s.len body.length pre hexp.2 henc
      exact ⟨[], comp_prefix_core s subs pre body o hexp hne hnn hn henc ho⟩

/-- **C19, field level, every field** (bytes a Go slice): if a strict prefix of a packed
primitive never unpacks, the same holds for every field -/
theorem field_prefix_failsB (hprim : ∀ s, MessageRT.FieldPrefixFails (.prim s)) :
    ∀ f, FieldPrefixFailsB f := by
  intro f
  cases f with
  | prim s => exact FieldPrefixFailsB_of _ (hprim s)
  | comp s subs => exact comp_prefix_failsB s subs

end Iso8583.FieldPrefix

/-! ## the message level (adapted from `MessageRT.message_truncation_of_fields`: the same proof
with the bound `|bs| ≤ maxInt` handed down to the MTI and the fields) -/

namespace Iso8583.MessageRT
open Iso8583 Bitmap MsgSpec Iso8583.FieldRT Iso8583.FieldPrefix

theorem message_truncationB_of_fields (spec : MsgSpec)
    (hmti : FieldRoundTripB (.prim spec.mti) false)
    (hmtiPF : FieldPrefixFailsB (.prim spec.mti))
    (hf : ∀ id f, (id, f) ∈ spec.fields → FieldRoundTripB f false)
    (hpf : ∀ id f, (id, f) ∈ spec.fields → FieldPrefixFailsB f)
    (m : Msg) (bs : Bytes) (o k : Nat)
    (hc : spec.coherent = true) (hd : spec.inDomain m = true) (hp : spec.pack m = .ok bs)
    (hlen : bs.length ≤ maxInt)
    (ho : o < bs.length) (hk : ownerAt (layout spec m) o = some k) :
    ∃ rest, spec.unpack (bs.take o) = .err (natToDec k :: rest) := by
  obtain ⟨cmti, ⟨fam, hpref⟩, henc, _, hfields⟩ := coherent_facts spec hc
  have hent := entry_factsB spec m bs hc hd hp hlen hf
  obtain ⟨hfle, hmle⟩ := packed_field_le spec m bs hc hd hp
  have hd' := hd
  simp only [MsgSpec.inDomain, Bool.and_eq_true, List.all_eq_true] at hd'
  obtain ⟨⟨hdm, hdd⟩, hdf⟩ := hd'
  cases hm : m.mti with
  | none => rw [hm] at hdm; cases hdm
  | some v =>
    rw [hm] at hdm
    simp only at hdm
    obtain ⟨bm, mb, bb, fb, hsb, hmb, hbb, hfb, rfl⟩ := pack_inv spec m v bs hm hp
    obtain ⟨hbits, _, hinv, hbl, hau⟩ := C05.setBits_bits_eq_present _ _ _ bm hsb
    have hasc : Asc (sortBy idLess m.fields) := sortBy_sorted m.fields hdd
    have hmem : ∀ p, p ∈ sortBy idLess m.fields ↔ p ∈ m.fields := fun p => mem_sortBy _ p _
    have hnp : ∀ p ∈ sortBy idLess m.fields, bm.isPresenceBit p.1 = false := by
      intro p hp'
      apply not_presence
      rw [hbl, hau]
      exact (hent p ((hmem p).mp hp')).2.1
    have hnp0 : ∀ p ∈ sortBy idLess m.fields,
        (reset spec.bitmap.specLen spec.bitmap.auto).isPresenceBit p.1 = false := by
      intro p hp'
      rw [← C05.isPresenceBit_congr bm _ (by rw [hbl]; rfl) (by rw [hau]; rfl)]
      exact hnp p hp'
    have hfilter : (sortBy idLess m.fields).filter (fun p => !bm.isPresenceBit p.1) = sortBy idLess m.fields := by
      apply List.filter_eq_self.mpr
      intro p hp'
      simp [hnp p hp']
    rw [packFields_no_presence spec bm _ hnp] at hfb
    have hlay : layout spec m = (0, mb) :: (1, bb) :: (sortBy idLess m.fields).map (segOf spec) := by
      simp only [layout, hsb, mtiBytes, hm, hmb, hbb, resBytes, hfilter]
    rw [hlay] at hk
    simp only [ownerAt] at hk
    have hmpk : (Field.prim spec.mti).pack v = .ok mb := by rw [prim_pack_eq]; exact hmb
    by_cases h0 : o < mb.length
    · -- the cut is inside the MTI
      rw [if_pos h0] at hk
      simp only [Option.some.injEq] at hk
      subst hk
      obtain ⟨q, hq⟩ := hmtiPF v mb o cmti hdm hmpk (Nat.le_trans (hmle v mb hm hmb) hlen) h0
      have := prim_unpack_err hq
      refine ⟨[], ?_⟩
      rw [List.append_assoc, List.take_append_of_le_length (by omega)]
      simp only [MsgSpec.unpack, this]
    · rw [if_neg h0] at hk
      have hmu : ∀ tail, spec.mti.unpack (mb ++ tail) = .ok (spec.mti.canon v, mb.length) := by
        intro tail
        have := (hmti v tail mb cmti hdm hmpk (Nat.le_trans (hmle v mb hm hmb) hlen) (tailOK_of_coherent _ _ cmti)).1
        have := prim_unpack_ok this
        rw [prim_canon_eq] at this
        exact this
      have hnr : ∀ tail : Bytes, ¬ mb.length > (mb ++ tail).length := by
        intro tail; simp only [List.length_append]; omega
      by_cases h1 : o - mb.length < bb.length
      · -- the cut is inside the bitmap
        rw [if_pos h1] at hk
        simp only [Option.some.injEq] at hk
        subst hk
        refine ⟨[], ?_⟩
        have hb := bitmap_prefix_fails spec.bitmap.enc henc fam spec.bitmap.specLen spec.bitmap.auto _ bm bb
          (o - mb.length) hsb hbb h1
        rw [List.append_assoc, List.take_append, List.take_of_length_le (by omega),
          List.take_append_of_le_length (by omega)]
        simp only [MsgSpec.unpack, hmu, hnr, ite_false, List.drop_left, hpref, hb]
      · -- the cut is inside the body
        rw [if_neg h1] at hk
        simp only [List.length_append] at ho
        have hsplit : (mb ++ bb ++ fb).take o = mb ++ (bb ++ fb.take (o - mb.length - bb.length)) := by
          rw [List.append_assoc, List.take_append, List.take_of_length_le (by omega), List.take_append,
            List.take_of_length_le (by omega)]
        have hbu := bitmap_roundtrip spec.bitmap.enc henc fam spec.bitmap.specLen spec.bitmap.auto _ bm bb
          (fb.take (o - mb.length - bb.length)) hsb hbb
        obtain ⟨k', rest, hk', hscan⟩ := scan_truncated spec bm (bm.len - 1) 2 (sortBy idLess m.fields)
          (mb ++ (bb ++ fb.take (o - mb.length - bb.length))) (mb.length + bb.length) [] fb
          (o - mb.length - bb.length) hasc
          (by
            intro p hp'
            have hpm := (hmem p).mp hp'
            obtain ⟨h2, _, hrt⟩ := hent p hpm
            have hset : bm.isSet p.1 = true :=
              (hbits p.1 (hnp0 p hp')).mpr ⟨List.mem_map.mpr ⟨p, hp', rfl⟩, h2⟩
            have := (isSet_bounds bm p.1 hset).2
            refine ⟨h2, by omega, hnp p hp', hset, hrt, ?_⟩
            intro f hlk bs' o' hpk' ho'
            have hmemf := lookupId_mem p.1 spec.fields f hlk
            have hdp := hdf p hpm
            rw [hlk] at hdp
            exact hpf p.1 f hmemf p.2 bs' o' (hfields p.1 f hmemf).2.2 hdp hpk'
              (Nat.le_trans (hfle p hpm f bs' hlk hpk') hlen) ho')
          (by
            intro j _ _ hj3 hj4
            have hj3' : (reset spec.bitmap.specLen spec.bitmap.auto).isPresenceBit j = false := by
              rw [← C05.isPresenceBit_congr bm _ (by rw [hbl]; rfl) (by rw [hau]; rfl)]; exact hj3
            obtain ⟨h1', _⟩ := (hbits j hj3').mp hj4
            obtain ⟨p, hp1, hp2⟩ := List.mem_map.mp h1'
            exact ⟨p, hp1, hp2⟩)
          hfb
          (by simp only [List.length_append]; omega)
          (by rw [← List.drop_drop, List.drop_left, List.drop_left])
          (by omega)
        rw [hk'] at hk
        simp only [Option.some.injEq] at hk
        subst hk
        refine ⟨rest, ?_⟩
        rw [hsplit]
        simp only [MsgSpec.unpack, hmu, hnr, ite_false, List.drop_left, hpref, hbu, hscan]


end Iso8583.MessageRT

namespace Iso8583.FieldPrefix
open Iso8583 Iso8583.FieldRT

/-- **C19, message level, every coherent spec** (bytes a Go slice): truncating a packed
message at any offset makes Unpack fail with an error attributed to the element that owns
the cut -/
theorem message_truncation (hprim : ∀ s lp, C01.FieldRoundTrip (.prim s) lp)
    (hprimPF : ∀ s, MessageRT.FieldPrefixFails (.prim s))
    (spec : MsgSpec) (m : Msg) (bs : Bytes) (o : Nat)
    (hc : spec.coherent = true) (hd : spec.inDomain m = true) (hp : spec.pack m = .ok bs)
    (hlen : bs.length ≤ maxInt) (ho : o < bs.length) :
    ∃ k rest, MessageRT.ownerAt (MessageRT.layout spec m) o = some k ∧
      spec.unpack (bs.take o) = .err (natToDec k :: rest) := by
  obtain ⟨k, hk⟩ := MessageRT.owner_exists spec m bs o hp ho
  obtain ⟨rest, hr⟩ := MessageRT.message_truncationB_of_fields spec
    (field_roundtrip hprim _ false) (field_prefix_failsB hprimPF _)
    (fun _ f _ => field_roundtrip hprim f false) (fun _ f _ => field_prefix_failsB hprimPF f)
    m bs o k hc hd hp hlen ho hk
  exact ⟨k, rest, hk, hr⟩

end Iso8583.FieldPrefix
