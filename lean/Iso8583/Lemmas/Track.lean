/-
Helper lemmas for the track field model (Model/Track.lean): digit runs, TrimSpace on
texts with non-blank ends, the "0601" date model, the three splitters on packed texts,
and the wire layer for the spec family used by the non-vacuity examples.
-/
import Iso8583.Spec.TrackDomain
import Iso8583.Props.C06

set_option linter.unusedSimpArgs false
set_option linter.unusedVariables false

namespace Iso8583.TrackLemmas
open Iso8583 Track

/-! ### byte classes -/

theorem dig_iff (c : Byte) : dig c = true ↔ 48 ≤ c.toNat ∧ c.toNat ≤ 57 := by simp [dig]

theorem dig_ne_caret {c : Byte} (h : dig c = true) : c ≠ caret := by
  intro e; subst e; revert h; decide

theorem not_dig_caret : dig caret = false := by decide
theorem not_dig_eq : dig eqSign = false := by decide
theorem not_dig_D : dig capD = false := by decide

/-! ### runs -/

theorem takeWhile_append_stop {α : Type} (p : α → Bool) (xs : List α) (c : α) (rest : List α)
    (hx : ∀ x ∈ xs, p x = true) (hc : p c = false) :
    (xs ++ c :: rest).takeWhile p = xs ∧ (xs ++ c :: rest).dropWhile p = c :: rest := by
  induction xs with
  | nil => simp [List.takeWhile, List.dropWhile, hc]
  | cons x xs ih =>
    have hx' : p x = true := hx x (by simp)
    have := ih (fun y hy => hx y (by simp [hy]))
    simp [List.takeWhile, List.dropWhile, hx', this.1, this.2]

theorem takeWhile_all {α : Type} (p : α → Bool) (xs : List α) : ∀ x ∈ xs.takeWhile p, p x = true := by
  induction xs with
  | nil => simp
  | cons x xs ih =>
    intro y hy
    simp only [List.takeWhile] at hy
    split at hy
    · rename_i hp
      rcases List.mem_cons.mp hy with rfl | h
      · exact hp
      · exact ih y h
    · simp at hy

theorem takeWhile_append_dropWhile' {α : Type} (p : α → Bool) (xs : List α) :
    xs.takeWhile p ++ xs.dropWhile p = xs := List.takeWhile_append_dropWhile

theorem dropWhile_head_not {α : Type} (p : α → Bool) (xs : List α) (c : α) (rest : List α)
    (h : xs.dropWhile p = c :: rest) : p c = false := by
  induction xs with
  | nil => simp at h
  | cons x xs ih =>
    simp only [List.dropWhile] at h
    split at h
    · exact ih h
    · rename_i hp
      simp only [List.cons.injEq] at h
      obtain ⟨rfl, _⟩ := h
      simpa using hp

/-! ### strings.TrimSpace -/

/-- an ASCII byte that is not white space -/
def edgeOK (c : Byte) : Prop := c.toNat < 128 ∧ ¬ (9 ≤ c.toNat ∧ c.toNat ≤ 13) ∧ c.toNat ≠ 32

theorem spacePrefix_edge (c : Byte) (rest : Bytes) (h : edgeOK c) : spacePrefix (c :: rest) = 0 := by
  obtain ⟨h1, h2, h3⟩ := h
  simp only [spacePrefix]
  have a1 : ¬ ((9 ≤ c.toNat ∧ c.toNat ≤ 13) ∨ c.toNat = 32) := by omega
  have a2 : ¬ c.toNat = 194 := by omega
  have a3 : ¬ c.toNat = 225 := by omega
  have a4 : ¬ c.toNat = 226 := by omega
  have a5 : ¬ c.toNat = 227 := by omega
  simp [a1, a2, a3, a4, a5]

theorem spaceSuffixRev_edge (c : Byte) (rest : Bytes) (h : edgeOK c) : spaceSuffixRev (c :: rest) = 0 := by
  obtain ⟨h1, h2, h3⟩ := h
  have a1 : ¬ ((9 ≤ c.toNat ∧ c.toNat ≤ 13) ∨ c.toNat = 32) := by omega
  have b1 : ¬ (c.toNat = 133 ∨ c.toNat = 160) := by omega
  have b2 : ¬ c.toNat = 128 := by omega
  have b3 : ¬ ((128 ≤ c.toNat ∧ c.toNat ≤ 138) ∨ c.toNat = 168 ∨ c.toNat = 169 ∨ c.toNat = 175) := by omega
  have b4 : ¬ c.toNat = 159 := by omega
  match rest with
  | [] => simp [spaceSuffixRev, a1]
  | [b1'] => simp [spaceSuffixRev, a1, b1]
  | b1' :: b2' :: r => simp [spaceSuffixRev, a1, b1, b2, b3, b4]

theorem trimLeft_of_head (c : Byte) (rest : Bytes) (h : spacePrefix (c :: rest) = 0) :
    trimLeft (c :: rest) = c :: rest := by
  simp [trimLeft, trimAux, h]

theorem trimRight_of_last (bs : Bytes) (c : Byte) (rest : Bytes) (hr : bs.reverse = c :: rest)
    (h : spaceSuffixRev (c :: rest) = 0) : trimRight bs = bs := by
  simp only [trimRight, hr, trimAux, h]
  simp [← hr]

/-- TrimSpace leaves a text alone whose first and last bytes are ASCII non-blanks -/
theorem trimSpace_of_edges (bs : Bytes) (c d : Byte) (hh : bs.head? = some c) (hl : bs.getLast? = some d)
    (hc : edgeOK c) (hd : edgeOK d) : trimSpace bs = bs := by
  cases bs with
  | nil => simp at hh
  | cons x xs =>
    simp only [List.head?_cons, Option.some.injEq] at hh
    subst hh
    have h1 : trimLeft (x :: xs) = x :: xs := trimLeft_of_head x xs (spacePrefix_edge x xs hc)
    have hr : ∃ rest, (x :: xs).reverse = d :: rest := by
      have : (x :: xs).reverse.head? = some d := by rw [List.head?_reverse]; exact hl
      cases hrev : (x :: xs).reverse with
      | nil => simp at hrev
      | cons y ys => rw [hrev] at this; simp at this; exact ⟨ys, by rw [this]⟩
    obtain ⟨rest, hr⟩ := hr
    simp only [trimSpace, h1]
    exact trimRight_of_last _ d rest hr (spaceSuffixRev_edge d rest hd)

theorem edgeOK_of_dig {c : Byte} (h : dig c = true) : edgeOK c := by
  have := (dig_iff c).mp h
  unfold edgeOK; omega

theorem edgeOK_of_upper {c : Byte} (h : upper c = true) : edgeOK c := by
  simp [upper] at h
  unfold edgeOK; omega

/-- a non-empty all-digit text is its own TrimSpace -/
theorem trimSpace_digits (bs : Bytes) (hne : bs ≠ []) (h : bs.all dig = true) : trimSpace bs = bs := by
  have hall : ∀ x ∈ bs, dig x = true := by simpa using h
  cases hb : bs with
  | nil => exact absurd hb hne
  | cons x xs =>
    obtain ⟨d, hd⟩ : ∃ d, (x :: xs).getLast? = some d := by
      cases h' : (x :: xs).getLast? with
      | none => simp at h'
      | some d => exact ⟨d, rfl⟩
    have hdm : d ∈ x :: xs := List.mem_of_getLast? hd
    subst hb
    exact trimSpace_of_edges _ x d rfl hd (edgeOK_of_dig (hall x (by simp))) (edgeOK_of_dig (hall d hdm))

/-! ### the "0601" date model -/

theorem dig_asciiDigit {d : Nat} (h : d ≤ 9) : dig (asciiDigit d) = true := by
  rw [dig_iff, asciiDigit_toNat h]; omega

theorem fmtExpiry_eq (e : Expiry) :
    fmtExpiry e = [asciiDigit (e.year % 100 / 10 % 10), asciiDigit (e.year % 100 % 10),
                   asciiDigit (e.month / 10 % 10), asciiDigit (e.month % 10)] := by
  simp [fmtExpiry, two]

theorem fmtExpiry_length (e : Expiry) : (fmtExpiry e).length = 4 := by simp [fmtExpiry_eq]

theorem fmtExpiry_digits (e : Expiry) : (fmtExpiry e).all dig = true := by
  simp only [fmtExpiry_eq, List.all_cons, List.all_nil, Bool.and_true, Bool.and_eq_true]
  refine ⟨dig_asciiDigit ?_, dig_asciiDigit ?_, dig_asciiDigit ?_, dig_asciiDigit ?_⟩ <;> omega

theorem fmtExpiry_ne_nil (e : Expiry) : fmtExpiry e ≠ [] := by simp [fmtExpiry_eq]

theorem fmtExpiry_head_dig (e : Expiry) : ∃ c rest, fmtExpiry e = c :: rest ∧ dig c = true := by
  refine ⟨_, _, fmtExpiry_eq e, dig_asciiDigit ?_⟩; omega

/-- Parse ∘ Format is the identity on the years a two-digit year can express -/
theorem parseExpiry_fmtExpiry (e : Expiry) (h : expiryOK e = true) : parseExpiry (fmtExpiry e) = some e := by
  simp only [expiryOK, decide_eq_true_eq] at h
  obtain ⟨h1, h2, h3, h4⟩ := h
  have d1 : e.year % 100 / 10 % 10 ≤ 9 := by omega
  have d2 : e.year % 100 % 10 ≤ 9 := by omega
  have d3 : e.month / 10 % 10 ≤ 9 := by omega
  have d4 : e.month % 10 ≤ 9 := by omega
  simp only [fmtExpiry_eq, parseExpiry, decVal_asciiDigit d1, decVal_asciiDigit d2, decVal_asciiDigit d3,
    decVal_asciiDigit d4]
  have m : e.month / 10 % 10 * 10 + e.month % 10 = e.month := by omega
  have hm : ¬ (e.month / 10 % 10 * 10 + e.month % 10 = 0 ∨ 12 < e.month / 10 % 10 * 10 + e.month % 10) := by omega
  rw [if_neg hm]
  cases e with
  | mk y mo =>
    simp only [Option.some.injEq, Expiry.mk.injEq]
    constructor
    · simp only at h1 h2
      split <;> omega
    · exact m

theorem trimSpace_fmtExpiry (e : Expiry) : trimSpace (fmtExpiry e) = fmtExpiry e :=
  trimSpace_digits _ (fmtExpiry_ne_nil e) (fmtExpiry_digits e)

/-! ### Track 2: the splitter on a well-formed text -/

theorem take_drop_append3 (a b c : Bytes) (ha : a.length = 4) (hb : b.length = 3) :
    (a ++ b ++ c).take 4 = a ∧ ((a ++ b ++ c).drop 4).take 3 = b ∧ ((a ++ b ++ c).drop 4).drop 3 = c := by
  have h1 : (a ++ b ++ c).take 4 = a := by
    rw [List.append_assoc, List.take_append_of_le_length (by omega)]
    rw [← ha, List.take_length]
  have h2 : (a ++ b ++ c).drop 4 = b ++ c := by
    rw [List.append_assoc, ← ha, List.drop_left]
  refine ⟨h1, ?_, ?_⟩
  · rw [h2, List.take_append_of_le_length (by omega), ← hb, List.take_length]
  · rw [h2, ← hb, List.drop_left]

theorem Track2.groups_concat (pan exp sc dd : Bytes) (sp : Byte)
    (hp1 : 1 ≤ pan.length) (hp2 : pan.length ≤ 19) (hpd : pan.all dig = true)
    (hs : sp = eqSign ∨ sp = capD)
    (he : exp.length = 4) (hed : exp.all dig = true) (hc : sc.length = 3) (hcd : sc.all dig = true)
    (hdd : dataOK dd = true) :
    Track2.groups (pan ++ sp :: (exp ++ sc ++ dd)) = some (pan, [sp], exp, sc, dd) := by
  have hsn : dig sp = false := by rcases hs with rfl | rfl <;> decide
  obtain ⟨t1, t2⟩ := takeWhile_append_stop dig pan sp (exp ++ sc ++ dd) (by simpa using hpd) hsn
  obtain ⟨a1, a2, a3⟩ := take_drop_append3 exp sc dd he hc
  simp only [Track2.groups, t1, t2, a1, a2, a3]
  simp [hp1, hp2, hs, he, hed, hc, hcd, hdd]

theorem ddOK_iff (d : Bytes) : ddOK d = true ↔ dataOK d = true ∧ trimSpace d = d := by
  simp [ddOK]

theorem panOK_iff (p : Bytes) : panOK p = true ↔ (1 ≤ p.length ∧ p.length ≤ 19) ∧ p.all dig = true := by
  simp [panOK]

theorem panOK_ne_nil {p : Bytes} (h : panOK p = true) : p ≠ [] := by
  intro e; subst e; simp [panOK] at h

/-- the Track2 parser on the text of an in-domain value returns the value, separator defaulted -/
theorem Track2.unpackRaw_packText (old v : Track2) (h : v.inDomain = true) :
    Track2.unpackRaw old v.packText =
      ({ v with sep := if v.sep = [] then [eqSign] else v.sep }, true) := by
  obtain ⟨pan, sep, expiry, sc, dd⟩ := v
  simp only [Track2.inDomain, Bool.and_eq_true, Bool.or_eq_true, beq_iff_eq, decide_eq_true_eq] at h
  obtain ⟨⟨⟨⟨⟨hpan, hsep⟩, hexp⟩, hscl⟩, hscd⟩, hdd⟩ := h
  cases expiry with
  | none => simp at hexp
  | some e =>
    simp only at hexp
    obtain ⟨⟨hp1, hp2⟩, hpd⟩ := (panOK_iff pan).mp hpan
    obtain ⟨hdo, hdt⟩ := (ddOK_iff dd).mp hdd
    -- the separator byte written
    obtain ⟨sp, hsp, hsepc, hcanon⟩ : ∃ sp : Byte, (sp = eqSign ∨ sp = capD) ∧
        (if sep ≠ [] then sep else [eqSign]) = [sp] ∧ (if sep = [] then [eqSign] else sep) = [sp] := by
      rcases hsep with (rfl | rfl) | rfl
      · exact ⟨eqSign, Or.inl rfl, by simp, by simp⟩
      · exact ⟨eqSign, Or.inl rfl, by simp [eqSign], by simp [eqSign]⟩
      · exact ⟨capD, Or.inr rfl, by simp [capD], by simp [capD]⟩
    have hsc0 : sc.length > 0 := by omega
    have htext : Track2.packText ⟨pan, sep, some e, sc, dd⟩ = pan ++ sp :: (fmtExpiry e ++ sc ++ dd) := by
      simp only [Track2.packText, hsepc, hsc0, if_true]
      simp [List.append_assoc]
    have hg := Track2.groups_concat pan (fmtExpiry e) sc dd sp hp1 hp2 hpd hsp (fmtExpiry_length e)
      (fmtExpiry_digits e) hscl hscd hdo
    have hscne : sc ≠ [] := by intro e'; subst e'; simp at hscl
    have tsp : trimSpace [sp] = [sp] := by rcases hsp with rfl | rfl <;> decide
    simp only [Track2.unpackRaw, htext, hg, trimSpace_fmtExpiry, trimSpace_digits pan (panOK_ne_nil hpan) hpd,
      trimSpace_digits sc hscne hscd, hdt, tsp, parseExpiry_fmtExpiry e hexp, hcanon]
    have : (fmtExpiry e).isEmpty = false := by
      cases hf : fmtExpiry e with
      | nil => exact absurd hf (fmtExpiry_ne_nil e)
      | cons _ _ => rfl
    simp [this]

/-! ### Track 3 -/

theorem digits_ne_singleton (bs : Bytes) (c : Byte) (hd : bs.all dig = true) (hc : dig c = false) : bs ≠ [c] := by
  intro e; subst e; simp [hc] at hd

theorem Track3.comp_digits (bs : Bytes) (hne : bs ≠ []) (hd : bs.all dig = true) : Track3.comp bs = bs := by
  simp [Track3.comp, trimSpace_digits bs hne hd, digits_ne_singleton bs eqSign hd not_dig_eq]

theorem Track3.groups_concat (fc pan dd : Bytes) (hf : fc.length = 2) (hfd : fc.all dig = true)
    (hp1 : 1 ≤ pan.length) (hp2 : pan.length ≤ 19) (hpd : pan.all dig = true) (hdd : dataOK dd = true) :
    Track3.groups (fc ++ pan ++ eqSign :: dd) = some (fc, pan, dd) := by
  have hall : ∀ x ∈ fc ++ pan, dig x = true := by
    intro x hx
    rcases List.mem_append.mp hx with h | h
    · exact (List.all_eq_true.mp hfd) x h
    · exact (List.all_eq_true.mp hpd) x h
  obtain ⟨t1, t2⟩ := takeWhile_append_stop dig (fc ++ pan) eqSign dd hall not_dig_eq
  have h1 : (fc ++ pan).take 2 = fc := by rw [← hf, List.take_left]
  have h2 : (fc ++ pan).drop 2 = pan := by rw [← hf, List.drop_left]
  have hl : (fc ++ pan).length = 2 + pan.length := by simp [hf]
  simp only [Track3.groups, t1, t2, h1, h2, hl]
  have : 3 ≤ 2 + pan.length ∧ 2 + pan.length ≤ 21 := by omega
  simp [this, hdd]

theorem Track3.unpackRaw_packText (old v : Track3) (h : v.inDomain = true) :
    Track3.unpackRaw old v.packText = (v, true) := by
  obtain ⟨fc, pan, dd⟩ := v
  simp only [Track3.inDomain, Bool.and_eq_true, decide_eq_true_eq, bne_iff_ne, ne_eq] at h
  obtain ⟨⟨⟨⟨hfl, hfd⟩, hpan⟩, hdd⟩, hne⟩ := h
  obtain ⟨⟨hp1, hp2⟩, hpd⟩ := (panOK_iff pan).mp hpan
  obtain ⟨hdo, hdt⟩ := (ddOK_iff dd).mp hdd
  have htext : Track3.packText ⟨fc, pan, dd⟩ = fc ++ pan ++ eqSign :: dd := by
    simp [Track3.packText, List.append_assoc]
  have hfne : fc ≠ [] := by intro e; subst e; simp at hfl
  have hcd : Track3.comp dd = dd := by simp [Track3.comp, hdt, hne]
  simp only [Track3.unpackRaw, htext, Track3.groups_concat fc pan dd hfl hfd hp1 hp2 hpd hdo,
    Track3.comp_digits fc hfne hfd, Track3.comp_digits pan (panOK_ne_nil hpan) hpd, hcd]

/-! ### Track 1 -/

/-- what `pack` writes into an optional slot: the placeholder or `k` digits -/
def Slot (k : Nat) (x : Bytes) : Prop := x = [caret] ∨ (x.length = k ∧ x.all dig = true)

theorem digitsOrCaret_slot (k : Nat) (hk : 1 ≤ k) (x rest : Bytes) (h : Slot k x) :
    Track1.digitsOrCaret k (x ++ rest) = some (x, rest) := by
  rcases h with rfl | ⟨hl, hd⟩
  · simp [Track1.digitsOrCaret]
  · cases x with
    | nil => simp at hl; omega
    | cons c cs =>
      have hc : dig c = true := (List.all_eq_true.mp hd) c (by simp)
      have hne : c ≠ caret := dig_ne_caret hc
      have ht : ((c :: cs) ++ rest).take k = c :: cs := by rw [← hl, List.take_left]
      have hdr : ((c :: cs) ++ rest).drop k = rest := by rw [← hl, List.drop_left]
      simp only [List.cons_append] at ht hdr
      simp only [Track1.digitsOrCaret, List.cons_append, hne, if_false, ht, hdr]
      simp [hl, hd]

theorem Track1.groups_concat (c : Byte) (pan name E C dd : Bytes) (hc : upper c = true)
    (hp1 : 1 ≤ pan.length) (hp2 : pan.length ≤ 19) (hpd : pan.all dig = true)
    (hn : name.all (· != caret) = true) (hn2 : 2 ≤ utf8Count name) (hn26 : utf8Count name ≤ 26)
    (hE : Slot 4 E) (hC : Slot 3 C) (hdd : dataOK dd = true) :
    Track1.groups (c :: (pan ++ caret :: (name ++ caret :: (E ++ (C ++ dd))))) = some ([c], pan, name, E, C, dd) := by
  obtain ⟨t1, t2⟩ := takeWhile_append_stop dig pan caret (name ++ caret :: (E ++ (C ++ dd))) (by simpa using hpd) not_dig_caret
  obtain ⟨n1, n2⟩ := takeWhile_append_stop (· != caret) name caret (E ++ (C ++ dd)) (by simpa using hn) (by simp)
  simp only [Track1.groups, hc, if_true, t1, t2, n1, n2, digitsOrCaret_slot 4 (by omega) E (C ++ dd) hE,
    digitsOrCaret_slot 3 (by omega) C dd hC]
  simp [hp1, hp2, hn2, hn26, hdd]

theorem Track1.comp_caret : Track1.comp [caret] = [] := by decide

theorem Track1.comp_of (x : Bytes) (ht : trimSpace x = x) (hne : x ≠ [caret]) : Track1.comp x = x := by
  simp [Track1.comp, ht, hne]

theorem Track1.comp_digits (bs : Bytes) (hne : bs ≠ []) (hd : bs.all dig = true) : Track1.comp bs = bs :=
  Track1.comp_of bs (trimSpace_digits bs hne hd) (digits_ne_singleton bs caret hd not_dig_caret)

/-- what `pack` writes for the expiry date -/
def expiredText (e : Option Expiry) : Bytes := match e with | some e => fmtExpiry e | none => [caret]

/-- the Track1 parser on the text of an in-domain value returns the value -/
theorem Track1.unpackRaw_packText (old v : Track1) (h : v.inDomain = true) (hold : old.fixedLength = false) :
    Track1.unpackRaw old v.packText = (v, true) := by
  obtain ⟨fl, fc, pan, name, expiry, sc, dd⟩ := v
  simp only [Track1.inDomain, Bool.and_eq_true, Bool.not_eq_true', decide_eq_true_eq, bne_iff_ne, ne_eq,
    beq_iff_eq, Bool.or_eq_true] at h
  obtain ⟨⟨⟨⟨⟨⟨⟨⟨⟨hfl, hfc⟩, hpan⟩, hnc⟩, hnt⟩, hnu⟩, hexp⟩, hsc⟩, hdd⟩, hdne⟩ := h
  subst hfl
  obtain ⟨⟨hp1, hp2⟩, hpd⟩ := (panOK_iff pan).mp hpan
  obtain ⟨hdo, hdt⟩ := (ddOK_iff dd).mp hdd
  -- the format code is one upper-case letter
  obtain ⟨c, rfl, hc⟩ : ∃ c, fc = [c] ∧ upper c = true := by
    match fc, hfc with
    | [c], h => exact ⟨c, rfl, h⟩
  -- the two optional slots as written
  let E : Bytes := expiredText expiry
  let C : Bytes := if sc.length > 0 then sc else [caret]
  have hE : Slot 4 E := by
    cases expiry with
    | none => exact Or.inl rfl
    | some e => exact Or.inr ⟨fmtExpiry_length e, fmtExpiry_digits e⟩
  have hC : Slot 3 C := by
    rcases hsc with h0 | ⟨hl, hd⟩
    · have : sc = [] := by simpa using h0
      subst this; exact Or.inl rfl
    · have : sc.length > 0 := by omega
      simp only [C, this, if_true]; exact Or.inr ⟨hl, hd⟩
  have htext : Track1.packText ⟨false, [c], pan, name, expiry, sc, dd⟩ =
      c :: (pan ++ caret :: (name ++ caret :: (E ++ (C ++ dd)))) := by
    cases expiry <;> simp [Track1.packText, E, C, expiredText, List.append_assoc]
  have hg := Track1.groups_concat c pan name E C dd hc hp1 hp2 hpd hnc hnu.1 hnu.2 hE hC hdo
  have hname_ne : name ≠ [caret] := by
    intro e; subst e; simp at hnc
  have hcfc : Track1.comp [c] = [c] := by
    apply Track1.comp_of
    · exact trimSpace_of_edges [c] c c rfl rfl (edgeOK_of_upper hc) (edgeOK_of_upper hc)
    · intro e
      have : c = caret := by simpa using e
      subst this; revert hc; decide
  have hcC : Track1.comp C = sc := by
    rcases hsc with h0 | ⟨hl, hd⟩
    · have : sc = [] := by simpa using h0
      subst this; simp [C, Track1.comp_caret]
    · have hpos : sc.length > 0 := by omega
      have hne : sc ≠ [] := by intro e; subst e; simp at hl
      simp only [C, hpos, if_true]; exact Track1.comp_digits sc hne hd
  simp only [Track1.unpackRaw, htext, hg, hcfc, Track1.comp_digits pan (panOK_ne_nil hpan) hpd,
    Track1.comp_of name hnt hname_ne, Track1.comp_of dd hdt hdne, hcC, hold]
  cases expiry with
  | none => simp [E, expiredText, Track1.comp_caret]
  | some e =>
    have hce : Track1.comp (fmtExpiry e) = fmtExpiry e :=
      Track1.comp_digits _ (fmtExpiry_ne_nil e) (fmtExpiry_digits e)
    have hemp : (fmtExpiry e).isEmpty = false := by
      cases hf : fmtExpiry e with
      | nil => exact absurd hf (fmtExpiry_ne_nil e)
      | cons _ _ => rfl
    simp only at hexp
    simp [E, expiredText, hce, hemp, parseExpiry_fmtExpiry e hexp]

/-! ### the three kinds together -/

theorem TrackVal.unpackRaw_packText (old v : TrackVal) (hk : old.kind = v.kind)
    (hfl : old.fixedLength = false) (h : v.inDomainComponents = true) :
    old.unpackRaw v.packText = (v.canon, true) := by
  cases v with
  | t1 x =>
    cases old with
    | t1 o =>
      simp only [TrackVal.unpackRaw, TrackVal.packText, TrackVal.canon]
      rw [Track1.unpackRaw_packText o x h hfl]
    | t2 o => simp [TrackVal.kind] at hk
    | t3 o => simp [TrackVal.kind] at hk
  | t2 x =>
    cases old with
    | t2 o =>
      simp only [TrackVal.unpackRaw, TrackVal.packText, TrackVal.canon]
      rw [Track2.unpackRaw_packText o x h]
    | t1 o => simp [TrackVal.kind] at hk
    | t3 o => simp [TrackVal.kind] at hk
  | t3 x =>
    cases old with
    | t3 o =>
      simp only [TrackVal.unpackRaw, TrackVal.packText, TrackVal.canon]
      rw [Track3.unpackRaw_packText o x h]
    | t1 o => simp [TrackVal.kind] at hk
    | t2 o => simp [TrackVal.kind] at hk

/-- the text of an in-domain value is never empty (it starts with the PAN / format code) -/
theorem TrackVal.packText_ne_nil (v : TrackVal) (h : v.inDomainComponents = true) : v.packText.isEmpty = false := by
  cases v with
  | t1 x =>
    obtain ⟨fl, fc, pan, name, expiry, sc, dd⟩ := x
    simp only [TrackVal.inDomainComponents, Track1.inDomain, Bool.and_eq_true] at h
    have hfc := h.1.1.1.1.1.1.1.1.2
    match fc, hfc with
    | [c], _ => simp [TrackVal.packText, Track1.packText]
  | t2 x =>
    obtain ⟨pan, sep, expiry, sc, dd⟩ := x
    simp only [TrackVal.inDomainComponents, Track2.inDomain, Bool.and_eq_true] at h
    have hp := panOK_ne_nil h.1.1.1.1.1
    cases pan with
    | nil => exact absurd rfl hp
    | cons a b => simp [TrackVal.packText, Track2.packText]
  | t3 x =>
    obtain ⟨fc, pan, dd⟩ := x
    simp only [TrackVal.inDomainComponents, Track3.inDomain, Bool.and_eq_true] at h
    have hp := panOK_ne_nil h.1.1.2
    cases pan with
    | nil => exact absurd rfl hp
    | cons a b => simp [TrackVal.packText, Track3.packText]

/-- packing the canonical form writes the same text -/
theorem TrackVal.packText_canon (v : TrackVal) : v.canon.packText = v.packText := by
  cases v with
  | t1 x => rfl
  | t3 x => rfl
  | t2 x =>
    simp only [TrackVal.canon, TrackVal.packText, Track2.packText]
    by_cases h : x.sep = [] <;> simp [h, eqSign]

theorem TrackVal.canon_kind (v : TrackVal) : v.canon.kind = v.kind := by cases v <;> rfl

theorem TrackSpec.fresh_kind (s : TrackSpec) : s.fresh.kind = s.kind := by
  cases s with
  | mk k l e p pd pk => cases k <;> rfl

theorem TrackSpec.fresh_fixedLength (s : TrackSpec) : s.fresh.fixedLength = false := by
  cases s with
  | mk k l e p pd pk => cases k <;> rfl

/-! ### wire layer -/

/-- Round trip of the wire layer for one text: what `unpacker.Unpack` returns for
`packer.Pack(text) ++ tail`. This is the String-primitive instance of C01's field round
trip (`PrimSpec.unpackBytes (packBytes text ++ tail) = (canon text, |packBytes text|)`)
at a text that is its own canonical form; `wire_roundtrip_plain` below proves it for
the default packer without padding. With the `None` prefix nothing may follow. -/
def WireRoundTrip (s : TrackSpec) (text bs : Bytes) : Prop :=
  ∀ tail : Bytes, (s.pref = .none → tail = []) → s.prim.unpackBytes (bs ++ tail) = .ok (text, bs.length)

theorem inDomain_parts (s : TrackSpec) (v : TrackVal) (h : s.inDomain v = true) :
    v.kind = s.kind ∧ v.inDomainComponents = true := by
  simp only [TrackSpec.inDomain, Bool.and_eq_true, beq_iff_eq] at h
  exact ⟨h.1.1.1.1, h.1.1.1.2⟩

/-- core of the round trip: Unpack of the packed bytes (plus tail) into an object of the
right kind whose FixedLength option is off stores exactly the canonical value -/
theorem unpack_pack (s : TrackSpec) (v old : TrackVal) (bs tail : Bytes)
    (hdom : s.inDomain v = true) (hk : old.kind = s.kind) (hfl : old.fixedLength = false)
    (hwire : WireRoundTrip s v.packText bs) (htail : s.pref = .none → tail = []) :
    s.unpack old (bs ++ tail) = (v.canon, .ok bs.length) := by
  obtain ⟨hvk, hvd⟩ := inDomain_parts s v hdom
  have hne := TrackVal.packText_ne_nil v hvd
  have hraw := TrackVal.unpackRaw_packText old v (by rw [hk, hvk]) hfl hvd
  simp only [TrackSpec.unpack, hwire tail htail, hne, hraw]
  simp

theorem pack_canon (s : TrackSpec) (v : TrackVal) : s.pack v.canon = s.pack v := by
  simp [TrackSpec.pack, TrackVal.packText_canon]

theorem exported_of_exportedB (p : Pref) (h : p.exportedB = true) : C06.Exported p := by
  unfold C06.Exported
  rw [C06.table_matches_model]
  cases p with
  | none => decide
  | berTLV => decide
  | fixed f => cases f <;> decide
  | var f d =>
    have hd : d = 1 ∨ d = 2 ∨ d = 3 ∨ d = 4 ∨ d = 5 ∨ d = 6 := by
      simp [Pref.exportedB] at h; omega
    rcases hd with rfl | rfl | rfl | rfl | rfl | rfl <;> cases f <;> decide

/-- the encoders that can carry track text one value unit per source byte -/
def TextEnc (e : Enc) : Prop := e = .ascii ∨ e = .ebcdic ∨ e = .ebcdic1047 ∨ e = .binary ∨ e = .bytesToHex

/-- **Wire layer round trip, default packer without padding**: from C06 (`dec_enc`,
`enc_fails_iff`) and C07 (`decode_encode`). -/
theorem wire_roundtrip_plain (s : TrackSpec) (text bs : Bytes)
    (hpk : s.packer = .default) (hpad : s.pad = .nil ∨ s.pad = .none)
    (henc : TextEnc s.enc) (hacc : C07.InDomain s.enc text)
    (hexp : s.pref.exportedB = true) (hne : s.pref ≠ .fixed .hex) (hnn : s.pref ≠ .none)
    (hlen : text.length ≤ maxInt)
    (hpack : s.prim.packBytes text = .ok bs) : WireRoundTrip s text bs := by
  intro tail _
  have hE := exported_of_exportedB s.pref hexp
  have hpadid : s.pad.pad text s.len = text := by rcases hpad with h | h <;> simp [h, Pad.pad]
  have hunpad : ∀ x, s.pad.unpad x = x := by intro x; rcases hpad with h | h <;> simp [h, Pad.unpad]
  obtain ⟨y, hy, hdec⟩ := C07.decode_encode s.enc text tail hacc
  have hnb : s.enc ≠ .berTag := by rcases henc with h | h | h | h | h <;> simp [h]
  have hdec' := hdec (fun h => absurd h hnb)
  have hunits : C07.units s.enc text y = text.length := by
    rcases henc with h | h | h | h | h <;> simp [h, C07.units]
  have hcanon : C07.canon s.enc text = text := by
    rcases henc with h | h | h | h | h <;> simp [h, C07.canon]
  rw [hunits, hcanon] at hdec'
  -- the prefix
  simp only [PrimSpec.packBytes, TrackSpec.prim, hpk, hpadid, hy] at hpack
  cases hpre : s.pref.encodeLength s.len text.length with
  | err => simp [hpre] at hpack
  | panic => simp [hpre] at hpack
  | ok pre =>
    simp only [hpre, Res.ok.injEq] at hpack
    subst hpack
    have hrep : C06.Representable s.pref s.len text.length := by
      have := (C06.enc_fails_iff s.pref s.len text.length hE hne hlen).1
      by_cases hc : C06.Representable s.pref s.len text.length
      · exact hc
      · have h' := this.mpr hc
        rw [hpre] at h'; exact absurd h' (by simp)
    obtain ⟨pre', h1, h2, _⟩ := C06.dec_enc s.pref s.len text.length (y ++ tail) hE hne hnn hlen hrep
    rw [hpre] at h1
    simp only [Res.ok.injEq] at h1
    subst h1
    simp only [PrimSpec.unpackBytes, TrackSpec.prim, hpk, List.append_assoc, h2]
    have hle : ¬ pre.length > (pre ++ (y ++ tail)).length := by simp
    simp only [hle, if_false, List.drop_left, Enc.decode_natCast] at *
    have hd2 : Enc.decode s.enc (y ++ tail) (text.length : Int) = .ok (text, y.length) := hdec'
    simp only [Enc.decode_natCast] at hd2
    simp [hd2, hunpad, Nat.add_comm]

/-! ### no panic -/

theorem decodeNat_ne_panic (e : Enc) (d : Bytes) (n : Nat) : Enc.decodeNat e d n ≠ .panic := by
  cases e <;> simp only [Enc.decodeNat] <;> (repeat' split) <;> simp

theorem decode_ne_panic (e : Enc) (d : Bytes) (n : Int) : Enc.decode e d n ≠ .panic := by
  cases n with
  | ofNat k => exact decodeNat_ne_panic e d k
  | negSucc k =>
    simp only [Enc.decode]
    split
    · exact decodeNat_ne_panic e d 0
    · simp

/-- `defaultUnpacker.Unpack` / `Track2Unpacker.Unpack` never panic, whatever the spec and bytes -/
theorem unpackBytes_ne_panic (s : PrimSpec) (data : Bytes) : s.unpackBytes data ≠ .panic := by
  obtain ⟨hnp, hr⟩ := C06.dec_range s.pref s.len data
  simp only [PrimSpec.unpackBytes]
  cases hdl : s.pref.decodeLength s.len data with
  | err => simp
  | panic => exact absurd hdl hnp
  | ok mr =>
    obtain ⟨m, r⟩ := mr
    have hle : r ≤ data.length := (hr m r hdl).1
    have : ¬ r > data.length := by omega
    simp only [this, if_false]
    -- (robust against further result checks after a successful decode)
    split
    · simp
    · rename_i h; exact absurd h (decode_ne_panic _ _ _)
    · first
      | (simp; done)
      | (split <;> first | (simp; done) | (split <;> simp))

/-! ### the parsers overwrite or clear every component -/

/-- two objects that may differ in their parsed components only -/
def SameConfig (a b : TrackVal) : Prop := a.kind = b.kind ∧ a.fixedLength = b.fixedLength

theorem Track2.unpackRaw_forgets (old old' : Track2) (raw : Bytes) (h : (old.unpackRaw raw).2 = true) :
    old'.unpackRaw raw = old.unpackRaw raw := by
  simp only [Track2.unpackRaw] at h ⊢
  cases hg : Track2.groups raw with
  | none => simp [hg] at h
  | some g => rfl

theorem Track3.unpackRaw_forgets (old old' : Track3) (raw : Bytes) (h : (old.unpackRaw raw).2 = true) :
    old'.unpackRaw raw = old.unpackRaw raw := by
  simp only [Track3.unpackRaw] at h ⊢
  cases hg : Track3.groups raw with
  | none => simp [hg] at h
  | some g => rfl

theorem Track1.unpackRaw_forgets (old old' : Track1) (raw : Bytes) (hf : old'.fixedLength = old.fixedLength)
    (h : (old.unpackRaw raw).2 = true) : old'.unpackRaw raw = old.unpackRaw raw := by
  simp only [Track1.unpackRaw] at h ⊢
  cases hg : Track1.groups raw with
  | none => simp [hg] at h
  | some g => simp only [hf]

/-- **the parser forgets**: when `f.unpack(raw)` succeeds, the components afterwards do not
depend on what the object held before -/
theorem TrackVal.unpackRaw_forgets (old old' : TrackVal) (raw : Bytes) (hc : SameConfig old old')
    (h : (old.unpackRaw raw).2 = true) : old'.unpackRaw raw = old.unpackRaw raw := by
  obtain ⟨hk, hf⟩ := hc
  cases old with
  | t1 o =>
    cases old' with
    | t1 o' =>
      simp only [TrackVal.unpackRaw] at h ⊢
      rw [Track1.unpackRaw_forgets o o' raw hf.symm h]
    | t2 _ => simp [TrackVal.kind] at hk
    | t3 _ => simp [TrackVal.kind] at hk
  | t2 o =>
    cases old' with
    | t2 o' =>
      simp only [TrackVal.unpackRaw] at h ⊢
      rw [Track2.unpackRaw_forgets o o' raw h]
    | t1 _ => simp [TrackVal.kind] at hk
    | t3 _ => simp [TrackVal.kind] at hk
  | t3 o =>
    cases old' with
    | t3 o' =>
      simp only [TrackVal.unpackRaw] at h ⊢
      rw [Track3.unpackRaw_forgets o o' raw h]
    | t1 _ => simp [TrackVal.kind] at hk
    | t2 _ => simp [TrackVal.kind] at hk

/-- the `FixedLength` option survives the parser -/
theorem TrackVal.unpackRaw_fixedLength (old : TrackVal) (raw : Bytes) :
    (old.unpackRaw raw).1.fixedLength = old.fixedLength := by
  cases old with
  | t1 o =>
    simp only [TrackVal.unpackRaw, TrackVal.fixedLength, Track1.unpackRaw]
    cases Track1.groups raw with
    | none => rfl
    | some g =>
      obtain ⟨fc, pan, name, exp, sc, dd⟩ := g
      simp only
      split
      · rfl
      · split <;> rfl
  | t2 o => rfl
  | t3 o => rfl

theorem TrackVal.unpackRaw_kind (old : TrackVal) (raw : Bytes) : (old.unpackRaw raw).1.kind = old.kind := by
  cases old <;> rfl

/-! ### from the Boolean side conditions to the hypotheses of C06 / C07 -/

theorem accepts_inDomain (e : Enc) (x : Bytes) (he : TextEnc e) (h : e.accepts x = true) : C07.InDomain e x := by
  rcases he with rfl | rfl | rfl | rfl | rfl
  · simp only [Enc.accepts, List.all_eq_true] at h
    intro c hc; have := h c hc; simpa [isAsciiB, isAscii] using this
  · trivial
  · simp only [Enc.accepts, List.all_eq_true] at h
    intro c hc; have := h c hc; simpa [isAsciiB, isAscii] using this
  · trivial
  · trivial

theorem coherent_pref (s : TrackSpec) (h : s.coherent = true) (he : TextEnc s.enc) :
    s.pref.exportedB = true ∧ s.pref ≠ .fixed .hex ∧ s.pref ≠ .none := by
  -- (written without reference to the position of the clauses inside `PrimSpec.coherent`)
  simp only [TrackSpec.coherent, PrimSpec.coherent, TrackSpec.prim, Bool.and_eq_true] at h
  refine ⟨by revert h; simp only [and_imp]; intros; assumption, ?_, ?_⟩
  · intro hp
    rcases he with e | e | e | e | e <;> simp_all
  · intro hp
    simp_all

/-- the wire-layer hypothesis holds for coherent specs with a text encoder, the default
packer and no padding -/
theorem wire_plain_of_coherent (s : TrackSpec) (v : TrackVal) (bs : Bytes)
    (hco : s.coherent = true) (hdom : s.inDomain v = true)
    (hpk : s.packer = .default) (hpad : s.pad = .nil ∨ s.pad = .none) (he : TextEnc s.enc)
    (hpack : s.pack v = .ok bs) : WireRoundTrip s v.packText bs := by
  obtain ⟨h1, h2, h3⟩ := coherent_pref s hco he
  simp only [TrackSpec.inDomain, Bool.and_eq_true] at hdom
  obtain ⟨⟨⟨_, hfd⟩, _⟩, _⟩ := hdom
  simp only [Field.inDomain, TrackSpec.prim, hpk, Bool.and_eq_true, decide_eq_true_eq] at hfd
  obtain ⟨⟨_, hlen⟩, hacc⟩ := hfd
  have hpadid : s.pad.pad v.packText s.len = v.packText := by rcases hpad with h | h <;> simp [h, Pad.pad]
  rw [hpadid] at hacc
  exact wire_roundtrip_plain s v.packText bs hpk hpad he (accepts_inDomain _ _ he hacc) h1 h2 h3 hlen hpack

/-! ### soundness of the splitters: an accepted text is the concatenation of its groups -/

theorem Track2.groups_sound (raw pan sep exp sc dd : Bytes)
    (h : Track2.groups raw = some (pan, sep, exp, sc, dd)) :
    raw = pan ++ sep ++ exp ++ sc ++ dd ∧ (1 ≤ pan.length ∧ pan.length ≤ 19) ∧ pan.all dig = true ∧
    (sep = [eqSign] ∨ sep = [capD]) ∧ exp.length = 4 ∧ exp.all dig = true ∧
    sc.length = 3 ∧ sc.all dig = true ∧ dataOK dd = true := by
  simp only [Track2.groups] at h
  split at h
  · rename_i hlen
    split at h
    · rename_i sp r2 hdw
      split at h
      · rename_i hsp
        split at h
        · rename_i hc
          simp only [Option.some.injEq, Prod.mk.injEq] at h
          obtain ⟨rfl, rfl, rfl, rfl, rfl⟩ := h
          obtain ⟨c1, c2, c3, c4, c5⟩ := hc
          refine ⟨?_, hlen, ?_, ?_, c1, c2, c3, c4, c5⟩
          · have e1 := takeWhile_append_dropWhile' dig raw
            rw [hdw] at e1
            have e2 : r2.take 4 ++ ((r2.drop 4).take 3 ++ (r2.drop 4).drop 3) = r2 := by
              rw [List.take_append_drop, List.take_append_drop]
            conv => lhs; rw [← e1]
            simp only [List.append_assoc, List.cons_append, List.nil_append, e2]
          · exact List.all_eq_true.mpr (takeWhile_all dig raw)
          · rcases hsp with rfl | rfl
            · exact Or.inl rfl
            · exact Or.inr rfl
        · simp at h
      · simp at h
    · simp at h
  · simp at h

theorem Track3.groups_sound (raw fc pan dd : Bytes) (h : Track3.groups raw = some (fc, pan, dd)) :
    raw = fc ++ pan ++ eqSign :: dd ∧ fc.length = 2 ∧ fc.all dig = true ∧
    (1 ≤ pan.length ∧ pan.length ≤ 19) ∧ pan.all dig = true ∧ dataOK dd = true := by
  simp only [Track3.groups] at h
  split at h
  · rename_i hlen
    split at h
    · rename_i c dd' hdw
      split at h
      · rename_i hc
        simp only [Option.some.injEq, Prod.mk.injEq] at h
        obtain ⟨rfl, rfl, rfl⟩ := h
        obtain ⟨rfl, hdd⟩ := hc
        have hall := takeWhile_all dig raw
        have e1 := takeWhile_append_dropWhile' dig raw
        rw [hdw] at e1
        refine ⟨?_, ?_, ?_, ?_, ?_, hdd⟩
        · rw [List.take_append_drop]; exact e1.symm
        · simp [List.length_take]; omega
        · exact List.all_eq_true.mpr (fun x hx => hall x (List.mem_of_mem_take hx))
        · simp [List.length_drop]; omega
        · exact List.all_eq_true.mpr (fun x hx => hall x (List.mem_of_mem_drop hx))
      · simp at h
    · simp at h
  · simp at h

theorem digitsOrCaret_sound (k : Nat) (r x rest : Bytes) (h : Track1.digitsOrCaret k r = some (x, rest)) :
    r = x ++ rest ∧ Slot k x := by
  simp only [Track1.digitsOrCaret] at h
  split at h
  · simp at h
  · rename_i c rest'
    split at h
    · rename_i hc
      simp only [Option.some.injEq, Prod.mk.injEq] at h
      obtain ⟨rfl, rfl⟩ := h
      subst hc
      exact ⟨rfl, Or.inl rfl⟩
    · split at h
      · rename_i hc
        simp only [Option.some.injEq, Prod.mk.injEq] at h
        obtain ⟨rfl, rfl⟩ := h
        exact ⟨(List.take_append_drop k _).symm, Or.inr hc⟩
      · simp at h

theorem Track1.groups_sound (raw fc pan name E C dd : Bytes)
    (h : Track1.groups raw = some (fc, pan, name, E, C, dd)) :
    ∃ c, fc = [c] ∧ upper c = true ∧
    raw = c :: (pan ++ caret :: (name ++ caret :: (E ++ (C ++ dd)))) ∧
    (1 ≤ pan.length ∧ pan.length ≤ 19) ∧ pan.all dig = true ∧
    name.all (· != caret) = true ∧ (2 ≤ utf8Count name ∧ utf8Count name ≤ 26) ∧
    Slot 4 E ∧ Slot 3 C ∧ dataOK dd = true := by
  simp only [Track1.groups] at h
  split at h
  · simp at h
  · rename_i c r0
    split at h
    · rename_i hup
      split at h
      · rename_i hlen
        split at h
        · rename_i c1 r1 hdw
          split at h
          · rename_i hc1
            subst hc1
            split at h
            · rename_i hnu
              split at h
              · rename_i c2 r2 hdw2
                split at h
                · rename_i exp r3 hE
                  split at h
                  · rename_i sc dd' hC
                    split at h
                    · rename_i hdd
                      simp only [Option.some.injEq, Prod.mk.injEq] at h
                      obtain ⟨rfl, rfl, rfl, rfl, rfl, rfl⟩ := h
                      obtain ⟨e3, s3⟩ := digitsOrCaret_sound 4 r2 _ _ hE
                      obtain ⟨e4, s4⟩ := digitsOrCaret_sound 3 r3 _ _ hC
                      have hc2 : c2 = caret := by
                        have := dropWhile_head_not (· != caret) r1 c2 r2 hdw2
                        simpa using this
                      subst hc2
                      have e1 := takeWhile_append_dropWhile' dig r0
                      rw [hdw] at e1
                      have e2 := takeWhile_append_dropWhile' (· != caret) r1
                      rw [hdw2] at e2
                      refine ⟨c, rfl, hup, ?_, hlen, List.all_eq_true.mpr (takeWhile_all dig r0),
                        List.all_eq_true.mpr (takeWhile_all _ r1), hnu, s3, s4, hdd⟩
                      rw [← e4, ← e3, e2, e1]
                    · simp at h
                  · simp at h
                · simp at h
              · simp at h
            · simp at h
          · simp at h
        · simp at h
      · simp at h
    · simp at h

/-! ### Format ∘ Parse, and re-packing what the parser stored -/

theorem fmtExpiry_parseExpiry (x : Bytes) (e : Expiry) (h : parseExpiry x = some e) : fmtExpiry e = x := by
  unfold parseExpiry at h
  split at h
  · rename_i a b c d
    split at h
    · rename_i a' b' c' d' ha hb hc hd
      obtain ⟨ia, rfl⟩ := decVal_some ha
      obtain ⟨ib, rfl⟩ := decVal_some hb
      obtain ⟨ic, rfl⟩ := decVal_some hc
      obtain ⟨id, rfl⟩ := decVal_some hd
      dsimp only at h
      split at h
      · simp at h
      · simp only [Option.some.injEq] at h
        subst h
        have ra := asciiDigit_of_digit ia
        have rb := asciiDigit_of_digit ib
        have rc := asciiDigit_of_digit ic
        have rd := asciiDigit_of_digit id
        unfold isDigit at ia ib ic id
        simp only [fmtExpiry_eq]
        have y1 : (if (a.toNat - 48) * 10 + (b.toNat - 48) ≥ 69 then 1900 + ((a.toNat - 48) * 10 + (b.toNat - 48))
            else 2000 + ((a.toNat - 48) * 10 + (b.toNat - 48))) % 100 / 10 % 10 = a.toNat - 48 := by
          split <;> omega
        have y2 : (if (a.toNat - 48) * 10 + (b.toNat - 48) ≥ 69 then 1900 + ((a.toNat - 48) * 10 + (b.toNat - 48))
            else 2000 + ((a.toNat - 48) * 10 + (b.toNat - 48))) % 100 % 10 = b.toNat - 48 := by
          split <;> omega
        have m1 : ((c.toNat - 48) * 10 + (d.toNat - 48)) / 10 % 10 = c.toNat - 48 := by omega
        have m2 : ((c.toNat - 48) * 10 + (d.toNat - 48)) % 10 = d.toNat - 48 := by omega
        rw [y1, y2, m1, m2, ra, rb, rc, rd]
    · simp at h
  · simp at h

/-- no captured group of an accepted Track2 text is changed by TrimSpace -/
def Track2.Untrimmed (raw : Bytes) : Prop :=
  ∃ pan sep exp sc dd, Track2.groups raw = some (pan, sep, exp, sc, dd) ∧ trimSpace dd = dd

/-- … of a Track1 text, and the discretionary data is not the placeholder "^" -/
def Track1.Untrimmed (raw : Bytes) : Prop :=
  ∃ fc pan name E C dd, Track1.groups raw = some (fc, pan, name, E, C, dd) ∧
    trimSpace name = name ∧ trimSpace dd = dd ∧ dd ≠ [caret]

/-- … of a Track3 text, and the discretionary data is not "=" -/
def Track3.Untrimmed (raw : Bytes) : Prop :=
  ∃ fc pan dd, Track3.groups raw = some (fc, pan, dd) ∧ trimSpace dd = dd ∧ dd ≠ [eqSign]

theorem ne_nil_of_length {bs : Bytes} {k : Nat} (h : bs.length = k) (hk : 1 ≤ k) : bs ≠ [] := by
  intro e; subst e; simp at h; omega

theorem Track2.repack_untrimmed (old v : Track2) (raw : Bytes) (hu : Track2.Untrimmed raw)
    (h : old.unpackRaw raw = (v, true)) : v.packText = raw := by
  obtain ⟨pan, sep, exp, sc, dd, hg, hdt⟩ := hu
  obtain ⟨hraw, hpl, hpd, hsep, hel, hed, hcl, hcd, hdd⟩ := Track2.groups_sound raw pan sep exp sc dd hg
  have hpne : pan ≠ [] := ne_nil_of_length rfl hpl.1
  have tsp : trimSpace sep = sep := by rcases hsep with rfl | rfl <;> decide
  have hene : exp ≠ [] := ne_nil_of_length hel (by omega)
  have hemp : exp.isEmpty = false := by cases exp with | nil => exact absurd rfl hene | cons _ _ => rfl
  simp only [Track2.unpackRaw, hg, trimSpace_digits pan hpne hpd, tsp, trimSpace_digits exp hene hed,
    trimSpace_digits sc (ne_nil_of_length hcl (by omega)) hcd, hdt, hemp] at h
  cases hp : parseExpiry exp with
  | none => simp [hp] at h
  | some t =>
    simp only [hp, Bool.false_eq_true, if_false, Prod.mk.injEq, and_true] at h
    subst h
    have hsne : sep ≠ [] := by rcases hsep with rfl | rfl <;> simp
    have hsc0 : sc.length > 0 := by omega
    simp only [Track2.packText, fmtExpiry_parseExpiry exp t hp, hsne, hsc0, if_true, ne_eq, not_false_eq_true]
    exact hraw.symm

theorem Track3.repack_untrimmed (old v : Track3) (raw : Bytes) (hu : Track3.Untrimmed raw)
    (h : old.unpackRaw raw = (v, true)) : v.packText = raw := by
  obtain ⟨fc, pan, dd, hg, hdt, hdne⟩ := hu
  obtain ⟨hraw, hfl, hfd, hpl, hpd, hdd⟩ := Track3.groups_sound raw fc pan dd hg
  have hcd : Track3.comp dd = dd := by simp [Track3.comp, hdt, hdne]
  simp only [Track3.unpackRaw, hg, Track3.comp_digits fc (ne_nil_of_length hfl (by omega)) hfd,
    Track3.comp_digits pan (ne_nil_of_length rfl hpl.1) hpd, hcd, Prod.mk.injEq, and_true] at h
  subst h
  simp only [Track3.packText]
  rw [hraw]; simp [List.append_assoc]

theorem Track1.repack_untrimmed (old v : Track1) (raw : Bytes) (hu : Track1.Untrimmed raw)
    (hold : old.fixedLength = false) (h : old.unpackRaw raw = (v, true)) : v.packText = raw := by
  obtain ⟨fc, pan, name, E, C, dd, hg, hnt, hdt, hdne⟩ := hu
  obtain ⟨c, rfl, hup, hraw, hpl, hpd, hnc, hnu, hE, hC, hdd⟩ := Track1.groups_sound raw _ pan name E C dd hg
  have hcfc : Track1.comp [c] = [c] := by
    apply Track1.comp_of
    · exact trimSpace_of_edges [c] c c rfl rfl (edgeOK_of_upper hup) (edgeOK_of_upper hup)
    · intro e
      have : c = caret := by simpa using e
      subst this; revert hup; decide
  have hname_ne : name ≠ [caret] := by intro e; subst e; simp at hnc
  simp only [Track1.unpackRaw, hg, hcfc, Track1.comp_digits pan (ne_nil_of_length rfl hpl.1) hpd,
    Track1.comp_of name hnt hname_ne, Track1.comp_of dd hdt hdne, hold] at h
  -- the service code slot
  have hsc : ∀ w : Bytes, w = Track1.comp C → (if w.length > 0 then w else [caret]) = C := by
    intro w hw
    rcases hC with rfl | ⟨hl, hd⟩
    · subst hw; simp [Track1.comp_caret]
    · rw [Track1.comp_digits C (ne_nil_of_length hl (by omega)) hd] at hw
      rw [hw]
      have : C.length > 0 := by omega
      simp [this]
  rcases hE with rfl | ⟨hl, hd⟩
  · simp only [Track1.comp_caret, List.isEmpty_nil, if_true, Prod.mk.injEq, and_true] at h
    subst h
    simp only [Track1.packText, hsc _ rfl]
    rw [hraw]; simp [List.append_assoc]
  · have hEne : E ≠ [] := ne_nil_of_length hl (by omega)
    have hemp : E.isEmpty = false := by cases E with | nil => exact absurd rfl hEne | cons _ _ => rfl
    simp only [Track1.comp_digits E hEne hd, hemp] at h
    cases hp : parseExpiry E with
    | none => simp [hp] at h
    | some t =>
      simp only [hp, Bool.false_eq_true, if_false, Prod.mk.injEq, and_true] at h
      subst h
      simp only [Track1.packText, hsc _ rfl, fmtExpiry_parseExpiry E t hp]
      rw [hraw]; simp [List.append_assoc]

/-- no captured group is changed by TrimSpace or skipped as a placeholder -/
def Untrimmed : TrackKind → Bytes → Prop
  | .t1, raw => Track1.Untrimmed raw
  | .t2, raw => Track2.Untrimmed raw
  | .t3, raw => Track3.Untrimmed raw

theorem TrackVal.repack_untrimmed (old v : TrackVal) (raw : Bytes) (hu : Untrimmed old.kind raw)
    (hold : old.fixedLength = false) (h : old.unpackRaw raw = (v, true)) : v.packText = raw := by
  cases old with
  | t1 o =>
    simp only [TrackVal.unpackRaw, Prod.mk.injEq] at h
    obtain ⟨rfl, h2⟩ := h
    exact Track1.repack_untrimmed o _ raw hu hold (Prod.ext rfl h2)
  | t2 o =>
    simp only [TrackVal.unpackRaw, Prod.mk.injEq] at h
    obtain ⟨rfl, h2⟩ := h
    exact Track2.repack_untrimmed o _ raw hu (Prod.ext rfl h2)
  | t3 o =>
    simp only [TrackVal.unpackRaw, Prod.mk.injEq] at h
    obtain ⟨rfl, h2⟩ := h
    exact Track3.repack_untrimmed o _ raw hu (Prod.ext rfl h2)

/-! ### TrimSpace: result is an infix of the input, and trimming twice is trimming once -/

theorem trimAux_suffix (sp : Bytes → Nat) : ∀ (x : Bytes) (k : Nat), ∃ pre, x = pre ++ trimAux sp k x := by
  intro x
  induction x with
  | nil => intro k; exact ⟨[], by cases k <;> simp [trimAux]⟩
  | cons b r ih =>
    intro k
    cases k with
    | zero =>
      simp only [trimAux]
      split
      · exact ⟨[], rfl⟩
      · obtain ⟨pre, hp⟩ := ih (sp (b :: r) - 1)
        exact ⟨b :: pre, by rw [List.cons_append, ← hp]⟩
    | succ k =>
      simp only [trimAux]
      obtain ⟨pre, hp⟩ := ih k
      exact ⟨b :: pre, by rw [List.cons_append, ← hp]⟩

/-- what `trimAux` returns is empty or does not start with a unit that `sp` recognises -/
theorem trimAux_fixed (sp : Bytes → Nat) : ∀ (x : Bytes) (k : Nat), trimAux sp k x = [] ∨ sp (trimAux sp k x) = 0 := by
  intro x
  induction x with
  | nil => intro k; left; cases k <;> simp [trimAux]
  | cons b r ih =>
    intro k
    cases k with
    | zero =>
      simp only [trimAux]
      split
      · rename_i h; right; exact h
      · exact ih _
    | succ k => simp only [trimAux]; exact ih k

theorem trimAux_id (sp : Bytes → Nat) (y : Bytes) (h : y = [] ∨ sp y = 0) : trimAux sp 0 y = y := by
  cases y with
  | nil => simp [trimAux]
  | cons b r =>
    rcases h with h | h
    · cases h
    · simp [trimAux, h]

theorem trimLeft_suffix (x : Bytes) : ∃ pre, x = pre ++ trimLeft x := trimAux_suffix spacePrefix x 0

theorem trimRight_prefix (x : Bytes) : ∃ post, x = trimRight x ++ post := by
  obtain ⟨pre, hp⟩ := trimAux_suffix spaceSuffixRev x.reverse 0
  refine ⟨pre.reverse, ?_⟩
  have := congrArg List.reverse hp
  simp only [List.reverse_reverse, List.reverse_append] at this
  exact this

theorem mem_of_mem_trimSpace {x : Bytes} {c : Byte} (h : c ∈ trimSpace x) : c ∈ x := by
  obtain ⟨pre, hp⟩ := trimLeft_suffix x
  obtain ⟨post, hq⟩ := trimRight_prefix (trimLeft x)
  rw [hp, hq]
  simp only [trimSpace] at h
  simp [h]

/-- a prefix of a text that does not start with white space does not start with white space -/
theorem spacePrefix_prefix (y post : Bytes) (h : spacePrefix (y ++ post) = 0) : y = [] ∨ spacePrefix y = 0 := by
  rcases y with _ | ⟨b, _ | ⟨c, _ | ⟨d, r⟩⟩⟩
  · left; rfl
  · right
    simp only [List.cons_append, List.nil_append, spacePrefix] at h ⊢
    repeat' split
    all_goals (first | rfl | (exfalso; simp_all; done) | simp_all)
  · right
    rcases post with _ | ⟨e, post'⟩ <;>
      simp only [List.cons_append, List.nil_append, List.append_nil, spacePrefix] at h ⊢ <;>
      (repeat' split) <;> first | rfl | (exfalso; simp_all; done) | simp_all
  · right
    simp only [List.cons_append, spacePrefix] at h ⊢
    exact h

theorem trimRight_id (y : Bytes) (h : y.reverse = [] ∨ spaceSuffixRev y.reverse = 0) : trimRight y = y := by
  simp only [trimRight, trimAux_id spaceSuffixRev y.reverse h, List.reverse_reverse]

/-- **TrimSpace is idempotent** -/
theorem trimSpace_idem (x : Bytes) : trimSpace (trimSpace x) = trimSpace x := by
  -- z: left-trimmed; y := trimRight z is a prefix of z
  have hz := trimAux_fixed spacePrefix x 0
  obtain ⟨post, hq⟩ := trimRight_prefix (trimLeft x)
  have hy : trimRight (trimLeft x) = [] ∨ spacePrefix (trimRight (trimLeft x)) = 0 := by
    rcases hz with h | h
    · left
      have h' : trimLeft x = [] := h
      rw [h'] at hq ⊢
      cases ht : trimRight ([] : Bytes) with
      | nil => rfl
      | cons a b => rw [ht] at hq; simp at hq
    · have h' : spacePrefix (trimLeft x) = 0 := h
      rw [hq] at h'
      exact spacePrefix_prefix _ _ h'
  have hl : trimLeft (trimRight (trimLeft x)) = trimRight (trimLeft x) := trimAux_id spacePrefix _ hy
  have hr : trimRight (trimRight (trimLeft x)) = trimRight (trimLeft x) := by
    apply trimRight_id
    have := trimAux_fixed spaceSuffixRev (trimLeft x).reverse 0
    simp only [trimRight, List.reverse_reverse]
    exact this
  simp only [trimSpace, hl, hr]

/-! ### what a successful parse stores is in the value domain, unless a group was lost -/

theorem parseExpiry_ok (x : Bytes) (e : Expiry) (h : parseExpiry x = some e) : expiryOK e = true := by
  unfold parseExpiry at h
  split at h
  · rename_i a b c d
    split at h
    · rename_i a' b' c' d' ha hb hc hd
      obtain ⟨ia, rfl⟩ := decVal_some ha
      obtain ⟨ib, rfl⟩ := decVal_some hb
      obtain ⟨ic, rfl⟩ := decVal_some hc
      obtain ⟨id, rfl⟩ := decVal_some hd
      dsimp only at h
      split at h
      · simp at h
      · simp only [Option.some.injEq] at h
        subst h
        unfold isDigit at ia ib ic id
        simp only [expiryOK, decide_eq_true_eq]
        refine ⟨?_, ?_, ?_, ?_⟩ <;> (try split) <;> omega
    · simp at h
  · simp at h

theorem dataOK_trimSpace (dd : Bytes) (h : dataOK dd = true) (hne : trimSpace dd ≠ []) :
    ddOK (trimSpace dd) = true := by
  rw [ddOK_iff]
  refine ⟨?_, trimSpace_idem dd⟩
  simp only [dataOK, Bool.and_eq_true, Bool.not_eq_true', List.all_eq_true, bne_iff_ne, ne_eq] at h ⊢
  refine ⟨?_, fun c hc => h.2 c (mem_of_mem_trimSpace hc)⟩
  cases ht : trimSpace dd with
  | nil => exact absurd ht hne
  | cons _ _ => rfl

/-- KF3 excluded for Track2: the discretionary data is not blank -/
def Track2.NoGroupLost (raw : Bytes) : Prop :=
  ∃ pan sep exp sc dd, Track2.groups raw = some (pan, sep, exp, sc, dd) ∧ trimSpace dd ≠ []

/-- KF3 excluded for Track3: the discretionary data is neither blank nor "=" after trimming -/
def Track3.NoGroupLost (raw : Bytes) : Prop :=
  ∃ fc pan dd, Track3.groups raw = some (fc, pan, dd) ∧ trimSpace dd ≠ [] ∧ trimSpace dd ≠ [eqSign]

/-- KF3 excluded for Track1: after trimming the name still has two code points, and the
discretionary data is neither blank nor "^". (`utf8Count (trimSpace name) ≤ 26` always
holds — trimming removes whole code points — but is not proved here, so it is a hypothesis.) -/
def Track1.NoGroupLost (raw : Bytes) : Prop :=
  ∃ fc pan name E C dd, Track1.groups raw = some (fc, pan, name, E, C, dd) ∧
    2 ≤ utf8Count (trimSpace name) ∧ utf8Count (trimSpace name) ≤ 26 ∧
    trimSpace dd ≠ [] ∧ trimSpace dd ≠ [caret]

theorem Track2.result_inDomain (old v : Track2) (raw : Bytes) (hn : Track2.NoGroupLost raw)
    (h : old.unpackRaw raw = (v, true)) : v.inDomain = true ∧ v.sep ≠ [] := by
  obtain ⟨pan, sep, exp, sc, dd, hg, hdt⟩ := hn
  obtain ⟨hraw, hpl, hpd, hsep, hel, hed, hcl, hcd, hdd⟩ := Track2.groups_sound raw pan sep exp sc dd hg
  have hpne : pan ≠ [] := ne_nil_of_length rfl hpl.1
  have tsp : trimSpace sep = sep := by rcases hsep with rfl | rfl <;> decide
  have hene : exp ≠ [] := ne_nil_of_length hel (by omega)
  have hemp : exp.isEmpty = false := by cases exp with | nil => exact absurd rfl hene | cons _ _ => rfl
  simp only [Track2.unpackRaw, hg, trimSpace_digits pan hpne hpd, tsp, trimSpace_digits exp hene hed,
    trimSpace_digits sc (ne_nil_of_length hcl (by omega)) hcd, hemp] at h
  cases hp : parseExpiry exp with
  | none => simp [hp] at h
  | some t =>
    simp only [hp, Bool.false_eq_true, if_false, Prod.mk.injEq, and_true] at h
    subst h
    have hsne : sep ≠ [] := by rcases hsep with rfl | rfl <;> simp
    refine ⟨?_, hsne⟩
    simp only [Track2.inDomain, Bool.and_eq_true, Bool.or_eq_true, beq_iff_eq, decide_eq_true_eq]
    refine ⟨⟨⟨⟨⟨(panOK_iff pan).mpr ⟨hpl, hpd⟩, ?_⟩, parseExpiry_ok exp t hp⟩, hcl⟩, hcd⟩, dataOK_trimSpace dd hdd hdt⟩
    rcases hsep with rfl | rfl
    · left; right; rfl
    · right; rfl

theorem Track3.result_inDomain (old v : Track3) (raw : Bytes) (hn : Track3.NoGroupLost raw)
    (h : old.unpackRaw raw = (v, true)) : v.inDomain = true := by
  obtain ⟨fc, pan, dd, hg, hdt, hdne⟩ := hn
  obtain ⟨hraw, hfl, hfd, hpl, hpd, hdd⟩ := Track3.groups_sound raw fc pan dd hg
  have hcd : Track3.comp dd = trimSpace dd := by simp [Track3.comp, hdne]
  simp only [Track3.unpackRaw, hg, Track3.comp_digits fc (ne_nil_of_length hfl (by omega)) hfd,
    Track3.comp_digits pan (ne_nil_of_length rfl hpl.1) hpd, hcd, Prod.mk.injEq, and_true] at h
  subst h
  simp only [Track3.inDomain, Bool.and_eq_true, decide_eq_true_eq, bne_iff_ne, ne_eq]
  exact ⟨⟨⟨⟨hfl, hfd⟩, (panOK_iff pan).mpr ⟨hpl, hpd⟩⟩, dataOK_trimSpace dd hdd hdt⟩, hdne⟩

theorem Track1.result_inDomain (old v : Track1) (raw : Bytes) (hn : Track1.NoGroupLost raw)
    (hold : old.fixedLength = false) (h : old.unpackRaw raw = (v, true)) : v.inDomain = true := by
  obtain ⟨fc, pan, name, E, C, dd, hg, hn2, hn26, hdt, hdne⟩ := hn
  obtain ⟨c, rfl, hup, hraw, hpl, hpd, hnc, hnu, hE, hC, hdd⟩ := Track1.groups_sound raw _ pan name E C dd hg
  have hcfc : Track1.comp [c] = [c] := by
    apply Track1.comp_of
    · exact trimSpace_of_edges [c] c c rfl rfl (edgeOK_of_upper hup) (edgeOK_of_upper hup)
    · intro e
      have : c = caret := by simpa using e
      subst this; revert hup; decide
  -- the trimmed name has no '^'
  have hnc' : (trimSpace name).all (· != caret) = true := by
    rw [List.all_eq_true]; intro x hx
    exact (List.all_eq_true.mp hnc) x (mem_of_mem_trimSpace hx)
  have hname_ne : trimSpace name ≠ [caret] := by intro e; rw [e] at hnc'; simp at hnc'
  have hcn : Track1.comp name = trimSpace name := by simp [Track1.comp, hname_ne]
  have hcd : Track1.comp dd = trimSpace dd := by simp [Track1.comp, hdne]
  simp only [Track1.unpackRaw, hg, hcfc, Track1.comp_digits pan (ne_nil_of_length rfl hpl.1) hpd, hcn, hcd, hold] at h
  have hscOK : ∀ w, w = Track1.comp C → (w.isEmpty = true ∨ (w.length = 3 ∧ w.all dig = true)) := by
    intro w hw
    rcases hC with rfl | ⟨hl, hd⟩
    · subst hw; left; simp [Track1.comp_caret]
    · rw [Track1.comp_digits C (ne_nil_of_length hl (by omega)) hd] at hw
      subst hw; right; exact ⟨hl, hd⟩
  have hfin : ∀ (e : Option Expiry), (match e with | some t => expiryOK t | none => true) = true →
      (Track1.mk false [c] pan (trimSpace name) e (Track1.comp C) (trimSpace dd)).inDomain = true := by
    intro e he
    simp only [Track1.inDomain, Bool.and_eq_true, Bool.not_eq_true', decide_eq_true_eq, bne_iff_ne, ne_eq,
      beq_iff_eq, Bool.or_eq_true]
    exact ⟨⟨⟨⟨⟨⟨⟨⟨⟨trivial, hup⟩, (panOK_iff pan).mpr ⟨hpl, hpd⟩⟩, hnc'⟩, trimSpace_idem name⟩, ⟨hn2, hn26⟩⟩, he⟩,
      hscOK _ rfl⟩, dataOK_trimSpace dd hdd hdt⟩, hdne⟩
  rcases hE with rfl | ⟨hl, hd⟩
  · simp only [Track1.comp_caret, List.isEmpty_nil, if_true, Prod.mk.injEq, and_true] at h
    subst h
    exact hfin none rfl
  · have hEne : E ≠ [] := ne_nil_of_length hl (by omega)
    have hemp : E.isEmpty = false := by cases E with | nil => exact absurd rfl hEne | cons _ _ => rfl
    simp only [Track1.comp_digits E hEne hd, hemp] at h
    cases hp : parseExpiry E with
    | none => simp [hp] at h
    | some t =>
      simp only [hp, Bool.false_eq_true, if_false, Prod.mk.injEq, and_true] at h
      subst h
      exact hfin (some t) (parseExpiry_ok E t hp)

/-- KF3 excluded: no captured group is lost by trimming or placeholder skipping -/
def NoGroupLost : TrackKind → Bytes → Prop
  | .t1, raw => Track1.NoGroupLost raw
  | .t2, raw => Track2.NoGroupLost raw
  | .t3, raw => Track3.NoGroupLost raw

/-- **what the parser stored re-packs to a text the parser accepts with the same result**,
whenever no captured group was lost -/
theorem TrackVal.repack_trimmed (old v : TrackVal) (raw : Bytes) (hn : NoGroupLost old.kind raw)
    (hold : old.fixedLength = false) (h : old.unpackRaw raw = (v, true)) :
    v.inDomainComponents = true ∧ old.unpackRaw v.packText = (v, true) := by
  cases old with
  | t1 o =>
    simp only [TrackVal.unpackRaw, Prod.mk.injEq] at h
    obtain ⟨rfl, h2⟩ := h
    have hd := Track1.result_inDomain o _ raw hn hold (Prod.ext rfl h2)
    refine ⟨hd, ?_⟩
    simp only [TrackVal.unpackRaw, TrackVal.packText]
    rw [Track1.unpackRaw_packText o _ hd hold]
  | t2 o =>
    simp only [TrackVal.unpackRaw, Prod.mk.injEq] at h
    obtain ⟨rfl, h2⟩ := h
    obtain ⟨hd, hs⟩ := Track2.result_inDomain o _ raw hn (Prod.ext rfl h2)
    refine ⟨hd, ?_⟩
    simp only [TrackVal.unpackRaw, TrackVal.packText]
    rw [Track2.unpackRaw_packText o _ hd]
    simp [hs]
  | t3 o =>
    simp only [TrackVal.unpackRaw, Prod.mk.injEq] at h
    obtain ⟨rfl, h2⟩ := h
    have hd := Track3.result_inDomain o _ raw hn (Prod.ext rfl h2)
    refine ⟨hd, ?_⟩
    simp only [TrackVal.unpackRaw, TrackVal.packText]
    rw [Track3.unpackRaw_packText o _ hd]

end Iso8583.TrackLemmas
