/-
Helper lemmas for C04 (decoding untrusted bytes never panics, hangs or over-allocates):
"bytes read ≤ bytes given" and output-size bounds for every decoder, generic no-panic /
fuel lemmas for the data-driven loops of the model (bitmap chain, TLV loop, bitmap scan),
an induction principle for the nested `Field` type, and the ghost allocation log.
-/
import Iso8583.Model.Message
import Iso8583.Model.SetBytes
import Iso8583.Spec.Coherent
import Iso8583.Props.C06

namespace Iso8583
open Enc Pref

/-! ## value decoders: never panic, read ≤ given, output ≤ 2·read -/

theorem decodeNat_ne_panic (e : Enc) (d : Bytes) (n : Nat) : decodeNat e d n ≠ .panic := by
  cases e <;> simp only [decodeNat] <;> (repeat' split) <;> simp

theorem decode_ne_panic (e : Enc) (d : Bytes) (n : Int) : decode e d n ≠ .panic := by
  cases n with
  | ofNat k => exact decodeNat_ne_panic e d k
  | negSucc k =>
    simp only [decode]
    split
    · exact decodeNat_ne_panic e d 0
    · simp

/-- a decode reads no more than it was given -/
theorem decodeNat_read_le (e : Enc) (d v : Bytes) (n r : Nat) (h : decodeNat e d n = .ok (v, r)) :
    r ≤ d.length := by
  by_cases he : e = .berTag
  · subst he
    exact (C07.berTag_read_bounds d v (n : Int) r h).2.1
  · exact (C07.decode_ok_sound e d v n r he h).2.1

theorem decode_read_le (e : Enc) (d v : Bytes) (n : Int) (r : Nat) (h : decode e d n = .ok (v, r)) :
    r ≤ d.length := by
  cases n with
  | ofNat k => exact decodeNat_read_le e d v k r h
  | negSucc k =>
    simp only [decode] at h
    split at h
    · exact decodeNat_read_le e d v 0 r h
    · cases h

theorem bcdUnpack_length : ∀ (bs ds : Bytes), bcdUnpack bs = some ds → ds.length = 2 * bs.length
  | [], ds, h => by simp [bcdUnpack] at h; subst h; rfl
  | x :: rest, ds, h => by
    simp only [bcdUnpack] at h
    split at h
    · cases hr : bcdUnpack rest with
      | none => simp [hr] at h
      | some t =>
        simp [hr] at h; subst h
        have := bcdUnpack_length rest t hr
        simp [this]; omega
    · cases h

theorem utf8OfRune_length_le (r : Nat) : (utf8OfRune r).length ≤ 2 := by
  unfold utf8OfRune; split <;> simp

theorem cp1047DecodeBytes_length_le : ∀ (bs : Bytes), (cp1047DecodeBytes bs).length ≤ 2 * bs.length
  | [] => by simp [cp1047DecodeBytes]
  | x :: rest => by
    have ih := cp1047DecodeBytes_length_le rest
    have h1 := utf8OfRune_length_le (Gen.cp1047Decode.getD x.toNat 65533)
    simp only [cp1047DecodeBytes, List.flatMap_cons, List.length_append, List.length_cons] at ih ⊢
    omega

/-- the decoded value is at most twice as long as the bytes consumed: what a decoder
allocates is bounded by the bytes it was actually given, never by the requested length -/
theorem decodeNat_out_le (e : Enc) (d v : Bytes) (n r : Nat) (h : decodeNat e d n = .ok (v, r)) :
    v.length ≤ 2 * r := by
  cases e with
  | berTag =>
    simp only [decodeNat] at h
    split at h
    · cases h
    · rename_i k hk
      simp only [Res.ok.injEq, Prod.mk.injEq] at h
      obtain ⟨hv, hr⟩ := h
      subst hv; subst hr
      rw [hexEncodeUpper_length]
      simp only [List.length_take]; omega
  | ascii =>
    simp only [decodeNat] at h
    split at h
    · cases h
    · split at h
      · simp only [Res.ok.injEq, Prod.mk.injEq] at h
        obtain ⟨hv, hr⟩ := h
        subst hv; subst hr; simp only [List.length_take]; omega
      · cases h
  | ebcdic =>
    simp only [decodeNat] at h
    split at h
    · cases h
    · simp only [Res.ok.injEq, Prod.mk.injEq] at h
      obtain ⟨hv, hr⟩ := h
      subst hv; subst hr; simp; omega
  | ebcdic1047 =>
    simp only [decodeNat] at h
    split at h
    · cases h
    · simp only [Res.ok.injEq, Prod.mk.injEq] at h
      obtain ⟨hv, hr⟩ := h
      subst hv; subst hr
      have := cp1047DecodeBytes_length_le (d.take n)
      have : (d.take n).length ≤ n := by simp; omega
      omega
  | binary =>
    simp only [decodeNat] at h
    split at h
    · cases h
    · simp only [Res.ok.injEq, Prod.mk.injEq] at h
      obtain ⟨hv, hr⟩ := h
      subst hv; subst hr; simp; omega
  | bcd =>
    simp only [decodeNat] at h
    split at h
    · cases h
    · split at h
      · cases h
      · rename_i ds hds
        simp only [Res.ok.injEq, Prod.mk.injEq] at h
        obtain ⟨hv, hr⟩ := h
        subst hv; subst hr
        have := bcdUnpack_length _ _ hds
        have : (d.take (n / 2 + n % 2)).length ≤ n / 2 + n % 2 := by simp; omega
        simp; omega
  | lbcd =>
    simp only [decodeNat] at h
    split at h
    · cases h
    · split at h
      · cases h
      · rename_i ds hds
        simp only [Res.ok.injEq, Prod.mk.injEq] at h
        obtain ⟨hv, hr⟩ := h
        subst hv; subst hr
        have := bcdUnpack_length _ _ hds
        have : (d.take (n / 2 + n % 2)).length ≤ n / 2 + n % 2 := by simp; omega
        simp; omega
  | bytesToHex =>
    simp only [decodeNat] at h
    split at h
    · cases h
    · split at h
      · cases h
      · rename_i bs hbs
        simp only [Res.ok.injEq, Prod.mk.injEq] at h
        obtain ⟨hv, hr⟩ := h
        subst hv; subst hr
        have := hexDecode_length _ _ hbs
        have : (d.take (2 * n)).length ≤ 2 * n := by simp; omega
        omega
  | hexToBytes =>
    simp only [decodeNat] at h
    split at h
    · cases h
    · simp only [Res.ok.injEq, Prod.mk.injEq] at h
      obtain ⟨hv, hr⟩ := h
      subst hv; subst hr
      rw [hexEncodeUpper_length]
      have : (d.take n).length ≤ n := by simp; omega
      omega

theorem decode_out_le (e : Enc) (d v : Bytes) (n : Int) (r : Nat) (h : decode e d n = .ok (v, r)) :
    v.length ≤ 2 * r := by
  cases n with
  | ofNat k => exact decodeNat_out_le e d v k r h
  | negSucc k =>
    simp only [decode] at h
    split at h
    · exact decodeNat_out_le e d v 0 r h
    · cases h

/-- a decode that returns a non-empty value consumed at least one byte -/
theorem decode_progress (e : Enc) (d v : Bytes) (n : Int) (r : Nat) (h : decode e d n = .ok (v, r))
    (hv : v ≠ []) : 1 ≤ r := by
  have := decode_out_le e d v n r h
  cases v with
  | nil => exact absurd rfl hv
  | cons x xs => simp at this; omega

/-- asked for at least one unit (or decoding a BER tag), a decoder consumes at least one byte -/
theorem decodeNat_read_pos (e : Enc) (d v : Bytes) (n r : Nat) (h : decodeNat e d n = .ok (v, r))
    (hn : e = .berTag ∨ 1 ≤ n) : 1 ≤ r := by
  by_cases he : e = .berTag
  · subst he
    exact (C07.berTag_read_bounds d v (n : Int) r h).1
  · have hn : 1 ≤ n := by
      rcases hn with hn | hn
      · exact absurd hn he
      · exact hn
    have := (C07.decode_ok_sound e d v n r he h).1
    subst this
    cases e <;> simp only [C07.needed] <;> omega

/-- asked for at least one unit, a decoder returns a non-empty value -/
theorem decodeNat_out_pos (e : Enc) (d v : Bytes) (n r : Nat) (h : decodeNat e d n = .ok (v, r))
    (hn : e = .berTag ∨ 1 ≤ n) : v ≠ [] := by
  have hr := decodeNat_read_pos e d v n r h hn
  have hle := decodeNat_read_le e d v n r h
  intro hv
  subst hv
  cases e with
  | berTag =>
    simp only [decodeNat] at h
    split at h
    · cases h
    · simp only [Res.ok.injEq, Prod.mk.injEq] at h
      obtain ⟨hv, hr'⟩ := h
      subst hr'
      have := congrArg List.length hv
      rw [hexEncodeUpper_length] at this
      simp only [List.length_take, List.length_nil] at this; omega
  | ascii =>
    simp only [decodeNat] at h
    split at h
    · cases h
    · split at h
      · simp only [Res.ok.injEq, Prod.mk.injEq] at h
        obtain ⟨hv, hr'⟩ := h
        subst hr'
        have := congrArg List.length hv
        simp only [List.length_take, List.length_nil] at this; omega
      · cases h
  | ebcdic =>
    simp only [decodeNat] at h
    split at h
    · cases h
    · simp only [Res.ok.injEq, Prod.mk.injEq] at h
      obtain ⟨hv, hr'⟩ := h
      subst hr'
      have := congrArg List.length hv
      simp only [List.length_map, List.length_take, List.length_nil] at this; omega
  | ebcdic1047 =>
    simp only [decodeNat] at h
    split at h
    · cases h
    · simp only [Res.ok.injEq, Prod.mk.injEq] at h
      obtain ⟨hv, hr'⟩ := h
      subst hr'
      cases d with
      | nil => simp at hle; omega
      | cons x xs =>
        cases n with
        | zero => omega
        | succ m =>
          simp only [List.take_succ_cons, cp1047DecodeBytes, List.flatMap_cons] at hv
          have := congrArg List.length hv
          simp only [List.length_append, List.length_nil] at this
          have h2 : 1 ≤ (utf8OfRune (Gen.cp1047Decode.getD x.toNat 65533)).length := by
            unfold utf8OfRune; split <;> simp
          omega
  | binary =>
    simp only [decodeNat] at h
    split at h
    · cases h
    · simp only [Res.ok.injEq, Prod.mk.injEq] at h
      obtain ⟨hv, hr'⟩ := h
      subst hr'
      have := congrArg List.length hv
      simp only [List.length_take, List.length_nil] at this; omega
  | bcd =>
    simp only [decodeNat] at h
    split at h
    · cases h
    · split at h
      · cases h
      · rename_i ds hds
        simp only [Res.ok.injEq, Prod.mk.injEq] at h
        obtain ⟨hv, hr'⟩ := h
        have hl := bcdUnpack_length _ _ hds
        have := congrArg List.length hv
        simp only [List.length_drop, List.length_take, List.length_nil] at this hl
        omega
  | lbcd =>
    simp only [decodeNat] at h
    split at h
    · cases h
    · split at h
      · cases h
      · rename_i ds hds
        simp only [Res.ok.injEq, Prod.mk.injEq] at h
        obtain ⟨hv, hr'⟩ := h
        have hl := bcdUnpack_length _ _ hds
        have := congrArg List.length hv
        simp only [List.length_take, List.length_nil] at this hl
        omega
  | bytesToHex =>
    simp only [decodeNat] at h
    split at h
    · cases h
    · split at h
      · cases h
      · rename_i bs hbs
        simp only [Res.ok.injEq, Prod.mk.injEq] at h
        obtain ⟨hv, hr'⟩ := h
        subst hv
        have := hexDecode_length _ _ hbs
        simp only [List.length_take, List.length_nil] at this; omega
  | hexToBytes =>
    simp only [decodeNat] at h
    split at h
    · cases h
    · simp only [Res.ok.injEq, Prod.mk.injEq] at h
      obtain ⟨hv, hr'⟩ := h
      subst hr'
      have := congrArg List.length hv
      rw [hexEncodeUpper_length] at this
      simp only [List.length_take, List.length_nil] at this; omega

/-! ## length prefixes (restating `C06.dec_range` in the two forms used below) -/

theorem decodeLength_ne_panic (p : Pref) (maxLen : Nat) (data : Bytes) :
    decodeLength p maxLen data ≠ .panic := (C06.dec_range p maxLen data).1

theorem decodeLength_read_le (p : Pref) (maxLen : Nat) (data : Bytes) (m r : Nat)
    (h : decodeLength p maxLen data = .ok (m, r)) : r ≤ data.length :=
  ((C06.dec_range p maxLen data).2 m r h).1

/-! ## primitive fields -/

theorem PrimSpec.setBytes_ne_panic (s : PrimSpec) (raw : Bytes) : s.setBytes raw ≠ .panic := by
  unfold PrimSpec.setBytes
  repeat' split
  all_goals simp

theorem PrimSpec.unpackBytes_spec (s : PrimSpec) (data : Bytes) :
    s.unpackBytes data ≠ .panic ∧ ∀ v r, s.unpackBytes data = .ok (v, r) → r ≤ data.length := by
  unfold PrimSpec.unpackBytes
  split
  · simp
  · rename_i h; exact absurd h (decodeLength_ne_panic _ _ _)
  · rename_i valueLength prefBytes hdl
    have hp := decodeLength_read_le _ _ _ _ _ hdl
    simp only
    split
    · omega
    · split
      · simp
      · rename_i h; exact absurd h (decode_ne_panic _ _ _)
      · rename_i value read hdec
        have := decode_read_le _ _ _ _ _ hdec
        simp only [List.length_drop] at this
        -- what follows the decode (unpad; the Track2 unpacker's length check) only returns
        -- `ok (_, read + prefBytes)` or an error
        refine ⟨?_, ?_⟩
        · repeat' split
          all_goals simp
        · intro v r h
          repeat' (split at h)
          all_goals first
            | (cases h; omega)
            | cases h

theorem PrimSpec.unpack_ne_panic (s : PrimSpec) (data : Bytes) : s.unpack data ≠ .panic := by
  unfold PrimSpec.unpack
  split
  · simp
  · rename_i h; exact absurd h (PrimSpec.unpackBytes_spec s data).1
  · split
    · simp
    · simp
    · rename_i h; exact absurd h (PrimSpec.setBytes_ne_panic _ _)

theorem PrimSpec.unpack_read_le (s : PrimSpec) (data : Bytes) (v : Value) (r : Nat)
    (h : s.unpack data = .ok (v, r)) : r ≤ data.length := by
  unfold PrimSpec.unpack at h
  split at h
  · cases h
  · cases h
  · rename_i raw read hub
    split at h
    · simp only [Res.ok.injEq, Prod.mk.injEq] at h
      obtain ⟨_, hr⟩ := h
      subst hr
      exact (PrimSpec.unpackBytes_spec s data).2 _ _ hub
    · cases h
    · cases h

/-! ## the bitmap chain -/

namespace Bitmap

/-- Invariant of the chain loop, for every encoder and block length: no panic (an empty
decoded block is an error, never indexed); the bytes read stay within the input; the
accumulated blocks are non-empty and at most twice the bytes read. -/
theorem unpackLoop_spec (enc : Enc) (minLen : Nat) (auto : Bool) :
    ∀ (fuel : Nat) (rest acc : Bytes) (read : Nat),
      unpackLoop enc minLen auto fuel rest acc read ≠ .panic ∧
      ∀ blocks r, unpackLoop enc minLen auto fuel rest acc read = .ok (blocks, r) →
        read ≤ r ∧ r ≤ read + rest.length ∧ blocks.length + 2 * read ≤ acc.length + 2 * r ∧
        acc.length < blocks.length := by
  intro fuel
  induction fuel with
  | zero => intro rest acc read; simp [unpackLoop]
  | succ fuel ih =>
    intro rest acc read
    simp only [unpackLoop, decode_natCast]
    split
    · simp
    · rename_i h; exact absurd h (decodeNat_ne_panic _ _ _)
    · rename_i decoded r hdec
      have hrl := decodeNat_read_le _ _ _ _ _ hdec
      have hol := decodeNat_out_le _ _ _ _ _ hdec
      split
      · simp
      · rename_i first tl
        split
        · refine ⟨by simp, ?_⟩
          intro blocks r' h
          simp only [Res.ok.injEq, Prod.mk.injEq] at h
          obtain ⟨hb, hr⟩ := h
          subst hb; subst hr
          simp only [List.length_append, List.length_cons] at hol ⊢
          omega
        · obtain ⟨ih1, ih2⟩ := ih (rest.drop r) (acc ++ first :: tl) (read + r)
          refine ⟨ih1, ?_⟩
          intro blocks r' h
          have := ih2 blocks r' h
          simp only [List.length_append, List.length_cons, List.length_drop] at this hol
          omega

/-- **fuel suffices** for the bitmap chain: from `rest.length + 1` on, more fuel does not
change the result (so the model's loop is the unbounded Go loop). Unconditional: an
iteration that continues has decoded a non-empty block, hence consumed ≥ 1 byte. -/
theorem unpackLoop_fuel_mono (enc : Enc) (minLen : Nat) (auto : Bool) :
    ∀ (fuel : Nat) (rest acc : Bytes) (read k : Nat), rest.length + 1 ≤ fuel →
      unpackLoop enc minLen auto (fuel + k) rest acc read = unpackLoop enc minLen auto fuel rest acc read := by
  intro fuel
  induction fuel with
  | zero => intro rest acc read k h; omega
  | succ fuel ih =>
    intro rest acc read k hf
    have e : fuel + 1 + k = (fuel + k) + 1 := by omega
    rw [e]
    simp only [unpackLoop]
    split
    · rfl
    · rfl
    · rename_i decoded r hdec
      split
      · rfl
      · rename_i first tl
        split
        · rfl
        · have hr : 1 ≤ r := decode_progress _ _ _ _ _ hdec (by simp)
          have hrl := decode_read_le _ _ _ _ _ hdec
          apply ih
          simp only [List.length_drop]
          omega

/-- **the bitmap never panics**: any encoder, any prefixer (Fixed or not), any block
length, both expansion modes, any input -/
theorem unpack_ne_panic (enc : Enc) (pref : Pref) (bm : Bitmap) (data : Bytes) :
    unpack enc pref bm data ≠ .panic := by
  unfold unpack
  split
  · simp
  · rename_i hp; exact absurd hp (decodeLength_ne_panic _ _ _)
  · rename_i minLen r hdl
    have := (unpackLoop_spec enc minLen bm.auto (data.length + 1) data [] 0).1
    split
    · simp
    · simp
    · rename_i hp; exact absurd hp this

/-- the case that used to index an empty block: the bitmap spec's prefixer yields block
length 0 and the encoder (any but the BER tag decoder) then decodes an empty block. It is
an error now (`failed to decode content … empty bitmap`). -/
theorem unpack_zero_block_err (enc : Enc) (pref : Pref) (bm : Bitmap) (data : Bytes) (r : Nat)
    (he : enc ≠ .berTag) (hdl : Pref.decodeLength pref bm.blockLen data = .ok (0, r)) :
    unpack enc pref bm data = .err := by
  unfold unpack
  rw [hdl]
  have hdec : Enc.decodeNat enc data 0 = .ok ([], 0) := by
    cases enc <;> first | exact absurd rfl he | simp [decodeNat, hexDecode, bcdUnpack, cp1047DecodeBytes, asciiOK, hexEncodeUpper]
  simp only [unpackLoop, decode_natCast, hdec]

/-- a successful bitmap unpack read at most the given bytes and produced a bitmap of at
most `16·read` bits (8 bits per block byte, ≤ 2 block bytes per byte read) and ≥ 8 bits -/
theorem unpack_ok_bounds (enc : Enc) (pref : Pref) (bm bm' : Bitmap) (data : Bytes) (read : Nat)
    (h : unpack enc pref bm data = .ok (bm', read)) :
    read ≤ data.length ∧ bm'.len ≤ 16 * read ∧ 8 ≤ bm'.len := by
  unfold unpack at h
  split at h
  · cases h
  · cases h
  · rename_i minLen r hdl
    have hs := (unpackLoop_spec enc minLen bm.auto (data.length + 1) data [] 0).2
    split at h
    · rename_i blocks rd hl
      simp only [Res.ok.injEq, Prod.mk.injEq] at h
      obtain ⟨hb, hr⟩ := h
      subst hb; subst hr
      have := hs blocks rd hl
      simp only [len, List.length_nil] at this ⊢
      omega
    · cases h
    · cases h

theorem blockLenOf_pos (specLen : Nat) : 1 ≤ blockLenOf specLen := by
  unfold blockLenOf
  split
  · decide
  · omega

theorem reset_blockLen (specLen : Nat) (auto : Bool) : (reset specLen auto).blockLen = blockLenOf specLen := rfl

end Bitmap

/-! ## the TLV loop (generic in the per-tag dispatcher) -/

/-- no panic: the loop only slices at offsets it has checked, provided the dispatcher
itself does not panic and never claims to have read more than it was given -/
theorem tlvLoop_ne_panic (t : TagSpec) (enc : Enc) (isBer : Bool) (known : Tag → Bool)
    (dispatch : Tag → Bytes → UR (Value × Nat))
    (hd : ∀ tag d, dispatch tag d ≠ .panic)
    (hr : ∀ tag d v r, dispatch tag d = .ok (v, r) → r ≤ d.length) :
    ∀ (fuel : Nat) (data : Bytes) (offset : Nat) (acc : List (Tag × Value)), offset ≤ data.length →
      tlvLoop t enc isBer known dispatch fuel data offset acc ≠ .panic := by
  intro fuel
  induction fuel with
  | zero => intro data offset acc _; simp [tlvLoop]
  | succ fuel ih =>
    intro data offset acc hoff
    simp only [tlvLoop, decode_natCast]
    split
    · simp
    · split
      · simp
      · rename_i h; exact absurd h (decodeNat_ne_panic _ _ _)
      · rename_i tagBytes read hdec
        have hrl := decodeNat_read_le _ _ _ _ _ hdec
        simp only [List.length_drop] at hrl
        have hoff' : ¬ (offset + read > data.length) := by omega
        split
        · split
          · split
            · simp
            · rename_i h; exact absurd h (decodeLength_ne_panic _ _ _)
            · rename_i fieldLength read' hdl
              split
              · simp
              · rename_i hc
                apply ih
                omega
          · simp
        · split
          · simp
          · rename_i h; exact absurd h (hd _ _)
          · rename_i v read' hdisp
            have := hr _ _ _ _ hdisp
            simp only [List.length_drop] at this
            split
            · simp
            · apply ih
              omega

/-- a length prefix read from non-empty data makes progress: it occupies at least one
byte, or announces at least one byte (`None`: all that is left; `Fixed`: the maximum).
The only exception is a variable prefixer with digit count 0 — not an exported prefixer
(`C06.exported_var_digits`: 1..6), and not constructible outside package `prefix`. -/
theorem decodeLength_progress (p : Pref) (maxLen : Nat) (d : Bytes) (m r : Nat)
    (h : decodeLength p maxLen d = .ok (m, r)) (hd : d ≠ [])
    (hp : ∀ f, p ≠ .var f 0) (hmax : 1 ≤ maxLen) : 1 ≤ m + r := by
  have hr := (C06.dec_range p maxLen d).2 m r h
  cases p with
  | fixed f => simp [decodeLength] at h; omega
  | none =>
    simp [decodeLength] at h
    cases d with
    | nil => exact absurd rfl hd
    | cons x xs => simp at h; omega
  | berTLV => have := (hr.2.2.1 rfl).2; omega
  | var f k =>
    have hw := hr.2.2.2 (by simp)
    have hk : 1 ≤ k := by
      cases k with
      | zero => exact absurd rfl (hp f)
      | succ k => omega
    cases f <;> simp only [C06.width] at hw <;> omega

/-- digit counts of the unknown-tag prefixer are ≥ 1 (DESIGN §2.1: `Var Fam d`, d ∈ 1..6).
Needed only for a tag spec with `Tag.Length = 0` and a non-BER tag decoder. -/
def TagSpec.skipDigitsPos (t : TagSpec) : Prop := ∀ f, t.prefUnknown ≠ some (.var f 0)

/-- the value `.err []` is returned by the TLV loop only when its fuel is exhausted: every
other error carries a non-empty path. **Fuel suffices**: every iteration that continues
consumes at least one byte — a known element that consumes neither tag nor value bytes is
rejected ("no data consumed"), a skipped unknown element consumes its length prefix or its
value — so `data.length - offset + 1` iterations are never exhausted. -/
theorem tlvLoop_fuel_enough (t : TagSpec) (enc : Enc) (isBer : Bool) (known : Tag → Bool)
    (dispatch : Tag → Bytes → UR (Value × Nat)) (hprog : enc = .berTag ∨ 1 ≤ t.len ∨ t.skipDigitsPos) :
    ∀ (fuel : Nat) (data : Bytes) (offset : Nat) (acc : List (Tag × Value)), data.length - offset < fuel →
      tlvLoop t enc isBer known dispatch fuel data offset acc ≠ .err [] := by
  intro fuel
  induction fuel with
  | zero => intro data offset acc h; omega
  | succ fuel ih =>
    intro data offset acc hf
    simp only [tlvLoop, decode_natCast]
    split
    · simp
    · rename_i hlt
      split
      · simp
      · simp
      · rename_i tagBytes read hdec
        have hrl := decodeNat_read_le _ _ _ _ _ hdec
        simp only [List.length_drop] at hrl
        split
        · split
          · split
            · simp
            · split
              · simp
              · simp
              · rename_i fl rd hdl
                split
                · simp
                · rename_i hc
                  have hp2 : 1 ≤ read + (fl + rd) := by
                    by_cases h0 : read = 0
                    · have htag : ¬ (enc = .berTag ∨ 1 ≤ t.len) := fun hh => by
                        have := decodeNat_read_pos _ _ _ _ _ hdec hh; omega
                      have hsk : t.skipDigitsPos := by
                        rcases hprog with h | h | h
                        · exact absurd (Or.inl h) htag
                        · exact absurd (Or.inr h) htag
                        · exact h
                      have hne : data.drop (offset + read) ≠ [] := by
                        intro hnil
                        have := congrArg List.length hnil
                        simp only [List.length_drop, List.length_nil] at this
                        omega
                      cases hpu : t.prefUnknown with
                      | none =>
                        simp only [hpu] at hdl
                        have := ((C06.dec_range _ _ _).2 _ _ hdl).2.2.1 rfl
                        omega
                      | some p =>
                        simp only [hpu] at hdl
                        have := decodeLength_progress p maxInt _ fl rd hdl hne
                          (fun f hf => hsk f (by rw [hpu, hf])) (by decide)
                        omega
                    · omega
                  apply ih; omega
          · simp
        · split
          · simp
          · split
            · simp
            · simp
            · split
              · simp
              · apply ih; omega

/-- the same fact in the "more fuel changes nothing" form: the fuel-indexed model loop is
the unbounded Go loop -/
theorem tlvLoop_fuel_mono (t : TagSpec) (enc : Enc) (isBer : Bool) (known : Tag → Bool)
    (dispatch : Tag → Bytes → UR (Value × Nat)) (hprog : enc = .berTag ∨ 1 ≤ t.len ∨ t.skipDigitsPos) :
    ∀ (fuel : Nat) (data : Bytes) (offset : Nat) (acc : List (Tag × Value)) (k : Nat),
      data.length - offset < fuel →
      tlvLoop t enc isBer known dispatch (fuel + k) data offset acc =
        tlvLoop t enc isBer known dispatch fuel data offset acc := by
  intro fuel
  induction fuel with
  | zero => intro data offset acc k h; omega
  | succ fuel ih =>
    intro data offset acc k hf
    have e : fuel + 1 + k = (fuel + k) + 1 := by omega
    rw [e]
    simp only [tlvLoop, decode_natCast]
    split
    · rfl
    · rename_i hlt
      split
      · rfl
      · rfl
      · rename_i tagBytes read hdec
        have hrl := decodeNat_read_le _ _ _ _ _ hdec
        simp only [List.length_drop] at hrl
        split
        · split
          · split
            · rfl
            · split
              · rfl
              · rfl
              · rename_i fl rd hdl
                split
                · rfl
                · rename_i hc
                  have hp2 : 1 ≤ read + (fl + rd) := by
                    by_cases h0 : read = 0
                    · have htag : ¬ (enc = .berTag ∨ 1 ≤ t.len) := fun hh => by
                        have := decodeNat_read_pos _ _ _ _ _ hdec hh; omega
                      have hsk : t.skipDigitsPos := by
                        rcases hprog with h | h | h
                        · exact absurd (Or.inl h) htag
                        · exact absurd (Or.inr h) htag
                        · exact h
                      have hne : data.drop (offset + read) ≠ [] := by
                        intro hnil
                        have := congrArg List.length hnil
                        simp only [List.length_drop, List.length_nil] at this
                        omega
                      cases hpu : t.prefUnknown with
                      | none =>
                        simp only [hpu] at hdl
                        have := ((C06.dec_range _ _ _).2 _ _ hdl).2.2.1 rfl
                        omega
                      | some p =>
                        simp only [hpu] at hdl
                        have := decodeLength_progress p maxInt _ fl rd hdl hne
                          (fun f hf => hsk f (by rw [hpu, hf])) (by decide)
                        omega
                    · omega
                  apply ih; omega
          · rfl
        · split
          · rfl
          · split
            · rfl
            · rfl
            · split
              · rfl
              · apply ih; omega

/-! ## the bitmap scan of a bitmapped composite -/

theorem bitmapScan_ne_panic (bm : Bitmap) (dispatch : Tag → Bytes → Option (UR (Value × Nat)))
    (hd : ∀ tag d, dispatch tag d ≠ some .panic)
    (hr : ∀ tag d v r, dispatch tag d = some (.ok (v, r)) → r ≤ d.length) :
    ∀ (remaining i : Nat) (data : Bytes) (off : Nat) (acc : List (Tag × Value)), off ≤ data.length →
      bitmapScan bm dispatch remaining i data off acc ≠ .panic := by
  intro remaining
  induction remaining with
  | zero => intro i data off acc _; simp [bitmapScan]
  | succ remaining ih =>
    intro i data off acc hoff
    simp only [bitmapScan]
    split
    · have : ¬ (off > data.length) := by omega
      simp only [this, ite_false]
      split
      · simp
      · simp
      · rename_i h; exact absurd h (hd _ _)
      · rename_i v read hdisp
        have := hr _ _ _ _ hdisp
        simp only [List.length_drop] at this
        apply ih; omega
    · exact ih _ _ _ _ hoff

/-! ## induction over the nested spec tree -/

/-- structural induction over `Field`: to prove `P` for a composite, `P` may be assumed
for each of its subfield specs (at any nesting depth — no depth bound) -/
theorem Field.induction {P : Field → Prop} (hp : ∀ s, P (.prim s))
    (hc : ∀ s subs, (∀ p ∈ subs, P p.2) → P (.comp s subs)) : ∀ f, P f := by
  intro f
  exact Field.rec (motive_1 := P) (motive_2 := fun l => ∀ p ∈ l, P p.2) (motive_3 := fun p => P p.2)
    hp (fun s subs ih => hc s subs ih) (by simp)
    (fun hd tl ih1 ih2 => by
      intro p hp
      simp only [List.mem_cons] at hp
      rcases hp with rfl | hp
      · exact ih1
      · exact ih2 p hp)
    (fun _ _ ih => ih) f

/-! ## fields: bytes read ≤ bytes given (needs no induction: a composite compares the
bytes its body consumed with the announced, already bounded, length) -/

theorem Field.unpack_read_le (f : Field) (data : Bytes) (v : Value) (r : Nat)
    (h : f.unpack data = .ok (v, r)) : r ≤ data.length := by
  cases f with
  | prim s =>
    simp only [Field.unpack] at h
    split at h
    · rename_i x hx
      simp only [UR.ok.injEq] at h
      subst h
      exact PrimSpec.unpack_read_le s data v r hx
    · cases h
    · cases h
  | comp s subs =>
    simp only [Field.unpack] at h
    split at h
    · cases h
    · cases h
    · rename_i dataLen offset hdl
      split at h
      · cases h
      · split at h
        · cases h
        · split at h
          · cases h
          · cases h
          · split at h
            · cases h
            · simp only [UR.ok.injEq, Prod.mk.injEq] at h
              obtain ⟨_, hr⟩ := h
              omega

theorem unpackTagged_read_le : ∀ (subs : List (Tag × Field)) (tag : Tag) (d : Bytes) (v : Value) (r : Nat),
    unpackTagged subs tag d = .ok (v, r) → r ≤ d.length
  | [], tag, d, v, r, h => by simp [unpackTagged] at h
  | (k, f) :: rest, tag, d, v, r, h => by
    simp only [unpackTagged] at h
    split at h
    · exact Field.unpack_read_le f d v r h
    · exact unpackTagged_read_le rest tag d v r h

theorem unpackTaggedOpt_read_le : ∀ (subs : List (Tag × Field)) (tag : Tag) (d : Bytes) (v : Value) (r : Nat),
    unpackTaggedOpt subs tag d = some (.ok (v, r)) → r ≤ d.length
  | [], tag, d, v, r, h => by simp [unpackTaggedOpt] at h
  | (k, f) :: rest, tag, d, v, r, h => by
    simp only [unpackTaggedOpt] at h
    split at h
    · simp only [Option.some.injEq] at h
      exact Field.unpack_read_le f d v r h
    · exact unpackTaggedOpt_read_le rest tag d v r h

theorem unpackTagged_ne_panic : ∀ (subs : List (Tag × Field)),
    (∀ p ∈ subs, ∀ d, p.2.unpack d ≠ .panic) → ∀ tag d, unpackTagged subs tag d ≠ .panic
  | [], _, tag, d => by simp [unpackTagged]
  | (k, f) :: rest, h, tag, d => by
    simp only [unpackTagged]
    split
    · exact h (k, f) (by simp) d
    · exact unpackTagged_ne_panic rest (fun p hp => h p (by simp [hp])) tag d

theorem unpackTaggedOpt_ne_panic : ∀ (subs : List (Tag × Field)),
    (∀ p ∈ subs, ∀ d, p.2.unpack d ≠ .panic) → ∀ tag d, unpackTaggedOpt subs tag d ≠ some .panic
  | [], _, tag, d => by simp [unpackTaggedOpt]
  | (k, f) :: rest, h, tag, d => by
    simp only [unpackTaggedOpt]
    split
    · have := h (k, f) (by simp) d
      simpa using this
    · exact unpackTaggedOpt_ne_panic rest (fun p hp => h p (by simp [hp])) tag d

theorem unpackPositional_ne_panic : ∀ (subs : List (Tag × Field)),
    (∀ p ∈ subs, ∀ d, p.2.unpack d ≠ .panic) →
    ∀ (data : Bytes) (isVar : Bool) (offset : Nat) (acc : List (Tag × Value)), offset ≤ data.length →
      unpackPositional subs data isVar offset acc ≠ .panic
  | [], _, data, isVar, offset, acc, _ => by simp [unpackPositional]
  | (tag, f) :: rest, h, data, isVar, offset, acc, hoff => by
    simp only [unpackPositional]
    have : ¬ (offset > data.length) := by omega
    simp only [this, ite_false]
    split
    · simp
    · rename_i hp; exact absurd hp (h (tag, f) (by simp) _)
    · rename_i v read hu
      have := Field.unpack_read_le f _ v read hu
      simp only [List.length_drop] at this
      split
      · simp
      · exact unpackPositional_ne_panic rest (fun p hp => h p (by simp [hp])) data isVar _ _ (by omega)

theorem compBody_ne_panic (mode : Mode) (subs : List (Tag × Field)) (body : Bytes) (isVar : Bool)
    (hsub : ∀ p ∈ subs, ∀ d, p.2.unpack d ≠ .panic) :
    compBody mode subs body isVar ≠ .panic := by
  unfold compBody
  split
  · rename_i b
    split
    · simp
    · rename_i hp
      exact absurd hp (Bitmap.unpack_ne_panic _ _ _ _)
    · rename_i bm read hbu
      have hb := (Bitmap.unpack_ok_bounds _ _ _ _ _ _ hbu).1
      exact bitmapScan_ne_panic bm _ (unpackTaggedOpt_ne_panic subs hsub)
        (unpackTaggedOpt_read_le subs) _ _ _ _ _ hb
  · split
    · exact tlvLoop_ne_panic _ _ _ _ _ (unpackTagged_ne_panic subs hsub)
        (unpackTagged_read_le subs) _ _ _ _ (Nat.zero_le _)
    · exact unpackPositional_ne_panic subs hsub _ _ _ _ (Nat.zero_le _)

/-- **no panic, all nesting depths**: structural induction over the spec tree through the
three composite modes -/
theorem Field.unpack_ne_panic : ∀ (f : Field) (data : Bytes), f.unpack data ≠ .panic := by
  apply Field.induction
  · intro s data
    simp only [Field.unpack]
    split
    · simp
    · simp
    · rename_i h; exact absurd h (PrimSpec.unpack_ne_panic s data)
  · intro s subs ih data
    have hsub : ∀ p ∈ subs, ∀ d, p.2.unpack d ≠ .panic := fun p hp => ih p hp
    simp only [Field.unpack]
    split
    · simp
    · rename_i h; exact absurd h (decodeLength_ne_panic _ _ _)
    · rename_i dataLen offset hdl
      have hol := decodeLength_read_le _ _ _ _ _ hdl
      have : ¬ (offset > data.length) := by omega
      simp only [this, ite_false]
      split
      · simp
      · rename_i hlen
        split
        · simp
        · rename_i hres
          exact absurd hres (compBody_ne_panic s.mode subs _ _ hsub)
        · split <;> simp

/-! ## messages -/

theorem lookupId_mem {α : Type} : ∀ (l : List (Nat × α)) (i : Nat) (x : α), lookupId i l = some x → (i, x) ∈ l
  | [], i, x, h => by simp [lookupId] at h
  | (k, v) :: rest, i, x, h => by
    simp only [lookupId] at h
    split at h
    · rename_i hk
      simp only [Option.some.injEq] at h
      subst h; subst hk; simp
    · exact List.mem_cons_of_mem _ (lookupId_mem rest i x h)

theorem MsgSpec.scan_ne_panic (spec : MsgSpec) (bm : Bitmap)
    (hf : ∀ p ∈ spec.fields, ∀ d, p.2.unpack d ≠ .panic) :
    ∀ (remaining i : Nat) (src : Bytes) (off : Nat) (acc : List (Nat × Value)), off ≤ src.length →
      MsgSpec.scan spec bm remaining i src off acc ≠ .panic := by
  intro remaining
  induction remaining with
  | zero => intro i src off acc _; simp [MsgSpec.scan]
  | succ remaining ih =>
    intro i src off acc hoff
    simp only [MsgSpec.scan]
    split
    · exact ih _ _ _ _ hoff
    · split
      · split
        · simp
        · rename_i f hl
          have : ¬ (off > src.length) := by omega
          simp only [this, ite_false]
          split
          · simp
          · rename_i hp; exact absurd hp (hf _ (lookupId_mem _ _ _ hl) _)
          · rename_i v read hu
            have := Field.unpack_read_le f _ v read hu
            simp only [List.length_drop] at this
            apply ih; omega
      · exact ih _ _ _ _ hoff

theorem MsgSpec.unpack_ne_panic (spec : MsgSpec) (src : Bytes) : spec.unpack src ≠ .panic := by
  have hf : ∀ p ∈ spec.fields, ∀ d, p.2.unpack d ≠ .panic :=
    fun p _ => Field.unpack_ne_panic p.2
  unfold MsgSpec.unpack
  split
  · simp
  · rename_i hp; exact absurd hp (PrimSpec.unpack_ne_panic _ _)
  · rename_i mtiV read hm
    have hrl := PrimSpec.unpack_read_le _ _ _ _ hm
    have : ¬ (read > src.length) := by omega
    simp only [this, ite_false]
    split
    · simp
    · rename_i hp
      exact absurd hp (Bitmap.unpack_ne_panic _ _ _ _)
    · rename_i bm bread hbu
      have hbb := (Bitmap.unpack_ok_bounds _ _ _ _ _ _ hbu).1
      simp only [List.length_drop] at hbb
      have hs := MsgSpec.scan_ne_panic spec bm hf (bm.len - 1) 2 src (read + bread) [] (by omega)
      split
      · simp
      · rename_i hp; exact absurd hp hs
      · simp

/-! ## ghost allocation log

`allocs`-style functions list the sizes requested by the `make` / growing-`append` steps
of the Go decode paths, in the order the model passes them. They are *ghost*: they do not
influence any result. Each is tied to the model by a lemma saying that the value actually
returned is no larger than a logged size. -/

namespace Enc

/-- sizes requested by `Decode(data, n)`: nothing before the length check has passed -/
def decodeAllocs (e : Enc) (data : Bytes) (n : Nat) : List Nat :=
  match e with
  | ascii => if data.length < n then [] else [n]
  | ebcdic => if data.length < n then [] else [n]
  | ebcdic1047 => if data.length < n then [] else [2 * n]        -- x/text transform output, ≤ 2 bytes per rune
  | binary => if n > data.length then [] else [n]
  | bcd => if data.length < n / 2 + n % 2 then [] else [2 * (n / 2 + n % 2)]
  | lbcd => if data.length < n / 2 + n % 2 then [] else [2 * (n / 2 + n % 2)]
  | bytesToHex => if n > data.length / 2 then [] else [n]
  | hexToBytes => if n > data.length then [] else [2 * n, 2 * n]   -- hex.Encode buffer, ToUpper copy
  | berTag => match berTagLen data with | Option.none => [] | some k => [2 * k]

theorem decodeAllocs_le (e : Enc) (data : Bytes) (n : Nat) : ∀ a ∈ decodeAllocs e data n, a ≤ 2 * data.length := by
  intro a ha
  cases e <;> simp only [decodeAllocs] at ha
  case berTag =>
    split at ha
    · simp at ha
    · rename_i k hk
      simp only [List.mem_singleton] at ha
      subst ha
      have : decodeNat .berTag data 0 = .ok (hexEncodeUpper (data.take k), k) := by simp [decodeNat, hk]
      have := decodeNat_read_le _ _ _ _ _ this
      omega
  all_goals
    split at ha
    · simp at ha
    · simp only [List.mem_cons, List.not_mem_nil, or_false, or_self] at ha
      subst ha
      omega

/-- the ghost log covers the value actually returned -/
theorem decodeAllocs_covers (e : Enc) (data v : Bytes) (n r : Nat) (h : decodeNat e data n = .ok (v, r)) :
    ∃ a ∈ decodeAllocs e data n, v.length ≤ a := by
  cases e <;> simp only [decodeNat] at h <;> simp only [decodeAllocs]
  case berTag =>
    split at h
    · cases h
    · rename_i k hk
      simp only [Res.ok.injEq, Prod.mk.injEq] at h
      obtain ⟨hv, _⟩ := h
      subst hv
      refine ⟨2 * k, by simp [hk], ?_⟩
      rw [hexEncodeUpper_length]; simp only [List.length_take]; omega
  case ascii =>
    split at h
    · cases h
    · rename_i hlt
      split at h
      · simp only [Res.ok.injEq, Prod.mk.injEq] at h
        obtain ⟨hv, _⟩ := h
        subst hv
        simp only [hlt, ite_false]
        exact ⟨n, by simp, by simp only [List.length_take]; omega⟩
      · cases h
  case ebcdic =>
    split at h
    · cases h
    · rename_i hlt
      simp only [Res.ok.injEq, Prod.mk.injEq] at h
      obtain ⟨hv, _⟩ := h
      subst hv
      simp only [hlt, ite_false]
      exact ⟨n, by simp, by simp only [List.length_map, List.length_take]; omega⟩
  case ebcdic1047 =>
    split at h
    · cases h
    · rename_i hlt
      simp only [Res.ok.injEq, Prod.mk.injEq] at h
      obtain ⟨hv, _⟩ := h
      subst hv
      simp only [hlt, ite_false]
      refine ⟨2 * n, by simp, ?_⟩
      have := cp1047DecodeBytes_length_le (data.take n)
      simp only [List.length_take] at this
      omega
  case binary =>
    split at h
    · cases h
    · rename_i hlt
      simp only [Res.ok.injEq, Prod.mk.injEq] at h
      obtain ⟨hv, _⟩ := h
      subst hv
      simp only [hlt, ite_false]
      exact ⟨n, by simp, by simp only [List.length_take]; omega⟩
  case bcd =>
    split at h
    · cases h
    · rename_i hlt
      split at h
      · cases h
      · rename_i ds hds
        simp only [Res.ok.injEq, Prod.mk.injEq] at h
        obtain ⟨hv, _⟩ := h
        subst hv
        simp only [hlt, ite_false]
        refine ⟨2 * (n / 2 + n % 2), by simp, ?_⟩
        have := bcdUnpack_length _ _ hds
        simp only [List.length_take, List.length_drop] at this ⊢
        omega
  case lbcd =>
    split at h
    · cases h
    · rename_i hlt
      split at h
      · cases h
      · rename_i ds hds
        simp only [Res.ok.injEq, Prod.mk.injEq] at h
        obtain ⟨hv, _⟩ := h
        subst hv
        simp only [hlt, ite_false]
        refine ⟨2 * (n / 2 + n % 2), by simp, ?_⟩
        have := bcdUnpack_length _ _ hds
        simp only [List.length_take] at this ⊢
        omega
  case bytesToHex =>
    split at h
    · cases h
    · rename_i hlt
      split at h
      · cases h
      · rename_i bs hbs
        simp only [Res.ok.injEq, Prod.mk.injEq] at h
        obtain ⟨hv, _⟩ := h
        subst hv
        simp only [hlt, ite_false]
        refine ⟨n, by simp, ?_⟩
        have := hexDecode_length _ _ hbs
        simp only [List.length_take] at this
        omega
  case hexToBytes =>
    split at h
    · cases h
    · rename_i hlt
      simp only [Res.ok.injEq, Prod.mk.injEq] at h
      obtain ⟨hv, _⟩ := h
      subst hv
      simp only [hlt, ite_false]
      refine ⟨2 * n, by simp, ?_⟩
      rw [hexEncodeUpper_length]; simp only [List.length_take]; omega

end Enc

namespace Pref

/-- sizes requested by `DecodeLength(maxLen, data)`. The BER long form allocates its
length buffer `make([]byte, first & 0x7F)` *before* reading it — at most 127 bytes
whatever the input announces; every other prefixer allocates a few bytes only after it
has seen that the prefix is there. -/
def decodeAllocs (p : Pref) (data : Bytes) : List Nat :=
  match p with
  | fixed _ => []
  | none => []
  | berTLV =>
    match data with
    | [] => []
    | first :: _ => if first.toNat < 128 then [] else [first.toNat - 128]
  | var f d =>
    match f with
    | .ascii => if data.length < d then [] else [d]
    | .ebcdic => if data.length < d then [] else Enc.decodeAllocs .ebcdic (data.take d) d ++ [d]
    | .ebcdic1047 => if data.length < d then [] else Enc.decodeAllocs .ebcdic1047 (data.take d) d ++ [d]
    | .bcd => if data.length < (d + 1) / 2 then [] else Enc.decodeAllocs .bcd (data.take ((d + 1) / 2)) d ++ [d]
    | .binary => if data.length < d then [] else [8]
    | .hex => if data.length < 2 * d then [] else [2 * d]

theorem decodeAllocs_le (p : Pref) (data : Bytes) : ∀ a ∈ decodeAllocs p data, a ≤ 2 * data.length + 127 := by
  intro a ha
  cases p with
  | fixed f => simp [decodeAllocs] at ha
  | none => simp [decodeAllocs] at ha
  | berTLV =>
    simp only [decodeAllocs] at ha
    split at ha
    · simp at ha
    · rename_i first rest
      split at ha
      · simp at ha
      · simp only [List.mem_singleton] at ha
        have := byte_toNat_lt first
        omega
  | var f d =>
    cases f <;> simp only [decodeAllocs] at ha <;> split at ha <;> try (simp at ha; done)
    case ascii.isFalse => simp only [List.mem_singleton] at ha; omega
    case hex.isFalse => simp only [List.mem_singleton] at ha; omega
    case binary.isFalse h =>
      simp only [List.mem_singleton] at ha
      omega
    all_goals
      simp only [List.mem_append, List.mem_singleton] at ha
      rcases ha with ha | ha
      · have := Enc.decodeAllocs_le _ _ _ a ha
        simp only [List.length_take] at this
        omega
      · omega

end Pref

/-- sizes requested by a primitive field's `Unpack`: the prefix decoder's, then — only if a
length came back — the value decoder's on the bytes that remain. The announced length
itself never appears: a decoder allocates only after checking it against those bytes. -/
def PrimSpec.unpackAllocs (s : PrimSpec) (data : Bytes) : List Nat :=
  s.pref.decodeAllocs data ++
  match s.pref.decodeLength s.len data with
  | .ok (valueLength, prefBytes) =>
    let valueLength := match s.packer with
      | .default => valueLength
      | .track2 => if s.pad ≠ .nil ∧ valueLength % 2 ≠ 0 then valueLength + 1 else valueLength
    Enc.decodeAllocs s.enc (data.drop prefBytes) valueLength
  | _ => []

theorem PrimSpec.unpackAllocs_le (s : PrimSpec) (data : Bytes) :
    ∀ a ∈ s.unpackAllocs data, a ≤ 2 * data.length + 127 := by
  intro a ha
  simp only [PrimSpec.unpackAllocs, List.mem_append] at ha
  rcases ha with ha | ha
  · exact Pref.decodeAllocs_le _ _ a ha
  · split at ha
    · have := Enc.decodeAllocs_le _ _ _ a ha
      simp only [List.length_drop] at this
      omega
    · simp at ha

namespace Bitmap

/-- sizes requested by the bitmap chain: per iteration the decoder's, then the grown
`f.data` (`append(f.data, decoded...)`) -/
def loopAllocs (enc : Enc) (minLen : Nat) (auto : Bool) : Nat → Bytes → Bytes → List Nat
  | 0, _, _ => []
  | fuel + 1, rest, acc =>
    Enc.decodeAllocs enc rest minLen ++
    match Enc.decode enc rest minLen with
    | .ok (decoded, r) =>
      (acc.length + decoded.length) ::
        (match decoded with
         | [] => []
         | first :: _ =>
           if !auto || first.toNat < 128 then [] else loopAllocs enc minLen auto fuel (rest.drop r) (acc ++ decoded))
    | _ => []

theorem loopAllocs_le (enc : Enc) (minLen : Nat) (auto : Bool) (total : Nat) :
    ∀ (fuel : Nat) (rest acc : Bytes), acc.length + 2 * rest.length ≤ 2 * total →
      ∀ a ∈ loopAllocs enc minLen auto fuel rest acc, a ≤ 2 * total := by
  intro fuel
  induction fuel with
  | zero => intro rest acc _ a ha; simp [loopAllocs] at ha
  | succ fuel ih =>
    intro rest acc hinv a ha
    simp only [loopAllocs, List.mem_append, decode_natCast] at ha
    rcases ha with ha | ha
    · have := Enc.decodeAllocs_le _ _ _ a ha
      omega
    · split at ha
      · rename_i decoded r hdec
        have hrl := decodeNat_read_le _ _ _ _ _ hdec
        have hol := decodeNat_out_le _ _ _ _ _ hdec
        simp only [List.mem_cons] at ha
        rcases ha with ha | ha
        · omega
        · split at ha
          · simp at ha
          · split at ha
            · simp at ha
            · refine ih _ _ ?_ a ha
              simp only [List.length_append, List.length_drop]
              omega
      · simp at ha

def unpackAllocs (enc : Enc) (pref : Pref) (bm : Bitmap) (data : Bytes) : List Nat :=
  pref.decodeAllocs data ++
  match Pref.decodeLength pref bm.blockLen data with
  | .ok (minLen, _) => loopAllocs enc minLen bm.auto (data.length + 1) data []
  | _ => []

theorem unpackAllocs_le (enc : Enc) (pref : Pref) (bm : Bitmap) (data : Bytes) :
    ∀ a ∈ unpackAllocs enc pref bm data, a ≤ 2 * data.length + 127 := by
  intro a ha
  simp only [unpackAllocs, List.mem_append] at ha
  rcases ha with ha | ha
  · exact Pref.decodeAllocs_le _ _ a ha
  · split at ha
    · have := loopAllocs_le enc _ bm.auto data.length _ data [] (by simp) a ha
      omega
    · simp at ha

end Bitmap

end Iso8583
