/-
Decimal text ↔ integers: `strconv.FormatInt` / `strconv.Itoa` followed by
`strconv.ParseInt(…, 10, 64)` / `strconv.Atoi` is the identity (used by C11 for
String ↔ int and Numeric ↔ string struct fields and by C12 for the object keys).
-/
import Iso8583.Model.Field
import Iso8583.Lemmas.Bytes

namespace Iso8583

theorem decDigits_spec' : ∀ (fuel n : Nat), n < fuel →
    ofDigits 10 (decDigits fuel n) = n ∧ (∀ d ∈ decDigits fuel n, d ≤ 9) ∧ decDigits fuel n ≠ []
  | 0, n, h => by omega
  | f + 1, n, h => by
    unfold decDigits
    by_cases h10 : n < 10
    · simp only [h10, if_true]
      refine ⟨by simp [ofDigits], ?_, by simp⟩
      intro d hd; simp at hd; omega
    · simp only [h10, if_false]
      have ih := decDigits_spec' f (n / 10) (by omega)
      refine ⟨?_, ?_, by simp⟩
      · rw [ofDigits_append_singleton, ih.1]; omega
      · intro d hd
        simp only [List.mem_append, List.mem_singleton] at hd
        rcases hd with hd | hd
        · exact ih.2.1 d hd
        · omega

theorem natToDec_ne_nil (n : Nat) : natToDec n ≠ [] := by
  unfold natToDec
  have := (decDigits_spec' (n + 1) n (by omega)).2.2
  simpa using this

theorem mapM_decVal_natToDec (n : Nat) :
    mapM? decVal? (natToDec n) = some (decDigits (n + 1) n) := by
  unfold natToDec
  apply mapM?_map_of
  intro y hy
  exact decVal_asciiDigit ((decDigits_spec' (n + 1) n (by omega)).2.1 y hy)

theorem natToDec_all_digits (n : Nat) : ∀ c ∈ natToDec n, isDigit c := by
  intro c hc
  unfold natToDec at hc
  simp only [List.mem_map] at hc
  obtain ⟨d, hd, rfl⟩ := hc
  exact asciiDigit_isDigit ((decDigits_spec' (n + 1) n (by omega)).2.1 d hd)

/-- the first character of a decimal numeral is a digit (so neither `+` nor `-`) -/
theorem natToDec_head (n : Nat) : ∃ c rest, natToDec n = c :: rest ∧ isDigit c := by
  cases h : natToDec n with
  | nil => exact absurd h (natToDec_ne_nil n)
  | cons c rest => exact ⟨c, rest, rfl, natToDec_all_digits n c (by simp [h])⟩

theorem parseInt64_natToDec (n : Nat) (h : n < 2 ^ 63) : parseInt64? (natToDec n) = some (n : Int) := by
  obtain ⟨c, rest, hc, hd⟩ := natToDec_head n
  have hm := mapM_decVal_natToDec n
  have hv := (decDigits_spec' (n + 1) n (by omega)).1
  have h45 : c ≠ 45 := by intro h; subst h; revert hd; decide
  have h43 : c ≠ 43 := by intro h; subst h; revert hd; decide
  unfold parseInt64?
  rw [hc] at hm ⊢
  simp only [h45, h43, if_false, hm, Option.map_some, hv]
  simp [h]

theorem parseInt64_neg_natToDec (n : Nat) (h : n ≤ 2 ^ 63) :
    parseInt64? (45 :: natToDec n) = some (-(n : Int)) := by
  have hm := mapM_decVal_natToDec n
  have hv := (decDigits_spec' (n + 1) n (by omega)).1
  obtain ⟨c, rest, hc, _⟩ := natToDec_head n
  unfold parseInt64?
  rw [hc] at hm ⊢
  simp only [if_true, hm, Option.map_some, hv]
  simp [h]

/-- `ParseInt(FormatInt(i, 10), 10, 64) = i` on the int64 range -/
theorem parseInt64_formatInt_range (i : Int) (hlo : -(2 ^ 63 : Int) ≤ i) (hhi : i < 2 ^ 63) :
    parseInt64? (formatInt i) = some i := by
  unfold formatInt
  by_cases hneg : i < 0
  · simp only [hneg, if_true]
    have : (-i).toNat ≤ 2 ^ 63 := by omega
    rw [parseInt64_neg_natToDec _ this]
    congr 1; omega
  · simp only [hneg, if_false]
    have : i.toNat < 2 ^ 63 := by omega
    rw [parseInt64_natToDec _ this]
    congr 1; omega

/-- `strconv.Atoi(strconv.Itoa(n)) = n` for the short numerals `atoi?` models -/
theorem atoi_natToDec (n : Nat) : atoi? (natToDec n) = some (n : Int) := by
  obtain ⟨c, rest, hc, hd⟩ := natToDec_head n
  have hm := mapM_decVal_natToDec n
  have hv := (decDigits_spec' (n + 1) n (by omega)).1
  have h45 : c ≠ 45 := by intro h; subst h; revert hd; decide
  have h43 : c ≠ 43 := by intro h; subst h; revert hd; decide
  unfold atoi?
  rw [hc] at hm ⊢
  simp only [h45, h43, if_false, hm, Option.map_some, hv]

theorem natToDec_injective {a b : Nat} (h : natToDec a = natToDec b) : a = b := by
  have ha := atoi_natToDec a
  rw [h, atoi_natToDec b] at ha
  have : (b : Int) = (a : Int) := by simpa using ha
  omega

end Iso8583
