/-
Message level of C03: `MsgSpec.pack` of the model against `refEncode`.
-/
import Iso8583.Lemmas.LayoutField

namespace Iso8583.Layout
open Iso8583

theorem blocksFor_perm (B : Nat) {l1 l2 : List Nat} (h : l1.Perm l2) : blocksFor B l1 = blocksFor B l2 := by
  unfold blocksFor
  apply List.Perm.foldl_eq' h
  intro x _ y _ z
  simp only [Nat.max_assoc, Nat.max_comm ((x + B - 1) / B)]

/-- the reference bitmap does not depend on the order in which the ids are listed -/
theorem bitmapData_perm (specLen : Nat) (auto : Bool) {l1 l2 : List Nat} (h : l1.Perm l2) :
    bitmapData specLen auto l1 = bitmapData specLen auto l2 := by
  cases auto with
  | true =>
    rw [bitmapData_auto, bitmapData_auto, blocksFor_perm _ h]
    simp only [h.contains_eq]
  | false =>
    rw [bitmapData_fixed, bitmapData_fixed, h.all_eq]
    simp only [h.contains_eq]

theorem lookupId_mem {α : Type} (i : Nat) (v : α) : ∀ (l : List (Nat × α)), lookupId i l = some v → (i, v) ∈ l := by
  intro l
  induction l with
  | nil => intro h; cases h
  | cons p rest ih =>
    intro h
    obtain ⟨k, w⟩ := p
    simp only [lookupId] at h
    by_cases hk : k = i
    · subst hk
      simp only [ite_true, Option.some.injEq] at h
      subst h
      simp
    · simp only [hk, ite_false] at h
      exact List.mem_cons_of_mem _ (ih h)

theorem toOpt_msg (a b c : Res Bytes) :
    toOpt (match a with
      | .err => .err
      | .panic => .panic
      | .ok mb =>
        match b with
        | .err => .err
        | .panic => .panic
        | .ok bb =>
          match c with
          | .ok fb => Res.ok (mb ++ bb ++ fb)
          | .err => .err
          | .panic => .panic) =
    match toOpt a, toOpt b, toOpt c with
    | some x, some y, some z => some (x ++ y ++ z)
    | _, _, _ => none := by
  cases a <;> cases b <;> cases c <;> rfl

/-- what `MsgSpec.coherent` gives -/
theorem msg_coherent_facts (spec : MsgSpec) (h : spec.coherent = true) :
    spec.mti.coherent false = true ∧
    (spec.bitmap.enc = .binary ∨ spec.bitmap.enc = .bytesToHex) ∧
    (∀ p ∈ spec.fields, 2 ≤ p.1 ∧
      (spec.bitmap.auto = true → p.1 % (Bitmap.blockLenOf spec.bitmap.specLen * 8) ≠ 1) ∧
      p.2.coherent false = true) := by
  simp only [MsgSpec.coherent, Bool.and_eq_true] at h
  have hmti : spec.mti.coherent false = true := by conj_find h
  have henc : (match spec.bitmap.enc with
      | .binary => true
      | .bytesToHex => true
      | _ => false) = true := by conj_find h
  have hf : (spec.fields.all fun p =>
      decide (2 ≤ p.1) &&
      (!spec.bitmap.auto || decide (p.1 % (Bitmap.blockLenOf spec.bitmap.specLen * 8) ≠ 1)) &&
      p.2.coherent false) = true := by conj_find h
  refine ⟨hmti, ?_, ?_⟩
  · cases he : spec.bitmap.enc <;> simp [he] at henc ⊢
  · intro p hp
    rw [List.all_eq_true] at hf
    have := hf p hp
    simp only [Bool.and_eq_true, decide_eq_true_eq, Bool.or_eq_true, Bool.not_eq_true'] at this
    refine ⟨this.1.1, ?_, this.2⟩
    intro ha
    rcases this.1.2 with h1 | h1
    · rw [ha] at h1; cases h1
    · exact h1

theorem msg_inDomain_facts (spec : MsgSpec) (m : Msg) (h : spec.inDomain m = true) :
    (∃ v, m.mti = some v ∧ (Field.prim spec.mti).inDomain v = true) ∧
    allDistinct (m.fields.map (·.1)) = true ∧
    (∀ p ∈ m.fields, ∃ f, lookupId p.1 spec.fields = some f ∧ f.inDomain p.2 = true) := by
  simp only [MsgSpec.inDomain, Bool.and_eq_true] at h
  have hmti : (match m.mti with
      | some v => (Field.prim spec.mti).inDomain v
      | none => false) = true := by conj_find h
  have hdist : allDistinct (m.fields.map (·.1)) = true := by conj_find h
  have hf : (m.fields.all fun p =>
      match lookupId p.1 spec.fields with
      | some f => f.inDomain p.2
      | none => false) = true := by conj_find h
  refine ⟨?_, hdist, ?_⟩
  · cases hm : m.mti with
    | none => simp [hm] at hmti
    | some v => exact ⟨v, rfl, by simpa [hm] using hmti⟩
  · intro p hp
    rw [List.all_eq_true] at hf
    have := hf p hp
    cases hl : lookupId p.1 spec.fields with
    | none => simp [hl] at this
    | some f => exact ⟨f, rfl, by simpa [hl] using this⟩

/-- **messages**: the model's `Message.Pack` is the reference encoder -/
theorem message_pack_eq (spec : MsgSpec) (m : Msg) (hc : spec.coherent = true) (hd : spec.inDomain m = true) :
    toOpt (spec.pack m) = refEncode spec m := by
  obtain ⟨hmtic, henc, hfc⟩ := msg_coherent_facts spec hc
  obtain ⟨⟨mtiV, hmti, hmtid⟩, hdist, hfd⟩ := msg_inDomain_facts spec m hd
  have hdk : DistinctKeys m.fields := distinct_of_allDistinct _ hdist
  -- the sorted element list
  have hperm := sortBy_perm (fun (a b : Nat × Value) => decide (a.1 < b.1)) m.fields
  have hasc := sortBy_asc m.fields hdk
  generalize hS : sortBy (fun (a b : Nat × Value) => decide (a.1 < b.1)) m.fields = sorted at hperm hasc
  have hidsperm : (sorted.map (·.1)).Perm (m.fields.map (·.1)) := hperm.map _
  -- facts about every present element
  have hel : ∀ p ∈ sorted, ∃ f, lookupId p.1 spec.fields = some f ∧ f.inDomain p.2 = true ∧
      2 ≤ p.1 ∧ (spec.bitmap.auto = true → p.1 % (Bitmap.blockLenOf spec.bitmap.specLen * 8) ≠ 1) ∧
      f.coherent false = true := by
    intro p hp
    obtain ⟨f, hl, hdm⟩ := hfd p (hperm.mem_iff.mp hp)
    obtain ⟨h2, hpb, hcf⟩ := hfc (p.1, f) (lookupId_mem _ _ _ hl)
    exact ⟨f, hl, hdm, h2, hpb, hcf⟩
  have hge2 : ∀ n ∈ sorted.map (·.1), 2 ≤ n := by
    intro n hn
    obtain ⟨p, hp, rfl⟩ := List.mem_map.mp hn
    obtain ⟨f, _, _, h2, _⟩ := hel p hp
    exact h2
  have hpres : ∀ (bm : Bitmap), bm.blockLen = Bitmap.blockLenOf spec.bitmap.specLen → bm.auto = spec.bitmap.auto →
      ∀ p ∈ sorted, bm.isPresenceBit p.1 = false := by
    intro bm h1 h2 p hp
    obtain ⟨f, _, _, _, hpb, _⟩ := hel p hp
    unfold Bitmap.isPresenceBit
    rw [h1, h2]
    cases ha : spec.bitmap.auto with
    | false => rfl
    | true =>
      have := hpb ha
      simp [this]
  -- the reference side
  unfold refEncode
  rw [hmti]
  simp only []
  have hall : (m.fields.map (·.1)).all (fun i => decide (2 ≤ i)) = true := by
    rw [← hidsperm.all_eq, List.all_eq_true]
    intro n hn
    simpa using hge2 n hn
  rw [hall]
  simp only [Bool.not_true, Bool.false_eq_true, ite_false]
  rw [← bitmapData_perm _ _ hidsperm]
  -- the elements
  have helems : encodeElements spec m ((m.fields.map (·.1)).foldl max 0 - 1) 2 = elemsRef spec sorted := by
    rw [encodeElements_congr spec m { mti := m.mti, fields := sorted } _ _ (fun i _ _ => by
      rw [find?_eq_lookupId, find?_eq_lookupId, ← hS]; exact (lookupId_sortBy i m.fields hdk).symm)]
    apply encodeElements_asc spec m.mti _ _ sorted hasc
    intro p hp
    obtain ⟨f, _, _, h2, _⟩ := hel p hp
    have hmem : p.1 ∈ m.fields.map (·.1) := List.mem_map_of_mem (hperm.mem_iff.mp hp)
    have := (le_foldl_max (m.fields.map (·.1)) 0).2 p.1 hmem
    omega
  rw [helems]
  -- the model side
  unfold MsgSpec.pack
  rw [hS, hmti]
  simp only []
  have hsb := setBits_layout spec.bitmap.specLen spec.bitmap.auto (sorted.map (·.1)) hge2 (by
    intro n hn
    obtain ⟨p, hp, rfl⟩ := List.mem_map.mp hn
    exact hpres _ rfl rfl p hp)
  have hmtil : toOpt (spec.mti.pack mtiV) = encodePrim spec.mti mtiV := by
    obtain ⟨hp, ht2⟩ := prim_coherent_facts hmtic
    exact prim_layout spec.mti mtiV hp ht2 hmtid
  cases hbd : bitmapData spec.bitmap.specLen spec.bitmap.auto (sorted.map (·.1)) with
  | none =>
    rw [hbd] at hsb
    rw [hsb]
    cases encodePrim spec.mti mtiV <;> rfl
  | some D =>
    rw [hbd] at hsb
    obtain ⟨bm, hok, hdata, hbl, hau⟩ := hsb
    rw [hok]
    simp only []
    have hbmp : Bitmap.pack spec.bitmap.enc bm = Res.ofOption (encodeText spec.bitmap.enc D) := by
      unfold Bitmap.pack
      rw [hdata]
      apply encode_eq
      intro he; rcases henc with h | h <;> rw [h] at he <;> cases he
    have hpf : toOpt (MsgSpec.packFields spec bm sorted) = elemsRef spec sorted := by
      apply packFields_layout spec bm sorted (hpres bm hbl hau)
      intro p hp f hl
      obtain ⟨f', hl', hdm, _, _, hcf⟩ := hel p hp
      rw [hl] at hl'
      cases hl'
      exact field_pack_eq f p.2 false hcf hdm
    refine (toOpt_msg (spec.mti.pack mtiV) (Bitmap.pack spec.bitmap.enc bm)
      (MsgSpec.packFields spec bm sorted)).trans ?_
    rw [hmtil, hbmp, toOpt_ofOption, hpf]
    cases encodePrim spec.mti mtiV with
    | none => rfl
    | some mb =>
      simp only []
      cases encodeText spec.bitmap.enc D <;> cases elemsRef spec sorted <;> rfl

end Iso8583.Layout
