/-
Lemmas about the element scan of Message.unpack (used by Lemmas/MessageRT.lean and
re-exported as property theorems by Props/C19.lean).
C19 — Pack/Unpack failures are typed and attributed to the right field.
In the model every unpack failure carries `UnpackError.FieldIDs()` (type `UR.err path`),
so "typed" holds by construction; the theorems below say *which* element a failure is
attributed to. The truncation theorem (`truncation_attribution`) builds on the
round-trip lemmas of C01 and is added to this file when those are merged.
-/
import Iso8583.Spec.Coherent

namespace Iso8583.Scan
open Iso8583 MsgSpec

/-- a failure of the element scan is attributed to a data element `i` at or after the
scan position whose bit is set (and which is not a continuation bit); the rest of the
path comes from that element's own failure (subfield tags) -/
theorem scan_error_head (spec : MsgSpec) (bm : Bitmap) :
    ∀ (remaining i : Nat) (src : Bytes) (off : Nat) (acc : List (Nat × Value)) (p : List Bytes),
      scan spec bm remaining i src off acc = .err p →
      ∃ k rest, p = natToDec k :: rest ∧ i ≤ k ∧ k < i + remaining ∧ bm.isSet k = true ∧
        bm.isPresenceBit k = false ∧
        (lookupId k spec.fields = none → rest = []) := by
  intro remaining
  induction remaining with
  | zero => intro i src off acc p h; simp [scan] at h
  | succ n ih =>
    intro i src off acc p h
    rw [scan] at h
    by_cases hp : bm.isPresenceBit i = true
    · simp only [hp, ite_true] at h
      obtain ⟨k, rest, h1, h2, h3, h4⟩ := ih (i + 1) src off acc p h
      exact ⟨k, rest, h1, by omega, by omega, h4⟩
    · have hpf : bm.isPresenceBit i = false := by simpa using hp
      simp only [hpf] at h
      by_cases hs : bm.isSet i = true
      · simp only [hs, ite_true] at h
        cases hl : lookupId i spec.fields with
        | none =>
          simp only [hl] at h
          cases h
          exact ⟨i, [], rfl, by omega, by omega, hs, hpf, fun _ => rfl⟩
        | some f =>
          simp only [hl] at h
          by_cases ho : off > src.length
          · simp [ho] at h
          · simp only [ho, ite_false] at h
            cases hu : f.unpack (src.drop off) with
            | err q =>
              simp only [hu] at h
              cases h
              exact ⟨i, q, rfl, by omega, by omega, hs, hpf, fun hn => by simp [hl] at hn⟩
            | panic => simp [hu] at h
            | ok r =>
              obtain ⟨v, read⟩ := r
              simp only [hu] at h
              obtain ⟨k, rest, h1, h2, h3, h4⟩ := ih (i + 1) src (off + read) _ p h
              exact ⟨k, rest, h1, by omega, by omega, h4⟩
      · have hsf : bm.isSet i = false := by simpa using hs
        simp only [hsf] at h
        obtain ⟨k, rest, h1, h2, h3, h4⟩ := ih (i + 1) src off acc p h
        exact ⟨k, rest, h1, by omega, by omega, h4⟩

/-- **Attribution of Unpack failures**: the field-id path of every failure starts with
the element at which decoding stopped: "0" if the MTI could not be read, "1" if the
bitmap could not, otherwise a data element ≥ 2 whose bit is set in the bitmap that was
read — never an element that is absent from the message. -/
theorem unpack_error_attributed (spec : MsgSpec) (src : Bytes) (p : List Bytes)
    (h : spec.unpack src = .err p) :
    (p = [natToDec 0] ∧ ∃ e, spec.mti.unpack src = e ∧ e.isOk = false) ∨
    (p = [natToDec 1]) ∨
    (∃ k rest, p = natToDec k :: rest ∧ 2 ≤ k) := by
  rw [MsgSpec.unpack] at h
  cases hm : spec.mti.unpack src with
  | err =>
    simp only [hm] at h; cases h
    exact Or.inl ⟨rfl, _, rfl, rfl⟩
  | panic => simp [hm] at h
  | ok r =>
    obtain ⟨mtiV, read⟩ := r
    simp only [hm] at h
    by_cases hr : read > src.length
    · simp [hr] at h
    · simp only [hr, ite_false] at h
      split at h
      · cases h; exact Or.inr (Or.inl rfl)
      · cases h
      · rename_i bm bread hb
        split at h
        · rename_i q hs
          cases h
          obtain ⟨k, rest, h1, h2, _⟩ := scan_error_head spec bm _ _ _ _ _ _ hs
          exact Or.inr (Or.inr ⟨k, rest, h1, h2⟩)
        · cases h
        · cases h

/-- a successful Unpack reports the MTI as present and only elements whose bit is set -/
theorem scan_ok_only_set_bits (spec : MsgSpec) (bm : Bitmap) :
    ∀ (remaining i : Nat) (src : Bytes) (off : Nat) (acc res : List (Nat × Value)) (off' : Nat),
      scan spec bm remaining i src off acc = .ok (res, off') →
      ∃ new, res = acc ++ new ∧ ∀ q ∈ new, i ≤ q.1 ∧ q.1 < i + remaining ∧ bm.isSet q.1 = true := by
  intro remaining
  induction remaining with
  | zero =>
    intro i src off acc res off' h
    simp only [scan, UR.ok.injEq, Prod.mk.injEq] at h
    exact ⟨[], by simp [h.1], by simp⟩
  | succ n ih =>
    intro i src off acc res off' h
    rw [scan] at h
    by_cases hp : bm.isPresenceBit i = true
    · simp only [hp, ite_true] at h
      obtain ⟨new, h1, h2⟩ := ih (i + 1) src off acc res off' h
      exact ⟨new, h1, fun q hq => by obtain ⟨a, b, c⟩ := h2 q hq; exact ⟨by omega, by omega, c⟩⟩
    · have hpf : bm.isPresenceBit i = false := by simpa using hp
      simp only [hpf] at h
      by_cases hs : bm.isSet i = true
      · simp only [hs, ite_true] at h
        cases hl : lookupId i spec.fields with
        | none => simp [hl] at h
        | some f =>
          simp only [hl] at h
          by_cases ho : off > src.length
          · simp [ho] at h
          · simp only [ho, ite_false] at h
            cases hu : f.unpack (src.drop off) with
            | err q => simp [hu] at h
            | panic => simp [hu] at h
            | ok r =>
              obtain ⟨v, read⟩ := r
              simp only [hu] at h
              obtain ⟨new, h1, h2⟩ := ih (i + 1) src (off + read) _ res off' h
              refine ⟨(i, v) :: new, by simp [h1], ?_⟩
              intro q hq
              simp only [List.mem_cons] at hq
              rcases hq with rfl | hq
              · exact ⟨by omega, by omega, hs⟩
              · obtain ⟨a, b, c⟩ := h2 q hq; exact ⟨by omega, by omega, c⟩
      · have hsf : bm.isSet i = false := by simpa using hs
        simp only [hsf] at h
        obtain ⟨new, h1, h2⟩ := ih (i + 1) src off acc res off' h
        exact ⟨new, h1, fun q hq => by obtain ⟨a, b, c⟩ := h2 q hq; exact ⟨by omega, by omega, c⟩⟩

end Iso8583.Scan
