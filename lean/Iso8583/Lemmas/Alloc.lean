/-
Helper lemmas for Props/C04Alloc.lean: sums of the ghost allocation logs of Model/Alloc.lean.
-/
import Iso8583.Model.Alloc

namespace Iso8583
open Enc Pref

/-! ## value decoders: the requests are paid for by the bytes read -/

namespace Enc

theorem decodeAllocs_sum_le (e : Enc) (data : Bytes) (n : Nat) :
    (decodeAllocs e data n).sum ≤ 4 * data.length := by
  cases e <;> simp only [decodeAllocs]
  case berTag =>
    split
    · simp
    · rename_i k hk
      have : decodeNat .berTag data 0 = .ok (hexEncodeUpper (data.take k), k) := by simp [decodeNat, hk]
      have := decodeNat_read_le _ _ _ _ _ this
      simp only [List.sum_cons, List.sum_nil]
      omega
  all_goals
    split
    · simp
    · simp only [List.sum_cons, List.sum_nil]
      omega

theorem decodeAllocs_sum_ok (e : Enc) (data v : Bytes) (n r : Nat) (h : decodeNat e data n = .ok (v, r)) :
    (decodeAllocs e data n).sum ≤ 4 * r := by
  cases e <;> simp only [decodeNat] at h <;> simp only [decodeAllocs]
  case berTag =>
    split at h
    · cases h
    · rename_i k hk
      simp only [Res.ok.injEq, Prod.mk.injEq] at h
      obtain ⟨_, hr⟩ := h
      subst hr
      simp only [hk, List.sum_cons, List.sum_nil]
      omega
  case ascii =>
    split at h
    · cases h
    · rename_i hlt
      split at h
      · simp only [Res.ok.injEq, Prod.mk.injEq] at h
        obtain ⟨_, hr⟩ := h
        subst hr
        simp only [hlt, ite_false, List.sum_cons, List.sum_nil]
        omega
      · cases h
  case bcd =>
    split at h
    · cases h
    · rename_i hlt
      split at h
      · cases h
      · simp only [Res.ok.injEq, Prod.mk.injEq] at h
        obtain ⟨_, hr⟩ := h
        subst hr
        simp only [hlt, ite_false, List.sum_cons, List.sum_nil]
        omega
  case lbcd =>
    split at h
    · cases h
    · rename_i hlt
      split at h
      · cases h
      · simp only [Res.ok.injEq, Prod.mk.injEq] at h
        obtain ⟨_, hr⟩ := h
        subst hr
        simp only [hlt, ite_false, List.sum_cons, List.sum_nil]
        omega
  case bytesToHex =>
    split at h
    · cases h
    · rename_i hlt
      split at h
      · cases h
      · simp only [Res.ok.injEq, Prod.mk.injEq] at h
        obtain ⟨_, hr⟩ := h
        subst hr
        simp only [hlt, ite_false, List.sum_cons, List.sum_nil]
        omega
  all_goals
    split at h
    · cases h
    · rename_i hlt
      simp only [Res.ok.injEq, Prod.mk.injEq] at h
      obtain ⟨_, hr⟩ := h
      subst hr
      simp only [hlt, ite_false, List.sum_cons, List.sum_nil]
      omega

end Enc

/-! ## length prefixes -/

namespace Pref

theorem posBinary_var_binary (d : Nat) (h : (Pref.var .binary d).posBinary = true) : 1 ≤ d := by
  cases d with
  | zero => simp [posBinary] at h
  | succ d => omega

/-- whatever the input: at most 8 per available byte, plus the BER length buffer -/
theorem decodeAllocs_sum_le (p : Pref) (data : Bytes) : (decodeAllocs p data).sum ≤ 8 * data.length + 127 := by
  cases p with
  | fixed f => simp [decodeAllocs]
  | none => simp [decodeAllocs]
  | berTLV =>
    simp only [decodeAllocs]
    split
    · simp
    · rename_i first rest
      split
      · simp
      · have := byte_toNat_lt first
        simp only [List.sum_cons, List.sum_nil]
        omega
  | var f d =>
    cases f <;> simp only [decodeAllocs] <;> split <;> try (simp; done)
    all_goals
      simp only [List.sum_append_nat, List.sum_cons, List.sum_nil]
      first
        | omega
        | (have := Enc.decodeAllocs_sum_le .ebcdic (data.take d) d
           simp only [List.length_take] at this; omega)
        | (have := Enc.decodeAllocs_sum_le .ebcdic1047 (data.take d) d
           simp only [List.length_take] at this; omega)
        | (have := Enc.decodeAllocs_sum_le .bcd (data.take ((d + 1) / 2)) d
           simp only [List.length_take] at this; omega)

/-- a successful prefix decode is paid for by the prefix bytes it read -/
theorem decodeAllocs_sum_ok (p : Pref) (maxLen : Nat) (data : Bytes) (m r : Nat) (hp : p.posBinary = true)
    (h : decodeLength p maxLen data = .ok (m, r)) : (decodeAllocs p data).sum ≤ 8 * r := by
  have hr := (C06.dec_range p maxLen data).2 m r h
  cases p with
  | fixed f => simp [decodeAllocs]
  | none => simp [decodeAllocs]
  | berTLV =>
    simp only [decodeLength] at h
    simp only [decodeAllocs]
    split at h
    · cases h
    · rename_i first rest
      split at h
      · rename_i hlt
        simp only [hlt, ite_true, List.sum_nil]; omega
      · rename_i hlt
        simp only [hlt, ite_false, List.sum_cons, List.sum_nil]
        split at h
        · cases h
        · split at h
          · cases h
          · split at h
            · cases h
            · simp only [Res.ok.injEq, Prod.mk.injEq] at h
              omega
  | var f d =>
    have hw := hr.2.2.2 (by simp)
    have hl := hr.1
    cases f <;> simp only [C06.width] at hw <;> simp only [decodeAllocs] <;> split <;> try (simp; done)
    all_goals
      simp only [List.sum_append_nat, List.sum_cons, List.sum_nil]
      first
        | omega
        | (have := posBinary_var_binary d hp; omega)
        | (have := Enc.decodeAllocs_sum_le .ebcdic (data.take d) d
           simp only [List.length_take] at this; omega)
        | (have := Enc.decodeAllocs_sum_le .ebcdic1047 (data.take d) d
           simp only [List.length_take] at this; omega)
        | (have := Enc.decodeAllocs_sum_le .bcd (data.take ((d + 1) / 2)) d
           simp only [List.length_take] at this; omega)

/-- a prefixer with at most 42 digits requests at most 127 bytes per decode -/
theorem decodeAllocs_sum_short (p : Pref) (data : Bytes) (hp : p.shortDigits = true) :
    (decodeAllocs p data).sum ≤ 127 := by
  cases p with
  | fixed f => simp [decodeAllocs]
  | none => simp [decodeAllocs]
  | berTLV =>
    simp only [decodeAllocs]
    split
    · simp
    · rename_i first rest
      split
      · simp
      · have := byte_toNat_lt first
        simp only [List.sum_cons, List.sum_nil]
        omega
  | var f d =>
    have hd : d ≤ 42 := by simpa [shortDigits] using hp
    cases f <;> simp only [decodeAllocs, Enc.decodeAllocs] <;> split <;> try (simp; done)
    all_goals
      try split
      all_goals
        simp only [List.sum_append_nat, List.sum_cons, List.sum_nil]
        omega

end Pref

/-! ## primitive fields -/

/-- the length handed to the value decoder (the Track2 unpacker rounds an odd length up) -/
def PrimSpec.effLen (s : PrimSpec) (vl : Nat) : Nat :=
  match s.packer with
  | .default => vl
  | .track2 => if s.pad ≠ .nil ∧ vl % 2 ≠ 0 then vl + 1 else vl

theorem PrimSpec.unpackAllocs_eq (s : PrimSpec) (data : Bytes) :
    s.unpackAllocs data = s.pref.decodeAllocs data ++
      match s.pref.decodeLength s.len data with
      | .ok (vl, pb) => Enc.decodeAllocs s.enc (data.drop pb) (s.effLen vl)
      | _ => [] := by
  obtain ⟨kind, len, enc, pref, pad, packer⟩ := s
  cases packer <;> rfl

/-- a successful `unpackBytes` decoded the prefix, then the value on what follows it -/
theorem PrimSpec.unpackBytes_ok_inv (s : PrimSpec) (data raw : Bytes) (r : Nat)
    (h : s.unpackBytes data = .ok (raw, r)) :
    ∃ vl pb value rd, s.pref.decodeLength s.len data = .ok (vl, pb) ∧
      Enc.decodeNat s.enc (data.drop pb) (s.effLen vl) = .ok (value, rd) ∧ r = rd + pb := by
  obtain ⟨kind, len, enc, pref, pad, packer⟩ := s
  unfold PrimSpec.unpackBytes at h
  simp only at h
  split at h
  · cases h
  · cases h
  · rename_i vl pb hdl
    split at h
    · cases h
    · split at h
      · cases h
      · cases h
      · rename_i value rd hdec
        refine ⟨vl, pb, value, rd, hdl, ?_, ?_⟩
        · cases packer
          · exact hdec
          · simp only [PrimSpec.effLen]
            simp only at hdec
            split at hdec
            · rename_i hc
              have e : ((vl : Int) + 1) = ((vl + 1 : Nat) : Int) := by omega
              rw [e, decode_natCast] at hdec
              rw [if_pos hc]
              exact hdec
            · rename_i hc
              rw [decode_natCast] at hdec
              rw [if_neg hc]
              exact hdec
        · repeat' (split at h)
          all_goals first
            | (simp only [Res.ok.injEq, Prod.mk.injEq] at h; omega)
            | cases h

theorem PrimSpec.unpackAllocs_sum_ok (s : PrimSpec) (data : Bytes) (v : Value) (r : Nat)
    (hp : s.pref.posBinary = true) (h : s.unpack data = .ok (v, r)) :
    (s.unpackAllocs data).sum ≤ 8 * r := by
  unfold PrimSpec.unpack at h
  split at h
  · cases h
  · cases h
  · rename_i raw read hub
    have hr : r = read := by
      split at h
      · simp only [Res.ok.injEq, Prod.mk.injEq] at h; exact h.2.symm
      · cases h
      · cases h
    obtain ⟨vl, pb, value, rd, hdl, hdec, hrd⟩ := PrimSpec.unpackBytes_ok_inv s data raw read hub
    have h1 := Pref.decodeAllocs_sum_ok _ _ _ _ _ hp hdl
    have h2 := Enc.decodeAllocs_sum_ok _ _ _ _ _ hdec
    rw [PrimSpec.unpackAllocs_eq, hdl]
    simp only [List.sum_append_nat]
    omega

theorem PrimSpec.unpackAllocs_sum_le (s : PrimSpec) (data : Bytes) (hp : s.pref.posBinary = true) :
    (s.unpackAllocs data).sum ≤ 8 * data.length + 127 := by
  rw [PrimSpec.unpackAllocs_eq]
  simp only [List.sum_append_nat]
  split
  · rename_i vl pb hdl
    have h1 := Pref.decodeAllocs_sum_ok _ _ _ _ _ hp hdl
    have h2 := Enc.decodeAllocs_sum_le s.enc (data.drop pb) (s.effLen vl)
    have h3 := decodeLength_read_le _ _ _ _ _ hdl
    simp only [List.length_drop] at h2
    omega
  · have := Pref.decodeAllocs_sum_le s.pref data
    simp only [List.sum_nil]
    omega

/-! ## the bitmap chain, amortised -/

namespace Bitmap

theorem grow_facts (c n : Nat) (h : c ≤ 2 * n) :
    (growAllocs c n).sum + 2 * c ≤ 2 * growCap c n ∧ growCap c n ≤ 2 * n := by
  unfold growAllocs growCap
  split
  · simp only [List.sum_nil]; omega
  · split
    · simp only [List.sum_cons, List.sum_nil]; omega
    · simp only [List.sum_cons, List.sum_nil]; omega

/-- potential argument for the doubling slice: with `cap ≤ 2·len`, everything the chain
requests from here on, plus `2·cap`, is covered by `4·len` and 12 per byte still to read
(decoder requests ≤ 4 per byte read; decoded block ≤ 2 per byte read, charged 4 each) -/
theorem loopAllocsA_sum (enc : Enc) (minLen : Nat) (auto : Bool) :
    ∀ (fuel : Nat) (rest acc : Bytes) (read cap : Nat), cap ≤ 2 * acc.length →
      (loopAllocsA enc minLen auto fuel rest acc cap).sum + 2 * cap ≤ 4 * acc.length + 12 * rest.length ∧
      ∀ blocks r', unpackLoop enc minLen auto fuel rest acc read = .ok (blocks, r') →
        (loopAllocsA enc minLen auto fuel rest acc cap).sum + 2 * cap + 12 * read ≤ 4 * acc.length + 12 * r' := by
  intro fuel
  induction fuel with
  | zero =>
    intro rest acc read cap hc
    simp only [loopAllocsA, unpackLoop, List.sum_nil]
    refine ⟨by omega, ?_⟩
    intro blocks r' h; cases h
  | succ fuel ih =>
    intro rest acc read cap hc
    have hD := Enc.decodeAllocs_sum_le enc rest minLen
    cases hdec : Enc.decodeNat enc rest minLen with
    | err =>
      simp only [loopAllocsA, unpackLoop, decode_natCast, hdec, List.sum_append_nat, List.sum_nil]
      refine ⟨by omega, ?_⟩
      intro blocks r' h; cases h
    | panic => exact absurd hdec (decodeNat_ne_panic _ _ _)
    | ok p =>
      obtain ⟨decoded, r⟩ := p
      have hD' := Enc.decodeAllocs_sum_ok _ _ _ _ _ hdec
      have hrl := decodeNat_read_le _ _ _ _ _ hdec
      have hol := decodeNat_out_le _ _ _ _ _ hdec
      obtain ⟨hg1, hg2⟩ := grow_facts cap (acc.length + decoded.length) (by omega)
      simp only [loopAllocsA, unpackLoop, decode_natCast, hdec, List.sum_append_nat]
      cases decoded with
      | nil =>
        simp only [List.sum_nil]
        refine ⟨by omega, ?_⟩
        intro blocks r' h; cases h
      | cons first tl =>
        simp only
        split
        · simp only [List.sum_nil]
          refine ⟨by omega, ?_⟩
          intro blocks r' h
          simp only [Res.ok.injEq, Prod.mk.injEq] at h
          obtain ⟨_, hr⟩ := h
          omega
        · obtain ⟨ih1, ih2⟩ := ih (rest.drop r) (acc ++ first :: tl) (read + r)
            (growCap cap (acc.length + (first :: tl).length))
            (by simp only [List.length_append]; omega)
          simp only [List.length_append, List.length_drop] at ih1 ih2
          refine ⟨by omega, ?_⟩
          intro blocks r' h
          have := ih2 blocks r' h
          omega

/-- the per-request bound of `C04.alloc_bounded` survives the amortisation: a growth request
is at most twice the new length, itself at most twice the bytes read so far -/
theorem loopAllocsA_le (enc : Enc) (minLen : Nat) (auto : Bool) (total : Nat) :
    ∀ (fuel : Nat) (rest acc : Bytes) (cap : Nat), acc.length + 2 * rest.length ≤ 2 * total →
      cap ≤ 2 * acc.length →
      ∀ a ∈ loopAllocsA enc minLen auto fuel rest acc cap, a ≤ 4 * total := by
  intro fuel
  induction fuel with
  | zero => intro rest acc cap _ _ a ha; simp [loopAllocsA] at ha
  | succ fuel ih =>
    intro rest acc cap hinv hc a ha
    simp only [loopAllocsA, List.mem_append, decode_natCast] at ha
    rcases ha with ha | ha
    · have := Enc.decodeAllocs_le _ _ _ a ha
      omega
    · split at ha
      · rename_i decoded r hdec
        have hrl := decodeNat_read_le _ _ _ _ _ hdec
        have hol := decodeNat_out_le _ _ _ _ _ hdec
        obtain ⟨_, hg2⟩ := grow_facts cap (acc.length + decoded.length) (by omega)
        simp only [List.mem_append] at ha
        rcases ha with ha | ha
        · unfold growAllocs at ha
          split at ha
          · simp at ha
          · simp only [List.mem_singleton] at ha
            omega
        · split at ha
          · simp at ha
          · split at ha
            · simp at ha
            · refine ih _ _ _ ?_ ?_ a ha
              · simp only [List.length_append, List.length_drop]
                omega
              · simp only [List.length_append]
                omega
      · simp at ha

theorem unpackAllocsA_le (enc : Enc) (pref : Pref) (bm : Bitmap) (data : Bytes) :
    ∀ a ∈ unpackAllocsA enc pref bm data, a ≤ 4 * data.length + 127 := by
  intro a ha
  simp only [unpackAllocsA, List.mem_append] at ha
  rcases ha with ha | ha
  · have := Pref.decodeAllocs_le _ _ a ha
    omega
  · split at ha
    · have := loopAllocsA_le enc _ bm.auto data.length _ data [] 0 (by simp) (by simp) a ha
      omega
    · simp at ha

theorem unpackAllocsA_sum_le (enc : Enc) (pref : Pref) (bm : Bitmap) (data : Bytes)
    (hp : pref.shortDigits = true) :
    (unpackAllocsA enc pref bm data).sum ≤ 12 * data.length + 127 := by
  have h1 := Pref.decodeAllocs_sum_short pref data hp
  unfold unpackAllocsA
  simp only [List.sum_append_nat]
  split
  · rename_i minLen r hdl
    have := (loopAllocsA_sum enc minLen bm.auto (data.length + 1) data [] 0 0 (by simp)).1
    simp only [List.length_nil] at this
    omega
  · simp only [List.sum_nil]; omega

/-- a successful bitmap unpack read ≥ 1 byte, which also pays for the prefix decode -/
theorem unpackAllocsA_sum_ok (enc : Enc) (pref : Pref) (bm bm' : Bitmap) (data : Bytes) (read : Nat)
    (hp : pref.shortDigits = true) (h : unpack enc pref bm data = .ok (bm', read)) :
    (unpackAllocsA enc pref bm data).sum ≤ 139 * read := by
  have h1 := Pref.decodeAllocs_sum_short pref data hp
  have hb := unpack_ok_bounds _ _ _ _ _ _ h
  unfold unpack at h
  unfold unpackAllocsA
  simp only [List.sum_append_nat]
  split at h
  · cases h
  · cases h
  · rename_i minLen r hdl
    rw [hdl]
    simp only
    split at h
    · rename_i blocks rd hl
      simp only [Res.ok.injEq, Prod.mk.injEq] at h
      obtain ⟨_, hr⟩ := h
      subst hr
      have := (loopAllocsA_sum enc minLen bm.auto (data.length + 1) data [] 0 0 (by simp)).2 blocks rd hl
      simp only [List.length_nil] at this
      omega
    · cases h
    · cases h

end Bitmap

/-! ## the composite loops (generic in the dispatcher and its log)

`144` is the price per input byte: 139 for a bitmapped composite's bitmap (127 for its
prefix decode, paid by the ≥ 1 byte the bitmap reads, 12 per bitmap byte), rounded up. -/

/-- push `sum` through `++`, `::`, `[]` -/
local macro "sums" : tactic =>
  `(tactic| simp only [List.sum_append_nat, List.sum_nil, List.sum_cons, Nat.add_zero])

theorem tlvLoopAllocs_sum (t : TagSpec) (enc : Enc) (isBer : Bool) (known : Tag → Bool)
    (dispatch : Tag → Bytes → UR (Value × Nat)) (da : Tag → Bytes → List Nat)
    (hpu : ∀ p, t.prefUnknown = some p → p.posBinary = true)
    (hr : ∀ tag d v r, dispatch tag d = .ok (v, r) → r ≤ d.length)
    (hle : ∀ tag d, (da tag d).sum ≤ 144 * d.length + 127)
    (hok : ∀ tag d v r, dispatch tag d = .ok (v, r) → (da tag d).sum ≤ 144 * r) :
    ∀ (fuel : Nat) (data : Bytes) (offset : Nat) (acc : List (Tag × Value)), offset ≤ data.length →
      (tlvLoopAllocs t enc isBer known dispatch da fuel data offset).sum + 144 * offset
          ≤ 144 * data.length + 127 ∧
      ∀ vals r, tlvLoop t enc isBer known dispatch fuel data offset acc = .ok (vals, r) →
        (tlvLoopAllocs t enc isBer known dispatch da fuel data offset).sum + 144 * offset ≤ 144 * r := by
  intro fuel
  induction fuel with
  | zero =>
    intro data offset acc ho
    simp only [tlvLoopAllocs, tlvLoop, List.sum_nil]
    exact ⟨by omega, fun _ _ h => by cases h⟩
  | succ fuel ih =>
    intro data offset acc ho
    by_cases hge : offset ≥ data.length
    · simp only [tlvLoopAllocs, tlvLoop, if_pos hge, List.sum_nil]
      refine ⟨by omega, ?_⟩
      intro vals r h
      simp only [UR.ok.injEq, Prod.mk.injEq] at h
      omega
    · simp only [tlvLoopAllocs, tlvLoop, if_neg hge, decode_natCast]
      have hT := Enc.decodeAllocs_sum_le enc (data.drop offset) t.len
      simp only [List.length_drop] at hT
      cases hdec : Enc.decodeNat enc (data.drop offset) t.len with
      | err => sums; exact ⟨by omega, fun _ _ h => by cases h⟩
      | panic => sums; exact ⟨by omega, fun _ _ h => by cases h⟩
      | ok p =>
        obtain ⟨tagBytes, read⟩ := p
        have hT' := Enc.decodeAllocs_sum_ok _ _ _ _ _ hdec
        have hrl := decodeNat_read_le _ _ _ _ _ hdec
        simp only [List.length_drop] at hrl
        simp only
        by_cases hk : (!known (t.pad.unpad tagBytes)) = true
        · simp only [if_pos hk]
          by_cases hs : (t.skipUnknown && (isBer || t.prefUnknown.isSome)) = true
          · simp only [if_pos hs]
            cases hpu' : t.prefUnknown with
            | none =>
              simp only
              have ho2 : ¬ (offset + read > data.length) := by omega
              simp only [if_neg ho2]
              have hP := Pref.decodeAllocs_sum_le Pref.berTLV (data.drop (offset + read))
              simp only [List.length_drop] at hP
              cases hdl : Pref.decodeLength Pref.berTLV 0 (data.drop (offset + read)) with
              | err => sums; exact ⟨by omega, fun _ _ h => by cases h⟩
              | panic => sums; exact ⟨by omega, fun _ _ h => by cases h⟩
              | ok q =>
                obtain ⟨fl, rd⟩ := q
                have hP' := Pref.decodeAllocs_sum_ok _ _ _ _ _ rfl hdl
                simp only
                by_cases hc : fl > data.length - (offset + read) - rd ∨ offset + read + rd > data.length
                · simp only [if_pos hc]; sums; exact ⟨by omega, fun _ _ h => by cases h⟩
                · simp only [if_neg hc]; sums
                  obtain ⟨ih1, ih2⟩ := ih data (offset + read + fl + rd) acc (by omega)
                  exact ⟨by omega, fun vals r h => by have := ih2 vals r h; omega⟩
            | some pu =>
              simp only
              have ho2 : ¬ (offset + read > data.length) := by omega
              simp only [if_neg ho2]
              have hP := Pref.decodeAllocs_sum_le pu (data.drop (offset + read))
              simp only [List.length_drop] at hP
              cases hdl : Pref.decodeLength pu maxInt (data.drop (offset + read)) with
              | err => sums; exact ⟨by omega, fun _ _ h => by cases h⟩
              | panic => sums; exact ⟨by omega, fun _ _ h => by cases h⟩
              | ok q =>
                obtain ⟨fl, rd⟩ := q
                have hP' := Pref.decodeAllocs_sum_ok _ _ _ _ _ (hpu pu hpu') hdl
                simp only
                by_cases hc : fl > data.length - (offset + read) - rd ∨ offset + read + rd > data.length
                · simp only [if_pos hc]; sums; exact ⟨by omega, fun _ _ h => by cases h⟩
                · simp only [if_neg hc]; sums
                  obtain ⟨ih1, ih2⟩ := ih data (offset + read + fl + rd) acc (by omega)
                  exact ⟨by omega, fun vals r h => by have := ih2 vals r h; omega⟩
          · simp only [if_neg hs]; sums; exact ⟨by omega, fun _ _ h => by cases h⟩
        · simp only [if_neg hk]
          have ho2 : ¬ (offset + read > data.length) := by omega
          simp only [if_neg ho2]
          have hA := hle (t.pad.unpad tagBytes) (data.drop (offset + read))
          simp only [List.length_drop] at hA
          cases hd : dispatch (t.pad.unpad tagBytes) (data.drop (offset + read)) with
          | err p => sums; exact ⟨by omega, fun _ _ h => by cases h⟩
          | panic => sums; exact ⟨by omega, fun _ _ h => by cases h⟩
          | ok q =>
            obtain ⟨v, read'⟩ := q
            have hA' := hok _ _ _ _ hd
            have hr' := hr _ _ _ _ hd
            simp only [List.length_drop] at hr'
            simp only
            by_cases hz : read = 0 ∧ read' = 0
            · simp only [if_pos hz]; sums; exact ⟨by omega, fun _ _ h => by cases h⟩
            · simp only [if_neg hz]; sums
              obtain ⟨ih1, ih2⟩ := ih data (offset + read + read') (insertKV (t.pad.unpad tagBytes) v acc) (by omega)
              exact ⟨by omega, fun vals r h => by have := ih2 vals r h; omega⟩

theorem bitmapScanAllocs_sum (bm : Bitmap) (dispatch : Tag → Bytes → Option (UR (Value × Nat)))
    (da : Tag → Bytes → List Nat)
    (hr : ∀ tag d v r, dispatch tag d = some (.ok (v, r)) → r ≤ d.length)
    (hle : ∀ tag d, (da tag d).sum ≤ 144 * d.length + 127)
    (hok : ∀ tag d v r, dispatch tag d = some (.ok (v, r)) → (da tag d).sum ≤ 144 * r) :
    ∀ (remaining i : Nat) (data : Bytes) (off : Nat) (acc : List (Tag × Value)), off ≤ data.length →
      (bitmapScanAllocs bm dispatch da remaining i data off).sum + 144 * off ≤ 144 * data.length + 127 ∧
      ∀ vals r, bitmapScan bm dispatch remaining i data off acc = .ok (vals, r) →
        (bitmapScanAllocs bm dispatch da remaining i data off).sum + 144 * off ≤ 144 * r := by
  intro remaining
  induction remaining with
  | zero =>
    intro i data off acc ho
    simp only [bitmapScanAllocs, bitmapScan, List.sum_nil]
    refine ⟨by omega, ?_⟩
    intro vals r h
    simp only [UR.ok.injEq, Prod.mk.injEq] at h
    omega
  | succ remaining ih =>
    intro i data off acc ho
    simp only [bitmapScanAllocs, bitmapScan]
    by_cases hset : bm.isSet i = true
    · simp only [if_pos hset]
      have ho2 : ¬ (off > data.length) := by omega
      simp only [if_neg ho2]
      have hA := hle (natToDec i) (data.drop off)
      simp only [List.length_drop] at hA
      cases hd : dispatch (natToDec i) (data.drop off) with
      | none => sums; exact ⟨by omega, fun _ _ h => by cases h⟩
      | some u =>
        cases u with
        | err p => sums; exact ⟨by omega, fun _ _ h => by cases h⟩
        | panic => sums; exact ⟨by omega, fun _ _ h => by cases h⟩
        | ok q =>
          obtain ⟨v, read⟩ := q
          have hA' := hok _ _ _ _ hd
          have hr' := hr _ _ _ _ hd
          simp only [List.length_drop] at hr'
          simp only
          sums
          obtain ⟨ih1, ih2⟩ := ih (i + 1) data (off + read) (acc ++ [(natToDec i, v)]) (by omega)
          exact ⟨by omega, fun vals r h => by have := ih2 vals r h; omega⟩
    · simp only [if_neg hset]
      exact ih (i + 1) data off acc ho

/-! ## induction over the spec tree -/

/-- the linear bound for one field spec: 144 per available byte plus 127 whatever happens,
144 per byte *read* when the unpack succeeds -/
def Field.AllocLinear (f : Field) : Prop :=
  (∀ d, (f.unpackAllocs d).sum ≤ 144 * d.length + 127) ∧
  (∀ d v r, f.unpack d = .ok (v, r) → (f.unpackAllocs d).sum ≤ 144 * r)

theorem Field.allocOKList_mem : ∀ (subs : List (Tag × Field)), Field.allocOKList subs = true →
    ∀ p ∈ subs, p.2.allocOK = true
  | [], _, p, hp => by cases hp
  | (k, f) :: rest, h, p, hp => by
    simp only [Field.allocOKList, Bool.and_eq_true] at h
    simp only [List.mem_cons] at hp
    rcases hp with rfl | hp
    · exact h.1
    · exact Field.allocOKList_mem rest h.2 p hp

theorem unpackTaggedAllocs_sum : ∀ (subs : List (Tag × Field)), (∀ p ∈ subs, p.2.AllocLinear) →
    ∀ (tag : Tag) (d : Bytes),
      (unpackTaggedAllocs subs tag d).sum ≤ 144 * d.length + 127 ∧
      (∀ v r, unpackTagged subs tag d = .ok (v, r) → (unpackTaggedAllocs subs tag d).sum ≤ 144 * r) ∧
      (∀ v r, unpackTaggedOpt subs tag d = some (.ok (v, r)) → (unpackTaggedAllocs subs tag d).sum ≤ 144 * r)
  | [], _, tag, d => by
    simp only [unpackTaggedAllocs, unpackTagged, unpackTaggedOpt, List.sum_nil]
    refine ⟨by omega, ?_, ?_⟩ <;> intro v r h <;> cases h
  | (k, f) :: rest, h, tag, d => by
    simp only [unpackTaggedAllocs, unpackTagged, unpackTaggedOpt]
    by_cases hk : k = tag
    · simp only [if_pos hk]
      obtain ⟨h1, h2⟩ : f.AllocLinear := h (k, f) (by simp)
      refine ⟨h1 d, fun v r hu => h2 d v r hu, fun v r hu => ?_⟩
      simp only [Option.some.injEq] at hu
      exact h2 d v r hu
    · simp only [if_neg hk]
      exact unpackTaggedAllocs_sum rest (fun p hp => h p (by simp [hp])) tag d

theorem unpackPositionalAllocs_sum : ∀ (subs : List (Tag × Field)), (∀ p ∈ subs, p.2.AllocLinear) →
    ∀ (data : Bytes) (isVar : Bool) (offset : Nat) (acc : List (Tag × Value)), offset ≤ data.length →
      (unpackPositionalAllocs subs data isVar offset).sum + 144 * offset ≤ 144 * data.length + 127 ∧
      ∀ vals r, unpackPositional subs data isVar offset acc = .ok (vals, r) →
        (unpackPositionalAllocs subs data isVar offset).sum + 144 * offset ≤ 144 * r
  | [], _, data, isVar, offset, acc, ho => by
    simp only [unpackPositionalAllocs, unpackPositional, List.sum_nil]
    refine ⟨by omega, ?_⟩
    intro vals r h
    simp only [UR.ok.injEq, Prod.mk.injEq] at h
    omega
  | (tag, f) :: rest, h, data, isVar, offset, acc, ho => by
    simp only [unpackPositionalAllocs, unpackPositional]
    have ho2 : ¬ (offset > data.length) := by omega
    simp only [if_neg ho2]
    obtain ⟨h1, h2⟩ : f.AllocLinear := h (tag, f) (by simp)
    have hA := h1 (data.drop offset)
    simp only [List.length_drop] at hA
    cases hu : f.unpack (data.drop offset) with
    | err p => sums; exact ⟨by omega, fun _ _ h => by cases h⟩
    | panic => sums; exact ⟨by omega, fun _ _ h => by cases h⟩
    | ok q =>
      obtain ⟨v, read⟩ := q
      have hA' := h2 _ _ _ hu
      have hr' := Field.unpack_read_le f _ v read hu
      simp only [List.length_drop] at hr'
      simp only
      by_cases hstop : (isVar && decide (offset + read ≥ data.length)) = true
      · simp only [if_pos hstop]
        sums
        refine ⟨by omega, ?_⟩
        intro vals r h
        simp only [UR.ok.injEq, Prod.mk.injEq] at h
        omega
      · simp only [if_neg hstop]
        sums
        obtain ⟨ih1, ih2⟩ := unpackPositionalAllocs_sum rest (fun p hp => h p (by simp [hp]))
          data isVar (offset + read) (acc ++ [(tag, v)]) (by omega)
        exact ⟨by omega, fun vals r h => by have := ih2 vals r h; omega⟩

/-- side condition on a composite's mode: bitmap prefixer short, unknown-tag prefixer not `var .binary 0` -/
def Mode.allocOK : Mode → Bool
  | .bitmapped b => b.pref.shortDigits
  | .tagged t => match t.prefUnknown with
    | some p => p.posBinary
    | Option.none => true

/-- the body of a composite (everything after its own length prefix), in the three modes -/
theorem compBodyAllocs_sum (mode : Mode) (subs : List (Tag × Field)) (body : Bytes) (isVar : Bool)
    (hmode : mode.allocOK = true) (hsub : ∀ p ∈ subs, p.2.AllocLinear) :
    (compBodyAllocs mode subs body isVar).sum ≤ 144 * body.length + 127 ∧
    ∀ vals r, compBody mode subs body isVar = .ok (vals, r) →
      (compBodyAllocs mode subs body isVar).sum ≤ 144 * r := by
  have hT := unpackTaggedAllocs_sum subs hsub
  unfold compBody compBodyAllocs
  cases mode with

  | bitmapped b =>
    simp only [Mode.allocOK] at hmode
    simp only
    have hB := Bitmap.unpackAllocsA_sum_le b.enc b.pref (Bitmap.reset b.specLen b.auto) body hmode
    cases hbu : Bitmap.unpack b.enc b.pref (Bitmap.reset b.specLen b.auto) body with
    | err => sums; exact ⟨by omega, fun _ _ h => by cases h⟩
    | panic => sums; exact ⟨by omega, fun _ _ h => by cases h⟩
    | ok q =>
      obtain ⟨bm, read⟩ := q
      have hB' := Bitmap.unpackAllocsA_sum_ok _ _ _ _ _ _ hmode hbu
      have hbb := (Bitmap.unpack_ok_bounds _ _ _ _ _ _ hbu).1
      simp only
      sums
      obtain ⟨h1, h2⟩ := bitmapScanAllocs_sum bm (fun tag d => unpackTaggedOpt subs tag d)
        (fun tag d => unpackTaggedAllocs subs tag d) (unpackTaggedOpt_read_le subs)
        (fun tag d => (hT tag d).1) (fun tag d v r h => (hT tag d).2.2 v r h) bm.len 1 body read [] hbb
      exact ⟨by omega, fun vals r h => by have := h2 vals r h; omega⟩
  | tagged t =>
    have hmode' : ∀ p, t.prefUnknown = some p → p.posBinary = true := by
      intro p hp
      simp only [Mode.allocOK, hp] at hmode
      exact hmode
    simp only
    cases henc : t.enc with
    | some enc =>
      simp only
      obtain ⟨h1, h2⟩ := tlvLoopAllocs_sum t enc (enc == Enc.berTag) (lookupField subs)
        (fun tag d => unpackTagged subs tag d) (fun tag d => unpackTaggedAllocs subs tag d) hmode'
        (unpackTagged_read_le subs) (fun tag d => (hT tag d).1) (fun tag d v r h => (hT tag d).2.1 v r h)
        (body.length + 1) body 0 [] (Nat.zero_le _)
      exact ⟨by omega, fun vals r h => by have := h2 vals r h; omega⟩
    | none =>
      simp only
      obtain ⟨h1, h2⟩ := unpackPositionalAllocs_sum subs hsub body isVar 0 [] (Nat.zero_le _)
      exact ⟨by omega, fun vals r h => by have := h2 vals r h; omega⟩

/-- `Field.unpack` of a composite, with the mode dispatch folded into `compBody` -/
theorem Field.unpack_comp (s : CompSpec) (subs : List (Tag × Field)) (data : Bytes) :
    (Field.comp s subs).unpack data =
      match s.pref.decodeLength s.len data with
      | .err => .err []
      | .panic => .panic
      | .ok (dataLen, offset) =>
        if offset > data.length then .panic
        else if dataLen > data.length - offset then .err []
        else
          match compBody s.mode subs ((data.drop offset).take dataLen) (offset != 0) with
          | .err p => .err p
          | .panic => .panic
          | .ok (vals, read) =>
            if dataLen ≠ read then .err [] else .ok (.comp (orderBySpec subs vals), offset + read) := by
  simp only [Field.unpack, compBody]
  rfl

/-- **the log of a composite**: its own length-prefix decode, then — if the announced
length lies inside the input — the log of its body in its mode -/
theorem Field.unpackAllocs_comp (s : CompSpec) (subs : List (Tag × Field)) (data : Bytes) :
    (Field.comp s subs).unpackAllocs data =
      s.pref.decodeAllocs data ++
      match s.pref.decodeLength s.len data with
      | .err => []
      | .panic => []
      | .ok (dataLen, offset) =>
        if offset > data.length then []
        else if dataLen > data.length - offset then []
        else compBodyAllocs s.mode subs ((data.drop offset).take dataLen) (offset != 0) := by
  simp only [Field.unpackAllocs, compBodyAllocs]
  rfl

theorem Field.allocLinear : ∀ (f : Field), f.allocOK = true → f.AllocLinear := by
  apply Field.induction
  · intro s hs
    simp only [Field.allocOK] at hs
    refine ⟨fun d => ?_, fun d v r h => ?_⟩
    · simp only [Field.unpackAllocs]
      have := PrimSpec.unpackAllocs_sum_le s d hs
      omega
    · simp only [Field.unpackAllocs]
      simp only [Field.unpack] at h
      split at h
      · rename_i x hx
        simp only [UR.ok.injEq] at h
        subst h
        have := PrimSpec.unpackAllocs_sum_ok s d v r hs hx
        omega
      · cases h
      · cases h
  · intro s subs ih hs
    simp only [Field.allocOK, Bool.and_eq_true] at hs
    obtain ⟨⟨hp, hmode⟩, hl⟩ := hs
    have hmode' : s.mode.allocOK = true := hmode
    have hsub : ∀ p ∈ subs, p.2.AllocLinear := fun p hp => ih p hp (Field.allocOKList_mem subs hl p hp)
    have key : ∀ d, (Field.unpackAllocs (.comp s subs) d).sum ≤ 144 * d.length + 127 ∧
        ∀ v r, Field.unpack (.comp s subs) d = .ok (v, r) →
          (Field.unpackAllocs (.comp s subs) d).sum ≤ 144 * r := by
      intro d
      rw [Field.unpackAllocs_comp, Field.unpack_comp]
      have hP := Pref.decodeAllocs_sum_le s.pref d
      cases hdl : s.pref.decodeLength s.len d with
      | err => sums; exact ⟨by omega, fun _ _ h => by cases h⟩
      | panic => sums; exact ⟨by omega, fun _ _ h => by cases h⟩
      | ok q =>
        obtain ⟨dataLen, offset⟩ := q
        have hP' := Pref.decodeAllocs_sum_ok _ _ _ _ _ hp hdl
        have hol := decodeLength_read_le _ _ _ _ _ hdl
        have ho2 : ¬ (offset > d.length) := by omega
        simp only [if_neg ho2]
        by_cases hlen : dataLen > d.length - offset
        · simp only [if_pos hlen]; sums; exact ⟨by omega, fun _ _ h => by cases h⟩
        · simp only [if_neg hlen]
          sums
          obtain ⟨h1, h2⟩ := compBodyAllocs_sum s.mode subs ((d.drop offset).take dataLen) (offset != 0)
            hmode' hsub
          simp only [List.length_take, List.length_drop] at h1
          cases hb : compBody s.mode subs ((d.drop offset).take dataLen) (offset != 0) with
          | err p => exact ⟨by omega, fun _ _ h => by cases h⟩
          | panic => exact ⟨by omega, fun _ _ h => by cases h⟩
          | ok w =>
            obtain ⟨vals, read⟩ := w
            have h2' := h2 vals read hb
            simp only
            refine ⟨by omega, ?_⟩
            intro v r h
            split at h
            · cases h
            · simp only [UR.ok.injEq, Prod.mk.injEq] at h
              omega
    exact ⟨fun d => (key d).1, fun d v r h => (key d).2 v r h⟩

/-! ## messages -/

theorem MsgSpec.scanAllocs_sum (spec : MsgSpec) (bm : Bitmap)
    (hf : ∀ p ∈ spec.fields, p.2.AllocLinear) :
    ∀ (remaining i : Nat) (src : Bytes) (off : Nat) (acc : List (Nat × Value)), off ≤ src.length →
      (MsgSpec.scanAllocs spec bm remaining i src off).sum + 144 * off ≤ 144 * src.length + 127 ∧
      ∀ fields r, MsgSpec.scan spec bm remaining i src off acc = .ok (fields, r) →
        (MsgSpec.scanAllocs spec bm remaining i src off).sum + 144 * off ≤ 144 * r := by
  intro remaining
  induction remaining with
  | zero =>
    intro i src off acc ho
    simp only [MsgSpec.scanAllocs, MsgSpec.scan, List.sum_nil]
    refine ⟨by omega, ?_⟩
    intro fields r h
    simp only [UR.ok.injEq, Prod.mk.injEq] at h
    omega
  | succ remaining ih =>
    intro i src off acc ho
    simp only [MsgSpec.scanAllocs, MsgSpec.scan]
    by_cases hpb : bm.isPresenceBit i = true
    · simp only [if_pos hpb]
      exact ih (i + 1) src off acc ho
    · simp only [if_neg hpb]
      by_cases hset : bm.isSet i = true
      · simp only [if_pos hset]
        cases hl : lookupId i spec.fields with
        | none => sums; exact ⟨by omega, fun _ _ h => by cases h⟩
        | some f =>
          simp only
          have ho2 : ¬ (off > src.length) := by omega
          simp only [if_neg ho2]
          obtain ⟨h1, h2⟩ : f.AllocLinear := hf (i, f) (lookupId_mem _ _ _ hl)
          have hA := h1 (src.drop off)
          simp only [List.length_drop] at hA
          cases hu : f.unpack (src.drop off) with
          | err p => sums; exact ⟨by omega, fun _ _ h => by cases h⟩
          | panic => sums; exact ⟨by omega, fun _ _ h => by cases h⟩
          | ok q =>
            obtain ⟨v, read⟩ := q
            have hA' := h2 _ _ _ hu
            have hr' := Field.unpack_read_le f _ v read hu
            simp only [List.length_drop] at hr'
            simp only
            sums
            obtain ⟨ih1, ih2⟩ := ih (i + 1) src (off + read) (acc ++ [(i, v)]) (by omega)
            exact ⟨by omega, fun fields r h => by have := ih2 fields r h; omega⟩
      · simp only [if_neg hset]
        exact ih (i + 1) src off acc ho

theorem MsgSpec.unpackAllocs_sum (spec : MsgSpec) (src : Bytes) (hs : spec.allocOK = true) :
    (spec.unpackAllocs src).sum ≤ 144 * src.length + 127 ∧
    ∀ m r, spec.unpack src = .ok (m, r) → (spec.unpackAllocs src).sum ≤ 144 * r := by
  simp only [MsgSpec.allocOK, Bool.and_eq_true, List.all_eq_true] at hs
  obtain ⟨⟨hmti, hbm⟩, hfl⟩ := hs
  have hf : ∀ p ∈ spec.fields, p.2.AllocLinear := fun p hp => Field.allocLinear p.2 (hfl p hp)
  unfold MsgSpec.unpackAllocs MsgSpec.unpack
  have hM := PrimSpec.unpackAllocs_sum_le spec.mti src hmti
  cases hm : spec.mti.unpack src with
  | err => sums; exact ⟨by omega, fun _ _ h => by cases h⟩
  | panic => sums; exact ⟨by omega, fun _ _ h => by cases h⟩
  | ok q =>
    obtain ⟨mtiV, read⟩ := q
    have hM' := PrimSpec.unpackAllocs_sum_ok _ _ _ _ hmti hm
    have hrl := PrimSpec.unpack_read_le _ _ _ _ hm
    have ho2 : ¬ (read > src.length) := by omega
    simp only [if_neg ho2]
    have hB := Bitmap.unpackAllocsA_sum_le spec.bitmap.enc spec.bitmap.pref
      (Bitmap.reset spec.bitmap.specLen spec.bitmap.auto) (src.drop read) hbm
    simp only [List.length_drop] at hB
    cases hbu : Bitmap.unpack spec.bitmap.enc spec.bitmap.pref
        (Bitmap.reset spec.bitmap.specLen spec.bitmap.auto) (src.drop read) with
    | err => sums; exact ⟨by omega, fun _ _ h => by cases h⟩
    | panic => sums; exact ⟨by omega, fun _ _ h => by cases h⟩
    | ok w =>
      obtain ⟨bm, bread⟩ := w
      have hB' := Bitmap.unpackAllocsA_sum_ok _ _ _ _ _ _ hbm hbu
      have hbb := (Bitmap.unpack_ok_bounds _ _ _ _ _ _ hbu).1
      simp only [List.length_drop] at hbb
      simp only
      sums
      obtain ⟨h1, h2⟩ := MsgSpec.scanAllocs_sum spec bm hf (bm.len - 1) 2 src (read + bread) [] (by omega)
      refine ⟨by omega, ?_⟩
      intro m r h
      cases hsc : MsgSpec.scan spec bm (bm.len - 1) 2 src (read + bread) [] with
      | err p => rw [hsc] at h; cases h
      | panic => rw [hsc] at h; cases h
      | ok z =>
        obtain ⟨fields, off⟩ := z
        rw [hsc] at h
        simp only [UR.ok.injEq, Prod.mk.injEq] at h
        have := h2 fields off hsc
        omega

end Iso8583
