/-
Tactics for the theorems that relate translated condition lists (`Gen/Guards*.lean`) to the
model: the lists are regenerated from the source, so the proofs must not depend on how the source
happens to arrange its checks (`a || b` in one `if` or two, `x > y` or `y < x`, a `switch`, a
hoisted local): `guards_to_prop` turns `(list).any id = true` into the plain proposition the list
denotes — Boolean structure gone, `decide`s gone — and `omega` settles the linear arithmetic.
-/
namespace Iso8583

/-- unfold `.any id` / `.all id` over a literal list of Booleans into a proposition -/
macro "guards_to_prop" : tactic =>
  `(tactic| simp only [List.any_cons, List.any_nil, List.all_cons, List.all_nil, id, Bool.or_false, Bool.false_or,
      Bool.and_true, Bool.true_and, Bool.or_eq_true, Bool.and_eq_true, Bool.not_eq_true', Bool.not_eq_true,
      Bool.or_eq_false_iff, Bool.and_eq_false_imp, decide_eq_true_eq, decide_eq_false_iff_not,
      Bool.not_not, Bool.false_eq_true, Bool.true_eq_false, ne_eq, if_true, if_false, not_true_eq_false, not_false_eq_true,
      and_true, true_and, and_false, false_and, or_true, true_or, or_false, false_or])

/-- the same at a hypothesis -/
macro "guards_to_prop_at" h:ident : tactic =>
  `(tactic| simp only [List.any_cons, List.any_nil, List.all_cons, List.all_nil, id, Bool.or_false, Bool.false_or,
      Bool.and_true, Bool.true_and, Bool.or_eq_true, Bool.and_eq_true, Bool.not_eq_true', Bool.not_eq_true,
      Bool.or_eq_false_iff, Bool.and_eq_false_imp, decide_eq_true_eq, decide_eq_false_iff_not,
      Bool.not_not, Bool.false_eq_true, Bool.true_eq_false, ne_eq, if_true, if_false, not_true_eq_false, not_false_eq_true,
      and_true, true_and, and_false, false_and, or_true, true_or, or_false, false_or] at $h:ident)

/-- close what `guards_to_prop` left: linear arithmetic, or nothing but propositional residue -/
macro "guards_done" : tactic =>
  `(tactic| first | omega | (simp; done) | (simp <;> omega) | (constructor <;> intro h <;> simp_all <;> omega))

end Iso8583
