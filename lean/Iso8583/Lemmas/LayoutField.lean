/-
Assembly lemmas for C03: the message-level and composite-level bitmap loops of the model
against `bitmapData`, look-ups, and the ordering of data elements.
-/
import Iso8583.Lemmas.LayoutBitmap

namespace Iso8583.Layout
open Iso8583

/-! ### `MsgSpec.setBits` -/

theorem isPresenceBit_set (bm : Bitmap) (n i : Nat) : (bm.set n).isPresenceBit i = bm.isPresenceBit i := by
  unfold Bitmap.isPresenceBit
  rw [set_auto, set_blockLen]

theorem setBits_ok : ∀ (ids done : List Nat) (bm : Bitmap) (k : Nat), Inv bm done k →
    (∀ n ∈ ids, 2 ≤ n) → (∀ n ∈ ids, bm.isPresenceBit n = false) →
    (bm.auto = true ∨ ∀ n ∈ ids, n ≤ k * bm.blockLen * 8) →
    MsgSpec.setBits ids bm = .ok (setAll ids bm) := by
  intro ids
  induction ids with
  | nil => intro _ _ _ _ _ _ _; rfl
  | cons n rest ih =>
    intro done bm k hinv h2 hp hfit
    have hn : 2 ≤ n := h2 n (by simp)
    have hpn : bm.isPresenceBit n = false := hp n (by simp)
    have hfit1 : bm.auto = true ∨ n ≤ k * bm.blockLen * 8 := by
      rcases hfit with h | h
      · exact Or.inl h
      · exact Or.inr (h n (by simp))
    have hset : (bm.set n).isSet n = true :=
      set_isSet_self bm k n hinv.hbl hinv.hk hinv.hlen (by omega) (by rw [hinv.hlen]; exact hfit1)
    have hstep := inv_set bm done k n hinv (by omega) hfit1
    rw [MsgSpec.setBits]
    have hc : (decide (n < 2) || bm.isPresenceBit n) = false := by
      rw [hpn, Bool.or_false, decide_eq_false_iff_not]; omega
    simp only [hc, hset, Bool.not_true, Bool.false_eq_true, ite_false]
    have := ih (done ++ [n]) (bm.set n) _ hstep (fun m hm => h2 m (by simp [hm]))
      (fun m hm => by rw [isPresenceBit_set]; exact hp m (by simp [hm])) (by
        rw [set_auto, set_blockLen]
        rcases hfit with h | h
        · exact Or.inl h
        · right
          intro m hm
          have := h m (by simp [hm])
          have hmono : k * bm.blockLen * 8 ≤ max k ((n - 1) / (bm.blockLen * 8) + 1) * bm.blockLen * 8 := by
            apply Nat.mul_le_mul_right; apply Nat.mul_le_mul_right; exact Nat.le_max_left _ _
          omega)
    rw [this]
    simp [setAll]

theorem setBits_err : ∀ (ids done : List Nat) (bm : Bitmap) (k : Nat), Inv bm done k →
    (∀ n ∈ ids, 2 ≤ n) → (∀ n ∈ ids, bm.isPresenceBit n = false) → bm.auto = false →
    (∃ n ∈ ids, ¬ n ≤ k * bm.blockLen * 8) →
    MsgSpec.setBits ids bm = .err := by
  intro ids
  induction ids with
  | nil => intro _ _ _ _ _ _ _ h; obtain ⟨n, hn, _⟩ := h; cases hn
  | cons n rest ih =>
    intro done bm k hinv h2 hp ha hbad
    have hn : 2 ≤ n := h2 n (by simp)
    have hpn : bm.isPresenceBit n = false := hp n (by simp)
    have hc : (decide (n < 2) || bm.isPresenceBit n) = false := by
      rw [hpn, Bool.or_false, decide_eq_false_iff_not]; omega
    rw [MsgSpec.setBits]
    simp only [hc, Bool.false_eq_true, ite_false]
    by_cases hle : n ≤ k * bm.blockLen * 8
    · have hset : (bm.set n).isSet n = true :=
        set_isSet_self bm k n hinv.hbl hinv.hk hinv.hlen (by omega) (by rw [hinv.hlen]; exact Or.inr hle)
      have hstep := inv_set bm done k n hinv (by omega) (Or.inr hle)
      have hk' : max k ((n - 1) / (bm.blockLen * 8) + 1) = k := by
        have := kAfter_fits bm.blockLen k hinv.hbl hinv.hk [n] (by simpa using hle)
        simpa [kAfter] using this
      rw [hk'] at hstep
      simp only [hset, Bool.not_true, Bool.false_eq_true, ite_false]
      apply ih (done ++ [n]) (bm.set n) k hstep (fun m hm => h2 m (by simp [hm]))
        (fun m hm => by rw [isPresenceBit_set]; exact hp m (by simp [hm])) (by rw [set_auto]; exact ha)
      rw [set_blockLen]
      obtain ⟨m, hm, hmb⟩ := hbad
      rcases List.mem_cons.mp hm with rfl | hm
      · exact absurd hle hmb
      · exact ⟨m, hm, hmb⟩
    · have hset : (bm.set n).isSet n = false :=
        set_isSet_overflow bm n (by rw [hinv.hlen]; omega) ha
      simp only [hset, Bool.not_false, ite_true]

/-- the first loop of `Message.pack` against the reference bitmap -/
theorem setBits_layout (specLen : Nat) (auto : Bool) (ids : List Nat) (h2 : ∀ n ∈ ids, 2 ≤ n)
    (hp : ∀ n ∈ ids, (Bitmap.reset specLen auto).isPresenceBit n = false) :
    match bitmapData specLen auto ids with
    | some D => ∃ bm, MsgSpec.setBits ids (Bitmap.reset specLen auto) = .ok bm ∧ bm.data = D ∧
        bm.blockLen = Bitmap.blockLenOf specLen ∧ bm.auto = auto
    | none => MsgSpec.setBits ids (Bitmap.reset specLen auto) = .err := by
  have h1 : ∀ n ∈ ids, 1 ≤ n := fun n hn => by have := h2 n hn; omega
  by_cases hfit : auto = true ∨ ∀ n ∈ ids, n ≤ Bitmap.blockLenOf specLen * 8
  · rw [setAll_reset_data specLen auto ids h1 hfit]
    refine ⟨setAll ids (Bitmap.reset specLen auto), ?_, rfl, by rw [setAll_blockLen]; rfl,
      by rw [setAll_auto]; rfl⟩
    exact setBits_ok ids [] _ 1 (inv_reset specLen auto) h2 hp (by
      rw [reset_auto, reset_blockLen, Nat.one_mul]; exact hfit)
  · have ha : auto = false := by
      cases auto with
      | true => exact absurd (Or.inl rfl) hfit
      | false => rfl
    subst ha
    have hbad : ∃ n ∈ ids, ¬ n ≤ Bitmap.blockLenOf specLen * 8 := by
      apply Classical.byContradiction
      intro hc
      apply hfit
      right
      intro n hn
      apply Classical.byContradiction
      intro hle
      exact hc ⟨n, hn, hle⟩
    have hnone : bitmapData specLen false ids = none := by
      apply bitmapData_fixed_none
      obtain ⟨n, hn, hb⟩ := hbad
      exact ⟨n, hn, fun h => hb h.2⟩
    rw [hnone]
    exact setBits_err ids [] _ 1 (inv_reset specLen false) h2 hp rfl (by
      rw [reset_blockLen, Nat.one_mul]; exact hbad)

/-! ### look-ups -/

theorem find?_eq_lookup {α : Type} (t : Tag) (kvs : List (Tag × α)) : find? t kvs = lookup t kvs := by
  induction kvs with
  | nil => rfl
  | cons p rest ih =>
    obtain ⟨k, v⟩ := p
    unfold find? at ih ⊢
    simp only [List.find?_cons, lookup]
    by_cases h : k = t
    · subst h; simp
    · have : (k == t) = false := by simpa using h
      simp only [this, h, ite_false]
      exact ih

theorem find?_eq_lookupId {α : Type} (i : Nat) (kvs : List (Nat × α)) : find? i kvs = lookupId i kvs := by
  induction kvs with
  | nil => rfl
  | cons p rest ih =>
    obtain ⟨k, v⟩ := p
    unfold find? at ih ⊢
    simp only [List.find?_cons, lookupId]
    by_cases h : k = i
    · subst h; simp
    · have : (k == i) = false := by simpa using h
      simp only [this, h, ite_false]
      exact ih

/-! ### tagged / positional subfield runs -/

theorem toOpt_match3 (a b c : Res Bytes) :
    toOpt (match a with
      | .ok x =>
        match b with
        | .ok y =>
          match c with
          | .ok z => Res.ok (x ++ y ++ z)
          | .err => .err
          | .panic => .panic
        | .err => .err
        | .panic => .panic
      | .err => .err
      | .panic => .panic) =
    match toOpt a, toOpt b, toOpt c with
    | some x, some y, some z => some (x ++ y ++ z)
    | _, _, _ => none := by
  cases a <;> cases b <;> cases c <;> rfl

theorem packByTag_layout (t : TagSpec) : ∀ (subs : List (Tag × Field)) (vals : List (Tag × Value)),
    (∀ p ∈ subs, t.enc ≠ some .ebcdic1047) →
    (∀ p ∈ subs, ∀ v, lookup p.1 vals = some v → toOpt (p.2.pack v) = encodeField p.2 v) →
    toOpt (packByTag t subs vals) = encodeSubfields t.enc t.pad t.len subs vals := by
  intro subs
  induction subs with
  | nil => intro vals _ _; simp only [packByTag, encodeSubfields, toOpt_ok]
  | cons p rest ih =>
    intro vals henc hsub
    obtain ⟨tag, f⟩ := p
    have ihr := ih vals (fun q hq => henc q (by simp [hq])) (fun q hq => hsub q (by simp [hq]))
    simp only [packByTag, encodeSubfields, find?_eq_lookup]
    cases hl : lookup tag vals with
    | none => exact ihr
    | some v =>
      have hB := hsub (tag, f) (by simp) v hl
      cases he : t.enc with
      | none =>
        simp only []
        refine (toOpt_match3 (Res.ok []) (f.pack v) (packByTag t rest vals)).trans ?_
        rw [hB, ihr, he]; rfl
      | some e =>
        simp only []
        refine (toOpt_match3 (encodeTag t e tag) (f.pack v) (packByTag t rest vals)).trans ?_
        have hA : toOpt (encodeTag t e tag) = encodeText e (padded t.pad tag t.len) := by
          simp only [encodeTag, pad_eq]
          rw [encode_eq e _ (fun h => absurd (by rw [he, h]) (henc (tag, f) (by simp)))]
          exact toOpt_ofOption _
        rw [hA, hB, ihr, he]; rfl

/-! ### bitmapped composites -/

theorem mapM?_eq_eachChar? {α : Type} (f : Byte → Option α) (s : Bytes) : mapM? f s = eachChar? f s := by
  induction s with
  | nil => rfl
  | cons c cs ih =>
    simp only [mapM?, eachChar?, ih]
    cases f c <;> cases eachChar? f cs <;> rfl

theorem ofDigits_eq_foldl (ds : List Nat) : ofDigits 10 ds = ds.foldl (fun acc d => 10 * acc + d) 0 := by
  unfold ofDigits
  apply foldl_congr_mem
  intro x _ b
  rw [Nat.mul_comm]

/-- a canonical decimal tag denotes the same number for the model (`strconv.Atoi`) and for
the reference -/
theorem numeral_atoi (t : Tag) (h : canonicalDecimal t = true) :
    ∃ v : Nat, numeral? t = some v ∧ atoi? t = some (v : Int) := by
  simp only [canonicalDecimal, Bool.and_eq_true] at h
  obtain ⟨⟨hdig, hne⟩, _⟩ := h
  cases t with
  | nil => simp at hne
  | cons c rest =>
    have hc : isDigitB c = true := by
      rw [List.all_eq_true] at hdig; exact hdig c (by simp)
    simp only [isDigitB, decide_eq_true_eq] at hc
    have h43 : ¬ c = 43 := by
      intro e; rw [e] at hc; revert hc; decide
    have h45 : ¬ c = 45 := by
      intro e; rw [e] at hc; revert hc; decide
    have hall : ∀ x ∈ c :: rest, decCharVal? x ≠ none := by
      intro x hx
      rw [List.all_eq_true] at hdig
      have := hdig x hx
      simp only [isDigitB, decide_eq_true_eq] at this
      simp [decCharVal?, this]
    have hsome : ∃ ds, eachChar? decCharVal? (c :: rest) = some ds := by
      generalize c :: rest = s at hall
      induction s with
      | nil => exact ⟨[], rfl⟩
      | cons x xs ih =>
        obtain ⟨ds, hds⟩ := ih (fun y hy => hall y (by simp [hy]))
        cases hx : decCharVal? x with
        | none => exact absurd hx (hall x (by simp))
        | some v => exact ⟨v :: ds, by simp [eachChar?, hx, hds]⟩
    obtain ⟨ds, hds⟩ := hsome
    refine ⟨ds.foldl (fun acc d => 10 * acc + d) 0, ?_, ?_⟩
    · simp [numeral?, hds]
    · unfold atoi?
      simp only [h43, h45, ite_false]
      have : mapM? decVal? (c :: rest) = some ds := by
        rw [mapM?_eq_eachChar?]; exact hds
      rw [this, Option.map_some, ofDigits_eq_foldl]

theorem toOpt_match2pair (a : Res Bytes) (b : Res (Bitmap × Bytes)) :
    toOpt (match a with
      | .ok pb =>
        match b with
        | .ok (bm'', more) => Res.ok (bm'', pb ++ more)
        | .err => .err
        | .panic => .panic
      | .err => .err
      | .panic => .panic) =
    match toOpt a, toOpt b with
    | some pb, some (bm'', more) => some (bm'', pb ++ more)
    | _, _ => none := by
  cases a <;> cases b <;> rfl

theorem packByBitmap_layout : ∀ (subs : List (Tag × Field)) (vals : List (Tag × Value)) (bm : Bitmap)
    (done : List Nat), Inv bm done 1 → bm.auto = false →
    (∀ p ∈ subs, ∃ v : Nat, numeral? p.1 = some v ∧ atoi? p.1 = some (v : Int) ∧ 1 ≤ v ∧ v ≤ bm.blockLen * 8) →
    (∀ p ∈ subs, ∀ v, lookup p.1 vals = some v → toOpt (p.2.pack v) = encodeField p.2 v) →
    ∃ ids, setNumbers subs vals = some ids ∧ (∀ n ∈ ids, 1 ≤ n ∧ n ≤ bm.blockLen * 8) ∧
      toOpt (packByBitmap subs vals bm) =
        (encodeSubfields none .nil 0 subs vals).map (fun fs => (setAll ids bm, fs)) := by
  intro subs
  induction subs with
  | nil =>
    intro vals bm done _ _ _ _
    exact ⟨[], rfl, by simp, by simp only [packByBitmap, encodeSubfields, toOpt_ok]; rfl⟩
  | cons p rest ih =>
    intro vals bm done hinv ha htags hsub
    obtain ⟨tag, f⟩ := p
    have htags' : ∀ q ∈ rest, ∃ v : Nat, numeral? q.1 = some v ∧ atoi? q.1 = some (v : Int) ∧ 1 ≤ v ∧
        v ≤ bm.blockLen * 8 := fun q hq => htags q (by simp [hq])
    have hsub' : ∀ q ∈ rest, ∀ v, lookup q.1 vals = some v → toOpt (q.2.pack v) = encodeField q.2 v :=
      fun q hq => hsub q (by simp [hq])
    simp only [packByBitmap, encodeSubfields, setNumbers, find?_eq_lookup]
    cases hl : lookup tag vals with
    | none => exact ih vals bm done hinv ha htags' hsub'
    | some v =>
      obtain ⟨n, hnum, hatoi, hn1, hn2⟩ := htags (tag, f) (by simp)
      simp only at hnum hatoi
      have hB := hsub (tag, f) (by simp) v hl
      simp only at hB
      have hpos : ¬ ((n : Int) ≤ 0) := by omega
      have hfit : n ≤ 1 * bm.blockLen * 8 := by omega
      have hset : (bm.set n).isSet n = true :=
        set_isSet_self bm 1 n hinv.hbl hinv.hk hinv.hlen hn1 (by rw [hinv.hlen]; exact Or.inr hfit)
      have hstep := inv_set bm done 1 n hinv hn1 (Or.inr hfit)
      have hk' : max 1 ((n - 1) / (bm.blockLen * 8) + 1) = 1 := by
        have := kAfter_fits bm.blockLen 1 hinv.hbl (Nat.le_refl 1) [n] (by simpa using hfit)
        simpa [kAfter] using this
      rw [hk'] at hstep
      obtain ⟨ids, hids, hrange, hrest⟩ := ih vals (bm.set n) (done ++ [n]) hstep (by rw [set_auto]; exact ha)
        (by rw [set_blockLen]; exact htags') hsub'
      rw [set_blockLen] at hrange
      refine ⟨n :: ids, ?_, ?_, ?_⟩
      · simp only [hnum, hids]
      · intro m hm
        rcases List.mem_cons.mp hm with rfl | hm
        · exact ⟨hn1, hn2⟩
        · exact hrange m hm
      · simp only [hatoi, Int.toNat_natCast, hpos, ite_false, hset, Bool.not_true, Bool.false_eq_true]
        refine (toOpt_match2pair (f.pack v) (packByBitmap rest vals (bm.set n))).trans ?_
        rw [hB, hrest]
        cases encodeField f v <;> cases encodeSubfields none Pad.nil 0 rest vals <;> simp [setAll]

/-! ### the order of the data elements -/

theorem insertSorted_perm {α : Type} (less : α → α → Bool) (x : α) (l : List α) :
    (insertSorted less x l).Perm (x :: l) := by
  induction l with
  | nil => exact List.Perm.refl _
  | cons y ys ih =>
    simp only [insertSorted]
    split
    · exact List.Perm.refl _
    · exact (List.Perm.cons y ih).trans (List.Perm.swap x y ys)

theorem sortBy_perm {α : Type} (less : α → α → Bool) (l : List α) : (sortBy less l).Perm l := by
  induction l with
  | nil => exact List.Perm.refl _
  | cons x xs ih =>
    simp only [sortBy]
    exact (insertSorted_perm less x _).trans (List.Perm.cons x ih)

/-- strictly ascending keys -/
def Asc {α : Type} (l : List (Nat × α)) : Prop := l.Pairwise (fun a b => a.1 < b.1)

/-- pairwise different keys -/
def DistinctKeys {α : Type} (l : List (Nat × α)) : Prop := l.Pairwise (fun a b => a.1 ≠ b.1)

theorem Asc.distinct {α : Type} {l : List (Nat × α)} (h : Asc l) : DistinctKeys l :=
  List.Pairwise.imp (fun h => Nat.ne_of_lt h) h

theorem distinct_of_allDistinct {α : Type} : ∀ (l : List (Nat × α)),
    allDistinct (l.map (·.1)) = true → DistinctKeys l := by
  intro l
  induction l with
  | nil => intro _; exact List.Pairwise.nil
  | cons x xs ih =>
    intro h
    simp only [List.map_cons, allDistinct, Bool.and_eq_true, Bool.not_eq_true'] at h
    refine List.Pairwise.cons ?_ (ih h.2)
    intro y hy heq
    have hmem : x.1 ∈ xs.map (·.1) := by rw [heq]; exact List.mem_map_of_mem hy
    have := h.1
    rw [List.contains_eq_mem, decide_eq_false_iff_not] at this
    exact this hmem

theorem insertSorted_asc {α : Type} (x : Nat × α) : ∀ (l : List (Nat × α)), Asc l →
    (∀ y ∈ l, y.1 ≠ x.1) → Asc (insertSorted (fun a b => decide (a.1 < b.1)) x l) := by
  intro l
  induction l with
  | nil => intro _ _; exact List.pairwise_singleton _ _
  | cons y ys ih =>
    intro hasc hne
    have hy : y.1 ≠ x.1 := hne y (by simp)
    obtain ⟨hyall, hys⟩ := List.pairwise_cons.mp hasc
    simp only [insertSorted]
    by_cases hlt : x.1 < y.1
    · simp only [hlt, decide_true, ite_true]
      refine List.Pairwise.cons ?_ hasc
      intro z hz
      rcases List.mem_cons.mp hz with rfl | hz
      · exact hlt
      · exact Nat.lt_trans hlt (hyall z hz)
    · simp only [hlt, decide_false, Bool.false_eq_true, ite_false]
      refine List.Pairwise.cons ?_ (ih hys (fun z hz => hne z (by simp [hz])))
      intro z hz
      have := (insertSorted_perm _ x ys).mem_iff.mp hz
      rcases List.mem_cons.mp this with rfl | hz
      · omega
      · exact hyall z hz

theorem sortBy_asc {α : Type} : ∀ (l : List (Nat × α)), DistinctKeys l →
    Asc (sortBy (fun a b => decide (a.1 < b.1)) l) := by
  intro l
  induction l with
  | nil => intro _; exact List.Pairwise.nil
  | cons x xs ih =>
    intro h
    obtain ⟨hx, hxs⟩ := List.pairwise_cons.mp h
    simp only [sortBy]
    apply insertSorted_asc x _ (ih hxs)
    intro y hy
    have := (sortBy_perm _ xs).mem_iff.mp hy
    exact fun e => hx y this e.symm

theorem lookupId_eq_some_iff {α : Type} (i : Nat) (v : α) : ∀ (l : List (Nat × α)), DistinctKeys l →
    (lookupId i l = some v ↔ (i, v) ∈ l) := by
  intro l
  induction l with
  | nil => intro _; simp [lookupId]
  | cons p rest ih =>
    intro h
    obtain ⟨k, w⟩ := p
    obtain ⟨hp, hrest⟩ := List.pairwise_cons.mp h
    simp only [lookupId]
    by_cases hk : k = i
    · subst hk
      simp only [ite_true, List.mem_cons, Prod.mk.injEq, true_and, Option.some.injEq]
      constructor
      · intro e; exact Or.inl e.symm
      · intro e
        rcases e with e | e
        · exact e.symm
        · exact absurd rfl (hp (k, v) e)
    · simp only [hk, ite_false, ih hrest, List.mem_cons, Prod.mk.injEq]
      constructor
      · intro e; exact Or.inr e
      · intro e
        rcases e with e | e
        · exact absurd e.1.symm hk
        · exact e

theorem lookupId_sortBy {α : Type} (i : Nat) (l : List (Nat × α)) (h : DistinctKeys l) :
    lookupId i (sortBy (fun a b => decide (a.1 < b.1)) l) = lookupId i l := by
  apply Option.ext
  intro v
  rw [lookupId_eq_some_iff i v _ (sortBy_asc l h).distinct, lookupId_eq_some_iff i v _ h]
  exact (sortBy_perm _ l).mem_iff

/-- the reference form of one data element -/
def elemRef (spec : MsgSpec) (i : Nat) (v : Value) : Option Bytes :=
  match find? i spec.fields with
  | none => none
  | some f => encodeField f v

/-- the reference forms of a list of data elements, concatenated in list order -/
def elemsRef (spec : MsgSpec) : List (Nat × Value) → Option Bytes
  | [] => some []
  | (i, v) :: rest =>
    match elemRef spec i v, elemsRef spec rest with
    | some a, some b => some (a ++ b)
    | _, _ => none

/-- `encodeElements` only looks at the range it enumerates -/
theorem encodeElements_congr (spec : MsgSpec) (m m' : Msg) : ∀ (c lo : Nat),
    (∀ i, lo ≤ i → i < lo + c → find? i m.fields = find? i m'.fields) →
    encodeElements spec m c lo = encodeElements spec m' c lo := by
  intro c
  induction c with
  | zero => intro lo _; rfl
  | succ c ih =>
    intro lo h
    simp only [encodeElements]
    rw [h lo (Nat.le_refl _) (by omega), ih (lo + 1) (fun i h1 h2 => h i (by omega) (by omega))]

theorem encodeElements_empty (spec : MsgSpec) (m : Msg) : ∀ (c lo : Nat),
    (∀ i, lo ≤ i → i < lo + c → find? i m.fields = none) → encodeElements spec m c lo = some [] := by
  intro c
  induction c with
  | zero => intro lo _; rfl
  | succ c ih =>
    intro lo h
    simp only [encodeElements]
    rw [h lo (Nat.le_refl _) (by omega)]
    exact ih (lo + 1) (fun i h1 h2 => h i (by omega) (by omega))

theorem lookupId_none_of_not_mem {α : Type} (i : Nat) : ∀ (l : List (Nat × α)),
    (∀ p ∈ l, p.1 ≠ i) → lookupId i l = none := by
  intro l
  induction l with
  | nil => intro _; rfl
  | cons p rest ih =>
    intro h
    obtain ⟨k, w⟩ := p
    have hk : ¬ k = i := h (k, w) (by simp)
    simp only [lookupId, hk, ite_false]
    exact ih (fun q hq => h q (by simp [hq]))

/-- enumerating an id range and looking each id up visits an ascending list in list order -/
theorem encodeElements_asc (spec : MsgSpec) (mti : Option Value) : ∀ (c lo : Nat) (L : List (Nat × Value)),
    Asc L → (∀ p ∈ L, lo ≤ p.1 ∧ p.1 < lo + c) →
    encodeElements spec { mti := mti, fields := L } c lo = elemsRef spec L := by
  intro c
  induction c with
  | zero =>
    intro lo L _ hr
    cases L with
    | nil => rfl
    | cons p rest => have := hr p (by simp); omega
  | succ c ih =>
    intro lo L hasc hr
    cases L with
    | nil =>
      exact encodeElements_empty spec _ _ _ (fun i _ _ => rfl)
    | cons p rest =>
      obtain ⟨k, v⟩ := p
      obtain ⟨hk, hrest⟩ := List.pairwise_cons.mp hasc
      have hkr := hr (k, v) (by simp)
      simp only at hkr
      simp only [encodeElements]
      by_cases hlo : k = lo
      · subst hlo
        have hfind : find? k ((k, v) :: rest) = some v := by
          rw [find?_eq_lookupId]; simp [lookupId]
        rw [hfind]
        simp only [elemsRef, elemRef]
        have hcongr : encodeElements spec { mti := mti, fields := (k, v) :: rest } c (k + 1) =
            encodeElements spec { mti := mti, fields := rest } c (k + 1) := by
          apply encodeElements_congr
          intro i h1 _
          rw [find?_eq_lookupId, find?_eq_lookupId]
          have : ¬ k = i := by omega
          simp [lookupId, this]
        rw [hcongr, ih (k + 1) rest hrest (fun q hq => by
          have h1 := hk q hq
          have h2 := hr q (by simp [hq])
          simp only at h1
          omega)]
        cases find? k spec.fields <;> rfl
      · have hfind : find? lo ((k, v) :: rest) = none := by
          rw [find?_eq_lookupId]
          apply lookupId_none_of_not_mem
          intro q hq
          rcases List.mem_cons.mp hq with rfl | hq
          · exact hlo
          · have := hk q hq
            simp only at this
            omega
        rw [hfind]
        exact ih (lo + 1) ((k, v) :: rest) hasc (fun q hq => by
          rcases List.mem_cons.mp hq with rfl | hq'
          · simp only; omega
          · have h1 := hk q hq'
            have h2 := hr q hq
            simp only at h1
            omega)

theorem toOpt_match2 (a b : Res Bytes) :
    toOpt (match a with
      | .ok x =>
        match b with
        | .ok y => Res.ok (x ++ y)
        | .err => .err
        | .panic => .panic
      | .err => .err
      | .panic => .panic) =
    match toOpt a, toOpt b with
    | some x, some y => some (x ++ y)
    | _, _ => none := by
  cases a <;> cases b <;> rfl

/-- the second loop of `Message.pack` over any list of elements -/
theorem packFields_layout (spec : MsgSpec) (bm : Bitmap) : ∀ (L : List (Nat × Value)),
    (∀ p ∈ L, bm.isPresenceBit p.1 = false) →
    (∀ p ∈ L, ∀ f, lookupId p.1 spec.fields = some f → toOpt (f.pack p.2) = encodeField f p.2) →
    toOpt (MsgSpec.packFields spec bm L) = elemsRef spec L := by
  intro L
  induction L with
  | nil => intro _ _; rfl
  | cons p rest ih =>
    intro hp hf
    obtain ⟨i, v⟩ := p
    have hpi : bm.isPresenceBit i = false := hp (i, v) (by simp)
    have ihr := ih (fun q hq => hp q (by simp [hq])) (fun q hq => hf q (by simp [hq]))
    simp only [MsgSpec.packFields, hpi, Bool.false_eq_true, ite_false, elemsRef, elemRef, find?_eq_lookupId]
    cases hl : lookupId i spec.fields with
    | none => rfl
    | some f =>
      simp only []
      refine (toOpt_match2 (f.pack v) (MsgSpec.packFields spec bm rest)).trans ?_
      rw [hf (i, v) (by simp) f hl, ihr]

theorem le_foldl_max : ∀ (l : List Nat) (a : Nat), a ≤ l.foldl max a ∧ ∀ x ∈ l, x ≤ l.foldl max a := by
  intro l
  induction l with
  | nil => intro a; exact ⟨Nat.le_refl _, by simp⟩
  | cons y ys ih =>
    intro a
    simp only [List.foldl_cons]
    obtain ⟨h1, h2⟩ := ih (max a y)
    refine ⟨Nat.le_trans (Nat.le_max_left _ _) h1, ?_⟩
    intro x hx
    rcases List.mem_cons.mp hx with rfl | hx
    · exact Nat.le_trans (Nat.le_max_right _ _) h1
    · exact h2 x hx

/-! ### what coherence and the value domain give for composites -/

theorem coherentSubs_mem : ∀ (subs : List (Tag × Field)) (pos : Bool), Field.coherentSubs subs pos = true →
    ∀ p ∈ subs, ∃ lp, p.2.coherent lp = true := by
  intro subs
  induction subs with
  | nil => intro _ _ p hp; cases hp
  | cons q rest ih =>
    intro pos h p hp
    obtain ⟨t, f⟩ := q
    cases rest with
    | nil =>
      simp only [Field.coherentSubs] at h
      have : p = (t, f) := by simpa using hp
      subst this
      exact ⟨pos, h⟩
    | cons r rest' =>
      simp only [Field.coherentSubs, Bool.and_eq_true] at h
      rcases List.mem_cons.mp hp with rfl | hp
      · exact ⟨false, h.1⟩
      · exact ih pos h.2 p hp

theorem inDomainSubs_mem : ∀ (subs : List (Tag × Field)) (vals : List (Tag × Value)),
    Field.inDomainSubs subs vals = true →
    ∀ p ∈ subs, ∀ v, lookup p.1 vals = some v → p.2.inDomain v = true := by
  intro subs
  induction subs with
  | nil => intro _ _ p hp; cases hp
  | cons q rest ih =>
    intro vals h p hp v hv
    obtain ⟨t, f⟩ := q
    simp only [Field.inDomainSubs, Bool.and_eq_true] at h
    rcases List.mem_cons.mp hp with rfl | hp
    · have := h.1
      simp only at hv
      rw [hv] at this
      exact this
    · exact ih vals h.2 p hp v hv

theorem comp_inDomain_subs (s : CompSpec) (subs : List (Tag × Field)) (vals : List (Tag × Value))
    (h : (Field.comp s subs).inDomain (.comp vals) = true) : Field.inDomainSubs subs vals = true := by
  simp only [Field.inDomain, Bool.and_eq_true] at h
  conj_find h

theorem comp_coherent_pref (s : CompSpec) (subs : List (Tag × Field)) (lp : Bool)
    (h : (Field.comp s subs).coherent lp = true) : s.pref.exportedB = true := by
  simp only [Field.coherent, Bool.and_eq_true] at h
  conj_find h

theorem comp_coherent_tagged (s : CompSpec) (subs : List (Tag × Field)) (lp : Bool) (t : TagSpec)
    (hm : s.mode = .tagged t) (h : (Field.comp s subs).coherent lp = true) :
    (∃ pos, Field.coherentSubs subs pos = true) ∧ (∀ p ∈ subs, t.enc ≠ some .ebcdic1047) := by
  simp only [Field.coherent, Bool.and_eq_true, hm] at h
  have htag : (subs.all fun p => t.tagOK p.1) = true := by conj_find h
  constructor
  · cases he : t.enc with
    | none =>
      simp only [he] at h
      exact ⟨true, by conj_find h⟩
    | some e =>
      simp only [he, Bool.and_eq_true] at h
      exact ⟨false, by conj_find h⟩
  · intro p hp he
    rw [List.all_eq_true] at htag
    have := htag p hp
    simp [TagSpec.tagOK, he, Enc.accepts] at this

theorem comp_coherent_bitmapped (s : CompSpec) (subs : List (Tag × Field)) (lp : Bool) (b : BitmapSpec)
    (hm : s.mode = .bitmapped b) (h : (Field.comp s subs).coherent lp = true) :
    b.auto = false ∧ (b.enc = .binary ∨ b.enc = .bytesToHex) ∧ Field.coherentSubs subs false = true ∧
    (∀ p ∈ subs, canonicalDecimal p.1 = true ∧
      ∀ v : Int, atoi? p.1 = some v → 1 ≤ v ∧ v ≤ 8 * (Bitmap.blockLenOf b.specLen : Nat)) := by
  simp only [Field.coherent, Bool.and_eq_true, hm] at h
  have hauto : (!b.auto) = true := by conj_find h
  have hsubs : Field.coherentSubs subs false = true := by conj_find h
  have henc : (match b.enc, b.pref with
      | .binary, _ => true
      | .bytesToHex, _ => true
      | _, _ => false) = true := by conj_find h
  have htags : (subs.all fun p => canonicalDecimal p.1 &&
      (match atoi? p.1 with
       | some v => decide (1 ≤ v ∧ v ≤ 8 * Bitmap.blockLenOf b.specLen)
       | none => false)) = true := by conj_find h
  refine ⟨by simpa using hauto, ?_, hsubs, ?_⟩
  · cases he : b.enc <;> simp [he] at henc ⊢
  · intro p hp
    rw [List.all_eq_true] at htags
    have := htags p hp
    simp only [Bool.and_eq_true] at this
    refine ⟨this.1, ?_⟩
    intro v hv
    have h2 := this.2
    rw [hv] at h2
    simpa using h2

/-! ### fields, by induction over the spec tree -/

theorem toOpt_prefixed (r : Res Bytes) (p : Pref) (len : Nat) (hp : p.exportedB = true) :
    toOpt (match r with
      | .ok packed =>
        match p.encodeLength len packed.length with
        | .ok pre => Res.ok (pre ++ packed)
        | .err => .err
        | .panic => .panic
      | .err => .err
      | .panic => .panic) =
    match toOpt r with
    | none => none
    | some body =>
      match lengthPrefix p len body.length with
      | some pre => some (pre ++ body)
      | none => none := by
  cases r with
  | ok packed =>
    simp only [toOpt_ok, encodeLength_eq p len _ hp]
    cases lengthPrefix p len packed.length <;> rfl
  | err => rfl
  | panic => rfl

/-- the motive of the induction: `Field.Pack` of the model is the reference layout -/
def PackIsLayout (f : Field) : Prop :=
  ∀ (v : Value) (lp : Bool), f.coherent lp = true → f.inDomain v = true →
    toOpt (f.pack v) = encodeField f v

theorem comp_tagged_layout (s : CompSpec) (subs : List (Tag × Field)) (t : TagSpec) (hm : s.mode = .tagged t)
    (ih : ∀ p ∈ subs, PackIsLayout p.2) : PackIsLayout (.comp s subs) := by
  intro v lp hc hd
  cases v with
  | comp vals =>
    obtain ⟨⟨pos, hcs⟩, henc⟩ := comp_coherent_tagged s subs lp t hm hc
    have hpref := comp_coherent_pref s subs lp hc
    have hds := comp_inDomain_subs s subs vals hd
    have hsubs : ∀ p ∈ subs, ∀ v, lookup p.1 vals = some v → toOpt (p.2.pack v) = encodeField p.2 v := by
      intro p hp v hv
      obtain ⟨lp', hc'⟩ := coherentSubs_mem subs pos hcs p hp
      exact ih p hp v lp' hc' (inDomainSubs_mem subs vals hds p hp v hv)
    simp only [Field.pack, encodeField, hm]
    refine (toOpt_prefixed (packByTag t subs vals) s.pref s.len hpref).trans ?_
    rw [packByTag_layout t subs vals henc hsubs]
    cases encodeSubfields t.enc t.pad t.len subs vals <;> rfl
  | str b => simp [Field.inDomain] at hd
  | num i => simp [Field.inDomain] at hd
  | bin b => simp [Field.inDomain] at hd
  | hexv t => simp [Field.inDomain] at hd

theorem comp_bitmapped_layout (s : CompSpec) (subs : List (Tag × Field)) (b : BitmapSpec)
    (hm : s.mode = .bitmapped b) (ih : ∀ p ∈ subs, PackIsLayout p.2) : PackIsLayout (.comp s subs) := by
  intro v lp hc hd
  cases v with
  | comp vals =>
    obtain ⟨hauto, henc, hcs, htags⟩ := comp_coherent_bitmapped s subs lp b hm hc
    have hpref := comp_coherent_pref s subs lp hc
    have hds := comp_inDomain_subs s subs vals hd
    have hsubs : ∀ p ∈ subs, ∀ v, lookup p.1 vals = some v → toOpt (p.2.pack v) = encodeField p.2 v := by
      intro p hp v hv
      obtain ⟨lp', hc'⟩ := coherentSubs_mem subs false hcs p hp
      exact ih p hp v lp' hc' (inDomainSubs_mem subs vals hds p hp v hv)
    have hnum : ∀ p ∈ subs, ∃ v : Nat, numeral? p.1 = some v ∧ atoi? p.1 = some (v : Int) ∧ 1 ≤ v ∧
        v ≤ (Bitmap.reset b.specLen b.auto).blockLen * 8 := by
      intro p hp
      obtain ⟨hcd, hr⟩ := htags p hp
      obtain ⟨n, h1, h2⟩ := numeral_atoi p.1 hcd
      have := hr _ h2
      rw [reset_blockLen]
      exact ⟨n, h1, h2, by omega, by omega⟩
    obtain ⟨ids, hids, hrange, hpk⟩ := packByBitmap_layout subs vals (Bitmap.reset b.specLen b.auto) []
      (inv_reset _ _) (by rw [reset_auto]; exact hauto) hnum hsubs
    rw [reset_blockLen] at hrange
    have hdata := setAll_reset_data b.specLen b.auto ids (fun n hn => (hrange n hn).1)
      (Or.inr (fun n hn => (hrange n hn).2))
    have hencA : b.enc = .ebcdic1047 → ∀ c ∈ (setAll ids (Bitmap.reset b.specLen b.auto)).data, c.toNat ≤ 127 := by
      intro he; rcases henc with h | h <;> rw [h] at he <;> cases he
    simp only [Field.pack, encodeField, hm, hids, hdata]
    cases hfs : encodeSubfields none Pad.nil 0 subs vals with
    | none =>
      rw [hfs] at hpk
      have hnone : toOpt (packByBitmap subs vals (Bitmap.reset b.specLen b.auto)) = none := hpk
      cases hr : packByBitmap subs vals (Bitmap.reset b.specLen b.auto) with
      | ok x => rw [hr] at hnone; cases hnone
      | err =>
        simp only [toOpt_err]
        cases encodeText b.enc (setAll ids (Bitmap.reset b.specLen b.auto)).data <;> rfl
      | panic =>
        simp only [toOpt_panic]
        cases encodeText b.enc (setAll ids (Bitmap.reset b.specLen b.auto)).data <;> rfl
    | some fs =>
      rw [hfs] at hpk
      have hok : packByBitmap subs vals (Bitmap.reset b.specLen b.auto) =
          .ok (setAll ids (Bitmap.reset b.specLen b.auto), fs) := toOpt_eq_some.mp hpk
      rw [hok]
      simp only [Bitmap.pack, encode_eq b.enc _ hencA]
      cases hbm : encodeText b.enc (setAll ids (Bitmap.reset b.specLen b.auto)).data with
      | none => rfl
      | some bmBytes =>
        simp only [Res.ofOption, encodeLength_eq s.pref s.len _ hpref]
        cases lengthPrefix s.pref s.len (bmBytes ++ fs).length <;> rfl
  | str b => simp [Field.inDomain] at hd
  | num i => simp [Field.inDomain] at hd
  | bin b => simp [Field.inDomain] at hd
  | hexv t => simp [Field.inDomain] at hd

/-- **every field, every value**: the model's `Field.Pack` is the reference layout -/
theorem field_pack_eq (f : Field) : PackIsLayout f := by
  apply Field.rec (motive_1 := PackIsLayout) (motive_2 := fun subs => ∀ p ∈ subs, PackIsLayout p.2)
    (motive_3 := fun p => PackIsLayout p.2)
  · intro s v lp hc hd
    obtain ⟨hp, ht2⟩ := prim_coherent_facts (lp := lp) (by simpa [Field.coherent] using hc)
    simp only [Field.pack, encodeField]
    exact prim_layout s v hp ht2 hd
  · intro s subs ih
    cases hm : s.mode with
    | tagged t => exact comp_tagged_layout s subs t hm ih
    | bitmapped b => exact comp_bitmapped_layout s subs b hm ih
  · intro p hp; cases hp
  · intro head tail h3 h2 p hp
    rcases List.mem_cons.mp hp with rfl | hp
    · exact h3
    · exact h2 p hp
  · intro t f h; exact h

end Iso8583.Layout
