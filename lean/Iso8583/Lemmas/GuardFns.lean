/-
`GuardFns.itoaLen` (the meaning given to `len(strconv.Itoa(n))` in translated conditions) is the
length of the model's own decimal rendering `formatInt` (= `strconv.Itoa` / `FormatInt(…, 10)` of
Model/Field.lean, tied to the code by the correspondence channels).
-/
import Iso8583.Spec.GuardFns
import Iso8583.Model.Field

namespace Iso8583.GuardFns
open Iso8583

theorem decDigits_length (f n : Nat) (h : n ≤ f) : (decDigits (f + 1) n).length = decLenF f n := by
  induction f generalizing n with
  | zero =>
    have : n = 0 := by omega
    subst this
    simp [decDigits, decLenF]
  | succ f ih =>
    rw [show decDigits (f + 1 + 1) n = if n < 10 then [n] else decDigits (f + 1) (n / 10) ++ [n % 10] from rfl,
      show decLenF (f + 1) n = if n < 10 then 1 else 1 + decLenF f (n / 10) from rfl]
    by_cases h10 : n < 10
    · simp [h10]
    · have hle : n / 10 ≤ f := by omega
      rw [if_neg h10, if_neg h10, List.length_append, ih (n / 10) hle]
      simp
      omega

theorem natToDec_length (n : Nat) : (natToDec n).length = decLen n := by
  simp only [natToDec, List.length_map, decLen]
  exact decDigits_length n n (Nat.le_refl n)

/-- `len(strconv.Itoa(n))` as used in the translated conditions is the length of the model's
`formatInt n` -/
theorem itoaLen_eq_formatInt_length (n : Int) : itoaLen n = ((formatInt n).length : Int) := by
  unfold itoaLen formatInt
  split
  · rename_i h
    simp only [List.length_cons, natToDec_length]
    have : (-n).toNat = n.natAbs := by omega
    rw [this]
    omega
  · simp only [natToDec_length]

end Iso8583.GuardFns
