/-
Message-level assembly of C01 (round trip), C02 (accepted bytes re-pack) and C19
(truncation attributed to the owning element), *parametric in the field-level statements*:
every theorem here takes the per-field facts (`C01.FieldRoundTrip`, `FieldRepack`,
`FieldPrefixFails`) as hypotheses about the fields of the spec (and its MTI) and lifts them
through `MsgSpec.pack` / `MsgSpec.unpack` (Model/Message.lean): MTI, bitmap (C05), the
`sortBy` of the populated ids and the bit-driven `scan`.
-/
import Iso8583.Spec.Statements
import Iso8583.Props.C05
import Iso8583.Lemmas.Scan

namespace Iso8583.MessageRT
open Iso8583 Bitmap MsgSpec

/-! ## `sortBy` with the comparator of `Message.pack` (ascending ids) -/

/-- the comparator `Message.pack` hands to `sort.Slice` -/
abbrev idLess {α : Type} : (Nat × α) → (Nat × α) → Bool := fun a b => decide (a.1 < b.1)

/-- strictly ascending ids -/
abbrev Asc {α : Type} (l : List (Nat × α)) : Prop := l.Pairwise (fun a b => a.1 < b.1)

theorem insertSorted_perm {α : Type} (less : α → α → Bool) (x : α) :
    ∀ l, (insertSorted less x l).Perm (x :: l) := by
  intro l
  induction l with
  | nil => exact List.Perm.refl _
  | cons y ys ih =>
    simp only [insertSorted]
    split
    · exact List.Perm.refl _
    · exact (List.Perm.cons y ih).trans (List.Perm.swap x y ys)

/-- `sortBy` returns a permutation of its input (any comparator) -/
theorem sortBy_perm {α : Type} (less : α → α → Bool) : ∀ l, (sortBy less l).Perm l := by
  intro l
  induction l with
  | nil => exact List.Perm.refl _
  | cons x xs ih =>
    simp only [sortBy]
    exact (insertSorted_perm less x _).trans (List.Perm.cons x ih)

theorem sortBy_length {α : Type} (less : α → α → Bool) (l : List α) : (sortBy less l).length = l.length :=
  (sortBy_perm less l).length_eq

theorem allDistinct_cons {α : Type} [DecidableEq α] (x : α) (xs : List α) :
    allDistinct (x :: xs) = true ↔ x ∉ xs ∧ allDistinct xs = true := by
  simp [allDistinct]

theorem insertSorted_asc {α : Type} (x : Nat × α) : ∀ l : List (Nat × α), Asc l →
    (∀ y ∈ l, y.1 ≠ x.1) → Asc (insertSorted idLess x l) := by
  intro l
  induction l with
  | nil => intro _ _; simp [insertSorted]
  | cons y ys ih =>
    intro hs hne
    simp only [insertSorted]
    obtain ⟨hy, hys⟩ := List.pairwise_cons.mp hs
    by_cases hlt : x.1 < y.1
    · have hl : idLess x y = true := by simp [hlt]
      rw [if_pos hl]
      refine List.pairwise_cons.mpr ⟨?_, List.pairwise_cons.mpr ⟨hy, hys⟩⟩
      intro z hz
      rcases List.mem_cons.mp hz with rfl | hz
      · exact hlt
      · exact Nat.lt_trans hlt (hy z hz)
    · have hl : ¬ idLess x y = true := by simp [hlt]
      rw [if_neg hl]
      have hyx : y.1 < x.1 := by
        have := hne y (by simp)
        omega
      refine List.pairwise_cons.mpr ⟨?_, ih hys (fun z hz => hne z (by simp [hz]))⟩
      intro z hz
      rcases (mem_insertSorted _ x z ys).mp hz with rfl | hz
      · exact hyx
      · exact hy z hz

/-- on pairwise distinct ids the result of `sortBy` is strictly ascending -/
theorem sortBy_sorted {α : Type} : ∀ l : List (Nat × α), allDistinct (l.map (·.1)) = true →
    Asc (sortBy idLess l) := by
  intro l
  induction l with
  | nil => intro _; simp [sortBy]
  | cons x xs ih =>
    intro hd
    rw [List.map_cons, allDistinct_cons] at hd
    simp only [sortBy]
    refine insertSorted_asc x _ (ih hd.2) ?_
    intro y hy heq
    have hy' := (mem_sortBy _ y xs).mp hy
    exact hd.1 (by rw [← heq]; exact List.mem_map.mpr ⟨y, hy', rfl⟩)

/-- sorting is idempotent: a strictly ascending list is a fixed point of `sortBy` -/
theorem sortBy_of_asc {α : Type} : ∀ l : List (Nat × α), Asc l → sortBy idLess l = l := by
  intro l
  induction l with
  | nil => intro _; rfl
  | cons x xs ih =>
    intro hs
    have hs := List.pairwise_cons.mp hs
    simp only [sortBy, ih hs.2]
    cases xs with
    | nil => rfl
    | cons y ys =>
      have : x.1 < y.1 := hs.1 y (by simp)
      simp [insertSorted, this]

/-- strictly ascending ids are pairwise distinct -/
theorem asc_allDistinct {α : Type} : ∀ l : List (Nat × α), Asc l → allDistinct (l.map (·.1)) = true := by
  intro l
  induction l with
  | nil => intro _; rfl
  | cons x xs ih =>
    intro hs
    have hs := List.pairwise_cons.mp hs
    rw [List.map_cons, allDistinct_cons]
    refine ⟨?_, ih hs.2⟩
    intro hmem
    obtain ⟨y, hy, heq⟩ := List.mem_map.mp hmem
    have := hs.1 y hy
    omega

theorem asc_map_fst {α β : Type} (g : Nat × α → Nat × β) (hg : ∀ p, (g p).1 = p.1) :
    ∀ l : List (Nat × α), Asc l → Asc (l.map g) := by
  intro l hs
  refine List.pairwise_map.mpr ?_
  exact hs.imp (fun {a b} h => by rw [hg a, hg b]; exact h)

/-! ## small facts about the model -/

theorem lookupId_mem {α : Type} (i : Nat) : ∀ (l : List (Nat × α)) (v : α), lookupId i l = some v → (i, v) ∈ l := by
  intro l
  induction l with
  | nil => intro v h; simp [lookupId] at h
  | cons hd rest ih =>
    obtain ⟨k, w⟩ := hd
    intro v h
    simp only [lookupId] at h
    split at h
    · rename_i hk
      simp only [Option.some.injEq] at h
      subst hk; subst h
      exact List.mem_cons_self
    · exact List.mem_cons_of_mem _ (ih v h)

theorem isSet_bounds (bm : Bitmap) (n : Nat) (h : bm.isSet n = true) : 1 ≤ n ∧ n ≤ bm.len := by
  unfold isSet at h
  unfold len
  split at h
  · cases h
  · omega

theorem not_presence (bm : Bitmap) (i : Nat) (h : bm.auto = true → i % (bm.blockLen * 8) ≠ 1) :
    bm.isPresenceBit i = false := by
  unfold isPresenceBit
  cases ha : bm.auto with
  | false => simp
  | true =>
    have := h ha
    simp [this]

theorem prim_unpack_ok {s : PrimSpec} {d : Bytes} {r : Value × Nat}
    (h : (Field.prim s).unpack d = .ok r) : s.unpack d = .ok r := by
  simp only [Field.unpack] at h
  split at h
  · simp only [UR.ok.injEq] at h; subst h; assumption
  · cases h
  · cases h

theorem prim_unpack_err {s : PrimSpec} {d : Bytes} {p : List Bytes}
    (h : (Field.prim s).unpack d = .err p) : s.unpack d = .err := by
  simp only [Field.unpack] at h
  split at h
  · cases h
  · assumption
  · cases h

theorem prim_unpack_of_ok {s : PrimSpec} {d : Bytes} {r : Value × Nat}
    (h : s.unpack d = .ok r) : (Field.prim s).unpack d = .ok r := by
  simp only [Field.unpack, h]

theorem prim_pack_eq (s : PrimSpec) (v : Value) : (Field.prim s).pack v = s.pack v := by
  simp only [Field.pack]

theorem prim_canon_eq (s : PrimSpec) (v : Value) : (Field.prim s).canon v = s.canon v := by
  simp only [Field.canon]

/-- a field that is coherent outside the last position of a positional composite has a real
prefix, so anything may follow its bytes -/
theorem tailOK_of_coherent (f : Field) (tail : Bytes) (h : f.coherent false = true) : C01.tailOK f tail := by
  cases f with
  | prim s =>
    simp only [C01.tailOK]
    intro hn
    simp [Field.coherent, PrimSpec.coherent, hn] at h
  | comp s subs =>
    simp only [C01.tailOK]
    intro hn
    rw [Field.coherent] at h
    simp [hn] at h

/-- what `MsgSpec.coherent` says, clause by clause -/
theorem coherent_facts (spec : MsgSpec) (h : spec.coherent = true) :
    (Field.prim spec.mti).coherent false = true ∧
    (∃ fam, spec.bitmap.pref = .fixed fam) ∧
    (spec.bitmap.enc = .binary ∨ spec.bitmap.enc = .bytesToHex) ∧
    allDistinct (spec.fields.map (·.1)) = true ∧
    ∀ id f, (id, f) ∈ spec.fields →
      2 ≤ id ∧ (spec.bitmap.auto = true → id % (blockLenOf spec.bitmap.specLen * 8) ≠ 1) ∧
      f.coherent false = true := by
  simp only [MsgSpec.coherent, Bool.and_eq_true, List.all_eq_true, decide_eq_true_eq] at h
  obtain ⟨⟨⟨⟨⟨⟨_, h1⟩, _⟩, h3⟩, h4⟩, h5⟩, h6⟩ := h
  refine ⟨by simpa [Field.coherent] using h1, ?_, ?_, h5, ?_⟩
  · cases hp : spec.bitmap.pref with
    | fixed fam => exact ⟨fam, rfl⟩
    | _ => rw [hp] at h3; simp at h3
  · cases he : spec.bitmap.enc with
    | binary => exact Or.inl rfl
    | bytesToHex => exact Or.inr rfl
    | _ => rw [he] at h4; simp at h4
  · intro id f hm
    obtain ⟨⟨a, b⟩, c⟩ := h6 (id, f) hm
    refine ⟨a, ?_, c⟩
    intro ha
    simpa [ha] using b

/-! ## the bitmap of a packed message reads back -/

theorem bitmap_eta (bm : Bitmap) (specLen : Nat) (auto : Bool)
    (h1 : bm.blockLen = blockLenOf specLen) (h2 : bm.auto = auto) :
    ({ reset specLen auto with data := bm.data } : Bitmap) = bm := by
  obtain ⟨d, bl, a⟩ := bm
  simp only at h1 h2
  subst h1; subst h2
  rfl

/-- facts about the bitmap built by the first loop of `Message.pack` -/
theorem setBits_reset_facts (specLen : Nat) (auto : Bool) (ids : List Nat) (bm : Bitmap)
    (h : setBits ids (reset specLen auto) = .ok bm) :
    Inv bm ∧ bm.blockLen = blockLenOf specLen ∧ bm.auto = auto ∧
    (auto = true → IsChain (blockLenOf specLen) (bm.data.length / blockLenOf specLen) bm.data) ∧
    (auto = false → bm.data.length = blockLenOf specLen) := by
  obtain ⟨hinv, hlen0⟩ := C05.inv_reset specLen auto
  obtain ⟨i1, i2, i3, _, i5, i6⟩ := C05.setBits_spec ids _ bm hinv h
  refine ⟨i1, i2, i3, ?_, ?_⟩
  · intro ha
    subst ha
    have := i5 rfl (C05.chained_reset specLen true)
    unfold C05.Chained at this
    rw [i2] at this
    exact this
  · intro ha
    subst ha
    rw [i6 rfl, hlen0]; rfl

/-- **bitmap round trip inside a message**: the bitmap built by `Message.pack` packs to bytes
from which `Bitmap.unpack` on a fresh bitmap recovers it, consuming exactly those bytes -/
theorem bitmap_roundtrip (enc : Enc) (he : enc = .binary ∨ enc = .bytesToHex) (fam : Fam)
    (specLen : Nat) (auto : Bool) (ids : List Nat) (bm : Bitmap) (bb tail : Bytes)
    (hsb : setBits ids (reset specLen auto) = .ok bm) (hp : bm.pack enc = .ok bb) :
    Bitmap.unpack enc (.fixed fam) (reset specLen auto) (bb ++ tail) = .ok (bm, bb.length) := by
  obtain ⟨_, hb, ha, hch, hfx⟩ := setBits_reset_facts specLen auto ids bm hsb
  obtain ⟨packed, hp', hw⟩ := C05.pack_wire enc he bm
  rw [hp] at hp'
  simp only [Res.ok.injEq] at hp'
  subst hp'
  have hbl := blockLenOf_pos specLen
  have heta := bitmap_eta bm specLen auto hb ha
  cases auto with
  | false =>
    have := (C05.unpack_fixed_one_block enc fam (reset specLen false) bm.data bb tail hbl rfl (hfx rfl) hw).1
    rw [this, heta]
  | true =>
    have := (C05.unpack_chain enc fam (reset specLen true) _ bm.data bb tail hbl rfl (hch rfl) hw).1
    rw [this, heta]

/-! ## the element scan on a packed body -/

/-- what `MsgSpec.canon` does to one populated element -/
def canonEntry (spec : MsgSpec) (p : Nat × Value) : Nat × Value :=
  match lookupId p.1 spec.fields with
  | some f => (p.1, f.canon p.2)
  | none => p

theorem canonEntry_fst (spec : MsgSpec) (p : Nat × Value) : (canonEntry spec p).1 = p.1 := by
  unfold canonEntry
  split <;> rfl

theorem canon_fields (spec : MsgSpec) (m : Msg) :
    (spec.canon m).fields = (sortBy idLess m.fields).map (canonEntry spec) := rfl

theorem canon_mti (spec : MsgSpec) (m : Msg) : (spec.canon m).mti = m.mti.map spec.mti.canon := rfl

/-- the field-level round trip, instantiated at one populated element of a message -/
def EntryRT (spec : MsgSpec) (p : Nat × Value) : Prop :=
  ∃ f, lookupId p.1 spec.fields = some f ∧
    ∀ bs tail, f.pack p.2 = .ok bs →
      f.unpack (bs ++ tail) = .ok (f.canon p.2, bs.length) ∧ f.pack (f.canon p.2) = .ok bs

theorem packAll_cons_ok (spec : MsgSpec) (i : Nat) (v : Value) (rest : List (Nat × Value)) (body : Bytes)
    (h : C05.packAll spec ((i, v) :: rest) = .ok body) :
    ∃ f b more, lookupId i spec.fields = some f ∧ f.pack v = .ok b ∧
      C05.packAll spec rest = .ok more ∧ body = b ++ more := by
  simp only [C05.packAll] at h
  cases hl : lookupId i spec.fields with
  | none => simp [hl] at h
  | some f =>
    simp only [hl] at h
    cases hp : f.pack v with
    | err => simp [hp] at h
    | panic => simp [hp] at h
    | ok b =>
      simp only [hp] at h
      cases hr : C05.packAll spec rest with
      | err => simp [hr] at h
      | panic => simp [hr] at h
      | ok more =>
        simp only [hr, Res.ok.injEq] at h
        exact ⟨f, b, more, rfl, hp, rfl, h.symm⟩

theorem scan_skip (spec : MsgSpec) (bm : Bitmap) (n i : Nat) (src : Bytes) (off : Nat)
    (acc : List (Nat × Value)) (h : bm.isPresenceBit i = true ∨ bm.isSet i = false) :
    scan spec bm (n + 1) i src off acc = scan spec bm n (i + 1) src off acc := by
  rw [scan]
  rcases h with h | h
  · simp only [h, ite_true]
  · cases hp : bm.isPresenceBit i with
    | true => simp only [ite_true]
    | false => simp only [h, Bool.false_eq_true, ite_false]

theorem scan_field (spec : MsgSpec) (bm : Bitmap) (n i : Nat) (src : Bytes) (off : Nat)
    (acc : List (Nat × Value)) (f : Field) (hp : bm.isPresenceBit i = false) (hs : bm.isSet i = true)
    (hl : lookupId i spec.fields = some f) (ho : off ≤ src.length) :
    scan spec bm (n + 1) i src off acc =
      match f.unpack (src.drop off) with
      | .err p => .err (natToDec i :: p)
      | .panic => .panic
      | .ok (v, read) => scan spec bm n (i + 1) src (off + read) (acc ++ [(i, v)]) := by
  rw [scan]
  have : ¬ off > src.length := by omega
  simp only [hp, hs, hl, this, Bool.false_eq_true, ite_false, ite_true]
  cases f.unpack (src.drop off) with
  | err p => rfl
  | panic => rfl
  | ok r => rfl

/-- either no element of an ascending list at or above `i` sits at `i`, or its head does -/
theorem asc_head_cases {α : Type} (i : Nat) (l : List (Nat × α)) (hs : Asc l) (hge : ∀ p ∈ l, i ≤ p.1) :
    (∀ p ∈ l, i + 1 ≤ p.1) ∨ ∃ v l', l = (i, v) :: l' := by
  cases l with
  | nil => left; intro p hp; cases hp
  | cons hd tl =>
    obtain ⟨j, v⟩ := hd
    have hs := List.pairwise_cons.mp hs
    by_cases hj : j = i
    · subst hj; exact Or.inr ⟨v, tl, rfl⟩
    · left
      intro p hp
      have hji := hge (j, v) (by simp)
      rcases List.mem_cons.mp hp with rfl | hp
      · simp only at hji ⊢; omega
      · have := hs.1 p hp
        simp only at hji this; omega

/-- **the scan on a packed body**: when the bytes at the current offset are the packed images
of the populated elements with ids ≥ `i` (ascending) followed by `tail`, and the bits in the
scanned range are exactly those ids, the scan returns those elements in canonical form,
appended to `acc`, and stops exactly behind the body -/
theorem scan_packed (spec : MsgSpec) (bm : Bitmap) :
    ∀ (remaining i : Nat) (l : List (Nat × Value)) (src : Bytes) (off : Nat)
      (acc : List (Nat × Value)) (body tail : Bytes),
      Asc l →
      (∀ p ∈ l, i ≤ p.1 ∧ p.1 < i + remaining ∧ bm.isPresenceBit p.1 = false ∧ bm.isSet p.1 = true ∧
        EntryRT spec p) →
      (∀ j, i ≤ j → j < i + remaining → bm.isPresenceBit j = false → bm.isSet j = true →
        ∃ p ∈ l, p.1 = j) →
      C05.packAll spec l = .ok body →
      off ≤ src.length → src.drop off = body ++ tail →
      scan spec bm remaining i src off acc = .ok (acc ++ l.map (canonEntry spec), off + body.length) := by
  intro remaining
  induction remaining with
  | zero =>
    intro i l src off acc body tail _ hl _ hpk _ _
    cases l with
    | nil =>
      simp only [C05.packAll, Res.ok.injEq] at hpk
      subst hpk
      simp [scan]
    | cons p _ => have := hl p (by simp); omega
  | succ n ih =>
    intro i l src off acc body tail hs hl hbits hpk ho hsrc
    rcases asc_head_cases i l hs (fun p hp => (hl p hp).1) with hgt | ⟨v, l', rfl⟩
    · -- nothing at `i`
      have hskip : bm.isPresenceBit i = true ∨ bm.isSet i = false := by
        cases hp : bm.isPresenceBit i with
        | true => exact Or.inl rfl
        | false =>
          right
          cases hset : bm.isSet i with
          | false => rfl
          | true =>
            obtain ⟨p, hp1, hp2⟩ := hbits i (Nat.le_refl _) (by omega) hp hset
            have := hgt p hp1
            omega
      rw [scan_skip spec bm n i src off acc hskip]
      refine ih (i + 1) l src off acc body tail hs ?_ ?_ hpk ho hsrc
      · intro p hp
        obtain ⟨_, h2, h3⟩ := hl p hp
        exact ⟨hgt p hp, by omega, h3⟩
      · intro j hj1 hj2 hj3 hj4
        exact hbits j (by omega) (by omega) hj3 hj4
    · -- the head of the list sits at `i`
      obtain ⟨_, _, hp, hset, f, hlk, hrt⟩ := hl (i, v) (by simp)
      obtain ⟨f', b, more, hlk', hpb, hmore, rfl⟩ := packAll_cons_ok spec i v l' body hpk
      simp only at hlk
      rw [hlk] at hlk'
      simp only [Option.some.injEq] at hlk'
      subst hlk'
      have hun := (hrt b (more ++ tail) hpb).1
      rw [scan_field spec bm n i src off acc f hp hset hlk ho, hsrc, List.append_assoc, hun]
      simp only
      have hs' := List.pairwise_cons.mp hs
      have hlen : (src.drop off).length = (b ++ more ++ tail).length := by rw [hsrc]
      simp only [List.length_drop, List.length_append] at hlen
      rw [ih (i + 1) l' src (off + b.length) (acc ++ [(i, f.canon v)]) more tail hs'.2 ?_ ?_ hmore
        (by omega) ?_]
      · simp only [List.map_cons, List.length_append, canonEntry, hlk, List.append_assoc,
          List.singleton_append, Nat.add_assoc]
      · intro p hp'
        obtain ⟨_, h2, h3⟩ := hl p (List.mem_cons_of_mem _ hp')
        have := hs'.1 p hp'
        simp only at this
        exact ⟨by omega, by omega, h3⟩
      · intro j hj1 hj2 hj3 hj4
        obtain ⟨p, hp1, hp2⟩ := hbits j (by omega) (by omega) hj3 hj4
        rcases List.mem_cons.mp hp1 with rfl | hp1
        · simp only at hp2; omega
        · exact ⟨p, hp1, hp2⟩
      · rw [← List.drop_drop, hsrc, List.append_assoc, List.drop_left']
        rfl

/-! ## `Message.pack` / `Message.unpack`, step by step -/

/-- the MTI bytes `Message.pack` emits (none when the MTI is not set) -/
def mtiBytes (spec : MsgSpec) (m : Msg) : Res Bytes :=
  match m.mti with
  | some v => spec.mti.pack v
  | none => .ok []

theorem pack_inv0 (spec : MsgSpec) (m : Msg) (bs : Bytes) (h : spec.pack m = .ok bs) :
    ∃ bm mb bb fb,
      setBits ((sortBy idLess m.fields).map (·.1)) (reset spec.bitmap.specLen spec.bitmap.auto) = .ok bm ∧
      mtiBytes spec m = .ok mb ∧ bm.pack spec.bitmap.enc = .ok bb ∧
      packFields spec bm (sortBy idLess m.fields) = .ok fb ∧ bs = mb ++ bb ++ fb := by
  simp only [MsgSpec.pack] at h
  split at h
  · cases h
  · cases h
  · rename_i bm hsb
    split at h
    · cases h
    · cases h
    · rename_i mb hmb
      split at h
      · cases h
      · cases h
      · rename_i bb hbb
        split at h
        · rename_i fb hfb
          simp only [Res.ok.injEq] at h
          exact ⟨bm, mb, bb, fb, hsb, hmb, hbb, hfb, h.symm⟩
        · cases h
        · cases h

theorem pack_inv (spec : MsgSpec) (m : Msg) (v : Value) (bs : Bytes) (hm : m.mti = some v)
    (h : spec.pack m = .ok bs) :
    ∃ bm mb bb fb,
      setBits ((sortBy idLess m.fields).map (·.1)) (reset spec.bitmap.specLen spec.bitmap.auto) = .ok bm ∧
      spec.mti.pack v = .ok mb ∧ bm.pack spec.bitmap.enc = .ok bb ∧
      packFields spec bm (sortBy idLess m.fields) = .ok fb ∧ bs = mb ++ bb ++ fb := by
  obtain ⟨bm, mb, bb, fb, h1, h2, h3⟩ := pack_inv0 spec m bs h
  simp only [mtiBytes, hm] at h2
  exact ⟨bm, mb, bb, fb, h1, h2, h3⟩

theorem pack_intro (spec : MsgSpec) (m : Msg) (v : Value) (bm : Bitmap) (mb bb fb : Bytes)
    (hm : m.mti = some v)
    (hsb : setBits ((sortBy idLess m.fields).map (·.1)) (reset spec.bitmap.specLen spec.bitmap.auto) = .ok bm)
    (hmb : spec.mti.pack v = .ok mb) (hbb : bm.pack spec.bitmap.enc = .ok bb)
    (hfb : packFields spec bm (sortBy idLess m.fields) = .ok fb) :
    spec.pack m = .ok (mb ++ bb ++ fb) := by
  simp only [MsgSpec.pack, hm, hsb, hmb, hbb, hfb]

theorem unpack_intro (spec : MsgSpec) (src : Bytes) (v : Value) (read bread off : Nat) (bm : Bitmap)
    (fields : List (Nat × Value))
    (hm : spec.mti.unpack src = .ok (v, read)) (hr : read ≤ src.length)
    (hb : Bitmap.unpack spec.bitmap.enc spec.bitmap.pref
      (reset spec.bitmap.specLen spec.bitmap.auto) (src.drop read) = .ok (bm, bread))
    (hs : scan spec bm (bm.len - 1) 2 src (read + bread) [] = .ok (fields, off)) :
    spec.unpack src = .ok ({ mti := some v, fields := fields }, off) := by
  have : ¬ read > src.length := by omega
  simp only [MsgSpec.unpack, hm, this, ite_false, hb, hs]

theorem packFields_no_presence (spec : MsgSpec) (bm : Bitmap) (l : List (Nat × Value))
    (h : ∀ p ∈ l, bm.isPresenceBit p.1 = false) : packFields spec bm l = C05.packAll spec l := by
  rw [C05.packFields_body]
  congr 1
  apply List.filter_eq_self.mpr
  intro p hp
  simp [h p hp]

/-- replacing every value by its canonical form does not change the packed body -/
theorem packAll_canon (spec : MsgSpec) : ∀ (l : List (Nat × Value)) (body : Bytes),
    (∀ p ∈ l, EntryRT spec p) → C05.packAll spec l = .ok body →
    C05.packAll spec (l.map (canonEntry spec)) = .ok body := by
  intro l
  induction l with
  | nil => intro body _ h; exact h
  | cons hd rest ih =>
    obtain ⟨i, v⟩ := hd
    intro body hrt h
    obtain ⟨f, b, more, hlk, hpb, hmore, rfl⟩ := packAll_cons_ok spec i v rest body h
    obtain ⟨f', hlk', hrt'⟩ := hrt (i, v) (by simp)
    simp only at hlk'
    rw [hlk] at hlk'
    simp only [Option.some.injEq] at hlk'
    subst hlk'
    have h2 := (hrt' b [] hpb).2
    have ih' := ih more (fun p hp => hrt p (List.mem_cons_of_mem _ hp)) hmore
    simp only at h2
    simp only [List.map_cons, canonEntry, hlk, C05.packAll, h2, ih']

/-! ## (1) the message round trip from the field round trips -/

/-- per-element consequences of coherence + in-domain content + the field round trips -/
theorem entry_facts (spec : MsgSpec) (m : Msg) (hc : spec.coherent = true) (hd : spec.inDomain m = true)
    (hf : ∀ id f, (id, f) ∈ spec.fields → C01.FieldRoundTrip f false) :
    ∀ p ∈ m.fields, 2 ≤ p.1 ∧
      (spec.bitmap.auto = true → p.1 % (blockLenOf spec.bitmap.specLen * 8) ≠ 1) ∧ EntryRT spec p := by
  obtain ⟨_, _, _, _, hfields⟩ := coherent_facts spec hc
  simp only [MsgSpec.inDomain, Bool.and_eq_true, List.all_eq_true] at hd
  intro p hp
  have hdp := hd.2 p hp
  cases hl : lookupId p.1 spec.fields with
  | none => rw [hl] at hdp; cases hdp
  | some f =>
    rw [hl] at hdp
    simp only at hdp
    have hmem := lookupId_mem p.1 spec.fields f hl
    obtain ⟨h2, h3, h4⟩ := hfields p.1 f hmem
    refine ⟨h2, h3, f, hl, ?_⟩
    intro bs tail hpk
    exact hf p.1 f hmem p.2 tail bs h4 hdp hpk (tailOK_of_coherent f tail h4)

/-- **C01, message level**: if the MTI and every field of the spec round-trip, the message
round-trips — Unpack of the packed bytes (whatever follows them) yields the canonical content
and consumes exactly the packed bytes; re-packing the canonical content gives the same bytes -/
theorem message_roundtrip_of_fields (spec : MsgSpec)
    (hmti : C01.FieldRoundTrip (.prim spec.mti) false)
    (hf : ∀ id f, (id, f) ∈ spec.fields → C01.FieldRoundTrip f false) :
    C01.MessageRoundTrip spec := by
  intro m tail bs hc hd hp
  obtain ⟨cmti, ⟨fam, hpref⟩, henc, _, _⟩ := coherent_facts spec hc
  have hent := entry_facts spec m hc hd hf
  have hd' := hd
  simp only [MsgSpec.inDomain, Bool.and_eq_true] at hd'
  obtain ⟨⟨hdm, hdd⟩, _⟩ := hd'
  cases hm : m.mti with
  | none => rw [hm] at hdm; cases hdm
  | some v =>
    rw [hm] at hdm
    simp only at hdm
    obtain ⟨bm, mb, bb, fb, hsb, hmb, hbb, hfb, rfl⟩ := pack_inv spec m v bs hm hp
    obtain ⟨hbits, _, hinv, hbl, hau⟩ := C05.setBits_bits_eq_present _ _ _ bm hsb
    have hasc : Asc (sortBy idLess m.fields) := sortBy_sorted m.fields hdd
    have hmem : ∀ p, p ∈ sortBy idLess m.fields ↔ p ∈ m.fields := fun p => mem_sortBy _ p _
    have hnp : ∀ p ∈ sortBy idLess m.fields, bm.isPresenceBit p.1 = false := by
      intro p hp'
      apply not_presence
      rw [hbl, hau]
      exact (hent p ((hmem p).mp hp')).2.1
    have hnp0 : ∀ p ∈ sortBy idLess m.fields,
        (reset spec.bitmap.specLen spec.bitmap.auto).isPresenceBit p.1 = false := by
      intro p hp'
      rw [← C05.isPresenceBit_congr bm _ (by rw [hbl]; rfl) (by rw [hau]; rfl)]
      exact hnp p hp'
    rw [packFields_no_presence spec bm _ hnp] at hfb
    -- MTI
    obtain ⟨hmu, hmp⟩ := hmti v (bb ++ fb ++ tail) mb cmti hdm (by rw [prim_pack_eq]; exact hmb)
      (tailOK_of_coherent _ _ cmti)
    have hmu' := prim_unpack_ok hmu
    rw [prim_pack_eq, prim_canon_eq] at hmp
    rw [prim_canon_eq] at hmu'
    -- bitmap
    have hbu := bitmap_roundtrip spec.bitmap.enc henc fam spec.bitmap.specLen spec.bitmap.auto _ bm bb
      (fb ++ tail) hsb hbb
    -- scan
    have hsrc : mb ++ bb ++ fb ++ tail = mb ++ (bb ++ fb ++ tail) := by simp only [List.append_assoc]
    have hscan := scan_packed spec bm (bm.len - 1) 2 (sortBy idLess m.fields) (mb ++ (bb ++ fb ++ tail))
      (mb.length + bb.length) [] fb tail hasc
      (by
        intro p hp'
        have hpm := (hmem p).mp hp'
        obtain ⟨h2, _, hrt⟩ := hent p hpm
        have hset : bm.isSet p.1 = true :=
          (hbits p.1 (hnp0 p hp')).mpr ⟨List.mem_map.mpr ⟨p, hp', rfl⟩, h2⟩
        have := (isSet_bounds bm p.1 hset).2
        exact ⟨h2, by omega, hnp p hp', hset, hrt⟩)
      (by
        intro j _ _ hj3 hj4
        have hj3' : (reset spec.bitmap.specLen spec.bitmap.auto).isPresenceBit j = false := by
          rw [← C05.isPresenceBit_congr bm _ (by rw [hbl]; rfl) (by rw [hau]; rfl)]; exact hj3
        obtain ⟨h1, _⟩ := (hbits j hj3').mp hj4
        obtain ⟨p, hp1, hp2⟩ := List.mem_map.mp h1
        exact ⟨p, hp1, hp2⟩)
      hfb
      (by simp only [List.length_append]; omega)
      (by
        rw [← List.drop_drop, List.drop_left, List.append_assoc, List.drop_left])
    refine ⟨⟨_, ?_, rfl⟩, ?_⟩
    · rw [hsrc]
      have := unpack_intro spec (mb ++ (bb ++ fb ++ tail)) (spec.mti.canon v) mb.length bb.length _ bm _
        hmu' (by simp only [List.length_append]; omega)
        (by rw [List.drop_left, hpref, List.append_assoc]; exact hbu) hscan
      rw [this]
      simp only [List.nil_append, List.length_append, Nat.add_assoc]
      congr 2
      simp only [MsgSpec.canon, hm, Option.map_some]
      rfl
    · have hcm : (spec.canon m).mti = some (spec.mti.canon v) := by rw [canon_mti, hm]; rfl
      have hsort : sortBy idLess (spec.canon m).fields = (sortBy idLess m.fields).map (canonEntry spec) := by
        rw [canon_fields]
        exact sortBy_of_asc _ (asc_map_fst _ (canonEntry_fst spec) _ hasc)
      have hids : (sortBy idLess (spec.canon m).fields).map (·.1) = (sortBy idLess m.fields).map (·.1) := by
        rw [hsort, List.map_map]
        apply List.map_congr_left
        intro p _
        exact canonEntry_fst spec p
      refine pack_intro spec (spec.canon m) _ bm mb bb fb hcm (by rw [hids]; exact hsb) hmp hbb ?_
      rw [hsort, packFields_no_presence spec bm _ (by
        intro p hp'
        obtain ⟨q, hq, rfl⟩ := List.mem_map.mp hp'
        rw [canonEntry_fst]; exact hnp q hq)]
      exact packAll_canon spec _ fb (fun p hp' => (hent p ((hmem p).mp hp')).2.2) hfb

/-! ## (3) C19: truncation is attributed to the owning element -/

/-- **field-level hypothesis of C19**: a strict prefix of a field's packed bytes does not unpack -/
def FieldPrefixFails (f : Field) : Prop :=
  ∀ (v : Value) (bs : Bytes) (o : Nat),
    f.coherent false = true → f.inDomain v = true → f.pack v = .ok bs → o < bs.length →
    ∃ p, f.unpack (bs.take o) = .err p

def resBytes : Res Bytes → Bytes
  | .ok b => b
  | _ => []

/-- the packed image of one populated element -/
def segOf (spec : MsgSpec) (p : Nat × Value) : Nat × Bytes :=
  (p.1, match lookupId p.1 spec.fields with
        | some f => resBytes (f.pack p.2)
        | none => [])

/-- **the layout of a packed message** (reference decoder's view, cf. C05 `pack_only_announced`):
element 0 = the MTI bytes, element 1 = the bitmap bytes, then the packed bytes of every
populated data element outside continuation positions, ascending -/
def layout (spec : MsgSpec) (m : Msg) : List (Nat × Bytes) :=
  match setBits ((sortBy idLess m.fields).map (·.1)) (reset spec.bitmap.specLen spec.bitmap.auto) with
  | .ok bm =>
    (0, resBytes (mtiBytes spec m)) :: (1, resBytes (bm.pack spec.bitmap.enc)) ::
      ((sortBy idLess m.fields).filter (fun p => !bm.isPresenceBit p.1)).map (segOf spec)
  | _ => []

/-- the bytes of a layout -/
def flat (L : List (Nat × Bytes)) : Bytes := L.flatMap (·.2)

/-- the element whose byte range `[start, end)` contains offset `o` -/
def ownerAt : List (Nat × Bytes) → Nat → Option Nat
  | [], _ => none
  | (k, b) :: rest, o => if o < b.length then some k else ownerAt rest (o - b.length)

theorem flat_cons (k : Nat) (b : Bytes) (L : List (Nat × Bytes)) : flat ((k, b) :: L) = b ++ flat L := by
  simp [flat]

theorem flat_append (L1 L2 : List (Nat × Bytes)) : flat (L1 ++ L2) = flat L1 ++ flat L2 := by
  simp [flat]

theorem ownerAt_some : ∀ (L : List (Nat × Bytes)) (o : Nat), o < (flat L).length → ∃ k, ownerAt L o = some k := by
  intro L
  induction L with
  | nil => intro o h; simp [flat] at h
  | cons hd tl ih =>
    obtain ⟨k, b⟩ := hd
    intro o h
    rw [flat_cons, List.length_append] at h
    simp only [ownerAt]
    split
    · exact ⟨k, rfl⟩
    · exact ih _ (by omega)

theorem ownerAt_mem : ∀ (L : List (Nat × Bytes)) (o k : Nat), ownerAt L o = some k → ∃ b, (k, b) ∈ L := by
  intro L
  induction L with
  | nil => intro o k h; simp [ownerAt] at h
  | cons hd tl ih =>
    obtain ⟨j, b⟩ := hd
    intro o k h
    simp only [ownerAt] at h
    split at h
    · simp only [Option.some.injEq] at h; subst h; exact ⟨b, by simp⟩
    · obtain ⟨b', hb'⟩ := ih _ k h
      exact ⟨b', List.mem_cons_of_mem _ hb'⟩

theorem packAll_flat (spec : MsgSpec) : ∀ (l : List (Nat × Value)) (body : Bytes),
    C05.packAll spec l = .ok body → flat (l.map (segOf spec)) = body := by
  intro l
  induction l with
  | nil => intro body h; simp only [C05.packAll, Res.ok.injEq] at h; subst h; rfl
  | cons hd rest ih =>
    obtain ⟨i, v⟩ := hd
    intro body h
    obtain ⟨f, b, more, hlk, hpb, hmore, rfl⟩ := packAll_cons_ok spec i v rest body h
    rw [List.map_cons, segOf]
    simp only [hlk, hpb, resBytes]
    rw [flat_cons, ih more hmore]

/-- **the bytes of a packed message are its layout**: MTI ++ bitmap ++ fields -/
theorem pack_layout (spec : MsgSpec) (m : Msg) (bs : Bytes) (h : spec.pack m = .ok bs) :
    flat (layout spec m) = bs := by
  obtain ⟨bm, mb, bb, fb, hsb, hmb, hbb, hfb, rfl⟩ := pack_inv0 spec m bs h
  rw [C05.packFields_body] at hfb
  simp only [layout, hsb, hmb, hbb, resBytes, flat_cons, packAll_flat spec _ fb hfb, List.append_assoc]

/-- every offset inside a packed message has an owner -/
theorem owner_exists (spec : MsgSpec) (m : Msg) (bs : Bytes) (o : Nat) (h : spec.pack m = .ok bs)
    (ho : o < bs.length) : ∃ k, ownerAt (layout spec m) o = some k :=
  ownerAt_some _ o (by rw [pack_layout spec m bs h]; exact ho)

/-- **a strict prefix of the packed bitmap of a message does not unpack** (both modes) -/
theorem bitmap_prefix_fails (enc : Enc) (he : enc = .binary ∨ enc = .bytesToHex) (fam : Fam)
    (specLen : Nat) (auto : Bool) (ids : List Nat) (bm : Bitmap) (bb : Bytes) (o : Nat)
    (hsb : setBits ids (reset specLen auto) = .ok bm) (hp : bm.pack enc = .ok bb) (ho : o < bb.length) :
    Bitmap.unpack enc (.fixed fam) (reset specLen auto) (bb.take o) = .err := by
  obtain ⟨_, hb, ha, hch, hfx⟩ := setBits_reset_facts specLen auto ids bm hsb
  obtain ⟨packed, hp', hw⟩ := C05.pack_wire enc he bm
  rw [hp] at hp'
  simp only [Res.ok.injEq] at hp'
  subst hp'
  have hbl := blockLenOf_pos specLen
  have hwl := C05.wire_length hw
  have hu := C05.unit_pos enc
  cases auto with
  | false =>
    apply C05.unpack_fixed_short enc he fam
    show (bb.take o).length < C05.unit enc * blockLenOf specLen
    rw [List.length_take]
    rw [hwl, hfx rfl] at ho
    omega
  | true =>
    obtain ⟨hK, hlen, hchain⟩ := hch rfl
    generalize hbl' : blockLenOf specLen = bl at *
    generalize hKK : bm.data.length / bl = K at *
    generalize hu' : C05.unit enc = u at *
    have hU : 0 < u * bl := Nat.mul_pos (by omega) (by omega)
    have hoK : o < (u * bl) * K := by rw [hwl, hlen] at ho; rw [Nat.mul_assoc, Nat.mul_comm bl K]; exact ho
    have hk' : o / (u * bl) < K := by
      rw [Nat.div_lt_iff_lt_mul hU, Nat.mul_comm]; exact hoK
    generalize hq : o / (u * bl) = k' at *
    have hdm := Nat.div_add_mod o (u * bl)
    have hml := Nat.mod_lt o hU
    rw [hq] at hdm
    have ha' : u * (k' * bl) = (u * bl) * k' := by rw [Nat.mul_comm k' bl, Nat.mul_assoc]
    have hsplit : bb.take o = bb.take (u * (k' * bl)) ++ (bb.drop (u * (k' * bl))).take (o % (u * bl)) := by
      rw [← List.take_add, ha', hdm]
    obtain ⟨hw1, _⟩ := C05.wire_split hw (k' * bl)
    rw [hu'] at hw1
    have hkb : k' * bl ≤ bm.data.length := by rw [hlen]; exact Nat.mul_le_mul_right _ (by omega)
    have hcont : C05.AllCont bl k' (bm.data.take (k' * bl)) := by
      refine ⟨by rw [List.length_take]; omega, ?_⟩
      intro b hb'
      have hlt : b * bl < k' * bl := Nat.mul_lt_mul_of_pos_right hb' (by omega)
      rw [getD_take _ _ _ hlt]
      exact (hchain b (by omega)).mpr (by omega)
    rw [hsplit]
    have := C05.unpack_runs_off enc he fam (reset specLen true) k' _ _
      ((bb.drop (u * (k' * bl))).take (o % (u * bl))) (by show 1 ≤ blockLenOf specLen; omega) rfl
      (by show C05.AllCont (blockLenOf specLen) k' _; rw [hbl']; exact hcont) hw1
      (by
        show _ < C05.unit enc * blockLenOf specLen
        rw [hu', hbl', List.length_take]
        omega)
    exact this

/-- `FieldPrefixFails`, instantiated at one populated element of a message -/
def EntryPF (spec : MsgSpec) (p : Nat × Value) : Prop :=
  ∀ f, lookupId p.1 spec.fields = some f → ∀ bs o, f.pack p.2 = .ok bs → o < bs.length →
    ∃ q, f.unpack (bs.take o) = .err q

/-- **the scan on a truncated body** fails *at* the element owning the cut: every element
before it is decoded (round trip with the truncated rest as tail), the owner sees a strict
prefix of its bytes -/
theorem scan_truncated (spec : MsgSpec) (bm : Bitmap) :
    ∀ (remaining i : Nat) (l : List (Nat × Value)) (src : Bytes) (off : Nat)
      (acc : List (Nat × Value)) (body : Bytes) (o : Nat),
      Asc l →
      (∀ p ∈ l, i ≤ p.1 ∧ p.1 < i + remaining ∧ bm.isPresenceBit p.1 = false ∧ bm.isSet p.1 = true ∧
        EntryRT spec p ∧ EntryPF spec p) →
      (∀ j, i ≤ j → j < i + remaining → bm.isPresenceBit j = false → bm.isSet j = true →
        ∃ p ∈ l, p.1 = j) →
      C05.packAll spec l = .ok body →
      off ≤ src.length → src.drop off = body.take o → o < body.length →
      ∃ k rest, ownerAt (l.map (segOf spec)) o = some k ∧
        scan spec bm remaining i src off acc = .err (natToDec k :: rest) := by
  intro remaining
  induction remaining with
  | zero =>
    intro i l src off acc body o _ hl _ hpk _ _ hob
    cases l with
    | nil =>
      simp only [C05.packAll, Res.ok.injEq] at hpk
      subst hpk
      simp at hob
    | cons p _ => have := hl p (by simp); omega
  | succ n ih =>
    intro i l src off acc body o hs hl hbits hpk ho hsrc hob
    rcases asc_head_cases i l hs (fun p hp => (hl p hp).1) with hgt | ⟨v, l', rfl⟩
    · have hskip : bm.isPresenceBit i = true ∨ bm.isSet i = false := by
        cases hp : bm.isPresenceBit i with
        | true => exact Or.inl rfl
        | false =>
          right
          cases hset : bm.isSet i with
          | false => rfl
          | true =>
            obtain ⟨p, hp1, hp2⟩ := hbits i (Nat.le_refl _) (by omega) hp hset
            have := hgt p hp1
            omega
      rw [scan_skip spec bm n i src off acc hskip]
      refine ih (i + 1) l src off acc body o hs ?_ ?_ hpk ho hsrc hob
      · intro p hp
        obtain ⟨_, h2, h3⟩ := hl p hp
        exact ⟨hgt p hp, by omega, h3⟩
      · intro j hj1 hj2 hj3 hj4
        exact hbits j (by omega) (by omega) hj3 hj4
    · obtain ⟨_, _, hp, hset, ⟨f, hlk, hrt⟩, hpf⟩ := hl (i, v) (by simp)
      obtain ⟨f', b, more, hlk', hpb, hmore, rfl⟩ := packAll_cons_ok spec i v l' body hpk
      simp only at hlk
      rw [hlk] at hlk'
      simp only [Option.some.injEq] at hlk'
      subst hlk'
      have hseg : segOf spec (i, v) = (i, b) := by simp only [segOf, hlk, hpb, resBytes]
      rw [List.map_cons, hseg]
      simp only [ownerAt]
      rw [scan_field spec bm n i src off acc f hp hset hlk ho, hsrc]
      by_cases hlt : o < b.length
      · obtain ⟨q, hq⟩ := hpf f hlk b o hpb hlt
        rw [if_pos hlt, List.take_append_of_le_length (by omega), hq]
        exact ⟨i, q, rfl, rfl⟩
      · rw [if_neg hlt, List.take_append, List.take_of_length_le (by omega),
          (hrt b (more.take (o - b.length)) hpb).1]
        simp only
        have hs' := List.pairwise_cons.mp hs
        have hlen : (src.drop off).length = ((b ++ more).take o).length := by rw [hsrc]
        simp only [List.length_drop, List.length_append, List.length_take] at hlen hob
        refine ih (i + 1) l' src (off + b.length) _ more (o - b.length) hs'.2 ?_ ?_ hmore (by omega) ?_
          (by omega)
        · intro p hp'
          obtain ⟨_, h2, h3⟩ := hl p (List.mem_cons_of_mem _ hp')
          have := hs'.1 p hp'
          simp only at this
          exact ⟨by omega, by omega, h3⟩
        · intro j hj1 hj2 hj3 hj4
          obtain ⟨p, hp1, hp2⟩ := hbits j (by omega) (by omega) hj3 hj4
          rcases List.mem_cons.mp hp1 with rfl | hp1
          · simp only at hp2; omega
          · exact ⟨p, hp1, hp2⟩
        · rw [← List.drop_drop, hsrc, List.take_append, List.take_of_length_le (by omega),
            List.drop_left]

/-- **C19, message level**: cut a packed message at an offset `o` that lies in the byte
range of element `k` of its layout (0 = MTI, 1 = bitmap, otherwise a data element): Unpack
of the truncated bytes fails and the id path of the failure starts with `k` -/
theorem message_truncation_of_fields (spec : MsgSpec)
    (hmti : C01.FieldRoundTrip (.prim spec.mti) false)
    (hmtiPF : FieldPrefixFails (.prim spec.mti))
    (hf : ∀ id f, (id, f) ∈ spec.fields → C01.FieldRoundTrip f false)
    (hpf : ∀ id f, (id, f) ∈ spec.fields → FieldPrefixFails f)
    (m : Msg) (bs : Bytes) (o k : Nat)
    (hc : spec.coherent = true) (hd : spec.inDomain m = true) (hp : spec.pack m = .ok bs)
    (ho : o < bs.length) (hk : ownerAt (layout spec m) o = some k) :
    ∃ rest, spec.unpack (bs.take o) = .err (natToDec k :: rest) := by
  obtain ⟨cmti, ⟨fam, hpref⟩, henc, _, hfields⟩ := coherent_facts spec hc
  have hent := entry_facts spec m hc hd hf
  have hd' := hd
  simp only [MsgSpec.inDomain, Bool.and_eq_true, List.all_eq_true] at hd'
  obtain ⟨⟨hdm, hdd⟩, hdf⟩ := hd'
  cases hm : m.mti with
  | none => rw [hm] at hdm; cases hdm
  | some v =>
    rw [hm] at hdm
    simp only at hdm
    obtain ⟨bm, mb, bb, fb, hsb, hmb, hbb, hfb, rfl⟩ := pack_inv spec m v bs hm hp
    obtain ⟨hbits, _, hinv, hbl, hau⟩ := C05.setBits_bits_eq_present _ _ _ bm hsb
    have hasc : Asc (sortBy idLess m.fields) := sortBy_sorted m.fields hdd
    have hmem : ∀ p, p ∈ sortBy idLess m.fields ↔ p ∈ m.fields := fun p => mem_sortBy _ p _
    have hnp : ∀ p ∈ sortBy idLess m.fields, bm.isPresenceBit p.1 = false := by
      intro p hp'
      apply not_presence
      rw [hbl, hau]
      exact (hent p ((hmem p).mp hp')).2.1
    have hnp0 : ∀ p ∈ sortBy idLess m.fields,
        (reset spec.bitmap.specLen spec.bitmap.auto).isPresenceBit p.1 = false := by
      intro p hp'
      rw [← C05.isPresenceBit_congr bm _ (by rw [hbl]; rfl) (by rw [hau]; rfl)]
      exact hnp p hp'
    have hfilter : (sortBy idLess m.fields).filter (fun p => !bm.isPresenceBit p.1) = sortBy idLess m.fields := by
      apply List.filter_eq_self.mpr
      intro p hp'
      simp [hnp p hp']
    rw [packFields_no_presence spec bm _ hnp] at hfb
    have hlay : layout spec m = (0, mb) :: (1, bb) :: (sortBy idLess m.fields).map (segOf spec) := by
      simp only [layout, hsb, mtiBytes, hm, hmb, hbb, resBytes, hfilter]
    rw [hlay] at hk
    simp only [ownerAt] at hk
    have hmpk : (Field.prim spec.mti).pack v = .ok mb := by rw [prim_pack_eq]; exact hmb
    by_cases h0 : o < mb.length
    · -- the cut is inside the MTI
      rw [if_pos h0] at hk
      simp only [Option.some.injEq] at hk
      subst hk
      obtain ⟨q, hq⟩ := hmtiPF v mb o cmti hdm hmpk h0
      have := prim_unpack_err hq
      refine ⟨[], ?_⟩
      rw [List.append_assoc, List.take_append_of_le_length (by omega)]
      simp only [MsgSpec.unpack, this]
    · rw [if_neg h0] at hk
      have hmu : ∀ tail, spec.mti.unpack (mb ++ tail) = .ok (spec.mti.canon v, mb.length) := by
        intro tail
        have := (hmti v tail mb cmti hdm hmpk (tailOK_of_coherent _ _ cmti)).1
        have := prim_unpack_ok this
        rw [prim_canon_eq] at this
        exact this
      have hnr : ∀ tail : Bytes, ¬ mb.length > (mb ++ tail).length := by
        intro tail; simp only [List.length_append]; omega
      by_cases h1 : o - mb.length < bb.length
      · -- the cut is inside the bitmap
        rw [if_pos h1] at hk
        simp only [Option.some.injEq] at hk
        subst hk
        refine ⟨[], ?_⟩
        have hb := bitmap_prefix_fails spec.bitmap.enc henc fam spec.bitmap.specLen spec.bitmap.auto _ bm bb
          (o - mb.length) hsb hbb h1
        rw [List.append_assoc, List.take_append, List.take_of_length_le (by omega),
          List.take_append_of_le_length (by omega)]
        simp only [MsgSpec.unpack, hmu, hnr, ite_false, List.drop_left, hpref, hb]
      · -- the cut is inside the body
        rw [if_neg h1] at hk
        simp only [List.length_append] at ho
        have hsplit : (mb ++ bb ++ fb).take o = mb ++ (bb ++ fb.take (o - mb.length - bb.length)) := by
          rw [List.append_assoc, List.take_append, List.take_of_length_le (by omega), List.take_append,
            List.take_of_length_le (by omega)]
        have hbu := bitmap_roundtrip spec.bitmap.enc henc fam spec.bitmap.specLen spec.bitmap.auto _ bm bb
          (fb.take (o - mb.length - bb.length)) hsb hbb
        obtain ⟨k', rest, hk', hscan⟩ := scan_truncated spec bm (bm.len - 1) 2 (sortBy idLess m.fields)
          (mb ++ (bb ++ fb.take (o - mb.length - bb.length))) (mb.length + bb.length) [] fb
          (o - mb.length - bb.length) hasc
          (by
            intro p hp'
            have hpm := (hmem p).mp hp'
            obtain ⟨h2, _, hrt⟩ := hent p hpm
            have hset : bm.isSet p.1 = true :=
              (hbits p.1 (hnp0 p hp')).mpr ⟨List.mem_map.mpr ⟨p, hp', rfl⟩, h2⟩
            have := (isSet_bounds bm p.1 hset).2
            refine ⟨h2, by omega, hnp p hp', hset, hrt, ?_⟩
            intro f hlk bs' o' hpk' ho'
            have hmemf := lookupId_mem p.1 spec.fields f hlk
            have hdp := hdf p hpm
            rw [hlk] at hdp
            exact hpf p.1 f hmemf p.2 bs' o' (hfields p.1 f hmemf).2.2 hdp hpk' ho')
          (by
            intro j _ _ hj3 hj4
            have hj3' : (reset spec.bitmap.specLen spec.bitmap.auto).isPresenceBit j = false := by
              rw [← C05.isPresenceBit_congr bm _ (by rw [hbl]; rfl) (by rw [hau]; rfl)]; exact hj3
            obtain ⟨h1', _⟩ := (hbits j hj3').mp hj4
            obtain ⟨p, hp1, hp2⟩ := List.mem_map.mp h1'
            exact ⟨p, hp1, hp2⟩)
          hfb
          (by simp only [List.length_append]; omega)
          (by rw [← List.drop_drop, List.drop_left, List.drop_left])
          (by omega)
        rw [hk'] at hk
        simp only [Option.some.injEq] at hk
        subst hk
        refine ⟨rest, ?_⟩
        rw [hsplit]
        simp only [MsgSpec.unpack, hmu, hnr, ite_false, List.drop_left, hpref, hbu, hscan]

/-! ### elements before the cut remain readable -/

/-- everything the message-level proofs use about a successfully packed in-domain message -/
theorem packed_facts (spec : MsgSpec) (m : Msg) (bs : Bytes)
    (hf : ∀ id f, (id, f) ∈ spec.fields → C01.FieldRoundTrip f false)
    (hc : spec.coherent = true) (hd : spec.inDomain m = true) (hp : spec.pack m = .ok bs) :
    ∃ v bm mb bb fb, m.mti = some v ∧ (Field.prim spec.mti).inDomain v = true ∧
      setBits ((sortBy idLess m.fields).map (·.1)) (reset spec.bitmap.specLen spec.bitmap.auto) = .ok bm ∧
      spec.mti.pack v = .ok mb ∧ bm.pack spec.bitmap.enc = .ok bb ∧
      C05.packAll spec (sortBy idLess m.fields) = .ok fb ∧ bs = mb ++ bb ++ fb ∧
      layout spec m = (0, mb) :: (1, bb) :: (sortBy idLess m.fields).map (segOf spec) ∧
      Asc (sortBy idLess m.fields) ∧
      (∀ p ∈ sortBy idLess m.fields, p ∈ m.fields ∧ 2 ≤ p.1 ∧ p.1 < 2 + (bm.len - 1) ∧
        bm.isPresenceBit p.1 = false ∧ bm.isSet p.1 = true ∧ EntryRT spec p) ∧
      (∀ j, bm.isPresenceBit j = false → bm.isSet j = true → ∃ p ∈ sortBy idLess m.fields, p.1 = j) := by
  have hent := entry_facts spec m hc hd hf
  have hd' := hd
  simp only [MsgSpec.inDomain, Bool.and_eq_true] at hd'
  obtain ⟨⟨hdm, hdd⟩, _⟩ := hd'
  cases hm : m.mti with
  | none => rw [hm] at hdm; cases hdm
  | some v =>
    rw [hm] at hdm
    simp only at hdm
    obtain ⟨bm, mb, bb, fb, hsb, hmb, hbb, hfb, rfl⟩ := pack_inv spec m v bs hm hp
    obtain ⟨hbits, _, hinv, hbl, hau⟩ := C05.setBits_bits_eq_present _ _ _ bm hsb
    have hasc : Asc (sortBy idLess m.fields) := sortBy_sorted m.fields hdd
    have hmem : ∀ p, p ∈ sortBy idLess m.fields ↔ p ∈ m.fields := fun p => mem_sortBy _ p _
    have hcongr : ∀ j, (reset spec.bitmap.specLen spec.bitmap.auto).isPresenceBit j = bm.isPresenceBit j := by
      intro j
      rw [← C05.isPresenceBit_congr bm _ (by rw [hbl]; rfl) (by rw [hau]; rfl)]
    have hnp : ∀ p ∈ sortBy idLess m.fields, bm.isPresenceBit p.1 = false := by
      intro p hp'
      apply not_presence
      rw [hbl, hau]
      exact (hent p ((hmem p).mp hp')).2.1
    have hfilter : (sortBy idLess m.fields).filter (fun p => !bm.isPresenceBit p.1) = sortBy idLess m.fields := by
      apply List.filter_eq_self.mpr
      intro p hp'
      simp [hnp p hp']
    rw [packFields_no_presence spec bm _ hnp] at hfb
    refine ⟨v, bm, mb, bb, fb, rfl, hdm, hsb, hmb, hbb, hfb, rfl, ?_, hasc, ?_, ?_⟩
    · simp only [layout, hsb, mtiBytes, hm, hmb, hbb, resBytes, hfilter]
    · intro p hp'
      have hpm := (hmem p).mp hp'
      obtain ⟨h2, _, hrt⟩ := hent p hpm
      have hset : bm.isSet p.1 = true :=
        (hbits p.1 (by rw [hcongr]; exact hnp p hp')).mpr ⟨List.mem_map.mpr ⟨p, hp', rfl⟩, h2⟩
      have := (isSet_bounds bm p.1 hset).2
      exact ⟨hpm, h2, by omega, hnp p hp', hset, hrt⟩
    · intro j hj3 hj4
      obtain ⟨h1, _⟩ := (hbits j (by rw [hcongr]; exact hj3)).mp hj4
      obtain ⟨p, hp1, hp2⟩ := List.mem_map.mp h1
      exact ⟨p, hp1, hp2⟩

theorem packAll_mem_ok (spec : MsgSpec) : ∀ (l : List (Nat × Value)) (body : Bytes),
    C05.packAll spec l = .ok body → ∀ p ∈ l, ∃ f b, lookupId p.1 spec.fields = some f ∧ f.pack p.2 = .ok b := by
  intro l
  induction l with
  | nil => intro _ _ p hp; cases hp
  | cons hd rest ih =>
    obtain ⟨i, v⟩ := hd
    intro body h p hp
    obtain ⟨f, b, more, hlk, hpb, hmore, _⟩ := packAll_cons_ok spec i v rest body h
    rcases List.mem_cons.mp hp with rfl | hp
    · exact ⟨f, b, hlk, hpb⟩
    · exact ih more hmore p hp

theorem take_drop_seg (A b C : Bytes) (o : Nat) (h : A.length + b.length ≤ o) :
    ((A ++ (b ++ C)).take o).drop A.length = b ++ C.take (o - A.length - b.length) := by
  rw [List.take_append, List.take_of_length_le (by omega), List.drop_left, List.take_append,
    List.take_of_length_le (by omega)]

/-- **elements before the cut remain readable**: let `(j, b)` be an element of the layout
whose bytes end at or before the cut `o` (so it precedes the failing element). At its offset
in the truncated input it still decodes, to the canonical value, consuming exactly its bytes:
the MTI (`j = 0`), the bitmap (`j = 1`, with exactly the bits of the populated ids), and
every data element `j ≥ 2`. -/
theorem prefix_readable (spec : MsgSpec)
    (hmti : C01.FieldRoundTrip (.prim spec.mti) false)
    (hf : ∀ id f, (id, f) ∈ spec.fields → C01.FieldRoundTrip f false)
    (m : Msg) (bs : Bytes) (o : Nat)
    (hc : spec.coherent = true) (hd : spec.inDomain m = true) (hp : spec.pack m = .ok bs)
    (pre post : List (Nat × Bytes)) (j : Nat) (b : Bytes)
    (hl : layout spec m = pre ++ (j, b) :: post) (hend : (flat pre).length + b.length ≤ o) :
    (j = 0 → ∃ v, m.mti = some v ∧
      spec.mti.unpack ((bs.take o).drop (flat pre).length) = .ok (spec.mti.canon v, b.length)) ∧
    (j = 1 → ∃ bm, Bitmap.unpack spec.bitmap.enc spec.bitmap.pref
        (reset spec.bitmap.specLen spec.bitmap.auto) ((bs.take o).drop (flat pre).length) = .ok (bm, b.length) ∧
      ∀ i, bm.isPresenceBit i = false → (bm.isSet i = true ↔ 2 ≤ i ∧ ∃ p ∈ m.fields, p.1 = i)) ∧
    (2 ≤ j → ∃ f v, lookupId j spec.fields = some f ∧ (j, v) ∈ m.fields ∧
      f.unpack ((bs.take o).drop (flat pre).length) = .ok (f.canon v, b.length)) := by
  obtain ⟨cmti, ⟨fam, hpref⟩, henc, _, _⟩ := coherent_facts spec hc
  obtain ⟨v, bm, mb, bb, fb, hm, hdm, hsb, hmb, hbb, hfb, hbs, hlay, hasc, hent, hbits⟩ :=
    packed_facts spec m bs hf hc hd hp
  have hflat := pack_layout spec m bs hp
  rw [hl, flat_append, flat_cons] at hflat
  rw [← hflat, take_drop_seg _ _ _ _ hend]
  rw [hlay] at hl
  cases pre with
  | nil =>
    simp only [List.nil_append, List.cons.injEq, Prod.mk.injEq] at hl
    obtain ⟨⟨rfl, rfl⟩, _⟩ := hl
    refine ⟨fun _ => ⟨v, hm, ?_⟩, fun h => by omega, fun h => by omega⟩
    have := (hmti v ((flat post).take (o - (flat ([] : List (Nat × Bytes))).length - mb.length)) mb cmti hdm
      (by rw [prim_pack_eq]; exact hmb) (tailOK_of_coherent _ _ cmti)).1
    have := prim_unpack_ok this
    rw [prim_canon_eq] at this
    exact this
  | cons x pre1 =>
    cases pre1 with
    | nil =>
      simp only [List.cons_append, List.nil_append, List.cons.injEq, Prod.mk.injEq] at hl
      obtain ⟨_, ⟨rfl, rfl⟩, _⟩ := hl
      refine ⟨fun h => by omega, fun _ => ⟨bm, ?_, ?_⟩, fun h => by omega⟩
      · rw [hpref]
        exact bitmap_roundtrip spec.bitmap.enc henc fam spec.bitmap.specLen spec.bitmap.auto _ bm bb _ hsb hbb
      · intro i hi
        constructor
        · intro hs
          obtain ⟨p, hp1, hp2⟩ := hbits i hi hs
          obtain ⟨hpm, h2, _⟩ := hent p hp1
          exact ⟨by omega, p, hpm, hp2⟩
        · rintro ⟨_, p, hpm, rfl⟩
          exact (hent p ((mem_sortBy _ p _).mpr hpm)).2.2.2.2.1
    | cons y pre2 =>
      simp only [List.cons_append, List.cons.injEq] at hl
      obtain ⟨_, _, hl⟩ := hl
      have hmem : (j, b) ∈ (sortBy idLess m.fields).map (segOf spec) := by rw [hl]; simp
      obtain ⟨p, hp1, hp2⟩ := List.mem_map.mp hmem
      obtain ⟨hpm, h2, _, _, _, f, hlk, hrt⟩ := hent p hp1
      obtain ⟨f', b', hlk', hpb⟩ := packAll_mem_ok spec _ fb hfb p hp1
      rw [hlk] at hlk'
      simp only [Option.some.injEq] at hlk'
      subst hlk'
      simp only [segOf, hlk, hpb, resBytes, Prod.mk.injEq] at hp2
      obtain ⟨rfl, rfl⟩ := hp2
      refine ⟨fun h => by omega, fun h => by omega, fun _ => ⟨f, p.2, hlk, hpm, ?_⟩⟩
      exact (hrt b' _ hpb).1

/-! ## (2) C02: what Unpack accepts re-packs, and re-encoding is a fixed point -/

/-- **field-level hypothesis of C02**: a value that Unpack returned (and that is `Accepted` —
the parameter excludes the known non-re-encodable class KF2) is in the domain, in canonical
form, and packs -/
def FieldRepack (Accepted : Field → Value → Prop) (f : Field) (lp : Bool) : Prop :=
  ∀ (data : Bytes) (v : Value) (r : Nat),
    f.coherent lp = true → f.unpack data = .ok (v, r) → Accepted f v →
    f.inDomain v = true ∧ f.canon v = v ∧ ∃ bs, f.pack v = .ok bs

theorem unpack_inv (spec : MsgSpec) (src : Bytes) (m : Msg) (n : Nat) (h : spec.unpack src = .ok (m, n)) :
    ∃ v read bm bread fields,
      spec.mti.unpack src = .ok (v, read) ∧ read ≤ src.length ∧
      Bitmap.unpack spec.bitmap.enc spec.bitmap.pref
        (reset spec.bitmap.specLen spec.bitmap.auto) (src.drop read) = .ok (bm, bread) ∧
      scan spec bm (bm.len - 1) 2 src (read + bread) [] = .ok (fields, n) ∧
      m = { mti := some v, fields := fields } := by
  rw [MsgSpec.unpack] at h
  cases hm : spec.mti.unpack src with
  | err => simp [hm] at h
  | panic => simp [hm] at h
  | ok r =>
    obtain ⟨v, read⟩ := r
    simp only [hm] at h
    by_cases hr : read > src.length
    · simp [hr] at h
    · simp only [hr, ite_false] at h
      split at h
      · cases h
      · cases h
      · rename_i bm bread hb
        split at h
        · cases h
        · cases h
        · rename_i fields off hs
          simp only [UR.ok.injEq, Prod.mk.injEq] at h
          obtain ⟨rfl, rfl⟩ := h
          exact ⟨v, read, bm, bread, fields, rfl, by omega, hb, hs, rfl⟩

/-- what a successful scan returns: new elements in strictly ascending order, each at a set,
non-continuation bit of the scanned range, each the result of its field's Unpack -/
theorem scan_ok_struct (spec : MsgSpec) (bm : Bitmap) :
    ∀ (remaining i : Nat) (src : Bytes) (off : Nat) (acc res : List (Nat × Value)) (off' : Nat),
      scan spec bm remaining i src off acc = .ok (res, off') →
      ∃ new, res = acc ++ new ∧ Asc new ∧
        ∀ q ∈ new, i ≤ q.1 ∧ q.1 < i + remaining ∧ bm.isSet q.1 = true ∧ bm.isPresenceBit q.1 = false ∧
          ∃ f data r, lookupId q.1 spec.fields = some f ∧ f.unpack data = .ok (q.2, r) := by
  intro remaining
  induction remaining with
  | zero =>
    intro i src off acc res off' h
    simp only [scan, UR.ok.injEq, Prod.mk.injEq] at h
    exact ⟨[], by simp [h.1], List.Pairwise.nil, by simp⟩
  | succ n ih =>
    intro i src off acc res off' h
    have skip : scan spec bm n (i + 1) src off acc = .ok (res, off') →
        ∃ new, res = acc ++ new ∧ Asc new ∧
        ∀ q ∈ new, i ≤ q.1 ∧ q.1 < i + (n + 1) ∧ bm.isSet q.1 = true ∧ bm.isPresenceBit q.1 = false ∧
          ∃ f data r, lookupId q.1 spec.fields = some f ∧ f.unpack data = .ok (q.2, r) := by
      intro h'
      obtain ⟨new, h1, h2, h3⟩ := ih (i + 1) src off acc res off' h'
      exact ⟨new, h1, h2, fun q hq => by obtain ⟨a, b, c⟩ := h3 q hq; exact ⟨by omega, by omega, c⟩⟩
    by_cases hp : bm.isPresenceBit i = true
    · rw [scan_skip spec bm n i src off acc (Or.inl hp)] at h
      exact skip h
    · have hpf : bm.isPresenceBit i = false := by simpa using hp
      by_cases hs : bm.isSet i = true
      · cases hl : lookupId i spec.fields with
        | none =>
          rw [scan] at h
          simp [hpf, hs, hl] at h
        | some f =>
          by_cases ho : off > src.length
          · rw [scan] at h
            simp [hpf, hs, hl, ho] at h
          · rw [scan_field spec bm n i src off acc f hpf hs hl (by omega)] at h
            cases hu : f.unpack (src.drop off) with
            | err q => simp [hu] at h
            | panic => simp [hu] at h
            | ok r =>
              obtain ⟨v, read⟩ := r
              simp only [hu] at h
              obtain ⟨new, h1, h2, h3⟩ := ih (i + 1) src (off + read) _ res off' h
              refine ⟨(i, v) :: new, by simp [h1], ?_, ?_⟩
              · refine List.pairwise_cons.mpr ⟨?_, h2⟩
                intro q hq
                have := (h3 q hq).1
                simp only; omega
              · intro q hq
                rcases List.mem_cons.mp hq with rfl | hq
                · exact ⟨by simp, by simp, hs, hpf, f, _, read, hl, hu⟩
                · obtain ⟨a, b, c⟩ := h3 q hq; exact ⟨by omega, by omega, c⟩
      · have hsf : bm.isSet i = false := by simpa using hs
        rw [scan_skip spec bm n i src off acc (Or.inr hsf)] at h
        exact skip h

/-- the first loop of `Message.pack` succeeds when every id fits the bitmap (always, if it
auto-expands) -/
theorem setBits_ok (ids : List Nat) : ∀ (bm : Bitmap), Inv bm →
    (bm.auto = true ∨ ∀ id ∈ ids, id ≤ bm.len) → ∃ bm', setBits ids bm = .ok bm' := by
  induction ids with
  | nil => intro bm _ _; exact ⟨bm, rfl⟩
  | cons id rest ih =>
    intro bm hinv hfit
    simp only [setBits]
    split
    · exact ih bm hinv (hfit.imp (fun h => h) (fun h x hx => h x (List.mem_cons_of_mem _ hx)))
    · rename_i hskip
      simp only [Bool.or_eq_true, decide_eq_true_eq, not_or, Nat.not_lt, Bool.not_eq_true] at hskip
      have hset : (bm.set id).isSet id = true :=
        C05.set_isSet_self bm id hinv (by omega) (hfit.imp (fun h => h) (fun h => h id (by simp)))
      simp only [hset, Bool.not_true, Bool.false_eq_true, ite_false]
      obtain ⟨j1, _, j3⟩ := C05.inv_set bm id hinv
      apply ih (bm.set id) j1
      cases ha : bm.auto with
      | true => left; rw [j3, ha]
      | false =>
        right
        rcases hfit with h | h
        · rw [ha] at h; cases h
        · intro x hx
          have := h x (List.mem_cons_of_mem _ hx)
          unfold len at this ⊢
          rw [C05.set_fixed_length bm id ha]; exact this

/-- `Bitmap.unpack` keeps block size and mode; a fixed bitmap reads exactly one block -/
theorem unpack_shape (enc : Enc) (he : enc = .binary ∨ enc = .bytesToHex) (fam : Fam) (rx : Bitmap)
    (data : Bytes) (bm : Bitmap) (r : Nat) (h : Bitmap.unpack enc (.fixed fam) rx data = .ok (bm, r)) :
    bm.blockLen = rx.blockLen ∧ bm.auto = rx.auto ∧ (rx.auto = false → bm.data.length = rx.blockLen) := by
  simp only [Bitmap.unpack, Pref.decodeLength] at h
  split at h
  · rename_i blocks read hloop
    simp only [Res.ok.injEq, Prod.mk.injEq] at h
    obtain ⟨rfl, rfl⟩ := h
    refine ⟨rfl, rfl, ?_⟩
    intro ha
    simp only [unpackLoop, Enc.decode_natCast, ha] at hloop
    cases hdec : Enc.decodeNat enc data rx.blockLen with
    | err => simp [hdec] at hloop
    | panic => simp [hdec] at hloop
    | ok p =>
      obtain ⟨decoded, r'⟩ := p
      simp only [hdec] at hloop
      have hlen : decoded.length = rx.blockLen := by
        have hne : enc ≠ .berTag := by rcases he with rfl | rfl <;> simp
        obtain ⟨h1, h2, _, h4, _, h6, _⟩ := C07.decode_ok_sound enc data decoded rx.blockLen r' hne hdec
        rcases he with rfl | rfl
        · rw [h4 rfl, List.length_take]
          simp only [C07.needed] at h1
          omega
        · exact (h6 rfl).1
      cases decoded with
      | nil => simp at hloop
      | cons first tl =>
        simp only [Bool.not_false, Bool.true_or, ite_true, Res.ok.injEq, Prod.mk.injEq, List.nil_append] at hloop
        simp only
        rw [← hloop.1]; exact hlen
  · cases h
  · cases h

theorem packFields_ok (spec : MsgSpec) (bm : Bitmap) : ∀ (l : List (Nat × Value)),
    (∀ p ∈ l, ∃ f b, lookupId p.1 spec.fields = some f ∧ f.pack p.2 = .ok b) →
    ∃ fb, packFields spec bm l = .ok fb := by
  intro l
  induction l with
  | nil => intro _; exact ⟨[], rfl⟩
  | cons hd rest ih =>
    obtain ⟨i, v⟩ := hd
    intro h
    obtain ⟨fb, hfb⟩ := ih (fun p hp => h p (List.mem_cons_of_mem _ hp))
    obtain ⟨f, b, hlk, hpb⟩ := h (i, v) (by simp)
    simp only at hlk hpb
    simp only [packFields]
    split
    · exact ⟨fb, hfb⟩
    · simp only [hlk, hpb, hfb]
      exact ⟨_, rfl⟩

/-- **C02, message level**: for a coherent spec whose MTI and fields satisfy `FieldRepack` and
the field round trip, every byte string Unpack accepts (with `Accepted` values) yields
in-domain, canonical content that Pack accepts; the re-packed bytes are accepted again, decode
to the same content and consume all of the re-packed bytes -/
theorem message_repack_of_fields (Accepted : Field → Value → Prop) (spec : MsgSpec)
    (hmti : C01.FieldRoundTrip (.prim spec.mti) false)
    (hmtiRP : FieldRepack Accepted (.prim spec.mti) false)
    (hf : ∀ id f, (id, f) ∈ spec.fields → C01.FieldRoundTrip f false)
    (hrp : ∀ id f, (id, f) ∈ spec.fields → FieldRepack Accepted f false)
    (b : Bytes) (m : Msg) (n : Nat)
    (hc : spec.coherent = true) (hu : spec.unpack b = .ok (m, n))
    (haccM : ∀ v, m.mti = some v → Accepted (.prim spec.mti) v)
    (haccF : ∀ p ∈ m.fields, ∀ f, lookupId p.1 spec.fields = some f → Accepted f p.2) :
    spec.inDomain m = true ∧ spec.canon m = m ∧
    ∃ b', spec.pack m = .ok b' ∧ spec.unpack b' = .ok (m, b'.length) := by
  obtain ⟨cmti, ⟨fam, hpref⟩, henc, _, hfields⟩ := coherent_facts spec hc
  obtain ⟨v, read, bm, bread, fields, hmu, _, hbu, hscan, rfl⟩ := unpack_inv spec b m n hu
  simp only at haccM haccF
  -- MTI
  obtain ⟨hvd, hvc, mb, hvp⟩ := hmtiRP b v read cmti (prim_unpack_of_ok hmu) (haccM v rfl)
  rw [prim_canon_eq] at hvc
  rw [prim_pack_eq] at hvp
  -- fields
  obtain ⟨new, hnew, hasc, hq⟩ := scan_ok_struct spec bm _ _ _ _ _ _ _ hscan
  simp only [List.nil_append] at hnew
  subst hnew
  have hfl : ∀ q ∈ fields, ∃ f, lookupId q.1 spec.fields = some f ∧ f.inDomain q.2 = true ∧
      f.canon q.2 = q.2 ∧ ∃ bs, f.pack q.2 = .ok bs := by
    intro q hq'
    obtain ⟨_, _, _, _, f, data, r, hlk, hun⟩ := hq q hq'
    have hmemf := lookupId_mem q.1 spec.fields f hlk
    exact ⟨f, hlk, hrp q.1 f hmemf data q.2 r (hfields q.1 f hmemf).2.2 hun (haccF q hq' f hlk)⟩
  have hdom : spec.inDomain { mti := some v, fields := fields } = true := by
    simp only [MsgSpec.inDomain, Bool.and_eq_true, List.all_eq_true]
    refine ⟨⟨hvd, asc_allDistinct fields hasc⟩, ?_⟩
    intro q hq'
    obtain ⟨f, hlk, hd, _⟩ := hfl q hq'
    rw [hlk]; exact hd
  have hsort : sortBy idLess fields = fields := sortBy_of_asc fields hasc
  have hcanon : spec.canon { mti := some v, fields := fields } = { mti := some v, fields := fields } := by
    have h1 : (sortBy idLess fields).map (canonEntry spec) = fields := by
      rw [hsort]
      conv => rhs; rw [← List.map_id fields]
      apply List.map_congr_left
      intro q hq'
      obtain ⟨f, hlk, _, hcn, _⟩ := hfl q hq'
      simp only [canonEntry, hlk, hcn, id]
    show ({ mti := (some v).map spec.mti.canon,
            fields := (sortBy idLess fields).map (canonEntry spec) } : Msg) = _
    rw [h1, Option.map_some, hvc]
  refine ⟨hdom, hcanon, ?_⟩
  -- Pack succeeds
  obtain ⟨hbl, hau, hfx⟩ := unpack_shape spec.bitmap.enc henc fam _ _ bm bread (by rw [← hpref]; exact hbu)
  obtain ⟨bm', hsb⟩ := setBits_ok ((sortBy idLess fields).map (·.1))
    (reset spec.bitmap.specLen spec.bitmap.auto) (C05.inv_reset _ _).1 (by
      cases ha : spec.bitmap.auto with
      | true => left; rfl
      | false =>
        right
        intro id hid
        rw [hsort] at hid
        obtain ⟨q, hq1, rfl⟩ := List.mem_map.mp hid
        obtain ⟨h2, h3, _⟩ := hq q hq1
        have := hfx (by rw [ha]; rfl)
        simp only [len, reset, List.length_replicate] at this h3 ⊢
        rw [this] at h3
        omega)
  obtain ⟨bb, hbb, _⟩ := C05.pack_wire spec.bitmap.enc henc bm'
  obtain ⟨fb, hfb⟩ := packFields_ok spec bm' (sortBy idLess fields) (by
    rw [hsort]
    intro q hq'
    obtain ⟨f, hlk, _, _, bs, hpk⟩ := hfl q hq'
    exact ⟨f, bs, hlk, hpk⟩)
  have hpack := pack_intro spec { mti := some v, fields := fields } v bm' mb bb fb rfl hsb hvp hbb hfb
  refine ⟨_, hpack, ?_⟩
  obtain ⟨⟨n', hun', rfl⟩, _⟩ := message_roundtrip_of_fields spec hmti hf _ [] _ hc hdom hpack
  rw [List.append_nil, hcanon] at hun'
  exact hun'

/-- **re-encoding is a fixed point**: with the hypotheses of `message_repack_of_fields`, if `b`
unpacks to `m` and `m` packs to `b'`, then `b'` unpacks to `m` again (all of `b'` is consumed)
and whatever `b'` unpacks to packs to exactly `b'`: unpack-then-pack applied twice gives the
same bytes as applied once -/
theorem repack_fixed_point (Accepted : Field → Value → Prop) (spec : MsgSpec)
    (hmti : C01.FieldRoundTrip (.prim spec.mti) false)
    (hmtiRP : FieldRepack Accepted (.prim spec.mti) false)
    (hf : ∀ id f, (id, f) ∈ spec.fields → C01.FieldRoundTrip f false)
    (hrp : ∀ id f, (id, f) ∈ spec.fields → FieldRepack Accepted f false)
    (b : Bytes) (m : Msg) (n : Nat)
    (hc : spec.coherent = true) (hu : spec.unpack b = .ok (m, n))
    (haccM : ∀ v, m.mti = some v → Accepted (.prim spec.mti) v)
    (haccF : ∀ p ∈ m.fields, ∀ f, lookupId p.1 spec.fields = some f → Accepted f p.2)
    (b' : Bytes) (hp : spec.pack m = .ok b') :
    spec.unpack b' = .ok (m, b'.length) ∧
    ∀ m' n' b'', spec.unpack b' = .ok (m', n') → spec.pack m' = .ok b'' → m' = m ∧ b'' = b' := by
  obtain ⟨_, _, b1, hp1, hu1⟩ := message_repack_of_fields Accepted spec hmti hmtiRP hf hrp b m n hc hu haccM haccF
  rw [hp] at hp1
  simp only [Res.ok.injEq] at hp1
  subst hp1
  refine ⟨hu1, ?_⟩
  intro m' n' b'' hu' hp'
  rw [hu1] at hu'
  simp only [UR.ok.injEq, Prod.mk.injEq] at hu'
  obtain ⟨rfl, _⟩ := hu'
  rw [hp] at hp'
  simp only [Res.ok.injEq] at hp'
  exact ⟨rfl, hp'.symm⟩

/-- C19 with the owner made explicit: every cut offset has exactly one owner in the layout and
the failure is reported against it -/
theorem message_truncation_total (spec : MsgSpec)
    (hmti : C01.FieldRoundTrip (.prim spec.mti) false)
    (hmtiPF : FieldPrefixFails (.prim spec.mti))
    (hf : ∀ id f, (id, f) ∈ spec.fields → C01.FieldRoundTrip f false)
    (hpf : ∀ id f, (id, f) ∈ spec.fields → FieldPrefixFails f)
    (m : Msg) (bs : Bytes) (o : Nat)
    (hc : spec.coherent = true) (hd : spec.inDomain m = true) (hp : spec.pack m = .ok bs)
    (ho : o < bs.length) :
    ∃ k rest, ownerAt (layout spec m) o = some k ∧ spec.unpack (bs.take o) = .err (natToDec k :: rest) := by
  obtain ⟨k, hk⟩ := owner_exists spec m bs o hp ho
  obtain ⟨rest, hr⟩ := message_truncation_of_fields spec hmti hmtiPF hf hpf m bs o k hc hd hp ho hk
  exact ⟨k, rest, hk, hr⟩

/-! ## Non-vacuity and sanity on concrete data -/

/-- auto-expanding 8-byte binary bitmap; an LL field, a fixed left-padded field and a field in
the second bitmap block -/
def demoSpec : MsgSpec :=
  { mti := { kind := .string, len := 4, enc := .ascii, pref := .fixed .ascii, pad := .nil },
    bitmap := { specLen := 8, enc := .binary, pref := .fixed .binary, auto := true },
    fields := [(2, .prim { kind := .string, len := 19, enc := .ascii, pref := .var .ascii 2, pad := .nil }),
               (3, .prim { kind := .string, len := 6, enc := .ascii, pref := .fixed .ascii, pad := .left 48 }),
               (70, .prim { kind := .string, len := 3, enc := .ascii, pref := .var .ascii 1, pad := .nil })] }

/-- populated out of order, field 3 not in canonical (padded) form -/
def demoMsg : Msg :=
  { mti := some (.str [0x30, 0x31, 0x30, 0x30]),
    fields := [(70, .str [0x41, 0x42]), (3, .str [0x30, 0x37]), (2, .str [0x31, 0x32, 0x33])] }

def demoBytes : Bytes :=
  [48, 49, 48, 48] ++ [224, 0, 0, 0, 0, 0, 0, 0, 4, 0, 0, 0, 0, 0, 0, 0] ++
  [48, 51, 49, 50, 51] ++ [48, 48, 48, 48, 48, 55] ++ [50, 65, 66]

def errHead {α : Type} : UR α → Option Bytes
  | .err (k :: _) => some k
  | _ => none

/-- ids, consumed bytes of a successful unpack -/
def okShape : UR (Msg × Nat) → Option (List Nat × Nat)
  | .ok (m, n) => some (m.fields.map (·.1), n)
  | _ => none

example : demoSpec.coherent = true := by decide
example : demoSpec.inDomain demoMsg = true := by decide
example : demoSpec.pack demoMsg = .ok demoBytes := by decide +kernel
example : demoSpec.pack (demoSpec.canon demoMsg) = .ok demoBytes := by decide +kernel
example : okShape (demoSpec.unpack (demoBytes ++ [1, 2, 3])) = some ([2, 3, 70], demoBytes.length) := by
  decide +kernel
example : layout demoSpec demoMsg =
    [(0, [48, 49, 48, 48]), (1, [224, 0, 0, 0, 0, 0, 0, 0, 4, 0, 0, 0, 0, 0, 0, 0]),
     (2, [48, 51, 49, 50, 51]), (3, [48, 48, 48, 48, 48, 55]), (70, [50, 65, 66])] := by decide +kernel
example : flat (layout demoSpec demoMsg) = demoBytes := by decide +kernel
example : ownerAt (layout demoSpec demoMsg) 3 = some 0 ∧ ownerAt (layout demoSpec demoMsg) 4 = some 1 ∧
    ownerAt (layout demoSpec demoMsg) 19 = some 1 ∧ ownerAt (layout demoSpec demoMsg) 20 = some 2 ∧
    ownerAt (layout demoSpec demoMsg) 25 = some 3 ∧ ownerAt (layout demoSpec demoMsg) 33 = some 70 ∧
    ownerAt (layout demoSpec demoMsg) 34 = none := by decide +kernel
/-- every truncation offset of the demo message is reported against its owner -/
example : ∀ o, o < demoBytes.length →
    errHead (demoSpec.unpack (demoBytes.take o)) = (ownerAt (layout demoSpec demoMsg) o).map natToDec := by
  decide +kernel
example : Asc (sortBy idLess demoMsg.fields) := sortBy_sorted _ (by decide)
example : (sortBy idLess demoMsg.fields).map (·.1) = [2, 3, 70] := by decide

/-- fixed (`DisableAutoExpand`) 2-byte bitmap written as hex text -/
def demoSpecFixed : MsgSpec :=
  { mti := { kind := .string, len := 4, enc := .ascii, pref := .fixed .ascii, pad := .nil },
    bitmap := { specLen := 2, enc := .bytesToHex, pref := .fixed .ascii, auto := false },
    fields := [(2, .prim { kind := .string, len := 19, enc := .ascii, pref := .var .ascii 2, pad := .nil }),
               (16, .prim { kind := .string, len := 3, enc := .ascii, pref := .var .ascii 1, pad := .nil })] }

def demoMsgFixed : Msg :=
  { mti := some (.str [0x30, 0x31, 0x30, 0x30]), fields := [(16, .str [0x41]), (2, .str [0x31, 0x32])] }

def demoBytesFixed : Bytes :=
  [48, 49, 48, 48] ++ [52, 48, 48, 49] ++ [48, 50, 49, 50] ++ [49, 65]

example : demoSpecFixed.coherent = true := by decide
example : demoSpecFixed.inDomain demoMsgFixed = true := by decide
example : demoSpecFixed.pack demoMsgFixed = .ok demoBytesFixed := by decide +kernel
example : okShape (demoSpecFixed.unpack (demoBytesFixed ++ [9])) = some ([2, 16], demoBytesFixed.length) := by
  decide +kernel
example : ∀ o, o < demoBytesFixed.length →
    errHead (demoSpecFixed.unpack (demoBytesFixed.take o)) =
      (ownerAt (layout demoSpecFixed demoMsgFixed) o).map natToDec := by
  decide +kernel

end Iso8583.MessageRT
