/-
The primitive-field layer (`PrimSpec.pack` / `PrimSpec.unpack`, kinds String, Numeric,
Binary, Hex; default packer and the Track2 packer): round trip (C01), declared lengths
enforced (C08), Unpack never panics (C04). Built on C06 (prefixes), C07 (value encoders),
C20 (padders) and Lemmas/Numeric (integers as text).
-/
import Iso8583.Spec.Coherent
import Iso8583.Props.C06
import Iso8583.Props.C20
import Iso8583.Lemmas.Numeric

namespace Iso8583
open Pref Enc

/-! ## Bridges between the Boolean side conditions (Spec/Coherent) and the Props-level ones -/

theorem isDigitB_iff (c : Byte) : isDigitB c = true ↔ isDigit c := by simp [isDigitB, isDigit]
theorem isAsciiB_iff (c : Byte) : isAsciiB c = true ↔ isAscii c := by simp [isAsciiB, isAscii]
theorem isHexB_iff (c : Byte) : isHexB c = true ↔ isHexChar c := by simp [isHexB, isHexChar]

theorem upperHexB_eq : upperHexB = upperHex := rfl

/-- the Boolean source-alphabet check is C07's `InDomain` -/
theorem accepts_inDomain (e : Enc) (x : Bytes) (h : e.accepts x = true) : C07.InDomain e x := by
  cases e <;> simp only [Enc.accepts, Bool.and_eq_true, decide_eq_true_eq, List.all_eq_true] at h <;>
    simp only [C07.InDomain]
  · intro c hc; exact (isAsciiB_iff c).mp (h c hc)
  · intro c hc; exact (isAsciiB_iff c).mp (h c hc)
  · intro c hc; exact (isDigitB_iff c).mp (h c hc)
  · intro c hc; exact (isDigitB_iff c).mp (h c hc)
  · exact ⟨h.1, fun c hc => (isHexB_iff c).mp (h.2 c hc)⟩
  · exact ⟨h.1, fun c hc => (isHexB_iff c).mp (h.2 c hc)⟩

/-- the Boolean digit-count check is membership in the regenerated table of exported prefixers -/
theorem exportedB_exported (p : Pref) (h : p.exportedB = true) : C06.Exported p := by
  unfold C06.Exported
  rw [C06.table_matches_model]
  cases p with
  | none => decide
  | berTLV => decide
  | fixed f => cases f <;> decide
  | var f d =>
    have hd : 1 ≤ d ∧ d ≤ 6 := by simpa [Pref.exportedB] using h
    have : d = 1 ∨ d = 2 ∨ d = 3 ∨ d = 4 ∨ d = 5 ∨ d = 6 := by omega
    rcases this with rfl | rfl | rfl | rfl | rfl | rfl <;> cases f <;> decide

theorem exportedB_var {f : Fam} {d : Nat} (h : (Pref.var f d).exportedB = true) : 1 ≤ d ∧ d ≤ 6 := by
  simpa [Pref.exportedB] using h

/-! ## Encoders and prefixers never panic -/

theorem ofOption_ne_panic {α : Type} (o : Option α) : Res.ofOption o ≠ .panic := by
  cases o <;> simp [Res.ofOption]

theorem encode_ne_panic (e : Enc) (x : Bytes) : Enc.encode e x ≠ .panic := by
  cases e <;> simp only [Enc.encode] <;> first | exact ofOption_ne_panic _ | (split <;> simp) | simp

/-- `Decode` returns a value or an error on every input and every (also negative) length -/
theorem decodeNat_ne_panic (e : Enc) (d : Bytes) (n : Nat) : Enc.decodeNat e d n ≠ .panic := by
  cases e <;> simp only [Enc.decodeNat] <;> repeat (first | (split <;> simp) | simp)

theorem decode_ne_panic (e : Enc) (d : Bytes) (n : Int) : Enc.decode e d n ≠ .panic := by
  cases n with
  | ofNat k => exact decodeNat_ne_panic e d k
  | negSucc k =>
    simp only [Enc.decode]
    split
    · exact decodeNat_ne_panic e d 0
    · simp

theorem encodeLength_ne_panic (p : Pref) (maxLen n : Nat) : encodeLength p maxLen n ≠ .panic := by
  cases p with
  | none => simp [encodeLength]
  | berTLV => simp only [encodeLength]; repeat (first | (split <;> simp) | simp)
  | fixed f => cases f <;> simp only [encodeLength] <;> split <;> simp
  | var f d =>
    cases f <;> simp only [encodeLength] <;>
      repeat (first | exact encode_ne_panic _ _ | (split <;> try simp) | simp)

/-- bytes read by a successful `Decode` were there -/
theorem decode_read_le (e : Enc) (d v : Bytes) (n : Int) (r : Nat) (h : Enc.decode e d n = .ok (v, r)) :
    r ≤ d.length := by
  by_cases he : e = .berTag
  · subst he; exact (C07.berTag_read_bounds d v n r h).2.1
  · obtain ⟨k, _, hk⟩ := C07.decode_ok_nonneg e d v n r he h
    exact (C07.decode_ok_sound e d v k r he hk).2.1

/-! ## What `EncodeLength` accepts (no bound on `n`, no `maxInt` hypothesis) -/

theorem minimalBE_length_le : ∀ (fuel n k : Nat), n < 256 ^ k → (minimalBE fuel n).length ≤ k := by
  intro fuel
  induction fuel with
  | zero => intro n k _; simp [minimalBE]
  | succ fuel ih =>
    intro n k h
    by_cases hn : n = 0
    · simp [minimalBE, hn]
    · cases k with
      | zero => simp at h; omega
      | succ k =>
        have hdiv : n / 256 < 256 ^ k := by
          rw [Nat.pow_succ] at h
          exact Nat.div_lt_of_lt_mul (by rw [Nat.mul_comm]; exact h)
        have := ih (n / 256) k hdiv
        simp [minimalBE, hn]; omega

theorem minimalBE_length_gt : ∀ (fuel n k : Nat), 256 ^ k ≤ n → k < fuel → k < (minimalBE fuel n).length := by
  intro fuel
  induction fuel with
  | zero => intro n k _ h; omega
  | succ fuel ih =>
    intro n k h hk
    have hpos : 0 < 256 ^ k := Nat.pow_pos (by omega)
    have hn : n ≠ 0 := by omega
    simp only [minimalBE, hn, ite_false, List.length_append, List.length_singleton]
    cases k with
    | zero => omega
    | succ k =>
      have hdiv : 256 ^ k ≤ n / 256 := by
        rw [Nat.pow_succ] at h
        exact (Nat.le_div_iff_mul_le (by omega)).mpr h
      have := ih (n / 256) k hdiv (by omega)
      omega

/-- the lengths a prefixer can announce for a field of maximum / fixed length `maxLen`:
exactly `maxLen` when fixed (`2·maxLen` hex digits for `Hex.Fixed`, KF1), at most `maxLen` and
below `base^digits` when variable; BER-TLV with `maxLen = 0` and `None` declare no bound. -/
def Pref.lenOK : Pref → Nat → Nat → Prop
  | .fixed .hex, maxLen, n => n = 2 * maxLen
  | .fixed _, maxLen, n => n = maxLen
  | .none, _, _ => True
  | .berTLV, maxLen, n => maxLen = 0 ∨ n ≤ maxLen
  | .var f d, maxLen, n => n ≤ maxLen ∧ n ≤ C06.capacity f d

theorem lenOK_representable (p : Pref) (maxLen n : Nat) (hne : p ≠ .fixed .hex) :
    p.lenOK maxLen n ↔ C06.Representable p maxLen n := by
  cases p with
  | fixed f => cases f <;> first | exact absurd rfl hne | exact Iff.rfl
  | none => exact Iff.rfl
  | berTLV => exact Iff.rfl
  | var f d => exact Iff.rfl

theorem pow256 (d : Nat) : (256 : Nat) ^ d = 2 ^ (d * 8) := by rw [Nat.mul_comm, Nat.pow_mul]

/-- **`EncodeLength` succeeds exactly on the announceable lengths** (any `n`) -/
theorem encodeLength_ok_iff (p : Pref) (maxLen n : Nat) (hp : p.exportedB = true) :
    (∃ pre, encodeLength p maxLen n = .ok pre) ↔ p.lenOK maxLen n := by
  cases p with
  | none => simp [encodeLength, Pref.lenOK]
  | fixed f =>
    cases f <;> simp only [encodeLength, Pref.lenOK]
    case hex =>
      by_cases h : n = maxLen * 2
      · simp [h, Nat.mul_comm]
      · have : ¬ n = 2 * maxLen := by omega
        simp [h]; omega
    all_goals
      by_cases h : n = maxLen
      · simp [h]
      · simp [h]
  | berTLV =>
    simp only [encodeLength, Pref.lenOK]
    by_cases h : maxLen ≠ 0 ∧ n > maxLen
    · simp [h]
    · have h' : maxLen = 0 ∨ n ≤ maxLen := by omega
      simp only [h, ite_false, h', iff_true]
      split <;> simp
  | var f d =>
    obtain ⟨hd1, hd6⟩ := exportedB_var hp
    simp only [Pref.lenOK]
    by_cases h1 : n ≤ maxLen
    · by_cases h2 : n ≤ C06.capacity f d
      · simp only [h1, h2, and_self, iff_true]
        cases f with
        | ascii =>
          have h10 := C06.pow_pos' 10 d (by omega)
          exact ⟨_, (C06.ascii_dec_enc d maxLen n [] hd1 h1 (by simp only [C06.capacity] at h2; omega)).1⟩
        | ebcdic =>
          have h10 := C06.pow_pos' 10 d (by omega)
          obtain ⟨bs, h, _⟩ := C06.ebcdic_dec_enc d maxLen n [] hd1 h1 (by simp only [C06.capacity] at h2; omega)
          exact ⟨bs, h⟩
        | ebcdic1047 =>
          have h10 := C06.pow_pos' 10 d (by omega)
          obtain ⟨bs, h, _⟩ := C06.ebcdic1047_dec_enc d maxLen n [] hd1 h1 (by simp only [C06.capacity] at h2; omega)
          exact ⟨bs, h⟩
        | bcd =>
          have h10 := C06.pow_pos' 10 d (by omega)
          obtain ⟨bs, h, _⟩ := C06.bcd_dec_enc d maxLen n [] hd1 h1 (by simp only [C06.capacity] at h2; omega)
          exact ⟨bs, h⟩
        | hex =>
          obtain ⟨bs, h, _⟩ := C06.hex_dec_enc d maxLen n [] h1
            (by simp only [C06.capacity] at h2; rw [← pow256]; exact h2)
          exact ⟨bs, h⟩
        | binary =>
          have hpos := C06.pow_pos' 256 d (by omega)
          have hl : (beBytes n).length ≤ d :=
            minimalBE_length_le 9 n d (by simp only [C06.capacity] at h2; omega)
          have e1 : ¬ n > maxLen := by omega
          have e2 : ¬ (beBytes n).length > d := by omega
          simp [encodeLength, e1, e2]
      · have e1 : ¬ n > maxLen := by omega
        simp only [h1, h2, and_false, iff_false, not_exists]
        intro pre
        cases f with
        | ascii =>
          have : n ≥ 10 ^ d := by simp only [C06.capacity] at h2; omega
          simp [encodeLength, e1, this]
        | ebcdic =>
          have : n ≥ 10 ^ d := by simp only [C06.capacity] at h2; omega
          simp [encodeLength, e1, this]
        | ebcdic1047 =>
          have : n ≥ 10 ^ d := by simp only [C06.capacity] at h2; omega
          simp [encodeLength, e1, this]
        | bcd =>
          have : n ≥ 10 ^ d := by simp only [C06.capacity] at h2; omega
          simp [encodeLength, e1, this]
        | hex =>
          have : n > 2 ^ (d * 8) - 1 := by simp only [C06.capacity] at h2; rw [← pow256]; omega
          simp [encodeLength, e1, this]
        | binary =>
          have hge : 256 ^ d ≤ n := by
            have hpos := C06.pow_pos' 256 d (by omega)
            simp only [C06.capacity] at h2; omega
          have : (beBytes n).length > d := minimalBE_length_gt 9 n d hge (by omega)
          simp [encodeLength, e1, this]
    · have e1 : n > maxLen := by omega
      simp only [h1, false_and, iff_false, not_exists]
      intro pre
      cases f <;> simp [encodeLength, e1]

/-- … and otherwise it returns an error (never a panic, never bytes) -/
theorem encodeLength_err_iff (p : Pref) (maxLen n : Nat) (hp : p.exportedB = true) :
    encodeLength p maxLen n = .err ↔ ¬ p.lenOK maxLen n := by
  rw [← encodeLength_ok_iff p maxLen n hp]
  have hnp := encodeLength_ne_panic p maxLen n
  cases h : encodeLength p maxLen n with
  | ok pre => simp
  | err => simp
  | panic => exact absurd h hnp

/-- **prefix round trip** in the form the packers use it: whatever `EncodeLength` returned
is read back by `DecodeLength`, consuming exactly the prefix, whatever follows. For `None`
the announced length is the length of what follows. -/
theorem prefix_roundtrip (p : Pref) (maxLen n : Nat) (pre rest : Bytes) (hp : p.exportedB = true)
    (hne : p ≠ .fixed .hex) (hn : n ≤ maxInt) (h : encodeLength p maxLen n = .ok pre)
    (hnone : p = .none → n = rest.length) :
    decodeLength p maxLen (pre ++ rest) = .ok (n, pre.length) := by
  by_cases hnn : p = .none
  · subst hnn
    simp only [encodeLength, Res.ok.injEq] at h
    subst h
    simp [decodeLength, hnone rfl]
  · have hok : p.lenOK maxLen n := (encodeLength_ok_iff p maxLen n hp).mp ⟨pre, h⟩
    have hr := (lenOK_representable p maxLen n hne).mp hok
    obtain ⟨bs, h1, h2, _⟩ := C06.dec_enc p maxLen n rest (exportedB_exported p hp) hne hnn hn hr
    rw [h] at h1
    simp only [Res.ok.injEq] at h1
    subst h1
    exact h2

/-! ## What `PrimSpec.coherent` gives (K1, K3, K7, K8 unpacked) -/

section coherent
variable {s : PrimSpec} {lp : Bool}

theorem coh_exported (h : s.coherent lp = true) : s.pref.exportedB = true := by
  simp only [PrimSpec.coherent, Bool.and_eq_true] at h
  exact h.1.1.1.1.1.1

/-- `spec.Length` is a Go int -/
theorem coh_len (h : s.coherent lp = true) : s.len ≤ maxInt := by
  simp only [PrimSpec.coherent, Bool.and_eq_true, decide_eq_true_eq] at h
  exact h.2

/-- K1: `ASCIIHexToBytes` goes with `Hex.Fixed` and only with it; no BER tag encoder on a value -/
theorem coh_enc (h : s.coherent lp = true) :
    s.enc ≠ .berTag ∧ (s.enc = .hexToBytes ↔ s.pref = .fixed .hex) := by
  simp only [PrimSpec.coherent, Bool.and_eq_true] at h
  have h2 := h.1.1.1.1.1.2
  obtain ⟨kind, len, enc, pref, pad, packer⟩ := s
  simp only at h2 ⊢
  cases enc <;> cases pref <;> (try rename_i f; cases f) <;> simp_all

theorem coh_hex (h : s.coherent lp = true) (he : s.enc = .hexToBytes) :
    s.kind = .string ∧ s.pad.char? = Option.none := by
  simp only [PrimSpec.coherent, Bool.and_eq_true] at h
  have h2 := h.1.1.1.1.1.2
  obtain ⟨kind, len, enc, pref, pad, packer⟩ := s
  simp only at h2 he ⊢
  subst he
  cases pref <;> (try rename_i f; cases f) <;> simp_all

/-- K7: `None` needs an encoder with one byte per unit -/
theorem coh_none (h : s.coherent lp = true) (hp : s.pref = .none) :
    s.enc = .ascii ∨ s.enc = .ebcdic ∨ s.enc = .ebcdic1047 ∨ s.enc = .binary := by
  simp only [PrimSpec.coherent, Bool.and_eq_true] at h
  have h3 := h.1.1.1.1.2
  obtain ⟨kind, len, enc, pref, pad, packer⟩ := s
  simp only at h3 hp ⊢
  subst hp
  cases enc <;> simp_all

/-- K3: a real padder needs a prefix that bounds the length, and the bound is announceable -/
theorem coh_pad (h : s.coherent lp = true) (c : Byte) (hc : s.pad.char? = some c) :
    s.pref ≠ .none ∧ (s.pref = .berTLV → 1 ≤ s.len) ∧
    (s.packer = .default → ∀ cap, s.pref.capacityOf = some cap → s.len ≤ cap) := by
  simp only [PrimSpec.coherent, Bool.and_eq_true] at h
  have h4 := h.1.1.1.2
  obtain ⟨kind, len, enc, pref, pad, packer⟩ := s
  simp only at h4 hc ⊢
  rw [hc] at h4
  simp only [Bool.and_eq_true, decide_eq_true_eq] at h4
  obtain ⟨⟨⟨_, _⟩, h43⟩, h44⟩ := h4
  refine ⟨?_, ?_, ?_⟩
  · intro hp; subst hp; simp at h43
  · intro hp; subst hp; simpa using h43
  · intro hd cap hcap
    subst hd
    rw [hcap] at h44
    simpa using h44

/-- K3 for Numeric: the pad character can not be mistaken for part of the number -/
theorem coh_numeric (h : s.coherent lp = true) (hk : s.kind = .numeric) : numPadOK s.pad := by
  simp only [PrimSpec.coherent, Bool.and_eq_true] at h
  have h5 := h.1.1.2
  obtain ⟨kind, len, enc, pref, pad, packer⟩ := s
  simp only at h5 hk ⊢
  subst hk
  simp only [Bool.and_eq_true] at h5
  have h52 := h5.1.2
  cases pad with
  | nil => trivial
  | none => trivial
  | left c =>
    simp only [Bool.or_eq_true, beq_iff_eq, Bool.not_eq_true', Bool.or_eq_false_iff, beq_eq_false_iff_ne] at h52
    simp only [numPadOK]
    rcases h52 with h | ⟨⟨h1, h2⟩, h3⟩
    · exact Or.inl h
    · right
      intro hh
      rcases hh with hh | hh | hh
      · have := (isDigitB_iff c).mpr hh; rw [this] at h1; cases h1
      · exact h2 hh
      · exact h3 hh
  | right c =>
    simp only [Bool.not_eq_true', Bool.or_eq_false_iff, beq_eq_false_iff_ne] at h52
    simp only [numPadOK]
    obtain ⟨⟨h1, h2⟩, h3⟩ := h52
    intro hh
    rcases hh with hh | hh | hh
    · have := (isDigitB_iff c).mpr hh; rw [this] at h1; cases h1
    · exact h2 hh
    · exact h3 hh

/-- the custom Track2 packer is for String fields with a real padder and a variable-length prefix -/
theorem coh_track2 (h : s.coherent lp = true) (hp : s.packer = .track2) :
    s.kind = .string ∧ ∃ c, s.pad.char? = some c := by
  simp only [PrimSpec.coherent, Bool.and_eq_true] at h
  have h6 := h.1.2
  obtain ⟨kind, len, enc, pref, pad, packer⟩ := s
  simp only at h6 hp ⊢
  subst hp
  simp only [Bool.and_eq_true, beq_iff_eq] at h6
  refine ⟨h6.1.1, ?_⟩
  cases hc : pad.char? with
  | none => rw [hc] at h6; simp at h6
  | some c => exact ⟨c, rfl⟩

theorem coh_track2_var (h : s.coherent lp = true) (hp : s.packer = .track2) :
    (∃ f d, s.pref = .var f d) ∨ s.pref = .berTLV := by
  simp only [PrimSpec.coherent, Bool.and_eq_true] at h
  have h6 := h.1.2
  obtain ⟨kind, len, enc, pref, pad, packer⟩ := s
  simp only at h6 hp ⊢
  subst hp
  simp only [Bool.and_eq_true] at h6
  have := h6.2
  cases pref with
  | var f d => exact Or.inl ⟨f, d, rfl⟩
  | berTLV => exact Or.inr rfl
  | fixed f => simp at this
  | none => simp at this

end coherent

theorem char?_none {p : Pad} (h : p.char? = Option.none) : p = .nil ∨ p = .none := by
  cases p <;> simp_all [Pad.char?]

theorem char?_some {p : Pad} {c : Byte} (h : p.char? = some c) : p = .left c ∨ p = .right c := by
  cases p <;> simp_all [Pad.char?]

/-! ## The value encoder inside a field -/

/-- C07 for the encoders whose unit is the source character (everything except the two
hex-text encoders): decoding what `Encode` produced, asked for the source length, returns
the source and reads exactly the encoded bytes, whatever follows -/
theorem enc_roundtrip (e : Enc) (x y tail : Bytes) (he1 : e ≠ .hexToBytes) (he2 : e ≠ .berTag)
    (hacc : e.accepts x = true) (henc : Enc.encode e x = .ok y) :
    Enc.decode e (y ++ tail) (x.length : Int) = .ok (x, y.length) := by
  obtain ⟨y', h1, h2⟩ := C07.decode_encode e x tail (accepts_inDomain e x hacc)
  rw [henc] at h1
  simp only [Res.ok.injEq] at h1
  subst h1
  have h3 := h2 (fun h => absurd h he2)
  cases e <;> first | exact absurd rfl he1 | exact absurd rfl he2 | exact h3

/-- one byte per unit (the encoders K7 allows under the `None` prefix) -/
theorem enc_bytewise_length (e : Enc) (x y : Bytes)
    (he : e = .ascii ∨ e = .ebcdic ∨ e = .ebcdic1047 ∨ e = .binary)
    (hacc : e.accepts x = true) (henc : Enc.encode e x = .ok y) : y.length = x.length := by
  have hdom := accepts_inDomain e x hacc
  rcases he with rfl | rfl | rfl | rfl
  · have := (C07.ascii_decode_encode x [] hdom).1
    rw [henc] at this; simp only [Res.ok.injEq] at this; rw [this]
  · obtain ⟨y', h1, h2, _⟩ := C07.ebcdic_decode_encode x []
    rw [henc] at h1; simp only [Res.ok.injEq] at h1; rw [h1]; exact h2
  · obtain ⟨y', h1, h2, _⟩ := C07.ebcdic1047_decode_encode x [] hdom
    rw [henc] at h1; simp only [Res.ok.injEq] at h1; rw [h1]; exact h2
  · have := (C07.binary_decode_encode x []).1
    rw [henc] at this; simp only [Res.ok.injEq] at this; rw [this]

theorem hexVal_upperHex (c : Byte) : hexVal? (upperHex c) = hexVal? c := by
  unfold upperHex
  split
  · rename_i h
    have e : (UInt8.ofNat (c.toNat - 32)).toNat = c.toNat - 32 := ofNat_toNat_lt (by omega)
    unfold hexVal?
    simp only [e]
    have h1 : ¬ (48 ≤ c.toNat - 32 ∧ c.toNat - 32 ≤ 57) := by omega
    have h2 : (65 ≤ c.toNat - 32 ∧ c.toNat - 32 ≤ 70) := by omega
    have h3 : ¬ (48 ≤ c.toNat ∧ c.toNat ≤ 57) := by omega
    have h4 : ¬ (65 ≤ c.toNat ∧ c.toNat ≤ 70) := by omega
    simp only [h1, h2, h3, h4, h, ite_true, ite_false, and_self]
    congr 1 <;> omega
  · rfl

/-- `hex.Decode` does not see the case of the digits -/
theorem hexDecode_map_upperHex : ∀ (x : Bytes), hexDecode (x.map upperHex) = hexDecode x := by
  intro x
  induction x using pairInduction with
  | h0 => rfl
  | h1 a => rfl
  | h2 a b l ih =>
    simp only [List.map_cons, hexDecode, hexVal_upperHex, ih]

/-! ## Pack / Unpack at the byte level (`defaultPacker`, `Track2Packer`) -/

namespace PrimSpec

/-- what a successful `defaultPacker.Pack` did -/
theorem packBytes_default_ok (s : PrimSpec) (b bs : Bytes) (hd : s.packer = .default)
    (h : s.packBytes b = .ok bs) :
    ∃ encoded pre, Enc.encode s.enc (s.pad.pad b s.len) = .ok encoded ∧
      s.pref.encodeLength s.len (s.pad.pad b s.len).length = .ok pre ∧ bs = pre ++ encoded := by
  unfold packBytes at h
  rw [hd] at h
  simp only at h
  cases he : Enc.encode s.enc (s.pad.pad b s.len) with
  | err => rw [he] at h; cases h
  | panic => rw [he] at h; cases h
  | ok encoded =>
    rw [he] at h
    simp only at h
    cases hp : s.pref.encodeLength s.len (s.pad.pad b s.len).length with
    | err => rw [hp] at h; cases h
    | panic => rw [hp] at h; cases h
    | ok pre =>
      rw [hp] at h
      simp only [Res.ok.injEq] at h
      exact ⟨encoded, pre, rfl, rfl, h.symm⟩

/-- the data `Track2Packer.Pack` encodes: the value padded to the next even length -/
def track2Data (s : PrimSpec) (b : Bytes) : Bytes :=
  if s.pad ≠ .nil ∧ b.length % 2 ≠ 0 then s.pad.pad b (b.length + 1) else b

/-- what a successful `Track2Packer.Pack` did -/
theorem packBytes_track2_ok (s : PrimSpec) (b bs : Bytes) (hd : s.packer = .track2)
    (h : s.packBytes b = .ok bs) :
    ∃ encoded pre, Enc.encode s.enc (s.track2Data b) = .ok encoded ∧
      s.pref.encodeLength s.len b.length = .ok pre ∧ bs = pre ++ encoded := by
  unfold packBytes at h
  rw [hd] at h
  simp only at h
  cases he : Enc.encode s.enc (s.track2Data b) with
  | err => unfold track2Data at he; rw [he] at h; cases h
  | panic => unfold track2Data at he; rw [he] at h; cases h
  | ok encoded =>
    have he' := he
    unfold track2Data at he'
    rw [he'] at h
    simp only at h
    cases hp : s.pref.encodeLength s.len b.length with
    | err => rw [hp] at h; cases h
    | panic => rw [hp] at h; cases h
    | ok pre =>
      rw [hp] at h
      simp only [Res.ok.injEq] at h
      exact ⟨encoded, pre, rfl, rfl, h.symm⟩

theorem pad_length_le_maxInt (p : Pad) (b : Bytes) (len : Nat) (hb : b.length ≤ maxInt) (hl : len ≤ maxInt) :
    (p.pad b len).length ≤ maxInt := by
  cases p with
  | nil => simpa [Pad.pad] using hb
  | none => simpa [Pad.pad] using hb
  | left c => rw [C20.pad_length _ _ _ ⟨by simp, by simp⟩]; omega
  | right c => rw [C20.pad_length _ _ _ ⟨by simp, by simp⟩]; omega

/-- the number of units `Unpack` asks the value decoder for, given the announced length:
the Track2 unpacker rounds an odd length up to the next even number when there is a padder -/
def valueLength (s : PrimSpec) (n : Nat) : Nat :=
  match s.packer with
  | .default => n
  | .track2 => if s.pad ≠ .nil ∧ n % 2 ≠ 0 then n + 1 else n

/-- the Track2 unpacker's final check: the unpadded value is not longer than announced -/
def lengthCheck (s : PrimSpec) (n : Nat) (raw : Bytes) : Bool :=
  match s.packer with
  | .default => true
  | .track2 => decide (raw.length ≤ n)

theorem track2_len (c : Prop) [Decidable c] (n : Nat) :
    (if c then (n : Int) + 1 else (n : Int)) = ((if c then n + 1 else n : Nat) : Int) := by
  split <;> simp

/-- `unpackBytes` with the two packers' adjustments named -/
theorem unpackBytes_eq (s : PrimSpec) (data : Bytes) :
    s.unpackBytes data =
      match s.pref.decodeLength s.len data with
      | .err => .err
      | .panic => .panic
      | .ok (n, k) =>
        if k > data.length then .panic
        else match Enc.decode s.enc (data.drop k) (s.valueLength n : Int) with
          | .err => .err
          | .panic => .panic
          | .ok (value, read) =>
            if s.lengthCheck n (s.pad.unpad value) = true then .ok (s.pad.unpad value, read + k) else .err := by
  unfold unpackBytes valueLength lengthCheck
  cases hdl : s.pref.decodeLength s.len data with
  | err => rfl
  | panic => rfl
  | ok r =>
    obtain ⟨n, k⟩ := r
    cases hp : s.packer with
    | default => simp only [ite_true]; rfl
    | track2 =>
      simp only [track2_len, decide_eq_true_eq]
      by_cases hk : k > data.length
      · simp only [hk, ite_true]
      · simp only [hk, ite_false]
        cases Enc.decode s.enc (data.drop k) ((if s.pad ≠ .nil ∧ n % 2 ≠ 0 then n + 1 else n : Nat) : Int) with
        | err => rfl
        | panic => rfl
        | ok q =>
          obtain ⟨value, read⟩ := q
          simp only
          by_cases hl : (s.pad.unpad value).length > n
          · have : ¬ (s.pad.unpad value).length ≤ n := by omega
            simp only [hl, this, ite_true, ite_false]
          · have : (s.pad.unpad value).length ≤ n := by omega
            simp only [hl, this, ite_true, ite_false]

/-- the shape of `unpackBytes` once the prefix and the value decoder are known -/
theorem unpackBytes_of (s : PrimSpec) (data value : Bytes) (n k read : Nat)
    (h1 : s.pref.decodeLength s.len data = .ok (n, k)) (hk : k ≤ data.length)
    (h2 : Enc.decode s.enc (data.drop k) (s.valueLength n : Int) = .ok (value, read))
    (h3 : s.lengthCheck n (s.pad.unpad value) = true) :
    s.unpackBytes data = .ok (s.pad.unpad value, read + k) := by
  rw [unpackBytes_eq, h1]
  have : ¬ k > data.length := by omega
  simp only [this, ite_false]
  rw [h2]
  simp only [h3, ite_true]

/-- **defaultPacker round trip** (every coherent combination except `ASCIIHexToBytes` +
`Hex.Fixed`): Unpack of the packed bytes, whatever follows, returns the padded value with
the padding stripped, and reads exactly what Pack wrote -/
theorem unpackBytes_packBytes_default (s : PrimSpec) (lp : Bool) (b bs tail : Bytes)
    (hc : s.coherent lp = true) (hd : s.packer = .default) (hhex : s.enc ≠ .hexToBytes)
    (hacc : s.enc.accepts (s.pad.pad b s.len) = true) (hb : b.length ≤ maxInt)
    (hpack : s.packBytes b = .ok bs) (ht : s.pref = .none → tail = []) :
    s.unpackBytes (bs ++ tail) = .ok (s.pad.unpad (s.pad.pad b s.len), bs.length) := by
  obtain ⟨encoded, pre, henc, hpre, rfl⟩ := packBytes_default_ok s b bs hd hpack
  obtain ⟨hber, hK1⟩ := coh_enc hc
  have hne : s.pref ≠ .fixed .hex := fun h => hhex (hK1.mpr h)
  have hn := pad_length_le_maxInt s.pad b s.len hb (coh_len hc)
  have hdec : ∀ t, Enc.decode s.enc (encoded ++ t) ((s.pad.pad b s.len).length : Int) =
      .ok (s.pad.pad b s.len, encoded.length) :=
    fun t => enc_roundtrip s.enc _ encoded t hhex hber hacc henc
  have hdl : s.pref.decodeLength s.len (pre ++ (encoded ++ tail)) = .ok ((s.pad.pad b s.len).length, pre.length) := by
    apply prefix_roundtrip s.pref s.len _ pre (encoded ++ tail) (coh_exported hc) hne hn hpre
    intro hnone
    rw [ht hnone, List.append_nil]
    exact (enc_bytewise_length s.enc _ encoded (coh_none hc hnone) hacc henc).symm
  have := unpackBytes_of s (pre ++ (encoded ++ tail)) (s.pad.pad b s.len) _ pre.length encoded.length hdl
    (by simp) (by simp only [valueLength, hd, List.drop_left']; exact hdec tail) (by simp [lengthCheck, hd])
  rw [List.append_assoc, this, List.length_append, Nat.add_comm]

/-- **defaultPacker round trip, `ASCIIHexToBytes` + `Hex.Fixed`** (K1: String kind, no padder;
the prefix counts hex digits on encode and bytes on decode, KF1): the hex text comes back
upper-cased -/
theorem unpackBytes_packBytes_hexFixed (s : PrimSpec) (lp : Bool) (b bs tail : Bytes)
    (hc : s.coherent lp = true) (hd : s.packer = .default) (hhex : s.enc = .hexToBytes)
    (hacc : s.enc.accepts (s.pad.pad b s.len) = true) (hpack : s.packBytes b = .ok bs) :
    s.unpackBytes (bs ++ tail) = .ok (b.map upperHex, bs.length) ∧ b.length = 2 * s.len ∧
      s.pad.pad b s.len = b := by
  obtain ⟨encoded, pre, henc, hpre, rfl⟩ := packBytes_default_ok s b bs hd hpack
  have hpf : s.pref = .fixed .hex := (coh_enc hc).2.mp hhex
  obtain ⟨_, hch⟩ := coh_hex hc hhex
  have hpad : s.pad.pad b s.len = b := by rcases char?_none hch with h | h <;> simp [h, Pad.pad]
  have hunpad : ∀ v, s.pad.unpad v = v := by
    intro v; rcases char?_none hch with h | h <;> simp [h, Pad.unpad]
  rw [hpad] at henc hpre hacc
  rw [hhex] at henc hacc
  rw [hpf] at hpre
  have hdom := accepts_inDomain .hexToBytes b hacc
  obtain ⟨y, h1, h2, h3⟩ := C07.hexToBytes_decode_encode b tail hdom.1 hdom.2
  rw [henc] at h1
  simp only [Res.ok.injEq] at h1
  subst h1
  have hlen : b.length = 2 * s.len := by
    have := (C06.hex_fixed_partial s.len b.length []).2.1
    by_cases h : b.length = 2 * s.len
    · exact h
    · rw [this.mpr h] at hpre; cases hpre
  have hpre' : pre = [] := by
    have := ((C06.hex_fixed_partial s.len b.length []).1).mpr hlen
    rw [this] at hpre; simp only [Res.ok.injEq] at hpre; exact hpre.symm
  subst hpre'
  have hel : encoded.length = s.len := by omega
  have hdl : s.pref.decodeLength s.len ([] ++ (encoded ++ tail)) = .ok (s.len, 0) := by
    rw [hpf]; exact (C06.hex_fixed_partial s.len 0 _).2.2
  have := unpackBytes_of s ([] ++ (encoded ++ tail)) (b.map upperHex) s.len 0 encoded.length hdl
    (by simp) (by simp only [valueLength, hd, List.nil_append, List.drop_zero]; rw [hhex, ← hel]; exact h3)
    (by simp [lengthCheck, hd])
  rw [hunpad] at this
  refine ⟨?_, hlen, hpad⟩
  rw [List.append_assoc, this]
  simp

/-- **Track2Packer round trip**: for a value that does not itself begin (Left) / end (Right)
with the pad character, Unpack returns the value and reads exactly what Pack wrote -/
theorem unpackBytes_packBytes_track2 (s : PrimSpec) (lp : Bool) (b bs tail : Bytes)
    (hc : s.coherent lp = true) (hd : s.packer = .track2)
    (hacc : s.enc.accepts (s.pad.pad b (b.length + b.length % 2)) = true) (hb : b.length ≤ maxInt)
    (hedge : match s.pad with
      | .left c => b.head? ≠ some c
      | .right c => b.getLast? ≠ some c
      | _ => True)
    (hpack : s.packBytes b = .ok bs) :
    s.unpackBytes (bs ++ tail) = .ok (b, bs.length) ∧ (∀ m, s.pad.unpad (s.pad.pad b m) = b) := by
  obtain ⟨encoded, pre, henc, hpre, rfl⟩ := packBytes_track2_ok s b bs hd hpack
  obtain ⟨hber, hK1⟩ := coh_enc hc
  obtain ⟨_, c, hch⟩ := coh_track2 hc hd
  have hhex : s.enc ≠ .hexToBytes := by
    intro h; have := (coh_hex hc h).2; rw [this] at hch; cases hch
  have hne : s.pref ≠ .fixed .hex := fun h => hhex (hK1.mpr h)
  have hnn : s.pref ≠ .none := (coh_pad hc c hch).1
  -- the data is the value padded to the next even length
  have hreal : s.pad ≠ .nil ∧ s.pad ≠ .none := by
    rcases char?_some hch with h | h <;> rw [h] <;> exact ⟨by simp, by simp⟩
  have hdata : s.track2Data b = s.pad.pad b (b.length + b.length % 2) := by
    unfold track2Data
    by_cases hodd : b.length % 2 ≠ 0
    · have : b.length % 2 = 1 := by omega
      simp [hreal.1, this]
    · have h0 : b.length % 2 = 0 := by omega
      have hcnd : ¬ (s.pad ≠ .nil ∧ b.length % 2 ≠ 0) := fun h => h.2 h0
      rw [if_neg hcnd, h0, Nat.add_zero]
      exact (C20.pad_ge _ _ _ (Nat.le_refl _)).symm
  have hdlen : (s.track2Data b).length = b.length + b.length % 2 := by
    rw [hdata, C20.pad_length _ _ _ hreal]; omega
  have hunpad : ∀ m, s.pad.unpad (s.pad.pad b m) = b := by
    intro m
    rcases char?_some hch with h | h
    · rw [h] at hedge ⊢
      exact C20.unpad_pad_left c b m (fun x hx hxc => hedge (by rw [hx, hxc]))
    · rw [h] at hedge ⊢
      exact C20.unpad_pad_right c b m (fun x hx hxc => hedge (by rw [hx, hxc]))
  refine ⟨?_, hunpad⟩
  rw [hdata] at henc
  have hdec := enc_roundtrip s.enc _ encoded tail hhex hber hacc henc
  rw [← hdata, hdlen] at hdec
  have hdl : s.pref.decodeLength s.len (pre ++ (encoded ++ tail)) = .ok (b.length, pre.length) :=
    prefix_roundtrip s.pref s.len _ pre (encoded ++ tail) (coh_exported hc) hne hb hpre
      (fun h => absurd h hnn)
  have hround : (if s.pad ≠ .nil ∧ b.length % 2 ≠ 0 then b.length + 1 else b.length) = b.length + b.length % 2 := by
    by_cases hodd : b.length % 2 ≠ 0
    · simp only [hreal.1, hodd, ne_eq, not_false_eq_true, and_self, ite_true]; omega
    · have h0 : b.length % 2 = 0 := by omega
      have hcnd : ¬ (s.pad ≠ .nil ∧ b.length % 2 ≠ 0) := fun h => h.2 h0
      rw [if_neg hcnd, h0]; rfl
  have := unpackBytes_of s (pre ++ (encoded ++ tail)) (s.track2Data b) _ pre.length encoded.length hdl
    (by simp) (by simp only [valueLength, hd, List.drop_left', hround]; exact hdec)
    (by simp [lengthCheck, hd, hdata, hunpad])
  rw [List.append_assoc, this, hdata, hunpad, List.length_append, Nat.add_comm]

/-! ## C01 at the primitive layer: Pack, then Unpack, then Pack again -/

theorem unpack_of_bytes (s : PrimSpec) (data raw : Bytes) (read : Nat) (v : Value)
    (h1 : s.unpackBytes data = .ok (raw, read)) (h2 : s.setBytes raw = .ok v) :
    s.unpack data = .ok (v, read) := by
  simp [unpack, h1, h2]

theorem pack_of_bytes (s : PrimSpec) (v : Value) (b : Bytes) (h : s.valueBytes v = .ok b) :
    s.pack v = s.packBytes b := by
  simp [pack, h]

/-- re-padding what unpadding left of a value that has exactly the pad length gives it back -/
theorem pad_unpad_of_length (p : Pad) (P : Bytes) (len : Nat) (h : P.length = len) :
    p.pad (p.unpad P) len = P := by
  cases p with
  | nil => simp [Pad.pad, Pad.unpad]
  | none => simp [Pad.pad, Pad.unpad]
  | left c =>
    obtain ⟨k, hk, _⟩ := C20.unpad_left_only_pad c P
    generalize Pad.unpad (.left c) P = u at hk ⊢
    have hl : P.length = k + u.length := by rw [hk]; simp
    simp only [Pad.pad]
    split
    · have : k = 0 := by omega
      rw [hk, this]; simp
    · have : len - u.length = k := by omega
      rw [this]; exact hk.symm
  | right c =>
    obtain ⟨k, hk, _⟩ := C20.unpad_right_only_pad c P
    generalize Pad.unpad (.right c) P = u at hk ⊢
    have hl : P.length = u.length + k := by rw [hk]; simp
    simp only [Pad.pad]
    split
    · have : k = 0 := by omega
      rw [hk, this]; simp
    · have : len - u.length = k := by omega
      rw [this]; exact hk.symm

/-- **a packed padded value has exactly the declared length**, hence padding is idempotent
through Unpad: `pad (unpad (pad b)) = pad b` whenever `defaultPacker.Pack` accepted `b` -/
theorem pad_unpad_pad (s : PrimSpec) (lp : Bool) (b pre : Bytes) (hc : s.coherent lp = true)
    (hpre : s.pref.encodeLength s.len (s.pad.pad b s.len).length = .ok pre) :
    s.pad.pad (s.pad.unpad (s.pad.pad b s.len)) s.len = s.pad.pad b s.len := by
  cases hch : s.pad.char? with
  | none => rcases char?_none hch with h | h <;> simp [h, Pad.pad, Pad.unpad]
  | some c =>
    apply pad_unpad_of_length
    have hreal : s.pad ≠ .nil ∧ s.pad ≠ .none := by
      rcases char?_some hch with h | h <;> rw [h] <;> exact ⟨by simp, by simp⟩
    have hmax := C20.pad_length s.pad b s.len hreal
    have hok := (encodeLength_ok_iff s.pref s.len _ (coh_exported hc)).mp ⟨pre, hpre⟩
    obtain ⟨hnn, hber, _⟩ := coh_pad hc c hch
    have hnh : s.pref ≠ .fixed .hex := by
      intro h
      have := (coh_hex hc ((coh_enc hc).2.mpr h)).2
      rw [this] at hch; cases hch
    have hle : (s.pad.pad b s.len).length ≤ s.len := by
      cases hp : s.pref with
      | none => exact absurd hp hnn
      | fixed f =>
        rw [hp] at hok hnh
        cases f <;> first | exact absurd rfl hnh | exact Nat.le_of_eq hok
      | berTLV =>
        rw [hp] at hok
        have := hber hp
        rcases hok with h | h
        · omega
        · exact h
      | var f d => rw [hp] at hok; exact hok.1
    omega

theorem packBytes_default_congr (s : PrimSpec) (b1 b2 : Bytes) (hd : s.packer = .default)
    (h : s.pad.pad b1 s.len = s.pad.pad b2 s.len) : s.packBytes b1 = s.packBytes b2 := by
  unfold packBytes
  rw [hd]
  simp only [h]

/-- `Field.inDomain` for a primitive, unpacked -/
theorem inDomain_str {s : PrimSpec} {b : Bytes} (h : (Field.prim s).inDomain (.str b) = true) :
    s.kind = .string ∧ b.length ≤ maxInt ∧
    (s.packer = .default → s.enc.accepts (s.pad.pad b s.len) = true) ∧
    (s.packer = .track2 → s.enc.accepts (s.pad.pad b (b.length + b.length % 2)) = true ∧
      (match s.pad with
        | .left c => b.head? ≠ some c
        | .right c => b.getLast? ≠ some c
        | _ => True)) := by
  simp only [Field.inDomain, Bool.and_eq_true, beq_iff_eq, decide_eq_true_eq] at h
  obtain ⟨⟨hk, hlen⟩, hrest⟩ := h
  refine ⟨hk, hlen, ?_, ?_⟩
  · intro hd; rw [hd] at hrest; exact hrest
  · intro hd
    rw [hd] at hrest
    simp only [Bool.and_eq_true] at hrest
    refine ⟨hrest.1, ?_⟩
    have h2 := hrest.2
    cases hp : s.pad <;> rw [hp] at h2 <;> simp_all

theorem inDomain_bin {s : PrimSpec} {b : Bytes} (h : (Field.prim s).inDomain (.bin b) = true) :
    s.kind = .binary ∧ b.length ≤ maxInt ∧ s.enc.accepts (s.pad.pad b s.len) = true := by
  simp only [Field.inDomain, Bool.and_eq_true, beq_iff_eq, decide_eq_true_eq] at h
  exact ⟨h.1.1, h.2, h.1.2⟩

theorem inDomain_hexv {s : PrimSpec} {t : Bytes} (h : (Field.prim s).inDomain (.hexv t) = true) :
    s.kind = .hex ∧ ∃ raw, Enc.hexDecode t = some raw ∧ raw.length ≤ maxInt ∧
      s.enc.accepts (s.pad.pad raw s.len) = true := by
  simp only [Field.inDomain, Bool.and_eq_true, beq_iff_eq, decide_eq_true_eq] at h
  obtain ⟨⟨⟨⟨hk, _⟩, _⟩, hlen⟩, hrest⟩ := h
  refine ⟨hk, ?_⟩
  cases hd : Enc.hexDecode t with
  | none => rw [hd] at hrest; cases hrest
  | some raw =>
    rw [hd] at hrest
    have := hexDecode_length t raw hd
    exact ⟨raw, rfl, by omega, hrest⟩

theorem inDomain_num {s : PrimSpec} {i : Int} (h : (Field.prim s).inDomain (.num i) = true) :
    s.kind = .numeric ∧ (-(2 ^ 63 : Int) ≤ i ∧ i < 2 ^ 63) ∧
      s.enc.accepts (s.pad.pad (formatInt i) s.len) = true := by
  simp only [Field.inDomain, Bool.and_eq_true, beq_iff_eq, decide_eq_true_eq] at h
  exact ⟨h.1.1, h.1.2, h.2⟩

/-- a coherent non-String field uses the default packer -/
theorem packer_default_of_kind {s : PrimSpec} {lp : Bool} (hc : s.coherent lp = true)
    (hk : s.kind ≠ .string) : s.packer = .default := by
  cases hp : s.packer with
  | default => rfl
  | track2 => exact absurd (coh_track2 hc hp).1 hk

/-- K1 again: a coherent non-String field does not use `ASCIIHexToBytes` -/
theorem enc_ne_hex_of_kind {s : PrimSpec} {lp : Bool} (hc : s.coherent lp = true)
    (hk : s.kind ≠ .string) : s.enc ≠ .hexToBytes :=
  fun h => hk (coh_hex hc h).1

/-- **Unpack ∘ Pack** for a primitive field: for a coherent spec and an in-domain value on
which Pack succeeds, Unpack of the packed bytes — whatever bytes follow (nothing, under the
`None` prefix) — returns the value in canonical form and reports having read exactly the
bytes Pack produced -/
theorem prim_unpack_pack (s : PrimSpec) (lp : Bool) (v : Value) (tail bs : Bytes)
    (hc : s.coherent lp = true) (hv : (Field.prim s).inDomain v = true)
    (hp : s.pack v = .ok bs) (ht : s.pref = .none → tail = []) :
    s.unpack (bs ++ tail) = .ok (s.canon v, bs.length) := by
  cases v with
  | comp subs => simp [Field.inDomain] at hv
  | str b =>
    obtain ⟨hk, hlen, hdef, ht2⟩ := inDomain_str hv
    have hvb : s.valueBytes (.str b) = .ok b := by simp [valueBytes, hk]
    rw [pack_of_bytes s _ b hvb] at hp
    cases hpkr : s.packer with
    | default =>
      by_cases hhex : s.enc = .hexToBytes
      · obtain ⟨h1, _, _⟩ := unpackBytes_packBytes_hexFixed s lp b bs tail hc hpkr hhex (hdef hpkr) hp
        apply unpack_of_bytes _ _ _ _ _ h1
        simp [setBytes, hk, canon, hhex, upperHexB_eq]
      · have h1 := unpackBytes_packBytes_default s lp b bs tail hc hpkr hhex (hdef hpkr) hlen hp ht
        apply unpack_of_bytes _ _ _ _ _ h1
        simp [setBytes, hk, canon, hhex]
    | track2 =>
      obtain ⟨hacc, hedge⟩ := ht2 hpkr
      obtain ⟨h1, hun⟩ := unpackBytes_packBytes_track2 s lp b bs tail hc hpkr hacc hlen hedge hp
      apply unpack_of_bytes _ _ _ _ _ h1
      obtain ⟨_, c, hch⟩ := coh_track2 hc hpkr
      have hhex : s.enc ≠ .hexToBytes := by
        intro h; have := (coh_hex hc h).2; rw [this] at hch; cases hch
      simp [setBytes, hk, canon, hhex, hun]
  | bin b =>
    obtain ⟨hk, hlen, hacc⟩ := inDomain_bin hv
    have hks : s.kind ≠ .string := by rw [hk]; simp
    have hvb : s.valueBytes (.bin b) = .ok b := by simp [valueBytes, hk]
    rw [pack_of_bytes s _ b hvb] at hp
    have h1 := unpackBytes_packBytes_default s lp b bs tail hc (packer_default_of_kind hc hks)
      (enc_ne_hex_of_kind hc hks) hacc hlen hp ht
    apply unpack_of_bytes _ _ _ _ _ h1
    simp [setBytes, hk, canon]
  | hexv t =>
    obtain ⟨hk, raw, hraw, hlen, hacc⟩ := inDomain_hexv hv
    have hks : s.kind ≠ .string := by rw [hk]; simp
    have hvb : s.valueBytes (.hexv t) = .ok raw := by simp [valueBytes, hk, hraw, Res.ofOption]
    rw [pack_of_bytes s _ raw hvb] at hp
    have h1 := unpackBytes_packBytes_default s lp raw bs tail hc (packer_default_of_kind hc hks)
      (enc_ne_hex_of_kind hc hks) hacc hlen hp ht
    apply unpack_of_bytes _ _ _ _ _ h1
    simp [setBytes, hk, canon, hraw]
  | num i =>
    obtain ⟨hk, hrange, hacc⟩ := inDomain_num hv
    have hks : s.kind ≠ .string := by rw [hk]; simp
    have hvb : s.valueBytes (.num i) = .ok (formatInt i) := by simp [valueBytes, hk]
    rw [pack_of_bytes s _ _ hvb] at hp
    have hlen : (formatInt i).length ≤ maxInt := by
      have := formatInt_length_le i hrange
      have : (20 : Nat) ≤ maxInt := by decide
      omega
    have h1 := unpackBytes_packBytes_default s lp _ bs tail hc (packer_default_of_kind hc hks)
      (enc_ne_hex_of_kind hc hks) hacc hlen hp ht
    apply unpack_of_bytes _ _ _ _ _ h1
    rw [setBytes_unpad_pad_formatInt s i hk (coh_numeric hc hk) hrange]
    rfl

/-- **re-Pack**: packing the canonical form of the value returns the identical bytes -/
theorem prim_repack (s : PrimSpec) (lp : Bool) (v : Value) (bs : Bytes)
    (hc : s.coherent lp = true) (hv : (Field.prim s).inDomain v = true)
    (hp : s.pack v = .ok bs) : s.pack (s.canon v) = .ok bs := by
  -- the default packer sees only the padded value, and that is unchanged
  have key : ∀ b, s.packer = .default → s.packBytes b = .ok bs →
      s.packBytes (s.pad.unpad (s.pad.pad b s.len)) = .ok bs := by
    intro b hd hpb
    obtain ⟨_, pre, _, hpre, _⟩ := packBytes_default_ok s b bs hd hpb
    rw [packBytes_default_congr s _ b hd (pad_unpad_pad s lp b pre hc hpre)]
    exact hpb
  cases v with
  | comp subs => simp [Field.inDomain] at hv
  | num i => exact hp
  | str b =>
    obtain ⟨hk, hlen, hdef, ht2⟩ := inDomain_str hv
    have hvb : s.valueBytes (.str b) = .ok b := by simp [valueBytes, hk]
    rw [pack_of_bytes s _ b hvb] at hp
    cases hpkr : s.packer with
    | default =>
      by_cases hhex : s.enc = .hexToBytes
      · obtain ⟨_, hl, hpad⟩ := unpackBytes_packBytes_hexFixed s lp b bs [] hc hpkr hhex (hdef hpkr) hp
        have hcan : s.canon (.str b) = .str (b.map upperHex) := by simp [canon, hhex, upperHexB_eq]
        rw [hcan, pack_of_bytes s _ (b.map upperHex) (by simp [valueBytes, hk]), ← hp]
        have hch := (coh_hex hc hhex).2
        have hpad' : ∀ x, s.pad.pad x s.len = x := by
          intro x; rcases char?_none hch with h | h <;> simp [h, Pad.pad]
        unfold packBytes
        rw [hpkr]
        simp only [hpad', hhex, Enc.encode, hexDecode_map_upperHex, List.length_map]
      · have hcan : s.canon (.str b) = .str (s.pad.unpad (s.pad.pad b s.len)) := by simp [canon, hhex]
        rw [hcan, pack_of_bytes s _ (s.pad.unpad (s.pad.pad b s.len)) (by simp [valueBytes, hk])]
        exact key b hpkr hp
    | track2 =>
      obtain ⟨hacc, hedge⟩ := ht2 hpkr
      obtain ⟨_, hun⟩ := unpackBytes_packBytes_track2 s lp b bs [] hc hpkr hacc hlen hedge hp
      obtain ⟨_, c, hch⟩ := coh_track2 hc hpkr
      have hhex : s.enc ≠ .hexToBytes := by
        intro h; have := (coh_hex hc h).2; rw [this] at hch; cases hch
      have hcan : s.canon (.str b) = .str b := by simp [canon, hhex, hun]
      rw [hcan, pack_of_bytes s _ b hvb]
      exact hp
  | bin b =>
    obtain ⟨hk, hlen, hacc⟩ := inDomain_bin hv
    have hks : s.kind ≠ .string := by rw [hk]; simp
    have hvb : s.valueBytes (.bin b) = .ok b := by simp [valueBytes, hk]
    rw [pack_of_bytes s _ b hvb] at hp
    have hcan : s.canon (.bin b) = .bin (s.pad.unpad (s.pad.pad b s.len)) := rfl
    rw [hcan, pack_of_bytes s _ (s.pad.unpad (s.pad.pad b s.len)) (by simp [valueBytes, hk])]
    exact key b (packer_default_of_kind hc hks) hp
  | hexv t =>
    obtain ⟨hk, raw, hraw, hlen, hacc⟩ := inDomain_hexv hv
    have hks : s.kind ≠ .string := by rw [hk]; simp
    have hvb : s.valueBytes (.hexv t) = .ok raw := by simp [valueBytes, hk, hraw, Res.ofOption]
    rw [pack_of_bytes s _ raw hvb] at hp
    have hcan : s.canon (.hexv t) = .hexv (Enc.hexEncodeUpper (s.pad.unpad (s.pad.pad raw s.len))) := by
      simp [canon, hraw]
    rw [hcan, pack_of_bytes s _ (s.pad.unpad (s.pad.pad raw s.len))
      (by simp [valueBytes, hk, hexDecode_hexEncodeUpper, Res.ofOption])]
    exact key raw (packer_default_of_kind hc hks) hp

/-- **C01, primitive fields** (`prim_unpack_pack` ∧ `prim_repack`) -/
theorem prim_roundtrip (s : PrimSpec) (lp : Bool) (v : Value) (tail bs : Bytes)
    (hc : s.coherent lp = true) (hv : (Field.prim s).inDomain v = true)
    (hp : s.pack v = .ok bs) (ht : s.pref = .none → tail = []) :
    s.unpack (bs ++ tail) = .ok (s.canon v, bs.length) ∧ s.pack (s.canon v) = .ok bs :=
  ⟨prim_unpack_pack s lp v tail bs hc hv hp ht, prim_repack s lp v bs hc hv hp⟩

/-! ## C04 at the primitive layer: Unpack never panics (all specs, coherent or not) -/

theorem setBytes_ne_panic (s : PrimSpec) (raw : Bytes) : s.setBytes raw ≠ .panic := by
  unfold setBytes
  cases s.kind <;> simp only
  case numeric =>
    cases raw with
    | nil => simp
    | cons c cs => simp only; cases parseInt64? (c :: cs) <;> simp
  all_goals simp

theorem unpackBytes_ne_panic (s : PrimSpec) (data : Bytes) : s.unpackBytes data ≠ .panic := by
  rw [unpackBytes_eq]
  obtain ⟨hnp, hr⟩ := C06.dec_range s.pref s.len data
  cases hdl : s.pref.decodeLength s.len data with
  | err => simp
  | panic => exact absurd hdl hnp
  | ok r =>
    obtain ⟨n, k⟩ := r
    have hk : ¬ k > data.length := by have := (hr n k hdl).1; omega
    simp only [hk, ite_false]
    have hd := decode_ne_panic s.enc (data.drop k) (s.valueLength n : Int)
    cases hdec : Enc.decode s.enc (data.drop k) (s.valueLength n : Int) with
    | err => simp
    | panic => exact absurd hdec hd
    | ok r => simp only; split <;> simp

/-- **`Unpack` of a primitive field returns a value or an error on every input**, for every
spec (coherent or not): the prefix decoder bounds what it reports having read (C06
`dec_range`), so the slice `data[prefBytes:]` is in range, and no value decoder panics -/
theorem prim_unpack_no_panic (s : PrimSpec) (data : Bytes) : s.unpack data ≠ .panic := by
  unfold unpack
  have h1 := unpackBytes_ne_panic s data
  cases hu : s.unpackBytes data with
  | err => simp
  | panic => exact absurd hu h1
  | ok r =>
    obtain ⟨raw, read⟩ := r
    have h2 := setBytes_ne_panic s raw
    simp only
    cases hs : s.setBytes raw with
    | err => simp
    | panic => exact absurd hs h2
    | ok v => simp

theorem field_prim_unpack_no_panic (s : PrimSpec) (data : Bytes) : (Field.prim s).unpack data ≠ .panic := by
  have := prim_unpack_no_panic s data
  simp only [Field.unpack]
  cases h : s.unpack data with
  | ok r => simp
  | err => simp
  | panic => exact absurd h this

/-! ## C08 at the primitive layer: declared lengths are enforced -/

/-- the length the packer announces in the prefix: the padded value's length in value
units (default packer), the unpadded text length (Track2 packer) -/
def announced (s : PrimSpec) (b : Bytes) : Nat :=
  match s.packer with
  | .default => (s.pad.pad b s.len).length
  | .track2 => b.length

theorem length_le_announced (s : PrimSpec) (b : Bytes) : b.length ≤ s.announced b := by
  unfold announced
  cases s.packer
  · exact C20.pad_no_truncation _ _ _
  · exact Nat.le_refl _

theorem valueBytes_ne_panic (s : PrimSpec) (v : Value) : s.valueBytes v ≠ .panic := by
  unfold valueBytes
  split <;> first | exact ofOption_ne_panic _ | simp

/-- `packBytes` succeeds exactly when the value encoder accepts the data and the prefixer can
announce the length; otherwise it is an error -/
theorem packBytes_ok_or_err (s : PrimSpec) (b : Bytes) (hx : s.pref.exportedB = true) :
    (∃ bs, s.packBytes b = .ok bs ∧ s.pref.lenOK s.len (s.announced b)) ∨ s.packBytes b = .err := by
  unfold packBytes announced
  cases hp : s.packer with
  | default =>
    simp only
    have h1 := encode_ne_panic s.enc (s.pad.pad b s.len)
    cases he : Enc.encode s.enc (s.pad.pad b s.len) with
    | err => right; rfl
    | panic => exact absurd he h1
    | ok encoded =>
      simp only
      have h2 := encodeLength_ne_panic s.pref s.len (s.pad.pad b s.len).length
      cases hl : s.pref.encodeLength s.len (s.pad.pad b s.len).length with
      | err => right; rfl
      | panic => exact absurd hl h2
      | ok pre => left; exact ⟨_, rfl, (encodeLength_ok_iff _ _ _ hx).mp ⟨pre, hl⟩⟩
  | track2 =>
    simp only
    have h1 := encode_ne_panic s.enc (s.track2Data b)
    unfold track2Data at h1
    cases he : Enc.encode s.enc (if s.pad ≠ .nil ∧ b.length % 2 ≠ 0 then s.pad.pad b (b.length + 1) else b) with
    | err => right; rfl
    | panic => exact absurd he h1
    | ok encoded =>
      simp only
      have h2 := encodeLength_ne_panic s.pref s.len b.length
      cases hl : s.pref.encodeLength s.len b.length with
      | err => right; rfl
      | panic => exact absurd hl h2
      | ok pre => left; exact ⟨_, rfl, (encodeLength_ok_iff _ _ _ hx).mp ⟨pre, hl⟩⟩

/-- **Pack enforces the declared length**: when Pack returns bytes, the announced length
(padded value, in value units) satisfies `Pref.lenOK`: it equals `s.len` under a fixed
prefix (`2·s.len` hex digits under `Hex.Fixed`), is `≤ s.len` and `≤ base^digits − 1` under
a variable prefix, `≤ s.len` under BER-TLV unless `s.len = 0`; BER-TLV with `s.len = 0` and
`None` declare no bound (`lenOK` is `True` / `s.len = 0 ∨ …` there). The unpadded value is
no longer than the announced length. -/
theorem prim_pack_bound (s : PrimSpec) (v : Value) (bs : Bytes) (hx : s.pref.exportedB = true)
    (hp : s.pack v = .ok bs) :
    ∃ b, s.valueBytes v = .ok b ∧ s.pref.lenOK s.len (s.announced b) ∧ b.length ≤ s.announced b := by
  unfold pack at hp
  cases hvb : s.valueBytes v with
  | err => rw [hvb] at hp; cases hp
  | panic => rw [hvb] at hp; cases hp
  | ok b =>
    rw [hvb] at hp
    simp only at hp
    refine ⟨b, rfl, ?_, length_le_announced s b⟩
    rcases packBytes_ok_or_err s b hx with ⟨_, _, h⟩ | h
    · exact h
    · rw [h] at hp; cases hp

/-- `prim_pack_bound` spelled out per prefix class -/
theorem prim_pack_bound_cases (s : PrimSpec) (v : Value) (bs : Bytes) (hx : s.pref.exportedB = true)
    (hp : s.pack v = .ok bs) :
    ∃ b, s.valueBytes v = .ok b ∧
      (∀ f, s.pref = .fixed f → f ≠ .hex → s.announced b = s.len) ∧
      (s.pref = .fixed .hex → s.announced b = 2 * s.len) ∧
      (∀ f d, s.pref = .var f d → s.announced b ≤ s.len ∧
        s.announced b < (match f with | .binary | .hex => 256 | _ => 10) ^ d) ∧
      (s.pref = .berTLV → s.len ≠ 0 → s.announced b ≤ s.len) := by
  obtain ⟨b, h1, h2, _⟩ := prim_pack_bound s v bs hx hp
  refine ⟨b, h1, ?_, ?_, ?_, ?_⟩
  · intro f hf hne
    rw [hf] at h2
    cases f <;> first | exact absurd rfl hne | exact h2
  · intro hf; rw [hf] at h2; exact h2
  · intro f d hf
    rw [hf] at h2
    refine ⟨h2.1, ?_⟩
    have h3 := h2.2
    cases f <;> simp only [C06.capacity] at h3 ⊢
    all_goals
      first
      | (have := C06.pow_pos' 10 d (by omega); omega)
      | (have := C06.pow_pos' 256 d (by omega); omega)
  · intro hf h0
    rw [hf] at h2
    rcases h2 with h | h
    · exact absurd h h0
    · exact h

/-- **Pack never panics** -/
theorem prim_pack_no_panic (s : PrimSpec) (v : Value) (hx : s.pref.exportedB = true) : s.pack v ≠ .panic := by
  unfold pack
  have h1 := valueBytes_ne_panic s v
  cases hvb : s.valueBytes v with
  | err => simp
  | panic => exact absurd hvb h1
  | ok b =>
    simp only
    rcases packBytes_ok_or_err s b hx with ⟨bs, h, _⟩ | h <;> rw [h] <;> simp

/-- **an over-long (or, when fixed, wrong-length; or not announceable) value makes Pack
return an error — never bytes, never a panic** -/
theorem prim_pack_fails_over (s : PrimSpec) (v : Value) (b : Bytes) (hx : s.pref.exportedB = true)
    (hb : s.valueBytes v = .ok b) (hover : ¬ s.pref.lenOK s.len (s.announced b)) :
    s.pack v = .err := by
  rw [pack_of_bytes s v b hb]
  rcases packBytes_ok_or_err s b hx with ⟨_, _, h⟩ | h
  · exact absurd h hover
  · exact h

/-- what `Unpack` did when it returned a value -/
theorem unpackBytes_ok (s : PrimSpec) (data raw : Bytes) (read : Nat)
    (h : s.unpackBytes data = .ok (raw, read)) :
    ∃ n k value r, s.pref.decodeLength s.len data = .ok (n, k) ∧ k ≤ data.length ∧
      Enc.decode s.enc (data.drop k) (s.valueLength n : Int) = .ok (value, r) ∧
      raw = s.pad.unpad value ∧ read = r + k ∧ s.lengthCheck n raw = true := by
  rw [unpackBytes_eq] at h
  cases hdl : s.pref.decodeLength s.len data with
  | err => rw [hdl] at h; cases h
  | panic => rw [hdl] at h; cases h
  | ok p =>
    obtain ⟨n, k⟩ := p
    rw [hdl] at h
    simp only at h
    by_cases hk : k > data.length
    · simp [hk] at h
    · simp only [hk, ite_false] at h
      cases hdec : Enc.decode s.enc (data.drop k) (s.valueLength n : Int) with
      | err => rw [hdec] at h; cases h
      | panic => rw [hdec] at h; cases h
      | ok q =>
        obtain ⟨value, r⟩ := q
        rw [hdec] at h
        simp only at h
        by_cases hchk : s.lengthCheck n (s.pad.unpad value) = true
        · simp only [hchk, ite_true, Res.ok.injEq, Prod.mk.injEq] at h
          exact ⟨n, k, value, r, rfl, by omega, hdec, h.1.symm, h.2.symm, by rw [← h.1]; exact hchk⟩
        · simp only [hchk] at h; cases h

/-- **Unpack enforces the declared length**: when Unpack returns a value, the length `n`
announced by the prefix is `≤ s.len` (BER-TLV with `s.len = 0` and `None` declare no
bound; under `None` the announced length is all the data), the value decoder was asked for
`n` units (rounded up to even by the Track2 unpacker) and consumed exactly the bytes that
many units need, and everything read (`k` prefix bytes + value bytes) was present in the input -/
theorem prim_unpack_bound (s : PrimSpec) (data : Bytes) (v : Value) (read : Nat)
    (h : s.unpack data = .ok (v, read)) :
    ∃ n k, s.pref.decodeLength s.len data = .ok (n, k) ∧
      (s.pref ≠ .none ∧ ¬ (s.pref = .berTLV ∧ s.len = 0) → n ≤ s.len) ∧
      (s.pref = .none → n = data.length) ∧
      k ≤ read ∧ read ≤ data.length ∧
      (s.enc ≠ .berTag → read = k + C07.needed s.enc (s.valueLength n)) := by
  unfold unpack at h
  cases hu : s.unpackBytes data with
  | err => rw [hu] at h; cases h
  | panic => rw [hu] at h; cases h
  | ok p =>
    obtain ⟨raw, read'⟩ := p
    rw [hu] at h
    simp only at h
    have hread : read' = read := by
      cases hs : s.setBytes raw with
      | err => rw [hs] at h; cases h
      | panic => rw [hs] at h; cases h
      | ok w => rw [hs] at h; simp only [Res.ok.injEq, Prod.mk.injEq] at h; exact h.2
    subst hread
    obtain ⟨n, k, value, r, hdl, hk, hdec, _, hrd, _⟩ := unpackBytes_ok s data raw read' hu
    obtain ⟨_, hr⟩ := C06.dec_range s.pref s.len data
    obtain ⟨_, hmax, _, _⟩ := hr n k hdl
    have hrl := decode_read_le _ _ _ _ _ hdec
    simp only [List.length_drop] at hrl
    refine ⟨n, k, hdl, hmax, ?_, by omega, by omega, ?_⟩
    · intro hn
      rw [hn] at hdl
      simp only [decodeLength, Res.ok.injEq, Prod.mk.injEq] at hdl
      exact hdl.1.symm
    · intro hbt
      obtain ⟨m, hm, hdn⟩ := C07.decode_ok_nonneg _ _ _ _ _ hbt hdec
      have hm' : m = s.valueLength n := by omega
      subst hm'
      have := (C07.decode_ok_sound _ _ _ _ _ hbt hdn).1
      omega

/-- a prefix announcing more than the declared length makes Unpack fail (`err`), for every
prefixer that declares a bound -/
theorem prim_unpack_fails_over (s : PrimSpec) (data : Bytes)
    (hb : s.pref ≠ .none ∧ ¬ (s.pref = .berTLV ∧ s.len = 0))
    (hover : ∀ n k, s.pref.decodeLength s.len data = .ok (n, k) → s.len < n) :
    s.unpack data = .err := by
  have hnp := prim_unpack_no_panic s data
  cases h : s.unpack data with
  | err => rfl
  | panic => exact absurd h hnp
  | ok p =>
    obtain ⟨v, read⟩ := p
    obtain ⟨n, k, hdl, hmax, _⟩ := prim_unpack_bound s data v read h
    have := hover n k hdl
    have := hmax hb
    omega

end PrimSpec

/-! ## The same at the `Field` level (what the composite / message induction consumes) -/

theorem field_prim_roundtrip (s : PrimSpec) (lp : Bool) (v : Value) (tail bs : Bytes)
    (hc : (Field.prim s).coherent lp = true) (hv : (Field.prim s).inDomain v = true)
    (hp : (Field.prim s).pack v = .ok bs) (ht : s.pref = .none → tail = []) :
    (Field.prim s).unpack (bs ++ tail) = .ok ((Field.prim s).canon v, bs.length) ∧
    (Field.prim s).pack ((Field.prim s).canon v) = .ok bs := by
  have hc' : s.coherent lp = true := by simpa [Field.coherent] using hc
  have hp' : s.pack v = .ok bs := by simpa [Field.pack] using hp
  obtain ⟨h1, h2⟩ := PrimSpec.prim_roundtrip s lp v tail bs hc' hv hp' ht
  refine ⟨?_, ?_⟩
  · simp only [Field.unpack, h1, Field.canon]
  · simpa [Field.pack, Field.canon] using h2

/-! ## Non-vacuity: concrete coherent specs and in-domain values meeting every hypothesis -/

namespace PrimExamples

/-- String, ASCII, LL prefix, left-padded with spaces to 5 -/
def sStr : PrimSpec := { kind := .string, len := 5, enc := .ascii, pref := .var .ascii 2, pad := .left 32 }
example : sStr.coherent false = true := by decide
example : (Field.prim sStr).inDomain (.str [65, 66]) = true := by decide
example : sStr.pack (.str [65, 66]) = .ok [48, 53, 32, 32, 32, 65, 66] := by decide
example : sStr.unpack ([48, 53, 32, 32, 32, 65, 66] ++ [0x31, 0xFF]) = .ok (.str [65, 66], 7) := by rfl
example : sStr.canon (.str [65, 66]) = .str [65, 66] := by rfl

/-- Numeric, BCD, fixed 4 digits, left-padded with '0': the number 0 travels as 0000 and comes back as 0 -/
def sNum : PrimSpec := { kind := .numeric, len := 4, enc := .bcd, pref := .fixed .bcd, pad := .left 48 }
example : sNum.coherent false = true := by decide
example : (Field.prim sNum).inDomain (.num 0) = true := by decide
example : sNum.pack (.num 0) = .ok [0x00, 0x00] := by decide
example : sNum.unpack [0x00, 0x00, 0x99] = .ok (.num 0, 2) := by rfl
example : (Field.prim sNum).inDomain (.num 120) = true := by decide
example : sNum.pack (.num 120) = .ok [0x01, 0x20] := by decide

/-- K1: `ASCIIHexToBytes` + `Hex.Fixed`, 2 bytes = 4 hex digits; lower case comes back upper case -/
def sHexFixed : PrimSpec := { kind := .string, len := 2, enc := .hexToBytes, pref := .fixed .hex, pad := .nil }
example : sHexFixed.coherent false = true := by decide
example : (Field.prim sHexFixed).inDomain (.str [97, 98, 48, 49]) = true := by decide
example : sHexFixed.pack (.str [97, 98, 48, 49]) = .ok [0xab, 0x01] := by decide
example : sHexFixed.canon (.str [97, 98, 48, 49]) = .str [65, 66, 48, 49] := by rfl

/-- Hex kind, binary encoding, BER-TLV prefix with no declared maximum -/
def sHex : PrimSpec := { kind := .hex, len := 0, enc := .binary, pref := .berTLV, pad := .nil }
example : sHex.coherent false = true := by decide
example : (Field.prim sHex).inDomain (.hexv [57, 102]) = true := by decide
example : sHex.pack (.hexv [57, 102]) = .ok [0x01, 0x9f] := by decide

/-- Track2 packer, BCD, LL prefix counting the unpadded digits, right-padded with '0' to even -/
def sT2 : PrimSpec := { kind := .string, len := 37, enc := .bcd, pref := .var .ascii 2, pad := .right 48, packer := .track2 }
example : sT2.coherent false = true := by decide
example : (Field.prim sT2).inDomain (.str [49, 50, 51]) = true := by decide
example : sT2.pack (.str [49, 50, 51]) = .ok [48, 51, 0x12, 0x30] := by decide
example : sT2.unpack [48, 51, 0x12, 0x30, 0xFF] = .ok (.str [49, 50, 51], 4) := by rfl

/-- `None` prefix in the last position of a positional composite -/
def sNone : PrimSpec := { kind := .binary, len := 3, enc := .binary, pref := .none, pad := .nil }
example : sNone.coherent true = true := by decide
example : (Field.prim sNone).inDomain (.bin [1, 2, 3, 4]) = true := by decide
example : sNone.pack (.bin [1, 2, 3, 4]) = .ok [1, 2, 3, 4] := by decide

/-- C08: over-long, wrong fixed length, not announceable ⇒ `err` -/
example : sStr.pack (.str [65, 66, 67, 68, 69, 70]) = .err := by decide
example : ¬ sStr.pref.lenOK sStr.len (sStr.announced [65, 66, 67, 68, 69, 70]) := by
  simp [sStr, Pref.lenOK, PrimSpec.announced, Pad.pad]
example : sNum.pack (.num 12345) = .err := by decide
example : ({ sStr with len := 200, pref := .var .ascii 2, pad := .nil } : PrimSpec).pack (.str (List.replicate 100 65)) = .err := by
  decide +kernel
example : sStr.unpack [48, 54, 65, 66, 67, 68, 69, 70] = .err := by rfl

end PrimExamples

end Iso8583
