/-
Helper lemmas for C13: the phase automaton of a well-locked operation, the state
invariant of the interleaving semantics (Spec/Linearizable.lean) and the log invariants
behind `linearizable`. Property theorems are in Props/C13.lean.
-/
import Iso8583.Spec.Linearizable

namespace Iso8583.Lin

/-! ## The phase automaton -/

def wlFrom (p : Phase) (l : List Instr) : Bool :=
  match runPhase p l with
  | some .before => true
  | some .after => true
  | _ => false

theorem wlOp_eq (b : List Instr) : wlOp b = wlFrom .before b := rfl

theorem step_cases {p q : Phase} {i : Instr} (h : p.step i = some q) :
    (i = .acq ∧ p = .before ∧ q = .inside) ∨ (i = .rel ∧ p = .inside ∧ q = .after) ∨
    (i ≠ .acq ∧ i ≠ .rel ∧ q = p ∧ ((∃ v w, i = .acc v w) → p = .inside)) := by
  cases p <;> cases i <;> simp_all [Phase.step]

theorem wlFrom_cons {p : Phase} {i : Instr} {r : List Instr} (h : wlFrom p (i :: r) = true) :
    ∃ q, p.step i = some q ∧ wlFrom q r = true := by
  unfold wlFrom at h
  simp only [runPhase] at h
  cases hs : p.step i with
  | none => simp [hs] at h
  | some q => exact ⟨q, rfl, by simpa [hs, wlFrom] using h⟩

theorem wlFrom_nil {p : Phase} (h : wlFrom p [] = true) : p ≠ .inside := by
  cases p <;> simp_all [wlFrom, runPhase]

theorem runPhase_snoc (p : Phase) (past : List Instr) (i : Instr) :
    runPhase p (past ++ [i]) = (runPhase p past).bind (fun q => q.step i) := by
  induction past generalizing p with
  | nil => simp only [List.nil_append, runPhase, Option.bind_some]; cases p.step i <;> rfl
  | cons a l ih =>
    simp only [List.cons_append, runPhase]
    cases p.step a with
    | none => rfl
    | some q => exact ih q

theorem after_spec {l : List Instr} {p : Phase} (h : runPhase .after l = some p) :
    p = .after ∧ .acq ∉ l ∧ .rel ∉ l ∧ ∀ v w, .acc v w ∉ l := by
  induction l with
  | nil => simp_all [runPhase]
  | cons i r ih => cases i <;> simp_all [runPhase, Phase.step]

theorem inside_spec {l : List Instr} {p : Phase} (h : runPhase .inside l = some p) :
    .acq ∉ l ∧ ((p = .inside ∧ .rel ∉ l) ∨ (p = .after ∧ .rel ∈ l)) := by
  induction l with
  | nil => simp_all [runPhase]
  | cons i r ih =>
    cases i with
    | acq => simp [runPhase, Phase.step] at h
    | rel =>
      simp only [runPhase, Phase.step] at h
      have := after_spec h
      simp_all
    | acc v w => simp only [runPhase, Phase.step] at h; have := ih h; simp_all
    | ext => simp only [runPhase, Phase.step] at h; have := ih h; simp_all

theorem before_spec {l : List Instr} {p : Phase} (h : runPhase .before l = some p) :
    (p = .before ∧ .acq ∉ l ∧ .rel ∉ l ∧ ∀ v w, .acc v w ∉ l) ∨
    (p = .inside ∧ .acq ∈ l ∧ .rel ∉ l) ∨ (p = .after ∧ .rel ∈ l) := by
  induction l with
  | nil => simp_all [runPhase]
  | cons i r ih =>
    cases i with
    | acq =>
      simp only [runPhase, Phase.step] at h
      have := inside_spec h
      rcases this with ⟨h1, h2 | h2⟩ <;> simp_all
    | rel => simp [runPhase, Phase.step] at h
    | acc v w => simp [runPhase, Phase.step] at h
    | ext =>
      simp only [runPhase, Phase.step] at h
      rcases ih h with h1 | h1 | h1 <;> simp_all

theorem inCS_iff {x : Thread} {past rest : List Instr} {p : Phase}
    (hc : x.cur = some (past, rest)) (hp : runPhase .before past = some p) :
    x.inCS = true ↔ p = .inside := by
  unfold Thread.inCS
  rw [hc]
  rcases before_spec hp with h | h | h <;> simp_all

theorem inCS_none {x : Thread} (hc : x.cur = none) : x.inCS = false := by
  unfold Thread.inCS; rw [hc]

/-! ## The state invariant -/

@[simp] theorem setTh_same (th : Tid → Thread) (t : Tid) (x : Thread) : setTh th t x t = x := by
  simp [setTh]

theorem setTh_other (th : Tid → Thread) {t u : Tid} (x : Thread) (h : u ≠ t) : setTh th t x u = th u := by
  simp [setTh, h]

/-- per-thread invariant: remaining work is well locked from the phase the executed part
has reached, and the thread is inside its critical section iff it is the holder -/
structure ThreadOK (holder : Option Tid) (t : Tid) (x : Thread) : Prop where
  todo : ∀ b ∈ x.todo, wlOp b = true
  cur : ∀ past rest, x.cur = some (past, rest) → ∃ p, runPhase .before past = some p ∧ wlFrom p rest = true
  held : x.inCS = true ↔ holder = some t

def Inv (s : State) : Prop := ∀ t, ThreadOK s.holder t (s.th t)

theorem holderAfter_other {h : Option Tid} {t : Tid} {i : Instr} (h1 : i ≠ .acq) (h2 : i ≠ .rel) :
    holderAfter h t i = h := by
  cases i <;> simp_all [holderAfter]

theorem inv_init {progs : Tid → List (List Instr)} (hwl : WellLocked progs) : Inv (init progs) := by
  intro t
  refine ⟨fun b hb => hwl t b hb, ?_, ?_⟩
  · intro past rest h; simp [init] at h
  · simp [init, Thread.inCS]

theorem inv_step {s s' : State} (hi : Inv s) (hs : Step s s') : Inv s' := by
  cases hs with
  | invoke t b bs hc ht =>
    intro u
    by_cases hu : u = t
    · subst hu
      have I := hi u
      refine ⟨?_, ?_, ?_⟩
      · intro b' hb'
        simp only [setTh_same] at hb'
        exact I.todo b' (by rw [ht]; exact List.mem_cons_of_mem _ hb')
      · intro past rest h
        simp only [setTh_same, Option.some.injEq, Prod.mk.injEq] at h
        obtain ⟨rfl, rfl⟩ := h
        exact ⟨.before, rfl, by rw [← wlOp_eq]; exact I.todo _ (by rw [ht]; exact List.mem_cons_self)⟩
      · have h0 : (s.th u).inCS = false := inCS_none hc
        have h1 : (setTh s.th u { done := (s.th u).done, cur := some ([], b), todo := bs } u).inCS = false := by
          simp [Thread.inCS]
        rw [h1]; rw [← I.held, h0]
    · have I := hi u
      simp only [setTh_other _ _ hu]
      exact I
  | ret t past hc =>
    intro u
    by_cases hu : u = t
    · subst hu
      have I := hi u
      obtain ⟨p, hp, hw⟩ := I.cur _ _ hc
      have hni : p ≠ .inside := wlFrom_nil hw
      have h0 : (s.th u).inCS = false := by
        cases h : (s.th u).inCS with
        | false => rfl
        | true => exact absurd ((inCS_iff hc hp).mp h) hni
      refine ⟨?_, ?_, ?_⟩
      · intro b' hb'
        simp only [setTh_same] at hb'
        exact I.todo b' hb'
      · intro past' rest h
        simp at h
      · have h1 : (setTh s.th u { done := (s.th u).done + 1, cur := none, todo := (s.th u).todo } u).inCS = false := by
          simp [Thread.inCS]
        rw [h1]; rw [← I.held, h0]
    · have I := hi u
      simp only [setTh_other _ _ hu]
      exact I
  | instr t past i r hc hen =>
    have It := hi t
    obtain ⟨p, hp, hw⟩ := It.cur _ _ hc
    obtain ⟨q, hq, hwq⟩ := wlFrom_cons hw
    have hp' : runPhase .before (past ++ [i]) = some q := by
      rw [runPhase_snoc, hp]; exact hq
    have hold : (s.th t).inCS = true ↔ p = .inside := inCS_iff hc hp
    have hnew : (setTh s.th t { done := (s.th t).done, cur := some (past ++ [i], r), todo := (s.th t).todo } t).inCS = true
        ↔ q = .inside := inCS_iff (past := past ++ [i]) (rest := r) (by simp) hp'
    intro u
    by_cases hu : u = t
    · subst hu
      refine ⟨?_, ?_, ?_⟩
      · intro b' hb'
        simp only [setTh_same] at hb'
        exact It.todo b' hb'
      · intro past' rest h
        simp only [setTh_same, Option.some.injEq, Prod.mk.injEq] at h
        obtain ⟨rfl, rfl⟩ := h
        exact ⟨q, hp', hwq⟩
      · rw [hnew]
        rcases step_cases hq with ⟨rfl, rfl, rfl⟩ | ⟨rfl, rfl, rfl⟩ | ⟨h1, h2, rfl, _⟩
        · simp [holderAfter]
        · simp [holderAfter]
        · rw [holderAfter_other h1 h2, ← It.held, hold]
    · have Iu := hi u
      simp only [setTh_other _ _ hu]
      refine ⟨Iu.todo, Iu.cur, ?_⟩
      rcases step_cases hq with ⟨rfl, rfl, rfl⟩ | ⟨rfl, rfl, rfl⟩ | ⟨h1, h2, rfl, _⟩
      · -- acq: nobody held the mutex before
        have hn : s.holder = none := by simpa [enabled] using hen
        have : (s.th u).inCS = false := by
          cases h : (s.th u).inCS with
          | false => rfl
          | true => have := Iu.held.mp h; simp [hn] at this
        simp only [holderAfter, this]
        constructor
        · intro h; cases h
        · intro h; exact absurd (Option.some.inj h).symm hu
      · -- rel: t was the holder
        have ht : s.holder = some t := It.held.mp (hold.mpr rfl)
        have : (s.th u).inCS = false := by
          cases h : (s.th u).inCS with
          | false => rfl
          | true => have := Iu.held.mp h; rw [ht] at this; exact absurd (Option.some.inj this).symm hu
        simp [holderAfter, this]
      · rw [holderAfter_other h1 h2]; exact Iu.held

theorem inv_reachable {progs : Tid → List (List Instr)} (hwl : WellLocked progs) {s : State}
    (hr : Reachable progs s) : Inv s := by
  induction hr with
  | init => exact inv_init hwl
  | step _ hs ih => exact inv_step ih hs

/-! ## Log invariants -/

/-- the log holds the events of completed operations and of the executed part of the
operation in progress -/
def LogOK (s : State) : Prop :=
  ∀ e ∈ s.log, e.op < (s.th e.tid).done ∨
    (e.op = (s.th e.tid).done ∧ ∃ past rest, (s.th e.tid).cur = some (past, rest) ∧
      (e.kind = .inv ∨ ∃ i, e.kind = .ins i ∧ i ∈ past))

theorem logOK_reachable {progs : Tid → List (List Instr)} {s : State} (hr : Reachable progs s) : LogOK s := by
  induction hr with
  | init => intro e he; simp [init] at he
  | step _ hs ih =>
    cases hs with
    | invoke t b bs hc ht =>
      intro e he
      simp only [List.mem_cons] at he
      rcases he with rfl | he
      · simp
      · by_cases hu : e.tid = t
        · rcases ih e he with h | ⟨_, past, rest, h, _⟩
          · left; simpa [hu] using h
          · rw [hu, hc] at h; cases h
        · simpa only [setTh_other _ _ hu] using ih e he
    | ret t past hc =>
      intro e he
      simp only [List.mem_cons] at he
      rcases he with rfl | he
      · simp
      · by_cases hu : e.tid = t
        · left
          rcases ih e he with h | ⟨h, _⟩
          · simp only [hu, setTh_same]; rw [hu] at h; omega
          · simp only [hu, setTh_same]; rw [hu] at h; omega
        · simpa only [setTh_other _ _ hu] using ih e he
    | instr t past i r hc hen =>
      intro e he
      simp only [List.mem_cons] at he
      rcases he with rfl | he
      · simp
      · by_cases hu : e.tid = t
        · rcases ih e he with h | ⟨h, past', rest', hc', hk⟩
          · left; simpa [hu] using h
          · right
            rw [hu] at h hc'
            rw [hc] at hc'
            simp only [Option.some.injEq, Prod.mk.injEq] at hc'
            obtain ⟨rfl, rfl⟩ := hc'
            refine ⟨by simpa [hu] using h, past ++ [i], r, by simp [hu], ?_⟩
            rcases hk with hk | ⟨j, hj, hm⟩
            · exact Or.inl hk
            · exact Or.inr ⟨j, hj, List.mem_append_left _ hm⟩
        · simpa only [setTh_other _ _ hu] using ih e he

theorem holderOfLog_cons_other (t : Tid) (n : Nat) (k : EvKind) (l : List Ev)
    (h1 : k ≠ .ins .acq) (h2 : k ≠ .ins .rel) : holderOfLog (⟨t, n, k⟩ :: l) = holderOfLog l := by
  cases k with
  | ins i => cases i <;> simp_all [holderOfLog]
  | inv => rfl
  | ret => rfl

theorem holderOfLog_reachable {progs : Tid → List (List Instr)} {s : State} (hr : Reachable progs s) :
    holderOfLog s.log = s.holder := by
  induction hr with
  | init => rfl
  | step _ hs ih =>
    cases hs with
    | invoke t b bs hc ht => rw [← ih]; exact holderOfLog_cons_other _ _ _ _ (by simp) (by simp)
    | ret t past hc => rw [← ih]; exact holderOfLog_cons_other _ _ _ _ (by simp) (by simp)
    | instr t past i r hc hen =>
      cases i with
      | acq => rfl
      | rel => rfl
      | acc v w => simp only [holderAfter]; rw [← ih]; exact holderOfLog_cons_other _ _ _ _ (by simp) (by simp)
      | ext => simp only [holderAfter]; rw [← ih]; exact holderOfLog_cons_other _ _ _ _ (by simp) (by simp)

/-- the facts about the stepping thread that every `instr` case needs -/
theorem instr_facts {s : State} (hi : Inv s) {t : Tid} {past r : List Instr} {i : Instr}
    (hc : (s.th t).cur = some (past, i :: r)) :
    ∃ p q, runPhase .before past = some p ∧ p.step i = some q ∧ ((s.th t).inCS = true ↔ p = .inside) ∧
      ((s.th t).inCS = true ↔ s.holder = some t) := by
  obtain ⟨p, hp, hw⟩ := (hi t).cur _ _ hc
  obtain ⟨q, hq, _⟩ := wlFrom_cons hw
  exact ⟨p, q, hp, hq, inCS_iff hc hp, (hi t).held⟩

theorem csDisjoint_reachable {progs : Tid → List (List Instr)} (hwl : WellLocked progs) {s : State}
    (hr : Reachable progs s) : CSDisjoint s.log := by
  induction hr with
  | init => trivial
  | step hr' hs ih =>
    have hi := inv_reachable hwl hr'
    have hh := holderOfLog_reachable hr'
    cases hs with
    | invoke t b bs hc ht => exact ⟨ih, by simp, by simp⟩
    | ret t past hc => exact ⟨ih, by simp, by simp⟩
    | instr t past i r hc hen =>
      refine ⟨ih, ?_, ?_⟩
      · intro h
        simp only [EvKind.ins.injEq] at h
        subst h
        rw [hh]; simpa [enabled] using hen
      · intro h
        simp only [EvKind.ins.injEq] at h
        subst h
        obtain ⟨p, q, hp, hq, h1, h2⟩ := instr_facts hi hc
        rcases step_cases hq with ⟨h, _⟩ | ⟨_, rfl, _⟩ | ⟨_, h, _⟩
        · cases h
        · rw [hh]; exact h2.mp (h1.mpr rfl)
        · exact absurd rfl h

/-! ### acquisition order -/

theorem acqOrder_cons_other (t : Tid) (n : Nat) (k : EvKind) (l : List Ev) (h : k ≠ .ins .acq) :
    acqOrder (⟨t, n, k⟩ :: l) = acqOrder l := by
  cases k with
  | ins i => cases i <;> simp_all [acqOrder]
  | inv => rfl
  | ret => rfl

theorem mem_acqOrder {t : Tid} {n : Nat} {l : List Ev} : (t, n) ∈ acqOrder l ↔ ⟨t, n, .ins .acq⟩ ∈ l := by
  induction l with
  | nil => simp [acqOrder]
  | cons e l ih =>
    obtain ⟨t', n', k⟩ := e
    by_cases hk : k = .ins .acq
    · subst hk
      simp [acqOrder, ih]
    · rw [acqOrder_cons_other _ _ _ _ hk, ih]
      simp only [List.mem_cons, Ev.mk.injEq]
      constructor
      · exact Or.inr
      · rintro (⟨_, _, h⟩ | h)
        · exact absurd h.symm hk
        · exact h

/-- while a thread holds the mutex its current operation is the newest acquisition -/
theorem acqHead_reachable {progs : Tid → List (List Instr)} (hwl : WellLocked progs) {s : State}
    (hr : Reachable progs s) : ∀ t, s.holder = some t → (acqOrder s.log).head? = some (t, (s.th t).done) := by
  induction hr with
  | init => intro t h; simp [init] at h
  | step hr' hs ih =>
    have hi := inv_reachable hwl hr'
    cases hs with
    | invoke t' b bs hc ht =>
      intro t h
      rw [acqOrder_cons_other _ _ _ _ (by simp)]
      by_cases hu : t = t'
      · subst hu
        have := (hi t).held.mpr h
        rw [inCS_none hc] at this; cases this
      · simpa only [setTh_other _ _ hu] using ih t h
    | ret t' past hc =>
      intro t h
      rw [acqOrder_cons_other _ _ _ _ (by simp)]
      by_cases hu : t = t'
      · subst hu
        obtain ⟨p, hp, hw⟩ := (hi t).cur _ _ hc
        have := (inCS_iff hc hp).mp ((hi t).held.mpr h)
        exact absurd this (wlFrom_nil hw)
      · simpa only [setTh_other _ _ hu] using ih t h
    | instr t' past i r hc hen =>
      intro t h
      cases i with
      | acq =>
        simp only [holderAfter, Option.some.injEq] at h
        subst h
        simp [acqOrder]
      | rel => simp [holderAfter] at h
      | acc v w =>
        simp only [holderAfter] at h
        rw [acqOrder_cons_other _ _ _ _ (by simp)]
        by_cases hu : t = t'
        · subst hu; simpa using ih t h
        · simpa only [setTh_other _ _ hu] using ih t h
      | ext =>
        simp only [holderAfter] at h
        rw [acqOrder_cons_other _ _ _ _ (by simp)]
        by_cases hu : t = t'
        · subst hu; simpa using ih t h
        · simpa only [setTh_other _ _ hu] using ih t h

/-- at the moment a thread acquires, the log has no micro-step of that operation other
than `ext` ones: in particular no acquisition and no guarded access -/
theorem fresh_at_acq {progs : Tid → List (List Instr)} (hwl : WellLocked progs) {s : State}
    (hr : Reachable progs s) {t : Tid} {past r : List Instr}
    (hc : (s.th t).cur = some (past, .acq :: r)) :
    ∀ e ∈ s.log, e.tid = t → e.op = (s.th t).done → e.kind ≠ .ins .acq ∧ e.isAcc = false := by
  intro e he htid hop
  have hi := inv_reachable hwl hr
  obtain ⟨p, q, hp, hq, _, _⟩ := instr_facts hi hc
  have hpb : p = .before := by
    rcases step_cases hq with ⟨_, h, _⟩ | ⟨h, _⟩ | ⟨h, _⟩
    · exact h
    · cases h
    · exact absurd rfl h
  subst hpb
  have hb := before_spec hp
  simp only [true_and, reduceCtorEq, false_and, or_false] at hb
  obtain ⟨hacq, _, hacc⟩ := hb
  rcases logOK_reachable hr e he with h | ⟨_, past', rest', hc', hk⟩
  · rw [htid] at h; omega
  · rw [htid, hc] at hc'
    simp only [Option.some.injEq, Prod.mk.injEq] at hc'
    obtain ⟨rfl, _⟩ := hc'
    rcases hk with hk | ⟨j, hj, hm⟩
    · simp [hk, Ev.isAcc]
    · constructor
      · rw [hj]; intro h; simp only [EvKind.ins.injEq] at h; subst h; exact hacq hm
      · unfold Ev.isAcc; rw [hj]
        cases j with
        | acc v w => exact absurd hm (hacc v w)
        | _ => rfl

theorem acqNodup_reachable {progs : Tid → List (List Instr)} (hwl : WellLocked progs) {s : State}
    (hr : Reachable progs s) : (acqOrder s.log).Nodup := by
  induction hr with
  | init => simp [init, acqOrder]
  | step hr' hs ih =>
    cases hs with
    | invoke t b bs hc ht => rw [acqOrder_cons_other _ _ _ _ (by simp)]; exact ih
    | ret t past hc => rw [acqOrder_cons_other _ _ _ _ (by simp)]; exact ih
    | instr t past i r hc hen =>
      cases i with
      | acq =>
        show ((t, _) :: acqOrder _).Nodup
        refine List.nodup_cons.mpr ⟨?_, ih⟩
        intro hm
        have := fresh_at_acq hwl hr' hc _ (mem_acqOrder.mp hm) rfl rfl
        exact this.1 rfl
      | rel => rw [acqOrder_cons_other _ _ _ _ (by simp)]; exact ih
      | acc v w => rw [acqOrder_cons_other _ _ _ _ (by simp)]; exact ih
      | ext => rw [acqOrder_cons_other _ _ _ _ (by simp)]; exact ih

/-! ### serial equivalence -/

theorem flatMap_congr' {α β : Type} {f g : α → List β} :
    ∀ l : List α, (∀ a ∈ l, f a = g a) → l.flatMap f = l.flatMap g
  | [], _ => rfl
  | a :: l, h => by
    simp only [List.flatMap_cons]
    rw [h a List.mem_cons_self, flatMap_congr' l (fun b hb => h b (List.mem_cons_of_mem _ hb))]

theorem serial_cons_other {e : Ev} {l : List Ev} (h1 : e.isAcc = false) (h2 : e.kind ≠ .ins .acq)
    (hs : Serial l) : Serial (e :: l) := by
  obtain ⟨t, n, k⟩ := e
  unfold Serial at *
  have ha : accLog (⟨t, n, k⟩ :: l) = accLog l := by simp [accLog, h1]
  rw [ha, acqOrder_cons_other _ _ _ _ h2]; exact hs

theorem serial_cons_acq {t : Tid} {n : Nat} {l : List Ev} (hs : Serial l)
    (hf : ∀ e ∈ accLog l, Ev.ofOp (t, n) e = false) : Serial (⟨t, n, .ins .acq⟩ :: l) := by
  unfold Serial at *
  have ha : accLog (⟨t, n, .ins .acq⟩ :: l) = accLog l := by simp [accLog, Ev.isAcc]
  have hn : (accLog l).filter (Ev.ofOp (t, n)) = [] := by
    rw [List.filter_eq_nil_iff]; intro e he; simp [hf e he]
  rw [ha]
  show accLog l = ((t, n) :: acqOrder l).flatMap _
  rw [List.flatMap_cons, hn, List.nil_append]; exact hs

theorem serial_cons_acc {t : Tid} {n : Nat} {v : String} {w : Bool} {l : List Ev} {O : List (Tid × Nat)}
    (hs : Serial l) (ho : acqOrder l = (t, n) :: O) (hn : (t, n) ∉ O) :
    Serial (⟨t, n, .ins (.acc v w)⟩ :: l) := by
  unfold Serial at *
  have ha : accLog (⟨t, n, .ins (.acc v w)⟩ :: l) = ⟨t, n, .ins (.acc v w)⟩ :: accLog l := by
    unfold accLog; rw [List.filter_cons_of_pos (by rfl)]
  rw [ha, acqOrder_cons_other _ _ _ _ (by simp), ho, List.flatMap_cons]
  rw [ho, List.flatMap_cons] at hs
  have h1 : (⟨t, n, .ins (.acc v w)⟩ :: accLog l).filter (Ev.ofOp (t, n))
      = ⟨t, n, .ins (.acc v w)⟩ :: (accLog l).filter (Ev.ofOp (t, n)) := by
    simp [Ev.ofOp]
  have h2 : O.flatMap (fun o => (⟨t, n, .ins (.acc v w)⟩ :: accLog l).filter (Ev.ofOp o))
      = O.flatMap (fun o => (accLog l).filter (Ev.ofOp o)) := by
    apply flatMap_congr'
    intro o ho'
    have hne : o ≠ (t, n) := fun h => hn (h ▸ ho')
    have : Ev.ofOp o ⟨t, n, .ins (.acc v w)⟩ = false := by
      obtain ⟨a, b⟩ := o
      simp only [Ev.ofOp, Bool.and_eq_false_imp, beq_iff_eq]
      intro h1
      simp only [beq_eq_false_iff_ne, ne_eq]
      intro h2
      exact hne (by rw [h1, h2])
    simp [this]
  rw [h1, h2, List.cons_append, ← hs]

theorem serial_reachable {progs : Tid → List (List Instr)} (hwl : WellLocked progs) {s : State}
    (hr : Reachable progs s) : Serial s.log := by
  induction hr with
  | init => simp [init, Serial, accLog, acqOrder]
  | @step s₀ s₁ hr' hs ih =>
    have hi := inv_reachable hwl hr'
    cases hs with
    | invoke t b bs hc ht => exact serial_cons_other rfl (by simp) ih
    | ret t past hc => exact serial_cons_other rfl (by simp) ih
    | instr t past i r hc hen =>
      cases i with
      | rel => exact serial_cons_other rfl (by simp) ih
      | ext => exact serial_cons_other rfl (by simp) ih
      | acq =>
        apply serial_cons_acq ih
        intro e he
        have hel : e ∈ _ ∧ e.isAcc = true := List.mem_filter.mp he
        cases h : Ev.ofOp (t, (s₀.th t).done) e with
        | false => rfl
        | true =>
          simp only [Ev.ofOp, Bool.and_eq_true, beq_iff_eq] at h
          have := (fresh_at_acq hwl hr' hc e hel.1 h.1 h.2).2
          rw [hel.2] at this; cases this
      | acc v w =>
        obtain ⟨p, q, hp, hq, h1, h2⟩ := instr_facts hi hc
        have hpi : p = .inside := by
          rcases step_cases hq with ⟨h, _⟩ | ⟨h, _⟩ | ⟨_, _, _, h⟩
          · cases h
          · cases h
          · exact h ⟨v, w, rfl⟩
        have hh : s₀.holder = some t := h2.mp (h1.mpr hpi)
        have hhead := acqHead_reachable hwl hr' t hh
        have hnd := acqNodup_reachable hwl hr'
        cases hO : acqOrder s₀.log with
        | nil => rw [hO] at hhead; cases hhead
        | cons o O =>
          rw [hO] at hhead hnd
          simp only [List.head?_cons, Option.some.injEq] at hhead
          subst hhead
          exact serial_cons_acc ih hO (List.nodup_cons.mp hnd).1

/-! ### real-time order -/

def AfterRet (l : List Ev) : Prop :=
  ∀ (t : Tid) (n : Nat) (l₂ l₁ : List Ev), l = l₂ ++ ⟨t, n, .ret⟩ :: l₁ → ∀ e ∈ l₂, e.tid = t → n < e.op

def BeforeInv (l : List Ev) : Prop :=
  ∀ (t : Tid) (n : Nat) (l₂ l₁ : List Ev), l = l₂ ++ ⟨t, n, .inv⟩ :: l₁ → ∀ e ∈ l₁, e.tid = t → e.op < n

theorem afterRet_cons {s : State} (hl : LogOK s) (ih : AfterRet s.log) (t' : Tid) (k : EvKind) :
    AfterRet (⟨t', (s.th t').done, k⟩ :: s.log) := by
  intro t n l₂ l₁ h e he htid
  cases l₂ with
  | nil => cases he
  | cons a l₂' =>
    simp only [List.cons_append, List.cons.injEq] at h
    obtain ⟨rfl, h⟩ := h
    simp only [List.mem_cons] at he
    rcases he with rfl | he
    · simp only at htid ⊢
      subst htid
      have hm : (⟨t', n, .ret⟩ : Ev) ∈ s.log := by rw [h]; simp
      rcases hl _ hm with h' | ⟨_, _, _, _, hk⟩
      · exact h'
      · rcases hk with hk | ⟨_, hk, _⟩ <;> cases hk
    · exact ih t n l₂' l₁ h e he htid

theorem beforeInv_cons {s : State} (hl : LogOK s) (ih : BeforeInv s.log) (t' : Tid) (k : EvKind)
    (hk : k = .inv → (s.th t').cur = none) : BeforeInv (⟨t', (s.th t').done, k⟩ :: s.log) := by
  intro t n l₂ l₁ h e he htid
  cases l₂ with
  | nil =>
    simp only [List.nil_append, List.cons.injEq, Ev.mk.injEq] at h
    obtain ⟨⟨rfl, rfl, rfl⟩, rfl⟩ := h
    rcases hl e he with h' | ⟨_, _, _, hc, _⟩
    · rw [htid] at h'; exact h'
    · rw [htid, hk rfl] at hc; cases hc
  | cons a l₂' =>
    simp only [List.cons_append, List.cons.injEq] at h
    exact ih t n l₂' l₁ h.2 e he htid

theorem afterRet_reachable {progs : Tid → List (List Instr)} {s : State} (hr : Reachable progs s) :
    AfterRet s.log := by
  induction hr with
  | init => intro t n l₂ l₁ h; simp [init] at h
  | @step s₀ s₁ hr' hs ih =>
    have hl := logOK_reachable hr'
    cases hs with
    | invoke t' b bs hc ht => exact afterRet_cons hl ih _ _
    | ret t' past hc => exact afterRet_cons hl ih _ _
    | instr t' past i r hc hen => exact afterRet_cons hl ih _ _

theorem beforeInv_reachable {progs : Tid → List (List Instr)} {s : State} (hr : Reachable progs s) :
    BeforeInv s.log := by
  induction hr with
  | init => intro t n l₂ l₁ h; simp [init] at h
  | @step s₀ s₁ hr' hs ih =>
    have hl := logOK_reachable hr'
    cases hs with
    | invoke t' b bs hc ht => exact beforeInv_cons hl ih _ _ (fun _ => hc)
    | ret t' past hc => exact beforeInv_cons hl ih _ _ (fun h => by cases h)
    | instr t' past i r hc hen => exact beforeInv_cons hl ih _ _ (fun h => by cases h)

theorem realTime_of {l : List Ev} (h1 : AfterRet l) (h2 : BeforeInv l) : RealTime l := by
  intro t u a b l₁ l₂ l₃ hl
  constructor
  · intro hm
    have := h1 t a _ l₁ hl
    rw [hl] at hm
    rcases List.mem_append.mp hm with hm | hm
    · exact absurd (this _ hm rfl) (Nat.lt_irrefl _)
    · rcases List.mem_cons.mp hm with hm | hm
      · cases hm
      · exact hm
  · intro hm
    have hd : l = l₃ ++ ⟨u, b, .inv⟩ :: (l₂ ++ ⟨t, a, .ret⟩ :: l₁) := by rw [hl]; simp
    have := h2 u b l₃ _ hd
    rw [hd] at hm
    rcases List.mem_append.mp hm with hm | hm
    · exact hm
    · rcases List.mem_cons.mp hm with hm | hm
      · cases hm
      · exact absurd (this _ hm rfl) (Nat.lt_irrefl _)

theorem atAccess_cur {x : Thread} (h : x.atAccess = true) :
    ∃ past v w r, x.cur = some (past, .acc v w :: r) := by
  unfold Thread.atAccess at h
  split at h
  · exact ⟨_, _, _, _, ‹_›⟩
  · cases h

/-! ## An executable scheduler (used for the non-vacuity examples) -/

/-- let thread `t` take its next step if it has one and it is enabled -/
def stepThread (s : State) (t : Tid) : State :=
  match (s.th t).cur with
  | none =>
    match (s.th t).todo with
    | [] => s
    | b :: bs =>
      { holder := s.holder
        th := setTh s.th t { done := (s.th t).done, cur := some ([], b), todo := bs }
        log := ⟨t, (s.th t).done, .inv⟩ :: s.log }
  | some (_, []) =>
    { holder := s.holder
      th := setTh s.th t { done := (s.th t).done + 1, cur := none, todo := (s.th t).todo }
      log := ⟨t, (s.th t).done, .ret⟩ :: s.log }
  | some (past, i :: r) =>
    if enabled s.holder i then
      { holder := holderAfter s.holder t i
        th := setTh s.th t { done := (s.th t).done, cur := some (past ++ [i], r), todo := (s.th t).todo }
        log := ⟨t, (s.th t).done, .ins i⟩ :: s.log }
    else s

theorem stepThread_reachable {progs : Tid → List (List Instr)} {s : State} (hr : Reachable progs s) (t : Tid) :
    Reachable progs (stepThread s t) := by
  unfold stepThread
  split
  · split
    · exact hr
    · exact .step hr (Step.invoke s t _ _ ‹_› ‹_›)
  · exact .step hr (Step.ret s t _ ‹_›)
  · split
    · exact .step hr (Step.instr s t _ _ _ ‹_› ‹_›)
    · exact hr

/-- run a schedule: a list of thread identifiers, one step each (blocked or finished
threads skip their turn) -/
def runSched (progs : Tid → List (List Instr)) (sched : List Tid) : State :=
  sched.foldl stepThread (init progs)

theorem runSched_reachable (progs : Tid → List (List Instr)) (sched : List Tid) :
    Reachable progs (runSched progs sched) := by
  unfold runSched
  suffices h : ∀ s, Reachable progs s → Reachable progs (sched.foldl stepThread s) from h _ .init
  induction sched with
  | nil => intro s h; exact h
  | cons t l ih => intro s h; exact ih _ (stepThread_reachable h t)

end Iso8583.Lin
