/-
Helper lemmas for the value encoders (used by C07 and by the field layer).
-/
import Iso8583.Model.Encoding
import Iso8583.Lemmas.Bytes

namespace Iso8583
open Enc

/-! ### BCD -/

theorem bcdPack_roundtrip : ∀ (ds : Bytes), (∀ c ∈ ds, isDigit c) → ds.length % 2 = 0 →
    ∃ bs, bcdPack ds = some bs ∧ bs.length = ds.length / 2 ∧ bcdUnpack bs = some ds := by
  intro ds
  induction ds using pairInduction with
  | h0 => intro _ _; exact ⟨[], rfl, rfl, rfl⟩
  | h1 a => intro _ h; simp at h
  | h2 a b l ih =>
    intro hd hlen
    have ha : isDigit a := hd a (by simp)
    have hb : isDigit b := hd b (by simp)
    obtain ⟨bs, h1, h2, h3⟩ := ih (fun c hc => hd c (by simp [-UInt8.ofNat_add, -UInt8.ofNat_mul, hc])) (by simp at hlen; omega)
    refine ⟨UInt8.ofNat ((a.toNat - 48) * 16 + (b.toNat - 48)) :: bs, ?_, ?_, ?_⟩
    · simp [-UInt8.ofNat_add, -UInt8.ofNat_mul, bcdPack, nib?, decVal_of_digit ha, decVal_of_digit hb, h1]
    · simp [-UInt8.ofNat_add, -UInt8.ofNat_mul, h2]; omega
    · have h48 := ha.1; have h57 := ha.2; have hb48 := hb.1; have hb57 := hb.2
      have e : (UInt8.ofNat ((a.toNat - 48) * 16 + (b.toNat - 48))).toNat = (a.toNat - 48) * 16 + (b.toNat - 48) :=
        ofNat_toNat_lt (by omega)
      have e1 : ((a.toNat - 48) * 16 + (b.toNat - 48)) / 16 = a.toNat - 48 := by omega
      have e2 : ((a.toNat - 48) * 16 + (b.toNat - 48)) % 16 = b.toNat - 48 := by omega
      simp only [bcdUnpack, e, e1, e2, h3]
      have : a.toNat - 48 ≤ 9 ∧ b.toNat - 48 ≤ 9 := by omega
      simp [-UInt8.ofNat_add, -UInt8.ofNat_mul, this, asciiDigit_of_digit ha, asciiDigit_of_digit hb]

/-- packing fails as soon as one character is not a decimal digit -/
theorem bcdPack_none_of_nondigit : ∀ (ds : Bytes), ds.length % 2 = 0 → (∃ c ∈ ds, ¬ isDigit c) →
    bcdPack ds = none := by
  intro ds
  induction ds using pairInduction with
  | h0 => intro _ h; obtain ⟨c, hc, _⟩ := h; simp at hc
  | h1 a => intro h _; simp at h
  | h2 a b l ih =>
    intro hlen ⟨c, hc, hnd⟩
    simp only [bcdPack]
    cases ha : nib? a with
    | none => simp
    | some x =>
      cases hb : nib? b with
      | none => simp
      | some y =>
        have hda := (decVal_some ha).1
        have hdb := (decVal_some hb).1
        have hcl : c ∈ l := by
          simp only [List.mem_cons] at hc
          rcases hc with rfl | rfl | h
          · exact absurd hda hnd
          · exact absurd hdb hnd
          · exact h
        have := ih (by simp at hlen; omega) ⟨c, hcl, hnd⟩
        simp [-UInt8.ofNat_add, -UInt8.ofNat_mul, this]

/-- whatever `bcdUnpack` returns is made of decimal digits, two per input byte -/
theorem bcdUnpack_sound : ∀ (bs : Bytes) (ds : Bytes), bcdUnpack bs = some ds →
    ds.length = 2 * bs.length ∧ ∀ c ∈ ds, isDigit c := by
  intro bs
  induction bs with
  | nil => intro ds h; simp [-UInt8.ofNat_add, -UInt8.ofNat_mul, bcdUnpack] at h; subst h; simp
  | cons x rest ih =>
    intro ds h
    simp only [bcdUnpack] at h
    split at h
    · rename_i hx
      cases hr : bcdUnpack rest with
      | none => simp [-UInt8.ofNat_add, -UInt8.ofNat_mul, hr] at h
      | some r =>
        simp [-UInt8.ofNat_add, -UInt8.ofNat_mul, hr] at h; subst h
        obtain ⟨h1, h2⟩ := ih r hr
        refine ⟨by simp [-UInt8.ofNat_add, -UInt8.ofNat_mul, h1]; omega, ?_⟩
        intro c hc
        simp only [List.mem_cons] at hc
        rcases hc with rfl | rfl | hc
        · exact asciiDigit_isDigit hx.1
        · exact asciiDigit_isDigit hx.2
        · exact h2 c hc
    · cases h

/-- layout: byte `i` of the packed form holds digits `2i` (high nibble) and `2i+1` (low nibble) -/
theorem bcdPack_layout : ∀ (ds bs : Bytes), bcdPack ds = some bs →
    ∀ i, i < bs.length →
      (bs.getD i 0).toNat = ((ds.getD (2 * i) 0).toNat - 48) * 16 + ((ds.getD (2 * i + 1) 0).toNat - 48) := by
  intro ds
  induction ds using pairInduction with
  | h0 => intro bs h i hi; simp [-UInt8.ofNat_add, -UInt8.ofNat_mul, bcdPack] at h; subst h; simp at hi
  | h1 a => intro bs h; simp [-UInt8.ofNat_add, -UInt8.ofNat_mul, bcdPack] at h
  | h2 a b l ih =>
    intro bs h i hi
    simp only [bcdPack] at h
    cases ha : nib? a with
    | none => simp [-UInt8.ofNat_add, -UInt8.ofNat_mul, ha] at h
    | some x =>
      cases hb : nib? b with
      | none => simp [-UInt8.ofNat_add, -UInt8.ofNat_mul, ha, hb] at h
      | some y =>
        cases hl : bcdPack l with
        | none => simp [-UInt8.ofNat_add, -UInt8.ofNat_mul, ha, hb, hl] at h
        | some r =>
          simp [-UInt8.ofNat_add, -UInt8.ofNat_mul, ha, hb, hl] at h; subst h
          obtain ⟨hda, hx⟩ := decVal_some ha
          obtain ⟨hdb, hy⟩ := decVal_some hb
          cases i with
          | zero =>
            have := hda.1; have := hda.2; have := hdb.1; have := hdb.2
            simp only [List.getD_cons_zero, Nat.mul_zero, Nat.zero_add, List.getD_cons_succ]
            rw [ofNat_toNat_lt (by omega)]; omega
          | succ j =>
            have := ih r hl j (by simp at hi; omega)
            simp only [List.getD_cons_succ]
            have e1 : 2 * (j + 1) = (2 * j + 1) + 1 := by omega
            rw [e1]
            simp only [List.getD_cons_succ]
            exact this

/-! ### hex -/

theorem hexEncodeUpper_length (bs : Bytes) : (hexEncodeUpper bs).length = 2 * bs.length := by
  induction bs with
  | nil => rfl
  | cons x xs ih => simp [-UInt8.ofNat_add, -UInt8.ofNat_mul, hexEncodeUpper, List.flatMap_cons] at ih ⊢; omega

theorem hexEncodeUpper_cons (x : Byte) (xs : Bytes) :
    hexEncodeUpper (x :: xs) = hexDigitUpper (x.toNat / 16) :: hexDigitUpper (x.toNat % 16) :: hexEncodeUpper xs := by
  simp [-UInt8.ofNat_add, -UInt8.ofNat_mul, hexEncodeUpper, List.flatMap_cons]

theorem hexEncodeUpper_append (a b : Bytes) : hexEncodeUpper (a ++ b) = hexEncodeUpper a ++ hexEncodeUpper b := by
  simp [-UInt8.ofNat_add, -UInt8.ofNat_mul, hexEncodeUpper, List.flatMap_append]

theorem hexEncodeUpper_upper (bs : Bytes) : ∀ c ∈ hexEncodeUpper bs, isUpperHexChar c := by
  induction bs with
  | nil => simp [-UInt8.ofNat_add, -UInt8.ofNat_mul, hexEncodeUpper]
  | cons x xs ih =>
    intro c hc
    rw [hexEncodeUpper_cons] at hc
    simp only [List.mem_cons] at hc
    have := byte_toNat_lt x
    rcases hc with rfl | rfl | hc
    · exact hexDigitUpper_upper (by omega)
    · exact hexDigitUpper_upper (by omega)
    · exact ih c hc

theorem hexDecode_hexEncodeUpper (bs : Bytes) : hexDecode (hexEncodeUpper bs) = some bs := by
  induction bs with
  | nil => rfl
  | cons x xs ih =>
    have hx := byte_toNat_lt x
    rw [hexEncodeUpper_cons]
    simp only [hexDecode, hexVal_hexDigitUpper (show x.toNat / 16 < 16 by omega),
      hexVal_hexDigitUpper (show x.toNat % 16 < 16 by omega), ih]
    have : x.toNat / 16 * 16 + x.toNat % 16 = x.toNat := by omega
    simp [-UInt8.ofNat_add, -UInt8.ofNat_mul, this]

theorem hexDecode_length : ∀ (cs bs : Bytes), hexDecode cs = some bs → cs.length = 2 * bs.length := by
  intro cs
  induction cs using pairInduction with
  | h0 => intro bs h; simp [-UInt8.ofNat_add, -UInt8.ofNat_mul, hexDecode] at h; subst h; rfl
  | h1 a => intro bs h; simp [-UInt8.ofNat_add, -UInt8.ofNat_mul, hexDecode] at h
  | h2 a b l ih =>
    intro bs h
    simp only [hexDecode] at h
    cases ha : hexVal? a with
    | none => simp [-UInt8.ofNat_add, -UInt8.ofNat_mul, ha] at h
    | some x =>
      cases hb : hexVal? b with
      | none => simp [-UInt8.ofNat_add, -UInt8.ofNat_mul, ha, hb] at h
      | some y =>
        cases hl : hexDecode l with
        | none => simp [-UInt8.ofNat_add, -UInt8.ofNat_mul, ha, hb, hl] at h
        | some r =>
          simp [-UInt8.ofNat_add, -UInt8.ofNat_mul, ha, hb, hl] at h; subst h
          simp [-UInt8.ofNat_add, -UInt8.ofNat_mul, ih r hl]; omega

theorem hexDecode_of_hexChars : ∀ (cs : Bytes), cs.length % 2 = 0 → (∀ c ∈ cs, isHexChar c) →
    ∃ bs, hexDecode cs = some bs := by
  intro cs
  induction cs using pairInduction with
  | h0 => intro _ _; exact ⟨[], rfl⟩
  | h1 a => intro h _; simp at h
  | h2 a b l ih =>
    intro hlen hc
    obtain ⟨x, hx, _⟩ := hexVal_of_hexChar (hc a (by simp))
    obtain ⟨y, hy, _⟩ := hexVal_of_hexChar (hc b (by simp))
    obtain ⟨r, hr⟩ := ih (by simp at hlen; omega) (fun c h => hc c (by simp [-UInt8.ofNat_add, -UInt8.ofNat_mul, h]))
    exact ⟨UInt8.ofNat (x * 16 + y) :: r, by simp [-UInt8.ofNat_add, -UInt8.ofNat_mul, hexDecode, hx, hy, hr]⟩

theorem hexDecode_none_of_odd : ∀ (cs : Bytes), cs.length % 2 = 1 → hexDecode cs = none := by
  intro cs
  induction cs using pairInduction with
  | h0 => intro h; simp at h
  | h1 a => intro _; rfl
  | h2 a b l ih =>
    intro h
    have := ih (by simp at h; omega)
    simp only [hexDecode, this]
    cases hexVal? a <;> cases hexVal? b <;> rfl

theorem hexDecode_none_of_bad : ∀ (cs : Bytes), (∃ c ∈ cs, ¬ isHexChar c) → hexDecode cs = none := by
  intro cs
  induction cs using pairInduction with
  | h0 => intro ⟨c, hc, _⟩; simp at hc
  | h1 a => intro _; rfl
  | h2 a b l ih =>
    intro ⟨c, hc, hbad⟩
    simp only [hexDecode]
    cases ha : hexVal? a with
    | none => rfl
    | some x =>
      cases hb : hexVal? b with
      | none => rfl
      | some y =>
        have hcl : c ∈ l := by
          simp only [List.mem_cons] at hc
          rcases hc with rfl | rfl | h
          · exact absurd (hexVal_some_lt ha).2 hbad
          · exact absurd (hexVal_some_lt hb).2 hbad
          · exact h
        simp [-UInt8.ofNat_add, -UInt8.ofNat_mul, ih ⟨c, hcl, hbad⟩]

/-- upper-casing of hex text: what `hexEncodeUpper (hexDecode x)` yields -/
def upperHex (c : Byte) : Byte := if 97 ≤ c.toNat ∧ c.toNat ≤ 102 then UInt8.ofNat (c.toNat - 32) else c

theorem hexDigitUpper_hexVal {c : Byte} {d : Nat} (h : hexVal? c = some d) : hexDigitUpper d = upperHex c := by
  unfold hexVal? at h
  simp only at h
  unfold upperHex hexDigitUpper
  have hc := byte_toNat_lt c
  apply byte_ext
  split at h
  · cases h
    have h1 : ¬ (97 ≤ c.toNat ∧ c.toNat ≤ 102) := by omega
    have h2 : c.toNat - 48 < 10 := by omega
    simp only [h1, h2, ite_true, ite_false]
    rw [ofNat_toNat_lt (by omega)]; omega
  · split at h
    · cases h
      have h1 : ¬ (97 ≤ c.toNat ∧ c.toNat ≤ 102) := by omega
      have h2 : ¬ (c.toNat - 55 < 10) := by omega
      simp only [h1, h2, ite_false]
      rw [ofNat_toNat_lt (by omega)]; omega
    · split at h
      · cases h
        rename_i h3
        have h2 : ¬ (c.toNat - 87 < 10) := by omega
        simp only [h3, h2, ite_true, ite_false, and_self]
        rw [ofNat_toNat_lt (by omega), ofNat_toNat_lt (by omega)]; omega
      · cases h

theorem hexEncodeUpper_hexDecode : ∀ (cs bs : Bytes), hexDecode cs = some bs →
    hexEncodeUpper bs = cs.map upperHex := by
  intro cs
  induction cs using pairInduction with
  | h0 => intro bs h; simp [-UInt8.ofNat_add, -UInt8.ofNat_mul, hexDecode] at h; subst h; rfl
  | h1 a => intro bs h; simp [-UInt8.ofNat_add, -UInt8.ofNat_mul, hexDecode] at h
  | h2 a b l ih =>
    intro bs h
    simp only [hexDecode] at h
    cases ha : hexVal? a with
    | none => simp [-UInt8.ofNat_add, -UInt8.ofNat_mul, ha] at h
    | some x =>
      cases hb : hexVal? b with
      | none => simp [-UInt8.ofNat_add, -UInt8.ofNat_mul, ha, hb] at h
      | some y =>
        cases hl : hexDecode l with
        | none => simp [-UInt8.ofNat_add, -UInt8.ofNat_mul, ha, hb, hl] at h
        | some r =>
          simp [-UInt8.ofNat_add, -UInt8.ofNat_mul, ha, hb, hl] at h; subst h
          have hx := (hexVal_some_lt ha).1
          have hy := (hexVal_some_lt hb).1
          rw [hexEncodeUpper_cons, ofNat_toNat_lt (by omega)]
          have e1 : (x * 16 + y) / 16 = x := by omega
          have e2 : (x * 16 + y) % 16 = y := by omega
          simp [-UInt8.ofNat_add, -UInt8.ofNat_mul, e1, e2, hexDigitUpper_hexVal ha, hexDigitUpper_hexVal hb, ih r hl]

/-! ### BER tag -/

theorem berTagMore_spec : ∀ (mid : Bytes) (last : Byte) (rest : Bytes),
    (∀ m ∈ mid, 128 ≤ m.toNat) → last.toNat < 128 →
    berTagMore (mid ++ last :: rest) = some (mid.length + 1) := by
  intro mid
  induction mid with
  | nil => intro last rest _ hl; simp [-UInt8.ofNat_add, -UInt8.ofNat_mul, berTagMore, hl]
  | cons m ms ih =>
    intro last rest hm hl
    have h1 : ¬ m.toNat < 128 := by have := hm m (by simp); omega
    simp [-UInt8.ofNat_add, -UInt8.ofNat_mul, berTagMore, h1, ih last rest (fun x hx => hm x (by simp [-UInt8.ofNat_add, -UInt8.ofNat_mul, hx])) hl]

theorem berTagMore_none : ∀ (mid : Bytes), (∀ m ∈ mid, 128 ≤ m.toNat) → berTagMore mid = none := by
  intro mid
  induction mid with
  | nil => intro _; rfl
  | cons m ms ih =>
    intro hm
    have h1 : ¬ m.toNat < 128 := by have := hm m (by simp); omega
    simp [-UInt8.ofNat_add, -UInt8.ofNat_mul, berTagMore, h1, ih (fun x hx => hm x (by simp [-UInt8.ofNat_add, -UInt8.ofNat_mul, hx]))]

theorem berTagMore_le : ∀ (d : Bytes) (k : Nat), berTagMore d = some k → 1 ≤ k ∧ k ≤ d.length := by
  intro d
  induction d with
  | nil => intro k h; simp [-UInt8.ofNat_add, -UInt8.ofNat_mul, berTagMore] at h
  | cons x xs ih =>
    intro k h
    simp only [berTagMore] at h
    split at h
    · cases h; simp
    · cases hr : berTagMore xs with
      | none => simp [-UInt8.ofNat_add, -UInt8.ofNat_mul, hr] at h
      | some j =>
        simp [-UInt8.ofNat_add, -UInt8.ofNat_mul, hr] at h; subst h
        have := ih j hr
        simp; omega

end Iso8583
