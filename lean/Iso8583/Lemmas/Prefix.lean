/-
Helper lemmas for the length prefixers (C06, and the field layer).
-/
import Iso8583.Model.Prefix
import Iso8583.Lemmas.Encoding

namespace Iso8583
open Pref

theorem ofDigits_replicate_zero (b k : Nat) (ds : List Nat) :
    ofDigits b (List.replicate k 0 ++ ds) = ofDigits b ds := by
  induction k with
  | zero => simp
  | succ k ih =>
    simp only [List.replicate_succ, List.cons_append]
    unfold ofDigits at ih ⊢
    simp only [List.foldl_cons, Nat.zero_mul, Nat.add_zero]
    exact ih

theorem foldl_digits_lt (b : Nat) (hb : 0 < b) : ∀ (ds : List Nat) (acc k : Nat), acc < b ^ k →
    (∀ x ∈ ds, x < b) → ds.foldl (fun a d => a * b + d) acc < b ^ (k + ds.length)
  | [], acc, k, h, _ => by simpa using h
  | x :: xs, acc, k, h, hx => by
    have h1 : acc * b + x < b ^ (k + 1) := by
      have := hx x (by simp)
      rw [Nat.pow_succ]
      calc acc * b + x < acc * b + b := by omega
        _ = (acc + 1) * b := by rw [Nat.add_mul]; simp
        _ ≤ b ^ k * b := Nat.mul_le_mul_right b h
    have := foldl_digits_lt b hb xs (acc * b + x) (k + 1) h1 (fun y hy => hx y (by simp [hy]))
    simp only [List.foldl_cons, List.length_cons]
    have e : k + (xs.length + 1) = k + 1 + xs.length := by omega
    rw [e]; exact this

theorem foldl_digits_ge : ∀ (l : List Nat) (acc k : Nat), 256 ^ k ≤ acc →
    256 ^ (k + l.length) ≤ l.foldl (fun a d => a * 256 + d) acc
  | [], acc, k, h => by simpa using h
  | z :: zs, acc, k, h => by
    have h1 : 256 ^ (k + 1) ≤ acc * 256 + z := by
      rw [Nat.pow_succ]
      exact Nat.le_trans (Nat.mul_le_mul_right 256 h) (Nat.le_add_right _ _)
    have := foldl_digits_ge zs (acc * 256 + z) (k + 1) h1
    simp only [List.foldl_cons, List.length_cons]
    have e : k + (zs.length + 1) = k + 1 + zs.length := by omega
    rw [e]; exact this

theorem ofDigits_lt (b : Nat) (ds : List Nat) (hb : 0 < b) (h : ∀ x ∈ ds, x < b) :
    ofDigits b ds < b ^ ds.length := by
  have := foldl_digits_lt b hb ds 0 0 (by simp) h
  simpa [ofDigits] using this

theorem minimalBE_spec (fuel n : Nat) (h : n < 256 ^ fuel) :
    ofDigits 256 (minimalBE fuel n) = n ∧ (∀ x ∈ minimalBE fuel n, x < 256) ∧
    (minimalBE fuel n).length ≤ fuel ∧ (0 < n → (minimalBE fuel n).head? ≠ some 0 ∧ minimalBE fuel n ≠ []) := by
  induction fuel generalizing n with
  | zero =>
    have : n = 0 := by simpa using h
    subst this; simp [minimalBE, ofDigits]
  | succ fuel ih =>
    by_cases hn : n = 0
    · subst hn; simp [minimalBE, ofDigits]
    · have hdiv : n / 256 < 256 ^ fuel := by
        rw [Nat.pow_succ] at h
        exact Nat.div_lt_of_lt_mul (by rw [Nat.mul_comm]; exact h)
      obtain ⟨h1, h2, h3, h4⟩ := ih (n / 256) hdiv
      simp only [minimalBE, hn, ite_false]
      refine ⟨?_, ?_, ?_, ?_⟩
      · rw [ofDigits_append_singleton, h1]; omega
      · intro x hx
        simp only [List.mem_append, List.mem_singleton] at hx
        rcases hx with hx | hx
        · exact h2 x hx
        · omega
      · simp; omega
      · intro _
        by_cases hq : n / 256 = 0
        · have : minimalBE fuel (n / 256) = [] := by
            rw [hq]; cases fuel <;> simp [minimalBE]
          rw [this]
          simp
          omega
        · have hq' : 0 < n / 256 := Nat.pos_of_ne_zero hq
          obtain ⟨h5, h6⟩ := h4 hq'
          constructor
          · cases hm : minimalBE fuel (n / 256) with
            | nil => exact absurd hm h6
            | cons y ys => rw [hm] at h5; simpa using h5
          · simp

theorem map_toNat_bytesOfNats (xs : List Nat) (h : ∀ x ∈ xs, x < 256) :
    (bytesOfNats xs).map (·.toNat) = xs := by
  induction xs with
  | nil => rfl
  | cons x xs ih =>
    simp only [bytesOfNats, List.map_cons, List.map_map] at ih ⊢
    rw [ofNat_toNat_lt (h x (by simp))]
    congr 1
    exact ih (fun y hy => h y (by simp [hy]))

theorem beValue_bytesOfNats (xs : List Nat) (h : ∀ x ∈ xs, x < 256) :
    beValue (bytesOfNats xs) = ofDigits 256 xs := by
  unfold beValue; rw [map_toNat_bytesOfNats xs h]

theorem bytesOfNats_length (xs : List Nat) : (bytesOfNats xs).length = xs.length := by
  simp [bytesOfNats]

theorem decString_length (d n : Nat) : (decString d n).length = d := by
  simp [decString, fixedDec_length]

theorem decString_digits (d n : Nat) : ∀ c ∈ decString d n, isDigit c := by
  intro c hc
  simp only [decString, List.mem_map] at hc
  obtain ⟨x, hx, rfl⟩ := hc
  exact asciiDigit_isDigit (fixedDec_lt d n x hx)

/-- `strconv.Atoi` of a zero-padded `d`-digit rendering gives the number back -/
theorem atoi_decString (d n : Nat) (hd : 1 ≤ d) (hn : n < 10 ^ d) :
    atoi? (decString d n) = some (n : Int) := by
  have hm : mapM? decVal? (decString d n) = some (fixedDec d n) := by
    unfold decString
    exact mapM?_map_of _ (fun y hy => decVal_asciiDigit (fixedDec_lt d n y hy))
  have hv : ofDigits 10 (fixedDec d n) = n := by rw [ofDigits_fixedDec, Nat.mod_eq_of_lt hn]
  have hlen := decString_length d n
  cases hs : decString d n with
  | nil => rw [hs] at hlen; simp at hlen; omega
  | cons c rest =>
    have hc : isDigit c := decString_digits d n c (by rw [hs]; simp)
    have h43 : c ≠ 43 := by intro h; subst h; exact absurd hc (by decide)
    have h45 : c ≠ 45 := by intro h; subst h; exact absurd hc (by decide)
    rw [hs] at hm
    simp only [atoi?, h43, h45, ite_false, hm, Option.map_some, hv]

end Iso8583
