/-
Helper definitions and lemmas for C11 (struct Marshal / Unmarshal): association-list
facts, zero values, the documented-type matrix, canonical forms of Go values, and the
presence / round-trip lemmas for the composite and message loops.
-/
import Iso8583.Model.Marshal
import Iso8583.Lemmas.Decimal
import Iso8583.Lemmas.Encoding
import Iso8583.Spec.Coherent

namespace Iso8583

/-! ### association lists -/

theorem lookupId_insertId {α : Type} (i j : Nat) (v : α) (st : List (Nat × α)) :
    lookupId i (insertId j v st) = if i = j then some v else lookupId i st := by
  induction st with
  | nil =>
    by_cases h : i = j
    · subst h; simp [insertId, lookupId]
    · have : ¬ j = i := fun e => h e.symm
      simp [insertId, lookupId, h, this]
  | cons p rest ih =>
    obtain ⟨k, w⟩ := p
    by_cases hk : k = j
    · subst hk
      by_cases h : i = k
      · subst h; simp [insertId, lookupId]
      · have : ¬ k = i := fun e => h e.symm
        simp [insertId, lookupId, h, this]
    · simp only [insertId, hk, if_false, lookupId]
      by_cases hki : k = i
      · subst hki; simp [hk]
      · simp [hki, ih]

theorem lookup_insertKV {α : Type} (t u : Tag) (v : α) (l : List (Tag × α)) :
    lookup t (insertKV u v l) = if t = u then some v else lookup t l := by
  induction l with
  | nil =>
    by_cases h : t = u
    · subst h; simp [insertKV, lookup]
    · have : ¬ u = t := fun e => h e.symm
      simp [insertKV, lookup, h, this]
  | cons p rest ih =>
    obtain ⟨k, w⟩ := p
    by_cases hk : k = u
    · subst hk
      by_cases h : t = k
      · subst h; simp [insertKV, lookup]
      · have : ¬ k = t := fun e => h e.symm
        simp [insertKV, lookup, h, this]
    · simp only [insertKV, hk, if_false, lookup]
      by_cases hkt : k = t
      · subst hkt; simp [hk]
      · simp [hkt, ih]

/-! ### zero values -/

mutual
theorem GoVal.zero_zero : ∀ v : GoVal, v.zero.zero = v.zero
  | .str _ => rfl
  | .int _ => rfl
  | .int64 _ => rfl
  | .bytes _ _ => rfl
  | .ptr _ v => by simp [GoVal.zero, GoVal.zero_zero v]
  | .libString _ _ => rfl
  | .libNumeric _ _ => rfl
  | .libBinary _ _ => rfl
  | .libHex _ _ => rfl
  | .structPtr _ fs => by simp [GoVal.zero, GoVal.zeroFields_zeroFields fs]
theorem GoVal.zeroFields_zeroFields : ∀ fs : List (FieldHdr × GoVal),
    GoVal.zeroFields (GoVal.zeroFields fs) = GoVal.zeroFields fs
  | [] => rfl
  | (h, v) :: rest => by simp [GoVal.zeroFields, GoVal.zero_zero v, GoVal.zeroFields_zeroFields rest]
end

theorem GoVal.zero_isZero (v : GoVal) : v.zero.isZero = true := by
  cases v <;> simp [GoVal.zero, GoVal.isZero]

@[simp] theorem GoVal.eff_false (v : GoVal) : v.eff false = v := by simp [GoVal.eff]
@[simp] theorem GoVal.eff_true (v : GoVal) : v.eff true = v.zero := by simp [GoVal.eff]

theorem GoVal.eff_zero (z : Bool) (v : GoVal) : v.zero.eff z = v.zero := by
  cases z <;> simp [GoVal.zero_zero]

/-! ### which struct fields reach which message field -/

/-- pointwise relation between two lists of the same length -/
def Forall2 {α β : Type} (R : α → β → Prop) : List α → List β → Prop
  | [], [] => True
  | a :: as, b :: bs => R a b ∧ Forall2 R as bs
  | _, _ => False

def addressedSub (subs : List (Tag × Field)) (h : FieldHdr) : Option Field :=
  if h.indexTagOf.tag = [] then none else lookup h.indexTagOf.tag subs

def handedOver (z : Bool) (h : FieldHdr) (v : GoVal) : Bool :=
  !((v.eff z).isZero && !h.indexTagOf.keepZero)

theorem marshalSubs_present (subs : List (Tag × Field)) :
    ∀ (fields : GoStruct) (vals : List (Tag × Value)) (z : Bool) (vals' : List (Tag × Value)),
      marshalSubs subs vals z fields = .ok vals' →
      ∀ t, (lookup t vals').isSome =
        ((lookup t vals).isSome ||
          fields.any (fun p => p.1.indexTagOf.tag == t && (addressedSub subs p.1).isSome && handedOver z p.1 p.2))
  | [], vals, z, vals', h, t => by
    simp [marshalSubs] at h; subst h; simp
  | (hd, v) :: rest, vals, z, vals', h, t => by
    rw [marshalSubs] at h
    simp only [List.any_cons]
    by_cases htag : hd.indexTagOf.tag = []
    · simp only [htag, if_true] at h
      rw [marshalSubs_present subs rest vals z vals' h t]
      simp [addressedSub, htag]
    · simp only [htag, if_false] at h
      cases hl : lookup hd.indexTagOf.tag subs with
      | none =>
        simp only [hl] at h
        rw [marshalSubs_present subs rest vals z vals' h t]
        simp [addressedSub, htag, hl]
      | some f =>
        simp only [hl] at h
        by_cases hz : ((GoVal.eff z v).isZero && !hd.indexTagOf.keepZero) = true
        · simp only [hz, if_true] at h
          rw [marshalSubs_present subs rest vals z vals' h t]
          simp [handedOver, hz]
        · rw [if_neg hz] at h
          cases hm : marshalField f (lookup hd.indexTagOf.tag vals) z v with
          | ok val =>
            simp only [hm] at h
            rw [marshalSubs_present subs rest _ z vals' h t, lookup_insertKV]
            have hz' : handedOver z hd v = true := by
              unfold handedOver
              cases h1 : (GoVal.eff z v).isZero <;> cases h2 : hd.indexTagOf.keepZero <;> simp_all
            by_cases ht : t = hd.indexTagOf.tag
            · subst ht; simp [addressedSub, htag, hl, hz']
            · have : (hd.indexTagOf.tag == t) = false := beq_eq_false_iff_ne.mpr (fun e => ht e.symm)
              simp [ht, this]
          | err => simp [hm] at h
          | panic => simp [hm] at h

/-- the message field a struct field addresses (`none`: skipped by Marshal and Unmarshal;
Marshal reports an error for an id ≥ 0 the spec does not define) -/
def addressedField (spec : MsgSpec) (h : FieldHdr) : Option Field :=
  if h.indexTagOf.id < 0 then none else spec.fieldAt h.indexTagOf.id

theorem marshalMsg_present (spec : MsgSpec) :
    ∀ (g : GoStruct) (st st' : MState), marshalMsg spec st g = .ok st' →
      ∀ i : Nat, (lookupId i st').isSome =
        ((lookupId i st).isSome ||
          g.any (fun p => decide (p.1.indexTagOf.id = (i : Int)) && (addressedField spec p.1).isSome &&
            handedOver false p.1 p.2))
  | [], st, st', h, i => by
    simp [marshalMsg] at h; subst h; simp
  | (hd, v) :: rest, st, st', h, i => by
    rw [marshalMsg] at h
    simp only [List.any_cons]
    by_cases hid : hd.indexTagOf.id < 0
    · simp only [hid, if_true] at h
      rw [marshalMsg_present spec rest st st' h i]
      simp [addressedField, hid]
    · simp only [hid, if_false] at h
      cases hl : spec.fieldAt hd.indexTagOf.id with
      | none => simp [hl] at h
      | some f =>
        simp only [hl] at h
        by_cases hz : (v.isZero && !hd.indexTagOf.keepZero) = true
        · simp only [hz, if_true] at h
          rw [marshalMsg_present spec rest st st' h i]
          simp [handedOver, hz]
        · rw [if_neg hz] at h
          cases hm : marshalField f (lookupId hd.indexTagOf.id.toNat st) false v with
          | ok val =>
            simp only [hm] at h
            rw [marshalMsg_present spec rest _ st' h i, lookupId_insertId]
            have hz' : handedOver false hd v = true := by
              unfold handedOver
              simp only [GoVal.eff_false]
              cases h1 : v.isZero <;> cases h2 : hd.indexTagOf.keepZero <;> simp_all
            by_cases ht : i = hd.indexTagOf.id.toNat
            · have hdec : decide (hd.indexTagOf.id = (i : Int)) = true := by
                simp only [decide_eq_true_eq]; omega
              rw [if_pos ht]
              simp only [addressedField, hid, if_false, hl, Option.isSome_some, hz', hdec]
              simp
            · have hdec : decide (hd.indexTagOf.id = (i : Int)) = false := by
                simp only [decide_eq_false_iff_not]; omega
              rw [if_neg ht]
              simp only [hdec]
              simp
          | err => simp [hm] at h
          | panic => simp [hm] at h

/-- Unmarshal writes this struct field: it addresses a subfield that is set -/
def subWritten (subs : List (Tag × Field)) (vals : List (Tag × Value)) (h : FieldHdr) : Bool :=
  (addressedSub subs h).isSome && (lookup h.indexTagOf.tag vals).isSome

/-- Unmarshal writes this struct field: it addresses a message field that is set -/
def fieldWritten (spec : MsgSpec) (st : MState) (h : FieldHdr) : Bool :=
  (addressedField spec h).isSome && (lookupId h.indexTagOf.id.toNat st).isSome

theorem unmarshalSubs_frame (subs : List (Tag × Field)) (vals : List (Tag × Value)) :
    ∀ (fields : GoStruct) (z : Bool) (fields' : GoStruct), unmarshalSubs subs vals z fields = .ok fields' →
      Forall2 (fun a b => b.1 = a.1 ∧ (subWritten subs vals a.1 = false → b.2 = a.2.eff z)) fields fields'
  | [], z, fields', h => by
    simp [unmarshalSubs] at h; subst h; simp [Forall2]
  | (hd, v) :: rest, z, fields', h => by
    rw [unmarshalSubs] at h
    split at h
    · rename_i v' hstep
      split at h
      · rename_i more hmore
        simp only [Res.ok.injEq] at h; subst h
        refine ⟨⟨rfl, ?_⟩, unmarshalSubs_frame subs vals rest z more hmore⟩
        intro hw
        simp only [subWritten, addressedSub] at hw
        by_cases htag : hd.indexTagOf.tag = []
        · simp only [htag, if_true, Res.ok.injEq] at hstep; exact hstep.symm
        · simp only [htag, if_false] at hstep hw
          cases hl : lookup hd.indexTagOf.tag subs with
          | none => simp only [hl, Res.ok.injEq] at hstep; exact hstep.symm
          | some f =>
            simp only [hl] at hstep hw
            cases hv : lookup hd.indexTagOf.tag vals with
            | none => simp only [hv, Res.ok.injEq] at hstep; exact hstep.symm
            | some val => simp [hv] at hw
      · simp at h
      · simp at h
    · simp at h
    · simp at h

theorem unmarshalMsg_frame (spec : MsgSpec) (st : MState) :
    ∀ (g g' : GoStruct), unmarshalMsg spec st g = .ok g' →
      Forall2 (fun a b => b.1 = a.1 ∧ (fieldWritten spec st a.1 = false → b.2 = a.2)) g g'
  | [], g', h => by
    simp [unmarshalMsg] at h; subst h; simp [Forall2]
  | (hd, v) :: rest, g', h => by
    rw [unmarshalMsg] at h
    split at h
    · rename_i v' hstep
      split at h
      · rename_i more hmore
        simp only [Res.ok.injEq] at h; subst h
        refine ⟨⟨rfl, ?_⟩, unmarshalMsg_frame spec st rest more hmore⟩
        intro hw
        simp only [fieldWritten, addressedField] at hw
        by_cases hid : hd.indexTagOf.id < 0
        · simp only [hid, if_true, Res.ok.injEq] at hstep; exact hstep.symm
        · simp only [hid, if_false] at hstep hw
          cases hl : spec.fieldAt hd.indexTagOf.id with
          | none => simp only [hl, Res.ok.injEq] at hstep; exact hstep.symm
          | some f =>
            simp only [hl] at hstep hw
            cases hv : lookupId hd.indexTagOf.id.toNat st with
            | none => simp only [hv, Res.ok.injEq] at hstep; exact hstep.symm
            | some val => simp [hv] at hw
      · simp at h
      · simp at h
    · simp at h
    · simp at h


/-! ### the documented Go types per field kind; canonical forms of Go values -/

/-- the Go types each primitive field kind documents (DESIGN §4 C11) -/
def documented : Kind → GoVal → Bool
  | .string, .str _ => true
  | .string, .ptr _ (.str _) => true
  | .string, .int _ => true
  | .string, .ptr _ (.int _) => true
  | .string, .int64 _ => true
  | .string, .ptr _ (.int64 _) => true
  | .string, .libString _ _ => true
  | .numeric, .int64 _ => true
  | .numeric, .ptr _ (.int64 _) => true
  | .numeric, .str _ => true
  | .numeric, .ptr _ (.str _) => true
  | .numeric, .libNumeric _ _ => true
  | .binary, .str _ => true
  | .binary, .ptr _ (.str _) => true
  | .binary, .bytes _ _ => true
  | .binary, .ptr _ (.bytes _ _) => true
  | .binary, .libBinary _ _ => true
  | .hex, .str _ => true
  | .hex, .ptr _ (.str _) => true
  | .hex, .bytes _ _ => true
  | .hex, .ptr _ (.bytes _ _) => true
  | .hex, .libHex _ _ => true
  | _, _ => false

def inInt64 (i : Int) : Bool := decide (-(2 ^ 63 : Int) ≤ i ∧ i < 2 ^ 63)

/-- Go `int` / `int64` values are 64-bit -/
def GoVal.intsInRange : GoVal → Bool
  | .int i => inInt64 i
  | .int64 i => inInt64 i
  | .ptr _ (.int i) => inInt64 i
  | .ptr _ (.int64 i) => inInt64 i
  | .libNumeric _ i => inInt64 i
  | _ => true

/-- KF4: a `[]byte` struct field (by value) -/
def GoVal.isBytesByValue : GoVal → Bool
  | .bytes _ _ => true
  | _ => false

/-- what a non-zero Go value of a documented type comes back as: the target field's
canonical form of the data, in the same Go type (decimal text re-rendered by a Numeric
field, hex text lower-cased by a Binary field, a nil slice behind a pointer reads back
empty) -/
def canonGo : Kind → GoVal → GoVal
  | .numeric, .str s =>
    match parseInt64? s with | some i => .str (formatInt i) | none => .str s
  | .numeric, .ptr false (.str s) =>
    match parseInt64? s with | some i => .ptr false (.str (formatInt i)) | none => .ptr false (.str s)
  | .binary, .str s =>
    match Enc.hexDecode s with | some b => .str (hexEncodeLower b) | none => .str s
  | .binary, .ptr false (.str s) =>
    match Enc.hexDecode s with | some b => .ptr false (.str (hexEncodeLower b)) | none => .ptr false (.str s)
  | .binary, .ptr false (.bytes _ b) => .ptr false (.bytes false b)
  | .hex, .ptr false (.bytes _ b) => .ptr false (.bytes false b)
  | _, v => v

theorem hexDecodePrefix_hexEncodeUpper : ∀ (b : Bytes), hexDecodePrefix (Enc.hexEncodeUpper b) = b
  | [] => rfl
  | x :: xs => by
    have hx := byte_toNat_lt x
    rw [hexEncodeUpper_cons]
    simp only [hexDecodePrefix, hexVal_hexDigitUpper (show x.toNat / 16 < 16 by omega),
      hexVal_hexDigitUpper (show x.toNat % 16 < 16 by omega), hexDecodePrefix_hexEncodeUpper xs]
    have : x.toNat / 16 * 16 + x.toNat % 16 = x.toNat := by omega
    simp [-UInt8.ofNat_add, -UInt8.ofNat_mul, this]

/-- the round trip of one primitive cell of the matrix: Marshal then Unmarshal into the
zero value of the same Go type gives the canonical form — every documented type except
`[]byte` by value (KF4) -/
theorem rt_prim (k : Kind) (v : GoVal) (val : Value)
    (hdoc : documented k v = true) (hnz : v.isZero = false) (hrange : v.intsInRange = true)
    (hkf4 : v.isBytesByValue = false) (hm : marshalPrim k v = .ok val) :
    unmarshalPrim k val v.zero = .ok (canonGo k v) := by
  have hfmt : ∀ i, inInt64 i = true → parseInt64? (formatInt i) = some i := fun i h => by
    simp only [inInt64, decide_eq_true_eq] at h; exact parseInt64_formatInt_range i h.1 h.2
  cases v with
  | ptr n x =>
    cases x <;> cases k <;> cases n <;>
      simp_all [documented, marshalPrim, marshalString, marshalNumeric, marshalBinary, marshalHex,
        GoVal.isZero, GoVal.typeHasInt, GoVal.isBytesByValue, GoVal.intsInRange, GoVal.zero,
        unmarshalPrim, unmarshalString, unmarshalNumeric, unmarshalBinary, unmarshalHex, canonGo]
    all_goals first
      | (subst hm; simp [hfmt _ hrange]; done)
      | (subst hm; simp [hexDecodePrefix_hexEncodeUpper]; done)
      | (rename_i s; cases hp : parseInt64? s <;> simp [hp, Res.ofOption] at hm ⊢ <;> (subst hm; simp); done)
      | (rename_i s; cases hp : Enc.hexDecode s <;> simp [hp, Res.ofOption] at hm ⊢ <;> (subst hm; simp); done)
  | _ =>
    cases k <;>
      simp_all [documented, marshalPrim, marshalString, marshalNumeric, marshalBinary, marshalHex,
        GoVal.isZero, GoVal.typeHasInt, GoVal.isBytesByValue, GoVal.intsInRange, GoVal.zero,
        unmarshalPrim, unmarshalString, unmarshalNumeric, unmarshalBinary, unmarshalHex, canonGo]
    all_goals first
      | (subst hm; simp [hfmt _ hrange]; done)
      | (subst hm; simp [hexDecodePrefix_hexEncodeUpper]; done)
      | (rename_i s; cases hp : parseInt64? s <;> simp [hp, Res.ofOption] at hm ⊢ <;> (subst hm; simp); done)
      | (rename_i s; cases hp : Enc.hexDecode s <;> simp [hp, Res.ofOption] at hm ⊢ <;> (subst hm; simp); done)

/-- every Go value that is not of a documented type for the field kind is rejected by
Marshal — unless it is a zero value (Marshal clears the field without looking at the type;
`String.Marshal` does so only when the type's name does not contain "int") -/
theorem marshalPrim_rejects (k : Kind) (v : GoVal) (hdoc : documented k v = false)
    (hnz : v.isZero = false) : marshalPrim k v = .err := by
  cases v with
  | ptr n x =>
    cases x <;> cases k <;> cases n <;>
      simp_all [documented, marshalPrim, marshalString, marshalNumeric, marshalBinary, marshalHex,
        GoVal.isZero, GoVal.typeHasInt]
  | _ =>
    cases k <;>
      simp_all [documented, marshalPrim, marshalString, marshalNumeric, marshalBinary, marshalHex,
        GoVal.isZero, GoVal.typeHasInt]

theorem documented_zero (k : Kind) (v : GoVal) : documented k v.zero = documented k v := by
  cases v with
  | ptr n x => cases x <;> cases k <;> simp [documented, GoVal.zero]
  | _ => cases k <;> simp [documented, GoVal.zero]

theorem intsInRange_zero (v : GoVal) : v.zero.intsInRange = true := by
  cases v with
  | ptr n x => cases x <;> simp [GoVal.intsInRange, GoVal.zero, inInt64]
  | _ => simp [GoVal.intsInRange, GoVal.zero, inInt64]

theorem isBytesByValue_zero (v : GoVal) : v.zero.isBytesByValue = v.isBytesByValue := by
  cases v <;> simp [GoVal.isBytesByValue, GoVal.zero]

/-- whatever Marshal accepted from a documented type (zero values included) can be
unmarshalled into that type again — except `[]byte` by value (KF4) -/
theorem marshalPrim_ok_unmarshal_ok (k : Kind) (v : GoVal) (val : Value)
    (hdoc : documented k v = true) (hrange : v.intsInRange = true)
    (hkf4 : v.isBytesByValue = false) (hm : marshalPrim k v = .ok val) :
    ∃ v', unmarshalPrim k val v.zero = .ok v' := by
  by_cases hz : v.isZero = false
  · exact ⟨_, rt_prim k v val hdoc hz hrange hkf4 hm⟩
  · have hfmt0 : parseInt64? (formatInt 0) = some 0 := parseInt64_formatInt_range 0 (by decide) (by decide)
    cases v with
    | ptr n x =>
      cases x <;> cases k <;> cases n <;>
        simp_all [documented, marshalPrim, marshalString, marshalNumeric, marshalBinary, marshalHex,
          GoVal.isZero, GoVal.typeHasInt, GoVal.isBytesByValue, GoVal.zero,
          unmarshalPrim, unmarshalString, unmarshalNumeric, unmarshalBinary, unmarshalHex]
      all_goals (subst hm; simp [hfmt0])
    | _ =>
      cases k <;>
        simp_all [documented, marshalPrim, marshalString, marshalNumeric, marshalBinary, marshalHex,
          GoVal.isZero, GoVal.typeHasInt, GoVal.isBytesByValue, GoVal.zero,
          unmarshalPrim, unmarshalString, unmarshalNumeric, unmarshalBinary, unmarshalHex]
      all_goals (subst hm; simp [hfmt0])


/-- tags of the struct fields that address a subfield of the composite -/
def addressedTags (subs : List (Tag × Field)) : GoStruct → List Tag
  | [] => []
  | (h, _) :: rest =>
    match addressedSub subs h with
    | some _ => h.indexTagOf.tag :: addressedTags subs rest
    | none => addressedTags subs rest

mutual
/-- the struct uses documented Go types only (recursively), ints are 64-bit, no two fields
of one struct address the same subfield; `kf4 = false` additionally excludes `[]byte` by
value (KF4) -/
def docOK (kf4 : Bool) : Field → GoVal → Bool
  | .prim s, v => documented s.kind v && v.intsInRange && (kf4 || !v.isBytesByValue)
  | .comp _ subs, .structPtr _ fields =>
    docFields kf4 (addressedSub subs) fields && allDistinct (addressedTags subs fields)
  | .comp _ _, _ => false

def docFields (kf4 : Bool) (addr : FieldHdr → Option Field) : GoStruct → Bool
  | [] => true
  | (h, v) :: rest =>
    (match addr h with
     | some f => docOK kf4 f v
     | none => true) && docFields kf4 addr rest
end

mutual
/-- `v'` is what the property promises for `v` after Marshal + Unmarshal into a fresh struct:
a primitive comes back in canonical form; a struct pointer comes back non-nil with every
non-zero field in that relation, every zero field without keepzero still zero, and every
field that addresses nothing still zero -/
def RT : Field → GoVal → GoVal → Prop
  | .prim s, v, v' => v' = canonGo s.kind v
  | .comp _ subs, .structPtr _ fields, v' => ∃ fields', v' = .structPtr false fields' ∧ RTs (addressedSub subs) fields fields'
  | .comp _ _, _, _ => True

def RTs (addr : FieldHdr → Option Field) : GoStruct → GoStruct → Prop
  | [], fs' => fs' = []
  | (h, v) :: rest, fs' => ∃ v' rest', fs' = (h, v') :: rest' ∧
      (match addr h with
       | some f => (v.isZero = false → RT f v v') ∧
                   (v.isZero = true → h.indexTagOf.keepZero = false → v' = v.zero)
       | none => v' = v.zero) ∧ RTs addr rest rest'
end

theorem marshalSubs_untouched (subs : List (Tag × Field)) (t : Tag) :
    ∀ (fields : GoStruct) (acc : List (Tag × Value)) (z : Bool) (vals : List (Tag × Value)),
      marshalSubs subs acc z fields = .ok vals → t ∉ addressedTags subs fields →
      lookup t vals = lookup t acc
  | [], acc, z, vals, h, _ => by simp [marshalSubs] at h; subst h; rfl
  | (hd, v) :: rest, acc, z, vals, h, hnot => by
    rw [marshalSubs] at h
    by_cases htag : hd.indexTagOf.tag = []
    · simp only [htag, if_true] at h
      have : addressedSub subs hd = none := by simp [addressedSub, htag]
      simp only [addressedTags, this] at hnot
      exact marshalSubs_untouched subs t rest acc z vals h hnot
    · simp only [htag, if_false] at h
      cases hl : lookup hd.indexTagOf.tag subs with
      | none =>
        simp only [hl] at h
        have : addressedSub subs hd = none := by simp [addressedSub, htag, hl]
        simp only [addressedTags, this] at hnot
        exact marshalSubs_untouched subs t rest acc z vals h hnot
      | some f =>
        simp only [hl] at h
        have ha : addressedSub subs hd = some f := by simp [addressedSub, htag, hl]
        simp only [addressedTags, ha, List.mem_cons, not_or] at hnot
        by_cases hz : ((GoVal.eff z v).isZero && !hd.indexTagOf.keepZero) = true
        · simp only [hz, if_true] at h
          exact marshalSubs_untouched subs t rest acc z vals h hnot.2
        · rw [if_neg hz] at h
          cases hm : marshalField f (lookup hd.indexTagOf.tag acc) z v with
          | ok val =>
            simp only [hm] at h
            rw [marshalSubs_untouched subs t rest _ z vals h hnot.2, lookup_insertKV, if_neg hnot.1]
          | err => simp [hm] at h
          | panic => simp [hm] at h

theorem allDistinct_cons {α : Type} [DecidableEq α] (x : α) (xs : List α) :
    allDistinct (x :: xs) = true ↔ x ∉ xs ∧ allDistinct xs = true := by
  simp [allDistinct]

/-- the non-struct values: only primitive fields document them -/
theorem rt_leaf (v : GoVal) (f : Field) (z : Bool) (val : Value)
    (hdoc : docOK false f v = true) (hm : marshalField f none z v = .ok val)
    (hleaf : ∀ n fs, v ≠ .structPtr n fs) :
    ∃ v', unmarshalField f val true v = .ok v' ∧ (z = false → v.isZero = false → RT f v v') := by
  cases f with
  | comp s subs =>
    cases v <;> first | (simp [docOK] at hdoc; done) | (exact absurd rfl (hleaf _ _))
  | prim s =>
    simp only [docOK, Bool.and_eq_true, Bool.false_or, Bool.not_eq_true'] at hdoc
    have hm' : marshalPrim s.kind (v.eff z) = .ok val := by
      cases v <;> simpa [marshalField] using hm
    have hu : unmarshalField (.prim s) val true v = unmarshalPrim s.kind val v.zero := by
      cases v <;> simp [unmarshalField]
    rw [hu]
    cases z with
    | false =>
      simp only [GoVal.eff_false] at hm'
      obtain ⟨v', hv'⟩ := marshalPrim_ok_unmarshal_ok s.kind v val hdoc.1.1 hdoc.1.2 hdoc.2 hm'
      refine ⟨v', hv', fun _ hnz => ?_⟩
      have := rt_prim s.kind v val hdoc.1.1 hnz hdoc.1.2 hdoc.2 hm'
      rw [this] at hv'
      simp only [RT]
      exact (Res.ok.inj hv').symm
    | true =>
      simp only [GoVal.eff_true] at hm'
      obtain ⟨v', hv'⟩ := marshalPrim_ok_unmarshal_ok s.kind v.zero val
        (by rw [documented_zero]; exact hdoc.1.1) (intsInRange_zero v)
        (by rw [isBytesByValue_zero]; exact hdoc.2) hm'
      rw [GoVal.zero_zero] at hv'
      exact ⟨v', hv', fun h => by cases h⟩

mutual
/-- Marshal of a documented value into a fresh field, then Unmarshal into the zero value of
the same Go type: succeeds, and for a non-zero value the result is in the relation `RT` -/
theorem rt_field : ∀ (v : GoVal) (f : Field) (z : Bool) (val : Value),
    docOK false f v = true → marshalField f none z v = .ok val →
    ∃ v', unmarshalField f val true v = .ok v' ∧ (z = false → v.isZero = false → RT f v v')
  | .structPtr n fields, f, z, val, hdoc, hm => by
    cases f with
    | prim s => simp [docOK, documented] at hdoc
    | comp s subs =>
      simp only [docOK, Bool.and_eq_true] at hdoc
      rw [marshalField] at hm
      cases hms : marshalSubs subs (curVals none) (z || n) fields with
      | ok vals =>
        simp only [hms, Res.ok.injEq] at hm; subst hm
        obtain ⟨fields', hu, hrt⟩ := rt_fields fields subs [] (z || n) vals hdoc.1 hdoc.2
          (by intros; rfl) (by simpa [curVals] using hms) vals (by intros; rfl)
        refine ⟨.structPtr false fields', ?_, ?_⟩
        · rw [unmarshalField]; simp [hu]
        · intro hz hnz
          simp only [GoVal.isZero] at hnz
          subst hz; subst hnz
          simp only [RT]
          exact ⟨fields', rfl, hrt rfl⟩
      | err => simp [hms] at hm
      | panic => simp [hms] at hm
  | .str a, f, z, val, hdoc, hm => rt_leaf _ f z val hdoc hm (by intros; simp) 
  | .int a, f, z, val, hdoc, hm => rt_leaf _ f z val hdoc hm (by intros; simp) 
  | .int64 a, f, z, val, hdoc, hm => rt_leaf _ f z val hdoc hm (by intros; simp) 
  | .bytes a b, f, z, val, hdoc, hm => rt_leaf _ f z val hdoc hm (by intros; simp) 
  | .ptr a b, f, z, val, hdoc, hm => rt_leaf _ f z val hdoc hm (by intros; simp) 
  | .libString a b, f, z, val, hdoc, hm => rt_leaf _ f z val hdoc hm (by intros; simp) 
  | .libNumeric a b, f, z, val, hdoc, hm => rt_leaf _ f z val hdoc hm (by intros; simp) 
  | .libBinary a b, f, z, val, hdoc, hm => rt_leaf _ f z val hdoc hm (by intros; simp) 
  | .libHex a b, f, z, val, hdoc, hm => rt_leaf _ f z val hdoc hm (by intros; simp) 

theorem rt_fields : ∀ (fields : GoStruct) (subs : List (Tag × Field)) (acc : List (Tag × Value)) (z : Bool)
    (vals : List (Tag × Value)),
    docFields false (addressedSub subs) fields = true → allDistinct (addressedTags subs fields) = true →
    (∀ t ∈ addressedTags subs fields, lookup t acc = none) →
    marshalSubs subs acc z fields = .ok vals →
    ∀ valsF : List (Tag × Value), (∀ t ∈ addressedTags subs fields, lookup t valsF = lookup t vals) →
    ∃ fields', unmarshalSubs subs valsF true fields = .ok fields' ∧ (z = false → RTs (addressedSub subs) fields fields')
  | [], subs, acc, z, vals, _, _, _, _, valsF, _ => ⟨[], by simp [unmarshalSubs], fun _ => by simp [RTs]⟩
  | (hd, v) :: rest, subs, acc, z, vals, hdoc, hdist, hacc, hm, valsF, hF => by
    rw [marshalSubs] at hm
    simp only [docFields, Bool.and_eq_true] at hdoc
    cases ha : addressedSub subs hd with
    | none =>
      -- the struct field addresses nothing: skipped by both loops
      simp only [addressedTags, ha] at hdist hacc hF
      have hm' : marshalSubs subs acc z rest = .ok vals := by
        simp only [addressedSub] at ha
        by_cases htag : hd.indexTagOf.tag = []
        · simpa [htag] using hm
        · simp only [htag, if_false] at ha hm
          simpa [ha] using hm
      obtain ⟨rest', hu, hrt⟩ := rt_fields rest subs acc z vals hdoc.2 hdist hacc hm' valsF hF
      have hstep : unmarshalSubs subs valsF true ((hd, v) :: rest) = .ok ((hd, v.zero) :: rest') := by
        rw [unmarshalSubs]
        simp only [addressedSub] at ha
        by_cases htag : hd.indexTagOf.tag = []
        · simp [htag, hu]
        · simp only [htag, if_false] at ha ⊢
          simp [ha, hu]
      refine ⟨(hd, v.zero) :: rest', hstep, fun hz => ?_⟩
      simp only [RTs]
      exact ⟨v.zero, rest', rfl, by simp [ha], hrt hz⟩
    | some f =>
      have htag : hd.indexTagOf.tag ≠ [] := by
        intro h; simp [addressedSub, h] at ha
      have hl : lookup hd.indexTagOf.tag subs = some f := by
        simpa [addressedSub, htag] using ha
      simp only [addressedTags, ha] at hdist hacc hF
      rw [allDistinct_cons] at hdist
      simp only [ha] at hdoc
      simp only [htag, if_false, hl] at hm
      rw [unmarshalSubs]
      simp only [htag, if_false, hl]
      have hacc' : ∀ t ∈ addressedTags subs rest, lookup t acc = none :=
        fun t ht => hacc t (List.mem_cons_of_mem _ ht)
      have hF' : ∀ t ∈ addressedTags subs rest, lookup t valsF = lookup t vals :=
        fun t ht => hF t (List.mem_cons_of_mem _ ht)
      have hcur : lookup hd.indexTagOf.tag acc = none := hacc _ (List.mem_cons_self ..)
      by_cases hz0 : ((GoVal.eff z v).isZero && !hd.indexTagOf.keepZero) = true
      · -- zero without keepzero: left out of the message, the struct field stays zero
        simp only [hz0, if_true] at hm
        obtain ⟨rest', hu, hrt⟩ := rt_fields rest subs acc z vals hdoc.2 hdist.2 hacc' hm valsF hF'
        have hnone : lookup hd.indexTagOf.tag valsF = none := by
          rw [hF _ (List.mem_cons_self ..), marshalSubs_untouched subs _ rest acc z vals hm hdist.1, hcur]
        refine ⟨(hd, v.zero) :: rest', by simp [hnone, hu], fun hz => ?_⟩
        subst hz
        simp only [GoVal.eff_false, Bool.and_eq_true, Bool.not_eq_true'] at hz0
        simp only [RTs]
        refine ⟨v.zero, rest', rfl, ?_, hrt rfl⟩
        simp only [ha]
        exact ⟨fun h => by simp [h] at hz0, fun _ _ => by first | rfl | trivial⟩
      · rw [if_neg hz0] at hm
        rw [hcur] at hm
        cases hmf : marshalField f none z v with
        | ok val =>
          simp only [hmf] at hm
          obtain ⟨v', huv, hrtv⟩ := rt_field v f z val hdoc.1 hmf
          have hacc'' : ∀ t ∈ addressedTags subs rest, lookup t (insertKV hd.indexTagOf.tag val acc) = none := by
            intro t ht
            rw [lookup_insertKV]
            have : t ≠ hd.indexTagOf.tag := fun e => hdist.1 (e ▸ ht)
            simp [this, hacc' t ht]
          obtain ⟨rest', hu, hrt⟩ := rt_fields rest subs _ z vals hdoc.2 hdist.2 hacc'' hm valsF hF'
          have hsome : lookup hd.indexTagOf.tag valsF = some val := by
            rw [hF _ (List.mem_cons_self ..), marshalSubs_untouched subs _ rest _ z vals hm hdist.1,
              lookup_insertKV]
            simp
          refine ⟨(hd, v') :: rest', by simp [hsome, huv, hu], fun hz => ?_⟩
          subst hz
          simp only [RTs]
          refine ⟨v', rest', rfl, ?_, hrt rfl⟩
          simp only [ha]
          refine ⟨fun hnz => hrtv rfl hnz, fun hzero hk => ?_⟩
          simp [GoVal.eff_false, hzero, hk] at hz0
        | err => simp [hmf] at hm
        | panic => simp [hmf] at hm
end


mutual
/-- unmarshalling into the zero value of a type = unmarshalling into a freshly allocated one -/
theorem unmarshalField_zero : ∀ (v : GoVal) (f : Field) (val : Value) (z : Bool),
    unmarshalField f val z v.zero = unmarshalField f val true v
  | .structPtr n fields, f, val, z => by
    cases f with
    | prim s => simp [unmarshalField, GoVal.eff_zero]
    | comp s subs =>
      cases val with
      | comp vals =>
        simp only [GoVal.zero]
        rw [unmarshalField, unmarshalField]
        simp only [Bool.or_true, Bool.true_or, unmarshalSubs_zero fields subs vals]
      | _ => simp [unmarshalField, GoVal.zero]
  | .str a, f, val, z => by cases f <;> cases val <;> simp [unmarshalField, GoVal.zero, GoVal.eff]
  | .int a, f, val, z => by cases f <;> cases val <;> simp [unmarshalField, GoVal.zero, GoVal.eff]
  | .int64 a, f, val, z => by cases f <;> cases val <;> simp [unmarshalField, GoVal.zero, GoVal.eff]
  | .bytes a b, f, val, z => by cases f <;> cases val <;> simp [unmarshalField, GoVal.zero, GoVal.eff]
  | .ptr a b, f, val, z => by
    cases f <;> cases val <;> simp [unmarshalField, GoVal.zero, GoVal.eff, GoVal.zero_zero]
  | .libString a b, f, val, z => by cases f <;> cases val <;> simp [unmarshalField, GoVal.zero, GoVal.eff]
  | .libNumeric a b, f, val, z => by cases f <;> cases val <;> simp [unmarshalField, GoVal.zero, GoVal.eff]
  | .libBinary a b, f, val, z => by cases f <;> cases val <;> simp [unmarshalField, GoVal.zero, GoVal.eff]
  | .libHex a b, f, val, z => by cases f <;> cases val <;> simp [unmarshalField, GoVal.zero, GoVal.eff]

theorem unmarshalSubs_zero : ∀ (fields : GoStruct) (subs : List (Tag × Field)) (vals : List (Tag × Value)),
    unmarshalSubs subs vals true (GoVal.zeroFields fields) = unmarshalSubs subs vals true fields
  | [], subs, vals => by simp [GoVal.zeroFields]
  | (h, v) :: rest, subs, vals => by
    simp only [GoVal.zeroFields]
    rw [unmarshalSubs, unmarshalSubs]
    simp only [GoVal.eff_true, GoVal.zero_zero, unmarshalField_zero v, unmarshalSubs_zero rest subs vals]
end


/-- ids of the struct fields that address a message field -/
def addressedIds (spec : MsgSpec) : GoStruct → List Nat
  | [] => []
  | (h, _) :: rest =>
    match addressedField spec h with
    | some _ => h.indexTagOf.id.toNat :: addressedIds spec rest
    | none => addressedIds spec rest

theorem marshalMsg_untouched (spec : MsgSpec) (i : Nat) :
    ∀ (g : GoStruct) (acc st : MState), marshalMsg spec acc g = .ok st → i ∉ addressedIds spec g →
      lookupId i st = lookupId i acc
  | [], acc, st, h, _ => by simp [marshalMsg] at h; subst h; rfl
  | (hd, v) :: rest, acc, st, h, hnot => by
    rw [marshalMsg] at h
    by_cases hid : hd.indexTagOf.id < 0
    · simp only [hid, if_true] at h
      have : addressedField spec hd = none := by simp [addressedField, hid]
      simp only [addressedIds, this] at hnot
      exact marshalMsg_untouched spec i rest acc st h hnot
    · simp only [hid, if_false] at h
      cases hl : spec.fieldAt hd.indexTagOf.id with
      | none => simp [hl] at h
      | some f =>
        simp only [hl] at h
        have ha : addressedField spec hd = some f := by simp [addressedField, hid, hl]
        simp only [addressedIds, ha, List.mem_cons, not_or] at hnot
        by_cases hz : (v.isZero && !hd.indexTagOf.keepZero) = true
        · simp only [hz, if_true] at h
          exact marshalMsg_untouched spec i rest acc st h hnot.2
        · rw [if_neg hz] at h
          cases hm : marshalField f (lookupId hd.indexTagOf.id.toNat acc) false v with
          | ok val =>
            simp only [hm] at h
            rw [marshalMsg_untouched spec i rest _ st h hnot.2, lookupId_insertId, if_neg hnot.1]
          | err => simp [hm] at h
          | panic => simp [hm] at h

/-- message level: Marshal a documented struct into a message in which none of the
addressed fields is set yet, then Unmarshal that message into the zero value of the struct
type: succeeds, and the result is in the relation `RTs` with the original -/
theorem rt_msgFields (spec : MsgSpec) : ∀ (g : GoStruct) (acc st : MState),
    docFields false (addressedField spec) g = true → allDistinct (addressedIds spec g) = true →
    (∀ i ∈ addressedIds spec g, lookupId i acc = none) →
    marshalMsg spec acc g = .ok st →
    ∀ stF : MState, (∀ i ∈ addressedIds spec g, lookupId i stF = lookupId i st) →
    ∃ g', unmarshalMsg spec stF (GoVal.zeroFields g) = .ok g' ∧ RTs (addressedField spec) g g'
  | [], acc, st, _, _, _, _, stF, _ => ⟨[], by simp [unmarshalMsg, GoVal.zeroFields], by simp [RTs]⟩
  | (hd, v) :: rest, acc, st, hdoc, hdist, hacc, hm, stF, hF => by
    rw [marshalMsg] at hm
    simp only [docFields, Bool.and_eq_true] at hdoc
    simp only [GoVal.zeroFields]
    cases ha : addressedField spec hd with
    | none =>
      simp only [addressedIds, ha] at hdist hacc hF
      have hm' : marshalMsg spec acc rest = .ok st := by
        simp only [addressedField] at ha
        by_cases hid : hd.indexTagOf.id < 0
        · simpa [hid] using hm
        · simp only [hid, if_false] at ha hm
          simp [ha] at hm
      obtain ⟨rest', hu, hrt⟩ := rt_msgFields spec rest acc st hdoc.2 hdist hacc hm' stF hF
      have hstep : unmarshalMsg spec stF ((hd, v.zero) :: GoVal.zeroFields rest) = .ok ((hd, v.zero) :: rest') := by
        rw [unmarshalMsg]
        simp only [addressedField] at ha
        by_cases hid : hd.indexTagOf.id < 0
        · simp [hid, hu]
        · simp only [hid, if_false] at ha ⊢
          simp [ha, hu]
      refine ⟨(hd, v.zero) :: rest', hstep, ?_⟩
      simp only [RTs]
      exact ⟨v.zero, rest', rfl, by simp [ha], hrt⟩
    | some f =>
      have hid : ¬ hd.indexTagOf.id < 0 := by
        intro h; simp [addressedField, h] at ha
      have hl : spec.fieldAt hd.indexTagOf.id = some f := by
        simpa [addressedField, hid] using ha
      simp only [addressedIds, ha] at hdist hacc hF
      rw [allDistinct_cons] at hdist
      simp only [ha] at hdoc
      simp only [hid, if_false, hl] at hm
      rw [unmarshalMsg]
      simp only [hid, if_false, hl]
      have hacc' : ∀ i ∈ addressedIds spec rest, lookupId i acc = none :=
        fun i hi => hacc i (List.mem_cons_of_mem _ hi)
      have hF' : ∀ i ∈ addressedIds spec rest, lookupId i stF = lookupId i st :=
        fun i hi => hF i (List.mem_cons_of_mem _ hi)
      have hcur : lookupId hd.indexTagOf.id.toNat acc = none := hacc _ (List.mem_cons_self ..)
      by_cases hz0 : (v.isZero && !hd.indexTagOf.keepZero) = true
      · simp only [hz0, if_true] at hm
        obtain ⟨rest', hu, hrt⟩ := rt_msgFields spec rest acc st hdoc.2 hdist.2 hacc' hm stF hF'
        have hnone : lookupId hd.indexTagOf.id.toNat stF = none := by
          rw [hF _ (List.mem_cons_self ..), marshalMsg_untouched spec _ rest acc st hm hdist.1, hcur]
        refine ⟨(hd, v.zero) :: rest', by simp [hnone, hu], ?_⟩
        simp only [Bool.and_eq_true, Bool.not_eq_true'] at hz0
        simp only [RTs]
        refine ⟨v.zero, rest', rfl, ?_, hrt⟩
        simp only [ha]
        exact ⟨fun h => by simp [h] at hz0, fun _ _ => by first | rfl | trivial⟩
      · rw [if_neg hz0] at hm
        rw [hcur] at hm
        cases hmf : marshalField f none false v with
        | ok val =>
          simp only [hmf] at hm
          obtain ⟨v', huv, hrtv⟩ := rt_field v f false val hdoc.1 hmf
          have hacc'' : ∀ i ∈ addressedIds spec rest, lookupId i (insertId hd.indexTagOf.id.toNat val acc) = none := by
            intro i hi
            rw [lookupId_insertId]
            have : i ≠ hd.indexTagOf.id.toNat := fun e => hdist.1 (e ▸ hi)
            simp [this, hacc' i hi]
          obtain ⟨rest', hu, hrt⟩ := rt_msgFields spec rest _ st hdoc.2 hdist.2 hacc'' hm stF hF'
          have hsome : lookupId hd.indexTagOf.id.toNat stF = some val := by
            rw [hF _ (List.mem_cons_self ..), marshalMsg_untouched spec _ rest _ st hm hdist.1,
              lookupId_insertId]
            simp
          refine ⟨(hd, v') :: rest', by simp [hsome, unmarshalField_zero, huv, hu], ?_⟩
          simp only [RTs]
          refine ⟨v', rest', rfl, ?_, hrt⟩
          simp only [ha]
          refine ⟨fun hnz => hrtv rfl hnz, fun hzero hk => ?_⟩
          simp [hzero, hk] at hz0
        | err => simp [hmf] at hm
        | panic => simp [hmf] at hm


/-! ### through Pack and Unpack: the state of the second message -/

def ltKey {α : Type} (a b : Nat × α) : Bool := decide (a.1 < b.1)

theorem keys_insertSorted {α : Type} (x : Nat × α) :
    ∀ (l : List (Nat × α)) (k : Nat),
      k ∈ (insertSorted (fun a b => decide (a.1 < b.1)) x l).map (·.1) ↔ k = x.1 ∨ k ∈ l.map (·.1)
  | [], k => by simp [insertSorted]
  | y :: ys, k => by
    unfold insertSorted
    split
    · simp
    · simp only [List.map_cons, List.mem_cons, keys_insertSorted x ys k]
      constructor
      · rintro (h | h | h) <;> simp [h]
      · rintro (h | h | h) <;> simp [h]

theorem keys_sortBy {α : Type} : ∀ (l : List (Nat × α)) (k : Nat),
    k ∈ (sortBy (fun a b => decide (a.1 < b.1)) l).map (·.1) ↔ k ∈ l.map (·.1)
  | [], k => by simp [sortBy]
  | x :: xs, k => by
    simp only [sortBy, keys_insertSorted, keys_sortBy xs k, List.map_cons, List.mem_cons]

theorem lookupId_insertSorted {α : Type} (x : Nat × α) (i : Nat) :
    ∀ (l : List (Nat × α)), x.1 ∉ l.map (·.1) →
      lookupId i (insertSorted (fun a b => decide (a.1 < b.1)) x l) =
        if x.1 = i then some x.2 else lookupId i l
  | [], _ => by simp [insertSorted, lookupId]
  | y :: ys, hx => by
    simp only [List.map_cons, List.mem_cons, not_or] at hx
    unfold insertSorted
    split
    · simp [lookupId]
    · simp only [lookupId, lookupId_insertSorted x i ys hx.2]
      by_cases hy : y.1 = i
      · have : ¬ x.1 = i := fun e => hx.1 (e.trans hy.symm)
        simp [hy, this]
      · simp [hy]

theorem lookupId_sortBy {α : Type} (i : Nat) : ∀ (l : List (Nat × α)), allDistinct (l.map (·.1)) = true →
    lookupId i (sortBy (fun a b => decide (a.1 < b.1)) l) = lookupId i l
  | [], _ => rfl
  | x :: xs, h => by
    simp only [List.map_cons, allDistinct_cons] at h
    have hx : x.1 ∉ (sortBy (fun a b => decide (a.1 < b.1)) xs).map (·.1) := by
      rw [keys_sortBy]; exact h.1
    simp only [sortBy, lookupId_insertSorted x i _ hx, lookupId_sortBy i xs h.2]
    obtain ⟨k, v⟩ := x
    simp [lookupId]

theorem lookupId_map_val {α β : Type} (g : Nat → α → β) (i : Nat) : ∀ (l : List (Nat × α)),
    lookupId i (l.map fun p => (p.1, g p.1 p.2)) = (lookupId i l).map (g i)
  | [] => rfl
  | (k, v) :: rest => by
    simp only [List.map_cons, lookupId]
    by_cases h : k = i
    · subst h; simp
    · simp [h, lookupId_map_val g i rest]

theorem lookupId_filter_ge2 {α : Type} (i : Nat) : ∀ (l : List (Nat × α)),
    lookupId i (l.filter fun p => decide (2 ≤ p.1)) = if 2 ≤ i then lookupId i l else none
  | [] => by simp [lookupId]
  | (k, v) :: rest => by
    by_cases hk : 2 ≤ k
    · rw [List.filter_cons_of_pos (by simpa using hk)]
      simp only [lookupId, lookupId_filter_ge2 i rest]
      by_cases h : k = i
      · subst h; simp [hk]
      · simp [h]
    · rw [List.filter_cons_of_neg (by simpa using hk)]
      rw [lookupId_filter_ge2 i rest]
      simp only [lookupId]
      by_cases h : k = i
      · subst h; simp [hk]
      · simp [h]

theorem lookupId_append {α : Type} (i : Nat) (a b : List (Nat × α)) :
    lookupId i (a ++ b) = match lookupId i a with | some v => some v | none => lookupId i b := by
  induction a with
  | nil => simp [lookupId]
  | cons p rest ih =>
    obtain ⟨k, v⟩ := p
    simp only [List.cons_append, lookupId]
    by_cases h : k = i
    · simp [h]
    · simp [h, ih]

theorem keys_filter_distinct {α : Type} (p : Nat × α → Bool) : ∀ (l : List (Nat × α)),
    allDistinct (l.map (·.1)) = true → allDistinct ((l.filter p).map (·.1)) = true
  | [], _ => rfl
  | x :: xs, h => by
    simp only [List.map_cons, allDistinct_cons] at h
    simp only [List.filter_cons]
    split
    · simp only [List.map_cons, allDistinct_cons]
      refine ⟨fun hm => h.1 ?_, keys_filter_distinct p xs h.2⟩
      simp only [List.mem_map, List.mem_filter] at hm ⊢
      obtain ⟨a, ⟨ha, _⟩, hk⟩ := hm
      exact ⟨a, ha, hk⟩
    · exact keys_filter_distinct p xs h.2

theorem keys_insertId {α : Type} (i : Nat) (v : α) : ∀ (l : List (Nat × α)) (k : Nat),
    k ∈ (insertId i v l).map (·.1) ↔ k = i ∨ k ∈ l.map (·.1)
  | [], k => by simp [insertId]
  | (j, w) :: rest, k => by
    unfold insertId
    by_cases hj : j = i
    · subst hj; simp
    · simp only [hj, if_false, List.map_cons, List.mem_cons, keys_insertId i v rest k]
      constructor
      · rintro (h | h | h) <;> simp [h]
      · rintro (h | h | h) <;> simp [h]

theorem insertId_distinct {α : Type} (i : Nat) (v : α) : ∀ (l : List (Nat × α)),
    allDistinct (l.map (·.1)) = true → allDistinct ((insertId i v l).map (·.1)) = true
  | [], _ => by simp [insertId, allDistinct]
  | (j, w) :: rest, h => by
    simp only [List.map_cons, allDistinct_cons] at h
    unfold insertId
    by_cases hj : j = i
    · subst hj; simp only [if_true, List.map_cons, allDistinct_cons]; exact h
    · simp only [hj, if_false, List.map_cons, allDistinct_cons]
      refine ⟨?_, insertId_distinct i v rest h.2⟩
      rw [keys_insertId]
      rintro (e | e)
      · exact hj e
      · exact h.1 e

/-- Marshal keeps the keys of the message state distinct and never sets field 1 -/
theorem marshalMsg_keys (spec : MsgSpec) : ∀ (g : GoStruct) (acc st : MState),
    marshalMsg spec acc g = .ok st → allDistinct (acc.map (·.1)) = true → lookupId 1 acc = none →
    allDistinct (st.map (·.1)) = true ∧ lookupId 1 st = none
  | [], acc, st, h, hd, h1 => by simp [marshalMsg] at h; subst h; exact ⟨hd, h1⟩
  | (hd', v) :: rest, acc, st, h, hd, h1 => by
    rw [marshalMsg] at h
    by_cases hid : hd'.indexTagOf.id < 0
    · simp only [hid, if_true] at h
      exact marshalMsg_keys spec rest acc st h hd h1
    · simp only [hid, if_false] at h
      cases hl : spec.fieldAt hd'.indexTagOf.id with
      | none => simp [hl] at h
      | some f =>
        simp only [hl] at h
        by_cases hz : (v.isZero && !hd'.indexTagOf.keepZero) = true
        · simp only [hz, if_true] at h
          exact marshalMsg_keys spec rest acc st h hd h1
        · rw [if_neg hz] at h
          cases hm : marshalField f (lookupId hd'.indexTagOf.id.toNat acc) false v with
          | ok val =>
            simp only [hm] at h
            refine marshalMsg_keys spec rest _ st h (insertId_distinct _ _ acc hd) ?_
            rw [lookupId_insertId]
            have : ¬ (1 : Nat) = hd'.indexTagOf.id.toNat := by
              intro e
              have : hd'.indexTagOf.id = 1 := by omega
              simp [MsgSpec.fieldAt, this] at hl
            simp [this, h1]
          | err => simp [hm] at h
          | panic => simp [hm] at h

/-- the canonical form Unpack stores for message field `i` -/
def canonAt (spec : MsgSpec) (i : Nat) (v : Value) : Value :=
  if i = 0 then spec.mti.canon v
  else match lookupId i spec.fields with
    | some f => f.canon v
    | none => v

/-- what the second message holds after `Unpack (Pack m)` when the C01 round trip holds:
the first message's values in canonical form -/
theorem wire_state_lookup (spec : MsgSpec) (st : MState)
    (hd : allDistinct (st.map (·.1)) = true) (h1 : lookupId 1 st = none) (i : Nat) :
    lookupId i (MState.ofMsg (spec.canon st.toMsg)) = (lookupId i st).map (canonAt spec i) := by
  have hfd : allDistinct ((st.filter fun p => decide (2 ≤ p.1)).map (·.1)) = true :=
    keys_filter_distinct _ st hd
  have hfields : ∀ i, lookupId i (spec.canon st.toMsg).fields =
      if 2 ≤ i then (lookupId i st).map (canonAt spec i) else none := by
    intro i
    let g : Nat → Value → Value := fun k v =>
      match lookupId k spec.fields with | some f => f.canon v | none => v
    have hmap : (spec.canon st.toMsg).fields =
        (sortBy (fun a b => decide (a.1 < b.1)) st.toMsg.fields).map (fun p => (p.1, g p.1 p.2)) := by
      simp only [MsgSpec.canon]
      apply List.map_congr_left
      intro p _
      simp only [g]
      cases lookupId p.1 spec.fields <;> rfl
    rw [hmap]
    refine (lookupId_map_val g i _).trans ?_
    have hs : lookupId i (sortBy (fun a b => decide (a.1 < b.1)) st.toMsg.fields) =
        lookupId i (st.filter fun p => decide (2 ≤ p.1)) := lookupId_sortBy i _ hfd
    rw [hs, lookupId_filter_ge2]
    by_cases h2 : 2 ≤ i
    · have : ¬ i = 0 := by omega
      simp only [h2, if_true]
      cases lookupId i st with
      | none => rfl
      | some v => simp only [Option.map_some, canonAt, this, if_false, g]
    · simp [h2]
  have hmti : (spec.canon st.toMsg).mti = (lookupId 0 st).map spec.mti.canon := by
    simp [MsgSpec.canon, MState.toMsg]
  by_cases h0 : i = 0
  · subst h0
    cases hl : lookupId 0 st with
    | none =>
      simp only [hl, Option.map_none] at hmti
      simp [MState.ofMsg, hmti, hfields]
    | some v =>
      simp only [hl, Option.map_some] at hmti
      simp [MState.ofMsg, hmti, lookupId, canonAt]
  · have h0' : ¬ (0 = i) := fun e => h0 e.symm
    have hm : lookupId i (MState.ofMsg (spec.canon st.toMsg)) = lookupId i (spec.canon st.toMsg).fields := by
      cases hc : (spec.canon st.toMsg).mti with
      | none => simp [MState.ofMsg, hc]
      | some v => simp [MState.ofMsg, hc, lookupId, h0']
    rw [hm, hfields]
    by_cases h2 : 2 ≤ i
    · simp [h2]
    · have : i = 1 := by omega
      subst this
      simp [h1]

theorem unmarshalMsg_congr (spec : MsgSpec) (st1 st2 : MState) (h : ∀ i, lookupId i st1 = lookupId i st2) :
    ∀ g : GoStruct, unmarshalMsg spec st1 g = unmarshalMsg spec st2 g
  | [] => by simp [unmarshalMsg]
  | (hd, v) :: rest => by
    rw [unmarshalMsg, unmarshalMsg]
    simp only [h, unmarshalMsg_congr spec st1 st2 h rest]

/-- the first message's state with every value in the canonical form of its field -/
def canonState (spec : MsgSpec) (st : MState) : MState :=
  st.map fun p => (p.1, canonAt spec p.1 p.2)

/-- Marshal → Pack → Unpack into a second message → Unmarshal (what `rtw` of channel G runs) -/
def viaWire (spec : MsgSpec) (st : MState) (g0 : GoStruct) : Res GoStruct :=
  match spec.pack st.toMsg with
  | .ok bs =>
    match spec.unpack bs with
    | .ok (m, _) => unmarshalMsg spec (MState.ofMsg m) g0
    | .err _ => .err
    | .panic => .panic
  | .err => .err
  | .panic => .panic


end Iso8583
