/-
C02, field level for composites: what `Composite.Unpack` accepts, is it in the domain, in
canonical form, and does it pack again?

RESULT: NOT IN GENERAL. `MessageRT.FieldRepack Acc (.comp s subs) lp` is false for coherent
composites whenever the canonical re-encoding of the accepted subfields has a different length
than the bytes that were read and the composite's own length prefix does not accept the new
length. Four classes, each with a witness proved below on the model and confirmed on the real
code (`bin/drive-go run`, see the session report):

  * grow   — a padded variable-length subfield is accepted in unpadded (short) form; Pack pads
             it to `Length`; the body no longer fits the composite's `Length`;
  * shrink — a Fixed-prefix composite accepts a non-canonical numeral (`007`); Pack writes `7`;
             the body is shorter than the fixed length;
  * skip   — a Fixed-prefix TLV composite skips an unknown element; the re-packed body is
             shorter than the fixed length;
  * empty  — (benign: only the `InDomain` conjunct fails) a variable-length positional
             composite with an empty body returns a run whose last element packs to no bytes.

What remains true, and is proved here for tagged composites (`comp_tagged_repack_partial`):
the value is in the domain, canonical, every set subfield packs and so does the body; Pack
succeeds iff the composite's prefixer accepts the length of that body.
-/
import Iso8583.Lemmas.FieldRT

namespace Iso8583.FieldRepack
open Iso8583 Tlv MessageRT

/-- `Acc` holds for every primitive value inside a (nested) value -/
inductive AccAll (Acc : Field → Value → Prop) : Field → Value → Prop where
  | prim (s : PrimSpec) (v : Value) : Acc (.prim s) v → AccAll Acc (.prim s) v
  | comp (s : CompSpec) (subs : List (Tag × Field)) (vals : List (Tag × Value)) :
      (∀ tg v f, lookup tg vals = some v → lookup tg subs = some f → AccAll Acc f v) →
      AccAll Acc (.comp s subs) (.comp vals)

/-- the statement that was asked for — it does NOT hold (see the witnesses) -/
def FieldRepackStatement (Acc : Field → Value → Prop) : Prop :=
  (∀ s lp, FieldRepack Acc (.prim s) lp) → ∀ f lp, FieldRepack (AccAll Acc) f lp

/-! ## witnesses -/

def strVarPad : Field := .prim { kind := .string, len := 5, enc := .ascii, pref := .var .ascii 1, pad := .left 0x20 }
def numVar : Field := .prim { kind := .numeric, len := 9, enc := .ascii, pref := .var .ascii 1, pad := .nil }
def strVar : Field := .prim { kind := .string, len := 5, enc := .ascii, pref := .var .ascii 1, pad := .nil }
def strFix0 : Field := .prim { kind := .string, len := 0, enc := .ascii, pref := .fixed .ascii, pad := .nil }
def positional : TagSpec := { len := 0, enc := none, pad := .nil, sort := .strings, skipUnknown := false, prefUnknown := none }

/-- grow: `c(3,ascii.2,positional,sub(1,p(s,5,ascii,ascii.1,L20)))` -/
def growSpec : Field := .comp { len := 3, pref := .var .ascii 2, mode := .tagged positional } [([0x31], strVarPad)]
/-- shrink: `c(4,ascii.F,positional,sub(1,p(n,9,ascii,ascii.1,nil)))` -/
def shrinkSpec : Field := .comp { len := 4, pref := .fixed .ascii, mode := .tagged positional } [([0x31], numVar)]
/-- skip: `c(9,ascii.F,t(2,ascii,nil,str,1,ascii.2),sub(01,p(s,5,ascii,ascii.1,nil)))` -/
def skipSpec : Field :=
  .comp { len := 9, pref := .fixed .ascii,
          mode := .tagged { len := 2, enc := some .ascii, pad := .nil, sort := .strings, skipUnknown := true,
                            prefUnknown := some (.var .ascii 2) } } [([0x30, 0x31], strVar)]
/-- empty: `c(0,ascii.2,positional,sub(1,p(s,0,ascii,ascii.F,nil)))` -/
def emptySpec : Field := .comp { len := 0, pref := .var .ascii 2, mode := .tagged positional } [([0x31], strFix0)]

theorem accAll_single (k : Tag) (ps : PrimSpec) (s : CompSpec) (v : Value) :
    AccAll (fun _ _ => True) (.comp s [(k, .prim ps)]) (.comp [(k, v)]) := by
  apply AccAll.comp
  intro tg v' f hl hf
  by_cases hk : k = tg
  · simp only [lookup, hk, if_true, Option.some.injEq] at hl hf
    subst hf
    exact AccAll.prim ps v' trivial
  · simp [lookup, hk] at hl

/-- grow: bytes `"03" "2AB"` are accepted and give `{1: "AB"}`, which packs to a 6-byte body
that the composite (`Length 3`) refuses -/
theorem field_repack_witness_grow : ¬ FieldRepack (AccAll (fun _ _ => True)) growSpec false := by
  intro h
  obtain ⟨_, _, bs, hbs⟩ := h [0x30, 0x33, 0x32, 0x41, 0x42] (.comp [([0x31], .str [0x41, 0x42])]) 5
    (by decide) (by rfl) (accAll_single _ _ _ _)
  have : growSpec.pack (.comp [([0x31], .str [0x41, 0x42])]) = .err := by decide
  rw [this] at hbs; cases hbs

/-- shrink: bytes `"3007"` are accepted by the fixed-length composite and give `{1: 7}`, which
packs to the 2-byte body `"17"` ≠ 4 bytes -/
theorem field_repack_witness_shrink : ¬ FieldRepack (AccAll (fun _ _ => True)) shrinkSpec false := by
  intro h
  obtain ⟨_, _, bs, hbs⟩ := h [0x33, 0x30, 0x30, 0x37] (.comp [([0x31], .num 7)]) 4
    (by decide) (by rfl) (accAll_single _ _ _ _)
  have : shrinkSpec.pack (.comp [([0x31], .num 7)]) = .err := by decide
  rw [this] at hbs; cases hbs

/-- skip: bytes `"01" "1A" "99" "01" "Z"` are accepted (unknown element 99 skipped) and give
`{01: "A"}`, which packs to a 4-byte body ≠ 9 bytes -/
theorem field_repack_witness_skip : ¬ FieldRepack (AccAll (fun _ _ => True)) skipSpec false := by
  intro h
  obtain ⟨_, _, bs, hbs⟩ := h [0x30, 0x31, 0x31, 0x41, 0x39, 0x39, 0x30, 0x31, 0x5A]
    (.comp [([0x30, 0x31], .str [0x41])]) 9 (by decide) (by rfl) (accAll_single _ _ _ _)
  have : skipSpec.pack (.comp [([0x30, 0x31], .str [0x41])]) = .err := by decide
  rw [this] at hbs; cases hbs

/-- empty: bytes `"00"` are accepted and give `{1: ""}` (a run whose last element packs to no
bytes): outside `Field.inDomain`, although it packs back to `"00"` -/
theorem field_repack_witness_empty : ¬ FieldRepack (AccAll (fun _ _ => True)) emptySpec false := by
  intro h
  obtain ⟨hd, _, _⟩ := h [0x30, 0x30] (.comp [([0x31], .str [])]) 2
    (by decide) (by rfl) (accAll_single _ _ _ _)
  have : emptySpec.inDomain (.comp [([0x31], .str [])]) = false := by decide
  rw [this] at hd; cases hd

/-- hence the statement that was asked for is false (primitives do re-pack for `Acc = True`
on these specs, but the composite step fails whatever the primitives do: the hypothesis is
kept so that the refutation is about the composite step alone) -/
theorem field_repack_statement_false
    (hprim : ∀ s lp, FieldRepack (fun _ _ => True) (.prim s) lp) : ¬ FieldRepackStatement (fun _ _ => True) :=
  fun h => field_repack_witness_grow (h hprim growSpec false)

/-! ## what remains true for tagged composites -/

/-- every entry of the accumulated map was produced by the dispatcher for a known tag -/
def TInv (known : Tag → Bool) (dispatch : Tag → Bytes → UR (Value × Nat)) (acc : List (Tag × Value)) : Prop :=
  ∀ tg v, lookup tg acc = some v → known tg = true ∧ ∃ d r, dispatch tg d = .ok (v, r)

theorem tlvLoop_inv (t : TagSpec) (enc : Enc) (isBer : Bool) (known : Tag → Bool)
    (dispatch : Tag → Bytes → UR (Value × Nat)) :
    ∀ (fuel : Nat) (data : Bytes) (offset : Nat) (acc acc' : List (Tag × Value)) (rd : Nat),
      TInv known dispatch acc →
      tlvLoop t enc isBer known dispatch fuel data offset acc = .ok (acc', rd) → TInv known dispatch acc' := by
  intro fuel
  induction fuel with
  | zero => intro data offset acc acc' rd _ h; simp [tlvLoop] at h
  | succ fuel ih =>
    intro data offset acc acc' rd hinv h
    rw [tlvLoop] at h
    split at h
    · simp only [UR.ok.injEq, Prod.mk.injEq] at h
      rw [← h.1]; exact hinv
    · cases hdec : Enc.decode enc (data.drop offset) t.len with
      | err => simp [hdec] at h
      | panic => simp [hdec] at h
      | ok r =>
        obtain ⟨tagBytes, read⟩ := r
        simp only [hdec] at h
        split at h
        · split at h
          · cases hp : t.prefUnknown with
            | none =>
              simp only [hp] at h
              split at h
              · cases h
              · cases hl : Pref.berTLV.decodeLength 0 (data.drop (offset + read)) with
                | err => simp [hl] at h
                | panic => simp [hl] at h
                | ok r2 =>
                  obtain ⟨fl, rd2⟩ := r2
                  simp only [hl] at h
                  split at h
                  · cases h
                  · exact ih _ _ _ _ _ hinv h
            | some p =>
              simp only [hp] at h
              split at h
              · cases h
              · cases hl : p.decodeLength maxInt (data.drop (offset + read)) with
                | err => simp [hl] at h
                | panic => simp [hl] at h
                | ok r2 =>
                  obtain ⟨fl, rd2⟩ := r2
                  simp only [hl] at h
                  split at h
                  · cases h
                  · exact ih _ _ _ _ _ hinv h
          · cases h
        · rename_i hk
          split at h
          · cases h
          · cases hdp : dispatch (t.pad.unpad tagBytes) (data.drop (offset + read)) with
            | err p => simp [hdp] at h
            | panic => simp [hdp] at h
            | ok r3 =>
              obtain ⟨v, rd3⟩ := r3
              simp only [hdp] at h
              split at h
              · cases h
              refine ih _ _ _ _ _ ?_ h
              intro tg v' hl
              rw [lookup_insertKV] at hl
              split at hl
              · rename_i e
                simp only [Option.some.injEq] at hl
                subst hl; subst e
                exact ⟨by simpa using hk, _, _, hdp⟩
              · exact hinv tg v' hl

theorem orderBySpec_keys_sublist {α β : Type} (subs : List (Tag × α)) (vals : List (Tag × β)) :
    ((orderBySpec subs vals).map (·.1)).Sublist (subs.map (·.1)) := by
  induction subs with
  | nil => simp [orderBySpec]
  | cons p rest ih =>
    obtain ⟨k, g⟩ := p
    simp only [orderBySpec]
    cases lookup k vals with
    | none => exact List.Sublist.cons _ ih
    | some w => exact List.Sublist.cons_cons _ ih

/-- on the spec's own tags (pairwise distinct) the ordered presentation has the same `lookup` -/
theorem lookup_orderBySpec {α β : Type} (subs : List (Tag × α)) (vals : List (Tag × β))
    (hd : (subs.map (·.1)).Nodup) (tg : Tag) (h : tg ∈ subs.map (·.1)) :
    lookup tg (orderBySpec subs vals) = lookup tg vals := by
  induction subs with
  | nil => simp at h
  | cons p rest ih =>
    obtain ⟨k, g⟩ := p
    simp only [List.map_cons, List.nodup_cons] at hd
    simp only [List.map_cons, List.mem_cons] at h
    have hnot : ∀ u, u ∉ rest.map (·.1) → lookup u (orderBySpec rest vals) = none := by
      intro u hu
      apply lookup_eq_none_of_not_mem
      intro hm
      exact hu ((orderBySpec_keys_sublist rest vals).subset hm)
    simp only [orderBySpec]
    by_cases hk : k = tg
    · subst hk
      cases hl : lookup k vals with
      | none => simp only; rw [hnot k hd.1]
      | some w => simp [lookup]
    · have htr : tg ∈ rest.map (·.1) := by
        rcases h with h | h
        · exact absurd h.symm hk
        · exact h
      cases hl : lookup k vals with
      | none => simp only; exact ih hd.2 htr
      | some w => simp only [lookup, hk, if_false]; exact ih hd.2 htr

theorem nodup_allDistinct {α : Type} [DecidableEq α] (l : List α) (h : l.Nodup) : allDistinct l = true := by
  induction l with
  | nil => rfl
  | cons x xs ih =>
    rw [List.nodup_cons] at h
    simp [allDistinct, h.1, ih h.2]

theorem inDomainSubs_of (V : List (Tag × Value)) : ∀ (subs : List (Tag × Field)),
    (∀ tg f v, (tg, f) ∈ subs → lookup tg V = some v → f.inDomain v = true) →
    Field.inDomainSubs subs V = true := by
  intro subs
  induction subs with
  | nil => intro _; simp [Field.inDomainSubs]
  | cons p rest ih =>
    obtain ⟨k, g⟩ := p
    intro h
    rw [Field.inDomainSubs]
    simp only [Bool.and_eq_true]
    refine ⟨?_, ih (fun tg f v hm => h tg f v (List.mem_cons_of_mem _ hm))⟩
    cases hl : lookup k V with
    | none => rfl
    | some v => exact h k g v (by simp) hl

theorem packByTag_ok (t : TagSpec) (enc : Enc) (he : t.enc = some enc) (V : List (Tag × Value)) :
    ∀ (subs : List (Tag × Field)),
      (∀ p ∈ subs, (Enc.encode enc (t.pad.pad p.1 t.len)).isOk = true) →
      (∀ tg f v, (tg, f) ∈ subs → lookup tg V = some v → ∃ pk, f.pack v = .ok pk) →
      ∃ body, packByTag t subs V = .ok body := by
  intro subs
  induction subs with
  | nil => intro _ _; exact ⟨[], by simp [packByTag]⟩
  | cons p rest ih =>
    obtain ⟨k, g⟩ := p
    intro htag hpk
    obtain ⟨more, hmore⟩ := ih (fun q hq => htag q (List.mem_cons_of_mem _ hq))
      (fun tg f v hm => hpk tg f v (List.mem_cons_of_mem _ hm))
    rw [packByTag]
    cases hl : lookup k V with
    | none => exact ⟨more, hmore⟩
    | some v =>
      obtain ⟨pk, hpk'⟩ := hpk k g v (by simp) hl
      have ht := htag (k, g) (by simp)
      simp only at ht
      cases htb : Enc.encode enc (t.pad.pad k t.len) with
      | err => rw [htb] at ht; cases ht
      | panic => rw [htb] at ht; cases ht
      | ok tb =>
        refine ⟨tb ++ pk ++ more, ?_⟩
        simp only [he, encodeTag, htb, hpk', hmore]

/-- inversion of `Field.unpack` on a tagged composite -/
theorem unpack_tagged_inv (s : CompSpec) (subs : List (Tag × Field)) (t : TagSpec) (enc : Enc)
    (hm : s.mode = .tagged t) (he : t.enc = some enc) (data : Bytes) (v : Value) (r : Nat)
    (h : Field.unpack (.comp s subs) data = .ok (v, r)) :
    ∃ body acc rd, tlvLoop t enc (enc == Enc.berTag) (lookupField subs) (fun tag d => unpackTagged subs tag d)
        (body.length + 1) body 0 [] = .ok (acc, rd) ∧ v = .comp (orderBySpec subs acc) := by
  rw [Field.unpack] at h
  cases hdl : s.pref.decodeLength s.len data with
  | err => simp [hdl] at h
  | panic => simp [hdl] at h
  | ok r0 =>
    obtain ⟨dl, off⟩ := r0
    simp only [hdl] at h
    split at h
    · cases h
    · split at h
      · cases h
      · simp only [hm, he] at h
        split at h
        · cases h
        · cases h
        · rename_i vals read heq
          split at h
          · cases h
          · simp only [UR.ok.injEq, Prod.mk.injEq] at h
            refine ⟨(data.drop off).take dl, vals, read, ?_, h.1.symm⟩
            rw [← heq]

/-- **tagged composites, what does hold**: the value Unpack returns is in the domain and
canonical, every set subfield packs and so does the body; Pack succeeds exactly when the
composite's prefixer accepts the length of the re-packed body (which it may not: see the
witnesses above) -/
theorem comp_tagged_repack_partial (Acc : Field → Value → Prop) (s : CompSpec) (subs : List (Tag × Field))
    (t : TagSpec) (enc : Enc) (lp : Bool) (hm : s.mode = .tagged t) (he : t.enc = some enc)
    (ih : ∀ p ∈ subs, ∀ lp', FieldRepack (AccAll Acc) p.2 lp')
    (data : Bytes) (v : Value) (r : Nat)
    (hc : (Field.comp s subs).coherent lp = true) (hu : Field.unpack (.comp s subs) data = .ok (v, r))
    (hacc : AccAll Acc (.comp s subs) v) :
    (Field.comp s subs).inDomain v = true ∧ (Field.comp s subs).canon v = v ∧
    ∃ vals body, v = .comp vals ∧ packByTag t subs vals = .ok body ∧
      ∀ pre, s.pref.encodeLength s.len body.length = .ok pre →
        Field.pack (.comp s subs) v = .ok (pre ++ body) := by
  obtain ⟨bodyIn, acc, rd, hloop, rfl⟩ := unpack_tagged_inv s subs t enc hm he data v r hu
  -- coherence
  rw [Field.coherent] at hc
  simp only [hm, he, Bool.and_eq_true] at hc
  obtain ⟨⟨⟨⟨_, _⟩, hkeysOK⟩, _⟩, ⟨_, ⟨⟨⟨⟨_, _⟩, htagsEnc⟩, _⟩, hcs⟩⟩⟩ := hc
  have hnodup : (subs.map (·.1)).Nodup := by
    simp only [sortKeysOK, Bool.and_eq_true] at hkeysOK
    exact allDistinct_nodup _ hkeysOK.1.1
  have hcoh := FieldRT.coherentSubs_all_false subs hcs
  -- the loop's result
  have hinv := tlvLoop_inv t enc _ _ _ _ _ _ _ _ _ (by intro tg v h; simp [lookup] at h) hloop
  -- AccAll for the subfields
  have haccS : ∀ tg v f, lookup tg (orderBySpec subs acc) = some v → lookup tg subs = some f → AccAll Acc f v := by
    cases hacc with
    | comp _ _ _ h => exact h
  -- every set subfield: in domain, canonical, packs
  have hsub : ∀ tg f v, (tg, f) ∈ subs → lookup tg (orderBySpec subs acc) = some v →
      f.inDomain v = true ∧ f.canon v = v ∧ ∃ pk, f.pack v = .ok pk := by
    intro tg f v hmem hl
    have hls := lookup_of_mem tg f subs hnodup hmem
    have hla : lookup tg acc = some v := by
      rw [← lookup_orderBySpec subs acc hnodup tg (List.mem_map.mpr ⟨(tg, f), hmem, rfl⟩)]; exact hl
    obtain ⟨_, d, r', hdp⟩ := hinv tg v hla
    simp only at hdp
    rw [unpackTagged_eq subs tg f d hls] at hdp
    exact ih (tg, f) hmem false d v r' (hcoh (tg, f) hmem) hdp (haccS tg v f hl hls)
  refine ⟨?_, ?_, orderBySpec subs acc, ?_⟩
  · rw [Field.inDomain]
    simp only [hm, he, Bool.and_eq_true, and_true]
    refine ⟨⟨?_, ?_⟩, ?_⟩
    · exact nodup_allDistinct _ (hnodup.sublist (orderBySpec_keys_sublist subs acc))
    · exact inDomainSubs_of _ subs (fun tg f v hmem hl => (hsub tg f v hmem hl).1)
    · rw [List.all_eq_true]
      intro p hp
      rw [lookupField_eq]
      have : p.1 ∈ subs.map (·.1) :=
        (orderBySpec_keys_sublist subs acc).subset (List.mem_map.mpr ⟨p, hp, rfl⟩)
      obtain ⟨q, hq, hq1⟩ := List.mem_map.mp this
      rw [← hq1, lookup_of_mem q.1 q.2 subs hnodup hq]; rfl
  · rw [Field.canon]
    congr 1
    symm
    apply orderBySpec_eq_canonSubs
    intro p hp
    rw [← lookup_orderBySpec subs acc hnodup p.1 (List.mem_map.mpr ⟨p, hp, rfl⟩)]
    cases hl : lookup p.1 (orderBySpec subs acc) with
    | none => rfl
    | some v => simp only [Option.map_some]; rw [(hsub p.1 p.2 v hp hl).2.1]
  · obtain ⟨body, hbody⟩ := packByTag_ok t enc he (orderBySpec subs acc) subs
      (fun p hp => List.all_eq_true.mp htagsEnc p hp)
      (fun tg f v hmem hl => (hsub tg f v hmem hl).2.2)
    refine ⟨body, rfl, hbody, ?_⟩
    intro pre hpre
    rw [Field.pack]
    simp only [hm, hbody, hpre]

/-- the composite's prefixer accepts the length of the re-packed body -/
def LenFits (s : CompSpec) (n : Nat) : Prop := ∃ pre, s.pref.encodeLength s.len n = .ok pre

/-- `FieldRepack` for a tagged composite, under the one extra condition that fails in the
witnesses: the re-packed body has a length the composite's prefixer accepts -/
theorem comp_tagged_repack_of_lenFits (Acc : Field → Value → Prop) (s : CompSpec) (subs : List (Tag × Field))
    (t : TagSpec) (enc : Enc) (lp : Bool) (hm : s.mode = .tagged t) (he : t.enc = some enc)
    (ih : ∀ p ∈ subs, ∀ lp', FieldRepack (AccAll Acc) p.2 lp')
    (data : Bytes) (v : Value) (r : Nat)
    (hc : (Field.comp s subs).coherent lp = true) (hu : Field.unpack (.comp s subs) data = .ok (v, r))
    (hacc : AccAll Acc (.comp s subs) v)
    (hfit : ∀ vals body, v = .comp vals → packByTag t subs vals = .ok body → LenFits s body.length) :
    (Field.comp s subs).inDomain v = true ∧ (Field.comp s subs).canon v = v ∧
    ∃ bs, Field.pack (.comp s subs) v = .ok bs := by
  obtain ⟨h1, h2, vals, body, hv, hb, hp⟩ :=
    comp_tagged_repack_partial Acc s subs t enc lp hm he ih data v r hc hu hacc
  obtain ⟨pre, hpre⟩ := hfit vals body hv hb
  exact ⟨h1, h2, pre ++ body, hp pre hpre⟩

/-- "anything goes": `None` accepts every length, BER-TLV with `Length 0` every Go-int length -/
theorem lenFits_none (s : CompSpec) (n : Nat) (h : s.pref = .none) : LenFits s n :=
  ⟨[], by rw [h]; rfl⟩

theorem lenFits_ber0 (s : CompSpec) (n : Nat) (h : s.pref = .berTLV) (h0 : s.len = 0) (hn : n ≤ maxInt) :
    LenFits s n := by
  obtain ⟨bs, hbs, _⟩ := C06.ber_dec_enc 0 n [] (Or.inl rfl) hn
  exact ⟨bs, by rw [h, h0]; exact hbs⟩

/-- a variable-length prefixer accepts every length up to the declared maximum that its digits
can express -/
theorem lenFits_of_representable (s : CompSpec) (n : Nat) (hexp : s.pref.exportedB = true)
    (hne : s.pref ≠ .fixed .hex) (hnn : s.pref ≠ .none) (hn : n ≤ maxInt)
    (hr : C06.Representable s.pref s.len n) : LenFits s n := by
  obtain ⟨bs, hbs, _⟩ := C06.dec_enc s.pref s.len n [] (exported_of_exportedB _ hexp) hne hnn hn hr
  exact ⟨bs, hbs⟩

end Iso8583.FieldRepack
