/-
Helper lemmas about bytes, digits and lists used by several property files.
-/
import Iso8583.Basic

namespace Iso8583

theorem ofNat_toNat_lt {n : Nat} (h : n < 256) : (UInt8.ofNat n).toNat = n := by
  simp [UInt8.toNat_ofNat']; omega

theorem byte_toNat_lt (c : Byte) : c.toNat < 256 := UInt8.toNat_lt c

theorem byte_ext {a b : Byte} (h : a.toNat = b.toNat) : a = b := UInt8.toNat_inj.mp h

theorem ofNat_toNat_self (c : Byte) : UInt8.ofNat c.toNat = c :=
  byte_ext (ofNat_toNat_lt (byte_toNat_lt c))

/-- two-at-a-time induction on lists -/
theorem pairInduction {α : Type} {P : List α → Prop} (h0 : P []) (h1 : ∀ a, P [a])
    (h2 : ∀ a b l, P l → P (a :: b :: l)) : ∀ l, P l
  | [] => h0
  | [a] => h1 a
  | a :: b :: l => h2 a b l (pairInduction h0 h1 h2 l)

def isDigit (c : Byte) : Prop := 48 ≤ c.toNat ∧ c.toNat ≤ 57
instance (c : Byte) : Decidable (isDigit c) := by unfold isDigit; infer_instance

def isAscii (c : Byte) : Prop := c.toNat ≤ 127
instance (c : Byte) : Decidable (isAscii c) := by unfold isAscii; infer_instance

def isHexChar (c : Byte) : Prop :=
  (48 ≤ c.toNat ∧ c.toNat ≤ 57) ∨ (65 ≤ c.toNat ∧ c.toNat ≤ 70) ∨ (97 ≤ c.toNat ∧ c.toNat ≤ 102)
instance (c : Byte) : Decidable (isHexChar c) := by unfold isHexChar; infer_instance

def isUpperHexChar (c : Byte) : Prop :=
  (48 ≤ c.toNat ∧ c.toNat ≤ 57) ∨ (65 ≤ c.toNat ∧ c.toNat ≤ 70)

theorem decVal_of_digit {c : Byte} (h : isDigit c) : decVal? c = some (c.toNat - 48) := by
  unfold decVal?; simp [h.1, h.2]

theorem decVal_some {c : Byte} {d : Nat} (h : decVal? c = some d) : isDigit c ∧ d = c.toNat - 48 := by
  unfold decVal? at h
  split at h
  · cases h; exact ⟨by assumption, rfl⟩
  · cases h

theorem asciiDigit_of_digit {c : Byte} (h : isDigit c) : asciiDigit (c.toNat - 48) = c := by
  apply byte_ext
  unfold asciiDigit
  have := h.1; have := h.2
  rw [ofNat_toNat_lt (by omega)]; omega

theorem asciiDigit_toNat {d : Nat} (h : d ≤ 9) : (asciiDigit d).toNat = 48 + d := by
  unfold asciiDigit; exact ofNat_toNat_lt (by omega)

theorem asciiDigit_isDigit {d : Nat} (h : d ≤ 9) : isDigit (asciiDigit d) := by
  unfold isDigit; rw [asciiDigit_toNat h]; omega

theorem decVal_asciiDigit {d : Nat} (h : d ≤ 9) : decVal? (asciiDigit d) = some d := by
  rw [decVal_of_digit (asciiDigit_isDigit h), asciiDigit_toNat h]; simp

theorem hexDigitUpper_toNat {d : Nat} (h : d < 16) :
    (hexDigitUpper d).toNat = if d < 10 then 48 + d else 55 + d := by
  unfold hexDigitUpper
  split
  · exact ofNat_toNat_lt (by omega)
  · exact ofNat_toNat_lt (by omega)

theorem hexDigitUpper_upper {d : Nat} (h : d < 16) : isUpperHexChar (hexDigitUpper d) := by
  unfold isUpperHexChar; rw [hexDigitUpper_toNat h]; split <;> omega

theorem hexVal_hexDigitUpper {d : Nat} (h : d < 16) : hexVal? (hexDigitUpper d) = some d := by
  unfold hexVal?
  simp only [hexDigitUpper_toNat h]
  by_cases h10 : d < 10
  · simp [h10]; omega
  · have h1 : ¬ (48 ≤ 55 + d ∧ 55 + d ≤ 57) := by omega
    have h2 : (65 ≤ 55 + d ∧ 55 + d ≤ 70) := by omega
    simp [h10, h1, h2]

theorem hexVal_some_lt {c : Byte} {d : Nat} (h : hexVal? c = some d) : d < 16 ∧ isHexChar c := by
  unfold hexVal? at h
  simp only at h
  unfold isHexChar
  split at h
  · cases h; omega
  · split at h
    · cases h; omega
    · split at h
      · cases h; omega
      · cases h

theorem hexVal_of_hexChar {c : Byte} (h : isHexChar c) : ∃ d, hexVal? c = some d ∧ d < 16 := by
  unfold isHexChar at h
  unfold hexVal?
  simp only
  by_cases h1 : 48 ≤ c.toNat ∧ c.toNat ≤ 57
  · exact ⟨c.toNat - 48, by simp [h1], by omega⟩
  · by_cases h2 : 65 ≤ c.toNat ∧ c.toNat ≤ 70
    · exact ⟨c.toNat - 55, by simp [h1, h2], by omega⟩
    · have h3 : 97 ≤ c.toNat ∧ c.toNat ≤ 102 := by
        rcases h with h | h | h
        · exact absurd h h1
        · exact absurd h h2
        · exact h
      exact ⟨c.toNat - 87, by simp [h1, h2, h3], by omega⟩

/-! ### mapM? -/

theorem mapM?_eq_some_length {α β : Type} {f : α → Option β} :
    ∀ {l : List α} {r : List β}, mapM? f l = some r → r.length = l.length
  | [], r, h => by simp [mapM?] at h; subst h; rfl
  | x :: xs, r, h => by
    simp only [mapM?] at h
    cases hx : f x with
    | none => simp [hx] at h
    | some y =>
      cases hxs : mapM? f xs with
      | none => simp [hx, hxs] at h
      | some ys =>
        simp [hx, hxs] at h; subst h
        simp [mapM?_eq_some_length hxs]

theorem mapM?_map {α β : Type} {f : α → Option β} {g : β → α} (h : ∀ y, f (g y) = some y) :
    ∀ (l : List β), mapM? f (l.map g) = some l
  | [] => rfl
  | y :: ys => by simp [mapM?, h y, mapM?_map h ys]

theorem mapM?_map_of {α β : Type} {f : α → Option β} {g : β → α} :
    ∀ (l : List β), (∀ y ∈ l, f (g y) = some y) → mapM? f (l.map g) = some l
  | [], _ => rfl
  | y :: ys, h => by
    have h1 := h y (by simp)
    have h2 := mapM?_map_of ys (fun z hz => h z (by simp [hz]))
    simp [mapM?, h1, h2]

/-! ### positional digits -/

theorem ofDigits_append_singleton (b : Nat) (ds : List Nat) (d : Nat) :
    ofDigits b (ds ++ [d]) = ofDigits b ds * b + d := by
  simp [ofDigits, List.foldl_append]

theorem fixedDec_length (d n : Nat) : (fixedDec d n).length = d := by
  induction d generalizing n with
  | zero => rfl
  | succ d ih => simp [fixedDec, ih]

theorem fixedDec_lt (d n : Nat) : ∀ x ∈ fixedDec d n, x ≤ 9 := by
  induction d generalizing n with
  | zero => simp [fixedDec]
  | succ d ih =>
    intro x hx
    simp only [fixedDec, List.mem_append, List.mem_singleton] at hx
    rcases hx with hx | hx
    · exact ih _ x hx
    · omega

theorem ofDigits_fixedDec (d n : Nat) : ofDigits 10 (fixedDec d n) = n % 10 ^ d := by
  induction d generalizing n with
  | zero => simp [fixedDec, ofDigits, Nat.mod_one]
  | succ d ih =>
    rw [fixedDec, ofDigits_append_singleton, ih, Nat.pow_succ, Nat.mul_comm (10 ^ d) 10, Nat.mod_mul]
    omega

theorem fixedHex_length (d n : Nat) : (fixedHex d n).length = d := by
  induction d generalizing n with
  | zero => rfl
  | succ d ih => simp [fixedHex, ih]

theorem fixedHex_lt (d n : Nat) : ∀ x ∈ fixedHex d n, x < 16 := by
  induction d generalizing n with
  | zero => simp [fixedHex]
  | succ d ih =>
    intro x hx
    simp only [fixedHex, List.mem_append, List.mem_singleton] at hx
    rcases hx with hx | hx
    · exact ih _ x hx
    · omega

theorem ofDigits_fixedHex (d n : Nat) : ofDigits 16 (fixedHex d n) = n % 16 ^ d := by
  induction d generalizing n with
  | zero => simp [fixedHex, ofDigits, Nat.mod_one]
  | succ d ih =>
    rw [fixedHex, ofDigits_append_singleton, ih, Nat.pow_succ, Nat.mul_comm (16 ^ d) 16, Nat.mod_mul]
    omega

end Iso8583
