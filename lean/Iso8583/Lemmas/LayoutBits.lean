/-
Bit-level facts about bytes for the bitmap layer of C03, by exhaustive evaluation over all
256 byte values (kernel `decide`).
-/
import Iso8583.Spec.Layout
import Iso8583.Lemmas.Bytes

namespace Iso8583.Layout
open Iso8583

/-! ### bits of a byte -/

theorem bitOf_or_mask : ∀ n, n < 256 → ∀ j, j < 8 → ∀ k, k < 8 →
    bitOf (UInt8.ofNat n ||| UInt8.ofNat (2 ^ (7 - j))) k = (bitOf (UInt8.ofNat n) k || k == j) := by
  decide +kernel

theorem and_mask_ne_zero : ∀ n, n < 256 → ∀ j, j < 8 →
    ((UInt8.ofNat n &&& UInt8.ofNat (2 ^ (7 - j))) != 0) = bitOf (UInt8.ofNat n) j := by
  decide +kernel

theorem byteOfBits_bitOf : ∀ n, n < 256 → byteOfBits (bitOf (UInt8.ofNat n)) = UInt8.ofNat n := by
  decide +kernel

theorem bitOf_firstBit : ∀ k, k < 8 → bitOf (UInt8.ofNat 128) k = (k == 0) := by decide

theorem bitOf_zero (k : Nat) : bitOf 0 k = false := by
  simp [bitOf]

theorem bitOf_or (x : Byte) (j k : Nat) (hj : j < 8) (hk : k < 8) :
    bitOf (x ||| UInt8.ofNat (2 ^ (7 - j))) k = (bitOf x k || k == j) := by
  have := bitOf_or_mask x.toNat (byte_toNat_lt x) j hj k hk
  rwa [ofNat_toNat_self] at this

theorem and_mask (x : Byte) (j : Nat) (hj : j < 8) :
    ((x &&& UInt8.ofNat (2 ^ (7 - j))) != 0) = bitOf x j := by
  have := and_mask_ne_zero x.toNat (byte_toNat_lt x) j hj
  rwa [ofNat_toNat_self] at this

theorem byte_eq_byteOfBits (x : Byte) : x = byteOfBits (bitOf x) := by
  have := byteOfBits_bitOf x.toNat (byte_toNat_lt x)
  rw [ofNat_toNat_self] at this
  exact this.symm

theorem byteOfBits_congr (f g : Nat → Bool) (h : ∀ k, k < 8 → f k = g k) :
    byteOfBits f = byteOfBits g := by
  unfold byteOfBits
  have e : List.range 8 = [0, 1, 2, 3, 4, 5, 6, 7] := by decide
  simp only [e, List.foldl_cons, List.foldl_nil]
  rw [h 0 (by omega), h 1 (by omega), h 2 (by omega), h 3 (by omega), h 4 (by omega), h 5 (by omega),
    h 6 (by omega), h 7 (by omega)]

end Iso8583.Layout
