/-
Helper lemmas for the bitmapped composite step of the C01 round trip (used by Props/C09):
canonical decimal numerals (`strconv.Itoa ∘ strconv.Atoi = id`), the shape of a
non-expanding bitmap under `Set`, Pack/Unpack of such a bitmap, `packByBitmap` and the
ascending scan `bitmapScan`.
-/
import Iso8583.Lemmas.Tlv

namespace Iso8583.Tlv
open Iso8583

/-! ## canonical decimal numerals -/

theorem foldl_digits_le (t : List Nat) : ∀ acc, acc ≤ t.foldl (fun a d => a * 10 + d) acc := by
  induction t with
  | nil => intro acc; exact Nat.le_refl _
  | cons d ds ih =>
    intro acc
    simp only [List.foldl_cons]
    have := ih (acc * 10 + d)
    omega

theorem ofDigits_head_le (h : Nat) (t : List Nat) : h ≤ ofDigits 10 (h :: t) := by
  have := foldl_digits_le t (0 * 10 + h)
  simpa [ofDigits] using this

/-- digits `vs` (most significant first, no leading zero unless the numeral is one digit)
are what `strconv.Itoa` prints for their value -/
theorem decDigits_ofDigits : ∀ (n : Nat) (vs : List Nat), vs.length = n → (∀ d ∈ vs, d ≤ 9) → vs ≠ [] →
    (vs.length = 1 ∨ vs.head? ≠ some 0) → ∀ fuel, ofDigits 10 vs < fuel → decDigits fuel (ofDigits 10 vs) = vs := by
  intro n
  induction n with
  | zero => intro vs hl _ hne; exact absurd (List.length_eq_zero_iff.mp hl) hne
  | succ n ih =>
    intro vs hl hd hne hcan fuel hf
    rcases List.eq_nil_or_concat vs with h | ⟨init, d, h⟩
    · exact absurd h hne
    · rw [List.concat_eq_append] at h
      subst h
      have hdd : d ≤ 9 := hd d (by simp)
      rw [ofDigits_append_singleton] at hf ⊢
      cases fuel with
      | zero => omega
      | succ f =>
        cases init with
        | nil =>
          simp only [ofDigits, List.foldl_nil, Nat.zero_mul, Nat.zero_add]
          have : d < 10 := by omega
          simp [decDigits, this]
        | cons h t =>
          have hh : h ≠ 0 := by
            rcases hcan with h1 | h1
            · simp at h1
            · simpa using h1
          have hge := ofDigits_head_le h t
          have hn10 : ¬ ofDigits 10 (h :: t) * 10 + d < 10 := by omega
          have hdiv : (ofDigits 10 (h :: t) * 10 + d) / 10 = ofDigits 10 (h :: t) := by omega
          have hmod : (ofDigits 10 (h :: t) * 10 + d) % 10 = d := by omega
          simp only [decDigits, hn10, if_false, hdiv, hmod]
          have hl' : (h :: t).length = n := by simp at hl ⊢; omega
          rw [ih (h :: t) hl' (fun x hx => hd x (by simp at hx ⊢; rcases hx with hx | hx; left; exact hx; right; left; exact hx))
            (by simp) (Or.inr (by simpa using hh)) f (by omega)]

theorem mapM?_decVal_digits : ∀ (s : Bytes), (∀ c ∈ s, isDigit c) →
    mapM? decVal? s = some (s.map fun c => c.toNat - 48) := by
  intro s
  induction s with
  | nil => intro _; rfl
  | cons c cs ih =>
    intro h
    have h1 := decVal_of_digit (h c (by simp))
    have h2 := ih (fun x hx => h x (by simp [hx]))
    simp [mapM?, h1, h2]

/-- K4: on a canonical decimal key, `strconv.Itoa (strconv.Atoi key) = key` -/
theorem natToDec_atoi (t : Tag) (hc : canonicalDecimal t = true) :
    ∃ n : Nat, atoi? t = some (n : Int) ∧ natToDec n = t := by
  simp only [canonicalDecimal, Bool.and_eq_true, Bool.or_eq_true, Bool.not_eq_true', beq_iff_eq,
    bne_iff_ne, ne_eq] at hc
  obtain ⟨⟨hdig, hne⟩, hlead⟩ := hc
  have hdig' : ∀ c ∈ t, isDigit c := by
    intro c hc
    have := List.all_eq_true.mp hdig c hc
    simpa [isDigitB, isDigit] using this
  have hm := mapM?_decVal_digits t hdig'
  cases t with
  | nil => simp at hne
  | cons c rest =>
    have hcd := hdig' c (by simp)
    have h43 : c ≠ 43 := by intro h; subst h; exact absurd hcd (by decide)
    have h45 : c ≠ 45 := by intro h; subst h; exact absurd hcd (by decide)
    refine ⟨ofDigits 10 ((c :: rest).map fun c => c.toNat - 48), ?_, ?_⟩
    · simp only [atoi?, h43, h45, if_false, hm, Option.map_some]
    · unfold natToDec
      rw [decDigits_ofDigits _ _ rfl]
      · simp only [List.map_map]
        have : ∀ x ∈ c :: rest, (asciiDigit ∘ fun c => c.toNat - 48) x = x :=
          fun x hx => asciiDigit_of_digit (hdig' x hx)
        rw [List.map_congr_left this]; simp
      · intro d hd
        simp only [List.mem_map] at hd
        obtain ⟨x, hx, rfl⟩ := hd
        have := hdig' x hx
        unfold isDigit at this; omega
      · simp
      · rcases hlead with h | h
        · left; simpa using h
        · right
          simp only [List.head?_cons, Option.some.injEq] at h
          simp only [List.map_cons, List.head?_cons, ne_eq, Option.some.injEq]
          unfold isDigit at hcd
          intro e
          apply h
          apply byte_ext
          have : (48 : UInt8).toNat = 48 := by decide
          omega
      · omega

/-! ## a bitmap that does not expand -/

theorem set_shape (bm : Bitmap) (n : Nat) (h : bm.auto = false) :
    (bm.set n).data.length = bm.data.length ∧ (bm.set n).blockLen = bm.blockLen ∧ (bm.set n).auto = false := by
  unfold Bitmap.set
  split
  · exact ⟨rfl, rfl, h⟩
  · split
    · simp [h]
    · simp [Bitmap.orAt, h]

theorem isSet_bounds (bm : Bitmap) (j : Nat) (h : bm.isSet j = true) : 1 ≤ j ∧ j ≤ bm.data.length * 8 := by
  unfold Bitmap.isSet at h
  split at h
  · cases h
  · omega

theorem u8_and_or_distrib (x y z : UInt8) : (x ||| y) &&& z = (x &&& z) ||| (y &&& z) := by
  apply UInt8.eq_of_toBitVec_eq
  simp [BitVec.and_or_distrib_right]

theorem mask_disjoint : ∀ a b : Fin 8, a ≠ b → UInt8.ofNat (2 ^ a.val) &&& UInt8.ofNat (2 ^ b.val) = 0 := by decide

theorem mask_and_mask (n m : Nat) (h : (n - 1) % 8 ≠ (m - 1) % 8) : Bitmap.mask n &&& Bitmap.mask m = 0 := by
  unfold Bitmap.mask
  exact mask_disjoint ⟨7 - (n - 1) % 8, by omega⟩ ⟨7 - (m - 1) % 8, by omega⟩ (by simp [Fin.ext_iff]; omega)

/-- on a bitmap that does not auto-expand, `Set n` leaves every other bit as it was -/
theorem set_leaves_other_bits (bm : Bitmap) (n m : Nat) (hauto : bm.auto = false) (hne : m ≠ n) :
    (bm.set n).isSet m = bm.isSet m := by
  unfold Bitmap.set
  split
  · rfl
  · split
    · simp [hauto]
    · rename_i hn0 hnle
      simp only [Bitmap.isSet, Bitmap.orAt, List.length_set]
      split
      · rfl
      · rename_i hm
        by_cases hidx : (n - 1) / 8 = (m - 1) / 8
        · have hk : (n - 1) / 8 < bm.data.length := by omega
          have hmod : (n - 1) % 8 ≠ (m - 1) % 8 := by omega
          rw [← hidx]
          simp only [List.getD_eq_getElem?_getD, List.getElem?_set_self hk, Option.getD_some]
          rw [u8_and_or_distrib, mask_and_mask n m hmod]
          simp
        · simp only [List.getD_eq_getElem?_getD, List.getElem?_set_ne hidx]
/-- Pack then Unpack of a one-block (non-expanding) bitmap: the same bitmap, and exactly the
packed bytes consumed -/
theorem bitmap_unpack_pack (b : BitmapSpec) (bm : Bitmap) (pb rest : Bytes)
    (henc : b.enc = .binary ∨ b.enc = .bytesToHex) (hpref : ∃ f, b.pref = .fixed f)
    (hauto : bm.auto = false) (hbl : bm.blockLen = Bitmap.blockLenOf b.specLen)
    (hlen : bm.data.length = bm.blockLen) (hpos : 1 ≤ bm.blockLen)
    (hp : bm.pack b.enc = .ok pb) :
    Bitmap.unpack b.enc b.pref (Bitmap.reset b.specLen false) (pb ++ rest) = .ok (bm, pb.length) := by
  obtain ⟨f, hf⟩ := hpref
  have hdec : Enc.decode b.enc (pb ++ rest) (bm.data.length : Nat) = .ok (bm.data, pb.length) := by
    rcases henc with he | he
    · rw [he] at hp ⊢
      obtain ⟨h1, h2⟩ := C07.binary_decode_encode bm.data rest
      simp only [Bitmap.pack] at hp
      rw [h1] at hp; cases hp
      exact h2
    · rw [he] at hp ⊢
      obtain ⟨y, h1, _, h3⟩ := C07.bytesToHex_decode_encode bm.data rest
      simp only [Bitmap.pack] at hp
      rw [h1] at hp; cases hp
      exact h3
  have hne : bm.data ≠ [] := by
    intro e; rw [e] at hlen; simp at hlen; omega
  unfold Bitmap.unpack
  simp only [hf, Pref.decodeLength, Bitmap.reset]
  rw [Bitmap.unpackLoop]
  rw [← hbl, ← hlen, hdec]
  cases hd : bm.data with
  | nil => exact absurd hd hne
  | cons first more =>
    simp only [Bool.not_false, Bool.true_or, if_true, List.nil_append, Nat.zero_add]
    cases bm with
    | mk data blockLen auto =>
      simp only at hauto hbl hlen hd
      subst hauto
      rw [hd] at hlen
      simp only [List.length_cons] at hlen
      simp [hd, hlen]

/-- the ids (with their elements) that `packByBitmap` packed -/
def idsWire : List (Nat × Elem) → Bytes
  | [] => []
  | p :: rest => p.2.pk ++ idsWire rest

/-- `packByBitmap` on a non-expanding bitmap. `hset` is the C05 fact that `Set` leaves
every other bit alone. -/
theorem packByBitmap_spec
    (hset : ∀ (bm : Bitmap) (n m : Nat), bm.auto = false → m ≠ n → (bm.set n).isSet m = bm.isSet m)
    (vals : List (Tag × Value)) :
    ∀ (subs : List (Tag × Field)) (bm0 bmF : Bitmap) (w : Bytes),
      bm0.auto = false →
      subs.Pairwise (fun a b => ∀ ia ib : Int, atoi? a.1 = some ia → atoi? b.1 = some ib → ia < ib) →
      packByBitmap subs vals bm0 = .ok (bmF, w) →
      ∃ es : List (Nat × Elem),
        es.map (fun p => (p.2.tag, p.2.f, p.2.v)) = setSubs subs vals ∧
        (∀ p ∈ es, atoi? p.2.tag = some (p.1 : Int) ∧ 1 ≤ p.1 ∧ p.2.f.pack p.2.v = .ok p.2.pk) ∧
        w = idsWire es ∧
        (∀ j, bmF.isSet j = true ↔ (bm0.isSet j = true ∨ ∃ p ∈ es, p.1 = j)) ∧
        es.Pairwise (fun p q => p.1 < q.1) ∧
        bmF.data.length = bm0.data.length ∧ bmF.blockLen = bm0.blockLen ∧ bmF.auto = false := by
  intro subs
  induction subs with
  | nil =>
    intro bm0 bmF w hauto _ h
    simp only [packByBitmap, Res.ok.injEq, Prod.mk.injEq] at h
    obtain ⟨rfl, rfl⟩ := h
    exact ⟨[], by simp [setSubs], by simp, rfl, by simp, List.Pairwise.nil, rfl, rfl, hauto⟩
  | cons p rest ih =>
    obtain ⟨tg, f⟩ := p
    intro bm0 bmF w hauto hsorted h
    rw [List.pairwise_cons] at hsorted
    rw [packByBitmap] at h
    cases hl : lookup tg vals with
    | none =>
      simp only [hl] at h
      obtain ⟨es, h1, h2, h3, h4, h5, h6⟩ := ih bm0 bmF w hauto hsorted.2 h
      exact ⟨es, by simp [setSubs, hl, h1], h2, h3, h4, h5, h6⟩
    | some v =>
      simp only [hl] at h
      cases ha : atoi? tg with
      | none => simp [ha] at h
      | some idInt =>
        simp only [ha] at h
        by_cases hposI : idInt ≤ 0
        · exfalso
          simp only [hposI, if_true] at h
          cases hs : bm0.isSet idInt.toNat with
          | true =>
            have := isSet_bounds _ _ hs
            have : idInt.toNat = 0 := by omega
            omega
          | false => simp [hs] at h
        · simp only [hposI, if_false] at h
          cases hchk : (bm0.set idInt.toNat).isSet idInt.toNat with
          | false => simp [hchk] at h
          | true =>
          simp only [hchk, Bool.not_true, Bool.false_eq_true, if_false] at h
          cases hpb : f.pack v with
          | err => simp [hpb] at h
          | panic => simp [hpb] at h
          | ok pb =>
            simp only [hpb] at h
            have hid : ((idInt.toNat : Nat) : Int) = idInt := by omega
            have hid1 : 1 ≤ idInt.toNat := by omega
            have hsh := set_shape bm0 idInt.toNat hauto
            cases hmore : packByBitmap rest vals (bm0.set idInt.toNat) with
            | err => simp [hmore] at h
            | panic => simp [hmore] at h
            | ok r =>
              obtain ⟨bm2, more⟩ := r
              simp only [hmore, Res.ok.injEq, Prod.mk.injEq] at h
              obtain ⟨rfl, rfl⟩ := h
              obtain ⟨es, h1, h2, h3, h4, h5, h6, h7, h8⟩ := ih (bm0.set idInt.toNat) bm2 more hsh.2.2 hsorted.2 hmore
              refine ⟨(idInt.toNat, ⟨tg, f, v, [], pb⟩) :: es, by simp [setSubs, hl, h1], ?_, by simp [idsWire, h3], ?_, ?_,
                by rw [h6, hsh.1], by rw [h7, hsh.2.1], h8⟩
              · intro p hp
                simp only [List.mem_cons] at hp
                rcases hp with rfl | hp
                · exact ⟨by simp [ha, hid], hid1, hpb⟩
                · exact h2 p hp
              · intro j
                rw [h4 j]
                constructor
                · rintro (hj | ⟨p, hp, rfl⟩)
                  · by_cases e : j = idInt.toNat
                    · right; exact ⟨(idInt.toNat, ⟨tg, f, v, [], pb⟩), List.mem_cons_self, e.symm⟩
                    · left; rw [hset bm0 _ j hauto e] at hj; exact hj
                  · right; exact ⟨p, List.mem_cons_of_mem _ hp, rfl⟩
                · rintro (hj | ⟨p, hp, rfl⟩)
                  · by_cases e : j = idInt.toNat
                    · left; rw [e]; exact hchk
                    · left; rw [hset bm0 _ j hauto e]; exact hj
                  · simp only [List.mem_cons] at hp
                    rcases hp with rfl | hp
                    · left; exact hchk
                    · right; exact ⟨p, hp, rfl⟩
              · rw [List.pairwise_cons]
                refine ⟨?_, h5⟩
                intro q hq
                obtain ⟨hq1, _, _⟩ := h2 q hq
                have hmem : (q.2.tag, q.2.f, q.2.v) ∈ setSubs rest vals := by
                  rw [← h1]; exact List.mem_map.mpr ⟨q, hq, rfl⟩
                have hin := (setSubs_mem rest vals _ _ _ hmem).1
                have := hsorted.1 (q.2.tag, q.2.f) hin idInt (q.1 : Int) ha hq1
                show idInt.toNat < q.1
                omega

/-! ## the ascending scan over the bits -/

theorem scan_zeros (bm : Bitmap) (dispatch : Tag → Bytes → Option (UR (Value × Nat))) (data : Bytes)
    (off : Nat) (acc : List (Tag × Value)) :
    ∀ (k r i : Nat), (∀ j, i ≤ j → j < i + k → bm.isSet j = false) →
      bitmapScan bm dispatch (k + r) i data off acc = bitmapScan bm dispatch r (i + k) data off acc := by
  intro k
  induction k with
  | zero => intro r i _; simp
  | succ k ih =>
    intro r i h
    have e : k + 1 + r = (k + r) + 1 := by omega
    rw [e, bitmapScan]
    have h0 := h i (Nat.le_refl _) (by omega)
    simp only [h0, Bool.false_eq_true, if_false]
    rw [ih r (i + 1) (fun j h1 h2 => h j (by omega) (by omega))]
    congr 1; omega

theorem idsWire_length_cons (p : Nat × Elem) (rest : List (Nat × Elem)) :
    (idsWire (p :: rest)).length = p.2.pk.length + (idsWire rest).length := by
  simp [idsWire]

/-- scanning bits `i … len` of a bitmap whose set bits from `i` on are exactly the ids of
`es` (ascending), over data that is exactly the packed elements -/
theorem scan_elems (bm : Bitmap) (dispatch : Tag → Bytes → Option (UR (Value × Nat))) (data : Bytes)
    (len : Nat) :
    ∀ (es : List (Nat × Elem)) (i off : Nat) (acc : List (Tag × Value)),
      es.Pairwise (fun p q => p.1 < q.1) →
      (∀ p ∈ es, i ≤ p.1 ∧ p.1 ≤ len) →
      (∀ j, i ≤ j → (bm.isSet j = true ↔ ∃ p ∈ es, p.1 = j)) →
      data.drop off = idsWire es → off + (idsWire es).length = data.length →
      (∀ p ∈ es, ∀ tail, dispatch (natToDec p.1) (p.2.pk ++ tail) = some (.ok (p.2.f.canon p.2.v, p.2.pk.length))) →
      i ≤ len + 1 →
      bitmapScan bm dispatch (len + 1 - i) i data off acc =
        .ok (acc ++ es.map (fun p => (natToDec p.1, p.2.f.canon p.2.v)), data.length) := by
  intro es
  induction es with
  | nil =>
    intro i off acc _ _ hbits _ hlen _ hi
    have hz : ∀ j, i ≤ j → j < i + (len + 1 - i) → bm.isSet j = false := by
      intro j h1 _
      cases hj : bm.isSet j with
      | false => rfl
      | true => obtain ⟨p, hp, _⟩ := (hbits j h1).mp hj; simp at hp
    have := scan_zeros bm dispatch data off acc (len + 1 - i) 0 i hz
    simp only [Nat.add_zero] at this
    rw [this]
    simp only [idsWire, List.length_nil, Nat.add_zero] at hlen
    simp [bitmapScan, hlen]
  | cons p rest ih =>
    obtain ⟨id, e⟩ := p
    intro i off acc hsorted hrange hbits hd hlen hdisp hi
    rw [List.pairwise_cons] at hsorted
    obtain ⟨hid1, hid2⟩ := hrange (id, e) (by simp)
    simp only at hid1 hid2
    -- zeros up to id
    have hz : ∀ j, i ≤ j → j < i + (id - i) → bm.isSet j = false := by
      intro j h1 h2
      cases hj : bm.isSet j with
      | false => rfl
      | true =>
        obtain ⟨q, hq, hqj⟩ := (hbits j h1).mp hj
        simp only [List.mem_cons] at hq
        rcases hq with rfl | hq
        · simp only at hqj; omega
        · have := hsorted.1 q hq; simp only at this; omega
    have e1 : len + 1 - i = (id - i) + ((len - id) + 1) := by omega
    rw [e1, scan_zeros bm dispatch data off acc (id - i) _ i hz]
    have e2 : i + (id - i) = id := by omega
    rw [e2, bitmapScan]
    have hset : bm.isSet id = true := (hbits id hid1).mpr ⟨(id, e), by simp, rfl⟩
    have hlen' : off + (e.pk.length + (idsWire rest).length) = data.length := by
      rw [idsWire_length_cons] at hlen; exact hlen
    have hoff : ¬ off > data.length := by omega
    have hd' : data.drop off = e.pk ++ idsWire rest := by rw [hd]; rfl
    have hdp := hdisp (id, e) (by simp) (idsWire rest)
    simp only at hdp
    simp only [hset, if_true, hoff, if_false, hd', hdp]
    have e3 : len - id = len + 1 - (id + 1) := by omega
    rw [e3, ih (id + 1) (off + e.pk.length) _ hsorted.2
      (fun q hq => ⟨by have := hsorted.1 q hq; simp only at this; omega, (hrange q (List.mem_cons_of_mem _ hq)).2⟩)
      ?_ (drop_add_of_drop_eq hd') (by omega)
      (fun q hq => hdisp q (List.mem_cons_of_mem _ hq)) (by omega)]
    · simp
    · intro j hj
      rw [hbits j (by omega)]
      constructor
      · rintro ⟨q, hq, rfl⟩
        simp only [List.mem_cons] at hq
        rcases hq with rfl | hq
        · simp only at hj; omega
        · exact ⟨q, hq, rfl⟩
      · rintro ⟨q, hq, rfl⟩
        exact ⟨q, List.mem_cons_of_mem _ hq, rfl⟩

theorem unpackTaggedOpt_eq (subs : List (Tag × Field)) (t : Tag) (f : Field) (d : Bytes)
    (h : lookup t subs = some f) : unpackTaggedOpt subs t d = some (f.unpack d) := by
  induction subs with
  | nil => simp [lookup] at h
  | cons p rest ih =>
    obtain ⟨k, g⟩ := p
    by_cases hk : k = t
    · simp [lookup, hk] at h; subst h; simp [unpackTaggedOpt, hk]
    · simp [lookup, hk] at h; simp [unpackTaggedOpt, hk, ih h]

theorem unpack_bitmapped_eq (s : CompSpec) (subs : List (Tag × Field)) (b : BitmapSpec)
    (hm : s.mode = .bitmapped b) (pre body tail : Bytes)
    (hpre : s.pref.decodeLength s.len (pre ++ (body ++ tail)) = .ok (body.length, pre.length)) :
    Field.unpack (.comp s subs) (pre ++ (body ++ tail)) =
      finish subs pre.length body.length
        (match Bitmap.unpack b.enc b.pref (Bitmap.reset b.specLen b.auto) body with
          | .err => .err [[]]
          | .panic => .panic
          | .ok (bm, read) =>
            bitmapScan bm (fun tag d => unpackTaggedOpt subs tag d) bm.len 1 body read []) := by
  have h1 : ¬ pre.length > (pre ++ (body ++ tail)).length := by simp
  have h2 : ¬ body.length > (pre ++ (body ++ tail)).length - pre.length := by simp
  have hb : ((pre ++ (body ++ tail)).drop pre.length).take body.length = body := by
    rw [List.drop_left' rfl, List.take_left' rfl]
  rw [Field.unpack]
  simp only [hpre, h1, h2, if_false, hb, hm]
  cases Bitmap.unpack b.enc b.pref (Bitmap.reset b.specLen b.auto) body with
  | err => rfl
  | panic => rfl
  | ok r =>
    obtain ⟨bm, read⟩ := r
    simp only
    cases bitmapScan bm (fun tag d => unpackTaggedOpt subs tag d) bm.len 1 body read [] with
    | err p => rfl
    | panic => rfl
    | ok r => obtain ⟨vals, rd⟩ := r; rfl

/-! ## the numeric comparators on K6 tag sets -/

theorem inj_of_nodup_map {α β : Type} (f : α → β) : ∀ (l : List α), (l.map f).Nodup →
    ∀ x y, x ∈ l → y ∈ l → f x = f y → x = y := by
  intro l
  induction l with
  | nil => intro _ x y hx; simp at hx
  | cons a rest ih =>
    intro hd x y hx hy hxy
    simp only [List.map_cons, List.nodup_cons, List.mem_map, not_exists, not_and] at hd
    simp only [List.mem_cons] at hx hy
    rcases hx with rfl | hx
    · rcases hy with rfl | hy
      · rfl
      · exact absurd hxy.symm (hd.1 y hy)
    · rcases hy with rfl | hy
      · exact absurd hxy (hd.1 x hx)
      · exact ih hd.2 x y hx hy hxy

theorem byInt_less_eq (x y : Tag) (nx ny : Nat) (hx : atoi? x = some (nx : Int)) (hy : atoi? y = some (ny : Int)) :
    SortKind.less .byInt x y = decide (nx < ny) := by
  simp only [SortKind.less, hx, hy]
  simp

/-- `StringsByInt` is a strict total order on canonical decimal tags (numeric order) -/
theorem byInt_strictTotal : StrictTotalOn (SortKind.less .byInt) (fun t => canonicalDecimal t = true) := by
  refine ⟨?_, ?_, ?_⟩
  · intro a ha
    obtain ⟨n, h1, _⟩ := natToDec_atoi a ha
    rw [byInt_less_eq a a n n h1 h1]; simp
  · intro a b c ha hb hc hab hbc
    obtain ⟨na, h1, _⟩ := natToDec_atoi a ha
    obtain ⟨nb, h2, _⟩ := natToDec_atoi b hb
    obtain ⟨nc, h3, _⟩ := natToDec_atoi c hc
    rw [byInt_less_eq a b na nb h1 h2] at hab
    rw [byInt_less_eq b c nb nc h2 h3] at hbc
    rw [byInt_less_eq a c na nc h1 h3]
    simp only [decide_eq_true_eq] at hab hbc ⊢
    omega
  · intro a b ha hb hne
    obtain ⟨na, h1, e1⟩ := natToDec_atoi a ha
    obtain ⟨nb, h2, e2⟩ := natToDec_atoi b hb
    rw [byInt_less_eq a b na nb h1 h2, byInt_less_eq b a nb na h2 h1]
    simp only [decide_eq_true_eq]
    have : na ≠ nb := by
      intro e; apply hne; rw [← e1, ← e2, e]
    omega

/-- `StringsByHex` is a strict total order on every tag set satisfying K6 (`sortKeysOK .byHex`):
even-length hex tags whose big-endian values are pairwise different -/
theorem byHex_strictTotal (tags : List Tag) (hk : sortKeysOK .byHex tags = true) :
    StrictTotalOn (SortKind.less .byHex) (fun t => t ∈ tags) := by
  simp only [sortKeysOK, Bool.and_eq_true] at hk
  obtain ⟨_, hall, hdist⟩ := hk
  have hdec : ∀ t ∈ tags, ∃ bs, Enc.hexDecode t = some bs := by
    intro t ht
    have := List.all_eq_true.mp hall t ht
    simp only [Bool.and_eq_true, decide_eq_true_eq] at this
    obtain ⟨⟨h1, h2⟩, _⟩ := this
    apply hexDecode_of_hexChars t h2
    intro c hc
    have := List.all_eq_true.mp h1 c hc
    simpa [isHexB, isHexChar] using this
  have hinj := inj_of_nodup_map (fun t => (Enc.hexDecode t).map beInt) tags (allDistinct_nodup _ hdist)
  have hless : ∀ x y bx bY, Enc.hexDecode x = some bx → Enc.hexDecode y = some bY →
      SortKind.less .byHex x y = decide (beInt bx < beInt bY) := by
    intro x y bx bY h1 h2
    simp only [SortKind.less, h1, h2]
  refine ⟨?_, ?_, ?_⟩
  · intro a ha
    obtain ⟨ba, h1⟩ := hdec a ha
    rw [hless a a ba ba h1 h1]; simp
  · intro a b c ha hb hc hab hbc
    obtain ⟨ba, h1⟩ := hdec a ha
    obtain ⟨bb, h2⟩ := hdec b hb
    obtain ⟨bc, h3⟩ := hdec c hc
    rw [hless a b ba bb h1 h2] at hab
    rw [hless b c bb bc h2 h3] at hbc
    rw [hless a c ba bc h1 h3]
    simp only [decide_eq_true_eq] at hab hbc ⊢
    omega
  · intro a b ha hb hne
    obtain ⟨ba, h1⟩ := hdec a ha
    obtain ⟨bb, h2⟩ := hdec b hb
    rw [hless a b ba bb h1 h2, hless b a bb ba h2 h1]
    simp only [decide_eq_true_eq]
    have : beInt ba ≠ beInt bb := by
      intro e; apply hne
      apply hinj a b ha hb
      simp [h1, h2, e]
    omega
def dstep (acc : Nat) (c : Byte) : Nat := acc * 10 + (c.toNat - 48)

theorem ofDigits_map_val (s : Bytes) : ofDigits 10 (s.map fun c => c.toNat - 48) = s.foldl dstep 0 := by
  simp only [ofDigits, List.foldl_map]
  rfl

/-- equal-width decimal strings: numeric order = string order -/
theorem digits_cmp : ∀ (xs ys : Bytes), xs.length = ys.length → (∀ c ∈ xs, isDigit c) → (∀ c ∈ ys, isDigit c) →
    ∀ a1 a2 : Nat,
      (a1 < a2 → xs.foldl dstep a1 < ys.foldl dstep a2) ∧
      (a2 < a1 → ys.foldl dstep a2 < xs.foldl dstep a1) ∧
      (a1 = a2 → (xs.foldl dstep a1 < ys.foldl dstep a2 ↔ bytesLt xs ys = true)) := by
  intro xs
  induction xs with
  | nil =>
    intro ys hl _ _ a1 a2
    have : ys = [] := List.length_eq_zero_iff.mp hl.symm
    subst this
    refine ⟨fun h => h, fun h => h, fun h => ?_⟩
    subst h
    simp [bytesLt]
  | cons x xs ih =>
    intro ys hl hx hy a1 a2
    cases ys with
    | nil => simp at hl
    | cons y ys =>
      have hxd := hx x (by simp)
      have hyd := hy y (by simp)
      unfold isDigit at hxd hyd
      have hl' : xs.length = ys.length := by simpa using hl
      have IH := ih ys hl' (fun c hc => hx c (by simp [hc])) (fun c hc => hy c (by simp [hc]))
      simp only [List.foldl_cons]
      refine ⟨?_, ?_, ?_⟩
      · intro h
        exact (IH (dstep a1 x) (dstep a2 y)).1 (by unfold dstep; omega)
      · intro h
        exact (IH (dstep a1 x) (dstep a2 y)).2.1 (by unfold dstep; omega)
      · intro h
        subst h
        simp only [bytesLt]
        by_cases hlt : x.toNat < y.toNat
        · simp only [hlt, if_true, iff_true]
          exact (IH (dstep a1 x) (dstep a1 y)).1 (by unfold dstep; omega)
        · by_cases hgt : x.toNat > y.toNat
          · simp only [hlt, hgt, if_false, if_true, Bool.false_eq_true, iff_false]
            have := (IH (dstep a1 x) (dstep a1 y)).2.1 (by unfold dstep; omega)
            omega
          · simp only [hlt, hgt, if_false]
            have e : dstep a1 x = dstep a1 y := by unfold dstep; omega
            rw [e]
            exact (IH (dstep a1 y) (dstep a1 y)).2.2 rfl

theorem mapM?_decVal_none : ∀ (s : Bytes), (∃ c ∈ s, ¬ isDigit c) → mapM? decVal? s = none := by
  intro s
  induction s with
  | nil => intro h; obtain ⟨c, hc, _⟩ := h; simp at hc
  | cons a rest ih =>
    intro h
    obtain ⟨c, hc, hnd⟩ := h
    simp only [List.mem_cons] at hc
    simp only [mapM?]
    rcases hc with rfl | hc
    · have : decVal? c = none := by
        unfold decVal?; unfold isDigit at hnd; simp [hnd]
      simp [this]
    · rw [ih ⟨c, hc, hnd⟩]
      cases decVal? a <;> rfl

/-- alphanumeric tags: `strconv.Atoi` succeeds exactly on the digit-only ones -/
theorem atoi_alnum (t : Tag) (hal : tagAlnum t = true) (hne : t ≠ []) :
    (t.all isDigitB = true → atoi? t = some ((t.foldl dstep 0 : Nat) : Int)) ∧
    (t.all isDigitB = false → atoi? t = none) := by
  cases t with
  | nil => exact absurd rfl hne
  | cons c rest =>
    have hc : (48 ≤ c.toNat ∧ c.toNat ≤ 57) ∨ (65 ≤ c.toNat ∧ c.toNat ≤ 90) ∨ (97 ≤ c.toNat ∧ c.toNat ≤ 122) := by
      simp only [tagAlnum, List.all_cons, Bool.and_eq_true, decide_eq_true_eq] at hal
      exact hal.1
    have h43 : c ≠ 43 := by intro h; subst h; revert hc; decide
    have h45 : c ≠ 45 := by intro h; subst h; revert hc; decide
    constructor
    · intro hd
      have hd' : ∀ x ∈ c :: rest, isDigit x := by
        intro x hx
        have := List.all_eq_true.mp hd x hx
        simpa [isDigitB, isDigit] using this
      simp only [atoi?, h43, h45, if_false, mapM?_decVal_digits _ hd', Option.map_some, ofDigits_map_val]
    · intro hd
      have : ∃ x ∈ c :: rest, ¬ isDigit x := by
        obtain ⟨x, hx, hnx⟩ := List.all_eq_false.mp hd
        exact ⟨x, hx, by simpa [isDigitB, isDigit] using hnx⟩
      simp only [atoi?, h43, h45, if_false, mapM?_decVal_none _ this, Option.map_none]

/-- `StringsByInt` on alphanumeric tags whose digit-only members all have one width `L`
(the second K6 alternative) coincides with the plain string order, hence is a strict total
order -/
theorem byInt_strictTotal_width (L : Nat) :
    StrictTotalOn (SortKind.less .byInt)
      (fun t => tagAlnum t = true ∧ t ≠ [] ∧ (t.all isDigitB = true → t.length = L)) := by
  have heq : ∀ x y : Tag, (tagAlnum x = true ∧ x ≠ [] ∧ (x.all isDigitB = true → x.length = L)) →
      (tagAlnum y = true ∧ y ≠ [] ∧ (y.all isDigitB = true → y.length = L)) →
      SortKind.less .byInt x y = bytesLt x y := by
    intro x y ⟨hxa, hxn, hxl⟩ ⟨hya, hyn, hyl⟩
    obtain ⟨hx1, hx2⟩ := atoi_alnum x hxa hxn
    obtain ⟨hy1, hy2⟩ := atoi_alnum y hya hyn
    cases hxd : x.all isDigitB with
    | false => simp only [SortKind.less, hx2 hxd]
    | true =>
      cases hyd : y.all isDigitB with
      | false => simp only [SortKind.less, hx1 hxd, hy2 hyd]
      | true =>
        simp only [SortKind.less, hx1 hxd, hy1 hyd]
        have hdx : ∀ c ∈ x, isDigit c := fun c hc => by
          have := List.all_eq_true.mp hxd c hc; simpa [isDigitB, isDigit] using this
        have hdy : ∀ c ∈ y, isDigit c := fun c hc => by
          have := List.all_eq_true.mp hyd c hc; simpa [isDigitB, isDigit] using this
        have := (digits_cmp x y (by rw [hxl hxd, hyl hyd]) hdx hdy 0 0).2.2 rfl
        cases hb : bytesLt x y with
        | true => simp only [decide_eq_true_eq]; exact_mod_cast this.mpr hb
        | false =>
          simp only [decide_eq_false_iff_not]
          intro h
          have h' : x.foldl dstep 0 < y.foldl dstep 0 := by exact_mod_cast h
          rw [this.mp h'] at hb; cases hb
  refine ⟨?_, ?_, ?_⟩
  · intro a ha; rw [heq a a ha ha]; exact bytesLt_irrefl a
  · intro a b c ha hb hc hab hbc
    rw [heq a b ha hb] at hab; rw [heq b c hb hc] at hbc; rw [heq a c ha hc]
    exact bytesLt_trans a b c hab hbc
  · intro a b ha hb hne
    rw [heq a b ha hb, heq b a hb ha]
    exact bytesLt_total a b hne

theorem StrictTotalOn.mono {α : Type} {less : α → α → Bool} {P Q : α → Prop} (h : StrictTotalOn less P)
    (hq : ∀ x, Q x → P x) : StrictTotalOn less Q :=
  ⟨fun a ha => h.irrefl a (hq a ha),
   fun a b c ha hb hc => h.trans a b c (hq a ha) (hq b hb) (hq c hc),
   fun a b ha hb => h.total a b (hq a ha) (hq b hb)⟩

/-- **K6**: on a tag set satisfying `sortKeysOK` whose tags are alphanumeric and non-empty
(K5, `tagOK`), `StringsByInt` is a strict total order -/
theorem byInt_strictTotal_K6 (k : SortKind) (tags : List Tag) (hk : sortKeysOK k tags = true)
    (hal : ∀ t ∈ tags, tagAlnum t = true ∧ t ≠ []) :
    StrictTotalOn (SortKind.less .byInt) (fun t => t ∈ tags) := by
  simp only [sortKeysOK, Bool.and_eq_true, Bool.or_eq_true] at hk
  obtain ⟨⟨_, hshape⟩, _⟩ := hk
  rcases hshape with hcan | hwidth
  · exact byInt_strictTotal.mono (fun x hx => List.all_eq_true.mp hcan x hx)
  · cases hf : tags.filter (fun t => t.all isDigitB) with
    | nil =>
      apply (byInt_strictTotal_width 0).mono
      intro x hx
      refine ⟨(hal x hx).1, (hal x hx).2, ?_⟩
      intro hd
      have : x ∈ tags.filter (fun t => t.all isDigitB) := List.mem_filter.mpr ⟨hx, hd⟩
      rw [hf] at this; simp at this
    | cons t0 rest =>
      rw [hf] at hwidth
      apply (byInt_strictTotal_width t0.length).mono
      intro x hx
      refine ⟨(hal x hx).1, (hal x hx).2, ?_⟩
      intro hd
      have : x ∈ tags.filter (fun t => t.all isDigitB) := List.mem_filter.mpr ⟨hx, hd⟩
      rw [hf] at this
      simp only [List.mem_cons] at this
      rcases this with rfl | hr
      · rfl
      · have := List.all_eq_true.mp hwidth x hr
        simpa using this

/-- **K6**, all three sort functions: the composite's comparator is a strict total order on
its (coherent) tag set, so the sorted order of the tags is unique -/
theorem less_strictTotal_K6 (k : SortKind) (tags : List Tag) (hk : sortKeysOK k tags = true)
    (hal : ∀ t ∈ tags, tagAlnum t = true ∧ t ≠ []) :
    StrictTotalOn (SortKind.less k) (fun t => t ∈ tags) := by
  cases k with
  | strings => exact strings_strictTotal.mono (fun _ _ => trivial)
  | byInt => exact byInt_strictTotal_K6 .byInt tags hk hal
  | byHex => exact byHex_strictTotal tags hk

/-! ## no panic -/

theorem decodeNat_ne_panic (e : Enc) (d : Bytes) (n : Nat) : Enc.decodeNat e d n ≠ .panic := by
  cases e <;> simp only [Enc.decodeNat] <;> (repeat' split) <;> simp

theorem decode_ne_panic (e : Enc) (d : Bytes) (n : Int) : Enc.decode e d n ≠ .panic := by
  cases n with
  | ofNat k => exact decodeNat_ne_panic e d k
  | negSucc k =>
    simp only [Enc.decode]
    split
    · exact decodeNat_ne_panic e d 0
    · simp

theorem decode_read_le (e : Enc) (d v : Bytes) (n : Int) (r : Nat) (h : Enc.decode e d n = .ok (v, r)) :
    r ≤ d.length := by
  by_cases he : e = .berTag
  · subst he; exact (C07.berTag_read_bounds d v n r h).2.1
  · obtain ⟨k, _, hk⟩ := C07.decode_ok_nonneg e d v n r he h
    exact (C07.decode_ok_sound e d v k r he hk).2.1

/-- **the TLV loop never panics** on any bytes, for any spec, as long as the subfield
unpackers it dispatches to do not -/
theorem tlvLoop_ne_panic (t : TagSpec) (enc : Enc) (isBer : Bool) (known : Tag → Bool)
    (dispatch : Tag → Bytes → UR (Value × Nat)) (hd : ∀ tag d, dispatch tag d ≠ .panic) :
    ∀ (fuel : Nat) (data : Bytes) (offset : Nat) (acc : List (Tag × Value)),
      tlvLoop t enc isBer known dispatch fuel data offset acc ≠ .panic := by
  intro fuel
  induction fuel with
  | zero => intro data offset acc; simp [tlvLoop]
  | succ fuel ih =>
    intro data offset acc
    rw [tlvLoop]
    split
    · simp
    · rename_i hoff
      cases hdec : Enc.decode enc (data.drop offset) t.len with
      | err => simp
      | panic => exact absurd hdec (decode_ne_panic _ _ _)
      | ok r =>
        obtain ⟨tagBytes, read⟩ := r
        have hr := decode_read_le enc _ _ _ _ hdec
        simp only [List.length_drop] at hr
        have hle : ¬ offset + read > data.length := by omega
        simp only [hle, if_false]
        split
        · split
          · cases hp : t.prefUnknown with
            | none =>
              simp only
              cases hl : Pref.berTLV.decodeLength 0 (data.drop (offset + read)) with
              | err => simp
              | panic => exact absurd hl (C06.dec_range _ _ _).1
              | ok r2 =>
                obtain ⟨fl, rd⟩ := r2
                simp only
                split
                · simp
                · exact ih _ _ _
            | some p =>
              simp only
              cases hl : p.decodeLength maxInt (data.drop (offset + read)) with
              | err => simp
              | panic => exact absurd hl (C06.dec_range _ _ _).1
              | ok r2 =>
                obtain ⟨fl, rd⟩ := r2
                simp only
                split
                · simp
                · exact ih _ _ _
          · simp
        · cases hdp : dispatch (t.pad.unpad tagBytes) (data.drop (offset + read)) with
          | err p => simp
          | panic => exact absurd hdp (hd _ _)
          | ok r3 =>
            obtain ⟨v, rd⟩ := r3
            simp only
            split
            · simp
            · exact ih _ _ _
theorem unpackTagged_ne_panic (subs : List (Tag × Field))
    (hsub : ∀ tg f, (tg, f) ∈ subs → ∀ d, f.unpack d ≠ .panic) (tag : Tag) (d : Bytes) :
    unpackTagged subs tag d ≠ .panic := by
  induction subs with
  | nil => simp [unpackTagged]
  | cons p rest ih =>
    obtain ⟨k, f⟩ := p
    simp only [unpackTagged]
    split
    · exact hsub k f (by simp) d
    · exact ih (fun tg g hm => hsub tg g (List.mem_cons_of_mem _ hm))

/-- a tagged composite never panics on any input if its subfields do not -/
theorem unpack_tagged_ne_panic (s : CompSpec) (subs : List (Tag × Field)) (t : TagSpec) (enc : Enc)
    (hm : s.mode = .tagged t) (he : t.enc = some enc)
    (hsub : ∀ tg f, (tg, f) ∈ subs → ∀ d, f.unpack d ≠ .panic) (data : Bytes) :
    Field.unpack (.comp s subs) data ≠ .panic := by
  rw [Field.unpack]
  cases hdl : s.pref.decodeLength s.len data with
  | err => simp
  | panic => exact absurd hdl (C06.dec_range _ _ _).1
  | ok r =>
    obtain ⟨dataLen, offset⟩ := r
    have hr := ((C06.dec_range s.pref s.len data).2 dataLen offset hdl).1
    have h1 : ¬ offset > data.length := by omega
    simp only [h1, if_false]
    split
    · simp
    · simp only [hm, he]
      have := tlvLoop_ne_panic t enc (enc == Enc.berTag) (lookupField subs) (fun tag d => unpackTagged subs tag d)
        (unpackTagged_ne_panic subs hsub) (((data.drop offset).take dataLen).length + 1) ((data.drop offset).take dataLen) 0 []
      cases hl : tlvLoop t enc (enc == Enc.berTag) (lookupField subs) (fun tag d => unpackTagged subs tag d)
          (((data.drop offset).take dataLen).length + 1) ((data.drop offset).take dataLen) 0 [] with
      | err p => simp
      | panic => exact absurd hl this
      | ok r2 =>
        obtain ⟨vals, read⟩ := r2
        simp only
        split <;> simp

end Iso8583.Tlv
