/-
The well-formed part of a message spec: the data elements that satisfy the per-element
clauses of `MsgSpec.coherent` (id ≥ 2, not at a continuation-bit position of an auto-expanding
bitmap, coherent field). For a spec whose MTI / bitmap definitions are coherent and whose ids
are distinct, that part is a coherent spec — so every theorem stated for coherent specs
applies to "a shipped spec restricted to its well-formed fields" (the quantifier of C02).
-/
import Iso8583.Spec.Coherent
import Iso8583.Gen.Shipped

namespace Iso8583

/-- the per-element clause of `MsgSpec.coherent` -/
def MsgSpec.fieldOK (s : MsgSpec) (p : Nat × Field) : Bool :=
  decide (2 ≤ p.1) &&
  (!s.bitmap.auto || decide (p.1 % (Bitmap.blockLenOf s.bitmap.specLen * 8) ≠ 1)) &&
  p.2.coherent false

/-- the spec restricted to its well-formed data elements -/
def MsgSpec.restrict (s : MsgSpec) : MsgSpec :=
  { s with fields := s.fields.filter s.fieldOK }

/-- the clauses of `MsgSpec.coherent` that do not concern a single data element -/
def MsgSpec.headOK (s : MsgSpec) : Bool :=
  ({ s with fields := [] } : MsgSpec).coherent && allDistinct (s.fields.map (·.1))

theorem contains_filter_map {l : List (Nat × Field)} {q : Nat × Field → Bool} {x : Nat}
    (h : ((l.filter q).map (·.1)).contains x = true) : (l.map (·.1)).contains x = true := by
  simp only [List.contains_eq_mem, List.mem_map, List.mem_filter, decide_eq_true_eq] at *
  obtain ⟨a, ⟨ha, _⟩, rfl⟩ := h
  exact ⟨a, ha, rfl⟩

theorem allDistinct_filter_map (l : List (Nat × Field)) (q : Nat × Field → Bool)
    (h : allDistinct (l.map (·.1)) = true) : allDistinct ((l.filter q).map (·.1)) = true := by
  induction l with
  | nil => simp [allDistinct]
  | cons a l ih =>
    simp only [List.map_cons, allDistinct, Bool.and_eq_true, Bool.not_eq_true'] at h
    by_cases hq : q a = true
    · simp only [List.filter_cons, hq, if_true, List.map_cons, allDistinct, Bool.and_eq_true, Bool.not_eq_true']
      refine ⟨?_, ih h.2⟩
      cases hc : ((l.filter q).map (·.1)).contains a.1 with
      | false => rfl
      | true => rw [contains_filter_map hc] at h; exact absurd h.1 (by simp)
    · simp only [List.filter_cons, hq]
      exact ih h.2

/-- **the well-formed part of a spec is a coherent spec** -/
theorem MsgSpec.restrict_coherent (s : MsgSpec) (h : s.headOK = true) : s.restrict.coherent = true := by
  unfold MsgSpec.headOK at h
  simp only [Bool.and_eq_true] at h
  obtain ⟨h1, h2⟩ := h
  unfold MsgSpec.coherent at h1 ⊢
  simp only [MsgSpec.restrict, List.map_nil, allDistinct, List.all_nil, Bool.and_true, Bool.and_eq_true] at h1 ⊢
  refine ⟨⟨h1, allDistinct_filter_map _ _ h2⟩, ?_⟩
  rw [List.all_eq_true]
  intro p hp
  have := (List.mem_filter.mp hp).2
  simp only [MsgSpec.fieldOK, Bool.and_eq_true, decide_eq_true_eq, Bool.or_eq_true, Bool.not_eq_true'] at this
  simp only [Bool.and_eq_true, decide_eq_true_eq, Bool.or_eq_true, Bool.not_eq_true']
  obtain ⟨⟨a, b⟩, c⟩ := this
  refine ⟨⟨a, ?_⟩, c⟩
  rcases b with b | b
  · exact Or.inl b
  · exact Or.inr (decide_eq_true b)


/-- the shipped specs whose MTI and bitmap definitions are coherent and whose ids are distinct -/
def Gen.restrictable : List (String × MsgSpec) := Gen.shippedSpecs.filter (fun p => p.2.headOK)

/-- **the well-formed part of every restrictable shipped spec is a coherent spec** -/
theorem Gen.shipped_restrict_coherent (name : String) (spec : MsgSpec) (h : (name, spec) ∈ Gen.restrictable) :
    spec.restrict.coherent = true :=
  MsgSpec.restrict_coherent spec (List.mem_filter.mp h).2

end Iso8583
