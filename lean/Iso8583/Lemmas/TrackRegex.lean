/-
A small regular-expression semantics for exactly the constructs of the three track
patterns, and the proof that the hand-written splitters of Model/Track.lean
(`Track1.groups`, `Track2.groups`, `Track3.groups`) compute it: a text matches the
pattern with capture groups `caps` iff the splitter returns `caps`. In particular a match
is unique, so the leftmost-first / greedy disambiguation rules of `regexp` never come
into play. The patterns are given as syntax trees whose printed form is the literal text
regenerated from the Go source (Gen/TrackConsts.lean).

`regexp` matches UTF-8 code points; a byte that does not start a valid encoding is one
code point (U+FFFD) of width 1 (`utf8Split` = repeated `utf8.DecodeRune`).
-/
import Iso8583.Lemmas.Track
import Iso8583.Gen.TrackConsts

set_option linter.unusedSimpArgs false
set_option linter.unusedVariables false

namespace Iso8583.TrackRegex
open Iso8583 Track TrackLemmas

/-! ### UTF-8 segmentation -/

theorem utf8Width_pos (b : Byte) (rest : Bytes) : 1 ≤ utf8Width (b :: rest) := by
  simp only [utf8Width]
  repeat' split
  all_goals omega

theorem utf8Width_le (bs : Bytes) : utf8Width bs ≤ bs.length := by
  cases bs with
  | nil => simp [utf8Width]
  | cons b rest =>
    simp only [utf8Width]
    repeat' split
    all_goals simp only [List.length_cons]
    all_goals omega

/-- the input cut into code points as `utf8.DecodeRune` sees them -/
def utf8Split (bs : Bytes) : List Bytes :=
  match bs with
  | [] => []
  | b :: rest =>
    (b :: rest).take (utf8Width (b :: rest)) :: utf8Split ((b :: rest).drop (utf8Width (b :: rest)))
termination_by bs.length
decreasing_by
  have := utf8Width_pos b rest
  simp only [List.length_drop, List.length_cons]
  omega

theorem utf8Split_nil : utf8Split [] = [] := by rw [utf8Split]

theorem utf8Split_cons (b : Byte) (rest : Bytes) :
    utf8Split (b :: rest) =
      (b :: rest).take (utf8Width (b :: rest)) :: utf8Split ((b :: rest).drop (utf8Width (b :: rest))) := by
  rw [utf8Split]

theorem isCont_false_iff (c : Byte) : isCont c = false ↔ ¬ (128 ≤ c.toNat ∧ c.toNat ≤ 191) := by
  simp [isCont]

/-- bytes that follow a code point do not change its width when they start with a byte
that is not a continuation byte (e.g. an ASCII character): a truncated encoding is one
invalid byte either way -/
theorem utf8Width_append (b : Byte) (u t : Bytes) (ht : ∀ c, t.head? = some c → isCont c = false) :
    utf8Width (b :: u ++ t) = utf8Width (b :: u) := by
  rcases t with _ | ⟨c, t'⟩
  · simp
  · have hc : ¬ (128 ≤ c.toNat ∧ c.toNat ≤ 191) := (isCont_false_iff c).mp (ht c rfl)
    have hc' : isCont c = false := ht c rfl
    rcases u with _ | ⟨x, _ | ⟨y, _ | ⟨z, r⟩⟩⟩
    · rcases t' with _ | ⟨d, _ | ⟨e, t''⟩⟩ <;>
        simp only [List.nil_append, List.cons_append, utf8Width, hc'] <;>
        (repeat' split) <;> first | rfl | omega | contradiction | simp_all
    · rcases t' with _ | ⟨d, t''⟩ <;>
        simp only [List.nil_append, List.cons_append, utf8Width, hc'] <;>
        (repeat' split) <;> first | rfl | omega | contradiction | simp_all
    · simp only [List.nil_append, List.cons_append, utf8Width, hc'] <;>
        (repeat' split) <;> first | rfl | omega | contradiction | simp_all
    · simp only [List.cons_append, utf8Width]

/-- segmentation is compositional at a boundary that is followed by a non-continuation byte -/
theorem utf8Split_append_aux (t : Bytes) (ht : ∀ c, t.head? = some c → isCont c = false) :
    ∀ (n : Nat) (a : Bytes), a.length ≤ n → utf8Split (a ++ t) = utf8Split a ++ utf8Split t := by
  intro n
  induction n with
  | zero =>
    intro a ha
    have : a = [] := List.eq_nil_of_length_eq_zero (by omega)
    subst this; simp [utf8Split_nil]
  | succ n ih =>
    intro a ha
    cases a with
    | nil => simp [utf8Split_nil]
    | cons b u =>
      have hw := utf8Width_append b u t ht
      have hpos := utf8Width_pos b u
      have hle := utf8Width_le (b :: u)
      have e1 : (b :: u ++ t) = b :: (u ++ t) := rfl
      rw [e1, utf8Split_cons b (u ++ t), utf8Split_cons b u]
      have hw' : utf8Width (b :: (u ++ t)) = utf8Width (b :: u) := hw
      rw [hw']
      have e2 : b :: (u ++ t) = (b :: u) ++ t := rfl
      rw [e2, List.take_append_of_le_length hle, List.drop_append_of_le_length hle]
      rw [ih ((b :: u).drop (utf8Width (b :: u))) (by simp only [List.length_drop, List.length_cons] at *; omega)]
      simp

theorem utf8Split_append (a t : Bytes) (ht : ∀ c, t.head? = some c → isCont c = false) :
    utf8Split (a ++ t) = utf8Split a ++ utf8Split t :=
  utf8Split_append_aux t ht a.length a (Nat.le_refl _)

theorem utf8Width_ascii (c : Byte) (rest : Bytes) (hc : c.toNat < 128) : utf8Width (c :: rest) = 1 := by
  simp [utf8Width, hc]

theorem utf8Split_ascii_cons (c : Byte) (rest : Bytes) (hc : c.toNat < 128) :
    utf8Split (c :: rest) = [c] :: utf8Split rest := by
  rw [utf8Split_cons, utf8Width_ascii c rest hc]; simp

theorem isCont_false_of_ascii {c : Byte} (hc : c.toNat < 128) : isCont c = false := by
  rw [isCont_false_iff]; omega

/-- … in particular at an ASCII byte -/
theorem utf8Split_append_ascii (a : Bytes) (c : Byte) (rest : Bytes) (hc : c.toNat < 128) :
    utf8Split (a ++ c :: rest) = utf8Split a ++ [c] :: utf8Split rest := by
  rw [utf8Split_append a (c :: rest) (by intro d hd; simp at hd; subst hd; exact isCont_false_of_ascii hc),
    utf8Split_ascii_cons c rest hc]

/-- a run of ASCII bytes is one code point each -/
theorem utf8Split_ascii_run (xs rest : Bytes) (h : ∀ c ∈ xs, c.toNat < 128) :
    utf8Split (xs ++ rest) = xs.map (fun c => [c]) ++ utf8Split rest := by
  induction xs with
  | nil => simp
  | cons x xs ih =>
    rw [List.cons_append, utf8Split_ascii_cons x _ (h x (by simp)), ih (fun c hc => h c (by simp [hc]))]
    simp

theorem flatten_utf8Split_aux : ∀ (n : Nat) (bs : Bytes), bs.length ≤ n → (utf8Split bs).flatten = bs := by
  intro n
  induction n with
  | zero =>
    intro bs h
    have : bs = [] := List.eq_nil_of_length_eq_zero (by omega)
    subst this; simp [utf8Split_nil]
  | succ n ih =>
    intro bs h
    cases bs with
    | nil => simp [utf8Split_nil]
    | cons b u =>
      have hpos := utf8Width_pos b u
      rw [utf8Split_cons, List.flatten_cons,
        ih _ (by simp only [List.length_drop, List.length_cons] at *; omega), List.take_append_drop]

/-- the code points concatenated are the input -/
theorem flatten_utf8Split (bs : Bytes) : (utf8Split bs).flatten = bs :=
  flatten_utf8Split_aux bs.length bs (Nat.le_refl _)

/-- the possible widths and what they say about the bytes -/
theorem utf8Width_cases (b : Byte) (rest : Bytes) :
    utf8Width (b :: rest) = 1 ∨
    (utf8Width (b :: rest) = 2 ∧ ∃ x r, rest = x :: r ∧ 128 ≤ b.toNat ∧ 128 ≤ x.toNat) ∨
    (utf8Width (b :: rest) = 3 ∧ ∃ x y r, rest = x :: y :: r ∧ 128 ≤ b.toNat ∧ 128 ≤ x.toNat ∧ 128 ≤ y.toNat) ∨
    (utf8Width (b :: rest) = 4 ∧ ∃ x y z r, rest = x :: y :: z :: r ∧ 128 ≤ b.toNat ∧ 128 ≤ x.toNat ∧
      128 ≤ y.toNat ∧ 128 ≤ z.toNat) := by
  rcases rest with _ | ⟨x, _ | ⟨y, _ | ⟨z, r⟩⟩⟩ <;>
    simp only [utf8Width, isCont, decide_eq_true_eq] <;> (repeat' split) <;>
    first
    | (left; rfl)
    | (right; left; refine ⟨rfl, _, _, rfl, ?_, ?_⟩ <;> omega)
    | (right; right; left; refine ⟨rfl, _, _, _, rfl, ?_, ?_, ?_⟩ <;> omega)
    | (right; right; right; refine ⟨rfl, _, _, _, _, rfl, ?_, ?_, ?_, ?_⟩ <;> omega)

/-- a code point is one byte, or all of its bytes are ≥ 0x80 -/
theorem utf8Width_shape (b : Byte) (rest : Bytes) :
    (∃ c, (b :: rest).take (utf8Width (b :: rest)) = [c]) ∨
      ∀ c ∈ (b :: rest).take (utf8Width (b :: rest)), 128 ≤ c.toNat := by
  rcases utf8Width_cases b rest with h | ⟨h, x, r, rfl, h1, h2⟩ | ⟨h, x, y, r, rfl, h1, h2, h3⟩ |
      ⟨h, x, y, z, r, rfl, h1, h2, h3, h4⟩
  · left; exact ⟨b, by rw [h]; rfl⟩
  · right; rw [h]; intro c hc
    simp only [List.take, List.mem_cons, List.not_mem_nil, or_false] at hc
    rcases hc with rfl | rfl <;> assumption
  · right; rw [h]; intro c hc
    simp only [List.take, List.mem_cons, List.not_mem_nil, or_false] at hc
    rcases hc with rfl | rfl | rfl <;> assumption
  · right; rw [h]; intro c hc
    simp only [List.take, List.mem_cons, List.not_mem_nil, or_false] at hc
    rcases hc with rfl | rfl | rfl | rfl <;> assumption

def UnitShape (u : Bytes) : Prop := (∃ c, u = [c]) ∨ ∀ c ∈ u, 128 ≤ c.toNat

theorem utf8Split_shape_aux : ∀ (n : Nat) (bs : Bytes), bs.length ≤ n → ∀ u ∈ utf8Split bs, UnitShape u := by
  intro n
  induction n with
  | zero =>
    intro bs h u hu
    have : bs = [] := List.eq_nil_of_length_eq_zero (by omega)
    subst this; simp [utf8Split_nil] at hu
  | succ n ih =>
    intro bs h u hu
    cases bs with
    | nil => simp [utf8Split_nil] at hu
    | cons b r =>
      have hpos := utf8Width_pos b r
      rw [utf8Split_cons] at hu
      rcases List.mem_cons.mp hu with rfl | hu'
      · exact utf8Width_shape b r
      · exact ih _ (by simp only [List.length_drop, List.length_cons] at *; omega) u hu'

theorem utf8Split_shape (bs : Bytes) : ∀ u ∈ utf8Split bs, UnitShape u :=
  utf8Split_shape_aux bs.length bs (Nat.le_refl _)

/-- an ASCII byte occurs in a code point only as that code point -/
theorem mem_unit_ascii {u : Bytes} {c : Byte} (hs : UnitShape u) (hc : c ∈ u) (ha : c.toNat < 128) : u = [c] := by
  rcases hs with ⟨d, rfl⟩ | h
  · simp at hc; rw [hc]
  · have := h c hc; omega

/-! ### counting code points -/

theorem utf8CountAux_skip : ∀ (bs : Bytes) (k : Nat), utf8CountAux k bs = utf8CountAux 0 (bs.drop k) := by
  intro bs
  induction bs with
  | nil => intro k; cases k <;> simp [utf8CountAux]
  | cons b r ih =>
    intro k
    cases k with
    | zero => simp
    | succ k => simp only [utf8CountAux, List.drop_succ_cons]; exact ih k

theorem utf8Count_eq_aux : ∀ (n : Nat) (bs : Bytes), bs.length ≤ n → utf8Count bs = (utf8Split bs).length := by
  intro n
  induction n with
  | zero =>
    intro bs h
    have : bs = [] := List.eq_nil_of_length_eq_zero (by omega)
    subst this; simp [utf8Split_nil, utf8Count, utf8CountAux]
  | succ n ih =>
    intro bs h
    cases bs with
    | nil => simp [utf8Split_nil, utf8Count, utf8CountAux]
    | cons b r =>
      have hpos := utf8Width_pos b r
      rw [utf8Split_cons, List.length_cons, ← ih _ (by simp only [List.length_drop, List.length_cons] at *; omega)]
      simp only [utf8Count, utf8CountAux]
      rw [utf8CountAux_skip r (utf8Width (b :: r) - 1)]
      have : (b :: r).drop (utf8Width (b :: r)) = r.drop (utf8Width (b :: r) - 1) := by
        obtain ⟨k, hk⟩ : ∃ k, utf8Width (b :: r) = k + 1 := ⟨utf8Width (b :: r) - 1, by omega⟩
        rw [hk]; simp
      rw [this]; omega

/-- `utf8Count` counts the code points -/
theorem utf8Count_eq (bs : Bytes) : utf8Count bs = (utf8Split bs).length :=
  utf8Count_eq_aux bs.length bs (Nat.le_refl _)

/-! ### syntax of the three patterns -/

/-- character classes -/
inductive Cls where
  | upper                          -- [A-Z]
  | digit                          -- [0-9]
  | neg (b : Byte) (esc : Bool)    -- [^b] or [^\b]
deriving Repr, DecidableEq

/-- what stands inside a capture group -/
inductive Body where
  | rep (c : Cls) (lo : Nat) (hi : Option Nat)   -- c{lo} (hi = lo), c{lo,hi}, c+ (lo = 1, no hi)
  | repOrLit (c : Cls) (k : Nat) (lit : Byte)    -- c{k}|\lit
  | lits (a b : Byte)                            -- a|b
deriving Repr, DecidableEq

inductive Item where
  | lit (b : Byte) (esc : Bool)    -- b or \b
  | group (body : Body)            -- ( body )
deriving Repr, DecidableEq

/-- a pattern, implicitly anchored: `^ items $` -/
abbrev Pattern := List Item

def chr (b : Byte) : List Char := [Char.ofNat b.toNat]

def num (n : Nat) : List Char := (natToDec n).map fun d => Char.ofNat d.toNat

def Cls.print : Cls → List Char
  | .upper => "[A-Z]".toList
  | .digit => "[0-9]".toList
  | .neg b esc => "[^".toList ++ (if esc then ['\\'] else []) ++ chr b ++ [']']

def Body.print : Body → List Char
  | .rep c lo (some hi) => c.print ++ ['{'] ++ num lo ++ (if hi = lo then [] else ',' :: num hi) ++ ['}']
  | .rep c lo none => if lo = 1 then c.print ++ ['+'] else c.print ++ ['{'] ++ num lo ++ [',', '}']
  | .repOrLit c k lit => c.print ++ ['{'] ++ num k ++ ['}', '|', '\\'] ++ chr lit
  | .lits a b => chr a ++ ['|'] ++ chr b

def Item.print : Item → List Char
  | .lit b esc => (if esc then ['\\'] else []) ++ chr b
  | .group body => ['('] ++ body.print ++ [')']

/-- the pattern as Go source text -/
def Pattern.print (p : Pattern) : String := String.ofList (['^'] ++ p.flatMap Item.print ++ ['$'])

def track1Pattern : Pattern :=
  [.group (.rep .upper 1 (some 1)), .group (.rep .digit 1 (some 19)), .lit caret true,
   .group (.rep (.neg caret true) 2 (some 26)), .lit caret true,
   .group (.repOrLit .digit 4 caret), .group (.repOrLit .digit 3 caret),
   .group (.rep (.neg quest true) 1 none)]

def track2Pattern : Pattern :=
  [.group (.rep .digit 1 (some 19)), .group (.lits eqSign capD), .group (.rep .digit 4 (some 4)),
   .group (.rep .digit 3 (some 3)), .group (.rep (.neg quest false) 1 none)]

def track3Pattern : Pattern :=
  [.group (.rep .digit 2 (some 2)), .group (.rep .digit 1 (some 19)), .lit eqSign true,
   .group (.rep (.neg quest true) 1 none)]

/-- **The syntax trees are the literals of the Go source** (regenerated on every run). -/
theorem patterns_print_as_source :
    track1Pattern.print = Gen.track1Regex ∧ track2Pattern.print = Gen.track2Regex ∧
    track3Pattern.print = Gen.track3Regex := by
  decide

/-! ### semantics -/

/-- a code point (its bytes) is in the class -/
def Cls.matches : Cls → Bytes → Prop
  | .upper, u => ∃ c, u = [c] ∧ Track.upper c = true
  | .digit, u => ∃ c, u = [c] ∧ Track.dig c = true
  | .neg b _, u => u ≠ [b]

/-- a sequence of code points is matched by the body of a group -/
def Body.matches : Body → List Bytes → Prop
  | .rep c lo hi, us => (∀ u ∈ us, c.matches u) ∧ lo ≤ us.length ∧ (∀ h, hi = some h → us.length ≤ h)
  | .repOrLit c k lit, us => ((∀ u ∈ us, c.matches u) ∧ us.length = k) ∨ us = [[lit]]
  | .lits a b, us => us = [[a]] ∨ us = [[b]]

/-- `Matches p us caps`: the anchored pattern `p` matches the whole code point sequence
`us`, its capture groups taking the texts `caps` (in order) -/
inductive Matches : Pattern → List Bytes → List Bytes → Prop where
  | nil : Matches [] [] []
  | lit (b : Byte) (esc : Bool) (rest : Pattern) (us : List Bytes) (caps : List Bytes) :
      Matches rest us caps → Matches (.lit b esc :: rest) ([b] :: us) caps
  | group (body : Body) (rest : Pattern) (piece us : List Bytes) (caps : List Bytes) :
      body.matches piece → Matches rest us caps →
      Matches (.group body :: rest) (piece ++ us) (piece.flatten :: caps)

/-- the pattern matches the text `raw` (as `regexp` reads it: UTF-8 code points) -/
def MatchesText (p : Pattern) (raw : Bytes) (caps : List Bytes) : Prop := Matches p (utf8Split raw) caps

/-! inversion -/

theorem Matches.nil_inv {us : List Bytes} {caps : List Bytes} (h : Matches [] us caps) : us = [] ∧ caps = [] := by
  cases h; exact ⟨rfl, rfl⟩

theorem Matches.lit_inv {b : Byte} {esc : Bool} {rest : Pattern} {us : List Bytes} {caps : List Bytes}
    (h : Matches (.lit b esc :: rest) us caps) : ∃ us', us = [b] :: us' ∧ Matches rest us' caps := by
  cases h with
  | lit _ _ _ us' _ h' => exact ⟨us', rfl, h'⟩

theorem Matches.group_inv {body : Body} {rest : Pattern} {us : List Bytes} {caps : List Bytes}
    (h : Matches (.group body :: rest) us caps) :
    ∃ piece us' caps', us = piece ++ us' ∧ caps = piece.flatten :: caps' ∧ body.matches piece ∧ Matches rest us' caps' := by
  cases h with
  | group _ _ piece us' caps' hb h' => exact ⟨piece, us', caps', rfl, rfl, hb, h'⟩

/-! pieces of ASCII classes -/

def single (c : Byte) : Bytes := [c]

theorem flatten_map_single (xs : Bytes) : (xs.map single).flatten = xs := by
  induction xs with
  | nil => rfl
  | cons x xs ih => simp [single, ih]

/-- a piece all of whose code points are single bytes satisfying `p` is the byte string itself -/
theorem piece_of_singles (p : Byte → Bool) (us : List Bytes) (h : ∀ u ∈ us, ∃ c, u = [c] ∧ p c = true) :
    us = us.flatten.map single ∧ us.flatten.all p = true ∧ us.flatten.length = us.length := by
  induction us with
  | nil => simp
  | cons u us ih =>
    obtain ⟨c, rfl, hc⟩ := h u (by simp)
    obtain ⟨i1, i2, i3⟩ := ih (fun v hv => h v (by simp [hv]))
    refine ⟨?_, ?_, ?_⟩
    · simp only [List.flatten_cons, List.singleton_append, List.map_cons, single]
      rw [← i1]
    · simp only [List.flatten_cons, List.singleton_append, List.all_cons, hc, i2, Bool.and_self]
    · simp [i3]

theorem singles_match (p : Byte → Bool) (xs : Bytes) (h : xs.all p = true) :
    ∀ u ∈ xs.map single, ∃ c, u = [c] ∧ p c = true := by
  intro u hu
  obtain ⟨c, hc, rfl⟩ := List.mem_map.mp hu
  exact ⟨c, rfl, (List.all_eq_true.mp h) c hc⟩

theorem dig_ascii {c : Byte} (h : dig c = true) : c.toNat < 128 := by
  have := (dig_iff c).mp h; omega

theorem utf8Split_digits (xs rest : Bytes) (h : xs.all dig = true) :
    utf8Split (xs ++ rest) = xs.map single ++ utf8Split rest :=
  utf8Split_ascii_run xs rest (fun c hc => dig_ascii ((List.all_eq_true.mp h) c hc))

theorem utf8Split_ne_nil_aux : ∀ (n : Nat) (bs : Bytes), bs.length ≤ n → ∀ u ∈ utf8Split bs, u ≠ [] := by
  intro n
  induction n with
  | zero =>
    intro bs h u hu
    have : bs = [] := List.eq_nil_of_length_eq_zero (by omega)
    subst this; simp [utf8Split_nil] at hu
  | succ n ih =>
    intro bs h u hu
    cases bs with
    | nil => simp [utf8Split_nil] at hu
    | cons b r =>
      have hpos := utf8Width_pos b r
      rw [utf8Split_cons] at hu
      rcases List.mem_cons.mp hu with rfl | hu'
      · obtain ⟨k, hk⟩ : ∃ k, utf8Width (b :: r) = k + 1 := ⟨utf8Width (b :: r) - 1, by omega⟩
        rw [hk]; simp
      · exact ih _ (by simp only [List.length_drop, List.length_cons] at *; omega) u hu'

theorem utf8Split_ne_nil (bs : Bytes) : ∀ u ∈ utf8Split bs, u ≠ [] :=
  utf8Split_ne_nil_aux bs.length bs (Nat.le_refl _)

/-- a text without the ASCII byte `b`, cut into code points, has no code point `[b]`, and conversely -/
theorem no_unit_of_no_byte (bs : Bytes) (b : Byte) (h : ∀ c ∈ bs, c ≠ b) : ∀ u ∈ utf8Split bs, u ≠ [b] := by
  intro u hu e
  subst e
  have : b ∈ (utf8Split bs).flatten := List.mem_flatten.mpr ⟨[b], hu, by simp⟩
  rw [flatten_utf8Split] at this
  exact h b this rfl

theorem no_byte_of_no_unit (us : List Bytes) (b : Byte) (hb : b.toNat < 128) (hs : ∀ u ∈ us, UnitShape u)
    (h : ∀ u ∈ us, u ≠ [b]) : ∀ c ∈ us.flatten, c ≠ b := by
  intro c hc e
  subst e
  obtain ⟨u, hu, hcu⟩ := List.mem_flatten.mp hc
  exact h u hu (mem_unit_ascii (hs u hu) hcu hb)

theorem utf8Split_length_pos (bs : Bytes) (h : bs ≠ []) : 1 ≤ (utf8Split bs).length := by
  cases bs with
  | nil => exact absurd rfl h
  | cons b r => rw [utf8Split_cons]; simp

theorem flatten_ne_nil (us : List Bytes) (hl : 1 ≤ us.length) (hn : ∀ u ∈ us, u ≠ []) : us.flatten ≠ [] := by
  cases us with
  | nil => simp at hl
  | cons u us =>
    have := hn u (by simp)
    cases u with
    | nil => exact absurd rfl this
    | cons c cs => simp

theorem dataOK_iff (dd : Bytes) : dataOK dd = true ↔ dd ≠ [] ∧ ∀ c ∈ dd, c ≠ quest := by
  simp [dataOK, List.isEmpty_iff]

/-! ### Track 2: pattern ⇔ splitter -/

theorem digits_rep_matches (xs : Bytes) (lo hi : Nat) (hd : xs.all dig = true) (h1 : lo ≤ xs.length) (h2 : xs.length ≤ hi) :
    (Body.rep .digit lo (some hi)).matches (xs.map single) := by
  refine ⟨singles_match dig xs hd, by simpa using h1, ?_⟩
  intro h e; simp at e; subst e; simpa using h2

theorem neg_rep_matches (dd : Bytes) (b : Byte) (esc : Bool) (hne : dd ≠ []) (hb : ∀ c ∈ dd, c ≠ b) :
    (Body.rep (.neg b esc) 1 none).matches (utf8Split dd) :=
  ⟨no_unit_of_no_byte dd b hb, utf8Split_length_pos dd hne, by intro h e; simp at e⟩

theorem track2_groups_matches (raw pan sep exp sc dd : Bytes)
    (h : Track2.groups raw = some (pan, sep, exp, sc, dd)) :
    MatchesText track2Pattern raw [pan, sep, exp, sc, dd] := by
  obtain ⟨hraw, hpl, hpd, hsep, hel, hed, hcl, hcd, hdd⟩ := Track2.groups_sound raw pan sep exp sc dd h
  obtain ⟨hdne, hdq⟩ := (dataOK_iff dd).mp hdd
  obtain ⟨sp, rfl, hsp⟩ : ∃ sp, sep = [sp] ∧ (sp = eqSign ∨ sp = capD) := by
    rcases hsep with rfl | rfl
    · exact ⟨eqSign, rfl, Or.inl rfl⟩
    · exact ⟨capD, rfl, Or.inr rfl⟩
  have hspa : sp.toNat < 128 := by rcases hsp with rfl | rfl <;> decide
  have hsplit : utf8Split raw = pan.map single ++ ([[sp]] ++ (exp.map single ++ (sc.map single ++ (utf8Split dd ++ [])))) := by
    rw [hraw]
    simp only [List.append_assoc]
    rw [utf8Split_digits pan _ hpd, List.singleton_append, utf8Split_ascii_cons sp _ hspa,
      utf8Split_digits exp _ hed, utf8Split_digits sc _ hcd]
    simp
  unfold MatchesText track2Pattern
  rw [hsplit]
  have m5 := Matches.group (.rep (.neg quest false) 1 none) [] (utf8Split dd) [] [] (neg_rep_matches dd quest false hdne hdq) Matches.nil
  have m4 := Matches.group (.rep .digit 3 (some 3)) _ (sc.map single) _ _ (digits_rep_matches sc 3 3 hcd (by omega) (by omega)) m5
  have m3 := Matches.group (.rep .digit 4 (some 4)) _ (exp.map single) _ _ (digits_rep_matches exp 4 4 hed (by omega) (by omega)) m4
  have m2 := Matches.group (.lits eqSign capD) _ [[sp]] _ _
    (by rcases hsp with rfl | rfl; exact Or.inl rfl; exact Or.inr rfl) m3
  have m1 := Matches.group (.rep .digit 1 (some 19)) _ (pan.map single) _ _ (digits_rep_matches pan 1 19 hpd hpl.1 hpl.2) m2
  simpa [flatten_map_single, flatten_utf8Split] using m1

theorem track2_matches_groups (raw : Bytes) (caps : List Bytes) (h : MatchesText track2Pattern raw caps) :
    ∃ pan sep exp sc dd, caps = [pan, sep, exp, sc, dd] ∧ Track2.groups raw = some (pan, sep, exp, sc, dd) := by
  unfold MatchesText track2Pattern at h
  obtain ⟨p1, u1, c1, e1, rfl, hb1, h⟩ := h.group_inv
  obtain ⟨p2, u2, c2, rfl, rfl, hb2, h⟩ := h.group_inv
  obtain ⟨p3, u3, c3, rfl, rfl, hb3, h⟩ := h.group_inv
  obtain ⟨p4, u4, c4, rfl, rfl, hb4, h⟩ := h.group_inv
  obtain ⟨p5, u5, c5, rfl, rfl, hb5, h⟩ := h.group_inv
  obtain ⟨rfl, rfl⟩ := h.nil_inv
  refine ⟨_, _, _, _, _, rfl, ?_⟩
  have hraw : raw = p1.flatten ++ (p2.flatten ++ (p3.flatten ++ (p4.flatten ++ p5.flatten))) := by
    have := flatten_utf8Split raw
    rw [e1] at this
    simpa using this.symm
  have hmem5 : ∀ u ∈ p5, u ∈ utf8Split raw := by intro u hu; rw [e1]; simp [hu]
  obtain ⟨hd1, hl1, hh1⟩ := hb1
  obtain ⟨_, a2, a3⟩ := piece_of_singles dig p1 hd1
  obtain ⟨hd3, hl3, hh3⟩ := hb3
  obtain ⟨_, b2, b3⟩ := piece_of_singles dig p3 hd3
  obtain ⟨hd4, hl4, hh4⟩ := hb4
  obtain ⟨_, c2', c3'⟩ := piece_of_singles dig p4 hd4
  obtain ⟨hd5, hl5, _⟩ := hb5
  have h19 := hh1 19 rfl
  have h4 := hh3 4 rfl
  have h3 := hh4 3 rfl
  have hdd : dataOK p5.flatten = true := by
    rw [dataOK_iff]
    refine ⟨flatten_ne_nil p5 hl5 (fun u hu => utf8Split_ne_nil raw u (hmem5 u hu)), ?_⟩
    exact no_byte_of_no_unit p5 quest (by decide) (fun u hu => utf8Split_shape raw u (hmem5 u hu)) hd5
  obtain ⟨sp, hp2, hsp⟩ : ∃ sp, p2 = [[sp]] ∧ (sp = eqSign ∨ sp = capD) := by
    rcases hb2 with rfl | rfl
    · exact ⟨eqSign, rfl, Or.inl rfl⟩
    · exact ⟨capD, rfl, Or.inr rfl⟩
  subst hp2
  have := Track2.groups_concat p1.flatten p3.flatten p4.flatten p5.flatten sp (by omega) (by omega) a2 hsp
    (by omega) b2 (by omega) c2' hdd
  rw [hraw]
  simpa [List.append_assoc] using this

/-- **Track2: the pattern matches `raw` with groups `caps` iff the splitter returns them.** -/
theorem track2_pattern_iff (raw pan sep exp sc dd : Bytes) :
    MatchesText track2Pattern raw [pan, sep, exp, sc, dd] ↔ Track2.groups raw = some (pan, sep, exp, sc, dd) := by
  constructor
  · intro h
    obtain ⟨a, b, c, d, e, hc, hg⟩ := track2_matches_groups raw _ h
    simp only [List.cons.injEq, and_true] at hc
    obtain ⟨rfl, rfl, rfl, rfl, rfl⟩ := hc
    exact hg
  · exact track2_groups_matches raw pan sep exp sc dd

/-! ### Track 3 -/

theorem track3_groups_matches (raw fc pan dd : Bytes) (h : Track3.groups raw = some (fc, pan, dd)) :
    MatchesText track3Pattern raw [fc, pan, dd] := by
  obtain ⟨hraw, hfl, hfd, hpl, hpd, hdd⟩ := Track3.groups_sound raw fc pan dd h
  obtain ⟨hdne, hdq⟩ := (dataOK_iff dd).mp hdd
  have hsplit : utf8Split raw = fc.map single ++ (pan.map single ++ ([eqSign] :: (utf8Split dd ++ []))) := by
    rw [hraw]
    simp only [List.append_assoc]
    rw [utf8Split_digits fc _ hfd, utf8Split_digits pan _ hpd, utf8Split_ascii_cons eqSign _ (by decide)]
    simp
  unfold MatchesText track3Pattern
  rw [hsplit]
  have m3 := Matches.group (.rep (.neg quest true) 1 none) [] (utf8Split dd) [] [] (neg_rep_matches dd quest true hdne hdq) Matches.nil
  have ml := Matches.lit eqSign true _ _ _ m3
  have m2 := Matches.group (.rep .digit 1 (some 19)) _ (pan.map single) _ _ (digits_rep_matches pan 1 19 hpd hpl.1 hpl.2) ml
  have m1 := Matches.group (.rep .digit 2 (some 2)) _ (fc.map single) _ _ (digits_rep_matches fc 2 2 hfd (by omega) (by omega)) m2
  simpa [flatten_map_single, flatten_utf8Split] using m1

theorem track3_matches_groups (raw : Bytes) (caps : List Bytes) (h : MatchesText track3Pattern raw caps) :
    ∃ fc pan dd, caps = [fc, pan, dd] ∧ Track3.groups raw = some (fc, pan, dd) := by
  unfold MatchesText track3Pattern at h
  obtain ⟨p1, u1, c1, e1, rfl, hb1, m1⟩ := h.group_inv
  obtain ⟨p2, u2, c2, rfl, rfl, hb2, m2⟩ := m1.group_inv
  obtain ⟨u3, rfl, m3⟩ := m2.lit_inv
  obtain ⟨p3, u4, c4, rfl, rfl, hb3, m4⟩ := m3.group_inv
  obtain ⟨rfl, rfl⟩ := m4.nil_inv
  refine ⟨_, _, _, rfl, ?_⟩
  have hraw : raw = p1.flatten ++ (p2.flatten ++ (eqSign :: p3.flatten)) := by
    have := flatten_utf8Split raw
    rw [e1] at this
    simpa using this.symm
  have hmem : ∀ u ∈ p3, u ∈ utf8Split raw := by intro u hu; rw [e1]; simp [hu]
  obtain ⟨hd1, hl1, hh1⟩ := hb1
  obtain ⟨_, a2, a3⟩ := piece_of_singles dig p1 hd1
  obtain ⟨hd2, hl2, hh2⟩ := hb2
  obtain ⟨_, b2, b3⟩ := piece_of_singles dig p2 hd2
  obtain ⟨hd3, hl3, _⟩ := hb3
  have h2 := hh1 2 rfl
  have h19 := hh2 19 rfl
  have hdd : dataOK p3.flatten = true := by
    rw [dataOK_iff]
    refine ⟨flatten_ne_nil p3 hl3 (fun u hu => utf8Split_ne_nil raw u (hmem u hu)), ?_⟩
    exact no_byte_of_no_unit p3 quest (by decide) (fun u hu => utf8Split_shape raw u (hmem u hu)) hd3
  have := Track3.groups_concat p1.flatten p2.flatten p3.flatten (by omega) a2 (by omega) (by omega) b2 hdd
  rw [hraw]
  simpa [List.append_assoc] using this

/-- **Track3: the pattern matches `raw` with groups `caps` iff the splitter returns them.** -/
theorem track3_pattern_iff (raw fc pan dd : Bytes) :
    MatchesText track3Pattern raw [fc, pan, dd] ↔ Track3.groups raw = some (fc, pan, dd) := by
  constructor
  · intro h
    obtain ⟨a, b, c, hc, hg⟩ := track3_matches_groups raw _ h
    simp only [List.cons.injEq, and_true] at hc
    obtain ⟨rfl, rfl, rfl⟩ := hc
    exact hg
  · exact track3_groups_matches raw fc pan dd

/-! ### Track 1 -/

theorem sep_unique {α : Type} (s : α) : ∀ (a a' b b' : List α), a ++ s :: b = a' ++ s :: b' →
    s ∉ a → s ∉ a' → a = a' ∧ b = b' := by
  intro a
  induction a with
  | nil =>
    intro a' b b' h _ ha'
    cases a' with
    | nil => simp at h; exact ⟨rfl, h⟩
    | cons x xs =>
      simp only [List.nil_append, List.cons_append, List.cons.injEq] at h
      exact absurd (by rw [h.1]; simp) ha'
  | cons y ys ih =>
    intro a' b b' h ha ha'
    cases a' with
    | nil =>
      simp only [List.nil_append, List.cons_append, List.cons.injEq] at h
      exact absurd (by rw [← h.1]; simp) ha
    | cons x xs =>
      simp only [List.cons_append, List.cons.injEq] at h
      obtain ⟨rfl, h2⟩ := h
      obtain ⟨e1, e2⟩ := ih xs b b' h2 (fun hm => ha (by simp [hm])) (fun hm => ha' (by simp [hm]))
      exact ⟨by rw [e1], e2⟩

theorem slot_ascii {k : Nat} {x : Bytes} (h : Slot k x) : ∀ c ∈ x, c.toNat < 128 := by
  rcases h with rfl | ⟨_, hd⟩
  · intro c hc; simp at hc; subst hc; decide
  · intro c hc; exact dig_ascii ((List.all_eq_true.mp hd) c hc)

theorem slot_matches {k : Nat} {x : Bytes} (h : Slot k x) : (Body.repOrLit .digit k caret).matches (x.map single) := by
  rcases h with rfl | ⟨hl, hd⟩
  · exact Or.inr rfl
  · exact Or.inl ⟨singles_match dig x hd, by simpa using hl⟩

theorem slot_of_matches {k : Nat} {p : List Bytes} (h : (Body.repOrLit .digit k caret).matches p) :
    Slot k p.flatten ∧ p = p.flatten.map single := by
  rcases h with ⟨hd, hl⟩ | rfl
  · obtain ⟨a1, a2, a3⟩ := piece_of_singles dig p hd
    exact ⟨Or.inr ⟨by omega, a2⟩, a1⟩
  · exact ⟨Or.inl rfl, rfl⟩

theorem track1_groups_matches (raw fc pan name E C dd : Bytes)
    (h : Track1.groups raw = some (fc, pan, name, E, C, dd)) :
    MatchesText track1Pattern raw [fc, pan, name, E, C, dd] := by
  obtain ⟨c, rfl, hup, hraw, hpl, hpd, hnc, hnu, hE, hC, hdd⟩ := Track1.groups_sound raw fc pan name E C dd h
  obtain ⟨hdne, hdq⟩ := (dataOK_iff dd).mp hdd
  have hca : c.toNat < 128 := by simp [upper] at hup; omega
  have hnc' : ∀ x ∈ name, x ≠ caret := by
    intro x hx; have := (List.all_eq_true.mp hnc) x hx; simpa using this
  have hsplit : utf8Split raw = [[c]] ++ (pan.map single ++ ([caret] :: (utf8Split name ++
      ([caret] :: (E.map single ++ (C.map single ++ (utf8Split dd ++ []))))))) := by
    rw [hraw, utf8Split_ascii_cons c _ hca, utf8Split_digits pan _ hpd, utf8Split_ascii_cons caret _ (by decide),
      utf8Split_append_ascii name caret _ (by decide), utf8Split_ascii_run E _ (slot_ascii hE),
      utf8Split_ascii_run C _ (slot_ascii hC)]
    simp only [List.singleton_append, List.append_nil]
    rfl
  unfold MatchesText track1Pattern
  rw [hsplit]
  have m6 := Matches.group (.rep (.neg quest true) 1 none) [] (utf8Split dd) [] [] (neg_rep_matches dd quest true hdne hdq) Matches.nil
  have m5 := Matches.group (.repOrLit .digit 3 caret) _ (C.map single) _ _ (slot_matches hC) m6
  have m4 := Matches.group (.repOrLit .digit 4 caret) _ (E.map single) _ _ (slot_matches hE) m5
  have l2 := Matches.lit caret true _ _ _ m4
  have hname : (Body.rep (.neg caret true) 2 (some 26)).matches (utf8Split name) := by
    refine ⟨no_unit_of_no_byte name caret hnc', ?_, ?_⟩
    · rw [← utf8Count_eq]; exact hnu.1
    · intro h e; simp at e; subst e; rw [← utf8Count_eq]; exact hnu.2
  have m3 := Matches.group (.rep (.neg caret true) 2 (some 26)) _ (utf8Split name) _ _ hname l2
  have l1 := Matches.lit caret true _ _ _ m3
  have m2 := Matches.group (.rep .digit 1 (some 19)) _ (pan.map single) _ _ (digits_rep_matches pan 1 19 hpd hpl.1 hpl.2) l1
  have hfc : (Body.rep .upper 1 (some 1)).matches [[c]] := by
    refine ⟨?_, by simp, ?_⟩
    · intro u hu; simp at hu; subst hu; exact ⟨c, rfl, hup⟩
    · intro h e; simp at e; subst e; simp
  have m1 := Matches.group (.rep .upper 1 (some 1)) _ [[c]] _ _ hfc m2
  simpa [flatten_map_single, flatten_utf8Split] using m1

theorem track1_matches_groups (raw : Bytes) (caps : List Bytes) (h : MatchesText track1Pattern raw caps) :
    ∃ fc pan name E C dd, caps = [fc, pan, name, E, C, dd] ∧ Track1.groups raw = some (fc, pan, name, E, C, dd) := by
  unfold MatchesText track1Pattern at h
  obtain ⟨p1, u1, c1, e1, rfl, hb1, m1⟩ := h.group_inv
  obtain ⟨p2, u2, c2, rfl, rfl, hb2, m2⟩ := m1.group_inv
  obtain ⟨u3, rfl, m3⟩ := m2.lit_inv
  obtain ⟨p3, u4, c4, rfl, rfl, hb3, m4⟩ := m3.group_inv
  obtain ⟨u5, rfl, m5⟩ := m4.lit_inv
  obtain ⟨p4, u6, c6, rfl, rfl, hb4, m6⟩ := m5.group_inv
  obtain ⟨p5, u7, c7, rfl, rfl, hb5, m7⟩ := m6.group_inv
  obtain ⟨p6, u8, c8, rfl, rfl, hb6, m8⟩ := m7.group_inv
  obtain ⟨rfl, rfl⟩ := m8.nil_inv
  refine ⟨_, _, _, _, _, _, rfl, ?_⟩
  have hin : ∀ (q : List Bytes), (∀ u ∈ q, u ∈ utf8Split raw) → (∀ u ∈ q, UnitShape u) ∧ (∀ u ∈ q, u ≠ []) :=
    fun q hq => ⟨fun u hu => utf8Split_shape raw u (hq u hu), fun u hu => utf8Split_ne_nil raw u (hq u hu)⟩
  have hmem3 : ∀ u ∈ p3, u ∈ utf8Split raw := by intro u hu; rw [e1]; simp [hu]
  have hmem6 : ∀ u ∈ p6, u ∈ utf8Split raw := by intro u hu; rw [e1]; simp [hu]
  -- group 1: one upper-case letter
  obtain ⟨hd1, hl1, hh1⟩ := hb1
  have h1' := hh1 1 rfl
  obtain ⟨c, hp1, hup⟩ : ∃ c, p1 = [[c]] ∧ upper c = true := by
    match p1, hl1, h1', hd1 with
    | [u], _, _, hd =>
      obtain ⟨c, rfl, hc⟩ := hd u (by simp)
      exact ⟨c, rfl, hc⟩
  subst hp1
  have hca : c.toNat < 128 := by simp [upper] at hup; omega
  -- group 2: digits
  obtain ⟨hd2, hl2, hh2⟩ := hb2
  obtain ⟨a1, a2, a3⟩ := piece_of_singles dig p2 hd2
  have h19 := hh2 19 rfl
  -- groups 4, 5: slots
  obtain ⟨sE, eE⟩ := slot_of_matches hb4
  obtain ⟨sC, eC⟩ := slot_of_matches hb5
  -- group 6
  obtain ⟨hd6, hl6, _⟩ := hb6
  have hdd : dataOK p6.flatten = true := by
    rw [dataOK_iff]
    exact ⟨flatten_ne_nil p6 hl6 (hin p6 hmem6).2, no_byte_of_no_unit p6 quest (by decide) (hin p6 hmem6).1 hd6⟩
  -- group 3: the name
  obtain ⟨hd3, hl3, hh3⟩ := hb3
  have h26 := hh3 26 rfl
  have hnc : ∀ x ∈ p3.flatten, x ≠ caret := no_byte_of_no_unit p3 caret (by decide) (hin p3 hmem3).1 hd3
  have hraw : raw = c :: (p2.flatten ++ caret :: (p3.flatten ++ caret :: (p4.flatten ++ (p5.flatten ++ p6.flatten)))) := by
    have := flatten_utf8Split raw
    rw [e1] at this
    simpa using this.symm
  -- the name's code points are exactly the piece
  have hsplit : utf8Split raw = [[c]] ++ (p2.flatten.map single ++ ([caret] :: (utf8Split p3.flatten ++
      ([caret] :: utf8Split (p4.flatten ++ (p5.flatten ++ p6.flatten)))))) := by
    rw [hraw, utf8Split_ascii_cons c _ hca, utf8Split_digits p2.flatten _ a2,
      utf8Split_ascii_cons caret _ (by decide), utf8Split_append_ascii p3.flatten caret _ (by decide)]
    rfl
  have hp3 : p3 = utf8Split p3.flatten := by
    rw [e1, a1] at hsplit
    simp only [List.singleton_append, List.cons_append, List.nil_append, List.cons.injEq, true_and, List.append_nil,
      flatten_map_single] at hsplit
    have h' := List.append_cancel_left hsplit
    simp only [List.cons.injEq, true_and] at h'
    have hu1 : [caret] ∉ p3 := fun hm => hd3 _ hm rfl
    have hu2 : [caret] ∉ utf8Split p3.flatten := fun hm => no_unit_of_no_byte p3.flatten caret hnc _ hm rfl
    exact (sep_unique [caret] p3 (utf8Split p3.flatten) _ _ h' hu1 hu2).1
  have hcount : utf8Count p3.flatten = p3.length := by rw [utf8Count_eq, ← hp3]
  have hncb : p3.flatten.all (· != caret) = true := by
    rw [List.all_eq_true]; intro x hx; simpa using hnc x hx
  have := Track1.groups_concat c p2.flatten p3.flatten p4.flatten p5.flatten p6.flatten hup (by omega) (by omega) a2
    hncb (by omega) (by omega) sE sC hdd
  rw [hraw]
  simpa using this

/-- **Track1: the pattern matches `raw` with groups `caps` iff the splitter returns them.** -/
theorem track1_pattern_iff (raw fc pan name E C dd : Bytes) :
    MatchesText track1Pattern raw [fc, pan, name, E, C, dd] ↔
      Track1.groups raw = some (fc, pan, name, E, C, dd) := by
  constructor
  · intro h
    obtain ⟨a, b, c, d, e, f, hc, hg⟩ := track1_matches_groups raw _ h
    simp only [List.cons.injEq, and_true] at hc
    obtain ⟨rfl, rfl, rfl, rfl, rfl, rfl⟩ := hc
    exact hg
  · exact track1_groups_matches raw fc pan name E C dd

/-- a match, if there is one, is unique: the capture groups are determined by the text
(so `regexp`'s leftmost-first choice among alternatives is never exercised) -/
theorem track1_match_unique (raw : Bytes) (caps caps' : List Bytes)
    (h : MatchesText track1Pattern raw caps) (h' : MatchesText track1Pattern raw caps') : caps = caps' := by
  obtain ⟨a, b, c, d, e, f, rfl, hg⟩ := track1_matches_groups raw _ h
  obtain ⟨a', b', c', d', e', f', rfl, hg'⟩ := track1_matches_groups raw _ h'
  rw [hg] at hg'; simp only [Option.some.injEq, Prod.mk.injEq] at hg'
  obtain ⟨rfl, rfl, rfl, rfl, rfl, rfl⟩ := hg'; rfl

theorem track2_match_unique (raw : Bytes) (caps caps' : List Bytes)
    (h : MatchesText track2Pattern raw caps) (h' : MatchesText track2Pattern raw caps') : caps = caps' := by
  obtain ⟨a, b, c, d, e, rfl, hg⟩ := track2_matches_groups raw _ h
  obtain ⟨a', b', c', d', e', rfl, hg'⟩ := track2_matches_groups raw _ h'
  rw [hg] at hg'; simp only [Option.some.injEq, Prod.mk.injEq] at hg'
  obtain ⟨rfl, rfl, rfl, rfl, rfl⟩ := hg'; rfl

theorem track3_match_unique (raw : Bytes) (caps caps' : List Bytes)
    (h : MatchesText track3Pattern raw caps) (h' : MatchesText track3Pattern raw caps') : caps = caps' := by
  obtain ⟨a, b, c, rfl, hg⟩ := track3_matches_groups raw _ h
  obtain ⟨a', b', c', rfl, hg'⟩ := track3_matches_groups raw _ h'
  rw [hg] at hg'; simp only [Option.some.injEq, Prod.mk.injEq] at hg'
  obtain ⟨rfl, rfl, rfl⟩ := hg'; rfl

end Iso8583.TrackRegex
