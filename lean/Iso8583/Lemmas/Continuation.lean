/-
Data elements DEFINED at a continuation-bit position of an auto-expanding bitmap (65, 129, …
with 8-byte blocks): `Message.pack` and `Message.unpack` step over such ids
(`IsBitmapPresenceBit`), so the element never travels. Lemmas: Pack and Unpack of a spec equal
Pack and Unpack of the spec without those elements, on the content without them.
-/
import Iso8583.Model.Message

namespace Iso8583
open Bitmap

namespace Bitmap

theorem set_blockLen (bm : Bitmap) (n : Nat) : (bm.set n).blockLen = bm.blockLen := by
  unfold Bitmap.set; split
  · rfl
  · split
    · split <;> rfl
    · rfl

theorem set_auto' (bm : Bitmap) (n : Nat) : (bm.set n).auto = bm.auto := by
  unfold Bitmap.set; split
  · rfl
  · split
    · split <;> rfl
    · rfl

theorem isPresenceBit_set' (bm : Bitmap) (n i : Nat) : (bm.set n).isPresenceBit i = bm.isPresenceBit i := by
  simp [isPresenceBit, set_blockLen, set_auto']

theorem isPresenceBit_eq_of (a b : Bitmap) (h1 : a.blockLen = b.blockLen) (h2 : a.auto = b.auto) (i : Nat) :
    a.isPresenceBit i = b.isPresenceBit i := by simp [isPresenceBit, h1, h2]

end Bitmap

/-! ### insertion sort by id and filters on the id -/

abbrev idLt {α : Type} : (Nat × α) → (Nat × α) → Bool := fun a b => decide (a.1 < b.1)

def Nondec {α : Type} (l : List (Nat × α)) : Prop := l.Pairwise (fun a b => a.1 ≤ b.1)

theorem mem_insertSorted {α : Type} (less : α → α → Bool) (x y : α) (l : List α) :
    y ∈ insertSorted less x l ↔ y = x ∨ y ∈ l := by
  induction l with
  | nil => simp [insertSorted]
  | cons z zs ih =>
    simp only [insertSorted]
    split
    · simp
    · simp only [List.mem_cons, ih]
      constructor
      · rintro (h | h | h)
        · exact Or.inr (Or.inl h)
        · exact Or.inl h
        · exact Or.inr (Or.inr h)
      · rintro (h | h | h)
        · exact Or.inr (Or.inl h)
        · exact Or.inl h
        · exact Or.inr (Or.inr h)

theorem nondec_insertSorted {α : Type} (x : Nat × α) (l : List (Nat × α)) (h : Nondec l) :
    Nondec (insertSorted idLt x l) := by
  induction l with
  | nil => simp [insertSorted, Nondec]
  | cons y ys ih =>
    simp only [insertSorted]
    unfold Nondec at h ih ⊢
    rw [List.pairwise_cons] at h
    split
    · rename_i hlt
      have hlt' : x.1 < y.1 := by simpa using hlt
      rw [List.pairwise_cons]
      refine ⟨?_, List.pairwise_cons.mpr h⟩
      intro z hz
      rcases List.mem_cons.mp hz with rfl | hz
      · omega
      · have := h.1 z hz; omega
    · rename_i hlt
      have hge : y.1 ≤ x.1 := by
        have : ¬ x.1 < y.1 := by simpa using hlt
        omega
      rw [List.pairwise_cons]
      refine ⟨?_, ih h.2⟩
      intro z hz
      rcases (mem_insertSorted _ _ _ _).mp hz with rfl | hz
      · exact hge
      · exact h.1 z hz

theorem nondec_sortBy {α : Type} (l : List (Nat × α)) : Nondec (sortBy idLt l) := by
  induction l with
  | nil => simp [sortBy, Nondec]
  | cons x xs ih => exact nondec_insertSorted x _ ih

/-- on a list sorted by id, inserting and then filtering on the id = filtering and then inserting -/
theorem filter_insertSorted {α : Type} (q : Nat → Bool) (x : Nat × α) (l : List (Nat × α)) (h : Nondec l) :
    (insertSorted idLt x l).filter (fun p => q p.1) =
      if q x.1 then insertSorted idLt x (l.filter (fun p => q p.1)) else l.filter (fun p => q p.1) := by
  induction l with
  | nil => by_cases hq : q x.1 = true <;> simp [insertSorted, hq]
  | cons y ys ih =>
    unfold Nondec at h
    rw [List.pairwise_cons] at h
    simp only [insertSorted]
    by_cases hlt : idLt x y = true
    · rw [if_pos hlt]
      have hlt' : x.1 < y.1 := by simpa using hlt
      -- every element of y :: ys is greater than x: after filtering, x still goes in front
      have hall : ∀ z ∈ (y :: ys).filter (fun p => q p.1), idLt x z = true := by
        intro z hz
        have hz' := (List.mem_filter.mp hz).1
        rcases List.mem_cons.mp hz' with rfl | hz''
        · exact hlt
        · have := h.1 z hz''
          simp only [decide_eq_true_eq]; omega
      have hfront : ∀ (m : List (Nat × α)), (∀ z ∈ m, idLt x z = true) → insertSorted idLt x m = x :: m := by
        intro m hm
        cases m with
        | nil => rfl
        | cons a as => simp only [insertSorted]; rw [if_pos (hm a (by simp))]
      rw [hfront _ hall]
      by_cases hqx : q x.1 = true <;> simp [List.filter_cons, hqx]
    · rw [if_neg hlt]
      simp only [List.filter_cons]
      rw [ih h.2]
      by_cases hqy : q y.1 = true
      · simp only [hqy, if_true]
        by_cases hqx : q x.1 = true
        · simp only [hqx, if_true, insertSorted, if_neg hlt]
        · simp only [hqx]; rfl
      · simp only [hqy]
        by_cases hqx : q x.1 = true
        · simp only [hqx, if_true]; rfl
        · simp only [hqx]; rfl

theorem filter_sortBy {α : Type} (q : Nat → Bool) (l : List (Nat × α)) :
    (sortBy idLt l).filter (fun p => q p.1) = sortBy idLt (l.filter (fun p => q p.1)) := by
  induction l with
  | nil => rfl
  | cons x xs ih =>
    simp only [sortBy]
    rw [filter_insertSorted q x _ (nondec_sortBy xs), ih]
    simp only [List.filter_cons]
    split <;> simp [sortBy]

theorem lookupId_filter {α : Type} (q : Nat → Bool) (i : Nat) (hq : q i = true) :
    ∀ (l : List (Nat × α)), lookupId i (l.filter (fun p => q p.1)) = lookupId i l
  | [] => rfl
  | (k, v) :: rest => by
    simp only [List.filter_cons]
    by_cases hk : k = i
    · subst hk; simp [hq, lookupId]
    · by_cases hqk : q k = true
      · simp [hqk, lookupId, hk, lookupId_filter q i hq rest]
      · simp [hqk, lookupId, hk, lookupId_filter q i hq rest]

namespace MsgSpec

/-- id `i` is a continuation-bit position of the spec's bitmap -/
def isCont (spec : MsgSpec) (i : Nat) : Bool :=
  (Bitmap.reset spec.bitmap.specLen spec.bitmap.auto).isPresenceBit i

/-- the spec without the elements defined at continuation-bit positions -/
def dropContSpec (spec : MsgSpec) : MsgSpec :=
  { spec with fields := spec.fields.filter (fun p => !spec.isCont p.1) }

/-- the content without the elements at continuation-bit positions -/
def dropCont (spec : MsgSpec) (m : Msg) : Msg :=
  { m with fields := m.fields.filter (fun p => !spec.isCont p.1) }

theorem setBits_filter (ids : List Nat) (bm : Bitmap) :
    setBits ids bm = setBits (ids.filter (fun i => !bm.isPresenceBit i)) bm := by
  induction ids generalizing bm with
  | nil => rfl
  | cons i rest ih =>
    by_cases hp : bm.isPresenceBit i = true
    · simp only [List.filter_cons, hp, Bool.not_true, setBits, Bool.or_true, if_true]
      exact ih bm
    · have hp' : bm.isPresenceBit i = false := by simpa using hp
      simp only [List.filter_cons, hp', Bool.not_false, if_true, setBits, Bool.or_false]
      by_cases h2 : decide (i < 2) = true
      · simp only [h2, if_true]; exact ih bm
      · simp only [h2]
        by_cases h3 : (!(bm.set i).isSet i) = true
        · simp only [h3, if_true]
          rfl
        · simp only [h3]
          rw [ih (bm.set i)]
          have : (fun j => !(bm.set i).isPresenceBit j) = (fun j => !bm.isPresenceBit j) := by
            funext j; rw [Bitmap.isPresenceBit_set']
          rw [this]
          rfl

theorem packFields_filter (spec : MsgSpec) (bm : Bitmap) (l : List (Nat × Value)) :
    packFields spec bm l = packFields spec bm (l.filter (fun p => !bm.isPresenceBit p.1)) := by
  induction l with
  | nil => rfl
  | cons p rest ih =>
    obtain ⟨i, v⟩ := p
    by_cases hp : bm.isPresenceBit i = true
    · simp only [List.filter_cons, hp, Bool.not_true, packFields, if_true]
      exact ih
    · have hp' : bm.isPresenceBit i = false := by simpa using hp
      simp only [List.filter_cons, hp', Bool.not_false, if_true, packFields]
      rw [ih]

/-- looking a travelling id up in the spec without continuation elements -/
theorem lookup_dropContSpec (spec : MsgSpec) (i : Nat) (h : spec.isCont i = false) :
    lookupId i spec.dropContSpec.fields = lookupId i spec.fields :=
  lookupId_filter (fun j => !spec.isCont j) i (by simp [h]) spec.fields

theorem packFields_dropContSpec (spec : MsgSpec) (bm : Bitmap)
    (hbm : ∀ i, bm.isPresenceBit i = spec.isCont i) (l : List (Nat × Value)) :
    packFields spec.dropContSpec bm l = packFields spec bm l := by
  induction l with
  | nil => rfl
  | cons p rest ih =>
    obtain ⟨i, v⟩ := p
    simp only [packFields]
    by_cases hp : bm.isPresenceBit i = true
    · simp only [hp, if_true]; exact ih
    · have hp' : bm.isPresenceBit i = false := by simpa using hp
      simp only [hp']
      rw [lookup_dropContSpec spec i (by rw [← hbm]; exact hp'), ih]

theorem setBits_presence (ids : List Nat) (bm bm' : Bitmap) (h : setBits ids bm = .ok bm') (i : Nat) :
    bm'.isPresenceBit i = bm.isPresenceBit i := by
  induction ids generalizing bm with
  | nil => simp only [setBits, Res.ok.injEq] at h; rw [h]
  | cons j rest ih =>
    simp only [setBits] at h
    split at h
    · exact ih bm h
    · split at h
      · cases h
      · rw [ih (bm.set j) h, Bitmap.isPresenceBit_set']

/-- **Pack ignores elements at continuation-bit positions**: the bytes are those of the content
without them -/
theorem pack_dropCont (spec : MsgSpec) (m : Msg) : spec.pack m = spec.pack (spec.dropCont m) := by
  unfold pack
  have hs : sortBy (fun a b => decide (a.1 < b.1)) (spec.dropCont m).fields =
      (sortBy (fun a b => decide (a.1 < b.1)) m.fields).filter (fun p => !spec.isCont p.1) := by
    unfold dropCont
    exact (filter_sortBy (fun i => !spec.isCont i) m.fields).symm
  simp only [hs]
  have hb : ∀ (l : List (Nat × Value)),
      setBits (l.map (·.1)) (Bitmap.reset spec.bitmap.specLen spec.bitmap.auto) =
      setBits ((l.filter (fun p => !spec.isCont p.1)).map (·.1)) (Bitmap.reset spec.bitmap.specLen spec.bitmap.auto) := by
    intro l
    rw [setBits_filter, List.filter_map]
    rfl
  rw [← hb]
  have hmti : (spec.dropCont m).mti = m.mti := rfl
  rw [hmti]
  cases hsb : setBits ((sortBy (fun a b => decide (a.1 < b.1)) m.fields).map (·.1))
      (Bitmap.reset spec.bitmap.specLen spec.bitmap.auto) with
  | err => rfl
  | panic => rfl
  | ok bm =>
    have hbm : ∀ i, bm.isPresenceBit i = spec.isCont i := fun i => setBits_presence _ _ _ hsb i
    have hpf : packFields spec bm (sortBy (fun a b => decide (a.1 < b.1)) m.fields) =
        packFields spec bm ((sortBy (fun a b => decide (a.1 < b.1)) m.fields).filter (fun p => !spec.isCont p.1)) := by
      rw [packFields_filter]
      congr 1
      apply List.filter_congr
      intro p _
      rw [hbm]
    simp only [hpf]

/-- Pack under the spec without continuation elements is Pack under the spec -/
theorem pack_dropContSpec (spec : MsgSpec) (m : Msg) : spec.dropContSpec.pack m = spec.pack m := by
  unfold pack
  simp only [show spec.dropContSpec.bitmap = spec.bitmap from rfl, show spec.dropContSpec.mti = spec.mti from rfl]
  cases hsb : setBits ((sortBy (fun a b => decide (a.1 < b.1)) m.fields).map (·.1))
      (Bitmap.reset spec.bitmap.specLen spec.bitmap.auto) with
  | err => rfl
  | panic => rfl
  | ok bm =>
    have hbm : ∀ i, bm.isPresenceBit i = spec.isCont i := fun i => setBits_presence _ _ _ hsb i
    simp only [packFields_dropContSpec spec bm hbm]


theorem scan_dropContSpec (spec : MsgSpec) (bm : Bitmap) (hbm : ∀ i, bm.isPresenceBit i = spec.isCont i)
    (n i : Nat) (src : Bytes) (off : Nat) (acc : List (Nat × Value)) :
    scan spec.dropContSpec bm n i src off acc = scan spec bm n i src off acc := by
  induction n generalizing i off acc with
  | zero => rfl
  | succ n ih =>
    simp only [scan, ih]
    by_cases hp : bm.isPresenceBit i = true
    · simp only [hp, if_true]
    · have hp' : bm.isPresenceBit i = false := by simpa using hp
      simp only [hp']
      rw [lookup_dropContSpec spec i (by rw [← hbm]; exact hp')]

theorem bitmap_unpack_presence (enc : Enc) (pref : Pref) (bm bm' : Bitmap) (data : Bytes) (r : Nat)
    (h : Bitmap.unpack enc pref bm data = .ok (bm', r)) (i : Nat) :
    bm'.isPresenceBit i = bm.isPresenceBit i := by
  unfold Bitmap.unpack at h
  split at h
  · cases h
  · cases h
  · split at h
    · simp only [Res.ok.injEq, Prod.mk.injEq] at h
      rw [← h.1]
      rfl
    · cases h
    · cases h

/-- **Unpack never looks at elements defined at continuation-bit positions** -/
theorem unpack_dropContSpec (spec : MsgSpec) (src : Bytes) : spec.dropContSpec.unpack src = spec.unpack src := by
  unfold unpack
  simp only [show spec.dropContSpec.bitmap = spec.bitmap from rfl, show spec.dropContSpec.mti = spec.mti from rfl]
  cases spec.mti.unpack src with
  | err => rfl
  | panic => rfl
  | ok r =>
    obtain ⟨mtiV, read⟩ := r
    simp only []
    split
    · rfl
    · cases hb : Bitmap.unpack spec.bitmap.enc spec.bitmap.pref
          (Bitmap.reset spec.bitmap.specLen spec.bitmap.auto) (src.drop read) with
      | err => rfl
      | panic => rfl
      | ok r2 =>
        obtain ⟨bm, bread⟩ := r2
        have hbm : ∀ i, bm.isPresenceBit i = spec.isCont i := fun i => bitmap_unpack_presence _ _ _ _ _ _ hb i
        simp only [scan_dropContSpec spec bm hbm]

end MsgSpec
end Iso8583
