/-
Helper lemmas for C05 (bitmap): bit masks on bytes, `orAt`, `newBlocks`, the byte-level
description of `Bitmap.set`, hex text splitting, the `sortBy` permutation fact.
-/
import Iso8583.Model.Message
import Iso8583.Lemmas.Bytes
import Iso8583.Lemmas.Encoding

namespace Iso8583
namespace Bitmap

/-! ### masks on one byte -/

theorem byte_forall {P : Byte → Prop} (h : ∀ n, n < 256 → P (UInt8.ofNat n)) : ∀ x : Byte, P x := by
  intro x
  have := h x.toNat (byte_toNat_lt x)
  rwa [ofNat_toNat_self] at this

/-- the mask of bit `n` depends only on `(n-1) % 8` -/
theorem mask_eq (n : Nat) : mask n = UInt8.ofNat (2 ^ (7 - (n - 1) % 8)) := rfl

theorem or_mask_and_self : ∀ x : Byte, ∀ k, k < 8 →
    ((x ||| UInt8.ofNat (2 ^ (7 - k))) &&& UInt8.ofNat (2 ^ (7 - k))) ≠ 0 := by
  apply byte_forall
  decide +kernel

theorem or_mask_and_other : ∀ x : Byte, ∀ k, k < 8 → ∀ j, j < 8 → k ≠ j →
    ((x ||| UInt8.ofNat (2 ^ (7 - k))) &&& UInt8.ofNat (2 ^ (7 - j))) = x &&& UInt8.ofNat (2 ^ (7 - j)) := by
  apply byte_forall
  decide +kernel

theorem and_top_ne_zero_iff : ∀ x : Byte, ((x &&& 128) ≠ 0 ↔ 128 ≤ x.toNat) := by
  apply byte_forall
  decide +kernel

theorem or_top_ge : ∀ x : Byte, 128 ≤ (x ||| 128).toNat := by
  apply byte_forall
  decide +kernel

theorem or_low_mask_top : ∀ x : Byte, ∀ k, k < 8 → k ≠ 0 →
    (128 ≤ (x ||| UInt8.ofNat (2 ^ (7 - k))).toNat ↔ 128 ≤ x.toNat) := by
  apply byte_forall
  decide +kernel

/-- reading a bit with the mask = the binary digit of weight `2^(7-k)` -/
theorem and_mask_ne_zero_iff : ∀ x : Byte, ∀ k, k < 8 →
    ((x &&& UInt8.ofNat (2 ^ (7 - k))) ≠ 0 ↔ x.toNat / 2 ^ (7 - k) % 2 = 1) := by
  apply byte_forall
  decide +kernel

theorem zero_and (m : Byte) : (0 : Byte) &&& m = 0 := by
  revert m; apply byte_forall; decide +kernel

/-! ### `orAt`, `newBlocks` -/

theorem firstBitOn_eq : UInt8.ofNat Gen.firstBitOn = 128 := by decide

theorem orAt_length (d : Bytes) (i : Nat) (m : Byte) : (orAt d i m).length = d.length := by
  simp [orAt]

theorem getD_orAt (d : Bytes) (i j : Nat) (m : Byte) :
    (orAt d i m).getD j 0 = if j = i ∧ i < d.length then d.getD i 0 ||| m else d.getD j 0 := by
  simp only [orAt, List.getD_eq_getElem?_getD, List.getElem?_set]
  by_cases h1 : i = j
  · subst h1
    by_cases h2 : i < d.length
    · simp [h2]
    · simp [h2]
  · have : ¬ j = i := fun h => h1 h.symm
    simp [h1, this]

theorem getD_append_lt (a b : Bytes) (j : Nat) (h : j < a.length) : (a ++ b).getD j 0 = a.getD j 0 := by
  simp [List.getD_eq_getElem?_getD, List.getElem?_append_left h]

theorem getD_append_ge (a b : Bytes) (j : Nat) (h : a.length ≤ j) :
    (a ++ b).getD j 0 = b.getD (j - a.length) 0 := by
  simp [List.getD_eq_getElem?_getD, List.getElem?_append_right h]

theorem getD_ge (a : Bytes) (j : Nat) (h : a.length ≤ j) : a.getD j 0 = 0 := by
  simp [List.getD_eq_getElem?_getD, List.getElem?_eq_none h]

theorem getD_replicate_zero (n j : Nat) : (List.replicate n (0 : Byte)).getD j 0 = 0 := by
  simp only [List.getD_eq_getElem?_getD, List.getElem?_replicate]
  split <;> rfl

theorem newBlocks_length (bl : Nat) (h : 1 ≤ bl) : ∀ cnt, (newBlocks bl cnt).length = cnt * bl := by
  intro cnt
  induction cnt with
  | zero => simp [newBlocks]
  | succ c ih =>
    simp only [newBlocks, List.length_append, ih]
    split
    · simp only [List.length_cons, List.length_replicate, Nat.succ_mul]; omega
    · simp only [List.length_replicate, Nat.succ_mul]; omega

theorem getD_newBlocks (bl : Nat) (h : 1 ≤ bl) : ∀ cnt q r, r < bl →
    (newBlocks bl cnt).getD (q * bl + r) 0 = if r = 0 ∧ q + 1 < cnt then 128 else 0 := by
  intro cnt
  induction cnt with
  | zero => intro q r _; simp [newBlocks]
  | succ c ih =>
    intro q r hr
    simp only [newBlocks]
    cases q with
    | zero =>
      simp only [Nat.zero_mul, Nat.zero_add]
      split
      · rename_i hc
        rw [getD_append_lt _ _ _ (by simp; omega)]
        cases r with
        | zero => simp [firstBitOn_eq]; omega
        | succ r' => rw [List.getD_cons_succ, getD_replicate_zero]; simp
      · rename_i hc
        rw [getD_append_lt _ _ _ (by simp; omega)]
        rw [getD_replicate_zero]
        have : ¬ (r = 0 ∧ 0 + 1 < c + 1) := by omega
        rw [if_neg this]
    | succ q' =>
      have hlen : (if c + 1 > 1 then (UInt8.ofNat Gen.firstBitOn :: List.replicate (bl - 1) 0)
          else List.replicate bl 0).length = bl := by
        split <;> simp <;> omega
      rw [getD_append_ge _ _ _ (by rw [hlen, Nat.succ_mul]; omega), hlen]
      have : (q' + 1) * bl + r - bl = q' * bl + r := by rw [Nat.succ_mul]; omega
      rw [this, ih q' r hr]
      by_cases hc : r = 0 ∧ q' + 1 < c
      · have : r = 0 ∧ q' + 1 + 1 < c + 1 := by omega
        rw [if_pos hc, if_pos this]
      · have : ¬ (r = 0 ∧ q' + 1 + 1 < c + 1) := by omega
        rw [if_neg hc, if_neg this]

/-! ### reading bits -/

/-- raw read of bit `m ≥ 1` of a byte string, MSB first; bytes beyond the end read as 0 -/
def bit (d : Bytes) (m : Nat) : Bool := (d.getD ((m - 1) / 8) 0 &&& mask m) != 0

theorem bit_beyond (d : Bytes) (m : Nat) (h : d.length * 8 < m) : bit d m = false := by
  unfold bit
  rw [getD_ge _ _ (by omega), zero_and]; rfl

theorem isSet_eq_bit (bm : Bitmap) (m : Nat) (hm : 1 ≤ m) : bm.isSet m = bit bm.data m := by
  unfold isSet
  split
  · rename_i h
    have : bm.data.length * 8 < m := by omega
    rw [bit_beyond _ _ this]
  · rfl

theorem isSet_zero (bm : Bitmap) : bm.isSet 0 = false := by simp [isSet]

theorem bit_append_lt (a b : Bytes) (m : Nat) (h : (m - 1) / 8 < a.length) : bit (a ++ b) m = bit a m := by
  unfold bit; rw [getD_append_lt _ _ _ h]

theorem bit_orAt_mask (d : Bytes) (n m : Nat) (hn : 1 ≤ n) (hm : 1 ≤ m) (hi : (n - 1) / 8 < d.length) :
    bit (orAt d ((n - 1) / 8) (mask n)) m = (decide (m = n) || bit d m) := by
  unfold bit
  rw [getD_orAt]
  by_cases h1 : (m - 1) / 8 = (n - 1) / 8
  · rw [if_pos ⟨h1, hi⟩]
    by_cases h2 : (m - 1) % 8 = (n - 1) % 8
    · have : m = n := by omega
      subst this
      have := or_mask_and_self (d.getD ((m - 1) / 8) 0) ((m - 1) % 8) (by omega)
      rw [show decide (m = m) = true from by simp, Bool.true_or]
      simp only [mask_eq, bne_iff_ne]
      exact this
    · have hne : ¬ m = n := by intro h; subst h; exact h2 rfl
      have := or_mask_and_other (d.getD ((n - 1) / 8) 0) ((n - 1) % 8) (by omega) ((m - 1) % 8) (by omega)
        (fun h => h2 h.symm)
      simp only [mask_eq, this, h1, hne, decide_false, Bool.false_or]
  · have hne : ¬ m = n := by intro h; subst h; exact h1 rfl
    rw [if_neg (fun h => h1 h.1)]
    simp [hne]

theorem top_and_mask : ∀ k, k < 8 → (((128 : Byte) &&& UInt8.ofNat (2 ^ (7 - k))) ≠ 0 ↔ k = 0) := by
  decide

/-! ### `set`, case by case -/

theorem set_zero (bm : Bitmap) : bm.set 0 = bm := by simp [set]

theorem set_data_inrange (bm : Bitmap) (n : Nat) (hn : 1 ≤ n) (hr : n ≤ bm.data.length * 8) :
    bm.set n = { bm with data := orAt bm.data ((n - 1) / 8) (mask n) } := by
  have h1 : ¬ n = 0 := by omega
  have h2 : ¬ n > bm.data.length * 8 := by omega
  simp [set, h1, h2]

theorem set_fixed_beyond (bm : Bitmap) (n : Nat) (ha : bm.auto = false) (hr : n > bm.data.length * 8) :
    bm.set n = bm := by
  have h1 : ¬ n = 0 := by omega
  simp [set, h1, hr, ha]

theorem set_data_expand (bm : Bitmap) (n : Nat) (ha : bm.auto = true) (hr : n > bm.data.length * 8) :
    bm.set n = { bm with data := (orAt (orAt bm.data (bm.data.length - bm.blockLen) 128 ++
          newBlocks bm.blockLen ((n - 1) / (bm.blockLen * 8) + 1 - bm.data.length / bm.blockLen))
        ((n - 1) / 8) (mask n)) } := by
  have h1 : ¬ n = 0 := by omega
  simp [set, h1, hr, ha, firstBitOn_eq]

/-- arithmetic of the expansion: with `k` old blocks and `n` beyond them, the new block
count `N = (n-1)/(bl*8) + 1` exceeds `k`, and byte `(n-1)/8` lies inside `N` blocks -/
theorem expand_arith (bl k n : Nat) (hbl : 1 ≤ bl) (hr : n > k * bl * 8) :
    k ≤ (n - 1) / (bl * 8) ∧ (n - 1) / 8 < ((n - 1) / (bl * 8) + 1) * bl := by
  have hB : 0 < bl * 8 := by omega
  constructor
  · rw [Nat.le_div_iff_mul_le hB, ← Nat.mul_assoc]; omega
  · rw [Nat.div_lt_iff_lt_mul (by omega)]
    have := Nat.lt_mul_div_succ (n - 1) hB
    rw [Nat.mul_comm] at this
    rw [Nat.mul_assoc]; exact this


theorem getD_newBlocks' (bl : Nat) (h : 1 ≤ bl) (cnt t : Nat) :
    (newBlocks bl cnt).getD t 0 = if t % bl = 0 ∧ t / bl + 1 < cnt then 128 else 0 := by
  have := getD_newBlocks bl h cnt (t / bl) (t % bl) (Nat.mod_lt _ (by omega))
  have e : t / bl * bl + t % bl = t := by rw [Nat.mul_comm]; exact Nat.div_add_mod t bl
  rw [e] at this; exact this

theorem orAt_top (d : Bytes) (i : Nat) : orAt d i 128 = orAt d ((i * 8 + 1 - 1) / 8) (mask (i * 8 + 1)) := by
  have h1 : (i * 8 + 1 - 1) / 8 = i := by omega
  have h2 : (i * 8 + 1 - 1) % 8 = 0 := by omega
  rw [h1, mask_eq, h2]; rfl

theorem bit_set_expand (bm : Bitmap) (n k : Nat) (hbl : 1 ≤ bm.blockLen) (hk : 1 ≤ k)
    (hlen : bm.data.length = k * bm.blockLen) (ha : bm.auto = true) (hr : n > bm.data.length * 8)
    (m : Nat) (hm : 1 ≤ m) :
    bit (bm.set n).data m = true ↔
      m = n ∨ bit bm.data m = true ∨
      ∃ b, k ≤ b + 1 ∧ b < (n - 1) / (bm.blockLen * 8) ∧ m = b * (bm.blockLen * 8) + 1 := by
  rw [set_data_expand bm n ha hr]
  simp only
  generalize hbl' : bm.blockLen = bl at *
  have hkdiv : bm.data.length / bl = k := by rw [hlen]; exact Nat.mul_div_cancel k (by omega)
  rw [hkdiv]
  obtain ⟨hkN, hidx⟩ := expand_arith bl k n hbl (by rw [← hlen]; exact hr)
  generalize hQ : (n - 1) / (bl * 8) = Q at *
  have hblk : bl ≤ k * bl := Nat.le_mul_of_pos_left bl (by omega)
  have hd1len : (orAt bm.data (bm.data.length - bl) 128).length = k * bl := by rw [orAt_length, hlen]
  have hnb : (newBlocks bl (Q + 1 - k)).length = (Q + 1 - k) * bl := newBlocks_length bl hbl _
  have hd2len : (orAt bm.data (bm.data.length - bl) 128 ++ newBlocks bl (Q + 1 - k)).length = (Q + 1) * bl := by
    rw [List.length_append, hd1len, hnb, ← Nat.add_mul]; congr 1; omega
  rw [bit_orAt_mask _ n m (by omega) hm (by rw [hd2len]; exact hidx)]
  simp only [Bool.or_eq_true, decide_eq_true_eq]
  apply or_congr Iff.rfl
  by_cases hj : (m - 1) / 8 < k * bl
  · rw [bit_append_lt _ _ _ (by rw [hd1len]; exact hj)]
    rw [orAt_top, bit_orAt_mask _ _ m (by omega) hm (by omega)]
    simp only [Bool.or_eq_true, decide_eq_true_eq]
    have hcEq : (k - 1) * (bl * 8) = (bm.data.length - bl) * 8 := by
      rw [← Nat.mul_assoc, Nat.sub_mul, hlen]; omega
    constructor
    · rintro (h | h)
      · exact Or.inr ⟨k - 1, by omega, by omega, by rw [hcEq]; exact h⟩
      · exact Or.inl h
    · rintro (h | ⟨b, hb1, hb2, hb3⟩)
      · exact Or.inr h
      · left
        have : (m - 1) / 8 = b * bl := by rw [hb3, ← Nat.mul_assoc]; omega
        rw [this] at hj
        have hbk : b < k := Nat.lt_of_mul_lt_mul_right hj
        have : b = k - 1 := by omega
        rw [hb3, this, hcEq]
  · have hbeyond : bit bm.data m = false := bit_beyond _ _ (by rw [hlen]; omega)
    rw [hbeyond]
    simp only [Bool.false_eq_true, false_or]
    unfold bit
    rw [getD_append_ge _ _ _ (by rw [hd1len]; omega), hd1len, getD_newBlocks' bl hbl]
    constructor
    · intro h
      split at h
      · rename_i hc
        obtain ⟨hc1, hc2⟩ := hc
        have hm8 : (m - 1) % 8 = 0 := by
          have := (top_and_mask ((m - 1) % 8) (by omega)).mp (by simpa [mask_eq] using h)
          exact this
        generalize ht : (m - 1) / 8 - k * bl = t at *
        have e : bl * (t / bl) + t % bl = t := Nat.div_add_mod t bl
        generalize hq : t / bl = q at *
        refine ⟨k + q, by omega, by omega, ?_⟩
        rw [← Nat.mul_assoc, Nat.add_mul, Nat.mul_comm q bl]
        omega
      · rw [zero_and] at h; simp at h
    · rintro ⟨b, hb1, hb2, hb3⟩
      have hj' : (m - 1) / 8 = b * bl := by rw [hb3, ← Nat.mul_assoc]; omega
      have hm8 : (m - 1) % 8 = 0 := by rw [hb3, ← Nat.mul_assoc]; omega
      rw [hj'] at hj ⊢
      have hkb : k ≤ b := by
        have : k * bl ≤ b * bl := by omega
        exact Nat.le_of_mul_le_mul_right this (by omega)
      have ht : b * bl - k * bl = (b - k) * bl := by rw [Nat.sub_mul]
      rw [ht, Nat.mul_mod_left, Nat.mul_div_cancel _ (by omega : 0 < bl)]
      have : (0 = 0 ∧ b - k + 1 < Q + 1 - k) := by omega
      rw [if_pos this, mask_eq, hm8]
      decide


theorem set_length_expand (bm : Bitmap) (n k : Nat) (hbl : 1 ≤ bm.blockLen)
    (hlen : bm.data.length = k * bm.blockLen) (ha : bm.auto = true) (hr : n > bm.data.length * 8) :
    (bm.set n).data.length = ((n - 1) / (bm.blockLen * 8) + 1) * bm.blockLen := by
  rw [set_data_expand bm n ha hr]
  simp only
  generalize hbl' : bm.blockLen = bl at *
  have hkdiv : bm.data.length / bl = k := by rw [hlen]; exact Nat.mul_div_cancel k (by omega)
  obtain ⟨hkN, _⟩ := expand_arith bl k n hbl (by rw [← hlen]; exact hr)
  rw [orAt_length, List.length_append, orAt_length, newBlocks_length bl hbl, hkdiv, hlen, ← Nat.add_mul]
  congr 1; omega

theorem bit_set_inrange (bm : Bitmap) (n : Nat) (hn : 1 ≤ n) (hr : n ≤ bm.data.length * 8)
    (m : Nat) (hm : 1 ≤ m) :
    bit (bm.set n).data m = (decide (m = n) || bit bm.data m) := by
  rw [set_data_inrange bm n hn hr]
  exact bit_orAt_mask _ n m hn hm (by omega)

theorem set_blockLen (bm : Bitmap) (n : Nat) : (bm.set n).blockLen = bm.blockLen := by
  unfold set
  split
  · rfl
  · split
    · split <;> rfl
    · rfl

theorem set_auto (bm : Bitmap) (n : Nat) : (bm.set n).auto = bm.auto := by
  unfold set
  split
  · rfl
  · split
    · split <;> rfl
    · rfl

/-- the top bit of byte `b*bl` is bit number `b*(bl*8)+1` -/
theorem top_iff_bit (d : Bytes) (bl b : Nat) :
    128 ≤ (d.getD (b * bl) 0).toNat ↔ bit d (b * (bl * 8) + 1) = true := by
  unfold bit
  have h1 : (b * (bl * 8) + 1 - 1) / 8 = b * bl := by rw [← Nat.mul_assoc]; omega
  have h2 : (b * (bl * 8) + 1 - 1) % 8 = 0 := by rw [← Nat.mul_assoc]; omega
  rw [h1, mask_eq, h2, ← and_top_ne_zero_iff]
  simp

/-- a continuation position is never the position of a non-continuation index -/
theorem cont_mod (bl b : Nat) (hbl : 1 ≤ bl) : (b * (bl * 8) + 1) % (bl * 8) = 1 := by
  rw [Nat.mul_comm b, Nat.mul_add_mod]
  exact Nat.mod_eq_of_lt (by omega)

theorem cont_inj (bl b b' : Nat) (hbl : 1 ≤ bl) (h : b * (bl * 8) + 1 = b' * (bl * 8) + 1) : b = b' := by
  have : b * (bl * 8) = b' * (bl * 8) := by omega
  exact Nat.eq_of_mul_eq_mul_right (by omega) this

/-! ### invariants -/

/-- the data of a bitmap is a positive number of whole blocks -/
def Inv (bm : Bitmap) : Prop := 1 ≤ bm.blockLen ∧ ∃ k, 1 ≤ k ∧ bm.data.length = k * bm.blockLen

/-- `data` is a chain of exactly `k ≥ 1` blocks of `bl` bytes: the first byte of each of the
first `k-1` blocks has its top bit set, that of the `k`-th block has it clear -/
def IsChain (bl k : Nat) (data : Bytes) : Prop :=
  1 ≤ k ∧ data.length = k * bl ∧ ∀ b, b < k → (128 ≤ (data.getD (b * bl) 0).toNat ↔ b + 1 < k)

theorem blockLenOf_pos (specLen : Nat) : 1 ≤ blockLenOf specLen := by
  unfold blockLenOf
  split
  · decide
  · omega

/-! ### chains -/
open Enc in
section

theorem getD_drop (d : Bytes) (i j : Nat) : (d.drop i).getD j 0 = d.getD (i + j) 0 := by
  simp [List.getD_eq_getElem?_getD, List.getElem?_drop]

theorem getD_take (d : Bytes) (i j : Nat) (h : j < i) : (d.take i).getD j 0 = d.getD j 0 := by
  simp [List.getD_eq_getElem?_getD, h]

theorem isChain_one (bl : Nat) (data : Bytes) (h : IsChain bl 1 data) :
    data.length = bl ∧ (data.getD 0 0).toNat < 128 := by
  obtain ⟨_, h2, h3⟩ := h
  have := h3 0 (by omega)
  simp only [Nat.zero_mul] at this
  refine ⟨by omega, ?_⟩
  by_cases h128 : 128 ≤ (data.getD 0 0).toNat
  · have := this.mp h128; omega
  · omega

theorem isChain_succ (bl k : Nat) (data : Bytes) (h : IsChain bl (k + 2) data) :
    bl ≤ data.length ∧ 128 ≤ (data.getD 0 0).toNat ∧ IsChain bl (k + 1) (data.drop bl) := by
  obtain ⟨_, h2, h3⟩ := h
  have h0 := h3 0 (by omega)
  simp only [Nat.zero_mul] at h0
  have hle : bl ≤ data.length := by rw [h2, Nat.add_mul]; omega
  refine ⟨hle, h0.mpr (by omega), by omega, ?_, ?_⟩
  · rw [List.length_drop, h2, Nat.add_mul (k + 1) 1 bl]; omega
  · intro b hb
    have := h3 (b + 1) (by omega)
    rw [getD_drop, Nat.add_comm bl, ← Nat.succ_mul]
    rw [this]; omega

/-! ### hex text of several blocks -/

theorem hexDecode_take_drop : ∀ (j : Nat) (cs bs : Bytes), hexDecode cs = some bs →
    hexDecode (cs.take (2 * j)) = some (bs.take j) ∧ hexDecode (cs.drop (2 * j)) = some (bs.drop j) := by
  intro j
  induction j with
  | zero => intro cs bs h; simpa [hexDecode] using h
  | succ j ih =>
    intro cs bs h
    match cs, h with
    | [], h =>
      simp only [hexDecode, Option.some.injEq] at h; subst h
      simp [hexDecode]
    | [_], h => simp [hexDecode] at h
    | c1 :: c2 :: rest, h =>
      simp only [hexDecode] at h
      cases h1 : hexVal? c1 with
      | none => simp [h1] at h
      | some v1 =>
        cases h2 : hexVal? c2 with
        | none => simp [h1, h2] at h
        | some v2 =>
          cases h3 : hexDecode rest with
          | none => simp [h1, h2, h3] at h
          | some bs' =>
            simp only [h1, h2, h3, Option.some.injEq] at h
            subst h
            obtain ⟨i1, i2⟩ := ih rest bs' h3
            have e : 2 * (j + 1) = 2 * j + 1 + 1 := by omega
            rw [e]
            simp only [List.take_succ_cons, List.drop_succ_cons, hexDecode, h1, h2, i1, i2]
            exact ⟨trivial, trivial⟩


end
/-! ### `sortBy` is a permutation (membership) -/

theorem mem_insertSorted {α : Type} (less : α → α → Bool) (x y : α) : ∀ l, y ∈ insertSorted less x l ↔ y = x ∨ y ∈ l := by
  intro l
  induction l with
  | nil => simp [insertSorted]
  | cons z zs ih =>
    simp only [insertSorted]
    split
    · simp
    · simp only [List.mem_cons, ih]
      constructor
      · rintro (h | h | h)
        · exact Or.inr (Or.inl h)
        · exact Or.inl h
        · exact Or.inr (Or.inr h)
      · rintro (h | h | h)
        · exact Or.inr (Or.inl h)
        · exact Or.inl h
        · exact Or.inr (Or.inr h)

theorem mem_sortBy {α : Type} (less : α → α → Bool) (y : α) : ∀ l, y ∈ sortBy less l ↔ y ∈ l := by
  intro l
  induction l with
  | nil => simp [sortBy]
  | cons x xs ih => simp only [sortBy, mem_insertSorted, ih, List.mem_cons]


end Bitmap
end Iso8583
