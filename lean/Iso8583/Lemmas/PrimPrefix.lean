/-
C19 at the primitive layer: `Unpack` looks only at the bytes it consumes
(`prim_unpack_prefix_independent`), and every strict prefix of a packed field fails to
unpack — an error, never a value, never a panic (`prim_strict_prefix_fails`): either the
length prefix is cut (C06 `dec_fails_short` / `ber_fails_short`) or the value is (C07
`decode_short`).
-/
import Iso8583.Lemmas.Prim

namespace Iso8583
open Enc

/-! ## The value decoders read a prefix of their input -/

/-- `Decode` depends only on the `needed e m` bytes it reads (and on their being there) -/
theorem decodeNat_append (e : Enc) (he : e ≠ .berTag) (B X Y : Bytes) (m : Nat)
    (hB : B.length = C07.needed e m) : Enc.decodeNat e (B ++ X) m = Enc.decodeNat e (B ++ Y) m := by
  cases e with
  | berTag => exact absurd rfl he
  | ascii =>
    simp only [C07.needed] at hB
    have h1 : ¬ (B ++ X).length < m := by simp; omega
    have h2 : ¬ (B ++ Y).length < m := by simp; omega
    simp only [Enc.decodeNat, h1, h2, ite_false, List.take_left' hB]
  | ebcdic =>
    simp only [C07.needed] at hB
    have h1 : ¬ (B ++ X).length < m := by simp; omega
    have h2 : ¬ (B ++ Y).length < m := by simp; omega
    simp only [Enc.decodeNat, h1, h2, ite_false, List.take_left' hB]
  | ebcdic1047 =>
    simp only [C07.needed] at hB
    have h1 : ¬ (B ++ X).length < m := by simp; omega
    have h2 : ¬ (B ++ Y).length < m := by simp; omega
    simp only [Enc.decodeNat, h1, h2, ite_false, List.take_left' hB]
  | binary =>
    simp only [C07.needed] at hB
    have h1 : ¬ m > (B ++ X).length := by simp; omega
    have h2 : ¬ m > (B ++ Y).length := by simp; omega
    simp only [Enc.decodeNat, h1, h2, ite_false, List.take_left' hB]
  | hexToBytes =>
    simp only [C07.needed] at hB
    have h1 : ¬ m > (B ++ X).length := by simp; omega
    have h2 : ¬ m > (B ++ Y).length := by simp; omega
    simp only [Enc.decodeNat, h1, h2, ite_false, List.take_left' hB]
  | bcd =>
    simp only [C07.needed] at hB
    have h1 : ¬ (B ++ X).length < m / 2 + m % 2 := by simp; omega
    have h2 : ¬ (B ++ Y).length < m / 2 + m % 2 := by simp; omega
    simp only [Enc.decodeNat, h1, h2, ite_false, List.take_left' hB]
  | lbcd =>
    simp only [C07.needed] at hB
    have h1 : ¬ (B ++ X).length < m / 2 + m % 2 := by simp; omega
    have h2 : ¬ (B ++ Y).length < m / 2 + m % 2 := by simp; omega
    simp only [Enc.decodeNat, h1, h2, ite_false, List.take_left' hB]
  | bytesToHex =>
    simp only [C07.needed] at hB
    have h1 : ¬ m > (B ++ X).length / 2 := by simp; omega
    have h2 : ¬ m > (B ++ Y).length / 2 := by simp; omega
    simp only [Enc.decodeNat, h1, h2, ite_false, List.take_left' hB]

theorem berTagMore_append : ∀ (B X Y : Bytes), berTagMore (B ++ X) = some B.length →
    berTagMore (B ++ Y) = some B.length := by
  intro B
  induction B with
  | nil =>
    intro X Y h
    have := (berTagMore_le _ _ h).1
    simp at this
  | cons b B ih =>
    intro X Y h
    simp only [List.cons_append, berTagMore] at h ⊢
    split at h
    · rename_i hb
      simp only [hb, ite_true]
      exact h
    · rename_i hb
      simp only [hb, ite_false]
      cases hm : berTagMore (B ++ X) with
      | none => rw [hm] at h; cases h
      | some j =>
        rw [hm] at h
        simp only [Option.map_some, Option.some.injEq, List.length_cons] at h
        have hj : j = B.length := by omega
        subst hj
        rw [ih X Y hm]
        rfl

theorem decodeNat_berTag_append (B X Y v : Bytes) (m m' : Nat)
    (h : Enc.decodeNat .berTag (B ++ X) m = .ok (v, B.length)) :
    Enc.decodeNat .berTag (B ++ Y) m' = .ok (v, B.length) := by
  simp only [Enc.decodeNat] at h ⊢
  cases hk : berTagLen (B ++ X) with
  | none => rw [hk] at h; cases h
  | some k =>
    rw [hk] at h
    simp only [Res.ok.injEq, Prod.mk.injEq] at h
    obtain ⟨hv, rfl⟩ := h
    have hk' : berTagLen (B ++ Y) = some B.length := by
      cases B with
      | nil =>
        cases X with
        | nil => simp [berTagLen] at hk
        | cons x X =>
          simp only [List.nil_append, berTagLen] at hk
          split at hk
          · cases hm : berTagMore X with
            | none => rw [hm] at hk; cases hk
            | some j => rw [hm] at hk; simp at hk
          · simp at hk
      | cons b B =>
        simp only [List.cons_append, berTagLen] at hk ⊢
        split at hk
        · rename_i hb
          simp only [hb, ite_true]
          cases hm : berTagMore (B ++ X) with
          | none => rw [hm] at hk; cases hk
          | some j =>
            rw [hm] at hk
            simp only [Option.map_some, Option.some.injEq, List.length_cons] at hk
            have hj : j = B.length := by omega
            subst hj
            rw [berTagMore_append B X Y hm]
            rfl
        · rename_i hb
          simp only [hb, ite_false]
          exact hk
    rw [hk']
    simp only [Res.ok.injEq, Prod.mk.injEq, and_true]
    rw [← hv, List.take_left' rfl, List.take_left' rfl]

/-- a successful `Decode` that consumed `B` succeeds identically whatever follows `B` -/
theorem decode_append_indep (e : Enc) (B X Y v : Bytes) (n : Int)
    (h : Enc.decode e (B ++ X) n = .ok (v, B.length)) : Enc.decode e (B ++ Y) n = .ok (v, B.length) := by
  by_cases he : e = .berTag
  · subst he
    cases n with
    | ofNat m => exact decodeNat_berTag_append B X Y v m m h
    | negSucc m =>
      simp only [Enc.decode, ite_true] at h ⊢
      exact decodeNat_berTag_append B X Y v 0 0 h
  · obtain ⟨m, rfl, hm⟩ := C07.decode_ok_nonneg e _ v n _ he h
    have hr := (C07.decode_ok_sound e _ v m _ he hm).1
    rw [Enc.decode_natCast] at h ⊢
    rw [← decodeNat_append e he B X Y m hr]
    exact h

/-- fewer bytes than `Decode` consumed are not enough: `err` -/
theorem decode_cut_fails (e : Enc) (he : e ≠ .berTag) (B X v : Bytes) (n : Int) (o : Nat)
    (h : Enc.decode e (B ++ X) n = .ok (v, B.length)) (ho : o < B.length) :
    Enc.decode e (B.take o) n = .err := by
  obtain ⟨m, rfl, hm⟩ := C07.decode_ok_nonneg e _ v n _ he h
  have hr := (C07.decode_ok_sound e _ v m _ he hm).1
  apply C07.decode_short e _ m he
  rw [List.length_take]; omega

/-! ## The prefixers read a prefix of their input -/

/-- a successful `DecodeLength` that consumed `A` succeeds identically whatever follows `A` -/
theorem decodeLength_append_indep (p : Pref) (hp : p ≠ .none) (maxLen : Nat) (A X Y : Bytes) (n : Nat)
    (h : p.decodeLength maxLen (A ++ X) = .ok (n, A.length)) :
    p.decodeLength maxLen (A ++ Y) = .ok (n, A.length) := by
  have hw := (C06.dec_range p maxLen (A ++ X)).2 n A.length h
  cases p with
  | none => exact absurd rfl hp
  | fixed f => simpa [Pref.decodeLength] using h
  | var f d =>
    have hA : A.length = C06.width (.var f d) := hw.2.2.2 (by simp)
    cases f with
    | ascii =>
      simp only [C06.width] at hA
      have h1 : ¬ (A ++ X).length < d := by simp; omega
      have h2 : ¬ (A ++ Y).length < d := by simp; omega
      simp only [Pref.decodeLength, h1, h2, ite_false, List.take_left' hA] at h ⊢
      exact h
    | ebcdic =>
      simp only [C06.width] at hA
      have h1 : ¬ (A ++ X).length < d := by simp; omega
      have h2 : ¬ (A ++ Y).length < d := by simp; omega
      simp only [Pref.decodeLength, h1, h2, ite_false, List.take_left' hA] at h ⊢
      exact h
    | ebcdic1047 =>
      simp only [C06.width] at hA
      have h1 : ¬ (A ++ X).length < d := by simp; omega
      have h2 : ¬ (A ++ Y).length < d := by simp; omega
      simp only [Pref.decodeLength, h1, h2, ite_false, List.take_left' hA] at h ⊢
      exact h
    | binary =>
      simp only [C06.width] at hA
      have h1 : ¬ (A ++ X).length < d := by simp; omega
      have h2 : ¬ (A ++ Y).length < d := by simp; omega
      simp only [Pref.decodeLength, h1, h2, ite_false, List.take_left' hA] at h ⊢
      exact h
    | bcd =>
      simp only [C06.width] at hA
      have h1 : ¬ (A ++ X).length < (d + 1) / 2 := by simp; omega
      have h2 : ¬ (A ++ Y).length < (d + 1) / 2 := by simp; omega
      simp only [Pref.decodeLength, h1, h2, ite_false, List.take_left' hA] at h ⊢
      exact h
    | hex =>
      simp only [C06.width] at hA
      have h1 : ¬ (A ++ X).length < 2 * d := by simp; omega
      have h2 : ¬ (A ++ Y).length < 2 * d := by simp; omega
      simp only [Pref.decodeLength, h1, h2, ite_false, List.take_left' hA] at h ⊢
      exact h
  | berTLV =>
    cases A with
    | nil =>
      have := (hw.2.2.1 rfl).2
      simp at this
    | cons first A' =>
      simp only [List.cons_append, Pref.decodeLength] at h ⊢
      split at h
      · -- short form: one byte
        rename_i hlt
        simp only [hlt, ite_true]
        split at h
        · cases h
        · rename_i hmax
          simp only [hmax, ite_false]
          exact h
      · rename_i hge
        simp only [hge, ite_false]
        split at h
        · cases h
        · rename_i hlen
          split at h
          · cases h
          · split at h
            · cases h
            · simp only [Res.ok.injEq, Prod.mk.injEq, List.length_cons] at h
              have hk : A'.length = first.toNat - 128 := by omega
              have hl2 : ¬ (A' ++ Y).length < first.toNat - 128 := by simp; omega
              rename_i hv hm
              rw [List.take_left' hk] at hv hm h
              simp only [hl2, ite_false, List.take_left' hk, hv, hm, List.length_cons]
              simp only [Res.ok.injEq, Prod.mk.injEq]
              exact h

/-- fewer bytes than `DecodeLength` consumed are not enough: `err` -/
theorem decodeLength_cut_fails (p : Pref) (maxLen : Nat) (A X : Bytes) (n o : Nat)
    (h : p.decodeLength maxLen (A ++ X) = .ok (n, A.length)) (ho : o < A.length) :
    p.decodeLength maxLen (A.take o) = .err := by
  have hw := (C06.dec_range p maxLen (A ++ X)).2 n A.length h
  by_cases hb : p = .berTLV
  · subst hb
    cases A with
    | nil => simp at ho
    | cons first A' =>
      cases o with
      | zero => simp [Pref.decodeLength]
      | succ o =>
        simp only [List.cons_append, Pref.decodeLength] at h
        split at h
        · -- short form: A has one byte, so there is no such `o`
          split at h
          · cases h
          · simp only [Res.ok.injEq, Prod.mk.injEq, List.length_cons] at h
            simp only [List.length_cons] at ho
            omega
        · rename_i hge
          split at h
          · cases h
          · split at h
            · cases h
            · split at h
              · cases h
              · simp only [Res.ok.injEq, Prod.mk.injEq, List.length_cons] at h
                simp only [List.length_cons] at ho
                rw [List.take_succ_cons]
                exact (C06.ber_fails_short maxLen first (A'.take o) (by omega)
                  (by rw [List.length_take]; omega)).2
  · apply C06.dec_fails_short p maxLen _ hb
    rw [List.length_take, ← hw.2.2.2 hb]; omega

/-! ## Unpack -/

namespace PrimSpec

theorem unpackBytes_err_of_prefix (s : PrimSpec) (data : Bytes)
    (h : s.pref.decodeLength s.len data = .err) : s.unpackBytes data = .err := by
  rw [unpackBytes_eq, h]

theorem unpackBytes_err_of_decode (s : PrimSpec) (data : Bytes) (n k : Nat)
    (h1 : s.pref.decodeLength s.len data = .ok (n, k)) (hk : k ≤ data.length)
    (h2 : Enc.decode s.enc (data.drop k) (s.valueLength n : Int) = .err) : s.unpackBytes data = .err := by
  rw [unpackBytes_eq, h1]
  have : ¬ k > data.length := by omega
  simp only [this, ite_false, h2]

theorem unpack_err_of_bytes (s : PrimSpec) (data : Bytes) (h : s.unpackBytes data = .err) :
    s.unpack data = .err := by
  simp [unpack, h]

/-- a successful `unpackBytes` splits its input into prefix bytes `A`, value bytes `B` and
the untouched rest `C` -/
theorem unpackBytes_split (s : PrimSpec) (data raw : Bytes) (r : Nat)
    (h : s.unpackBytes data = .ok (raw, r)) :
    ∃ A B C n value, data = A ++ (B ++ C) ∧ r = A.length + B.length ∧
      s.pref.decodeLength s.len (A ++ (B ++ C)) = .ok (n, A.length) ∧
      Enc.decode s.enc (B ++ C) (s.valueLength n : Int) = .ok (value, B.length) ∧
      raw = s.pad.unpad value ∧ s.lengthCheck n raw = true := by
  obtain ⟨n, k, value, rd, hdl, hk, hdec, hraw, hr, hchk⟩ := unpackBytes_ok s data raw r h
  have hrd := decode_read_le _ _ _ _ _ hdec
  rw [List.length_drop] at hrd
  refine ⟨data.take k, (data.drop k).take rd, (data.drop k).drop rd, n, value, ?_, ?_, ?_, ?_, hraw, hchk⟩
  · rw [List.take_append_drop, List.take_append_drop]
  · rw [List.length_take, List.length_take, List.length_drop]; omega
  · rw [List.take_append_drop, List.take_append_drop, List.length_take]
    have : min k data.length = k := by omega
    rw [this]; exact hdl
  · rw [List.take_append_drop, List.length_take, List.length_drop]
    have : min rd (data.length - k) = rd := by omega
    rw [this]; exact hdec

/-- **the result of Unpack depends only on the bytes it consumed**: replacing whatever
follows the `r` bytes read by anything else gives the same value and the same count.
(Not for the `None` prefix, which by definition takes everything that is there.) -/
theorem prim_unpack_prefix_independent (s : PrimSpec) (data : Bytes) (v : Value) (r : Nat)
    (h : s.unpack data = .ok (v, r)) (tail' : Bytes) (hp : s.pref ≠ .none) :
    s.unpack (data.take r ++ tail') = .ok (v, r) := by
  unfold unpack at h
  cases hu : s.unpackBytes data with
  | err => rw [hu] at h; cases h
  | panic => rw [hu] at h; cases h
  | ok q =>
    obtain ⟨raw, r'⟩ := q
    rw [hu] at h
    simp only at h
    cases hs : s.setBytes raw with
    | err => rw [hs] at h; cases h
    | panic => rw [hs] at h; cases h
    | ok w =>
      rw [hs] at h
      simp only [Res.ok.injEq, Prod.mk.injEq] at h
      obtain ⟨rfl, rfl⟩ := h
      obtain ⟨A, B, C, n, value, hd, hr, hdl, hdec, hraw, hchk⟩ := unpackBytes_split s data raw r' hu
      have htake : data.take r' = A ++ B := by
        rw [hd, ← List.append_assoc, hr]
        exact List.take_left' (by simp)
      rw [htake, List.append_assoc]
      have hdl' := decodeLength_append_indep s.pref hp s.len A (B ++ C) (B ++ tail') n hdl
      have hdec' := decode_append_indep s.enc B C tail' value _ hdec
      have := unpackBytes_of s (A ++ (B ++ tail')) value n A.length B.length hdl' (by simp)
        (by rw [List.drop_left' rfl]; exact hdec') (by rw [← hraw]; exact hchk)
      rw [← hraw, Nat.add_comm, ← hr] at this
      simp [unpack, this, hs]

/-- **a cut inside a packed field is an error**: every strict prefix of what Pack produced
fails to unpack — `err`, never a value, never a panic -/
theorem prim_strict_prefix_fails (s : PrimSpec) (lp : Bool) (v : Value) (bs : Bytes) (o : Nat)
    (hc : s.coherent lp = true) (hv : (Field.prim s).inDomain v = true) (hpk : s.pack v = .ok bs)
    (hp : s.pref ≠ .none) (ho : o < bs.length) : s.unpack (bs.take o) = .err := by
  have hrt := prim_unpack_pack s lp v [] bs hc hv hpk (fun h => absurd h hp)
  rw [List.append_nil] at hrt
  have he := (coh_enc hc).1
  -- what Unpack did on the whole of `bs`
  unfold unpack at hrt
  cases hu : s.unpackBytes bs with
  | err => rw [hu] at hrt; cases hrt
  | panic => rw [hu] at hrt; cases hrt
  | ok q =>
    obtain ⟨raw, r'⟩ := q
    have hr' : r' = bs.length := by
      rw [hu] at hrt
      simp only at hrt
      cases hs : s.setBytes raw with
      | err => rw [hs] at hrt; cases hrt
      | panic => rw [hs] at hrt; cases hrt
      | ok w => rw [hs] at hrt; simp only [Res.ok.injEq, Prod.mk.injEq] at hrt; exact hrt.2
    subst hr'
    obtain ⟨A, B, C, n, value, hd, hr, hdl, hdec, _, _⟩ := unpackBytes_split s bs raw _ hu
    have hC : C = [] := by
      have := congrArg List.length hd
      simp only [List.length_append] at this
      have : C.length = 0 := by omega
      exact List.eq_nil_of_length_eq_zero this
    subst hC
    rw [List.append_nil] at hd hdl hdec
    apply unpack_err_of_bytes
    rw [hd] at ho ⊢
    by_cases hoa : o < A.length
    · -- the cut is inside the length prefix
      apply unpackBytes_err_of_prefix
      rw [List.take_append_of_le_length (by omega)]
      exact decodeLength_cut_fails s.pref s.len A B n o hdl hoa
    · -- the cut is inside the value
      have hoa' : A.length ≤ o := by omega
      rw [List.take_append, List.take_of_length_le hoa']
      have hob : o - A.length < B.length := by simp only [List.length_append] at ho; omega
      have hdl' := decodeLength_append_indep s.pref hp s.len A B (B.take (o - A.length)) n hdl
      apply unpackBytes_err_of_decode s _ n A.length hdl' (by simp)
      rw [List.drop_left' rfl]
      have hdec0 : Enc.decode s.enc (B ++ []) (s.valueLength n : Int) = .ok (value, B.length) := by
        rw [List.append_nil]; exact hdec
      exact decode_cut_fails s.enc he B [] value _ _ hdec0 hob

end PrimSpec

/-! ## Non-vacuity -/
namespace PrimExamples
example : sStr.pack (.str [65, 66]) = .ok [48, 53, 32, 32, 32, 65, 66] := by decide
example : sStr.unpack ([48, 53, 32, 32, 32, 65, 66].take 1) = .err := by rfl
example : sStr.unpack ([48, 53, 32, 32, 32, 65, 66].take 6) = .err := by rfl
example : sStr.unpack ([48, 53, 32, 32, 32, 65, 66] ++ [1, 2, 3]) = .ok (.str [65, 66], 7) := by rfl
example : sStr.unpack ((([48, 53, 32, 32, 32, 65, 66] : Bytes) ++ [1, 2, 3]).take 7 ++ [9]) = .ok (.str [65, 66], 7) := by rfl
end PrimExamples

end Iso8583
