/-
Helper definitions and lemmas for C12 (JSON): insertion sort facts (membership, maps,
look-ups, sortedness), UTF-8 validity of ASCII text, the canonical re-ordering `sortJ` of a
value after a JSON round trip, and invariance of `pack` under it.
-/
import Iso8583.Spec.JsonDomain
import Iso8583.Lemmas.Marshal

namespace Iso8583

/-! ### insertion sort -/

section sort
variable {α β : Type}

theorem mem_insertSorted (less : α → α → Bool) (x : α) : ∀ (l : List α) (y : α),
    y ∈ insertSorted less x l ↔ y = x ∨ y ∈ l
  | [], y => by simp [insertSorted]
  | z :: zs, y => by
    unfold insertSorted
    split
    · simp
    · simp only [List.mem_cons, mem_insertSorted less x zs y]
      constructor
      · rintro (h | h | h) <;> simp [h]
      · rintro (h | h | h) <;> simp [h]

theorem mem_sortBy (less : α → α → Bool) : ∀ (l : List α) (y : α), y ∈ sortBy less l ↔ y ∈ l
  | [], y => by simp [sortBy]
  | x :: xs, y => by simp only [sortBy, mem_insertSorted, mem_sortBy less xs y, List.mem_cons]

theorem length_insertSorted (less : α → α → Bool) (x : α) : ∀ (l : List α),
    (insertSorted less x l).length = l.length + 1
  | [] => rfl
  | z :: zs => by
    unfold insertSorted
    split
    · simp
    · simp [length_insertSorted less x zs]

theorem length_sortBy (less : α → α → Bool) : ∀ (l : List α), (sortBy less l).length = l.length
  | [] => rfl
  | x :: xs => by simp [sortBy, length_insertSorted, length_sortBy less xs]

theorem insertSorted_map (g : α → β) (less : α → α → Bool) (less' : β → β → Bool)
    (h : ∀ a b, less' (g a) (g b) = less a b) (x : α) : ∀ (l : List α),
    insertSorted less' (g x) (l.map g) = (insertSorted less x l).map g
  | [] => rfl
  | z :: zs => by
    simp only [List.map_cons, insertSorted, h]
    split
    · rfl
    · simp [insertSorted_map g less less' h x zs]

theorem sortBy_map (g : α → β) (less : α → α → Bool) (less' : β → β → Bool)
    (h : ∀ a b, less' (g a) (g b) = less a b) : ∀ (l : List α),
    sortBy less' (l.map g) = (sortBy less l).map g
  | [] => rfl
  | x :: xs => by
    simp only [List.map_cons, sortBy, sortBy_map g less less' h xs, insertSorted_map g less less' h]

theorem keys_sortBy_gen {κ : Type} (less : κ × α → κ × α → Bool) (l : List (κ × α)) (k : κ) :
    k ∈ (sortBy less l).map (·.1) ↔ k ∈ l.map (·.1) := by
  simp only [List.mem_map, mem_sortBy]

theorem lookup_insertSorted (less : Tag × α → Tag × α → Bool) (x : Tag × α) (t : Tag) :
    ∀ (l : List (Tag × α)), x.1 ∉ l.map (·.1) →
      lookup t (insertSorted less x l) = if x.1 = t then some x.2 else lookup t l
  | [], _ => by simp [insertSorted, lookup]
  | y :: ys, hx => by
    simp only [List.map_cons, List.mem_cons, not_or] at hx
    unfold insertSorted
    split
    · simp [lookup]
    · simp only [lookup, lookup_insertSorted less x t ys hx.2]
      by_cases hy : y.1 = t
      · have : ¬ x.1 = t := fun e => hx.1 (e.trans hy.symm)
        simp [hy, this]
      · simp [hy]

theorem lookup_sortBy (less : Tag × α → Tag × α → Bool) (t : Tag) : ∀ (l : List (Tag × α)),
    allDistinct (l.map (·.1)) = true → lookup t (sortBy less l) = lookup t l
  | [], _ => rfl
  | x :: xs, h => by
    simp only [List.map_cons, allDistinct_cons] at h
    have hx : x.1 ∉ (sortBy less xs).map (·.1) := by
      rw [keys_sortBy_gen]; exact h.1
    simp only [sortBy, lookup_insertSorted less x t _ hx, lookup_sortBy less t xs h.2]
    obtain ⟨k, v⟩ := x
    simp [lookup]

theorem lookup_map_val (g : α → β) (t : Tag) : ∀ (l : List (Tag × α)),
    lookup t (l.map fun p => (p.1, g p.2)) = (lookup t l).map g
  | [] => rfl
  | (k, v) :: rest => by
    simp only [List.map_cons, lookup]
    by_cases h : k = t
    · subst h; simp
    · simp [h, lookup_map_val g t rest]

theorem lookup_mem (t : Tag) : ∀ (l : List (Tag × α)) (v : α), lookup t l = some v → (t, v) ∈ l
  | [], _, h => by simp [lookup] at h
  | (k, w) :: rest, v, h => by
    simp only [lookup] at h
    by_cases hk : k = t
    · subst hk; simp only [if_true, Option.some.injEq] at h; subst h; simp
    · simp only [hk, if_false] at h
      exact List.mem_cons_of_mem _ (lookup_mem t rest v h)

theorem distinct_perm_keys {κ : Type} [DecidableEq κ] (less : κ × α → κ × α → Bool) :
    ∀ (l : List (κ × α)), allDistinct (l.map (·.1)) = true →
      allDistinct ((sortBy less l).map (·.1)) = true
  | [], _ => rfl
  | x :: xs, h => by
    simp only [List.map_cons, allDistinct_cons] at h
    have ih := distinct_perm_keys less xs h.2
    have hx : x.1 ∉ (sortBy less xs).map (·.1) := by rw [keys_sortBy_gen]; exact h.1
    simp only [sortBy]
    generalize sortBy less xs = s at ih hx
    induction s with
    | nil => simp [insertSorted, allDistinct]
    | cons y ys ihs =>
      simp only [List.map_cons, allDistinct_cons, List.mem_cons, not_or] at ih hx
      unfold insertSorted
      split
      · simp only [List.map_cons, allDistinct_cons, List.mem_cons, not_or]
        exact ⟨⟨hx.1, hx.2⟩, ih⟩
      · simp only [List.map_cons, allDistinct_cons]
        refine ⟨?_, ihs ih.2 hx.2⟩
        intro hm
        simp only [List.mem_map, mem_insertSorted] at hm
        obtain ⟨a, ha | ha, hk⟩ := hm
        · subst ha; exact hx.1 hk
        · exact ih.1 (List.mem_map.mpr ⟨a, ha, hk⟩)

/-- strictly ascending keys -/
def keysAscending : List (Nat × α) → Prop
  | [] => True
  | [_] => True
  | a :: b :: rest => a.1 < b.1 ∧ keysAscending (b :: rest)

theorem keysAscending_tail {a : Nat × α} {l : List (Nat × α)} (h : keysAscending (a :: l)) : keysAscending l := by
  cases l with
  | nil => trivial
  | cons b rest => exact h.2

theorem keysAscending_head_lt {a : Nat × α} : ∀ {l : List (Nat × α)}, keysAscending (a :: l) →
    ∀ y ∈ l, a.1 < y.1
  | [], _, y, hy => by cases hy
  | b :: rest, h, y, hy => by
    rcases List.mem_cons.mp hy with rfl | hy
    · exact h.1
    · have h' : keysAscending (a :: rest) := by
        cases rest with
        | nil => trivial
        | cons c r => exact ⟨Nat.lt_trans h.1 h.2.1, h.2.2⟩
      exact keysAscending_head_lt h' y hy

theorem insertSorted_ascending (x : Nat × α) : ∀ (l : List (Nat × α)), keysAscending l →
    x.1 ∉ l.map (·.1) → keysAscending (insertSorted (fun a b => decide (a.1 < b.1)) x l)
  | [], _, _ => trivial
  | y :: ys, h, hx => by
    simp only [List.map_cons, List.mem_cons, not_or] at hx
    unfold insertSorted
    by_cases hlt : x.1 < y.1
    · simp only [hlt, decide_true, if_true]
      exact ⟨hlt, h⟩
    · simp only [hlt, decide_false]
      have hyx : y.1 < x.1 := by
        have := hx.1
        omega
      have ih := insertSorted_ascending x ys (keysAscending_tail h) hx.2
      -- the head of the tail after insertion is either x or the old head of ys
      cases ys with
      | nil => exact ⟨hyx, trivial⟩
      | cons z zs =>
        unfold insertSorted at ih ⊢
        by_cases hxz : x.1 < z.1
        · simp only [hxz, decide_true, if_true] at ih ⊢
          exact ⟨hyx, ih⟩
        · simp only [hxz, decide_false] at ih ⊢
          exact ⟨h.1, ih⟩

theorem sortBy_ascending : ∀ (l : List (Nat × α)), allDistinct (l.map (·.1)) = true →
    keysAscending (sortBy (fun a b => decide (a.1 < b.1)) l)
  | [], _ => trivial
  | x :: xs, h => by
    simp only [List.map_cons, allDistinct_cons] at h
    have hx : x.1 ∉ (sortBy (fun a b => decide (a.1 < b.1)) xs).map (·.1) := by
      rw [keys_sortBy_gen]; exact h.1
    exact insertSorted_ascending x _ (sortBy_ascending xs h.2) hx

theorem sortBy_of_ascending : ∀ (l : List (Nat × α)), keysAscending l →
    sortBy (fun a b => decide (a.1 < b.1)) l = l
  | [], _ => rfl
  | x :: xs, h => by
    simp only [sortBy, sortBy_of_ascending xs (keysAscending_tail h)]
    cases xs with
    | nil => rfl
    | cons y ys =>
      have : x.1 < y.1 := h.1
      simp [insertSorted, this]

end sort

/-! ### the string codec assumptions, UTF-8 -/

/-- ASSUMPTION on `encoding/json`: a valid UTF-8 string survives Marshal + Unmarshal -/
def StrCodec.Faithful (c : StrCodec) : Prop := ∀ s, validUtf8 s = true → c.parse (c.emit s) = some s

/-- ASSUMPTION on `encoding/json`: the hand-quoted alphanumeric key `"k"` is read as `k` -/
def StrCodec.KeysOK (c : StrCodec) : Prop := ∀ k, tagAlnum k = true → c.parse (quoteRaw k) = some k

theorem validUtf8_of_ascii : ∀ (s : Bytes), (∀ c ∈ s, c.toNat < 128) → validUtf8 s = true
  | [], _ => rfl
  | c :: rest, h => by
    have hc : c.toNat < 128 := h c (by simp)
    have ih := validUtf8_of_ascii rest (fun x hx => h x (by simp [hx]))
    unfold validUtf8
    simp [hc, ih]

theorem validUtf8_hexEncodeUpper (b : Bytes) : validUtf8 (Enc.hexEncodeUpper b) = true := by
  apply validUtf8_of_ascii
  intro c hc
  have := hexEncodeUpper_upper b c hc
  unfold isUpperHexChar at this
  omega

theorem tagAlnum_natToDec (n : Nat) : tagAlnum (natToDec n) = true := by
  unfold tagAlnum
  rw [List.all_eq_true]
  intro c hc
  have := natToDec_all_digits n c hc
  unfold isDigit at this
  simp only [decide_eq_true_eq]
  omega

/-! ### the value after a JSON round trip: set subfields in StringsByInt order -/

def byIntKey {α : Type} (a b : Tag × α) : Bool := SortKind.byInt.less a.1 b.1

mutual
def Value.sortJ : Value → Value
  | .comp vals => .comp (sortBy byIntKey (Value.sortJList vals))
  | .str b => .str b
  | .num i => .num i
  | .bin b => .bin b
  | .hexv t => .hexv t
def Value.sortJList : List (Tag × Value) → List (Tag × Value)
  | [] => []
  | (t, v) :: rest => (t, v.sortJ) :: Value.sortJList rest
end

theorem sortJList_eq_map : ∀ (vals : List (Tag × Value)),
    Value.sortJList vals = vals.map fun p => (p.1, p.2.sortJ)
  | [] => rfl
  | (t, v) :: rest => by simp [Value.sortJList, sortJList_eq_map rest]

theorem toJsonList_eq_map (c : StrCodec) : ∀ (vals : List (Tag × Value)),
    Value.toJsonList c vals = vals.map fun p => (p.1, p.2.toJson c)
  | [] => rfl
  | (t, v) :: rest => by simp [Value.toJsonList, toJsonList_eq_map c rest]


theorem sortBy_toJson (c : StrCodec) (vals : List (Tag × Value)) :
    (sortBy (fun a b => SortKind.byInt.less a.1 b.1) (Value.toJsonList c vals)).map (fun p => (quoteRaw p.1, p.2)) =
      (sortBy byIntKey vals).map fun p => (quoteRaw p.1, p.2.toJson c) := by
  rw [toJsonList_eq_map]
  rw [sortBy_map (fun p : Tag × Value => (p.1, p.2.toJson c)) byIntKey _ (fun a b => rfl)]
  simp [List.map_map, Function.comp_def]

theorem sortBy_sortJ (vals : List (Tag × Value)) :
    sortBy byIntKey (Value.sortJList vals) = (sortBy byIntKey vals).map fun p => (p.1, p.2.sortJ) := by
  rw [sortJList_eq_map]
  exact sortBy_map (fun p : Tag × Value => (p.1, p.2.sortJ)) byIntKey byIntKey (fun a b => rfl) vals

/-- the loop of `Composite.UnmarshalJSON` over the members MarshalJSON wrote -/
theorem ofJsonMembers_written (c : StrCodec) (hK : c.KeysOK) (subs : List (Tag × Field)) (skip : Bool) :
    ∀ (L : List (Tag × Value)) (acc : List (Tag × Value)),
      allDistinct (L.map (·.1)) = true →
      (∀ p ∈ L, tagAlnum p.1 = true ∧ ∃ f, lookup p.1 subs = some f ∧ Field.ofJson c f (p.2.toJson c) = .ok p.2.sortJ) →
      Field.ofJsonMembers c subs skip (L.map fun p => (quoteRaw p.1, p.2.toJson c)) acc =
        .ok (acc ++ L.map fun p => (p.1, p.2.sortJ))
  | [], acc, _, _ => by simp [Field.ofJsonMembers]
  | (t, v) :: rest, acc, hd, hall => by
    simp only [List.map_cons, allDistinct_cons] at hd
    obtain ⟨hal, f, hl, hof⟩ := hall (t, v) (by simp)
    have hrest : ∀ p ∈ rest, tagAlnum p.1 = true ∧ ∃ f, lookup p.1 subs = some f ∧
        Field.ofJson c f (p.2.toJson c) = .ok p.2.sortJ := fun p hp => hall p (by simp [hp])
    have hlater : laterKey c t (rest.map fun p => (quoteRaw p.1, p.2.toJson c)) = false := by
      unfold laterKey
      rw [List.any_eq_false]
      intro p hp
      simp only [List.mem_map] at hp
      obtain ⟨q, hq, rfl⟩ := hp
      simp only [hK q.1 (hrest q hq).1]
      intro heq
      have : q.1 = t := by simpa using heq
      exact hd.1 (List.mem_map.mpr ⟨q, hq, this⟩)
    simp only [List.map_cons]
    rw [Field.ofJsonMembers]
    simp only [hK t hal, hlater, hl, hof]
    have ih := ofJsonMembers_written c hK subs skip rest (acc ++ [(t, v.sortJ)]) hd.2 hrest
    rw [ih]
    simp

mutual
/-- field level: `UnmarshalJSON (MarshalJSON v)` into a fresh field gives `v` back, set
subfields in StringsByInt order -/
theorem ofJson_toJson (c : StrCodec) (hF : c.Faithful) (hK : c.KeysOK) : ∀ (v : Value) (f : Field),
    jsonDomain f v = true → Field.ofJson c f (v.toJson c) = .ok v.sortJ
  | .str b, f, h => by
    cases f with
    | prim s =>
      simp only [jsonDomain, Bool.and_eq_true, beq_iff_eq] at h
      simp [Field.ofJson, Value.toJson, primOfJson, h.1, hF b h.2, Value.sortJ]
    | comp s subs => simp [jsonDomain] at h
  | .num i, f, h => by
    cases f with
    | prim s =>
      simp only [jsonDomain, Bool.and_eq_true, beq_iff_eq, inInt64, decide_eq_true_eq] at h
      simp only [Field.ofJson, Value.toJson, primOfJson, h.1, Value.sortJ]
      rw [if_pos h.2]
    | comp s subs => simp [jsonDomain] at h
  | .bin b, f, h => by
    cases f with
    | prim s =>
      simp only [jsonDomain, beq_iff_eq] at h
      simp [Field.ofJson, Value.toJson, primOfJson, h, hF _ (validUtf8_hexEncodeUpper b),
        hexDecode_hexEncodeUpper, Value.sortJ]
    | comp s subs => simp [jsonDomain] at h
  | .hexv t, f, h => by
    cases f with
    | prim s =>
      simp only [jsonDomain, Bool.and_eq_true, beq_iff_eq] at h
      simp [Field.ofJson, Value.toJson, primOfJson, h.1, hF t h.2, Value.sortJ]
    | comp s subs => simp [jsonDomain] at h
  | .comp vals, f, h => by
    cases f with
    | prim s => simp [jsonDomain] at h
    | comp s subs =>
      simp only [jsonDomain, Bool.and_eq_true] at h
      have hall := ofJson_toJson_list c hF hK vals subs h.2
      have hdist := distinct_perm_keys (byIntKey (α := Value)) vals h.1
      have hL : ∀ p ∈ sortBy byIntKey vals, tagAlnum p.1 = true ∧ ∃ f, lookup p.1 subs = some f ∧
          Field.ofJson c f (p.2.toJson c) = .ok p.2.sortJ :=
        fun p hp => hall p ((mem_sortBy _ vals p).mp hp)
      simp only [Value.toJson, Value.sortJ, sortBy_toJson, sortBy_sortJ]
      rw [Field.ofJson, ofJsonMembers_written c hK subs _ _ [] hdist hL]
      simp

theorem ofJson_toJson_list (c : StrCodec) (hF : c.Faithful) (hK : c.KeysOK) :
    ∀ (vals : List (Tag × Value)) (subs : List (Tag × Field)), jsonDomainList subs vals = true →
      ∀ p ∈ vals, tagAlnum p.1 = true ∧ ∃ f, lookup p.1 subs = some f ∧
        Field.ofJson c f (p.2.toJson c) = .ok p.2.sortJ
  | [], _, _, p, hp => by cases hp
  | (t, v) :: rest, subs, h, p, hp => by
    simp only [jsonDomainList, Bool.and_eq_true] at h
    rcases List.mem_cons.mp hp with rfl | hp
    · refine ⟨h.1.1, ?_⟩
      cases hl : lookup t subs with
      | none => simp [hl] at h
      | some f =>
        simp only [hl] at h
        exact ⟨f, rfl, ofJson_toJson c hF hK v f h.1.2⟩
    · exact ofJson_toJson_list c hF hK rest subs h.2 p hp
end


mutual
/-- at every level the set subfields carry pairwise different tags -/
def Value.distinctTags : Value → Bool
  | .comp vals => allDistinct (vals.map (·.1)) && Value.distinctTagsList vals
  | _ => true
def Value.distinctTagsList : List (Tag × Value) → Bool
  | [] => true
  | (_, v) :: rest => v.distinctTags && Value.distinctTagsList rest
end

theorem distinctTagsList_mem : ∀ (vals : List (Tag × Value)), Value.distinctTagsList vals = true →
    ∀ p ∈ vals, p.2.distinctTags = true
  | [], _, p, hp => by cases hp
  | (t, v) :: rest, h, p, hp => by
    simp only [Value.distinctTagsList, Bool.and_eq_true] at h
    rcases List.mem_cons.mp hp with rfl | hp
    · exact h.1
    · exact distinctTagsList_mem rest h.2 p hp

theorem packByTag_congr (t : TagSpec) (vals1 vals2 : List (Tag × Value))
    (hl : ∀ tag, lookup tag vals2 = (lookup tag vals1).map Value.sortJ)
    (hp : ∀ p ∈ vals1, ∀ f : Field, f.pack p.2.sortJ = f.pack p.2) :
    ∀ subs : List (Tag × Field), packByTag t subs vals2 = packByTag t subs vals1
  | [] => by simp [packByTag]
  | (tag, f) :: rest => by
    rw [packByTag, packByTag, hl tag, packByTag_congr t vals1 vals2 hl hp rest]
    cases hv : lookup tag vals1 with
    | none => rfl
    | some v =>
      simp only [Option.map_some]
      rw [hp (tag, v) (lookup_mem tag vals1 v hv) f]

theorem packByBitmap_congr (vals1 vals2 : List (Tag × Value))
    (hl : ∀ tag, lookup tag vals2 = (lookup tag vals1).map Value.sortJ)
    (hp : ∀ p ∈ vals1, ∀ f : Field, f.pack p.2.sortJ = f.pack p.2) :
    ∀ (subs : List (Tag × Field)) (bm : Bitmap), packByBitmap subs vals2 bm = packByBitmap subs vals1 bm
  | [], bm => by simp [packByBitmap]
  | (tag, f) :: rest, bm => by
    rw [packByBitmap, packByBitmap, hl tag]
    cases hv : lookup tag vals1 with
    | none => simp only [Option.map_none]; exact packByBitmap_congr vals1 vals2 hl hp rest bm
    | some v =>
      simp only [Option.map_some]
      rw [hp (tag, v) (lookup_mem tag vals1 v hv) f]
      cases atoi? tag with
      | none => rfl
      | some idInt => simp only [packByBitmap_congr vals1 vals2 hl hp rest]

mutual
/-- `pack` does not see the order in which set subfields are listed -/
theorem pack_sortJ : ∀ (v : Value), v.distinctTags = true → ∀ f : Field, f.pack v.sortJ = f.pack v
  | .str _, _, _ => by simp [Value.sortJ]
  | .num _, _, _ => by simp [Value.sortJ]
  | .bin _, _, _ => by simp [Value.sortJ]
  | .hexv _, _, _ => by simp [Value.sortJ]
  | .comp vals, h, f => by
    simp only [Value.distinctTags, Bool.and_eq_true] at h
    cases f with
    | prim s => cases hk : s.kind <;> simp [Field.pack, PrimSpec.pack, PrimSpec.valueBytes, Value.sortJ, hk]
    | comp s subs =>
      have hp := pack_sortJ_list vals h.2
      have hl : ∀ tag, lookup tag (sortBy byIntKey (Value.sortJList vals)) = (lookup tag vals).map Value.sortJ := by
        intro tag
        rw [sortBy_sortJ]
        rw [lookup_map_val Value.sortJ tag (sortBy byIntKey vals), lookup_sortBy byIntKey tag vals h.1]
      simp only [Value.sortJ]
      rw [Field.pack, Field.pack]
      cases s.mode with
      | tagged t => simp only [packByTag_congr t vals _ hl hp subs]
      | bitmapped b => simp only [packByBitmap_congr vals _ hl hp subs]

theorem pack_sortJ_list : ∀ (vals : List (Tag × Value)), Value.distinctTagsList vals = true →
    ∀ p ∈ vals, ∀ f : Field, f.pack p.2.sortJ = f.pack p.2
  | [], _, p, hp => by cases hp
  | (t, v) :: rest, h, p, hp => by
    simp only [Value.distinctTagsList, Bool.and_eq_true] at h
    rcases List.mem_cons.mp hp with rfl | hp
    · exact pack_sortJ v h.1
    · exact pack_sortJ_list rest h.2 p hp
end

mutual
theorem jsonDomain_distinctTags : ∀ (v : Value) (f : Field), jsonDomain f v = true → v.distinctTags = true
  | .str _, _, _ => rfl
  | .num _, _, _ => rfl
  | .bin _, _, _ => rfl
  | .hexv _, _, _ => rfl
  | .comp vals, f, h => by
    cases f with
    | prim s => simp [jsonDomain] at h
    | comp s subs =>
      simp only [jsonDomain, Bool.and_eq_true] at h
      simp only [Value.distinctTags, Bool.and_eq_true]
      exact ⟨h.1, jsonDomainList_distinctTags vals subs h.2⟩
theorem jsonDomainList_distinctTags : ∀ (vals : List (Tag × Value)) (subs : List (Tag × Field)),
    jsonDomainList subs vals = true → Value.distinctTagsList vals = true
  | [], _, _ => rfl
  | (t, v) :: rest, subs, h => by
    simp only [jsonDomainList, Bool.and_eq_true] at h
    simp only [Value.distinctTagsList, Bool.and_eq_true]
    refine ⟨?_, jsonDomainList_distinctTags rest subs h.2⟩
    cases hl : lookup t subs with
    | none => simp [hl] at h
    | some f => simp only [hl] at h; exact jsonDomain_distinctTags v f h.1.2
end


theorem byInt_less_natToDec (a b : Nat) :
    SortKind.byInt.less (natToDec a) (natToDec b) = decide (a < b) := by
  simp only [SortKind.less, atoi_natToDec]
  by_cases h : a < b
  · have : (a : Int) < (b : Int) := by omega
    simp [h, this]
  · have : ¬ (a : Int) < (b : Int) := by omega
    simp [h, this]

theorem pack_ok_bitmap (spec : MsgSpec) (m : Msg) (bs : Bytes) (h : spec.pack m = .ok bs) :
    ∃ bm, spec.bitmapOf m = .ok bm := by
  unfold MsgSpec.pack at h
  unfold MsgSpec.bitmapOf
  cases hb : MsgSpec.setBits ((sortBy (fun a b => decide (a.1 < b.1)) m.fields).map (·.1))
      (Bitmap.reset spec.bitmap.specLen spec.bitmap.auto) with
  | ok bm => exact ⟨bm, rfl⟩
  | err => simp [hb] at h
  | panic => simp [hb] at h

theorem sortBy_cons_lt {α : Type} (x : Nat × α) (l : List (Nat × α)) (h : ∀ y ∈ l, x.1 < y.1) :
    sortBy (fun a b => decide (a.1 < b.1)) (x :: l) = x :: sortBy (fun a b => decide (a.1 < b.1)) l := by
  simp only [sortBy]
  cases hs : sortBy (fun a b => decide (a.1 < b.1)) l with
  | nil => rfl
  | cons y ys =>
    have : y ∈ l := (mem_sortBy _ l y).mp (by rw [hs]; simp)
    have := h y this
    simp [insertSorted, this]

theorem keysAscending_map {α β : Type} (g : α → β) : ∀ (l : List (Nat × α)), keysAscending l →
    keysAscending (l.map fun p => (p.1, g p.2))
  | [], _ => trivial
  | [_], _ => trivial
  | a :: b :: rest, h => ⟨h.1, keysAscending_map g (b :: rest) h.2⟩

theorem laterKey_natToDec (c : StrCodec) (hK : c.KeysOK) (a : Nat) {α : Type} (g : Nat × α → Json)
    (L : List (Nat × α)) (ha : a ∉ L.map (·.1)) :
    laterKey c (natToDec a) (L.map fun p => (quoteRaw (natToDec p.1), g p)) = false := by
  unfold laterKey
  rw [List.any_eq_false]
  intro p hp
  simp only [List.mem_map] at hp
  obtain ⟨q, hq, rfl⟩ := hp
  simp only [hK _ (tagAlnum_natToDec q.1)]
  intro heq
  have : natToDec q.1 = natToDec a := by simpa using heq
  exact ha (List.mem_map.mpr ⟨q, hq, natToDec_injective this⟩)

/-- the loop of `Message.UnmarshalJSON` over the data elements MarshalJSON wrote -/
theorem msgMembers_written (c : StrCodec) (hF : c.Faithful) (hK : c.KeysOK) (spec : MsgSpec) :
    ∀ (L : List (Nat × Value)) (acc : JMsg),
      allDistinct (L.map (·.1)) = true →
      (∀ p ∈ L, 2 ≤ p.1 ∧ p.1 < 2 ^ 63 ∧ ∃ f, lookupId p.1 spec.fields = some f ∧ jsonDomain f p.2 = true) →
      MsgSpec.ofJsonMembers c spec (L.map fun p => (quoteRaw (natToDec p.1), p.2.toJson c)) acc =
        .ok { acc with fields := acc.fields ++ L.map fun p => (p.1, p.2.sortJ) }
  | [], acc, _, _ => by simp [MsgSpec.ofJsonMembers]
  | (i, v) :: rest, acc, hd, hall => by
    simp only [List.map_cons, allDistinct_cons] at hd
    obtain ⟨h2, h63, f, hl, hdom⟩ := hall (i, v) (by simp)
    have hrest : ∀ p ∈ rest, 2 ≤ p.1 ∧ p.1 < 2 ^ 63 ∧ ∃ f, lookupId p.1 spec.fields = some f ∧
        jsonDomain f p.2 = true := fun p hp => hall p (by simp [hp])
    have hlater := laterKey_natToDec c hK i (fun p : Nat × Value => p.2.toJson c) rest hd.1
    have h0 : ¬ ((i : Int) = 0) := by omega
    have h1 : ¬ ((i : Int) = 1) := by omega
    have hneg : ¬ ((i : Int) < 0) := by omega
    simp only [List.map_cons]
    have ih := msgMembers_written c hF hK spec rest
      { acc with fields := acc.fields ++ [(i, v.sortJ)] } hd.2 hrest
    simp only [MsgSpec.ofJsonMembers, hK _ (tagAlnum_natToDec i), hlater, parseInt64_natToDec i h63, h0, h1,
      hneg, if_false, Int.toNat_natCast, hl, ofJson_toJson c hF hK v f hdom, Bool.false_eq_true, ih]
    simp

/-- the message a JSON round trip produces: data elements ascending, set subfields in
StringsByInt order -/
def jsonNormal (m : Msg) : JMsg :=
  { mti := m.mti, bitmap := true,
    fields := (sortBy (fun a b => decide (a.1 < b.1)) m.fields).map fun p => (p.1, p.2.sortJ) }

theorem msgJsonDomain_fields (spec : MsgSpec) (m : Msg) (h : msgJsonDomain spec m = true) :
    allDistinct (m.fields.map (·.1)) = true ∧
    ∀ p ∈ m.fields, 2 ≤ p.1 ∧ p.1 < 2 ^ 63 ∧ ∃ f, lookupId p.1 spec.fields = some f ∧ jsonDomain f p.2 = true := by
  simp only [msgJsonDomain, Bool.and_eq_true, List.all_eq_true, decide_eq_true_eq] at h
  refine ⟨h.1.2, fun p hp => ?_⟩
  obtain ⟨hr, hm⟩ := h.2 p hp
  refine ⟨hr.1, hr.2, ?_⟩
  cases hl : lookupId p.1 spec.fields with
  | none => simp [hl] at hm
  | some f => exact ⟨f, rfl, by simpa [hl] using hm⟩

/-- the members of the emitted object: MTI (if set), bitmap, data elements ascending -/
theorem marshalJSON_members (c : StrCodec) (m : Msg) (bm : Bitmap)
    (h2 : ∀ p ∈ m.fields, 2 ≤ p.1) :
    (sortBy (fun a b => SortKind.byInt.less a.1 b.1) (jsonMembers c m bm)).map (fun p => (quoteRaw p.1, p.2)) =
      ((match m.mti with | some v => [(0, v.toJson c)] | none => []) ++
        (1, Json.str (c.emit (Enc.hexEncodeUpper bm.data))) ::
          (sortBy (fun a b => decide (a.1 < b.1)) m.fields).map fun p => (p.1, p.2.toJson c)).map
        fun p => (quoteRaw (natToDec p.1), p.2) := by
  let fieldsJ : List (Nat × Json) := m.fields.map fun p => (p.1, p.2.toJson c)
  let allN : List (Nat × Json) :=
    (match m.mti with | some v => [(0, v.toJson c)] | none => []) ++
      (1, Json.str (c.emit (Enc.hexEncodeUpper bm.data))) :: fieldsJ
  have hmem : jsonMembers c m bm = allN.map fun p => (natToDec p.1, p.2) := by
    simp only [jsonMembers, allN, fieldsJ]
    cases m.mti <;> simp [List.map_map, Function.comp_def]
  have hsortF : sortBy (fun a b => decide (a.1 < b.1)) fieldsJ =
      (sortBy (fun a b => decide (a.1 < b.1)) m.fields).map fun p => (p.1, p.2.toJson c) :=
    sortBy_map (fun p : Nat × Value => (p.1, p.2.toJson c)) _ _ (fun a b => rfl) m.fields
  have hge : ∀ y ∈ fieldsJ, 2 ≤ y.1 := by
    intro y hy
    simp only [fieldsJ, List.mem_map] at hy
    obtain ⟨p, hp, rfl⟩ := hy
    exact h2 p hp
  have hsortAll : sortBy (fun a b => decide (a.1 < b.1)) allN =
      (match m.mti with | some v => [(0, v.toJson c)] | none => []) ++
        (1, Json.str (c.emit (Enc.hexEncodeUpper bm.data))) :: sortBy (fun a b => decide (a.1 < b.1)) fieldsJ := by
    have h1 : sortBy (fun a b => decide (a.1 < b.1))
        ((1, Json.str (c.emit (Enc.hexEncodeUpper bm.data))) :: fieldsJ) =
        (1, Json.str (c.emit (Enc.hexEncodeUpper bm.data))) :: sortBy (fun a b => decide (a.1 < b.1)) fieldsJ :=
      sortBy_cons_lt _ _ (fun y hy => by have := hge y hy; show 1 < y.1; omega)
    cases hm : m.mti with
    | none => simp only [allN, hm, List.nil_append, h1]
    | some v =>
      simp only [allN, hm, List.cons_append, List.nil_append]
      rw [sortBy_cons_lt, h1]
      intro y hy
      show 0 < y.1
      rcases List.mem_cons.mp hy with rfl | hy
      · exact Nat.zero_lt_one
      · have := hge y hy; omega
  rw [hmem, sortBy_map (fun p : Nat × Json => (natToDec p.1, p.2)) (fun a b => decide (a.1 < b.1)) _
    (fun a b => byInt_less_natToDec a.1 b.1), hsortAll, hsortF]
  simp [List.map_map, Function.comp_def]

theorem packFields_congr (spec : MsgSpec) (bm : Bitmap) : ∀ (L : List (Nat × Value)),
    (∀ p ∈ L, p.2.distinctTags = true) →
    MsgSpec.packFields spec bm (L.map fun p => (p.1, p.2.sortJ)) = MsgSpec.packFields spec bm L
  | [], _ => rfl
  | (i, v) :: rest, h => by
    simp only [List.map_cons, MsgSpec.packFields]
    rw [packFields_congr spec bm rest (fun p hp => h p (by simp [hp]))]
    cases lookupId i spec.fields with
    | none => rfl
    | some f => simp only [pack_sortJ v (h (i, v) (by simp)) f]

/-- message level: UnmarshalJSON (MarshalJSON m) into a fresh message gives `jsonNormal m`,
which packs to the same bytes -/
theorem json_roundtrip_msg (c : StrCodec) (hF : c.Faithful) (hK : c.KeysOK) (spec : MsgSpec) (m : Msg)
    (bs : Bytes) (hdom : msgJsonDomain spec m = true) (hpack : spec.pack m = .ok bs) :
    ∃ j, spec.marshalJSON c m = .ok j ∧ spec.unmarshalJSON c j = .ok (jsonNormal m) ∧
      spec.pack (jsonNormal m).toMsg = .ok bs := by
  obtain ⟨hd, hall⟩ := msgJsonDomain_fields spec m hdom
  obtain ⟨bm, hbm⟩ := pack_ok_bitmap spec m bs hpack
  have h2 : ∀ p ∈ m.fields, 2 ≤ p.1 := fun p hp => (hall p hp).1
  obtain ⟨S, hS⟩ : ∃ S, sortBy (fun a b => decide (a.1 < b.1)) m.fields = S := ⟨_, rfl⟩
  have hSmem : ∀ p ∈ S, p ∈ m.fields := fun p hp => (mem_sortBy _ m.fields p).mp (hS ▸ hp)
  have hSd : allDistinct (S.map (·.1)) = true := hS ▸ distinct_perm_keys _ m.fields hd
  have hSall : ∀ p ∈ S, 2 ≤ p.1 ∧ p.1 < 2 ^ 63 ∧ ∃ f, lookupId p.1 spec.fields = some f ∧ jsonDomain f p.2 = true :=
    fun p hp => hall p (hSmem p hp)
  refine ⟨_, by simp only [MsgSpec.marshalJSON, hpack, hbm]; rfl, ?_, ?_⟩
  · -- UnmarshalJSON
    simp only [MsgSpec.unmarshalJSON, marshalJSON_members c m bm h2, hS]
    have hfields := msgMembers_written c hF hK spec S
    have hbmJ : c.parse (c.emit (Enc.hexEncodeUpper bm.data)) = some (Enc.hexEncodeUpper bm.data) :=
      hF _ (validUtf8_hexEncodeUpper _)
    have hnot1 : (1 : Nat) ∉ (S.map fun p => (p.1, p.2.toJson c)).map (·.1) := by
      simp only [List.map_map, List.mem_map, Function.comp_def]
      rintro ⟨p, hp, h1⟩
      have := (hSall p hp).1
      omega
    have hlater1 := laterKey_natToDec c hK 1 (fun p : Nat × Json => p.2) _ hnot1
    have hconv : ((S.map fun p => (p.1, p.2.toJson c)).map fun p => (quoteRaw (natToDec p.1), p.2)) =
        S.map fun p => (quoteRaw (natToDec p.1), p.2.toJson c) := by
      simp [List.map_map, Function.comp_def]
    have hp1 : parseInt64? (natToDec 1) = some 1 := parseInt64_natToDec 1 (by decide)
    have hp0 : parseInt64? (natToDec 0) = some 0 := parseInt64_natToDec 0 (by decide)
    cases hm : m.mti with
    | none =>
      simp only [List.nil_append, List.map_cons]
      simp only [MsgSpec.ofJsonMembers, hK _ (tagAlnum_natToDec 1), hlater1, hp1, hbmJ,
        hexDecode_hexEncodeUpper, Bool.false_eq_true, if_false]
      simp only [show ¬ ((1 : Int) = 0) by decide, if_false, if_true, hconv]
      rw [hfields _ hSd hSall]
      simp [jsonNormal, hm, hS]
    | some v =>
      have hv : jsonDomain (.prim spec.mti) v = true := by
        simp only [msgJsonDomain, hm, Bool.and_eq_true] at hdom
        exact hdom.1.1
      have hmtiJ := ofJson_toJson c hF hK v (.prim spec.mti) hv
      simp only [Field.ofJson] at hmtiJ
      have hvs : v.sortJ = v := by
        cases v <;> first | rfl | (simp [jsonDomain] at hv)
      have hnot0 : (0 : Nat) ∉ ((1, Json.str (c.emit (Enc.hexEncodeUpper bm.data))) ::
          S.map fun p => (p.1, p.2.toJson c)).map (·.1) := by
        simp only [List.map_cons, List.mem_cons, List.map_map, List.mem_map, Function.comp_def]
        rintro (h | ⟨p, hp, h0⟩)
        · cases h
        · have := (hSall p hp).1
          omega
      have hlater0 := laterKey_natToDec c hK 0 (fun p : Nat × Json => p.2) _ hnot0
      simp only [List.cons_append, List.nil_append, List.map_cons] at hlater0 ⊢
      simp only [MsgSpec.ofJsonMembers, hK _ (tagAlnum_natToDec 0), hK _ (tagAlnum_natToDec 1), hlater0,
        hlater1, hp0, hp1, hmtiJ, hbmJ, hexDecode_hexEncodeUpper, Bool.false_eq_true, if_false, if_true]
      simp only [show ¬ ((1 : Int) = 0) by decide, if_false, if_true, hconv]
      rw [hfields _ hSd hSall]
      simp [jsonNormal, hm, hS, hvs]
  · -- the decoded message packs to the same bytes
    have hasc : keysAscending S := hS ▸ sortBy_ascending m.fields hd
    have hsorted : sortBy (fun a b => decide (a.1 < b.1)) (jsonNormal m).toMsg.fields =
        S.map fun p => (p.1, p.2.sortJ) := by
      simp only [jsonNormal, JMsg.toMsg, hS]
      exact sortBy_of_ascending _ (keysAscending_map Value.sortJ S hasc)
    have hkeys : (S.map fun p => (p.1, p.2.sortJ)).map (·.1) = S.map (·.1) := by
      simp [List.map_map, Function.comp_def]
    have hdt : ∀ p ∈ S, p.2.distinctTags = true := by
      intro p hp
      obtain ⟨_, _, f, _, hj⟩ := hSall p hp
      exact jsonDomain_distinctTags p.2 f hj
    rw [← hpack]
    unfold MsgSpec.pack
    simp only [hsorted, hkeys, hS]
    have hmti : (jsonNormal m).toMsg.mti = m.mti := rfl
    simp only [hmti]
    cases hsb : MsgSpec.setBits (S.map (·.1)) (Bitmap.reset spec.bitmap.specLen spec.bitmap.auto) with
    | ok bm' => simp only [packFields_congr spec bm' S hdt]
    | err => rfl
    | panic => rfl


mutual
/-- every String text of the value is valid UTF-8 (JSON's own domain) -/
def Value.utf8OK : Value → Bool
  | .str b => validUtf8 b
  | .comp vals => Value.utf8OKList vals
  | _ => true
def Value.utf8OKList : List (Tag × Value) → Bool
  | [] => true
  | (_, v) :: rest => v.utf8OK && Value.utf8OKList rest
end

theorem lookupField_lookup : ∀ (subs : List (Tag × Field)) (t : Tag), lookupField subs t = true →
    ∃ f, lookup t subs = some f
  | [], t, h => by simp [lookupField] at h
  | (k, f) :: rest, t, h => by
    simp only [lookupField] at h
    by_cases hk : k = t
    · exact ⟨f, by simp [lookup, hk]⟩
    · simp only [hk, if_false] at h
      obtain ⟨f', hf'⟩ := lookupField_lookup rest t h
      exact ⟨f', by simp [lookup, hk, hf']⟩

theorem lookup_of_mem_distinct {α : Type} : ∀ (l : List (Tag × α)) (t : Tag) (v : α),
    allDistinct (l.map (·.1)) = true → (t, v) ∈ l → lookup t l = some v
  | [], _, _, _, h => by cases h
  | (k, w) :: rest, t, v, hd, h => by
    simp only [List.map_cons, allDistinct_cons] at hd
    rcases List.mem_cons.mp h with h | h
    · cases h; simp [lookup]
    · have : k ≠ t := by
        intro e; subst e
        exact hd.1 (List.mem_map.mpr ⟨(k, v), h, rfl⟩)
      simp [lookup, this, lookup_of_mem_distinct rest t v hd.2 h]

theorem inDomainSubs_lookup : ∀ (subs : List (Tag × Field)) (vals : List (Tag × Value)) (t : Tag) (f : Field)
    (v : Value), Field.inDomainSubs subs vals = true → lookup t subs = some f → lookup t vals = some v →
    f.inDomain v = true
  | [], _, _, _, _, _, h, _ => by simp [lookup] at h
  | (k, g) :: rest, vals, t, f, v, hd, hl, hv => by
    simp only [Field.inDomainSubs, Bool.and_eq_true] at hd
    simp only [lookup] at hl
    by_cases hk : k = t
    · subst hk
      simp only [if_true, Option.some.injEq] at hl
      subst hl
      simpa [hv] using hd.1
    · simp only [hk, if_false] at hl
      exact inDomainSubs_lookup rest vals t f v hd.2 hl hv

theorem coherentSubs_lookup : ∀ (subs : List (Tag × Field)) (pos : Bool) (t : Tag) (f : Field),
    Field.coherentSubs subs pos = true → lookup t subs = some f → ∃ lp, f.coherent lp = true
  | [], _, _, _, _, h => by simp [lookup] at h
  | [(k, g)], pos, t, f, hc, hl => by
    simp only [Field.coherentSubs] at hc
    simp only [lookup] at hl
    by_cases hk : k = t
    · simp only [hk, if_true, Option.some.injEq] at hl; subst hl; exact ⟨pos, hc⟩
    · simp [hk] at hl
  | (k, g) :: (k2, g2) :: rest, pos, t, f, hc, hl => by
    simp only [Field.coherentSubs, Bool.and_eq_true] at hc
    simp only [lookup] at hl
    by_cases hk : k = t
    · simp only [hk, if_true, Option.some.injEq] at hl; subst hl; exact ⟨false, hc.1⟩
    · simp only [hk, if_false] at hl
      exact coherentSubs_lookup ((k2, g2) :: rest) pos t f hc.2 (by simpa [lookup] using hl)

theorem lookup_key_mem {α : Type} : ∀ (l : List (Tag × α)) (t : Tag) (f : α), lookup t l = some f →
    ∃ p ∈ l, p.1 = t
  | [], _, _, h => by simp [lookup] at h
  | (k, g) :: rest, t, f, h => by
    simp only [lookup] at h
    by_cases hk : k = t
    · exact ⟨(k, g), by simp, hk⟩
    · simp only [hk, if_false] at h
      obtain ⟨p, hp, e⟩ := lookup_key_mem rest t f h
      exact ⟨p, by simp [hp], e⟩

theorem tagAlnum_of_digits (t : Tag) (h : t.all isDigitB = true) : tagAlnum t = true := by
  unfold tagAlnum
  rw [List.all_eq_true] at h ⊢
  intro c hc
  have := h c hc
  simp only [isDigitB, decide_eq_true_eq] at this ⊢
  omega

/-- the tags of a coherent composite are alphanumeric (K5) -/
theorem coherent_tagAlnum (s : CompSpec) (subs : List (Tag × Field)) (lp : Bool)
    (hc : (Field.comp s subs).coherent lp = true) (t : Tag) (f : Field) (hl : lookup t subs = some f) :
    tagAlnum t = true ∧ ∃ lp', f.coherent lp' = true := by
  obtain ⟨p, hp, rfl⟩ := lookup_key_mem subs t f hl
  rw [Field.coherent] at hc
  simp only [Bool.and_eq_true] at hc
  obtain ⟨_, hmode⟩ := hc
  cases hm : s.mode with
  | tagged tg =>
    simp only [hm, Bool.and_eq_true, List.all_eq_true] at hmode
    have htag := hmode.1 p hp
    simp only [TagSpec.tagOK, Bool.and_eq_true] at htag
    refine ⟨htag.1.1, ?_⟩
    cases he : tg.enc with
    | none =>
      simp only [he] at hmode
      exact coherentSubs_lookup subs true p.1 f hmode.2 hl
    | some enc =>
      simp only [he, Bool.and_eq_true] at hmode
      exact coherentSubs_lookup subs false p.1 f hmode.2.2 hl
  | bitmapped b =>
    simp only [hm, Bool.and_eq_true, List.all_eq_true] at hmode
    have htag := (hmode.1.2 p hp).1
    simp only [canonicalDecimal, Bool.and_eq_true] at htag
    exact ⟨tagAlnum_of_digits p.1 htag.1.1, coherentSubs_lookup subs false p.1 f hmode.2 hl⟩

theorem validUtf8_of_hex (t : Bytes) (h : t.all isHexB = true) : validUtf8 t = true := by
  apply validUtf8_of_ascii
  rw [List.all_eq_true] at h
  intro c hc
  have := h c hc
  simp only [isHexB, decide_eq_true_eq] at this
  omega

mutual
/-- Coherent + InDomain + valid UTF-8 texts put a field value in the domain of the JSON theorems -/
theorem jsonDomain_of_inDomain : ∀ (v : Value) (f : Field) (lp : Bool),
    f.coherent lp = true → f.inDomain v = true → v.utf8OK = true → jsonDomain f v = true
  | .str b, f, lp, _, hd, hu => by
    cases f with
    | prim s =>
      simp only [Field.inDomain, Bool.and_eq_true] at hd
      simp only [Value.utf8OK] at hu
      simp [jsonDomain, hd.1.1, hu]
    | comp s subs => simp [Field.inDomain] at hd
  | .num i, f, lp, _, hd, _ => by
    cases f with
    | prim s =>
      simp only [Field.inDomain, Bool.and_eq_true] at hd
      simp only [jsonDomain, Bool.and_eq_true]
      exact ⟨hd.1.1, hd.1.2⟩
    | comp s subs => simp [Field.inDomain] at hd
  | .bin b, f, lp, _, hd, _ => by
    cases f with
    | prim s =>
      simp only [Field.inDomain, Bool.and_eq_true] at hd
      simp [jsonDomain, hd.1.1]
    | comp s subs => simp [Field.inDomain] at hd
  | .hexv t, f, lp, _, hd, _ => by
    cases f with
    | prim s =>
      simp only [Field.inDomain, Bool.and_eq_true] at hd
      simp [jsonDomain, hd.1.1.1.1, validUtf8_of_hex t hd.1.1.1.2]
    | comp s subs => simp [Field.inDomain] at hd
  | .comp vals, f, lp, hc, hd, hu => by
    cases f with
    | prim s => simp [Field.inDomain] at hd
    | comp s subs =>
      simp only [Field.inDomain, Bool.and_eq_true] at hd
      simp only [Value.utf8OK] at hu
      simp only [jsonDomain, Bool.and_eq_true]
      refine ⟨hd.1.1.1, ?_⟩
      have hallk : ∀ p ∈ vals, lookupField subs p.1 = true := by
        have := hd.1.2
        rw [List.all_eq_true] at this
        exact this
      exact jsonDomainList_of_inDomain vals s subs lp hc vals hd.1.1.1 hd.1.1.2 hu (fun p hp => ⟨hp, hallk p hp⟩)

theorem jsonDomainList_of_inDomain : ∀ (rest : List (Tag × Value)) (s : CompSpec) (subs : List (Tag × Field))
    (lp : Bool), (Field.comp s subs).coherent lp = true →
    ∀ (vals : List (Tag × Value)), allDistinct (vals.map (·.1)) = true → Field.inDomainSubs subs vals = true →
    Value.utf8OKList rest = true → (∀ p ∈ rest, p ∈ vals ∧ lookupField subs p.1 = true) →
    jsonDomainList subs rest = true
  | [], _, _, _, _, _, _, _, _, _ => rfl
  | (t, v) :: rest, s, subs, lp, hc, vals, hdist, hsubs, hu, hmem => by
    simp only [Value.utf8OKList, Bool.and_eq_true] at hu
    obtain ⟨hin, hlf⟩ := hmem (t, v) (by simp)
    obtain ⟨f, hl⟩ := lookupField_lookup subs t hlf
    obtain ⟨hal, lp', hcf⟩ := coherent_tagAlnum s subs lp hc t f hl
    have hv : lookup t vals = some v := lookup_of_mem_distinct vals t v hdist hin
    have hdom := inDomainSubs_lookup subs vals t f v hsubs hl hv
    simp only [jsonDomainList, Bool.and_eq_true, hl]
    exact ⟨⟨hal, jsonDomain_of_inDomain v f lp' hcf hdom hu.1⟩,
      jsonDomainList_of_inDomain rest s subs lp hc vals hdist hsubs hu.2 (fun p hp => hmem p (by simp [hp]))⟩
end

theorem lookupId_mem {α : Type} (i : Nat) : ∀ (l : List (Nat × α)) (f : α), lookupId i l = some f → (i, f) ∈ l
  | [], _, h => by simp [lookupId] at h
  | (k, g) :: rest, f, h => by
    simp only [lookupId] at h
    by_cases hk : k = i
    · simp only [hk, if_true, Option.some.injEq] at h; subst h; simp [hk]
    · simp only [hk, if_false] at h; exact List.mem_cons_of_mem _ (lookupId_mem i rest f h)

/-- every text of the message is valid UTF-8 -/
def Msg.utf8OK (m : Msg) : Bool :=
  (match m.mti with | some v => v.utf8OK | none => true) && m.fields.all fun p => p.2.utf8OK

/-- Coherent + InDomain + valid UTF-8 + Go-int ids ⇒ the domain of the JSON theorems -/
theorem msgJsonDomain_of_inDomain (spec : MsgSpec) (m : Msg) (hc : spec.coherent = true)
    (hd : spec.inDomain m = true) (hu : m.utf8OK = true) (hids : ∀ p ∈ m.fields, p.1 < 2 ^ 63) :
    msgJsonDomain spec m = true := by
  simp only [MsgSpec.coherent, Bool.and_eq_true, List.all_eq_true] at hc
  simp only [MsgSpec.inDomain, Bool.and_eq_true, List.all_eq_true] at hd
  simp only [Msg.utf8OK, Bool.and_eq_true, List.all_eq_true] at hu
  simp only [msgJsonDomain, Bool.and_eq_true, List.all_eq_true, decide_eq_true_eq]
  refine ⟨⟨?_, hd.1.2⟩, fun p hp => ?_⟩
  · cases hm : m.mti with
    | none => rfl
    | some v =>
      simp only [hm] at hd hu
      exact jsonDomain_of_inDomain v (.prim spec.mti) false hc.1.1.1.1.1.2 hd.1.1 hu.1
  · have hpd := hd.2 p hp
    cases hl : lookupId p.1 spec.fields with
    | none => simp [hl] at hpd
    | some f =>
      simp only [hl] at hpd ⊢
      have hmemS : (p.1, f) ∈ spec.fields := lookupId_mem p.1 spec.fields f hl
      have hcf := hc.2 (p.1, f) hmemS
      simp only [Bool.and_eq_true, decide_eq_true_eq] at hcf
      exact ⟨⟨hcf.1.1, hids p hp⟩, jsonDomain_of_inDomain p.2 f false hcf.2 hpd (hu.2 p hp)⟩


end Iso8583
